(* Proofs/RoundSparse.v -- the compressed-sparse-column product of Model/Sparse.v ([sp_mul]: column-oriented scatter
   result[row_index[k]] += val[k] * x[j]) in the STANDARD MODEL of floating-point arithmetic (Base/RoundModel.v),
   the same Gallina [sp_mul] instantiated at [ARm]:

     sp_mul_backward_error_lemma :  fl(A x) = (A + dA) x  where dA has the sparsity pattern of A and perturbs every
        STORED value val[k] of row i by a relative amount  |th| <= gam m_i ,  m_i = number of entries stored in row i
        (m_i <= cols when no position is stored twice) -- componentwise |dA| <= gam |A| on the stored entries;
     sp_mul_forward_error_lemma  :  |fl(A x)_i - (A x)_i| <= gam m_i  Sum_{stored (i,j,v)} |v| |x_j| .

   [row_entries s i] lists the (column, storage index) pairs of row i in the order the scatter loop meets them; the
   exact value (A x)_i is the real sum over that list.  The "to rounding accuracy" half of C07.  The first addition
   onto the zero-initialised result is exact ([fadd_0_mul], as in Proofs/RoundDot.v). *)
From Coq Require Import List Arith Lia Reals Lra Psatz Bool.
From OV Require Import Base.Panic Base.Arith Base.RoundModel Model.Vector Model.Matrix Model.Sparse
  Proofs.Matrix Proofs.SparseBase Proofs.SparseMul Proofs.RoundDot.
Import ListNotations.
Local Open Scope R_scope.

Lemma filter_len_le {X} (P : X -> bool) (l : list X) : (length (filter P l) <= length l)%nat.
Proof. induction l as [|a l IH]; cbn; [lia|]. destruct (P a); cbn; lia. Qed.

(* ---------------------------------------------------------------- over any arithmetic: the rows of the scatter loop *)
Section SpGen.
Context {A : Arith}.

(* the stored entries of row i, as (column, storage index), in storage (= accumulation) order *)
Definition row_entries (s : sparse A) (i : nat) : list (nat * nat) :=
  filter (fun jk => (nth (snd jk) (sp_row_index s) 0%nat =? i)%nat) (visits (sp_col_start s) (sp_cols s)).
Definition re_val (s : sparse A) (i t : nat) : A := nth (snd (nth t (row_entries s i) (0%nat, 0%nat))) (sp_val s) zero.
Definition re_col (s : sparse A) (i t : nat) : nat := fst (nth t (row_entries s i) (0%nat, 0%nat)).

Lemma fold_add_sum_acc_gen (l : list A) (a : A) :
  fold_left add l a = sum_acc a (length l) (fun k => nth k l zero).
Proof.
  revert a; induction l as [|x l IH]; intros a; [reflexivity|].
  cbn [fold_left length]. rewrite sum_acc_shift. cbn [nth]. apply IH.
Qed.

Lemma sp_mul_Ok_rows (s : sparse A) (x y : list A) : wfS s -> sp_mul s x = Ok y ->
  length x = sp_cols s /\ length y = sp_rows s /\
  forall i, (i < sp_rows s)%nat ->
    nth i y zero = sum_n (length (row_entries s i)) (fun t => mul (re_val s i t) (nth (re_col s i t) x zero)).
Proof.
  intros Hwf E.
  assert (Lx : length x = sp_cols s).
  { unfold sp_mul in E. match type of E with (if negb ?c then _ else _) = _ => destruct c eqn:G end;
      cbn [negb] in E; [|discriminate]. apply Nat.eqb_eq in G. symmetry. exact G. }
  rewrite (sp_mul_fold s x Hwf Lx) in E. injection E as <-.
  split; [exact Lx|]. split; [now rewrite scat_length, repeat_length|].
  intros i Hi. rewrite scat_nth.
  2:{ intros w Hw. apply in_map_iff in Hw as (jk & <- & Hin). cbn [fst].
      rewrite repeat_length. now apply wf_row_lt. }
  rewrite nth_repeat. rewrite filter_map_comm, map_map. cbn [fst snd].
  fold (row_entries s i).
  rewrite fold_add_sum_acc_gen, sum_acc_zero, map_length.
  apply sum_n_ext. intros t Ht.
  rewrite (nth_indep _ zero (mul (nth (snd (0%nat, 0%nat)) (sp_val s) zero) (nth (fst (0%nat, 0%nat)) x zero)))
    by (rewrite map_length; exact Ht).
  rewrite (map_nth (fun jk : nat * nat => mul (nth (snd jk) (sp_val s) zero) (nth (fst jk) x zero))).
  reflexivity.
Qed.

End SpGen.

Section RoundSparse.
Variable u : R.
Hypothesis u_range : 0 <= u < 1.
Variables fadd fsub fmul fdiv : R -> R -> R.
Hypothesis fadd_ok : forall x y, exists d, Rabs d <= u /\ fadd x y = (x + y) * (1 + d).
Hypothesis fmul_ok : forall x y, exists d, Rabs d <= u /\ fmul x y = x * y * (1 + d).
Hypothesis fadd_0_mul : forall a b, fadd 0 (fmul a b) = fmul a b.

Notation AR := (ARm fadd fsub fmul fdiv).
Notation gam := (gam u).

Lemma fold_add_sum_acc (l : list R) (a : R) :
  fold_left fadd l a = sum_acc (A := AR) a (length l) (fun k => nth k l 0).
Proof. exact (fold_add_sum_acc_gen (A := AR) l a). Qed.

Theorem sp_mul_backward_error_lemma (s : sparse AR) (x y : list R) :
  wfS s -> sp_mul s x = Ok y ->
  length y = sp_rows s /\
  forall i, (i < sp_rows s)%nat -> INR (length (row_entries s i)) * u < 1 ->
    exists th : nat -> R,
      (forall t, (t < length (row_entries s i))%nat -> Rabs (th t) <= gam (length (row_entries s i))) /\
      nth i y 0 = Rsum (length (row_entries s i))
                    (fun t => re_val s i t * (1 + th t) * nth (re_col s i t) x 0).
Proof using u_range fadd_ok fmul_ok fadd_0_mul.
  intros Hwf E. destruct (sp_mul_Ok_rows (A := AR) s x y Hwf E) as (Lx & Ly & Hrow). split; [exact Ly|].
  intros i Hi Hn.
  assert (Ei : nth i y 0 = sum_n (A := AR) (length (row_entries s i))
                             (fun t => fmul (re_val s i t) (nth (re_col s i t) x 0))) by exact (Hrow i Hi).
  destruct (sum_prod_round u u_range fadd fsub fmul fdiv fadd_ok fmul_ok fadd_0_mul (length (row_entries s i))
              (fun t => re_val s i t) (fun t => nth (re_col s i t) x 0)) as (W & HW & EW).
  exists (fun t => W t - 1). split.
  - intros t Ht. apply (bnd_gam u u_range); [now apply HW|exact Hn].
  - etransitivity; [exact Ei|]. etransitivity; [exact EW|]. apply Rsum_ext. intros t Ht. ring.
Qed.

Theorem sp_mul_forward_error_lemma (s : sparse AR) (x y : list R) :
  wfS s -> sp_mul s x = Ok y ->
  forall i, (i < sp_rows s)%nat -> INR (length (row_entries s i)) * u < 1 ->
    Rabs (nth i y 0 - Rsum (length (row_entries s i)) (fun t => re_val s i t * nth (re_col s i t) x 0))
      <= gam (length (row_entries s i))
         * Rsum (length (row_entries s i)) (fun t => Rabs (re_val s i t) * Rabs (nth (re_col s i t) x 0)).
Proof using u_range fadd_ok fmul_ok fadd_0_mul.
  intros Hwf E i Hi Hn. destruct (sp_mul_backward_error_lemma s x y Hwf E) as (_ & H).
  destruct (H i Hi Hn) as (th & Hth & ->). rewrite <- Rsum_minus.
  rewrite (Rsum_ext _ _ (fun t => (re_val s i t * nth (re_col s i t) x 0) * th t)) by (intros; ring).
  eapply Rle_trans; [apply Rsum_pert_le; exact Hth|].
  apply Rmult_le_compat_l; [now apply (gam_nonneg u u_range)|].
  apply Req_le, Rsum_ext. intros t Ht. apply Rabs_mult.
Qed.

(* the number of entries stored in a row is at most the number stored altogether *)
Lemma row_entries_le_nonzero (s : sparse AR) i : wfS s -> (length (row_entries s i) <= sp_nonzero s)%nat.
Proof.
  intros Hwf. unfold row_entries.
  eapply Nat.le_trans; [apply filter_len_le|].
  rewrite <- (map_length snd), (wf_visits_snd s Hwf), seq_length. lia.
Qed.

End RoundSparse.

(* ---------------------------------------------------------------- the primitive-float instance (IEEE binary64) *)
From Coq Require Import Floats.
From OV Require Import Inst.FloatInst Proofs.ComplexRound Proofs.RoundDotFloat.

Theorem sp_mul_backward_error_float_lemma (s : sparse AF) (x y : list pfloat) :
  wfS s -> sp_mul (A := AF) s x = Ok y ->
  length y = sp_rows s /\
  forall i, (i < sp_rows s)%nat -> ffinite (nth i y 0%float) ->
    (forall t, (t < length (row_entries s i))%nat ->
       no_underflow (FR (re_val s i t) * FR (nth (re_col s i t) x 0%float))) ->
    INR (length (row_entries s i)) * u64 < 1 ->
    exists th : nat -> R,
      (forall t, (t < length (row_entries s i))%nat -> Rabs (th t) <= g64 (length (row_entries s i))) /\
      FR (nth i y 0%float) = Rsum (length (row_entries s i))
                               (fun t => FR (re_val s i t) * (1 + th t) * FR (nth (re_col s i t) x 0%float)).
Proof.
  intros Hwf E. destruct (sp_mul_Ok_rows (A := AF) s x y Hwf E) as (Lx & Ly & Hrow). split; [exact Ly|].
  intros i Hi Fi Hu Hn.
  assert (Ei : nth i y 0%float = sum_n (A := AF) (length (row_entries s i))
                 (fun t => (re_val s i t * nth (re_col s i t) x 0%float)%float)) by exact (Hrow i Hi).
  rewrite Ei in Fi |- *.
  pose proof (sum_n_float_transfer (length (row_entries s i)) (fun t => re_val s i t)
                (fun t => nth (re_col s i t) x 0%float) Fi Hu) as ET.
  destruct (sum_prod_round u64 u64_range Fadd Fsub Fmul Fdiv Fadd_ok Fmul_ok Fadd_0_mul (length (row_entries s i))
              (fun t => FR (re_val s i t)) (fun t => FR (nth (re_col s i t) x 0%float))) as (W & HW & EW).
  exists (fun t => W t - 1). split.
  - intros t Ht. apply (bnd_gam u64 u64_range); [now apply HW|exact Hn].
  - etransitivity; [exact ET|]. etransitivity; [exact EW|]. apply Rsum_ext. intros t Ht. ring.
Qed.
