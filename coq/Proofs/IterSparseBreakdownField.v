(* Proofs/IterSparseBreakdownField.v -- round two, package iter2: the breakdowns of the Lanczos-type solvers in
   exact arithmetic (any field, FieldLaws; the matrix a total linear product, LinOp).
   * [bicgstab_rho_exit_orthogonal]: when solve_bicgstab gives up through `rho_1 == 0`, the TRUE residual of the
     returned x is orthogonal to the initial residual:  <b - A x0, b - A x> = 0.
   * [bicg_left_eigenvector_breakdown]: the mechanism of the open finding solve_bicg/breakdown as a theorem:
     if the initial residual r0 is a left eigenvector of A (A^T r0 = lambda r0, lambda <> 0) and neither the
     start-up test nor the test after the first step accepts, the second iteration of BiCG divides 0 by 0 --
     in exact arithmetic the model panics (DivZero), in f64 it produces the NaN of bicg_no_breakdown_test.
     (The witness [[2,-1],[0,1]] x = (2,-2), x0 = 0 is an instance: A^T (2,-2) = 2 (2,-2).) *)
From Coq Require Import List Arith Lia Bool Ring Field.
From OV Require Import Base.Panic Base.Arith Model.Vector Model.Matrix Model.Sparse Model.Iter Proofs.SparseBase Proofs.SparseMul
  Proofs.Iter Proofs.IterField Proofs.IterSparse Proofs.IterSparseBreakdown Proofs.IterCGVec.
Import ListNotations.

Section StabField.
Context {A : SArith}.
Notation F := (T (SA A)).
Variable FL : FieldLaws (SA A).
Variables (n : nat) (mulA : list F -> res (list F)).
Hypothesis LO : LinOp n mulA.

Theorem bicgstab_rho_exit_orthogonal cols (b x0 : list F) max tol e x g :
  solve_bicgstab mulA n cols b x0 max tol = Ok (IErr e, x, g) -> g_exit g = 10 ->
  exists ax0 ax, mulA x0 = Ok ax0 /\ mulA x = Ok ax /\
    dot_raw (zipw sub b ax0) (zipw sub b ax) = zero.
Proof.
  intros H Hc.
  destruct (solve_bicgstab_tracks FL n mulA LO cols b x0 max tol _ H) as (ax & Eax & Eg).
  destruct (solve_bicgstab_err_start mulA n cols b x0 max tol e x g H) as (ax0 & r0 & resid & Hg & Eax0 & Er0 & Ed & Ht & Hloop).
  exists ax0, ax. split; auto. split; auto.
  apply vsub_Ok in Er0 as (_ & ->).
  apply iloop_reach in Hloop as [(i & s & _ & _ & Eb)|(s & _ & E)].
  - destruct (proj1 (stab_body_rho_exit_iff mulA n _ tol _ i s _ Eb)) as (rho & Erho & Ez).
    { exists e, x, g. auto. }
    destruct (stab_body_rho_exit_out mulA n _ tol _ i s rho _ Eb Erho Ez) as (e' & _ & Eo).
    injection Eo as _ _ Egg. rewrite <- Eg. rewrite Egg. cbn [g_t].
    apply (fl_eqb (SA A) FL) in Ez. subst rho.
    unfold dot in Erho. destruct (length (zipw sub b ax0) =? length (st_r s)); [|discriminate].
    now injection Erho.
  - unfold stab_final in E. injection E as _ _ ->. discriminate Hc.
Qed.
End StabField.

Section BiCGField.
Context {A : SArith}.
Notation F := (T (SA A)).
Variable FL : FieldLaws (SA A).
Add Field FFb : (fl_field (SA A) FL).
Notation finv := (fl_inv (SA A) FL).
Variables (n : nat) (mulA mulAT : list F -> res (list F)).
Hypothesis LO : LinOp n mulA.
Hypothesis ADJ : AdjOp n mulA mulAT.

Lemma shadow_vanishes (r : list F) lam alpha : mul lam alpha = one ->
  zipw sub r (vscale (vscale r lam) alpha) = repeat zero (length r).
Proof.
  intros H. induction r as [|a r IH]; [reflexivity|].
  change (zipw sub (a :: r) (vscale (vscale (a :: r) lam) alpha))
    with (sub a (mul (mul a lam) alpha) :: zipw sub r (vscale (vscale r lam) alpha)).
  rewrite IH. cbn [length repeat]. f_equal.
  replace (sub a (mul (mul a lam) alpha)) with (mul a (sub one (mul lam alpha))) by ring. rewrite H. ring.
Qed.

Lemma zeros_plus_zero_scaled (v : list F) c :
  zipw add (repeat zero (length v)) (vscale v (mul zero c)) = repeat zero (length v).
Proof.
  induction v as [|a v IH]; [reflexivity|].
  cbn [length repeat]. change (zipw add (zero :: repeat zero (length v)) (vscale (a :: v) (mul zero c)))
    with (add zero (mul a (mul zero c)) :: zipw add (repeat zero (length v)) (vscale v (mul zero c))).
  rewrite IH. f_equal. ring.
Qed.

Lemma div_zero_zero : @div (SA A) zero zero = Panic DivZero.
Proof.
  rewrite (fl_div (SA A) FL). replace (eqb (@zero (SA A)) zero) with true; auto.
  symmetry. now apply (fl_eqb (SA A) FL).
Qed.

Theorem bicg_left_eigenvector_breakdown itol (b x0 ax ar0 : list F) lam max tol err0 err1 :
  itol = 1 \/ itol = 2 -> length b = n -> length x0 = n -> mulA x0 = Ok ax ->
  let r0 := zipw sub b ax in
  let rho := dot_raw r0 r0 in
  let alpha := mul rho (finv (mul rho lam)) in
  mulAT r0 = Ok (vscale r0 lam) -> lam <> zero -> rho <> zero ->
  mulA r0 = Ok ar0 ->
  div (norm2 r0) (nz (norm2 b)) = Ok err0 -> leb err0 tol = false ->
  div (norm2 (zipw sub r0 (vscale ar0 alpha))) (nz (norm2 b)) = Ok err1 -> leb err1 tol = false ->
  2 <= max ->
  solve_bicg mulA mulAT n n itol b x0 max tol = Panic DivZero.
Proof.
  intros Hit Hb Hx Eax r0 rho alpha Eeig Hlam Hrho Ear0 Eerr0 Ht0 Eerr1 Ht1 Hmax.
  assert (Hax : length ax = n) by (eapply mulA_len; eauto).
  assert (Hr0 : length r0 = n) by (unfold r0; rewrite zipw_length; lia).
  assert (Har0 : length ar0 = n) by (eapply mulA_len; eauto).
  assert (Hzl := @zeros_length A n).
  assert (Hzpp : dot_raw ar0 r0 = mul rho lam).
  { rewrite (dot_raw_comm FL). rewrite (ao_adj n mulA mulAT ADJ r0 r0 ar0 (vscale r0 lam) Hr0 Hr0 Ear0 Eeig).
    now rewrite (dot_raw_scale_l FL). }
  assert (Hzppnz : mul rho lam <> zero).
  { intros E. apply Hlam. exact (mul_zero_inv FL rho lam E Hrho). }
  assert (Hla : mul lam alpha = one) by (unfold alpha; field; split; auto).
  set (r1 := zipw sub r0 (vscale ar0 alpha)) in *.
  assert (Hr1 : length r1 = n) by (unfold r1; rewrite zipw_length; auto; rewrite vscale_length; lia).
  (* the start-up *)
  assert (Estart : bicg_start mulA n n itol b x0 = Ok (r0, norm2 b, r0)).
  { unfold bicg_start. rewrite (guards_pass n b x0 Hb Hx), Eax. cbn [bind].
    unfold vsub. rewrite Hb, Hax, Nat.eqb_refl. cbn [bind]. fold r0.
    destruct Hit as [-> | ->]; cbn [Nat.eqb].
    - rewrite ident_pre_ok by auto. reflexivity.
    - rewrite ident_pre_ok by auto. cbn [bind]. rewrite ident_pre_ok by auto. reflexivity. }
  unfold solve_bicg. rewrite Estart. cbn [bind]. rewrite Eerr0. cbn [bind]. rewrite Ht0.
  destruct max as [|[|max]]; try lia. cbn [iloop].
  (* first iteration *)
  set (X0 := trace0 x0 err0 tol).
  assert (E1 : exists X1, bicg_body mulA mulAT n itol tol (nz (norm2 b)) 1
                 (mkBI x0 r0 r0 r0 (zeros n) (zeros n) (zeros n) one err0 X0)
               = Ok (Continue (mkBI (zipw add x0 (vscale r0 alpha)) r1 (repeat zero n) r1 (vscale r0 lam) r0 r0 rho err1 X1))).
  { unfold bicg_body. cbn [bi_x bi_r bi_rr bi_z bi_zz bi_p bi_pp bi_rho2 bi_err bi_X].
    rewrite ident_pre_ok by auto. cbn [bind]. rewrite dot_ok by auto. cbn [bind Nat.eqb].
    rewrite Ear0. cbn [bind]. rewrite dot_ok by lia. cbn [bind]. rewrite Hzpp.
    rewrite (div_ok FL) by exact Hzppnz. cbn [bind]. fold rho alpha. rewrite Eeig. cbn [bind].
    unfold vadd, vsub. rewrite !vscale_length, Hx, Hr0, Har0, Nat.eqb_refl. cbn [bind].
    fold r1. rewrite (shadow_vanishes r0 lam alpha Hla), Hr0.
    rewrite ident_pre_ok by auto. cbn [bind].
    destruct Hit as [-> | ->]; cbn [Nat.eqb bind]; rewrite Eerr1; cbn [bind]; rewrite Ht1; eexists; reflexivity. }
  destruct E1 as (X1 & E1). rewrite E1. cbn [bind].
  (* second iteration: 0 / 0 *)
  unfold bicg_body. cbn [bi_x bi_r bi_rr bi_z bi_zz bi_p bi_pp bi_rho2 bi_err bi_X].
  rewrite ident_pre_ok by (rewrite ?repeat_length, ?vscale_length; auto). cbn [bind].
  rewrite dot_ok by (rewrite repeat_length; auto). cbn [bind Nat.eqb].
  rewrite (dot_raw_zeros_r FL). rewrite (div_ok FL) by exact Hrho. cbn [bind].
  unfold vadd. rewrite !vscale_length, Hr1, Hr0, repeat_length, Nat.eqb_refl. cbn [bind].
  replace (zipw add (repeat zero n) (vscale r0 (mul zero (finv rho)))) with (repeat (@zero (SA A)) n)
    by (rewrite <- Hr0; symmetry; apply zeros_plus_zero_scaled).
  set (p2 := zipw add r1 (vscale r0 (mul zero (finv rho)))).
  assert (Hp2 : length p2 = n) by (unfold p2; rewrite zipw_length; auto; rewrite vscale_length; lia).
  destruct (lo_ok n mulA LO p2 Hp2) as (z2 & Ez2 & Hz2). rewrite Ez2. cbn [bind].
  rewrite dot_ok by (rewrite repeat_length; auto). cbn [bind].
  rewrite (dot_raw_zeros_r FL), div_zero_zero. reflexivity.
Qed.

End BiCGField.

(* ---------------------------------------------------------------- BiCGSTAB on a left eigenvector *)
Section StabEigen.
Context {A : SArith}.
Notation F := (T (SA A)).
Variable FL : FieldLaws (SA A).
Add Field FFs : (fl_field (SA A) FL).
Variables (n : nat) (mulA mulAT : list F -> res (list F)).
Hypothesis LO : LinOp n mulA.
Hypothesis ADJ : AdjOp n mulA mulAT.

(* the mechanism of the open finding solve_bicgstab/breakdown: if the initial (= shadow) residual r0 is a left
   eigenvector of A, then <r0, r1> = <r0, s> - omega <A^T r0, s> = 0 because alpha makes <r0, s> vanish:
   whenever solve_bicgstab returns at all it returns from its FIRST step (Ok 1, or Err through `omega == 0`)
   or from the first line of its second iteration through `rho_1 == 0` -- it never performs a second step *)
Theorem bicgstab_left_eigenvector_breakdown (b x0 ax : list F) lam max tol res x g :
  mulA x0 = Ok ax ->
  let r0 := zipw sub b ax in
  mulAT r0 = Ok (vscale r0 lam) -> 2 <= max ->
  solve_bicgstab mulA n n b x0 max tol = Ok (res, x, g) ->
  res = IOk 0 \/ res = IOk 1 \/ (exists e, res = IErr e /\ (g_exit g = 10 \/ g_exit g = 11)).
Proof.
  intros Eax r0 Eeig Hmax H.
  unfold solve_bicgstab in H.
  apply bind_ok in H as (u & Hg & H). apply guards_Ok in Hg as (Hb & _ & Hx).
  rewrite Eax in H. cbn [bind] in H. apply bind_ok in H as (r0' & Er0 & H).
  apply vsub_Ok in Er0 as (Hlb & ->). fold r0 in H.
  assert (Hr0 : length r0 = n) by (unfold r0; rewrite zipw_length; lia).
  apply bind_ok in H as (resid & Ed & H). cbv zeta in H.
  destruct (leb resid tol).
  { injection H as <- _ _. now left. }
  destruct max as [|[|max]]; try lia. cbn [iloop] in H.
  apply bind_ok in H as (out1 & Eb1 & H).
  (* ---- the first iteration, statement by statement ---- *)
  unfold stab_body in Eb1. cbn [st_x st_r st_p st_phat st_shat st_v st_rho2 st_alpha st_omega st_resid st_X] in Eb1.
  apply bind_ok in Eb1 as (rho & Erho & Eb1). cbv beta in Eb1.
  destruct (eqb rho zero).
  { apply bind_ok in Eb1 as (e & _ & Eb1). injection Eb1 as <-. injection H as <- _ <-.
    right. right. eexists. split; [reflexivity|]. now left. }
  cbn [Nat.eqb bind] in Eb1.
  rewrite ident_pre_ok in Eb1 by (auto; apply zeros_length). cbn [bind] in Eb1.
  apply bind_ok in Eb1 as (v & Ev & Eb1). apply bind_ok in Eb1 as (rv & Erv & Eb1).
  apply bind_ok in Eb1 as (alpha & Ea & Eb1). apply bind_ok in Eb1 as (sv & Esv & Eb1).
  apply bind_ok in Eb1 as (resid1 & Ed1 & Eb1). cbv zeta in Eb1.
  assert (Hv : length v = n) by (eapply mulA_len; eauto).
  apply vsub_Ok in Esv as (_ & ->).
  set (sv := zipw sub r0 (vscale v alpha)) in *.
  assert (Hsv : length sv = n) by (unfold sv; rewrite zipw_length; auto; rewrite vscale_length; lia).
  destruct (leb resid1 tol).
  { apply bind_ok in Eb1 as (x1 & _ & Eb1). injection Eb1 as <-. injection H as <- _ _. right. now left. }
  rewrite ident_pre_ok in Eb1 by (auto; apply zeros_length). cbn [bind] in Eb1.
  apply bind_ok in Eb1 as (t & Et & Eb1). apply bind_ok in Eb1 as (ts & Ets & Eb1).
  apply bind_ok in Eb1 as (tdt & Etdt & Eb1). apply bind_ok in Eb1 as (omega & Eo & Eb1).
  apply bind_ok in Eb1 as (x1 & Ex1 & Eb1). apply bind_ok in Eb1 as (x2 & Ex2 & Eb1).
  apply bind_ok in Eb1 as (r1 & Er1 & Eb1). apply bind_ok in Eb1 as (resid2 & Ed2 & Eb1). cbv zeta in Eb1.
  assert (Ht : length t = n) by (eapply mulA_len; eauto).
  apply vsub_Ok in Er1 as (_ & ->).
  destruct (ltb resid2 tol).
  { injection Eb1 as <-. injection H as <- _ _. right. now left. }
  destruct (eqb omega zero).
  { injection Eb1 as <-. injection H as <- _ <-. right. right. eexists. split; [reflexivity|]. now right. }
  injection Eb1 as <-.
  (* ---- the second iteration: <r0, r1> = 0 ---- *)
  cbn [iloop] in H. apply bind_ok in H as (out2 & Eb2 & H).
  unfold stab_body in Eb2. cbn [st_x st_r st_p st_phat st_shat st_v st_rho2 st_alpha st_omega st_resid st_X] in Eb2.
  apply bind_ok in Eb2 as (rho2 & Erho2 & Eb2). cbv beta in Eb2.
  assert (Hzero : rho2 = zero).
  { unfold dot in Erho2. rewrite Hr0, zipw_length, Hsv, Nat.eqb_refl in Erho2 by (rewrite vscale_length; lia).
    injection Erho2 as <-.
    rewrite (dot_raw_sub_r FL) by (rewrite vscale_length; lia). rewrite (dot_raw_scale_r FL).
    (* <r0, s> = 0 by the choice of alpha *)
    unfold dot in Erho, Erv. rewrite Nat.eqb_refl in Erho. injection Erho as <-.
    rewrite Hr0, Hv, Nat.eqb_refl in Erv. injection Erv as <-.
    apply (div_Ok_inv FL) in Ea as (Hrvnz & ->).
    assert (Hr0s : dot_raw r0 sv = zero).
    { unfold sv. rewrite (dot_raw_sub_r FL) by (rewrite vscale_length; lia). rewrite (dot_raw_scale_r FL).
      field. exact Hrvnz. }
    (* <r0, A s> = <A^T r0, s> = lam <r0, s> *)
    rewrite (ao_adj n mulA mulAT ADJ sv r0 t (vscale r0 lam) Hsv Hr0 Et Eeig).
    rewrite (dot_raw_scale_l FL), Hr0s. ring. }
  subst rho2. replace (eqb (@zero (SA A)) zero) with true in Eb2 by (symmetry; now apply (fl_eqb (SA A) FL)).
  apply bind_ok in Eb2 as (e & _ & Eb2). injection Eb2 as <-. injection H as <- _ <-.
  right. right. eexists. split; [reflexivity|]. now left.
Qed.

End StabEigen.

(* the same for the implementation's own matrix type, any field *)
Theorem bicgstab_left_eigenvector_breakdown_sparse {A : SArith} (FL : FieldLaws (SA A))
    (s : sparse (SA A)) (b x0 : list (T (SA A))) lam max tol res x g :
  wfS s ->
  let r0 := zipw sub b (sp_apply s x0) in
  sp_tapply s r0 = vscale r0 lam -> 2 <= max ->
  run_sparse BiCGSTAB s b x0 max tol = Ok (res, x, g) ->
  res = IOk 0 \/ res = IOk 1 \/ (exists e, res = IErr e /\ (g_exit g = 10 \/ g_exit g = 11)).
Proof.
  intros Hwf r0 Eeig Hmax H.
  destruct (run_sparse_square BiCGSTAB s b x0 max tol _ H) as (Hsq & Hb & Hx).
  pose proof (FL_RingLaws FL) as RL.
  pose proof (sp_mul_LinOp RL s (sp_rows s) Hwf eq_refl (eq_sym Hsq)) as LO.
  pose proof (sp_mul_AdjOp RL s (sp_rows s) Hwf eq_refl (eq_sym Hsq)) as ADJ.
  assert (Eax : sp_mul s x0 = Ok (sp_apply s x0)) by (apply (sp_mul_spec_lemma RL); auto; lia).
  assert (Hr0 : length r0 = sp_rows s).
  { unfold r0. rewrite zipw_length; auto. unfold sp_apply. rewrite dmulv_length. exact Hb. }
  assert (Eeig' : sp_tmul s r0 = Ok (vscale r0 lam)).
  { rewrite <- Eeig. apply (sp_tmul_spec_lemma RL); auto. }
  unfold run_sparse in H. cbn [run] in H. rewrite <- Hsq in H.
  exact (bicgstab_left_eigenvector_breakdown FL (sp_rows s) (sp_mul s) (sp_tmul s) LO ADJ b x0 _ lam max tol res x g Eax Eeig' Hmax H).
Qed.

(* BiCG on a left-eigenvector start, for the implementation's own matrix type (any field) *)
Theorem bicg_left_eigenvector_breakdown_sparse {A : SArith} (FL : FieldLaws (SA A))
    (s : sparse (SA A)) itol (b x0 : list (T (SA A))) lam max tol err0 err1 :
  wfS s -> sp_rows s = sp_cols s -> itol = 1 \/ itol = 2 -> length b = sp_rows s -> length x0 = sp_rows s ->
  let r0 := zipw sub b (sp_apply s x0) in
  let rho := dot_raw r0 r0 in
  let alpha := mul rho (fl_inv (SA A) FL (mul rho lam)) in
  sp_tapply s r0 = vscale r0 lam -> lam <> zero -> rho <> zero ->
  div (norm2 r0) (nz (norm2 b)) = Ok err0 -> leb err0 tol = false ->
  div (norm2 (zipw sub r0 (vscale (sp_apply s r0) alpha))) (nz (norm2 b)) = Ok err1 -> leb err1 tol = false ->
  2 <= max ->
  run_sparse (BiCG itol) s b x0 max tol = Panic DivZero.
Proof.
  intros Hwf Hsq Hit Hb Hx r0 rho alpha Eeig Hlam Hrho Ee0 Ht0 Ee1 Ht1 Hmax.
  pose proof (FL_RingLaws FL) as RL.
  pose proof (sp_mul_LinOp RL s (sp_rows s) Hwf eq_refl (eq_sym Hsq)) as LO.
  pose proof (sp_mul_AdjOp RL s (sp_rows s) Hwf eq_refl (eq_sym Hsq)) as ADJ.
  assert (Eax : sp_mul s x0 = Ok (sp_apply s x0)) by (apply (sp_mul_spec_lemma RL); auto; lia).
  assert (Hr0 : length r0 = sp_rows s).
  { unfold r0. rewrite zipw_length; auto. unfold sp_apply. rewrite dmulv_length. exact Hb. }
  assert (Ear0 : sp_mul s r0 = Ok (sp_apply s r0)) by (apply (sp_mul_spec_lemma RL); auto; lia).
  assert (Eeig' : sp_tmul s r0 = Ok (vscale r0 lam)).
  { rewrite <- Eeig. apply (sp_tmul_spec_lemma RL); auto. }
  unfold run_sparse. cbn [run]. rewrite <- Hsq.
  exact (bicg_left_eigenvector_breakdown FL (sp_rows s) (sp_mul s) (sp_tmul s) LO ADJ itol b x0 _ _ lam max tol err0 err1
           Hit Hb Hx Eax Eeig' Hlam Hrho Ear0 Ee0 Ht0 Ee1 Ht1 Hmax).
Qed.
