(* Proofs/IterSparseBreakdownField.v -- round two, package iter2: the breakdowns of the Lanczos-type solvers in
   exact arithmetic (any field, FieldLaws; the matrix a total linear product, LinOp).
   * [bicgstab_rho_exit_orthogonal]: when solve_bicgstab gives up through `rho_1 == 0`, the TRUE residual of the
     returned x is orthogonal to the initial residual:  <b - A x0, b - A x> = 0.
   * [bicg_left_eigenvector_breakdown]: the mechanism of the open finding solve_bicg/breakdown as a theorem:
     if the initial residual r0 is a left eigenvector of A (A^T r0 = lambda r0, lambda <> 0) and neither the
     start-up test nor the test after the first step accepts, the second iteration of BiCG divides 0 by 0 --
     in exact arithmetic the model panics (DivZero), in f64 it produces the NaN of bicg_no_breakdown_test.
     (The witness [[2,-1],[0,1]] x = (2,-2), x0 = 0 is an instance: A^T (2,-2) = 2 (2,-2).) *)
From Coq Require Import List Arith Lia Bool Ring Field.
From OV Require Import Base.Panic Base.Arith Model.Vector Model.Iter Proofs.Iter Proofs.IterField
  Proofs.IterSparse Proofs.IterSparseBreakdown Proofs.IterCGVec.
Import ListNotations.

Section StabField.
Context {A : SArith}.
Notation F := (T (SA A)).
Variable FL : FieldLaws (SA A).
Variables (n : nat) (mulA : list F -> res (list F)).
Hypothesis LO : LinOp n mulA.

Theorem bicgstab_rho_exit_orthogonal cols (b x0 : list F) max tol e x g :
  solve_bicgstab mulA n cols b x0 max tol = Ok (IErr e, x, g) -> g_exit g = 10 ->
  exists ax0 ax, mulA x0 = Ok ax0 /\ mulA x = Ok ax /\
    dot_raw (zipw sub b ax0) (zipw sub b ax) = zero.
Proof.
  intros H Hc.
  destruct (solve_bicgstab_tracks FL n mulA LO cols b x0 max tol _ H) as (ax & Eax & Eg).
  destruct (solve_bicgstab_err_start mulA n cols b x0 max tol e x g H) as (ax0 & r0 & resid & Hg & Eax0 & Er0 & Ed & Ht & Hloop).
  exists ax0, ax. split; auto. split; auto.
  apply vsub_Ok in Er0 as (_ & ->).
  apply iloop_reach in Hloop as [(i & s & _ & _ & Eb)|(s & _ & E)].
  - destruct (proj1 (stab_body_rho_exit_iff mulA n _ tol _ i s _ Eb)) as (rho & Erho & Ez).
    { exists e, x, g. auto. }
    destruct (stab_body_rho_exit_out mulA n _ tol _ i s rho _ Eb Erho Ez) as (e' & _ & Eo).
    injection Eo as _ _ Egg. rewrite <- Eg. rewrite Egg. cbn [g_t].
    apply (fl_eqb (SA A) FL) in Ez. subst rho.
    unfold dot in Erho. destruct (length (zipw sub b ax0) =? length (st_r s)); [|discriminate].
    now injection Erho.
  - unfold stab_final in E. injection E as _ _ ->. discriminate Hc.
Qed.
End StabField.

Section BiCGField.
Context {A : SArith}.
Notation F := (T (SA A)).
Variable FL : FieldLaws (SA A).
Add Field FFb : (fl_field (SA A) FL).
Notation finv := (fl_inv (SA A) FL).
Variables (n : nat) (mulA mulAT : list F -> res (list F)).
Hypothesis LO : LinOp n mulA.
Hypothesis ADJ : AdjOp n mulA mulAT.

Lemma shadow_vanishes (r : list F) lam alpha : mul lam alpha = one ->
  zipw sub r (vscale (vscale r lam) alpha) = repeat zero (length r).
Proof.
  intros H. induction r as [|a r IH]; [reflexivity|].
  change (zipw sub (a :: r) (vscale (vscale (a :: r) lam) alpha))
    with (sub a (mul (mul a lam) alpha) :: zipw sub r (vscale (vscale r lam) alpha)).
  rewrite IH. cbn [length repeat]. f_equal.
  replace (sub a (mul (mul a lam) alpha)) with (mul a (sub one (mul lam alpha))) by ring. rewrite H. ring.
Qed.

Lemma zeros_plus_zero_scaled (v : list F) c :
  zipw add (repeat zero (length v)) (vscale v (mul zero c)) = repeat zero (length v).
Proof.
  induction v as [|a v IH]; [reflexivity|].
  cbn [length repeat]. change (zipw add (zero :: repeat zero (length v)) (vscale (a :: v) (mul zero c)))
    with (add zero (mul a (mul zero c)) :: zipw add (repeat zero (length v)) (vscale v (mul zero c))).
  rewrite IH. f_equal. ring.
Qed.

Lemma div_zero_zero : @div (SA A) zero zero = Panic DivZero.
Proof.
  rewrite (fl_div (SA A) FL). replace (eqb (@zero (SA A)) zero) with true; auto.
  symmetry. now apply (fl_eqb (SA A) FL).
Qed.

Theorem bicg_left_eigenvector_breakdown itol (b x0 ax ar0 : list F) lam max tol err0 err1 :
  itol = 1 \/ itol = 2 -> length b = n -> length x0 = n -> mulA x0 = Ok ax ->
  let r0 := zipw sub b ax in
  let rho := dot_raw r0 r0 in
  let alpha := mul rho (finv (mul rho lam)) in
  mulAT r0 = Ok (vscale r0 lam) -> lam <> zero -> rho <> zero ->
  mulA r0 = Ok ar0 ->
  div (norm2 r0) (nz (norm2 b)) = Ok err0 -> leb err0 tol = false ->
  div (norm2 (zipw sub r0 (vscale ar0 alpha))) (nz (norm2 b)) = Ok err1 -> leb err1 tol = false ->
  2 <= max ->
  solve_bicg mulA mulAT n n itol b x0 max tol = Panic DivZero.
Proof.
  intros Hit Hb Hx Eax r0 rho alpha Eeig Hlam Hrho Ear0 Eerr0 Ht0 Eerr1 Ht1 Hmax.
  assert (Hax : length ax = n) by (eapply mulA_len; eauto).
  assert (Hr0 : length r0 = n) by (unfold r0; rewrite zipw_length; lia).
  assert (Har0 : length ar0 = n) by (eapply mulA_len; eauto).
  assert (Hzl := @zeros_length A n).
  assert (Hzpp : dot_raw ar0 r0 = mul rho lam).
  { rewrite (dot_raw_comm FL). rewrite (ao_adj n mulA mulAT ADJ r0 r0 ar0 (vscale r0 lam) Hr0 Hr0 Ear0 Eeig).
    now rewrite (dot_raw_scale_l FL). }
  assert (Hzppnz : mul rho lam <> zero).
  { intros E. apply Hlam. exact (mul_zero_inv FL rho lam E Hrho). }
  assert (Hla : mul lam alpha = one) by (unfold alpha; field; split; auto).
  set (r1 := zipw sub r0 (vscale ar0 alpha)) in *.
  assert (Hr1 : length r1 = n) by (unfold r1; rewrite zipw_length; auto; rewrite vscale_length; lia).
  (* the start-up *)
  assert (Estart : bicg_start mulA n n itol b x0 = Ok (r0, norm2 b, r0)).
  { unfold bicg_start. rewrite (guards_pass n b x0 Hb Hx), Eax. cbn [bind].
    unfold vsub. rewrite Hb, Hax, Nat.eqb_refl. cbn [bind]. fold r0.
    destruct Hit as [-> | ->]; cbn [Nat.eqb].
    - rewrite ident_pre_ok by auto. reflexivity.
    - rewrite ident_pre_ok by auto. cbn [bind]. rewrite ident_pre_ok by auto. reflexivity. }
  unfold solve_bicg. rewrite Estart. cbn [bind]. rewrite Eerr0. cbn [bind]. rewrite Ht0.
  destruct max as [|[|max]]; try lia. cbn [iloop].
  (* first iteration *)
  set (X0 := trace0 x0 err0 tol).
  assert (E1 : exists X1, bicg_body mulA mulAT n itol tol (nz (norm2 b)) 1
                 (mkBI x0 r0 r0 r0 (zeros n) (zeros n) (zeros n) one err0 X0)
               = Ok (Continue (mkBI (zipw add x0 (vscale r0 alpha)) r1 (repeat zero n) r1 (vscale r0 lam) r0 r0 rho err1 X1))).
  { unfold bicg_body. cbn [bi_x bi_r bi_rr bi_z bi_zz bi_p bi_pp bi_rho2 bi_err bi_X].
    rewrite ident_pre_ok by auto. cbn [bind]. rewrite dot_ok by auto. cbn [bind Nat.eqb].
    rewrite Ear0. cbn [bind]. rewrite dot_ok by lia. cbn [bind]. rewrite Hzpp.
    rewrite (div_ok FL) by exact Hzppnz. cbn [bind]. fold rho alpha. rewrite Eeig. cbn [bind].
    unfold vadd, vsub. rewrite !vscale_length, Hx, Hr0, Har0, Nat.eqb_refl. cbn [bind].
    fold r1. rewrite (shadow_vanishes r0 lam alpha Hla), Hr0.
    rewrite ident_pre_ok by auto. cbn [bind].
    destruct Hit as [-> | ->]; cbn [Nat.eqb bind]; rewrite Eerr1; cbn [bind]; rewrite Ht1; eexists; reflexivity. }
  destruct E1 as (X1 & E1). rewrite E1. cbn [bind].
  (* second iteration: 0 / 0 *)
  unfold bicg_body. cbn [bi_x bi_r bi_rr bi_z bi_zz bi_p bi_pp bi_rho2 bi_err bi_X].
  rewrite ident_pre_ok by (rewrite ?repeat_length, ?vscale_length; auto). cbn [bind].
  rewrite dot_ok by (rewrite repeat_length; auto). cbn [bind Nat.eqb].
  rewrite (dot_raw_zeros_r FL). rewrite (div_ok FL) by exact Hrho. cbn [bind].
  unfold vadd. rewrite !vscale_length, Hr1, Hr0, repeat_length, Nat.eqb_refl. cbn [bind].
  replace (zipw add (repeat zero n) (vscale r0 (mul zero (finv rho)))) with (repeat (@zero (SA A)) n)
    by (rewrite <- Hr0; symmetry; apply zeros_plus_zero_scaled).
  set (p2 := zipw add r1 (vscale r0 (mul zero (finv rho)))).
  assert (Hp2 : length p2 = n) by (unfold p2; rewrite zipw_length; auto; rewrite vscale_length; lia).
  destruct (lo_ok n mulA LO p2 Hp2) as (z2 & Ez2 & Hz2). rewrite Ez2. cbn [bind].
  rewrite dot_ok by (rewrite repeat_length; auto). cbn [bind].
  rewrite (dot_raw_zeros_r FL), div_zero_zero. reflexivity.
Qed.

End BiCGField.
