(* Proofs/RoundLUTrace.v -- what lu_decomp (Model/Solve.v, the repaired in-place LU with partial pivoting) computes AT THE
   ROUNDED REALS, in closed form: running the loops of the SAME Gallina lu_decomp at the arithmetic ARm (whose
   comparisons and |.| are the real ones; fsub fmul fdiv arbitrary -- no rounding hypothesis is used here).

     lu_decomp_trace :  lu_decomp m = Ok (lu, piv, perm)  ->  there is a bijection tau of the row indices with
        perm = the permutation matrix of tau, and EITHER some diagonal entry of lu is zero, OR every entry of lu has
        Doolittle's closed form over the rows of m permuted by tau ([GoodF] of Proofs/RoundLUFun.v at s = n):
           r <= c :  lu_rc = (m_{tau r, c} - lu_r0 lu_0c - ... - lu_{r,r-1} lu_{r-1,c})
           r >  c :  lu_rc = (m_{tau r, c} - lu_r0 lu_0c - ... - lu_{r,c-1} lu_{c-1,c}) / lu_cc
        with the code's operations in the code's order.

   The zero-pivot rule of the repaired code (a column whose running maximum is zero is skipped) is where the first
   alternative comes from: at the reals a zero running maximum means the pivot itself is zero. *)
From Coq Require Import List Arith Lia Bool Reals Lra.
From OV Require Import Base.Panic Base.Arith Base.RoundModel Model.Vector Model.Matrix Model.Solve
  Proofs.Matrix Proofs.LUPrim Proofs.RoundLUFun.
Import ListNotations.

Section LUTrace.
Variables fadd fsub fmul fdiv : R -> R -> R.
Notation AR := (ARm fadd fsub fmul fdiv).
Notation stepf := (stepf fsub fmul fdiv).
Notation GoodF := (GoodF fsub fmul fdiv).

Local Open Scope R_scope.

(* ---------------------------------------------------------------- the pivot search *)
Definition search_body (m : matrix AR) (i : nat) : nat -> R * nat -> res (R * nat) :=
  fun k s => let '(mx, imax) := s in
             let* a := mget m k i in
             if gtb (A := AR) (abs (a := AR) a) mx then Ok (abs (a := AR) a, k) else Ok (mx, imax).

Lemma search_spec (m : matrix AR) (n s : nat) : shape m n n -> (s < n)%nat ->
  exists mx imax, for_ s n (search_body m s) (0, s) = Ok (mx, imax) /\ (s <= imax)%nat /\ (imax < n)%nat /\
    (mx = 0 -> imax = s /\ ent (A := AR) m s s = 0).
Proof.
  intros SH Hs.
  destruct (for_inv (fun k (st : R * nat) => (s <= snd st)%nat /\ (snd st < n)%nat /\ 0 <= fst st /\
              (fst st = 0 -> snd st = s) /\ ((s < k)%nat -> fst st = 0 -> ent (A := AR) m s s = 0))
            s n (search_body m s) (0, s)) as ([mx imax] & E & H1 & H2 & H3 & H4 & H5).
  - lia.
  - cbn [fst snd]. split; [lia|]. split; [lia|]. split; [lra|]. split; [intros; reflexivity|intros; lia].
  - intros k [mx im] Hk (H1 & H2 & H3 & H4 & H5). cbn [fst snd] in *.
    unfold search_body. rewrite (mget_ok (A := AR) m n n k s SH) by lia. cbn [bind].
    change (gtb (A := AR) (abs (a := AR) (ent (A := AR) m k s)) mx)
      with (if Rlt_dec mx (Rabs (ent (A := AR) m k s)) then true else false).
    change (abs (a := AR) (ent (A := AR) m k s)) with (Rabs (ent (A := AR) m k s)).
    destruct (Rlt_dec mx (Rabs (ent (A := AR) m k s))) as [L|L].
    + eexists; split; [reflexivity|]. cbn [fst snd].
      split; [lia|]. split; [lia|]. split; [lra|]. split; [intros Z; exfalso; lra|intros _ Z; exfalso; lra].
    + eexists; split; [reflexivity|]. cbn [fst snd].
      split; [exact H1|]. split; [exact H2|]. split; [exact H3|]. split; [exact H4|].
      intros Hk' Z. destruct (Nat.eq_dec k s) as [->|Ne].
      * assert (Rabs (ent (A := AR) m s s) <= 0) by lra.
        pose proof (Rabs_pos (ent (A := AR) m s s)).
        destruct (Req_dec (ent (A := AR) m s s) 0) as [E0|N0]; [exact E0|].
        apply Rabs_pos_lt in N0. lra.
      * apply H5; [lia|exact Z].
  - cbn [fst snd] in *. exists mx, imax. split; [exact E|]. split; [exact H1|]. split; [exact H2|].
    intros Z. split; [now apply H4|apply H5; [lia|exact Z]].
Qed.

(* ---------------------------------------------------------------- eliminating one row *)
Definition lu_row (i : nat) : nat -> matrix AR -> res (matrix AR) :=
  fun j m =>
    let* ii := mget m i i in
    let* ji := mget m j i in
    let* q := div (a := AR) ji ii in
    let* m := mset m j i q in
    for_ (i + 1) (rows m) (fun k m =>
      let* ji := mget m j i in
      let* ik := mget m i k in
      let* jk := mget m j k in
      mset m j k (sub (a := AR) jk (mul (a := AR) ji ik))) m.

Definition rowf (E : nat -> nat -> R) (s r0 r c : nat) : R :=
  if (r =? r0)%nat then
    (if (c <? s)%nat then E r0 c
     else if (c =? s)%nat then fdiv (E r0 s) (E s s)
     else fsub (E r0 c) (fmul (fdiv (E r0 s) (E s s)) (E s c)))
  else E r c.

Lemma lu_row_spec (m : matrix AR) (n s r0 : nat) : shape m n n -> (s < r0)%nat -> (r0 < n)%nat ->
  exists m', lu_row s r0 m = Ok m' /\ shape m' n n /\
    forall r c, (r < n)%nat -> (c < n)%nat -> ent (A := AR) m' r c = rowf (ent (A := AR) m) s r0 r c.
Proof.
  intros SH Hs Hr0. unfold lu_row.
  rewrite (mget_ok (A := AR) m n n s s SH) by lia. cbn [bind].
  rewrite (mget_ok (A := AR) m n n r0 s SH) by lia. cbn [bind].
  set (q := fdiv (ent (A := AR) m r0 s) (ent (A := AR) m s s)).
  change (div (a := AR) (ent (A := AR) m r0 s) (ent (A := AR) m s s)) with (Ok q). cbn [bind].
  destruct (mset_ok (A := AR) m n n r0 s q SH ltac:(lia) ltac:(lia)) as (m1 & E1 & S1 & G1).
  rewrite E1. cbn [bind]. destruct (S1) as (W1 & R1 & C1). rewrite R1.
  destruct (for_inv (fun k (mk : matrix AR) => shape mk n n /\
              forall r c, (r < n)%nat -> (c < n)%nat ->
                ent (A := AR) mk r c
                = if ((r =? r0) && (s <? c) && (c <? k))%nat
                  then fsub (ent (A := AR) m1 r0 c) (fmul q (ent (A := AR) m1 s c))
                  else ent (A := AR) m1 r c)
            (s + 1)%nat n
            (fun k mk => let* ji := mget mk r0 s in let* ik := mget mk s k in let* jk := mget mk r0 k in
                         mset mk r0 k (sub (a := AR) jk (mul (a := AR) ji ik))) m1) as (m' & E & S' & G').
  - lia.
  - split; [exact S1|]. intros r c Hr Hc.
    destruct (Nat.ltb_spec c (s + 1)); [|rewrite andb_false_r; reflexivity].
    destruct (Nat.ltb_spec s c); [lia|]. now rewrite andb_false_r.
  - intros k mk Hk (Sk & Gk).
    rewrite (mget_ok (A := AR) mk n n r0 s Sk) by lia. cbn [bind].
    rewrite (mget_ok (A := AR) mk n n s k Sk) by lia. cbn [bind].
    rewrite (mget_ok (A := AR) mk n n r0 k Sk) by lia. cbn [bind].
    destruct (mset_ok (A := AR) mk n n r0 k
                (sub (a := AR) (ent (A := AR) mk r0 k) (mul (a := AR) (ent (A := AR) mk r0 s) (ent (A := AR) mk s k)))
                Sk ltac:(lia) ltac:(lia)) as (mk' & Ek' & Sk' & Gk').
    exists mk'. split; [exact Ek'|]. split; [exact Sk'|].
    intros r c Hr Hc. rewrite Gk' by exact Hc.
    destruct (Nat.eqb_spec r r0) as [->|Nr]; cbn [andb].
    + destruct (Nat.eqb_spec c k) as [->|Nc]; cbn [andb].
      * (* the entry written now *)
        destruct (Nat.ltb_spec s k); [|lia]. destruct (Nat.ltb_spec k (S k)); [|lia]. cbn [andb].
        assert (A1 : ent (A := AR) mk r0 k = ent (A := AR) m1 r0 k).
        { rewrite (Gk r0 k) by lia. rewrite Nat.ltb_irrefl, andb_false_r. reflexivity. }
        assert (A2 : ent (A := AR) mk r0 s = q).
        { rewrite (Gk r0 s) by lia. rewrite Nat.ltb_irrefl, andb_false_r. cbn [andb].
          rewrite (G1 r0 s) by lia. now rewrite !Nat.eqb_refl. }
        assert (A3 : ent (A := AR) mk s k = ent (A := AR) m1 s k).
        { rewrite (Gk s k) by lia. destruct (Nat.eqb_spec s r0); [lia|]. reflexivity. }
        rewrite A1, A2, A3. reflexivity.
      * rewrite (Gk r0 c) by lia. rewrite Nat.eqb_refl. cbn [andb].
        destruct (Nat.ltb_spec s c); cbn [andb]; [|reflexivity].
        destruct (Nat.ltb_spec c k), (Nat.ltb_spec c (S k)); try reflexivity; lia.
    + rewrite (Gk r c) by assumption. destruct (Nat.eqb_spec r r0); [lia|]. reflexivity.
  - exists m'. split; [exact E|]. split; [exact S'|].
    intros r c Hr Hc. rewrite (G' r c Hr Hc). unfold rowf.
    destruct (Nat.eqb_spec r r0) as [->|Nr]; cbn [andb].
    + destruct (Nat.ltb_spec c s) as [L|L].
      * destruct (Nat.ltb_spec s c); [lia|]. cbn [andb]. rewrite (G1 r0 c) by lia.
        rewrite Nat.eqb_refl. destruct (Nat.eqb_spec c s); [lia|]. reflexivity.
      * destruct (Nat.eqb_spec c s) as [->|Nc].
        -- rewrite Nat.ltb_irrefl. cbn [andb]. rewrite (G1 r0 s) by lia. now rewrite !Nat.eqb_refl.
        -- destruct (Nat.ltb_spec s c); [|lia]. destruct (Nat.ltb_spec c n); [|lia]. cbn [andb].
           rewrite (G1 r0 c) by lia. rewrite (G1 s c) by lia. rewrite Nat.eqb_refl.
           destruct (Nat.eqb_spec c s); [lia|]. cbn [andb].
           destruct (Nat.eqb_spec s r0); [lia|]. cbn [andb]. reflexivity.
    + rewrite (G1 r c) by lia. destruct (Nat.eqb_spec r r0); [lia|]. reflexivity.
Qed.

(* ---------------------------------------------------------------- eliminating all rows below s *)
Lemma lu_elim_spec (m : matrix AR) (n s : nat) : shape m n n -> (s < n)%nat ->
  exists m', for_ (s + 1) n (lu_row s) m = Ok m' /\ shape m' n n /\
    forall r c, (r < n)%nat -> (c < n)%nat -> ent (A := AR) m' r c = stepf (ent (A := AR) m) s r c.
Proof.
  intros SH Hs.
  destruct (for_inv (fun r1 (mk : matrix AR) => shape mk n n /\
              forall r c, (r < n)%nat -> (c < n)%nat ->
                ent (A := AR) mk r c = if (r <? r1)%nat then stepf (ent (A := AR) m) s r c else ent (A := AR) m r c)
            (s + 1)%nat n (lu_row s) m) as (m' & E & S' & G').
  - lia.
  - split; [exact SH|]. intros r c Hr Hc. destruct (Nat.ltb_spec r (s + 1)); [|reflexivity].
    rewrite stepf_low by lia. reflexivity.
  - intros r1 mk Hr1 (Sk & Gk).
    destruct (lu_row_spec mk n s r1 Sk ltac:(lia) ltac:(lia)) as (mk' & Ek' & Sk' & Gk').
    exists mk'. split; [exact Ek'|]. split; [exact Sk'|].
    intros r c Hr Hc. rewrite (Gk' r c Hr Hc). unfold rowf.
    destruct (Nat.eqb_spec r r1) as [->|Nr].
    + destruct (Nat.ltb_spec r1 (S r1)); [|lia].
      rewrite (Gk r1 c) by lia. rewrite (Gk r1 s) by lia. rewrite (Gk s s) by lia. rewrite (Gk s c) by lia.
      destruct (Nat.ltb_spec r1 r1); [lia|]. destruct (Nat.ltb_spec s r1) as [_|]; [|lia].
      rewrite !(stepf_low _ _ _ (ent (A := AR) m) s s) by lia.
      unfold RoundLUFun.stepf. destruct (Nat.ltb_spec s r1); [|lia]. reflexivity.
    + rewrite (Gk r c) by assumption.
      destruct (Nat.ltb_spec r r1), (Nat.ltb_spec r (S r1)); try reflexivity; lia.
  - exists m'. split; [exact E|]. split; [exact S'|].
    intros r c Hr Hc. rewrite (G' r c Hr Hc). destruct (Nat.ltb_spec r n); [reflexivity|lia].
Qed.

(* ---------------------------------------------------------------- one step of the outer loop *)
Definition lu_body (sk : bool) : nat -> matrix AR * nat * matrix AR -> res (matrix AR * nat * matrix AR) :=
  fun i st =>
    let '(m, piv, perm) := st in
    let* r := for_ i (rows m) (search_body m i) (0, i) in
    let '(max_a, imax) := r in
    let* s := (if negb (imax =? i)%nat then
                 let* perm := swap_rows perm i imax in
                 let* m := swap_rows m i imax in
                 Ok (m, S piv, perm)
               else Ok (m, piv, perm)) in
    let '(m, piv, perm) := s in
    if sk && eqb (a := AR) max_a 0 then Ok (m, piv, perm) else
    let* m := for_ (i + 1) (rows m) (lu_row i) m in
    Ok (m, piv, perm).

Lemma lu_gen_unfold (sk : bool) (m : matrix AR) :
  lu_gen sk m =
  if negb (rows m =? cols m)%nat then Panic Guard else
  let* p0 := eye (rows m) in for_ 0 (rows m) (lu_body sk) (m, 0%nat, p0).
Proof. reflexivity. Qed.

Lemma stepf_ext (E E' : nat -> nat -> R) (n s r c : nat) :
  (forall r c, (r < n)%nat -> (c < n)%nat -> E' r c = E r c) -> (s < n)%nat -> (r < n)%nat -> (c < n)%nat ->
  stepf E' s r c = stepf E s r c.
Proof.
  intros H Hs Hr Hc. unfold RoundLUFun.stepf.
  rewrite (H r c), (H r s), (H s s), (H s c) by assumption. reflexivity.
Qed.

Lemma lu_body_spec (m perm : matrix AR) (piv n s : nat) : shape m n n -> shape perm n n -> (s < n)%nat ->
  exists m' piv' perm' p, lu_body true s (m, piv, perm) = Ok (m', piv', perm') /\
    (s <= p)%nat /\ (p < n)%nat /\ shape m' n n /\ shape perm' n n /\
    (forall r c, (r < n)%nat -> (c < n)%nat -> ent (A := AR) perm' r c = ent (A := AR) perm (tr s p r) c) /\
    ((forall r c, (r < n)%nat -> (c < n)%nat ->
        ent (A := AR) m' r c = stepf (fun r c => ent (A := AR) m (tr s p r) c) s r c) \/
     ((forall r c, (r < n)%nat -> (c < n)%nat -> ent (A := AR) m' r c = ent (A := AR) m r c) /\
      p = s /\ ent (A := AR) m s s = 0)).
Proof.
  intros SM SP Hs. unfold lu_body. destruct (SM) as (WM & RM & CM). rewrite RM.
  destruct (search_spec m n s SM Hs) as (mx & imax & Es & H1 & H2 & H3). rewrite Es. cbn [bind].
  (* the exchange, in both cases described through tr s imax *)
  assert (SW : exists m1 piv1 perm1,
            (if negb (imax =? s)%nat then
               let* perm0 := swap_rows perm s imax in let* m0 := swap_rows m s imax in Ok (m0, S piv, perm0)
             else Ok (m, piv, perm)) = Ok (m1, piv1, perm1) /\ shape m1 n n /\ shape perm1 n n /\
            (forall r c, (r < n)%nat -> (c < n)%nat -> ent (A := AR) m1 r c = ent (A := AR) m (tr s imax r) c) /\
            (forall r c, (r < n)%nat -> (c < n)%nat -> ent (A := AR) perm1 r c = ent (A := AR) perm (tr s imax r) c) /\
            (imax = s -> m1 = m)).
  { destruct (Nat.eqb_spec imax s) as [->|Ne]; cbn [negb].
    - exists m, piv, perm. split; [reflexivity|]. split; [exact SM|]. split; [exact SP|].
      split; [intros r c _ _; now rewrite tr_same|]. split; [intros r c _ _; now rewrite tr_same|auto].
    - destruct (swap_rows_ok (A := AR) perm n n s imax SP Hs H2) as (perm1 & Ep & Sp1 & Gp).
      destruct (swap_rows_ok (A := AR) m n n s imax SM Hs H2) as (m1 & Em & Sm1 & Gm).
      rewrite Ep. cbn [bind]. rewrite Em. cbn [bind]. exists m1, (S piv), perm1.
      split; [reflexivity|]. split; [exact Sm1|]. split; [exact Sp1|].
      split; [intros r c _ Hc; now apply Gm|]. split; [intros r c _ Hc; now apply Gp|intros; contradiction]. }
  destruct SW as (m1 & piv1 & perm1 & E1 & Sm1 & Sp1 & Gm & Gp & Same). rewrite E1. cbn [bind andb].
  change (eqb (a := AR) mx 0) with (if Req_EM_T mx 0 then true else false).
  destruct (Req_EM_T mx 0) as [Z|NZ].
  - (* the column is skipped: the pivot itself is zero *)
    destruct (H3 Z) as (Ei & Z0). exists m1, piv1, perm1, s.
    split; [reflexivity|]. split; [lia|]. split; [exact Hs|]. split; [exact Sm1|]. split; [exact Sp1|].
    split; [intros r c Hr Hc; rewrite (Gp r c Hr Hc), Ei; reflexivity|].
    right. rewrite (Same Ei). auto.
  - destruct (Sm1) as (W1 & R1 & C1). rewrite R1.
    destruct (lu_elim_spec m1 n s Sm1 Hs) as (m' & E' & S' & G'). rewrite E'. cbn [bind].
    exists m', piv1, perm1, imax.
    split; [reflexivity|]. split; [exact H1|]. split; [exact H2|]. split; [exact S'|]. split; [exact Sp1|].
    split; [exact Gp|]. left. intros r c Hr Hc. rewrite (G' r c Hr Hc).
    apply (stepf_ext _ _ n); assumption.
Qed.

(* ---------------------------------------------------------------- the whole factorisation *)
Definition PermOK (n : nat) (tau : nat -> nat) (perm : matrix AR) : Prop :=
  (forall r, (r < n)%nat -> (tau r < n)%nat) /\
  (forall r r', (r < n)%nat -> (r' < n)%nat -> tau r = tau r' -> r = r') /\
  (forall r c, (r < n)%nat -> (c < n)%nat -> ent (A := AR) perm r c = if (c =? tau r)%nat then 1 else 0).

Theorem lu_decomp_trace (m lu perm : matrix AR) (piv : nat) :
  wf m -> lu_decomp m = Ok (lu, piv, perm) ->
  shape lu (rows m) (rows m) /\ shape perm (rows m) (rows m) /\
  exists tau, PermOK (rows m) tau perm /\
    (GoodF (rows m) (rows m) (fun r c => ent (A := AR) m (tau r) c) (ent (A := AR) lu) \/
     exists c, (c < rows m)%nat /\ ent (A := AR) lu c c = 0).
Proof.
  intros W E. unfold lu_decomp in E. rewrite lu_gen_unfold in E.
  destruct (Nat.eqb_spec (rows m) (cols m)) as [Sq|]; cbn [negb] in E; [|discriminate].
  set (n := rows m) in *.
  assert (SM : shape m n n) by (split; [exact W|split; [reflexivity|symmetry; exact Sq]]).
  destruct (eye_ok (A := AR) n) as (p0 & Ep & SP0 & GP0). rewrite Ep in E. cbn [bind] in E.
  destruct (for_inv (fun s (st : matrix AR * nat * matrix AR) =>
              shape (fst (fst st)) n n /\ shape (snd st) n n /\
              exists tau, PermOK n tau (snd st) /\
                (GoodF n s (fun r c => ent (A := AR) m (tau r) c) (ent (A := AR) (fst (fst st))) \/
                 exists c, (c < s)%nat /\ ent (A := AR) (fst (fst st)) c c = 0))
            0%nat n (lu_body true) (m, 0%nat, p0)) as ([[lu' piv'] perm'] & E' & SL & SP & tau & PO & GD).
  - lia.
  - cbn [fst snd]. split; [exact SM|]. split; [exact SP0|]. exists (fun r => r). split.
    + split; [auto|]. split; [auto|]. intros r c Hr Hc. rewrite (GP0 r c Hr Hc). unfold delta.
      rewrite Nat.eqb_sym. reflexivity.
    + left. apply goodF_0.
  - intros s [[m1 piv1] perm1] Hs (S1 & SP1 & tau & (T1 & T2 & T3) & GD). cbn [fst snd] in *.
    destruct (lu_body_spec m1 perm1 piv1 n s S1 SP1 ltac:(lia))
      as (m' & piv2 & perm2 & p & Eb & Hp1 & Hp2 & S' & SP' & GP' & GM').
    exists (m', piv2, perm2). split; [exact Eb|]. cbn [fst snd]. split; [exact S'|]. split; [exact SP'|].
    exists (fun r => tau (tr s p r)). split.
    + split; [intros r Hr; apply T1; apply tr_lt; lia|]. split.
      * intros r r' Hr Hr' Et. apply T2 in Et; [|apply tr_lt; lia|apply tr_lt; lia].
        rewrite <- (tr_invol s p r), Et. apply tr_invol.
      * intros r c Hr Hc. rewrite (GP' r c Hr Hc). apply T3; [apply tr_lt; lia|exact Hc].
    + destruct GD as [G|(c & Hc & Z)].
      * destruct GM' as [GE|(GS & Ep' & Z)].
        -- left. apply (goodF_ext fsub fmul fdiv n (S s) (fun r c => ent (A := AR) m (tau (tr s p r)) c) _
                          (stepf (fun r c => ent (A := AR) m1 (tr s p r) c) s) _).
           ++ exact GE.
           ++ reflexivity.
           ++ apply goodF_step; [lia|]. apply (goodF_swap fsub fmul fdiv n s p
                                                 (fun r c => ent (A := AR) m (tau r) c) (ent (A := AR) m1)); [lia|lia|exact G].
        -- right. exists s. split; [lia|]. rewrite (GS s s) by lia. exact Z.
      * right. exists c. split; [lia|].
        destruct GM' as [GE|(GS & _ & _)].
        -- rewrite (GE c c) by lia. rewrite stepf_low by lia. rewrite tr_other by lia. exact Z.
        -- rewrite (GS c c) by lia. exact Z.
  - rewrite E' in E. injection E as <- <- <-. cbn [fst snd] in *.
    split; [exact SL|]. split; [exact SP|]. exists tau. split; [exact PO|exact GD].
Qed.

End LUTrace.
