(* Proofs/SrcEqPoly.v -- the hand-written model of src/polynomial/{mod,arithmetic}.rs (Model/Poly.v) IS the code:
   every definition s_<f> of gen/SrcPoly.v (regenerated from the Rust source by driver/rust2coq.py on this run) equals
   its hand-written counterpart, for every arithmetic and every pair of coefficient vectors (all lengths, the empty
   polynomial included; no hypothesis).  The model is written functionally (map over seq, fold_left, convolution
   coefficient by coefficient); the source with index loops over a zero-initialised vector, so the lemmas go through
   loop invariants: cell-local loops (for_from_cell) for + / - / derivative, the row-by-row convolution invariant
   (conv_upto) for the product, a downward fold for Horner evaluation. *)
From Coq Require Import List Arith ZArith Lia Bool.
From OV Require Import Base.Panic Base.Arith Model.Vector Model.Poly gen.Params gen.SrcPrelude gen.SrcPoly Proofs.SrcEqBase.
Import ListNotations.
Section SrcEqPoly.
Context {A : Arith}.
Implicit Types (p q : list (T A)) (x s : T A) (n : nat).

Lemma src_pneg p : s_pneg p = Ok (pneg p). Proof. reflexivity. Qed.
Lemma src_pscale p s : s_pscale p s = Ok (pscale p s). Proof. reflexivity. Qed.
Lemma src_pderiv_at p x n : s_pderiv_at p x n = pderiv_at p x n. Proof. reflexivity. Qed.

Lemma src_pderiv_n p n : s_pderiv_n p n = pderiv_n p n.
Proof.
  unfold s_pderiv_n, for_. rewrite Nat.sub_0_r. generalize 0 as lo.
  revert p; induction n as [|n IH]; intros p lo; cbn [for_from pderiv_n]; [reflexivity|].
  apply bind_ext; intros d. apply IH.
Qed.

(* downward accumulator loops *)
Lemma for_rev_from_fold {X St} (v : list X) (g : St -> X -> St) n acc :
  n <= length v ->
  for_rev_from n 0 (fun i acc => let* a := rd v i in Ok (g acc a)) acc = Ok (fold_left g (rev (firstn n v)) acc).
Proof.
  revert acc; induction n as [|n IH]; intros acc H; cbn [for_rev_from]; [reflexivity|].
  cbn [Nat.add]. destruct (nth_error v n) as [a|] eqn:E.
  2:{ apply nth_error_None in E. lia. }
  assert (F : firstn (S n) v = firstn n v ++ [a]).
  { clear -E. revert v E; induction n as [|n IH]; intros [|b v] E; cbn in *; try discriminate.
    - now injection E as ->.
    - f_equal. now apply IH. }
  unfold rd at 1. rewrite E. cbn [bind]. rewrite IH by lia. rewrite F, rev_app_distr. reflexivity.
Qed.

Lemma src_peval p x : s_peval p x = peval p x.
Proof.
  unfold s_peval, peval. destruct (rev p) as [|c rest] eqn:E.
  - apply (f_equal (@rev _)) in E. rewrite rev_involutive in E. subst p. reflexivity.
  - apply (f_equal (@rev _)) in E. rewrite rev_involutive in E. cbn [rev] in E. subst p.
    assert (D : pdegree (rev rest ++ [c]) = Some (length (rev rest))).
    { unfold pdegree. destruct (rev rest ++ [c]) eqn:E2. { now destruct (rev rest). }
      rewrite <- E2, app_length. cbn. f_equal. lia. }
    rewrite D. cbn [unwrap_opt bind]. rewrite rd_app_mid. cbn [bind].
    unfold for_rev. rewrite Nat.sub_0_r.
    rewrite (for_rev_from_fold (rev rest ++ [c]) (fun acc a => add (mul acc x) a)) by (rewrite app_length; lia).
    rewrite firstn_app, firstn_all, Nat.sub_diag. cbn [firstn]. rewrite app_nil_r, rev_involutive. reflexivity.
Qed.

(* loops whose body acts on cell i only *)
Lemma upd_app_mid' {X} (pre : list X) a t y : upd (pre ++ a :: t) (length pre) y = Ok (pre ++ y :: t).
Proof. rewrite upd_app_mid, <- app_assoc. reflexivity. Qed.

Lemma for_from_cell {X} (body : nat -> list X -> res (list X)) (G : nat -> X -> res X) :
  (forall pre a t, body (length pre) (pre ++ a :: t) = let* y := G (length pre) a in Ok (pre ++ y :: t)) ->
  forall suf pre, for_from (length suf) (length pre) body (pre ++ suf) = let* l := mapMi G (length pre) suf in Ok (pre ++ l).
Proof.
  intros Hb suf; induction suf as [|a t IH]; intros pre; cbn [length for_from mapMi]; [reflexivity|].
  rewrite Hb. destruct (G (length pre) a) as [y|k]; cbn [bind]; [|reflexivity].
  replace (pre ++ y :: t) with ((pre ++ [y]) ++ t) by (rewrite <- app_assoc; reflexivity).
  replace (S (length pre)) with (length (pre ++ [y])) at 1 by (rewrite app_length; cbn; lia).
  rewrite IH. rewrite app_length; cbn [length]. replace (length pre + 1) with (S (length pre)) by lia.
  destruct (mapMi G (S (length pre)) t); cbn [bind]; [|reflexivity]. rewrite <- app_assoc. reflexivity.
Qed.

Lemma mapMi_repeat {X} (G : nat -> X -> res X) (h : nat -> X) z n k :
  (forall i, G i z = Ok (h i)) -> mapMi G k (repeat z n) = Ok (map h (seq k n)).
Proof.
  intros H; revert k; induction n as [|n IH]; intros k; cbn; [reflexivity|]. now rewrite H, IH.
Qed.

Lemma pdegree_cons (a : T A) t : pdegree (a :: t) = Some (length t).
Proof. unfold pdegree. cbn. now rewrite Nat.sub_0_r. Qed.

Lemma rd_le_deg (a : T A) t i : rd (a :: t) i = match nth_error (a :: t) i with Some x => Ok x | None => Panic Index end.
Proof. reflexivity. Qed.

Lemma padd_like (f : T A -> T A -> T A) p q (N : nat) :
  p <> [] -> q <> [] -> N = Nat.max (length p) (length q) ->
  for_ 0 N (fun i sum =>
      let* u1 := unwrap_opt (pdegree p) in
      let* sum := if (i <=? u1)%nat then (let* x2 := rd sum i in let* x3 := rd p i in upd sum i (add x2 x3)) else Ok sum in
      let* u4 := unwrap_opt (pdegree q) in
      if (i <=? u4)%nat then (let* x5 := rd sum i in let* x6 := rd q i in upd sum i (f x5 x6)) else Ok sum) (repeat zero N)
  = Ok (map (fun i => opt_acc f (opt_acc add zero (nth_error p i)) (nth_error q i)) (seq 0 N)).
Proof.
  intros Hp Hq HN. destruct p as [|p0 p']; [congruence|]. destruct q as [|q0 q']; [congruence|].
  rewrite !pdegree_cons. cbn [unwrap_opt bind].
  unfold for_. rewrite Nat.sub_0_r.
  pose proof (for_from_cell
     (fun i sum =>
      let* sum := if (i <=? length p')%nat then (let* x2 := rd sum i in let* x3 := rd (p0 :: p') i in upd sum i (add x2 x3)) else Ok sum in
      if (i <=? length q')%nat then (let* x5 := rd sum i in let* x6 := rd (q0 :: q') i in upd sum i (f x5 x6)) else Ok sum)
     (fun i a => Ok (opt_acc f (opt_acc add a (nth_error (p0 :: p') i)) (nth_error (q0 :: q') i)))) as H.
  specialize (H ltac:(
    intros pre a t; cbn [bind];
    destruct (Nat.leb_spec (length pre) (length p')) as [L1|L1];
    [ destruct (nth_error (p0 :: p') (length pre)) as [pi|] eqn:E1; [|apply nth_error_None in E1; cbn in E1; lia];
      rewrite rd_app_mid; cbn [bind]; unfold rd at 1; rewrite E1; cbn [bind opt_acc]; rewrite upd_app_mid'; cbn [bind]
    | assert (E1 : nth_error (p0 :: p') (length pre) = None) by (apply nth_error_None; cbn; lia); rewrite E1; cbn [bind opt_acc] ];
    (destruct (Nat.leb_spec (length pre) (length q')) as [L2|L2];
     [ destruct (nth_error (q0 :: q') (length pre)) as [qi|] eqn:E2; [|apply nth_error_None in E2; cbn in E2; lia];
       rewrite rd_app_mid; cbn [bind]; unfold rd at 1; rewrite E2; cbn [bind opt_acc]; rewrite upd_app_mid'; reflexivity
     | assert (E2 : nth_error (q0 :: q') (length pre) = None) by (apply nth_error_None; cbn; lia); rewrite E2; reflexivity ]))).
  specialize (H (repeat zero N) []). rewrite repeat_length in H. cbn [length app] in H.
  rewrite H. rewrite (mapMi_repeat _ (fun i => opt_acc f (opt_acc add zero (nth_error (p0 :: p') i)) (nth_error (q0 :: q') i))) by reflexivity.
  reflexivity.
Qed.

Lemma src_padd p q : s_padd p q = Ok (padd p q).
Proof.
  unfold s_padd, padd. destruct p as [|p0 p']; [reflexivity|]. destruct q as [|q0 q']; [reflexivity|].
  rewrite !pdegree_cons. cbn [bind].
  assert (E : forall (b : bool) (x y : nat) (k : nat -> res (list (T A))), (let* d := (if b then Ok x else Ok y) in k d) = k (if b then x else y)).
  { intros [|]; reflexivity. }
  rewrite E. set (d := if length p' <? length q' then length q' else length p').
  assert (HN : (d + 1)%nat = Nat.max (length (p0 :: p')) (length (q0 :: q'))).
  { unfold d. cbn [length]. destruct (Nat.ltb_spec (length p') (length q')); lia. }
  rewrite <- (pdegree_cons p0 p'), <- (pdegree_cons q0 q').
  rewrite (padd_like add (p0 :: p') (q0 :: q') (d + 1)) by (auto; discriminate).
  rewrite HN. reflexivity.
Qed.

Lemma src_psub p q : s_psub p q = Ok (psub p q).
Proof.
  unfold s_psub, psub. destruct p as [|p0 p']; [reflexivity|]. destruct q as [|q0 q']; [reflexivity|].
  rewrite !pdegree_cons. cbn [bind].
  assert (E : forall (b : bool) (x y : nat) (k : nat -> res (list (T A))), (let* d := (if b then Ok x else Ok y) in k d) = k (if b then x else y)).
  { intros [|]; reflexivity. }
  rewrite E. set (d := if length p' <? length q' then length q' else length p').
  assert (HN : (d + 1)%nat = Nat.max (length (p0 :: p')) (length (q0 :: q'))).
  { unfold d. cbn [length]. destruct (Nat.ltb_spec (length p') (length q')); lia. }
  rewrite <- (pdegree_cons p0 p'), <- (pdegree_cons q0 q').
  rewrite (padd_like sub (p0 :: p') (q0 :: q') (d + 1)) by (auto; discriminate).
  rewrite HN. reflexivity.
Qed.

Lemma mapMi_repeat_bounded {X} (G : nat -> X -> res X) (h : nat -> X) z n k :
  (forall i, k <= i < k + n -> G i z = Ok (h i)) -> mapMi G k (repeat z n) = Ok (map h (seq k n)).
Proof.
  revert k; induction n as [|n IH]; intros k H; cbn; [reflexivity|].
  rewrite H by lia. cbn. rewrite IH by (intros; apply H; lia). reflexivity.
Qed.

(* derivative: cell i receives a_{i+1}, i+1 times *)
Lemma deriv_cell p (pre : list (T A)) a t c k lo :
  nth_error p (length pre + 1) = Some c ->
  for_from k lo (fun _ d => let* x2 := rd d (length pre) in let* x3 := rd p (length pre + 1)%nat in upd d (length pre) (add x2 x3)) (pre ++ a :: t)
  = Ok (pre ++ add_times k c a :: t).
Proof.
  intros Hc. revert a lo; induction k as [|k IH]; intros a lo; cbn [for_from add_times]; [reflexivity|].
  rewrite rd_app_mid. cbn [bind]. unfold rd at 1. rewrite Hc. cbn [bind]. rewrite upd_app_mid'. cbn [bind]. apply IH.
Qed.

Lemma src_pderiv p : s_pderiv p = pderiv p.
Proof.
  unfold s_pderiv, pderiv. destruct p as [|a0 t]; [reflexivity|].
  rewrite pdegree_cons. cbn [unwrap_opt bind]. unfold for_ at 1. rewrite Nat.sub_0_r.
  pose proof (for_from_cell
     (fun i d => for_ 0 (i + 1) (fun _ d => let* x2 := rd d i in let* x3 := rd (a0 :: t) (i + 1)%nat in upd d i (add x2 x3)) d)
     (fun i a => match nth_error (a0 :: t) (i + 1) with Some c => Ok (add_times (i + 1) c a) | None => Panic Index end)) as H.
  specialize (H ltac:(
    intros pre a t'; unfold for_; rewrite Nat.sub_0_r;
    destruct (nth_error (a0 :: t) (length pre + 1)) as [c|] eqn:E;
    [ rewrite (deriv_cell (a0 :: t) pre a t' c) by exact E; reflexivity
    | replace (length pre + 1) with (S (length pre)) by lia; cbn [for_from]; rewrite rd_app_mid; cbn [bind];
      replace (S (length pre)) with (length pre + 1) by lia; unfold rd at 1; rewrite E; reflexivity ])).
  specialize (H (repeat zero (length t)) []). rewrite repeat_length in H. cbn [length app] in H.
  rewrite H.
  rewrite (mapMi_repeat_bounded _ (fun i => add_times (i + 1) (nth i t zero) zero)).
  - reflexivity.
  - intros i Hi. replace (i + 1) with (S i) by lia. cbn [nth_error].
    destruct (nth_error t i) as [c|] eqn:E; [|apply nth_error_None in E; lia].
    rewrite (nth_error_nth _ _ _ E). reflexivity.
Qed.

(* ---- multiplication: the convolution loops ---- *)
Definition conv_step p q (k : nat) (acc : T A) (i : nat) : T A :=
  match nth_error p i, (if i <=? k then nth_error q (k - i) else None) with
  | Some a, Some b => add acc (mul a b)
  | _, _ => acc
  end.
Definition conv_upto p q (i k : nat) : T A := fold_left (conv_step p q k) (seq 0 i) zero.

Lemma conv_upto_S p q i k : conv_upto p q (S i) k = conv_step p q k (conv_upto p q i k) i.
Proof. unfold conv_upto. rewrite seq_S, fold_left_app. reflexivity. Qed.

Lemma pmul_inner p q i pi (l : list (T A)) :
  rd p i = Ok pi -> i + length q <= length l ->
  exists l', for_from (length q) 0 (fun j prod =>
               let* x3 := rd prod (i + j)%nat in let* x4 := rd p i in let* x5 := rd q j in
               upd prod (i + j)%nat (add x3 (mul x4 x5))) l = Ok l'
          /\ length l' = length l
          /\ forall k, nth k l' zero = if (i <=? k) && (k <? i + length q) then add (nth k l zero) (mul pi (nth (k - i) q zero)) else nth k l zero.
Proof.
  intros Hp Hl.
  destruct (for_from_inv (fun j st => length st = length l /\ forall k, nth k st zero =
               if (i <=? k) && (k <? i + j) then add (nth k l zero) (mul pi (nth (k - i) q zero)) else nth k l zero)
             (length q) 0 (fun j prod =>
               let* x3 := rd prod (i + j)%nat in let* x4 := rd p i in let* x5 := rd q j in
               upd prod (i + j)%nat (add x3 (mul x4 x5))) l) as (l' & E & HL & HN).
  - split; [reflexivity|]. intros k. replace (k <? i + 0) with (k <? i) by (f_equal; lia).
    destruct (Nat.leb_spec i k), (Nat.ltb_spec k i); cbn; try reflexivity; lia.
  - intros j st Hj (HL & HN).
    rewrite (rd_ok st (i + j) zero) by lia. cbn [bind]. rewrite Hp. cbn [bind].
    rewrite (rd_ok q j zero) by lia. cbn [bind]. rewrite upd_ok by lia.
    eexists; split; [reflexivity|]. split; [now rewrite upd_list_length|].
    intros k. rewrite nth_upd_list by lia.
    destruct (Nat.eqb_spec k (i + j)) as [->|NE].
    + rewrite (HN (i + j)).
      replace (i <=? i + j) with true by (symmetry; apply Nat.leb_le; lia).
      replace (i + j <? i + j) with false by (symmetry; apply Nat.ltb_ge; lia).
      replace (i + j <? i + S j) with true by (symmetry; apply Nat.ltb_lt; lia).
      cbn [andb]. replace (i + j - i) with j by lia. reflexivity.
    + rewrite (HN k). destruct (Nat.leb_spec i k); cbn [andb]; [|reflexivity].
      destruct (Nat.ltb_spec k (i + j)), (Nat.ltb_spec k (i + S j)); try reflexivity; lia.
  - exists l'. cbn [Nat.add] in HN. auto.
Qed.

Lemma src_pmul p q : s_pmul p q = Ok (pmul p q).
Proof.
  unfold s_pmul, pmul. destruct p as [|p0 p']; [reflexivity|]. destruct q as [|q0 q']; [reflexivity|].
  rewrite !pdegree_cons. cbn [unwrap_opt bind].
  set (p := p0 :: p'). set (q := q0 :: q').
  set (N := (length p' + length q' + 1)%nat).
  assert (HNl : (length p + length q - 1)%nat = N) by (unfold p, q, N; cbn [length]; lia).
  rewrite HNl.
  destruct (for_inv (fun i st => length st = N /\ forall k, k < N -> nth k st zero = conv_upto p q i k)
              0 (length p' + 1) (fun i prod =>
                 for_ 0 (length q' + 1) (fun j prod =>
                    let* x3 := rd prod (i + j)%nat in let* x4 := rd p i in let* x5 := rd q j in
                    upd prod (i + j)%nat (add x3 (mul x4 x5))) prod) (repeat zero N)) as (s' & E & HL & HS).
  - lia.
  - split; [apply repeat_length|]. intros k Hk. unfold conv_upto. cbn [seq fold_left].
    clear -Hk. revert k Hk; induction N as [|N IH]; intros k Hk; [lia|]. destruct k; cbn; [reflexivity|]. apply IH; lia.
  - intros i st Hi (HL & HS).
    assert (Hpi : rd p i = Ok (nth i p zero)) by (apply rd_ok; unfold p; cbn [length]; lia).
    unfold for_ at 1. rewrite Nat.sub_0_r.
    replace (length q' + 1)%nat with (length q) by (unfold q; cbn [length]; lia).
    destruct (pmul_inner p q i (nth i p zero) st Hpi) as (l' & E' & HL' & HN').
    { rewrite HL. unfold N, q. cbn [length]. lia. }
    exists l'. split; [exact E'|]. split; [congruence|].
    intros k Hk. rewrite HN', conv_upto_S, HS by lia. unfold conv_step.
    assert (Ep : nth_error p i = Some (nth i p zero)).
    { apply nth_error_nth'. unfold p; cbn [length]; lia. }
    rewrite Ep.
    destruct (Nat.leb_spec i k) as [L|L]; cbn [andb]; [|reflexivity].
    destruct (Nat.ltb_spec k (i + length q)) as [L2|L2].
    + rewrite (nth_error_nth' q zero) by lia. reflexivity.
    + assert (En : nth_error q (k - i) = None) by (apply nth_error_None; lia). rewrite En. reflexivity.
  - unfold for_ in E at 1. unfold for_ at 1.
    etransitivity; [exact E|]. f_equal.
    apply (nth_ext _ _ zero zero).
    + rewrite map_length, seq_length. exact HL.
    + intros k Hk. rewrite HL in Hk. rewrite HS by lia.
      rewrite (nth_indep _ zero (pmul_coeff p q 0)) by (rewrite map_length, seq_length; lia).
      rewrite (map_nth (pmul_coeff p q) (seq 0 N) 0 k). rewrite seq_nth by lia. cbn [Nat.add].
      unfold conv_upto, pmul_coeff, conv_step. replace (length p' + 1)%nat with (length p) by (unfold p; cbn [length]; lia). reflexivity.
Qed.
(* a `for` with a `return false` on the first element that fails a test = forallb *)
Lemma for_ret_forallb (p : list (T A)) (f : T A -> bool) n lo :
  lo + n = length p ->
  for_ret_from n lo (fun i (_ : unit) => let* x := rd p i in if negb (f x) then Ok (inr false) else Ok (inl tt)) tt
  = Ok (if forallb f (skipn lo p) then inl tt else inr false).
Proof.
  revert lo; induction n as [|n IH]; intros lo H; cbn [for_ret_from].
  - rewrite skipn_all2 by lia. reflexivity.
  - destruct (skipn lo p) as [|a t] eqn:E.
    { assert (length (skipn lo p) = 0) by now rewrite E. rewrite skipn_length in *. lia. }
    assert (R : rd p lo = Ok a).
    { unfold rd. rewrite <- (firstn_skipn lo p) at 1. rewrite nth_error_app2; rewrite firstn_length_le by lia; [|lia].
      now rewrite Nat.sub_diag, E. }
    rewrite R. cbn [bind forallb]. destruct (f a); cbn [negb andb bind]; [|reflexivity].
    rewrite IH by lia. now rewrite (skipn_cons_S p lo a t E).
Qed.

Lemma src_is_zero (p : list (T A)) : s_is_zero p = Ok (is_zero p).
Proof.
  unfold s_is_zero, is_zero, for_ret. rewrite Nat.sub_0_r.
  rewrite (for_ret_forallb p (fun c => eqb c zero)) by lia. cbn [skipn bind].
  destruct (forallb _ p); reflexivity.
Qed.
(* trim: the while loop pops trailing zeros; the model strips leading zeros of the reversed list *)
Lemma trim_loop (r : list (T A)) fuel :
  r <> [] -> length r <= fuel ->
  while_ret (R := list (T A)) fuel (fun (s5 : list (T A) * nat) =>
      let '(self_, i_) := s5 in
      let* x2 := rd self_ i_ in
      if (eqb x2 zero && (0 <? i_))%bool
      then (let n3 := removelast self_ in let self_ := n3 in let* i_ := usub i_ 1 in Ok (WNext (self_, i_)))
      else Ok (WDone (self_, i_))) (rev r, length r - 1)
  = Ok (Some (inl (rev (trim_rev r), length (trim_rev r) - 1))).
Proof.
  revert fuel; induction r as [|c t IH]; intros fuel Hne Hf; [congruence|].
  destruct fuel as [|fuel]; [cbn in Hf; lia|]. cbn [while_ret rev length].
  replace (S (length t) - 1) with (length (rev t)) by (rewrite rev_length; lia).
  rewrite rd_app_mid. cbn [bind]. rewrite rev_length.
  destruct t as [|c2 t2].
  - cbn. rewrite andb_false_r. reflexivity.
  - cbn [length]. replace (0 <? S (length t2)) with true by reflexivity. rewrite andb_true_r.
    cbn [trim_rev]. destruct (eqb c zero).
    + cbv zeta. rewrite removelast_last. rewrite usub_ok by lia. cbn [bind].
      replace (S (length t2) - 1) with (length (c2 :: t2) - 1) by reflexivity.
      apply IH; [discriminate|cbn [length] in *; lia].
    + cbn [bind rev length]. reflexivity.
Qed.

Lemma src_ptrim (p : list (T A)) : s_ptrim p = ptrim p.
Proof.
  unfold s_ptrim, ptrim. destruct p as [|a t]; [reflexivity|].
  rewrite usub_ok by (cbn; lia). cbn [bind].
  rewrite <- (rev_involutive (a :: t)) at 2. rewrite <- (rev_length (a :: t)).
  rewrite trim_loop; [reflexivity| |lia].
  intros E. apply (f_equal (@length _)) in E. rewrite rev_length in E. discriminate.
Qed.

(* ---- polydiv: `while !r.is_zero() && r.degree()? >= v.degree()?` with the code's own cap MAX (gen/Params.v) ---- *)
Lemma upd_repeat_last (z c : T A) d : upd (repeat z (d + 1)) d c = Ok (repeat z d ++ [c]).
Proof.
  replace (repeat z (d + 1)) with (repeat z d ++ [z]) by (rewrite repeat_app; reflexivity).
  rewrite <- (repeat_length z d) at 2. rewrite upd_app_mid'. reflexivity.
Qed.

Lemma is_zero_nil_false (r : list (T A)) : is_zero r = false -> r <> [].
Proof. intros H ->. discriminate. Qed.

(* the generic shape of the while loop of polydiv against the fuelled recursion of the model *)
Lemma polydiv_loop_eq (BODY : list (T A) * list (T A) * nat -> res (wout (list (T A) * list (T A) * nat) (list (T A) * list (T A) + pderr)))
      (v : list (T A)) :
  (forall q r count, BODY (q, r, count) =
      if is_zero r || (length r <? length v) then Ok (WDone (q, r, count)) else
      let* qr := polydiv_body q r v in
      if POLYDIV_MAX <? S count then Ok (WRet (inr EMaxIter)) else Ok (WNext (fst qr, snd qr, S count))) ->
  forall fuel count q r, fuel + count = S POLYDIV_MAX -> 1 <= fuel ->
  (let* o := while_ret fuel BODY (q, r, count) in
   match o with
   | Some (inl (q_, r_, _)) => Ok (inl (q_, r_))
   | Some (inr x) => Ok x
   | None => Ok (inr EMaxIter)
   end) = polydiv_loop fuel count q r v.
Proof.
  intros HB fuel. induction fuel as [|f IH]; intros count q r Hs Hf; [lia|].
  cbn [while_ret polydiv_loop]. rewrite HB.
  destruct (is_zero r || (length r <? length v)); cbn [bind]; [reflexivity|].
  destruct (polydiv_body q r v) as [[q' r']|k]; cbn [bind fst snd]; [|reflexivity].
  destruct (Nat.ltb_spec POLYDIV_MAX (S count)) as [L|L]; cbn [bind]; [reflexivity|].
  apply IH; lia.
Qed.

Lemma src_polydiv (u v : list (T A)) : s_polydiv u v = polydiv u v.
Proof.
  unfold s_polydiv, polydiv.
  destruct (length v =? 0) eqn:Ev; [reflexivity|]. destruct (is_zero v) eqn:Zv; [reflexivity|].
  cbv zeta. change 1000 with POLYDIV_MAX.
  match goal with |- context [while_ret _ ?B _] => set (BODY := B) end.
  apply (polydiv_loop_eq BODY v); [|lia|lia].
  intros q r count. subst BODY. cbv beta iota.
  destruct v as [|v0 v']; [discriminate|]. rewrite !pdegree_cons.
  destruct (is_zero r) eqn:Zr; cbn [negb orb bind]; [reflexivity|].
  destruct r as [|r0 r']; [discriminate|]. rewrite !pdegree_cons. cbn [bind length].
  replace (S (length r') <? S (length v')) with (negb (length v' <=? length r'))
    by (destruct (Nat.leb_spec (length v') (length r')), (Nat.ltb_spec (S (length r')) (S (length v'))); cbn; lia || reflexivity).
  destruct (Nat.leb_spec (length v') (length r')) as [L|L]; cbn [negb]; [|reflexivity].
  unfold polydiv_body. cbn [length].
  replace (S (length r') - 1) with (length r') by lia. replace (S (length v') - 1) with (length v') by lia.
  rewrite !(usub_ok (length r') (length v')) by lia. cbn [bind]. rewrite ?bind_assoc.
  apply bind_ext; intros rl. rewrite ?bind_assoc. apply bind_ext; intros vl. rewrite ?bind_assoc. apply bind_ext; intros c.
  rewrite upd_repeat_last. cbn [bind]. rewrite ?bind_assoc.
  apply bind_ext; intros l. rewrite ?bind_assoc. apply bind_ext; intros r2. rewrite ?bind_assoc.
  apply bind_ext; intros r3. rewrite ?bind_assoc. apply bind_ext; intros q3.
  cbn [bind fst snd]. rewrite Nat.add_1_r. reflexivity.
Qed.
(* all of them at once: what a Props file pins as  model_is_source_<property>  *)
Definition model_is_source_Poly : Prop :=
  (forall p, s_pneg p = Ok (pneg p)) /\
  (forall p s, s_pscale p s = Ok (pscale p s)) /\
  (forall p x n, s_pderiv_at p x n = pderiv_at p x n) /\
  (forall p n, s_pderiv_n p n = pderiv_n p n) /\
  (forall p x, s_peval p x = peval p x) /\
  (forall p q, s_padd p q = Ok (padd p q)) /\
  (forall p q, s_psub p q = Ok (psub p q)) /\
  (forall p, s_pderiv p = pderiv p) /\
  (forall p q, s_pmul p q = Ok (pmul p q)) /\
  (forall (p : list (T A)), s_is_zero p = Ok (is_zero p)) /\
  (forall (p : list (T A)), s_ptrim p = ptrim p) /\
  (forall (u v : list (T A)), s_polydiv u v = polydiv u v).
Lemma model_is_source_Poly_lemma : model_is_source_Poly.
Proof. exact (conj src_pneg (conj src_pscale (conj src_pderiv_at (conj src_pderiv_n (conj src_peval (conj src_padd (conj src_psub (conj src_pderiv (conj src_pmul (conj src_is_zero (conj src_ptrim src_polydiv))))))))))). Qed.

End SrcEqPoly.
