(* Proofs/PinTest_meshio3.v -- compiled copy of Props/pending/C19_meshio3.v.txt (generated together with it):
   the imports of Props/C19.v, then exactly the blocks of the pending file. *)
From Coq Require Import List Arith Bool Reals Lra.
From OV Require Import Base.Panic.
From OV Require Import Base.Arith.
From OV Require Import Model.Vector.
From OV Require Import Model.Matrix.
From OV Require Import Model.Mesh.
From OV Require Import Inst.QcInst.
From OV Require Import Proofs.MeshBase.
From OV Require Import Proofs.MeshStore.
From OV Require Import Proofs.MeshQuad.
From OV Require Import Proofs.MeshInterp.
From OV Require Import Proofs.MeshIO.
From OV Require Import Proofs.MeshInterp2.
From OV Require Import Proofs.MeshQuad2.
From OV Require Import Proofs.MeshIO2.
From OV Require Import Model.MeshOps.
From OV Require Import Proofs.MeshHist.
Import ListNotations.
From OV Require Proofs.SrcEqMesh.

(* ---------------------------------------------------------------------------------------------------------------
   C19, round three (package meshio3): the file round trip for a formatter that ROUNDS.
   Mesh1D::output writes `{number:.prec$}` (fixed point, prec digits after the point -- src/mesh1d.rs:154-156; the same in
   Mesh2D::output / output_var), so `parse (fmt x) = Ok x` -- the hypothesis of read_layout_roundtrip above -- holds only for
   values with at most prec decimals.  The theorems below assume instead   parse (fmt x) = Ok (rnd x)   for an arbitrary
   function rnd (and only of the values the mesh holds where that is enough):
     read_layout_roundtrip_rounded   the mesh read back = the written mesh with every node and every value replaced by its
                                     rounding (map_mesh1 rnd m): same nvars, same number of nodes, same order
     rounded_mesh_entries            what map_mesh1 is, entry by entry
     read_layout_roundtrip_held      the values held survive printing  ->  the mesh read back is the mesh written
     roundtrip_idempotent            fmt (rnd x) = fmt x  ->  rnd (rnd x) = rnd x, the file written from the re-read mesh is
                                     the first file token for token, and reading it again returns the same mesh
     read_written_bad_token          a held value whose token does not parse: read panics
     read1_ok_or_parse_panic         read on ANY token list (any length) into a well-formed mesh: a well-formed mesh with
                                     ceil(len / (nvars+1)) nodes, or the panic of the parser on one of the tokens -- the
                                     indexing `self.vars[i / (nvars+1)][var]` can never go out of range
     read1_ok_iff                    read returns a mesh  <->  every token parses
     read1_panic_class               a parser with one panic (f64::from_str(..).unwrap(): Unwrap): read returns exactly
                                     that panic, exactly when some token does not parse
     read1_any_length                the complete result of read on ANY token list whose tokens parse, entry by entry:
                                     vars[k][v] = the token at position k*(nvars+1)+v+1 IF THE FILE HAS ONE, else the
                                     value of the mesh read into (or 0 beyond its nodes)
     read1_incomplete_line           so a file ending in an incomplete line is read without error and the missing
                                     variables of the last node silently keep stale values (observed on the
                                     implementation: the file "1 2 3 / 4 5" read into a mesh holding 80..83 gives vars[1] = [5, 81])
     tied_reread_rounded, tied_file_rounded
                                     the step function executed against the implementation on every run (tokens carried
                                     as the numbers they parse to, fmt = the measured table value -> printed value,
                                     parse = Ok) returns the mesh rounded by that table
   A concrete instance on the exact tier (Proofs/MeshIO3Fmt.v, MeshIO3Inst.v), so that the hypotheses are met by
   something that is not the identity: division rounded to nearest with ties to even (rneQ), the fixed-point formatter
   {:.N} = the one the code uses (fmt_fix / parse_fix / rnd_fix: token = sign + the digits as one integer) and the
   scientific formatter {:.Ne} (fmt_sci / parse_sci / rnd_sci: sign, N+1 digits, decimal exponent):
     rneQ_nearest_even               |rneQ q - q| <= 1/2, equality only at a tie and then the result is even; integers fixed
     fix_formatter_laws              parse (fmt x) = Ok (rnd x), fmt (rnd x) = fmt x, |rnd x - x| <= 10^-N / 2
     fix_fixpoints                   rnd x = x  <->  x has at most N decimals
     sci_formatter_laws              the same with |rnd x - x| <= |x| 10^-N / 2 (relative), and what is printed has exactly
                                     N+1 significant digits (or is 0)
     sci_formatter_ulp               10^e <= |x| < 10^(e+1) for e = dexp x, and |rnd x - x| <= 10^(e-N) / 2: half a unit of the
                                     last of the N+1 digits; the printed exponent is e, or e+1 with mantissa 1.00..0 (carry)
     file_roundtrip_fix, file_roundtrip_fix_twice, file_roundtrip_fix_exact, file_roundtrip_sci
                                     Mesh1D<Rat,Rat>: write + read = the mesh rounded entry by entry, every entry within
                                     half a unit of the last digit; a second round trip is the identity; entries with at
                                     most N decimals come back unchanged
     read_fix_outcome                reading any token list: a mesh or Panic Unwrap, the panic iff a token is malformed
   The SECOND rounding (Proofs/MeshIO3Fl.v): f64::from_str rounds the decimal to a binary64.  With the parser followed by
   an ARBITRARY function fl on the rationals:
     fmt_fix_near                    a number strictly within half a unit of the last digit of a decimal prints as it
     file_roundtrip_fix_fl           write + read = every entry replaced by fl (rnd_fix N entry)   (nothing asked of fl)
     file_roundtrip_fix_fl_twice     if fl moves every printed decimal by less than 10^-N / 2, the second file is the
                                     first file and the second round trip is the identity
     file_roundtrip_fix_fl_twice_rel the same from a relative error bound |fl y - y| <= u |y| for entries with
                                     u |decimal| < 10^-N / 2 (binary64, u = 2^-53: |decimal| < 10^-N * 4.5e15), and
                                     |read back - written| <= 10^-N / 2 + u |decimal|.  That the standard library's
                                     from_str satisfies the bound (correct rounding, no overflow/underflow) is assumed,
                                     not proved; beyond the bound on the entries nothing is proved here
     file_roundtrip_fix_nearest      NO bound on the entries: if the entries lie in a set F (the binary64 numbers) and
                                     fl y is at least as close to y as every element of F (from_str rounds to nearest),
                                     then fmt (fl (rnd x)) = fmt x for every x in F -- at a tie the printed last digit is
                                     even, so the tie read back prints the same -- hence second file = first file, second
                                     round trip = identity, and |read back - written| <= 10^-N
   Mesh2D (Proofs/MeshIO3Out2.v):
     output_var2_layout              output_var writes, for every j, one line x_i y_j v(i,j) per i and an empty line;
                                     a variable that does not exist panics (Index) on the first node
     output2_contents                line j*(nx+1)+i of the file of output is the line of node (i,j) = x_i, y_j, then the
                                     nvars variables of the node at slot i*ny+j; line j*(nx+1)+nx is empty; token
                                     (j*nx+i)*(nvars+2)+c of the whitespace-token stream is token c of that line
     output_var2_is_projection       the file of output_var = the file of output with the other variables' columns removed
   Proofs/MeshIO3Sample.v: recorded output of the Rust standard library's `{:.*}` / `{:.*e}` on 240 binary64 values (6 exact
   ties, 7 negative values rounding to zero): the digits are fmt_fix / fmt_sci of the exact rational value of the float.
   NOT modelled: the sign of a negative value that rounds to zero (Rust prints "-0.00" and reads -0.0; rationals have no
   signed zero, the model's token is unsigned), NaN / infinities; the binary64 rounding of f64::from_str is a parameter
   (fl) of the last five formatter theorems and absent from the others (exact rational arithmetic).
   --------------------------------------------------------------------------------------------------------------- *)
From Coq Require Import ZArith QArith Qabs Qcanon.
Close Scope Qc_scope.
Close Scope Q_scope.
From OV Require Import Proofs.MeshIO3.
From OV Require Import Proofs.MeshIO3Fmt.
From OV Require Import Proofs.MeshIO3Inst.
From OV Require Import Proofs.MeshIO3Out2.
From OV Require Import Proofs.MeshIO3Any.
From OV Require Import Proofs.MeshIO3Fl.
From OV Require Proofs.MeshIO3Sample.

Theorem read_layout_roundtrip_rounded : forall (A : Arith) (tok : Type) (fmt : A -> tok) (parse : tok -> res A) (rnd : A -> A),
  (forall x, parse (fmt x) = Ok (rnd x)) ->
  forall m m0 : mesh1 A A,
  wf1 m -> m1_nvars m0 = m1_nvars m -> Forall (fun r => length r = m1_nvars m0) (m1_vars m0) ->
  (let* lines := output1 tok fmt fmt m in read1 tok parse m0 (concat lines)) = Ok (map_mesh1 rnd m).
Proof. intros A tok fmt parse rnd Hp m m0. exact (MeshIO3.read_layout_roundtrip_rounded tok fmt parse rnd Hp m m0). Qed.
Check read_layout_roundtrip_rounded : forall (A : Arith) (tok : Type) (fmt : A -> tok) (parse : tok -> res A) (rnd : A -> A),
  (forall x, parse (fmt x) = Ok (rnd x)) ->
  forall m m0 : mesh1 A A,
  wf1 m -> m1_nvars m0 = m1_nvars m -> Forall (fun r => length r = m1_nvars m0) (m1_vars m0) ->
  (let* lines := output1 tok fmt fmt m in read1 tok parse m0 (concat lines)) = Ok (map_mesh1 rnd m).
Print Assumptions read_layout_roundtrip_rounded.
(* the fixed-point formatter with two decimals; a 3-node mesh holding 1/3, -2/7, 12.345, ... read into a 4-node mesh
   holding other data; the rounding is not the identity on it *)
Example read_layout_roundtrip_rounded_nonvacuous :
  (forall x : AQ, parse_fix 2 (fmt_fix 2 x) = Ok (rnd_fix 2 x)) /\
  wf1 ex_r /\ m1_nvars ex_r0 = m1_nvars ex_r /\ Forall (fun r => length r = m1_nvars ex_r0) (m1_vars ex_r0) /\
  map_mesh1 (A:=AQ) (rnd_fix 2) ex_r <> ex_r.
Proof.
  split; [exact (parse_fmt_fix 2)|]. split; [exact ex_r_wf|]. split; [reflexivity|].
  split; [repeat constructor | exact (proj2 file_roundtrip_fix_run)].
Qed.

Theorem rounded_mesh_entries : forall (A : Arith) (f : A -> A) (m : mesh1 A A),
  wf1 m ->
  wf1 (map_mesh1 f m) /\
  m1_nvars (map_mesh1 f m) = m1_nvars m /\
  length (m1_nodes (map_mesh1 f m)) = length (m1_nodes m) /\
  length (m1_vars (map_mesh1 f m)) = length (m1_vars m) /\
  (forall k, k < length (m1_nodes m) -> nth k (m1_nodes (map_mesh1 f m)) zero = f (nth k (m1_nodes m) zero)) /\
  (forall k v, k < length (m1_nodes m) -> v < m1_nvars m ->
     nth v (nth k (m1_vars (map_mesh1 f m)) []) zero = f (nth v (nth k (m1_vars m) []) zero)).
Proof. intros A f m H. split; [exact (MeshIO3.map_mesh1_wf f m H) | exact (MeshIO3.map_mesh1_entries f m H)]. Qed.
Check rounded_mesh_entries : forall (A : Arith) (f : A -> A) (m : mesh1 A A),
  wf1 m ->
  wf1 (map_mesh1 f m) /\
  m1_nvars (map_mesh1 f m) = m1_nvars m /\
  length (m1_nodes (map_mesh1 f m)) = length (m1_nodes m) /\
  length (m1_vars (map_mesh1 f m)) = length (m1_vars m) /\
  (forall k, k < length (m1_nodes m) -> nth k (m1_nodes (map_mesh1 f m)) zero = f (nth k (m1_nodes m) zero)) /\
  (forall k v, k < length (m1_nodes m) -> v < m1_nvars m ->
     nth v (nth k (m1_vars (map_mesh1 f m)) []) zero = f (nth v (nth k (m1_vars m) []) zero)).
Print Assumptions rounded_mesh_entries.
Example rounded_mesh_entries_nonvacuous : wf1 ex_r /\ 2 < length (m1_nodes ex_r) /\ 1 < m1_nvars ex_r.
Proof. split; [exact ex_r_wf|]. split; cbn; auto. Qed.

Theorem read_layout_roundtrip_held : forall (A : Arith) (tok : Type) (fmt : A -> tok) (parse : tok -> res A) (m m0 : mesh1 A A),
  (forall x, In x (m1_nodes m ++ concat (m1_vars m)) -> parse (fmt x) = Ok x) ->
  wf1 m -> m1_nvars m0 = m1_nvars m -> Forall (fun r => length r = m1_nvars m0) (m1_vars m0) ->
  (let* lines := output1 tok fmt fmt m in read1 tok parse m0 (concat lines)) = Ok m.
Proof. intros A tok fmt parse m m0. exact (MeshIO3.read_layout_roundtrip_held tok fmt parse m m0). Qed.
Check read_layout_roundtrip_held : forall (A : Arith) (tok : Type) (fmt : A -> tok) (parse : tok -> res A) (m m0 : mesh1 A A),
  (forall x, In x (m1_nodes m ++ concat (m1_vars m)) -> parse (fmt x) = Ok x) ->
  wf1 m -> m1_nvars m0 = m1_nvars m -> Forall (fun r => length r = m1_nvars m0) (m1_vars m0) ->
  (let* lines := output1 tok fmt fmt m in read1 tok parse m0 (concat lines)) = Ok m.
Print Assumptions read_layout_roundtrip_held.
(* one decimal: every entry of ex_h survives, 1/3 would not *)
Example read_layout_roundtrip_held_nonvacuous :
  (forall x : Qc, In x (m1_nodes ex_h ++ concat (m1_vars ex_h)) -> parse_fix 1 (fmt_fix 1 x) = Ok x) /\
  wf1 ex_h /\ m1_nvars ex_r0 = m1_nvars ex_h /\ Forall (fun r => length r = m1_nvars ex_r0) (m1_vars ex_r0) /\
  parse_fix 1 (fmt_fix 1 (q 1 3)) <> Ok (q 1 3).
Proof.
  split; [exact ex_h_survives|]. split; [exact ex_h_wf|]. split; [reflexivity|].
  split; [repeat constructor | exact third_does_not_survive].
Qed.

Theorem roundtrip_idempotent : forall (A : Arith) (tok : Type) (fmt : A -> tok) (parse : tok -> res A) (rnd : A -> A),
  (forall x, parse (fmt x) = Ok (rnd x)) -> (forall x, fmt (rnd x) = fmt x) ->
  (forall x, rnd (rnd x) = rnd x) /\
  forall m m0 m1 : mesh1 A A,
  wf1 m -> m1_nvars m0 = m1_nvars m -> m1_nvars m1 = m1_nvars m ->
  Forall (fun r => length r = m1_nvars m0) (m1_vars m0) ->
  Forall (fun r => length r = m1_nvars m1) (m1_vars m1) ->
  exists lines m',
    output1 tok fmt fmt m = Ok lines /\
    read1 tok parse m0 (concat lines) = Ok m' /\ m' = map_mesh1 rnd m /\
    output1 tok fmt fmt m' = Ok lines /\
    read1 tok parse m1 (concat lines) = Ok m'.
Proof. intros A tok fmt parse rnd Hp Hf. split; [exact (MeshIO3.rnd_idempotent tok fmt parse rnd Hp Hf)|].
  intros m m0 m1. exact (MeshIO3.roundtrip_twice tok fmt parse rnd Hp Hf m m0 m1). Qed.
Check roundtrip_idempotent : forall (A : Arith) (tok : Type) (fmt : A -> tok) (parse : tok -> res A) (rnd : A -> A),
  (forall x, parse (fmt x) = Ok (rnd x)) -> (forall x, fmt (rnd x) = fmt x) ->
  (forall x, rnd (rnd x) = rnd x) /\
  forall m m0 m1 : mesh1 A A,
  wf1 m -> m1_nvars m0 = m1_nvars m -> m1_nvars m1 = m1_nvars m ->
  Forall (fun r => length r = m1_nvars m0) (m1_vars m0) ->
  Forall (fun r => length r = m1_nvars m1) (m1_vars m1) ->
  exists lines m',
    output1 tok fmt fmt m = Ok lines /\
    read1 tok parse m0 (concat lines) = Ok m' /\ m' = map_mesh1 rnd m /\
    output1 tok fmt fmt m' = Ok lines /\
    read1 tok parse m1 (concat lines) = Ok m'.
Print Assumptions roundtrip_idempotent.
Example roundtrip_idempotent_nonvacuous :
  (forall x : AQ, parse_sci 2 (fmt_sci 2 x) = Ok (rnd_sci 2 x)) /\ (forall x : AQ, fmt_sci 2 (rnd_sci 2 x) = fmt_sci 2 x) /\
  wf1 ex_r /\ m1_nvars ex_r0 = m1_nvars ex_r /\ Forall (fun r => length r = m1_nvars ex_r0) (m1_vars ex_r0).
Proof.
  split; [exact (parse_fmt_sci 2)|]. split; [exact (fmt_rnd_sci 2)|]. split; [exact ex_r_wf|].
  split; [reflexivity | repeat constructor].
Qed.

Theorem read_written_bad_token : forall (A : Arith) (tok : Type) (fmt : A -> tok) (parse : tok -> res A) (m m0 : mesh1 A A) x k,
  wf1 m -> In x (m1_nodes m ++ concat (m1_vars m)) -> parse (fmt x) = Panic k ->
  exists k', (let* lines := output1 tok fmt fmt m in read1 tok parse m0 (concat lines)) = Panic k'.
Proof. intros A tok fmt parse m m0 x k. exact (MeshIO3.read_written_bad_token tok fmt parse m m0 x k). Qed.
Check read_written_bad_token : forall (A : Arith) (tok : Type) (fmt : A -> tok) (parse : tok -> res A) (m m0 : mesh1 A A) x k,
  wf1 m -> In x (m1_nodes m ++ concat (m1_vars m)) -> parse (fmt x) = Panic k ->
  exists k', (let* lines := output1 tok fmt fmt m in read1 tok parse m0 (concat lines)) = Panic k'.
Print Assumptions read_written_bad_token.
(* a formatter that writes a malformed token for negative values; ex_r holds -2/7 *)
Example read_written_bad_token_nonvacuous :
  wf1 ex_r /\ In (q (-2) 7) (m1_nodes ex_r ++ concat (m1_vars ex_r)) /\ parse_fix 2 (fmt_bad (q (-2) 7)) = Panic Unwrap.
Proof. split; [exact ex_r_wf|]. split; [cbn; auto 10 | reflexivity]. Qed.

Theorem read1_ok_or_parse_panic : forall (A : Arith) (tok : Type) (parse : tok -> res A) (m0 : mesh1 A A) (toks : list tok),
  Forall (fun r => length r = m1_nvars m0) (m1_vars m0) ->
  match read1 tok parse m0 toks with
  | Ok m' => wf1 m' /\ m1_nvars m' = m1_nvars m0 /\
             length (m1_nodes m') = (length toks + m1_nvars m0) / (m1_nvars m0 + 1)
  | Panic k => exists t, In t toks /\ parse t = Panic k
  end.
Proof. intros A tok parse m0 toks. exact (MeshIO3.read1_ok_or_parse_panic tok parse m0 toks). Qed.
Check read1_ok_or_parse_panic : forall (A : Arith) (tok : Type) (parse : tok -> res A) (m0 : mesh1 A A) (toks : list tok),
  Forall (fun r => length r = m1_nvars m0) (m1_vars m0) ->
  match read1 tok parse m0 toks with
  | Ok m' => wf1 m' /\ m1_nvars m' = m1_nvars m0 /\
             length (m1_nodes m') = (length toks + m1_nvars m0) / (m1_nvars m0 + 1)
  | Panic k => exists t, In t toks /\ parse t = Panic k
  end.
Print Assumptions read1_ok_or_parse_panic.
(* five tokens for nvars = 2: one complete line and an incomplete one *)
Example read1_ok_or_parse_panic_nonvacuous :
  Forall (fun r => length r = m1_nvars ex_r0) (m1_vars ex_r0) /\
  (length [FTok false 1; FTok false 2; FTok true 3; FTok false 4; FTok false 5] + m1_nvars ex_r0) / (m1_nvars ex_r0 + 1) = 2.
Proof. split; [repeat constructor | reflexivity]. Qed.

Theorem read1_ok_iff : forall (A : Arith) (tok : Type) (parse : tok -> res A) (m0 : mesh1 A A) (toks : list tok),
  Forall (fun r => length r = m1_nvars m0) (m1_vars m0) ->
  ((exists m', read1 tok parse m0 toks = Ok m') <-> Forall (fun t => exists x, parse t = Ok x) toks).
Proof. intros A tok parse m0 toks. exact (MeshIO3.read1_ok_iff tok parse m0 toks). Qed.
Check read1_ok_iff : forall (A : Arith) (tok : Type) (parse : tok -> res A) (m0 : mesh1 A A) (toks : list tok),
  Forall (fun r => length r = m1_nvars m0) (m1_vars m0) ->
  ((exists m', read1 tok parse m0 toks = Ok m') <-> Forall (fun t => exists x, parse t = Ok x) toks).
Print Assumptions read1_ok_iff.
Example read1_ok_iff_nonvacuous :
  Forall (fun r => length r = m1_nvars ex_r0) (m1_vars ex_r0) /\
  Forall (fun t => exists x, parse_fix 2 t = Ok x) [FTok false 1; FTok true 25] /\
  ~ Forall (fun t => exists x, parse_fix 2 t = Ok x) [FTok false 1; FTok false (-1)].
Proof.
  split; [repeat constructor|]. split.
  - repeat constructor; eexists; reflexivity.
  - intros H. inversion H as [|? ? _ H2]. inversion H2 as [|? ? [y Hy] _]. discriminate.
Qed.

Theorem read1_panic_class : forall (A : Arith) (tok : Type) (parse : tok -> res A) (m0 : mesh1 A A) (toks : list tok) k,
  Forall (fun r => length r = m1_nvars m0) (m1_vars m0) ->
  (forall t k', In t toks -> parse t = Panic k' -> k' = k) ->
  (read1 tok parse m0 toks = Panic k <-> exists t, In t toks /\ parse t = Panic k) /\
  (forall k', read1 tok parse m0 toks = Panic k' -> k' = k).
Proof. intros A tok parse m0 toks k. exact (MeshIO3.read1_panic_class tok parse m0 toks k). Qed.
Check read1_panic_class : forall (A : Arith) (tok : Type) (parse : tok -> res A) (m0 : mesh1 A A) (toks : list tok) k,
  Forall (fun r => length r = m1_nvars m0) (m1_vars m0) ->
  (forall t k', In t toks -> parse t = Panic k' -> k' = k) ->
  (read1 tok parse m0 toks = Panic k <-> exists t, In t toks /\ parse t = Panic k) /\
  (forall k', read1 tok parse m0 toks = Panic k' -> k' = k).
Print Assumptions read1_panic_class.
Example read1_panic_class_nonvacuous :
  Forall (fun r => length r = m1_nvars ex_r0) (m1_vars ex_r0) /\
  (forall t k', In t [FTok false 1; FTok false (-1)] -> parse_fix 2 t = Panic k' -> k' = Unwrap) /\
  In (FTok false (-1)) [FTok false 1; FTok false (-1)] /\ parse_fix 2 (FTok false (-1)) = Panic Unwrap.
Proof.
  split; [repeat constructor|]. split; [intros t k' _ H; now apply parse_fix_panic in H|].
  split; [cbn; auto | reflexivity].
Qed.

Theorem tied_reread_rounded : forall (A : Arith) (K : @mconst A) (m : mesh1 A A) tbl,
  wf1 m ->
  step1 K m (O1Reread tbl) =
  Ok (map_mesh1 (fmt_tbl tbl) m, VLinesM1 (layout1 A (fmt_tbl tbl) m) (map_mesh1 (fmt_tbl tbl) m)).
Proof. intros A K m tbl. exact (MeshIO3.tied_reread_rounded K m tbl). Qed.
Check tied_reread_rounded : forall (A : Arith) (K : @mconst A) (m : mesh1 A A) tbl,
  wf1 m ->
  step1 K m (O1Reread tbl) =
  Ok (map_mesh1 (fmt_tbl tbl) m, VLinesM1 (layout1 A (fmt_tbl tbl) m) (map_mesh1 (fmt_tbl tbl) m)).
Print Assumptions tied_reread_rounded.
Example tied_reread_rounded_nonvacuous : wf1 ex_r /\ fmt_tbl (A:=AQ) [(q 1 3, q 33 100)] (q 1 3) <> q 1 3.
Proof.
  split; [exact ex_r_wf|]. intros E. apply (f_equal this) in E. vm_compute in E. discriminate.
Qed.

Theorem tied_file_rounded : forall (A : Arith) (K : @mconst A) (m : mesh1 A A) tbl nodes2,
  wf1 m ->
  step1 K m (O1File tbl (m1_nvars m) nodes2) =
  Ok (m, VLinesM1 (layout1 A (fmt_tbl tbl) m) (map_mesh1 (fmt_tbl tbl) m)).
Proof. intros A K m tbl nodes2. exact (MeshIO3.tied_file_rounded K m tbl nodes2). Qed.
Check tied_file_rounded : forall (A : Arith) (K : @mconst A) (m : mesh1 A A) tbl nodes2,
  wf1 m ->
  step1 K m (O1File tbl (m1_nvars m) nodes2) =
  Ok (m, VLinesM1 (layout1 A (fmt_tbl tbl) m) (map_mesh1 (fmt_tbl tbl) m)).
Print Assumptions tied_file_rounded.
Example tied_file_rounded_nonvacuous : wf1 ex_r.
Proof. exact ex_r_wf. Qed.

Theorem read1_any_length : forall (A : Arith) (tok : Type) (parse : tok -> res A) (m0 : mesh1 A A) (toks : list tok) (val : nat -> A),
  (forall i, i < length toks -> exists t, nth_error toks i = Some t /\ parse t = Ok (val i)) ->
  Forall (fun r => length r = m1_nvars m0) (m1_vars m0) ->
  let w := m1_nvars m0 + 1 in
  let N := (length toks + m1_nvars m0) / w in
  read1 tok parse m0 toks =
  Ok (mkM1 (m1_nvars m0)
        (map (fun k => val (k * w)) (seq 0 N))
        (map (fun k => map (fun v =>
                if k * w + S v <? length toks then val (k * w + S v)
                else if k <? length (m1_vars m0) then nth v (nth k (m1_vars m0) []) zero
                else zero) (seq 0 (m1_nvars m0))) (seq 0 N))).
Proof. intros A tok parse m0 toks val. exact (MeshIO3Any.read1_any_length_spec tok parse m0 toks val). Qed.
Check read1_any_length : forall (A : Arith) (tok : Type) (parse : tok -> res A) (m0 : mesh1 A A) (toks : list tok) (val : nat -> A),
  (forall i, i < length toks -> exists t, nth_error toks i = Some t /\ parse t = Ok (val i)) ->
  Forall (fun r => length r = m1_nvars m0) (m1_vars m0) ->
  let w := m1_nvars m0 + 1 in
  let N := (length toks + m1_nvars m0) / w in
  read1 tok parse m0 toks =
  Ok (mkM1 (m1_nvars m0)
        (map (fun k => val (k * w)) (seq 0 N))
        (map (fun k => map (fun v =>
                if k * w + S v <? length toks then val (k * w + S v)
                else if k <? length (m1_vars m0) then nth v (nth k (m1_vars m0) []) zero
                else zero) (seq 0 (m1_nvars m0))) (seq 0 N))).
Print Assumptions read1_any_length.
(* five tokens, nvars = 2, read into a 4-node mesh holding 7s: nodes 1 4, variables [2 3] [5 7] *)
Example read1_any_length_nonvacuous :
  (forall i, i < length [FTok false 1; FTok false 2; FTok false 3; FTok false 4; FTok false 5] ->
     exists t, nth_error [FTok false 1; FTok false 2; FTok false 3; FTok false 4; FTok false 5] i = Some t /\
               parse_fix 0 t = Ok (Q2Qc (inject_Z (Z.of_nat i + 1)))) /\
  Forall (fun r => length r = m1_nvars ex_r0) (m1_vars ex_r0) /\
  meshQ_view (@read1 AQ ftok (parse_fix 0) ex_r0 [FTok false 1; FTok false 2; FTok false 3; FTok false 4; FTok false 5]) =
  Some (2, [1; 4]%Q, [[2; 3]; [5; 7]]%Q).
Proof.
  split; [|split; [repeat constructor | exact read_incomplete_line_run]].
  intros i Hi. cbn [length] in Hi.
  do 5 (destruct i as [|i]; [eexists; split; [reflexivity|]; apply (f_equal (@Ok Qc)); apply Qc_is_canon; reflexivity|]).
  exfalso. apply (Nat.lt_irrefl 5). eapply Nat.le_lt_trans; [|exact Hi]. do 5 apply le_n_S. apply Nat.le_0_l.
Qed.

Theorem read1_incomplete_line : forall (A : Arith) (tok : Type) (parse : tok -> res A) (m0 : mesh1 A A) (toks : list tok) (val : nat -> A) n r,
  (forall i, i < length toks -> exists t, nth_error toks i = Some t /\ parse t = Ok (val i)) ->
  Forall (fun r => length r = m1_nvars m0) (m1_vars m0) ->
  length toks = n * (m1_nvars m0 + 1) + r -> 0 < r < m1_nvars m0 + 1 ->
  exists m', read1 tok parse m0 toks = Ok m' /\
    length (m1_nodes m') = n + 1 /\
    nth n (m1_nodes m') zero = val (n * (m1_nvars m0 + 1)) /\
    forall v, v < m1_nvars m0 ->
      nth v (nth n (m1_vars m') []) zero =
      if S v <? r then val (n * (m1_nvars m0 + 1) + S v)
      else if n <? length (m1_vars m0) then nth v (nth n (m1_vars m0) []) zero else zero.
Proof. intros A tok parse m0 toks val n r. exact (MeshIO3Any.read1_incomplete_line tok parse m0 toks val n r). Qed.
Check read1_incomplete_line : forall (A : Arith) (tok : Type) (parse : tok -> res A) (m0 : mesh1 A A) (toks : list tok) (val : nat -> A) n r,
  (forall i, i < length toks -> exists t, nth_error toks i = Some t /\ parse t = Ok (val i)) ->
  Forall (fun r => length r = m1_nvars m0) (m1_vars m0) ->
  length toks = n * (m1_nvars m0 + 1) + r -> 0 < r < m1_nvars m0 + 1 ->
  exists m', read1 tok parse m0 toks = Ok m' /\
    length (m1_nodes m') = n + 1 /\
    nth n (m1_nodes m') zero = val (n * (m1_nvars m0 + 1)) /\
    forall v, v < m1_nvars m0 ->
      nth v (nth n (m1_vars m') []) zero =
      if S v <? r then val (n * (m1_nvars m0 + 1) + S v)
      else if n <? length (m1_vars m0) then nth v (nth n (m1_vars m0) []) zero else zero.
Print Assumptions read1_incomplete_line.
Example read1_incomplete_line_nonvacuous :
  length [FTok false 1; FTok false 2; FTok false 3; FTok false 4; FTok false 5] = 1 * (m1_nvars ex_r0 + 1) + 2 /\
  0 < 2 < m1_nvars ex_r0 + 1.
Proof. split; [reflexivity | cbn; auto]. Qed.

Theorem rneQ_nearest_even : forall q : Q,
  (Qabs (inject_Z (rneQ q) - q) <= 1 # 2)%Q /\
  ((Qabs (inject_Z (rneQ q) - q) == 1 # 2)%Q -> Z.even (rneQ q) = true) /\
  (forall n : Z, rneQ (inject_Z n) = n) /\
  (forall q' : Q, (q == q')%Q -> rneQ q = rneQ q').
Proof. intros q. split; [exact (MeshIO3Fmt.rneQ_abs_err q)|]. split; [exact (MeshIO3Fmt.rneQ_half_even q)|].
  split; [exact MeshIO3Fmt.rneQ_inject | exact (MeshIO3Fmt.rneQ_proper q)]. Qed.
Check rneQ_nearest_even : forall q : Q,
  (Qabs (inject_Z (rneQ q) - q) <= 1 # 2)%Q /\
  ((Qabs (inject_Z (rneQ q) - q) == 1 # 2)%Q -> Z.even (rneQ q) = true) /\
  (forall n : Z, rneQ (inject_Z n) = n) /\
  (forall q' : Q, (q == q')%Q -> rneQ q = rneQ q').
Print Assumptions rneQ_nearest_even.
(* 5/2 -> 2, 7/2 -> 4, -5/2 -> -2, 1/3 -> 0, 2/3 -> 1 *)
Example rneQ_nearest_even_nonvacuous :
  map rneQ [(5 # 2)%Q; (7 # 2)%Q; (-5 # 2)%Q; (1 # 3)%Q; (2 # 3)%Q] = [2; 4; -2; 0; 1]%Z /\
  (Qabs (inject_Z (rneQ (5 # 2)) - (5 # 2)) == 1 # 2)%Q.
Proof. split; reflexivity. Qed.

Theorem fix_formatter_laws : forall (N : nat) (x : Qc),
  parse_fix N (fmt_fix N x) = Ok (rnd_fix N x) /\
  fmt_fix N (rnd_fix N x) = fmt_fix N x /\
  (Qabs (rnd_fix N x - x) <= (1 # 2) / inject_Z (10 ^ Z.of_nat N))%Q /\
  fmt_fix N x = FTok (Qneg x && negb (fixn N x =? 0)%Z) (rneQ (Qabs x * inject_Z (10 ^ Z.of_nat N))) /\
  (0 <= ft_int (fmt_fix N x))%Z.
Proof. intros N x. split; [exact (MeshIO3Fmt.parse_fmt_fix N x)|]. split; [exact (MeshIO3Fmt.fmt_rnd_fix N x)|].
  split; [exact (MeshIO3Fmt.rnd_fix_err N x)|]. split; [reflexivity | exact (MeshIO3Fmt.fixn_nonneg N x)]. Qed.
Check fix_formatter_laws : forall (N : nat) (x : Qc),
  parse_fix N (fmt_fix N x) = Ok (rnd_fix N x) /\
  fmt_fix N (rnd_fix N x) = fmt_fix N x /\
  (Qabs (rnd_fix N x - x) <= (1 # 2) / inject_Z (10 ^ Z.of_nat N))%Q /\
  fmt_fix N x = FTok (Qneg x && negb (fixn N x =? 0)%Z) (rneQ (Qabs x * inject_Z (10 ^ Z.of_nat N))) /\
  (0 <= ft_int (fmt_fix N x))%Z.
Print Assumptions fix_formatter_laws.
(* two decimals: 1/3 -> 0.33, -2/7 -> -0.29, 12.345 -> 12.34 (tie to even), -1/1000 -> 0.00, 9.995 -> 10.00 *)
Example fix_formatter_laws_nonvacuous :
  map (fmt_fix 2) [q 1 3; q (-2) 7; q 12345 1000; q (-1) 1000; q 9995 1000] =
  [FTok false 33; FTok true 29; FTok false 1234; FTok false 0; FTok false 1000].
Proof. vm_compute. reflexivity. Qed.

Theorem fix_fixpoints : forall (N : nat) (x : Qc),
  rnd_fix N x = x <-> exists z : Z, (x == inject_Z z / inject_Z (10 ^ Z.of_nat N))%Q.
Proof. intros N x. exact (MeshIO3Fmt.rnd_fix_fixpoint N x). Qed.
Check fix_fixpoints : forall (N : nat) (x : Qc),
  rnd_fix N x = x <-> exists z : Z, (x == inject_Z z / inject_Z (10 ^ Z.of_nat N))%Q.
Print Assumptions fix_fixpoints.
Example fix_fixpoints_nonvacuous : (q 1234 100 == inject_Z 1234 / inject_Z (10 ^ Z.of_nat 2))%Q.
Proof. reflexivity. Qed.

Theorem sci_formatter_laws : forall (N : nat) (x : Qc),
  parse_sci N (fmt_sci N x) = Ok (rnd_sci N x) /\
  fmt_sci N (rnd_sci N x) = fmt_sci N x /\
  (Qabs (rnd_sci N x - x) <= Qabs x * ((1 # 2) / inject_Z (10 ^ Z.of_nat N)))%Q /\
  ((10 ^ Z.of_nat N <= st_mant (fmt_sci N x) < 10 ^ Z.of_nat (S N))%Z \/ fmt_sci N x = STok false 0 0) /\
  (rnd_sci N x == inject_Z (if st_neg (fmt_sci N x) then - st_mant (fmt_sci N x) else st_mant (fmt_sci N x)) *
                  (10 # 1) ^ (st_exp (fmt_sci N x) - Z.of_nat N))%Q.
Proof. intros N x. split; [exact (MeshIO3Fmt.parse_fmt_sci N x)|]. split; [exact (MeshIO3Fmt.fmt_rnd_sci N x)|].
  split; [exact (MeshIO3Fmt.rnd_sci_err N x)|]. split; [exact (MeshIO3Fmt.fmt_sciQ_canonical N x)|].
  exact (MeshIO3Fmt.Q2Qc_this _). Qed.
Check sci_formatter_laws : forall (N : nat) (x : Qc),
  parse_sci N (fmt_sci N x) = Ok (rnd_sci N x) /\
  fmt_sci N (rnd_sci N x) = fmt_sci N x /\
  (Qabs (rnd_sci N x - x) <= Qabs x * ((1 # 2) / inject_Z (10 ^ Z.of_nat N)))%Q /\
  ((10 ^ Z.of_nat N <= st_mant (fmt_sci N x) < 10 ^ Z.of_nat (S N))%Z \/ fmt_sci N x = STok false 0 0) /\
  (rnd_sci N x == inject_Z (if st_neg (fmt_sci N x) then - st_mant (fmt_sci N x) else st_mant (fmt_sci N x)) *
                  (10 # 1) ^ (st_exp (fmt_sci N x) - Z.of_nat N))%Q.
Print Assumptions sci_formatter_laws.
(* three significant digits: 1/3 -> 3.33e-1, -2/7 -> -2.86e-1, 12.345 -> 1.23e1, 9.995 -> 1.00e1 (carry), 1/123456 -> 8.10e-6 *)
Example sci_formatter_laws_nonvacuous :
  map (fmt_sci 2) [q 1 3; q (-2) 7; q 12345 1000; q 9995 1000; q 1 123456; q 0 1] =
  [STok false 333 (-1); STok true 286 (-1); STok false 123 1; STok false 100 1; STok false 810 (-6); STok false 0 0].
Proof. vm_compute. reflexivity. Qed.

Theorem sci_formatter_ulp : forall (N : nat) (x : Qc), ~ (x == 0)%Q ->
  ((10 # 1) ^ dexp x <= Qabs x < (10 # 1) ^ (dexp x + 1))%Q /\
  (Qabs (rnd_sci N x - x) <= (1 # 2) * (10 # 1) ^ (dexp x - Z.of_nat N))%Q /\
  (st_exp (fmt_sci N x) = dexp x \/
   st_exp (fmt_sci N x) = (dexp x + 1)%Z /\ st_mant (fmt_sci N x) = (10 ^ Z.of_nat N)%Z).
Proof. intros N x. exact (MeshIO3Fmt.rnd_sci_ulp N x). Qed.
Check sci_formatter_ulp : forall (N : nat) (x : Qc), ~ (x == 0)%Q ->
  ((10 # 1) ^ dexp x <= Qabs x < (10 # 1) ^ (dexp x + 1))%Q /\
  (Qabs (rnd_sci N x - x) <= (1 # 2) * (10 # 1) ^ (dexp x - Z.of_nat N))%Q /\
  (st_exp (fmt_sci N x) = dexp x \/
   st_exp (fmt_sci N x) = (dexp x + 1)%Z /\ st_mant (fmt_sci N x) = (10 ^ Z.of_nat N)%Z).
Print Assumptions sci_formatter_ulp.
(* 9.995 lies in the decade of 10^0; three digits: 9.995 -> 10.0 = 1.00e1 (the carry case) *)
Example sci_formatter_ulp_nonvacuous :
  ~ (q 9995 1000 == 0)%Q /\ dexp (q 9995 1000) = 0%Z /\ fmt_sci 2 (q 9995 1000) = STok false 100 1.
Proof. split; [discriminate|]. split; vm_compute; reflexivity. Qed.

Theorem file_roundtrip_fix : forall (N : nat) (m m0 : mesh1 AQ AQ),
  wf1 m -> m1_nvars m0 = m1_nvars m -> Forall (fun r => length r = m1_nvars m0) (m1_vars m0) ->
  (let* lines := @output1 AQ AQ ftok (fmt_fix N) (fmt_fix N) m in
   @read1 AQ ftok (parse_fix N) m0 (concat lines)) = Ok (map_mesh1 (A:=AQ) (rnd_fix N) m) /\
  (forall k, k < length (m1_nodes m) ->
     (Qabs (nth k (m1_nodes (map_mesh1 (A:=AQ) (rnd_fix N) m)) 0%Qc - nth k (m1_nodes m) 0%Qc)
       <= (1 # 2) / inject_Z (10 ^ Z.of_nat N))%Q) /\
  (forall k v, k < length (m1_nodes m) -> v < m1_nvars m ->
     (Qabs (nth v (nth k (m1_vars (map_mesh1 (A:=AQ) (rnd_fix N) m)) []) 0%Qc - nth v (nth k (m1_vars m) []) 0%Qc)
       <= (1 # 2) / inject_Z (10 ^ Z.of_nat N))%Q).
Proof. intros N m m0 Hwf Hnv Hall. split; [exact (MeshIO3Inst.file_roundtrip_fix N m m0 Hwf Hnv Hall)|].
  exact (MeshIO3Inst.file_roundtrip_fix_close N m Hwf). Qed.
Check file_roundtrip_fix : forall (N : nat) (m m0 : mesh1 AQ AQ),
  wf1 m -> m1_nvars m0 = m1_nvars m -> Forall (fun r => length r = m1_nvars m0) (m1_vars m0) ->
  (let* lines := @output1 AQ AQ ftok (fmt_fix N) (fmt_fix N) m in
   @read1 AQ ftok (parse_fix N) m0 (concat lines)) = Ok (map_mesh1 (A:=AQ) (rnd_fix N) m) /\
  (forall k, k < length (m1_nodes m) ->
     (Qabs (nth k (m1_nodes (map_mesh1 (A:=AQ) (rnd_fix N) m)) 0%Qc - nth k (m1_nodes m) 0%Qc)
       <= (1 # 2) / inject_Z (10 ^ Z.of_nat N))%Q) /\
  (forall k v, k < length (m1_nodes m) -> v < m1_nvars m ->
     (Qabs (nth v (nth k (m1_vars (map_mesh1 (A:=AQ) (rnd_fix N) m)) []) 0%Qc - nth v (nth k (m1_vars m) []) 0%Qc)
       <= (1 # 2) / inject_Z (10 ^ Z.of_nat N))%Q).
Print Assumptions file_roundtrip_fix.
(* computed: the mesh read back is ex_r with 1/3 -> 33/100, 1/8 -> 12/100, -2/7 -> -29/100, 12.345 -> 12.34, -1/1000 -> 0,
   9.995 -> 10, 22/7 -> 3.14, and it is not ex_r *)
Example file_roundtrip_fix_nonvacuous :
  meshQ_view (let* lines := @output1 AQ AQ ftok (fmt_fix 2) (fmt_fix 2) ex_r in
              @read1 AQ ftok (parse_fix 2) ex_r0 (concat lines)) = meshQ_view (Ok ex_r_fix2) /\
  map_mesh1 (A:=AQ) (rnd_fix 2) ex_r <> ex_r.
Proof. exact file_roundtrip_fix_run. Qed.

Theorem file_roundtrip_fix_twice : forall (N : nat) (m m0 m1 : mesh1 AQ AQ),
  wf1 m -> m1_nvars m0 = m1_nvars m -> m1_nvars m1 = m1_nvars m ->
  Forall (fun r => length r = m1_nvars m0) (m1_vars m0) ->
  Forall (fun r => length r = m1_nvars m1) (m1_vars m1) ->
  exists lines m',
    @output1 AQ AQ ftok (fmt_fix N) (fmt_fix N) m = Ok lines /\
    @read1 AQ ftok (parse_fix N) m0 (concat lines) = Ok m' /\ m' = map_mesh1 (A:=AQ) (rnd_fix N) m /\
    @output1 AQ AQ ftok (fmt_fix N) (fmt_fix N) m' = Ok lines /\
    @read1 AQ ftok (parse_fix N) m1 (concat lines) = Ok m'.
Proof. intros N m m0 m1. exact (MeshIO3Inst.file_roundtrip_fix_twice N m m0 m1). Qed.
Check file_roundtrip_fix_twice : forall (N : nat) (m m0 m1 : mesh1 AQ AQ),
  wf1 m -> m1_nvars m0 = m1_nvars m -> m1_nvars m1 = m1_nvars m ->
  Forall (fun r => length r = m1_nvars m0) (m1_vars m0) ->
  Forall (fun r => length r = m1_nvars m1) (m1_vars m1) ->
  exists lines m',
    @output1 AQ AQ ftok (fmt_fix N) (fmt_fix N) m = Ok lines /\
    @read1 AQ ftok (parse_fix N) m0 (concat lines) = Ok m' /\ m' = map_mesh1 (A:=AQ) (rnd_fix N) m /\
    @output1 AQ AQ ftok (fmt_fix N) (fmt_fix N) m' = Ok lines /\
    @read1 AQ ftok (parse_fix N) m1 (concat lines) = Ok m'.
Print Assumptions file_roundtrip_fix_twice.
Example file_roundtrip_fix_twice_nonvacuous :
  wf1 ex_r /\ m1_nvars ex_r0 = m1_nvars ex_r /\ Forall (fun r => length r = m1_nvars ex_r0) (m1_vars ex_r0).
Proof. split; [exact ex_r_wf|]. split; [reflexivity | repeat constructor]. Qed.

Theorem file_roundtrip_fix_exact : forall (N : nat) (m m0 : mesh1 AQ AQ),
  (forall x : Qc, In x (m1_nodes m ++ concat (m1_vars m)) ->
     exists z : Z, (x == inject_Z z / inject_Z (10 ^ Z.of_nat N))%Q) ->
  wf1 m -> m1_nvars m0 = m1_nvars m -> Forall (fun r => length r = m1_nvars m0) (m1_vars m0) ->
  (let* lines := @output1 AQ AQ ftok (fmt_fix N) (fmt_fix N) m in
   @read1 AQ ftok (parse_fix N) m0 (concat lines)) = Ok m.
Proof. intros N m m0. exact (MeshIO3Inst.file_roundtrip_fix_exact N m m0). Qed.
Check file_roundtrip_fix_exact : forall (N : nat) (m m0 : mesh1 AQ AQ),
  (forall x : Qc, In x (m1_nodes m ++ concat (m1_vars m)) ->
     exists z : Z, (x == inject_Z z / inject_Z (10 ^ Z.of_nat N))%Q) ->
  wf1 m -> m1_nvars m0 = m1_nvars m -> Forall (fun r => length r = m1_nvars m0) (m1_vars m0) ->
  (let* lines := @output1 AQ AQ ftok (fmt_fix N) (fmt_fix N) m in
   @read1 AQ ftok (parse_fix N) m0 (concat lines)) = Ok m.
Print Assumptions file_roundtrip_fix_exact.
Example file_roundtrip_fix_exact_nonvacuous :
  (forall x : Qc, In x (m1_nodes ex_h ++ concat (m1_vars ex_h)) ->
     exists z : Z, (x == inject_Z z / inject_Z (10 ^ Z.of_nat 1))%Q) /\ wf1 ex_h.
Proof.
  split; [|exact ex_h_wf]. intros x Hx. apply (MeshIO3Fmt.rnd_fix_fixpoint 1 x).
  pose proof (ex_h_survives x Hx) as E. rewrite MeshIO3Fmt.parse_fmt_fix in E. now injection E.
Qed.

Theorem file_roundtrip_sci : forall (N : nat) (m m0 : mesh1 AQ AQ),
  wf1 m -> m1_nvars m0 = m1_nvars m -> Forall (fun r => length r = m1_nvars m0) (m1_vars m0) ->
  (let* lines := @output1 AQ AQ stok (fmt_sci N) (fmt_sci N) m in
   @read1 AQ stok (parse_sci N) m0 (concat lines)) = Ok (map_mesh1 (A:=AQ) (rnd_sci N) m) /\
  (forall k, k < length (m1_nodes m) ->
     (Qabs (nth k (m1_nodes (map_mesh1 (A:=AQ) (rnd_sci N) m)) 0%Qc - nth k (m1_nodes m) 0%Qc)
       <= Qabs (nth k (m1_nodes m) 0%Qc) * ((1 # 2) / inject_Z (10 ^ Z.of_nat N)))%Q) /\
  (forall k v, k < length (m1_nodes m) -> v < m1_nvars m ->
     (Qabs (nth v (nth k (m1_vars (map_mesh1 (A:=AQ) (rnd_sci N) m)) []) 0%Qc - nth v (nth k (m1_vars m) []) 0%Qc)
       <= Qabs (nth v (nth k (m1_vars m) []) 0%Qc) * ((1 # 2) / inject_Z (10 ^ Z.of_nat N)))%Q).
Proof. intros N m m0 Hwf Hnv Hall. split; [exact (MeshIO3Inst.file_roundtrip_sci N m m0 Hwf Hnv Hall)|].
  exact (MeshIO3Inst.file_roundtrip_sci_close N m Hwf). Qed.
Check file_roundtrip_sci : forall (N : nat) (m m0 : mesh1 AQ AQ),
  wf1 m -> m1_nvars m0 = m1_nvars m -> Forall (fun r => length r = m1_nvars m0) (m1_vars m0) ->
  (let* lines := @output1 AQ AQ stok (fmt_sci N) (fmt_sci N) m in
   @read1 AQ stok (parse_sci N) m0 (concat lines)) = Ok (map_mesh1 (A:=AQ) (rnd_sci N) m) /\
  (forall k, k < length (m1_nodes m) ->
     (Qabs (nth k (m1_nodes (map_mesh1 (A:=AQ) (rnd_sci N) m)) 0%Qc - nth k (m1_nodes m) 0%Qc)
       <= Qabs (nth k (m1_nodes m) 0%Qc) * ((1 # 2) / inject_Z (10 ^ Z.of_nat N)))%Q) /\
  (forall k v, k < length (m1_nodes m) -> v < m1_nvars m ->
     (Qabs (nth v (nth k (m1_vars (map_mesh1 (A:=AQ) (rnd_sci N) m)) []) 0%Qc - nth v (nth k (m1_vars m) []) 0%Qc)
       <= Qabs (nth v (nth k (m1_vars m) []) 0%Qc) * ((1 # 2) / inject_Z (10 ^ Z.of_nat N)))%Q).
Print Assumptions file_roundtrip_sci.
Example file_roundtrip_sci_nonvacuous :
  meshQ_view (let* lines := @output1 AQ AQ stok (fmt_sci 2) (fmt_sci 2) ex_r in
              @read1 AQ stok (parse_sci 2) ex_r0 (concat lines)) = meshQ_view (Ok ex_r_sci2).
Proof. exact file_roundtrip_sci_run. Qed.

Theorem read_fix_outcome : forall (N : nat) (m0 : mesh1 AQ AQ) (toks : list ftok),
  Forall (fun r => length r = m1_nvars m0) (m1_vars m0) ->
  (@read1 AQ ftok (parse_fix N) m0 toks = Panic Unwrap <-> exists t, In t toks /\ (ft_int t < 0)%Z) /\
  (forall k, @read1 AQ ftok (parse_fix N) m0 toks = Panic k -> k = Unwrap).
Proof. intros N m0 toks. exact (MeshIO3Inst.read_fix_outcome N m0 toks). Qed.
Check read_fix_outcome : forall (N : nat) (m0 : mesh1 AQ AQ) (toks : list ftok),
  Forall (fun r => length r = m1_nvars m0) (m1_vars m0) ->
  (@read1 AQ ftok (parse_fix N) m0 toks = Panic Unwrap <-> exists t, In t toks /\ (ft_int t < 0)%Z) /\
  (forall k, @read1 AQ ftok (parse_fix N) m0 toks = Panic k -> k = Unwrap).
Print Assumptions read_fix_outcome.
Example read_fix_outcome_nonvacuous :
  Forall (fun r => length r = m1_nvars ex_r0) (m1_vars ex_r0) /\
  @read1 AQ ftok (parse_fix 2) ex_r0 [FTok false 1; FTok false (-1); FTok false 2] = Panic Unwrap.
Proof. split; [repeat constructor | vm_compute; reflexivity]. Qed.

Theorem fmt_fix_near : forall (N : nat) (z : Z) (y : Q),
  (Qabs (y - inject_Z z / inject_Z (10 ^ Z.of_nat N)) < (1 # 2) / inject_Z (10 ^ Z.of_nat N))%Q ->
  fmt_fixQ N y = fmt_fixQ N (inject_Z z / inject_Z (10 ^ Z.of_nat N))%Q.
Proof. intros N z y. exact (MeshIO3Fl.fmt_fixQ_near N z y). Qed.
Check fmt_fix_near : forall (N : nat) (z : Z) (y : Q),
  (Qabs (y - inject_Z z / inject_Z (10 ^ Z.of_nat N)) < (1 # 2) / inject_Z (10 ^ Z.of_nat N))%Q ->
  fmt_fixQ N y = fmt_fixQ N (inject_Z z / inject_Z (10 ^ Z.of_nat N))%Q.
Print Assumptions fmt_fix_near.
(* 0.33 rounded to a multiple of 2^-20 is 173015/524288; it still prints 0.33 *)
Example fmt_fix_near_nonvacuous :
  (Qabs ((173015 # 524288) - inject_Z 33 / inject_Z (10 ^ Z.of_nat 2)) < (1 # 2) / inject_Z (10 ^ Z.of_nat 2))%Q /\
  ~ ((173015 # 524288) == inject_Z 33 / inject_Z (10 ^ Z.of_nat 2))%Q.
Proof. split; [reflexivity | discriminate]. Qed.

Theorem file_roundtrip_fix_fl : forall (fl : Qc -> Qc) (N : nat) (m m0 : mesh1 AQ AQ),
  wf1 m -> m1_nvars m0 = m1_nvars m -> Forall (fun r => length r = m1_nvars m0) (m1_vars m0) ->
  (let* lines := @output1 AQ AQ ftok (fmt_fix N) (fmt_fix N) m in
   @read1 AQ ftok (parse_fix_fl fl N) m0 (concat lines)) = Ok (map_mesh1 (A:=AQ) (rnd_fix_fl fl N) m) /\
  (forall x : Qc, rnd_fix_fl fl N x = fl (rnd_fix N x) /\
     (Qabs (rnd_fix_fl fl N x - x) <= (1 # 2) / inject_Z (10 ^ Z.of_nat N) + Qabs (fl (rnd_fix N x) - rnd_fix N x))%Q).
Proof. intros fl N m m0 Hwf Hnv Hall. split; [exact (MeshIO3Fl.file_roundtrip_fix_fl fl N m m0 Hwf Hnv Hall)|].
  intros x. split; [reflexivity | exact (MeshIO3Fl.rnd_fix_fl_err fl N x)]. Qed.
Check file_roundtrip_fix_fl : forall (fl : Qc -> Qc) (N : nat) (m m0 : mesh1 AQ AQ),
  wf1 m -> m1_nvars m0 = m1_nvars m -> Forall (fun r => length r = m1_nvars m0) (m1_vars m0) ->
  (let* lines := @output1 AQ AQ ftok (fmt_fix N) (fmt_fix N) m in
   @read1 AQ ftok (parse_fix_fl fl N) m0 (concat lines)) = Ok (map_mesh1 (A:=AQ) (rnd_fix_fl fl N) m) /\
  (forall x : Qc, rnd_fix_fl fl N x = fl (rnd_fix N x) /\
     (Qabs (rnd_fix_fl fl N x - x) <= (1 # 2) / inject_Z (10 ^ Z.of_nat N) + Qabs (fl (rnd_fix N x) - rnd_fix N x))%Q).
Print Assumptions file_roundtrip_fix_fl.
(* the parser rounds to multiples of 2^-20: 1/3 -> 0.33 -> 173015/524288 *)
Example file_roundtrip_fix_fl_nonvacuous :
  meshQ_view (let* lines := @output1 AQ AQ ftok (fmt_fix 2) (fmt_fix 2) ex_r in
              @read1 AQ ftok (parse_fix_fl fl_bin20 2) ex_r0 (concat lines)) =
  meshQ_view (Ok (map_mesh1 (A:=AQ) (rnd_fix_fl fl_bin20 2) ex_r)) /\
  this (rnd_fix_fl fl_bin20 2 (q 1 3)) = (173015 # 524288)%Q /\
  fmt_fix 2 (rnd_fix_fl fl_bin20 2 (q 1 3)) = FTok false 33.
Proof. exact fl_bin20_run. Qed.

Theorem file_roundtrip_fix_fl_twice : forall (fl : Qc -> Qc) (N : nat) (m m0 m1 : mesh1 AQ AQ),
  (forall x : Qc, In x (m1_nodes m ++ concat (m1_vars m)) ->
     (Qabs (fl (rnd_fix N x) - rnd_fix N x) < (1 # 2) / inject_Z (10 ^ Z.of_nat N))%Q) ->
  wf1 m -> m1_nvars m0 = m1_nvars m -> m1_nvars m1 = m1_nvars m ->
  Forall (fun r => length r = m1_nvars m0) (m1_vars m0) ->
  Forall (fun r => length r = m1_nvars m1) (m1_vars m1) ->
  exists lines m',
    @output1 AQ AQ ftok (fmt_fix N) (fmt_fix N) m = Ok lines /\
    @read1 AQ ftok (parse_fix_fl fl N) m0 (concat lines) = Ok m' /\
    m' = map_mesh1 (A:=AQ) (rnd_fix_fl fl N) m /\
    @output1 AQ AQ ftok (fmt_fix N) (fmt_fix N) m' = Ok lines /\
    @read1 AQ ftok (parse_fix_fl fl N) m1 (concat lines) = Ok m'.
Proof. intros fl N m m0 m1. exact (MeshIO3Fl.file_roundtrip_fix_fl_twice fl N m m0 m1). Qed.
Check file_roundtrip_fix_fl_twice : forall (fl : Qc -> Qc) (N : nat) (m m0 m1 : mesh1 AQ AQ),
  (forall x : Qc, In x (m1_nodes m ++ concat (m1_vars m)) ->
     (Qabs (fl (rnd_fix N x) - rnd_fix N x) < (1 # 2) / inject_Z (10 ^ Z.of_nat N))%Q) ->
  wf1 m -> m1_nvars m0 = m1_nvars m -> m1_nvars m1 = m1_nvars m ->
  Forall (fun r => length r = m1_nvars m0) (m1_vars m0) ->
  Forall (fun r => length r = m1_nvars m1) (m1_vars m1) ->
  exists lines m',
    @output1 AQ AQ ftok (fmt_fix N) (fmt_fix N) m = Ok lines /\
    @read1 AQ ftok (parse_fix_fl fl N) m0 (concat lines) = Ok m' /\
    m' = map_mesh1 (A:=AQ) (rnd_fix_fl fl N) m /\
    @output1 AQ AQ ftok (fmt_fix N) (fmt_fix N) m' = Ok lines /\
    @read1 AQ ftok (parse_fix_fl fl N) m1 (concat lines) = Ok m'.
Print Assumptions file_roundtrip_fix_fl_twice.
Example file_roundtrip_fix_fl_twice_nonvacuous :
  (forall x : Qc, In x (m1_nodes ex_r ++ concat (m1_vars ex_r)) ->
     (Qabs (fl_bin20 (rnd_fix 2 x) - rnd_fix 2 x) < (1 # 2) / inject_Z (10 ^ Z.of_nat 2))%Q) /\ wf1 ex_r.
Proof.
  split; [|exact ex_r_wf]. intros x _. eapply Qle_lt_trans; [apply fl_bin20_err | reflexivity].
Qed.

Theorem file_roundtrip_fix_fl_twice_rel : forall (fl : Qc -> Qc) (u : Q),
  (forall y : Qc, (Qabs (fl y - y) <= u * Qabs y)%Q) ->
  forall (N : nat) (m m0 m1 : mesh1 AQ AQ),
  (forall x : Qc, In x (m1_nodes m ++ concat (m1_vars m)) ->
     (u * Qabs (rnd_fix N x) < (1 # 2) / inject_Z (10 ^ Z.of_nat N))%Q) ->
  wf1 m -> m1_nvars m0 = m1_nvars m -> m1_nvars m1 = m1_nvars m ->
  Forall (fun r => length r = m1_nvars m0) (m1_vars m0) ->
  Forall (fun r => length r = m1_nvars m1) (m1_vars m1) ->
  (exists lines m',
    @output1 AQ AQ ftok (fmt_fix N) (fmt_fix N) m = Ok lines /\
    @read1 AQ ftok (parse_fix_fl fl N) m0 (concat lines) = Ok m' /\
    m' = map_mesh1 (A:=AQ) (rnd_fix_fl fl N) m /\
    @output1 AQ AQ ftok (fmt_fix N) (fmt_fix N) m' = Ok lines /\
    @read1 AQ ftok (parse_fix_fl fl N) m1 (concat lines) = Ok m') /\
  (forall x : Qc, (Qabs (rnd_fix_fl fl N x - x) <= (1 # 2) / inject_Z (10 ^ Z.of_nat N) + u * Qabs (rnd_fix N x))%Q).
Proof. intros fl u Hrel N m m0 m1 Hb Hwf Hnv0 Hnv1 Hall0 Hall1.
  split; [exact (MeshIO3Fl.file_roundtrip_fix_fl_twice_rel fl u Hrel N m m0 m1 Hb Hwf Hnv0 Hnv1 Hall0 Hall1)|].
  exact (MeshIO3Fl.rnd_fix_fl_err_rel fl u Hrel N). Qed.
Check file_roundtrip_fix_fl_twice_rel : forall (fl : Qc -> Qc) (u : Q),
  (forall y : Qc, (Qabs (fl y - y) <= u * Qabs y)%Q) ->
  forall (N : nat) (m m0 m1 : mesh1 AQ AQ),
  (forall x : Qc, In x (m1_nodes m ++ concat (m1_vars m)) ->
     (u * Qabs (rnd_fix N x) < (1 # 2) / inject_Z (10 ^ Z.of_nat N))%Q) ->
  wf1 m -> m1_nvars m0 = m1_nvars m -> m1_nvars m1 = m1_nvars m ->
  Forall (fun r => length r = m1_nvars m0) (m1_vars m0) ->
  Forall (fun r => length r = m1_nvars m1) (m1_vars m1) ->
  (exists lines m',
    @output1 AQ AQ ftok (fmt_fix N) (fmt_fix N) m = Ok lines /\
    @read1 AQ ftok (parse_fix_fl fl N) m0 (concat lines) = Ok m' /\
    m' = map_mesh1 (A:=AQ) (rnd_fix_fl fl N) m /\
    @output1 AQ AQ ftok (fmt_fix N) (fmt_fix N) m' = Ok lines /\
    @read1 AQ ftok (parse_fix_fl fl N) m1 (concat lines) = Ok m') /\
  (forall x : Qc, (Qabs (rnd_fix_fl fl N x - x) <= (1 # 2) / inject_Z (10 ^ Z.of_nat N) + u * Qabs (rnd_fix N x))%Q).
Print Assumptions file_roundtrip_fix_fl_twice_rel.
(* a relative perturbation of exactly 2^-30; the entries of ex_r are below 10^-2 / (2 * 2^-30) *)
Example file_roundtrip_fix_fl_twice_rel_nonvacuous :
  (forall y : Qc, (Qabs (fl_scale y - y) <= (1 # 1073741824) * Qabs y)%Q) /\
  (forall x : Qc, In x (m1_nodes ex_r ++ concat (m1_vars ex_r)) ->
     ((1 # 1073741824) * Qabs (rnd_fix 2 x) < (1 # 2) / inject_Z (10 ^ Z.of_nat 2))%Q) /\
  fl_scale (q 1 3) <> q 1 3.
Proof.
  split; [exact fl_scale_rel|]. split.
  - intros x Hx. cbn in Hx. repeat (destruct Hx as [<-|Hx]; [vm_compute; reflexivity|]). destruct Hx.
  - intros E. apply (f_equal this) in E. vm_compute in E. discriminate.
Qed.

Theorem file_roundtrip_fix_nearest : forall (fl : Qc -> Qc) (F : Qc -> Prop),
  (forall y f : Qc, F f -> (Qabs (fl y - y) <= Qabs (f - y))%Q) ->
  forall (N : nat),
  (forall x : Qc, F x -> fmt_fix N (rnd_fix_fl fl N x) = fmt_fix N x /\
                         (Qabs (rnd_fix_fl fl N x - x) <= 1 / inject_Z (10 ^ Z.of_nat N))%Q) /\
  forall m m0 m1 : mesh1 AQ AQ,
  (forall x : Qc, In x (m1_nodes m ++ concat (m1_vars m)) -> F x) ->
  wf1 m -> m1_nvars m0 = m1_nvars m -> m1_nvars m1 = m1_nvars m ->
  Forall (fun r => length r = m1_nvars m0) (m1_vars m0) ->
  Forall (fun r => length r = m1_nvars m1) (m1_vars m1) ->
  exists lines m',
    @output1 AQ AQ ftok (fmt_fix N) (fmt_fix N) m = Ok lines /\
    @read1 AQ ftok (parse_fix_fl fl N) m0 (concat lines) = Ok m' /\
    m' = map_mesh1 (A:=AQ) (rnd_fix_fl fl N) m /\
    @output1 AQ AQ ftok (fmt_fix N) (fmt_fix N) m' = Ok lines /\
    @read1 AQ ftok (parse_fix_fl fl N) m1 (concat lines) = Ok m'.
Proof. intros fl F Hn N. split.
  - intros x HF. split; [exact (MeshIO3Fl.fmt_rnd_fix_proj fl F Hn N x HF) | exact (MeshIO3Fl.rnd_fix_proj_err fl F Hn N x HF)].
  - intros m m0 m1. exact (MeshIO3Fl.file_roundtrip_fix_proj_twice fl F Hn N m m0 m1). Qed.
Check file_roundtrip_fix_nearest : forall (fl : Qc -> Qc) (F : Qc -> Prop),
  (forall y f : Qc, F f -> (Qabs (fl y - y) <= Qabs (f - y))%Q) ->
  forall (N : nat),
  (forall x : Qc, F x -> fmt_fix N (rnd_fix_fl fl N x) = fmt_fix N x /\
                         (Qabs (rnd_fix_fl fl N x - x) <= 1 / inject_Z (10 ^ Z.of_nat N))%Q) /\
  forall m m0 m1 : mesh1 AQ AQ,
  (forall x : Qc, In x (m1_nodes m ++ concat (m1_vars m)) -> F x) ->
  wf1 m -> m1_nvars m0 = m1_nvars m -> m1_nvars m1 = m1_nvars m ->
  Forall (fun r => length r = m1_nvars m0) (m1_vars m0) ->
  Forall (fun r => length r = m1_nvars m1) (m1_vars m1) ->
  exists lines m',
    @output1 AQ AQ ftok (fmt_fix N) (fmt_fix N) m = Ok lines /\
    @read1 AQ ftok (parse_fix_fl fl N) m0 (concat lines) = Ok m' /\
    m' = map_mesh1 (A:=AQ) (rnd_fix_fl fl N) m /\
    @output1 AQ AQ ftok (fmt_fix N) (fmt_fix N) m' = Ok lines /\
    @read1 AQ ftok (parse_fix_fl fl N) m1 (concat lines) = Ok m'.
Print Assumptions file_roundtrip_fix_nearest.
(* F = the multiples of 1/8, fl = nearest multiple of 1/8; 97/8 = 12.125 is a tie at two decimals: printed 12.12,
   parsed as 12.12 = 303/25, rounded by the parser to 12.125 again; 1000001/8 is far beyond any relative bound *)
Example file_roundtrip_fix_nearest_nonvacuous :
  (forall y f : Qc, F8 f -> (Qabs (fl8 y - y) <= Qabs (f - y))%Q) /\
  (forall x : Qc, In x (m1_nodes ex_f8 ++ concat (m1_vars ex_f8)) -> F8 x) /\
  fmt_fix 2 (q 97 8) = FTok false 1212 /\
  this (rnd_fix_fl fl8 2 (q 97 8)) = (97 # 8)%Q /\ this (rnd_fix 2 (q 97 8)) = (303 # 25)%Q.
Proof. split; [exact fl8_nearest | exact proj_run]. Qed.

Theorem output_var2_layout : forall (A : Arith) (tok : Type) (fmt : A -> tok) (m : mesh2 A A) var,
  wf2 m ->
  (var < m2_nvars m ->
     output_var2 tok fmt fmt m var = Ok (layout_var2 tok fmt m var) /\
     length (layout_var2 tok fmt m var) = m2_ny m * (m2_nx m + 1) /\
     (forall i j, i < m2_nx m -> j < m2_ny m ->
        nth_error (layout_var2 tok fmt m var) (j * (m2_nx m + 1) + i) =
        Some [fmt (nth i (m2_x m) zero); fmt (nth j (m2_y m) zero);
              fmt (nth var (nth (i * m2_ny m + j) (m2_vars m) []) zero)]) /\
     (forall j, j < m2_ny m -> nth_error (layout_var2 tok fmt m var) (j * (m2_nx m + 1) + m2_nx m) = Some [])) /\
  (m2_nvars m <= var -> 0 < m2_nx m -> 0 < m2_ny m -> output_var2 tok fmt fmt m var = Panic Index).
Proof. intros A tok fmt m var Hwf. split.
  - intros Hv. split; [exact (MeshIO3Out2.output_var2_layout tok fmt m var Hwf Hv)|].
    split; [exact (MeshIO3Out2.layout_var2_length tok fmt m var)|].
    split; [exact (MeshIO3Out2.layout_var2_line tok fmt m var) | exact (MeshIO3Out2.layout_var2_blank tok fmt m var)].
  - exact (MeshIO3Out2.output_var2_bad_var tok fmt m var Hwf). Qed.
Check output_var2_layout : forall (A : Arith) (tok : Type) (fmt : A -> tok) (m : mesh2 A A) var,
  wf2 m ->
  (var < m2_nvars m ->
     output_var2 tok fmt fmt m var = Ok (layout_var2 tok fmt m var) /\
     length (layout_var2 tok fmt m var) = m2_ny m * (m2_nx m + 1) /\
     (forall i j, i < m2_nx m -> j < m2_ny m ->
        nth_error (layout_var2 tok fmt m var) (j * (m2_nx m + 1) + i) =
        Some [fmt (nth i (m2_x m) zero); fmt (nth j (m2_y m) zero);
              fmt (nth var (nth (i * m2_ny m + j) (m2_vars m) []) zero)]) /\
     (forall j, j < m2_ny m -> nth_error (layout_var2 tok fmt m var) (j * (m2_nx m + 1) + m2_nx m) = Some [])) /\
  (m2_nvars m <= var -> 0 < m2_nx m -> 0 < m2_ny m -> output_var2 tok fmt fmt m var = Panic Index).
Print Assumptions output_var2_layout.
Example output_var2_layout_nonvacuous :
  wf2 (mesh2_new (A:=AQ) [q 0 1; q 1 1; q 3 1] [q 0 1; q 2 1] 2) /\
  1 < m2_nvars (mesh2_new (A:=AQ) [q 0 1; q 1 1; q 3 1] [q 0 1; q 2 1] 2).
Proof. split; [apply mesh2_new_wf | cbn; auto]. Qed.

Theorem output2_contents : forall (A : Arith) (tok : Type) (fmt : A -> tok) (m : mesh2 A A),
  wf2 m ->
  (forall i j, i < m2_nx m -> j < m2_ny m ->
     nth_error (layout2 tok fmt m) (j * (m2_nx m + 1) + i) = Some (line2 tok fmt m j i) /\
     length (line2 tok fmt m j i) = m2_nvars m + 2 /\
     nth_error (line2 tok fmt m j i) 0 = Some (fmt (nth i (m2_x m) zero)) /\
     nth_error (line2 tok fmt m j i) 1 = Some (fmt (nth j (m2_y m) zero)) /\
     (forall v, v < m2_nvars m ->
        nth_error (line2 tok fmt m j i) (v + 2) = Some (fmt (nth v (nth (i * m2_ny m + j) (m2_vars m) []) zero))) /\
     (forall c, c < m2_nvars m + 2 ->
        nth_error (concat (layout2 tok fmt m)) ((j * m2_nx m + i) * (m2_nvars m + 2) + c) =
        nth_error (line2 tok fmt m j i) c)) /\
  (forall j, j < m2_ny m -> nth_error (layout2 tok fmt m) (j * (m2_nx m + 1) + m2_nx m) = Some []) /\
  length (concat (layout2 tok fmt m)) = m2_ny m * m2_nx m * (m2_nvars m + 2).
Proof. intros A tok fmt m Hwf. split; [|split].
  - intros i j Hi Hj. split; [exact (MeshIO3Out2.layout2_line tok fmt m i j Hi Hj)|].
    destruct (MeshIO3Out2.line2_tokens tok fmt m i j Hwf Hi Hj) as (H1 & H2 & H3 & H4).
    split; [exact H1|]. split; [exact H2|]. split; [exact H3|]. split; [exact H4|].
    intros c Hc. exact (MeshIO3Out2.layout2_token tok fmt m i j c Hwf Hi Hj Hc).
  - exact (MeshIO3Out2.layout2_blank tok fmt m).
  - exact (MeshIO3Out2.layout2_toks_length tok fmt m Hwf). Qed.
Check output2_contents : forall (A : Arith) (tok : Type) (fmt : A -> tok) (m : mesh2 A A),
  wf2 m ->
  (forall i j, i < m2_nx m -> j < m2_ny m ->
     nth_error (layout2 tok fmt m) (j * (m2_nx m + 1) + i) = Some (line2 tok fmt m j i) /\
     length (line2 tok fmt m j i) = m2_nvars m + 2 /\
     nth_error (line2 tok fmt m j i) 0 = Some (fmt (nth i (m2_x m) zero)) /\
     nth_error (line2 tok fmt m j i) 1 = Some (fmt (nth j (m2_y m) zero)) /\
     (forall v, v < m2_nvars m ->
        nth_error (line2 tok fmt m j i) (v + 2) = Some (fmt (nth v (nth (i * m2_ny m + j) (m2_vars m) []) zero))) /\
     (forall c, c < m2_nvars m + 2 ->
        nth_error (concat (layout2 tok fmt m)) ((j * m2_nx m + i) * (m2_nvars m + 2) + c) =
        nth_error (line2 tok fmt m j i) c)) /\
  (forall j, j < m2_ny m -> nth_error (layout2 tok fmt m) (j * (m2_nx m + 1) + m2_nx m) = Some []) /\
  length (concat (layout2 tok fmt m)) = m2_ny m * m2_nx m * (m2_nvars m + 2).
Print Assumptions output2_contents.
Example output2_contents_nonvacuous :
  wf2 (mesh2_new (A:=AQ) [q 0 1; q 1 1; q 3 1] [q 0 1; q 2 1] 2) /\
  2 < m2_nx (mesh2_new (A:=AQ) [q 0 1; q 1 1; q 3 1] [q 0 1; q 2 1] 2) /\
  1 < m2_ny (mesh2_new (A:=AQ) [q 0 1; q 1 1; q 3 1] [q 0 1; q 2 1] 2).
Proof. split; [apply mesh2_new_wf | cbn; auto]. Qed.

Theorem output_var2_is_projection : forall (A : Arith) (tok : Type) (fmt : A -> tok) (m : mesh2 A A) var,
  wf2 m -> var < m2_nvars m ->
  layout_var2 tok fmt m var = map (pick_var tok var) (layout2 tok fmt m).
Proof. intros A tok fmt m var. exact (MeshIO3Out2.layout_var2_pick tok fmt m var). Qed.
Check output_var2_is_projection : forall (A : Arith) (tok : Type) (fmt : A -> tok) (m : mesh2 A A) var,
  wf2 m -> var < m2_nvars m ->
  layout_var2 tok fmt m var = map (pick_var tok var) (layout2 tok fmt m).
Print Assumptions output_var2_is_projection.
Example output_var2_is_projection_nonvacuous :
  pick_var nat 1 [10; 20; 31; 32; 33] = [10; 20; 32] /\ pick_var nat 1 [] = [].
Proof. split; reflexivity. Qed.

