(* Proofs/Round2Band.v -- package round2.  Over ANY arithmetic (no law at all): what the two substitution phases of the
   banded compact-LU solve of Model/Banded.v ([band_solve]: [fwd_step], [back_step]) compute, as explicit left folds of
   the arithmetic's own operations over the FINAL answer.

     sfold [(a_0,v_0); (a_1,v_1); ...] s  =  (...((s - a_0 * v_0) - a_1 * v_1) ... )

   band_back_trace :  for_rev 0 n (back_step mm au) (y, 1) = Ok (x, _)  ->  for every row i < n
         div (sfold [(au[i][k], x[k+i]) | k = 1 .. l_i - 1] y_i) au[i][0] = Ok x_i ,      l_i = min mm (n - i)
       (the window l starts at 1 for the last row and grows by one per row up to mm = m1 + m2 + 1).
   band_fwd_trace  :  for_ 0 n (fwd_step n al index) (b, m1) = Ok (y, _)  ->  for every position r < n
         y_r = sfold [(a, y_j) | (a, j) in fhist r] b_(fperm r)
       where [fperm] composes the recorded row exchanges (which entry of b ends at position r) and [fhist] is the
       list of (multiplier, stage) pairs that were applied to that entry while it travelled through the windows of the
       stages j < r: both are pure data movement, defined by recursion over the stages from al and index.
       Without exchanges (index[k] = k+1) the list is  [(al[j][r-j-1], j) | j = r - min r m1 .. r-1]  ([fhist_noswap]).
   Every statement about these loops -- at the rounded reals (Proofs/Round2BandB.v) as at any other instance -- reduces
   to a statement about one left fold per row. *)
From Coq Require Import List Arith Lia Bool.
From OV Require Import Base.Panic Base.Arith Model.Vector Model.Matrix Model.Banded Proofs.Banded Proofs.BandedLU.
Import ListNotations.
Local Open Scope nat_scope.

Section BandTrace.
Context {A : Arith}.
Notation T := (T A).
Notation matrix := (matrix A).

(* the fold  s - a_0 v_0 - a_1 v_1 - ...  with the operations of the arithmetic, left to right *)
Definition sfold (l : list (T * T)) (s : T) : T :=
  fold_left (fun s p => sub s (mul (fst p) (snd p))) l s.

Lemma sfold_app l1 l2 s : sfold (l1 ++ l2) s = sfold l2 (sfold l1 s).
Proof. unfold sfold. apply fold_left_app. Qed.

(* ---------------------------------------------------------------- back substitution *)
(* the window of row i *)
Definition bwin (mm n i : nat) : nat := Nat.min mm (n - i).

(* the (coefficient, value) pairs row i subtracts: slots 1 .. l-1 against x[i+1] .. x[i+l-1] *)
Definition bterms (au : matrix) (mm i l : nat) (x : list T) : list (T * T) :=
  map (fun k => (mat_at au mm i k, nth (k + i) x zero)) (seq 1 (l - 1)).

Definition bacc (au : matrix) (mm i l : nat) (x : list T) (s : T) : T := sfold (bterms au mm i l x) s.

Lemma bterms_ext au mm i l x x' : (forall j, i < j -> nth j x' zero = nth j x zero) ->
  bterms au mm i l x' = bterms au mm i l x.
Proof.
  intros H. unfold bterms. apply map_ext_in. intros k Hk. apply in_seq in Hk. now rewrite H by lia.
Qed.

Lemma back_inner_trace (au : matrix) (mm i l : nat) (x : list T) (s d : T) :
  cols au = mm -> 1 <= l ->
  for_ 1 l (fun k dum => let* a := mget au i k in let* xk := rd x (k + i) in Ok (sub dum (mul a xk))) s = Ok d ->
  d = bacc au mm i l x s.
Proof.
  intros Hc Hl E.
  refine (for_inv_partial (fun kk d => d = bacc au mm i kk x s) 1 l _ s d Hl _ _ E).
  - reflexivity.
  - intros kk d0 d1 Hkk -> Ed.
    apply bind_ok in Ed as (a & Ea & Ed). apply (mget_Ok_inv _ mm) in Ea as (-> & _); auto.
    apply bind_ok in Ed as (xk & Exk & Ed). apply (rd_Ok_inv _ _ _ zero) in Exk as (_ & ->).
    injection Ed as <-. unfold bacc, bterms.
    replace (S kk - 1) with (S (kk - 1)) by lia. rewrite seq_S, map_app, sfold_app. cbn [map sfold fold_left fst snd].
    now replace (1 + (kk - 1)) with kk by lia.
Qed.

Theorem band_back_trace_lemma (au : matrix) (mm n : nat) (y x : list T) (lf : nat) :
  cols au = mm -> 1 <= mm -> length y = n ->
  for_rev 0 n (back_step mm au) (y, 1) = Ok (x, lf) ->
  length x = n /\
  forall i, i < n ->
    div (bacc au mm i (bwin mm n i) x (nth i y zero)) (mat_at au mm i 0) = Ok (nth i x zero).
Proof.
  intros Hc Hmm Hy E. unfold for_rev in E. rewrite Nat.sub_0_r in E.
  pose (I := fun t (s : list T * nat) =>
    length (fst s) = n /\ snd s = Nat.min (n - t + 1) mm /\
    (forall j, j < t -> nth j (fst s) zero = nth j y zero) /\
    (forall r, t <= r < n ->
       div (bacc au mm r (bwin mm n r) (fst s) (nth r y zero)) (mat_at au mm r 0) = Ok (nth r (fst s) zero))).
  assert (HI : I 0 (x, lf)).
  { apply (for_rev_from_inv_partial I n 0 (back_step mm au) (y, 1)); auto.
    - unfold I; cbn [fst snd]. repeat split; auto; try lia.
    - clear E x lf. intros k [x l] [x1 l1] Hk (Hlen & Hl & Hlow & Hrows) E. cbn [fst snd] in *.
      cbn [Nat.add] in E. unfold back_step in E.
      apply bind_ok in E as (dum0 & E0 & E). apply (rd_Ok_inv _ _ _ zero) in E0 as (_ & ->).
      apply bind_ok in E as (dum & Eloop & E).
      apply bind_ok in E as (d0 & Ed0 & E). apply (mget_Ok_inv _ mm) in Ed0 as (-> & _); auto.
      apply bind_ok in E as (q & Eq & E).
      apply bind_ok in E as (x' & Ex' & E). apply upd_Ok_inv in Ex' as (Hkx & ->).
      injection E as <- <-.
      assert (Hlw : l = bwin mm n k) by (unfold bwin; lia).
      apply (back_inner_trace au mm k l x) in Eloop; auto; [|lia]. subst dum.
      assert (EX : forall j, k < j -> nth j (upd_list x k q) zero = nth j x zero).
      { intros j Hj. rewrite nth_upd_list by auto. destruct (Nat.eqb_spec j k); [lia|reflexivity]. }
      unfold I; cbn [fst snd]. rewrite upd_list_length. split; [auto|]. split.
      { destruct (Nat.ltb_spec l mm); lia. }
      split.
      { intros j Hj. rewrite nth_upd_list by auto. destruct (Nat.eqb_spec j k); [lia|]. apply Hlow; lia. }
      intros r Hr. unfold bacc. rewrite (bterms_ext au mm r _ x) by (intros j Hj; apply EX; lia).
      destruct (Nat.eq_dec r k) as [->|Hne].
      + rewrite nth_upd_list by auto. rewrite Nat.eqb_refl. rewrite <- Hlw. rewrite <- (Hlow k) by lia. exact Eq.
      + rewrite EX by lia. apply Hrows. lia. }
  destruct HI as (Hlen & _ & _ & Hrows). cbn [fst] in *. split; auto. intros i Hi. apply Hrows. lia.
Qed.

(* ---------------------------------------------------------------- the forward phase *)
(* the exchange partner recorded for stage k (index holds it 1-based), the window bound of stage k *)
Definition fpiv (index : list nat) (k : nat) : nat := nth k index 0 - 1.
Definition fwin (n m1 k : nat) : nat := Nat.min (k + 1 + m1) n.

(* which entry of the right-hand side stands at position i before stage k *)
Fixpoint fperm (index : list nat) (k : nat) (i : nat) : nat :=
  match k with
  | 0 => i
  | S k' => fperm index k' (swp k' (fpiv index k') i)
  end.

(* the (multiplier, stage) pairs applied so far to the entry standing at position i before stage k *)
Fixpoint fhist (n m1 : nat) (al : matrix) (index : list nat) (k : nat) (i : nat) : list (T * nat) :=
  match k with
  | 0 => []
  | S k' =>
      let h := fhist n m1 al index k' (swp k' (fpiv index k') i) in
      if (k' <? i) && (i <? fwin n m1 k') then h ++ [(mat_at al m1 k' (i - k' - 1), k')] else h
  end.

Definition fterms (h : list (T * nat)) (y : list T) : list (T * T) :=
  map (fun p => (fst p, nth (snd p) y zero)) h.

Lemma fterms_ext h y y' : (forall p, In p h -> nth (snd p) y' zero = nth (snd p) y zero) ->
  fterms h y' = fterms h y.
Proof. intros H. unfold fterms. apply map_ext_in. intros p Hp. now rewrite H. Qed.

Lemma fhist_tags n m1 al index k i p : In p (fhist n m1 al index k i) -> snd p < k.
Proof.
  revert i. induction k as [|k IH]; intros i H; cbn [fhist] in H; [contradiction|].
  destruct ((k <? i) && (i <? fwin n m1 k)).
  - apply in_app_or in H as [H|[<-|[]]]; [apply IH in H; lia|cbn; lia].
  - apply IH in H; lia.
Qed.

Lemma fhist_length_le n m1 al index k i : length (fhist n m1 al index k i) <= k.
Proof.
  revert i. induction k as [|k IH]; intros i; cbn [fhist]; [cbn; lia|].
  specialize (IH (swp k (fpiv index k) i)).
  destruct ((k <? i) && (i <? fwin n m1 k)); [rewrite app_length; cbn; lia|lia].
Qed.

Theorem band_fwd_trace_lemma (al : matrix) (index : list nat) (n m1 : nat) (b y : list T) (lf : nat) :
  cols al = m1 -> m1 <= n -> length b = n ->
  (forall k, k < n -> k + 1 <= nth k index 0) ->
  for_ 0 n (fwd_step n al index) (b, m1) = Ok (y, lf) ->
  length y = n /\
  forall r, nth r y zero = sfold (fterms (fhist n m1 al index n r) y) (nth (fperm index n r) b zero).
Proof.
  intros Hc Hm Lb Hix E. unfold for_ in E. rewrite Nat.sub_0_r in E.
  pose (I := fun k (s : list T * nat) =>
    snd s = Nat.min (k + m1) n /\ length (fst s) = n /\
    forall i, nth i (fst s) zero
              = sfold (fterms (fhist n m1 al index k i) (fst s)) (nth (fperm index k i) b zero)).
  assert (HI : I (0 + n) (y, lf)).
  { apply (for_from_inv_partial I n 0 (fwd_step n al index) (b, m1)); auto.
    - unfold I; cbn [fst snd Nat.add]. split; [lia|]. split; [auto|]. intros; reflexivity.
    - intros k [v l] [v1 l1] Hk (Hl & Lv & Hv) E1. cbn [fst snd] in *.
      pose proof (Hix k ltac:(lia)) as Hixk.
      assert (Hp : nth k index 0 = fpiv index k + 1) by (unfold fpiv; lia).
      assert (Hpk : k <= fpiv index k) by (unfold fpiv; lia).
      set (p := fpiv index k) in *.
      assert (Hln : lnext n l <= k + 1 + m1) by (subst l; rewrite lnext_min by auto; lia).
      destruct (fwd_step_Ok_inv n m1 k al index v v1 l l1 p Hc Hp Hln E1) as (Hl1 & Lv1 & Hv1).
      subst l. rewrite lnext_min in Hl1 by auto.
      unfold I; cbn [fst snd]. split; [rewrite Hl1; f_equal; lia|]. split; [congruence|].
      assert (Hold : forall j, j < k -> nth j v1 zero = nth j v zero).
      { intros j Hj. rewrite Hv1. replace (k <? j) with false by (symmetry; apply Nat.ltb_ge; lia). cbn [andb].
        unfold swp. destruct (Nat.eqb_spec j k); [lia|]. destruct (Nat.eqb_spec j p); [lia|]. reflexivity. }
      assert (Hk1 : nth k v1 zero = nth (swp k p k) v zero).
      { rewrite Hv1. rewrite Nat.ltb_irrefl. reflexivity. }
      intros i. rewrite Hv1. cbn [fhist fperm]. fold p. rewrite Hl1. fold (fwin n m1 k).
      set (h := fhist n m1 al index k (swp k p i)).
      assert (Eh : fterms h v1 = fterms h v).
      { apply fterms_ext. intros q Hq. apply Hold. apply fhist_tags in Hq. exact Hq. }
      destruct ((k <? i) && (i <? fwin n m1 k)).
      + unfold fterms. rewrite map_app, sfold_app. fold (fterms h v1). rewrite Eh.
        cbn [map sfold fold_left fst snd]. unfold h. rewrite <- Hv. rewrite Hk1. reflexivity.
      + rewrite Eh. apply Hv. }
  destruct HI as (_ & Ly & Hrows). cbn [fst Nat.add] in *. split; [exact Ly|exact Hrows].
Qed.

(* the entry that ends at position r was settled by stage r: its history has at most r pairs, all of earlier stages *)
Lemma fhist_settled n m1 al index r k :
  (forall k, k < n -> k + 1 <= nth k index 0) -> r < k -> k <= n ->
  fhist n m1 al index k r = fhist n m1 al index (S r) r.
Proof.
  intros Hix Hr. induction k as [|k IH]; intros Hk; [lia|].
  destruct (Nat.eq_dec k r) as [->|Ne]; [reflexivity|].
  rewrite <- IH by lia. cbn [fhist].
  replace (k <? r) with false by (symmetry; apply Nat.ltb_ge; lia). cbn [andb].
  pose proof (Hix k ltac:(lia)). unfold swp, fpiv.
  destruct (Nat.eqb_spec r k); [lia|]. destruct (Nat.eqb_spec r (nth k index 0 - 1)); [lia|]. reflexivity.
Qed.

Lemma fhist_final_length n m1 al index r :
  (forall k, k < n -> k + 1 <= nth k index 0) -> r < n -> length (fhist n m1 al index n r) <= r.
Proof.
  intros Hix Hr. rewrite (fhist_settled n m1 al index r n) by (auto; lia). cbn [fhist].
  rewrite Nat.ltb_irrefl. cbn [andb]. apply fhist_length_le.
Qed.

(* without exchanges: the identity permutation, and row r holds the multipliers of the stages r - min r m1 .. r-1 *)
Lemma fperm_noswap index n k i :
  (forall k, k < n -> nth k index 0 = k + 1) -> k <= n -> fperm index k i = i.
Proof.
  intros Hix. induction k as [|k IH]; intros Hk; [reflexivity|]. cbn [fperm].
  unfold fpiv. rewrite Hix by lia. replace (k + 1 - 1) with k by lia.
  unfold swp. destruct (Nat.eqb_spec i k) as [->|]; apply IH; lia.
Qed.

Lemma fhist_noswap_gen n m1 al index k r :
  (forall k, k < n -> nth k index 0 = k + 1) -> k <= n -> r < n ->
  fhist n m1 al index k r
  = map (fun j => (mat_at al m1 j (r - j - 1), j)) (seq (r - m1) (Nat.min k r - (r - m1))).
Proof.
  intros Hix. induction k as [|k IH]; intros Hk Hr; [reflexivity|]. cbn [fhist].
  unfold fpiv. rewrite Hix by lia. replace (k + 1 - 1) with k by lia.
  assert (Es : swp k k r = r) by (unfold swp; destruct (Nat.eqb_spec r k); auto). rewrite Es.
  rewrite IH by lia. unfold fwin.
  destruct (Nat.ltb_spec k r) as [L|L]; cbn [andb].
  - destruct (Nat.ltb_spec r (Nat.min (k + 1 + m1) n)) as [L2|L2].
    + replace (Nat.min (S k) r - (r - m1)) with (S (Nat.min k r - (r - m1))) by lia.
      rewrite seq_S, map_app. cbn [map]. now replace (r - m1 + (Nat.min k r - (r - m1))) with k by lia.
    + now replace (Nat.min (S k) r - (r - m1)) with (Nat.min k r - (r - m1)) by lia.
  - now replace (Nat.min (S k) r) with (Nat.min k r) by lia.
Qed.

Lemma fhist_noswap n m1 al index r :
  (forall k, k < n -> nth k index 0 = k + 1) -> r < n ->
  fhist n m1 al index n r
  = map (fun j => (mat_at al m1 j (r - j - 1), j)) (seq (r - Nat.min r m1) (Nat.min r m1)).
Proof.
  intros Hix Hr. rewrite fhist_noswap_gen by (auto; lia).
  replace (r - Nat.min r m1) with (r - m1) by lia.
  now replace (Nat.min n r - (r - m1)) with (Nat.min r m1) by lia.
Qed.

Lemma fhist_final_tags n m1 al index r p :
  (forall k, k < n -> k + 1 <= nth k index 0) -> r < n -> In p (fhist n m1 al index n r) -> snd p < r.
Proof.
  intros Hix Hr. rewrite (fhist_settled n m1 al index r n) by (auto; lia). cbn [fhist].
  rewrite Nat.ltb_irrefl. cbn [andb]. apply fhist_tags.
Qed.

(* the composed exchanges are a permutation: distinct positions hold distinct entries of b *)
Lemma swp_inj k p i i' : swp k p i = swp k p i' -> i = i'.
Proof. intros H. rewrite <- (swp_invol k p i), <- (swp_invol k p i'). now rewrite H. Qed.

Lemma fperm_inj index k i i' : fperm index k i = fperm index k i' -> i = i'.
Proof.
  revert i i'. induction k as [|k IH]; intros i i' H; [exact H|]. cbn [fperm] in H.
  apply IH in H. now apply swp_inj in H.
Qed.

End BandTrace.
