(* Proofs/Round2Band.v -- package round2.  Over ANY arithmetic (no law at all): what the two substitution phases of the
   banded compact-LU solve of Model/Banded.v ([band_solve]: [fwd_step], [back_step]) compute, as explicit left folds of
   the arithmetic's own operations over the FINAL answer.

     sfold [(a_0,v_0); (a_1,v_1); ...] s  =  (...((s - a_0 * v_0) - a_1 * v_1) ... )

   band_back_trace :  for_rev 0 n (back_step mm au) (y, 1) = Ok (x, _)  ->  for every row i < n
         div (sfold [(au[i][k], x[k+i]) | k = 1 .. l_i - 1] y_i) au[i][0] = Ok x_i ,      l_i = min mm (n - i)
       (the window l starts at 1 for the last row and grows by one per row up to mm = m1 + m2 + 1).
   band_fwd_trace  :  for_ 0 n (fwd_step n al index) (b, m1) = Ok (y, _)  ->  for every position r < n
         y_r = sfold [(a, y_j) | (a, j) in fhist r] b_(fperm r)
       where [fperm] composes the recorded row exchanges (which entry of b ends at position r) and [fhist] is the
       list of (multiplier, stage) pairs that were applied to that entry while it travelled through the windows of the
       stages j < r: both are pure data movement, defined by recursion over the stages from al and index.
       Without exchanges (index[k] = k+1) the list is  [(al[j][r-j-1], j) | j = r - min r m1 .. r-1]  ([fhist_noswap]).
   Every statement about these loops -- at the rounded reals (Proofs/Round2BandB.v) as at any other instance -- reduces
   to a statement about one left fold per row. *)
From Coq Require Import List Arith Lia Bool.
From OV Require Import Base.Panic Base.Arith Model.Vector Model.Matrix Model.Banded Proofs.Banded Proofs.BandedLU.
Import ListNotations.
Local Open Scope nat_scope.

Section BandTrace.
Context {A : Arith}.
Notation T := (T A).
Notation matrix := (matrix A).

(* the fold  s - a_0 v_0 - a_1 v_1 - ...  with the operations of the arithmetic, left to right *)
Definition sfold (l : list (T * T)) (s : T) : T :=
  fold_left (fun s p => sub s (mul (fst p) (snd p))) l s.

Lemma sfold_app l1 l2 s : sfold (l1 ++ l2) s = sfold l2 (sfold l1 s).
Proof. unfold sfold. apply fold_left_app. Qed.

(* ---------------------------------------------------------------- back substitution *)
(* the window of row i *)
Definition bwin (mm n i : nat) : nat := Nat.min mm (n - i).

(* the (coefficient, value) pairs row i subtracts: slots 1 .. l-1 against x[i+1] .. x[i+l-1] *)
Definition bterms (au : matrix) (mm i l : nat) (x : list T) : list (T * T) :=
  map (fun k => (mat_at au mm i k, nth (k + i) x zero)) (seq 1 (l - 1)).

Definition bacc (au : matrix) (mm i l : nat) (x : list T) (s : T) : T := sfold (bterms au mm i l x) s.

Lemma bterms_ext au mm i l x x' : (forall j, i < j -> nth j x' zero = nth j x zero) ->
  bterms au mm i l x' = bterms au mm i l x.
Proof.
  intros H. unfold bterms. apply map_ext_in. intros k Hk. apply in_seq in Hk. now rewrite H by lia.
Qed.

Lemma back_inner_trace (au : matrix) (mm i l : nat) (x : list T) (s d : T) :
  cols au = mm -> 1 <= l ->
  for_ 1 l (fun k dum => let* a := mget au i k in let* xk := rd x (k + i) in Ok (sub dum (mul a xk))) s = Ok d ->
  d = bacc au mm i l x s.
Proof.
  intros Hc Hl E.
  refine (for_inv_partial (fun kk d => d = bacc au mm i kk x s) 1 l _ s d Hl _ _ E).
  - reflexivity.
  - intros kk d0 d1 Hkk -> Ed.
    apply bind_ok in Ed as (a & Ea & Ed). apply (mget_Ok_inv _ mm) in Ea as (-> & _); auto.
    apply bind_ok in Ed as (xk & Exk & Ed). apply (rd_Ok_inv _ _ _ zero) in Exk as (_ & ->).
    injection Ed as <-. unfold bacc, bterms.
    replace (S kk - 1) with (S (kk - 1)) by lia. rewrite seq_S, map_app, sfold_app. cbn [map sfold fold_left fst snd].
    now replace (1 + (kk - 1)) with kk by lia.
Qed.

Theorem band_back_trace (au : matrix) (mm n : nat) (y x : list T) (lf : nat) :
  cols au = mm -> 1 <= mm -> length y = n ->
  for_rev 0 n (back_step mm au) (y, 1) = Ok (x, lf) ->
  length x = n /\
  forall i, i < n ->
    div (bacc au mm i (bwin mm n i) x (nth i y zero)) (mat_at au mm i 0) = Ok (nth i x zero).
Proof.
  intros Hc Hmm Hy E. unfold for_rev in E. rewrite Nat.sub_0_r in E.
  pose (I := fun t (s : list T * nat) =>
    length (fst s) = n /\ snd s = Nat.min (n - t + 1) mm /\
    (forall j, j < t -> nth j (fst s) zero = nth j y zero) /\
    (forall r, t <= r < n ->
       div (bacc au mm r (bwin mm n r) (fst s) (nth r y zero)) (mat_at au mm r 0) = Ok (nth r (fst s) zero))).
  assert (HI : I 0 (x, lf)).
  { apply (for_rev_from_inv_partial I n 0 (back_step mm au) (y, 1)); auto.
    - unfold I; cbn [fst snd]. repeat split; auto; try lia.
    - clear E x lf. intros k [x l] [x1 l1] Hk (Hlen & Hl & Hlow & Hrows) E. cbn [fst snd] in *.
      cbn [Nat.add] in E. unfold back_step in E.
      apply bind_ok in E as (dum0 & E0 & E). apply (rd_Ok_inv _ _ _ zero) in E0 as (_ & ->).
      apply bind_ok in E as (dum & Eloop & E).
      apply bind_ok in E as (d0 & Ed0 & E). apply (mget_Ok_inv _ mm) in Ed0 as (-> & _); auto.
      apply bind_ok in E as (q & Eq & E).
      apply bind_ok in E as (x' & Ex' & E). apply upd_Ok_inv in Ex' as (Hkx & ->).
      injection E as <- <-.
      assert (Hlw : l = bwin mm n k) by (unfold bwin; lia).
      apply (back_inner_trace au mm k l x) in Eloop; auto; [|lia]. subst dum.
      assert (EX : forall j, k < j -> nth j (upd_list x k q) zero = nth j x zero).
      { intros j Hj. rewrite nth_upd_list by auto. destruct (Nat.eqb_spec j k); [lia|reflexivity]. }
      unfold I; cbn [fst snd]. rewrite upd_list_length. split; [auto|]. split.
      { destruct (Nat.ltb_spec l mm); lia. }
      split.
      { intros j Hj. rewrite nth_upd_list by auto. destruct (Nat.eqb_spec j k); [lia|]. apply Hlow; lia. }
      intros r Hr. unfold bacc. rewrite (bterms_ext au mm r _ x) by (intros j Hj; apply EX; lia).
      destruct (Nat.eq_dec r k) as [->|Hne].
      + rewrite nth_upd_list by auto. rewrite Nat.eqb_refl. rewrite <- Hlw. rewrite <- (Hlow k) by lia. exact Eq.
      + rewrite EX by lia. apply Hrows. lia. }
  destruct HI as (Hlen & _ & _ & Hrows). cbn [fst] in *. split; auto. intros i Hi. apply Hrows. lia.
Qed.

End BandTrace.
