(* Proofs/Round2Band.v -- package round2.  Over ANY arithmetic (no law at all): what the two substitution phases of the
   banded compact-LU solve of Model/Banded.v ([band_solve]: [fwd_step], [back_step]) compute, as explicit left folds of
   the arithmetic's own operations over the FINAL answer.

     sfold [(a_0,v_0); (a_1,v_1); ...] s  =  (...((s - a_0 * v_0) - a_1 * v_1) ... )

   band_back_trace :  for_rev 0 n (back_step mm au) (y, 1) = Ok (x, _)  ->  for every row i < n
         div (sfold [(au[i][k], x[k+i]) | k = 1 .. l_i - 1] y_i) au[i][0] = Ok x_i ,      l_i = min mm (n - i)
       (the window l starts at 1 for the last row and grows by one per row up to mm = m1 + m2 + 1).
   band_fwd_trace  :  for_ 0 n (fwd_step n al index) (b, m1) = Ok (y, _)  ->  for every position r < n
         y_r = sfold [(a, y_j) | (a, j) in fhist r] b_(fperm r)
       where [fperm] composes the recorded row exchanges (which entry of b ends at position r) and [fhist] is the
       list of (multiplier, stage) pairs that were applied to that entry while it travelled through the windows of the
       stages j < r: both are pure data movement, defined by recursion over the stages from al and index.
       Without exchanges (index[k] = k+1) the list is  [(al[j][r-j-1], j) | j = r - min r m1 .. r-1]  ([fhist_noswap]).
   band_dec_trace  :  the main loop of [decompose] (partial pivoting inside the window, multipliers stored in al, the
         eliminated rows shifted one slot to the left) started on the shifted work matrix au0 and ending with nonzero
         pivots: with D0 i c the dense reading of au0 (slot s of row i is column (i - m1) + s, zero elsewhere),
           au[r][s]  = sfold [(a, au[j][c-j]) | (a,j) in fhist r, c - j < mm] (D0 (fperm r) c) ,  c = r + s    (U part)
           a_t       = (sfold [(a, au[j][j_t-j]) | the earlier (a,j) of fhist r, ...] (D0 (fperm r) j_t)) / au[j_t][0]
                                                                  for the t-th pair (a_t, j_t) of fhist r   (L part)
         with the SAME histories and permutation as the forward phase: the forward phase replays on b what the
         factorisation did to the rows.  Also: cols, and k+1 <= index[k] <= min (k+1+m1) n (what band_fwd_trace needs).
   band_solve_phases : band_solve B b = Ok x  went through exactly shift_rows, this main loop, this forward phase and this
         back substitution; D0 of the shifted matrix is the dense twin [dense_entry B] of Proofs/Banded.v.
   band_history_shape : row r of L holds c_r <= r multipliers, of the CONSECUTIVE stages r - c_r .. r-1 (an entry stays in the
         windows from the stage it enters until it is chosen as pivot row).
   Every statement about these loops -- at the rounded reals (Proofs/Round2BandB.v) as at any other instance -- reduces
   to a statement about one left fold per entry. *)
From Coq Require Import List Arith Lia Bool.
From OV Require Import Base.Panic Base.Arith Model.Vector Model.Matrix Model.Banded Proofs.Banded Proofs.BandedLU.
Import ListNotations.
Local Open Scope nat_scope.

Section BandTrace.
Context {A : Arith}.
Notation T := (T A).
Notation matrix := (matrix A).

(* the fold  s - a_0 v_0 - a_1 v_1 - ...  with the operations of the arithmetic, left to right *)
Definition sfold (l : list (T * T)) (s : T) : T :=
  fold_left (fun s p => sub s (mul (fst p) (snd p))) l s.

Lemma sfold_app l1 l2 s : sfold (l1 ++ l2) s = sfold l2 (sfold l1 s).
Proof. unfold sfold. apply fold_left_app. Qed.

(* ---------------------------------------------------------------- back substitution *)
(* the window of row i *)
Definition bwin (mm n i : nat) : nat := Nat.min mm (n - i).

(* the (coefficient, value) pairs row i subtracts: slots 1 .. l-1 against x[i+1] .. x[i+l-1] *)
Definition bterms (au : matrix) (mm i l : nat) (x : list T) : list (T * T) :=
  map (fun k => (mat_at au mm i k, nth (k + i) x zero)) (seq 1 (l - 1)).

Definition bacc (au : matrix) (mm i l : nat) (x : list T) (s : T) : T := sfold (bterms au mm i l x) s.

Lemma bterms_ext au mm i l x x' : (forall j, i < j -> nth j x' zero = nth j x zero) ->
  bterms au mm i l x' = bterms au mm i l x.
Proof.
  intros H. unfold bterms. apply map_ext_in. intros k Hk. apply in_seq in Hk. now rewrite H by lia.
Qed.

Lemma back_inner_trace (au : matrix) (mm i l : nat) (x : list T) (s d : T) :
  cols au = mm -> 1 <= l ->
  for_ 1 l (fun k dum => let* a := mget au i k in let* xk := rd x (k + i) in Ok (sub dum (mul a xk))) s = Ok d ->
  d = bacc au mm i l x s.
Proof.
  intros Hc Hl E.
  refine (for_inv_partial (fun kk d => d = bacc au mm i kk x s) 1 l _ s d Hl _ _ E).
  - reflexivity.
  - intros kk d0 d1 Hkk -> Ed.
    apply bind_ok in Ed as (a & Ea & Ed). apply (mget_Ok_inv _ mm) in Ea as (-> & _); auto.
    apply bind_ok in Ed as (xk & Exk & Ed). apply (rd_Ok_inv _ _ _ zero) in Exk as (_ & ->).
    injection Ed as <-. unfold bacc, bterms.
    replace (S kk - 1) with (S (kk - 1)) by lia. rewrite seq_S, map_app, sfold_app. cbn [map sfold fold_left fst snd].
    now replace (1 + (kk - 1)) with kk by lia.
Qed.

Theorem band_back_trace_lemma (au : matrix) (mm n : nat) (y x : list T) (lf : nat) :
  cols au = mm -> 1 <= mm -> length y = n ->
  for_rev 0 n (back_step mm au) (y, 1) = Ok (x, lf) ->
  length x = n /\
  forall i, i < n ->
    div (bacc au mm i (bwin mm n i) x (nth i y zero)) (mat_at au mm i 0) = Ok (nth i x zero).
Proof.
  intros Hc Hmm Hy E. unfold for_rev in E. rewrite Nat.sub_0_r in E.
  pose (I := fun t (s : list T * nat) =>
    length (fst s) = n /\ snd s = Nat.min (n - t + 1) mm /\
    (forall j, j < t -> nth j (fst s) zero = nth j y zero) /\
    (forall r, t <= r < n ->
       div (bacc au mm r (bwin mm n r) (fst s) (nth r y zero)) (mat_at au mm r 0) = Ok (nth r (fst s) zero))).
  assert (HI : I 0 (x, lf)).
  { apply (for_rev_from_inv_partial I n 0 (back_step mm au) (y, 1)); auto.
    - unfold I; cbn [fst snd]. repeat split; auto; try lia.
    - clear E x lf. intros k [x l] [x1 l1] Hk (Hlen & Hl & Hlow & Hrows) E. cbn [fst snd] in *.
      cbn [Nat.add] in E. unfold back_step in E.
      apply bind_ok in E as (dum0 & E0 & E). apply (rd_Ok_inv _ _ _ zero) in E0 as (_ & ->).
      apply bind_ok in E as (dum & Eloop & E).
      apply bind_ok in E as (d0 & Ed0 & E). apply (mget_Ok_inv _ mm) in Ed0 as (-> & _); auto.
      apply bind_ok in E as (q & Eq & E).
      apply bind_ok in E as (x' & Ex' & E). apply upd_Ok_inv in Ex' as (Hkx & ->).
      injection E as <- <-.
      assert (Hlw : l = bwin mm n k) by (unfold bwin; lia).
      apply (back_inner_trace au mm k l x) in Eloop; auto; [|lia]. subst dum.
      assert (EX : forall j, k < j -> nth j (upd_list x k q) zero = nth j x zero).
      { intros j Hj. rewrite nth_upd_list by auto. destruct (Nat.eqb_spec j k); [lia|reflexivity]. }
      unfold I; cbn [fst snd]. rewrite upd_list_length. split; [auto|]. split.
      { destruct (Nat.ltb_spec l mm); lia. }
      split.
      { intros j Hj. rewrite nth_upd_list by auto. destruct (Nat.eqb_spec j k); [lia|]. apply Hlow; lia. }
      intros r Hr. unfold bacc. rewrite (bterms_ext au mm r _ x) by (intros j Hj; apply EX; lia).
      destruct (Nat.eq_dec r k) as [->|Hne].
      + rewrite nth_upd_list by auto. rewrite Nat.eqb_refl. rewrite <- Hlw. rewrite <- (Hlow k) by lia. exact Eq.
      + rewrite EX by lia. apply Hrows. lia. }
  destruct HI as (Hlen & _ & _ & Hrows). cbn [fst] in *. split; auto. intros i Hi. apply Hrows. lia.
Qed.

(* ---------------------------------------------------------------- the forward phase *)
(* the exchange partner recorded for stage k (index holds it 1-based), the window bound of stage k *)
Definition fpiv (index : list nat) (k : nat) : nat := nth k index 0 - 1.
Definition fwin (n m1 k : nat) : nat := Nat.min (k + 1 + m1) n.

(* which entry of the right-hand side stands at position i before stage k *)
Fixpoint fperm (index : list nat) (k : nat) (i : nat) : nat :=
  match k with
  | 0 => i
  | S k' => fperm index k' (swp k' (fpiv index k') i)
  end.

(* the (multiplier, stage) pairs applied so far to the entry standing at position i before stage k *)
Fixpoint fhist (n m1 : nat) (al : matrix) (index : list nat) (k : nat) (i : nat) : list (T * nat) :=
  match k with
  | 0 => []
  | S k' =>
      let h := fhist n m1 al index k' (swp k' (fpiv index k') i) in
      if (k' <? i) && (i <? fwin n m1 k') then h ++ [(mat_at al m1 k' (i - k' - 1), k')] else h
  end.

Definition fterms (h : list (T * nat)) (y : list T) : list (T * T) :=
  map (fun p => (fst p, nth (snd p) y zero)) h.

Lemma fterms_ext h y y' : (forall p, In p h -> nth (snd p) y' zero = nth (snd p) y zero) ->
  fterms h y' = fterms h y.
Proof. intros H. unfold fterms. apply map_ext_in. intros p Hp. now rewrite H. Qed.

Lemma fhist_tags n m1 al index k i p : In p (fhist n m1 al index k i) -> snd p < k.
Proof.
  revert i. induction k as [|k IH]; intros i H; cbn [fhist] in H; [contradiction|].
  destruct ((k <? i) && (i <? fwin n m1 k)).
  - apply in_app_or in H as [H|[<-|[]]]; [apply IH in H; lia|cbn; lia].
  - apply IH in H; lia.
Qed.

Lemma fhist_length_le n m1 al index k i : length (fhist n m1 al index k i) <= k.
Proof.
  revert i. induction k as [|k IH]; intros i; cbn [fhist]; [cbn; lia|].
  specialize (IH (swp k (fpiv index k) i)).
  destruct ((k <? i) && (i <? fwin n m1 k)); [rewrite app_length; cbn; lia|lia].
Qed.

Theorem band_fwd_trace_lemma (al : matrix) (index : list nat) (n m1 : nat) (b y : list T) (lf : nat) :
  cols al = m1 -> m1 <= n -> length b = n ->
  (forall k, k < n -> k + 1 <= nth k index 0) ->
  for_ 0 n (fwd_step n al index) (b, m1) = Ok (y, lf) ->
  length y = n /\
  forall r, nth r y zero = sfold (fterms (fhist n m1 al index n r) y) (nth (fperm index n r) b zero).
Proof.
  intros Hc Hm Lb Hix E. unfold for_ in E. rewrite Nat.sub_0_r in E.
  pose (I := fun k (s : list T * nat) =>
    snd s = Nat.min (k + m1) n /\ length (fst s) = n /\
    forall i, nth i (fst s) zero
              = sfold (fterms (fhist n m1 al index k i) (fst s)) (nth (fperm index k i) b zero)).
  assert (HI : I (0 + n) (y, lf)).
  { apply (for_from_inv_partial I n 0 (fwd_step n al index) (b, m1)); auto.
    - unfold I; cbn [fst snd Nat.add]. split; [lia|]. split; [auto|]. intros; reflexivity.
    - intros k [v l] [v1 l1] Hk (Hl & Lv & Hv) E1. cbn [fst snd] in *.
      pose proof (Hix k ltac:(lia)) as Hixk.
      assert (Hp : nth k index 0 = fpiv index k + 1) by (unfold fpiv; lia).
      assert (Hpk : k <= fpiv index k) by (unfold fpiv; lia).
      set (p := fpiv index k) in *.
      assert (Hln : lnext n l <= k + 1 + m1) by (subst l; rewrite lnext_min by auto; lia).
      destruct (fwd_step_Ok_inv n m1 k al index v v1 l l1 p Hc Hp Hln E1) as (Hl1 & Lv1 & Hv1).
      subst l. rewrite lnext_min in Hl1 by auto.
      unfold I; cbn [fst snd]. split; [rewrite Hl1; f_equal; lia|]. split; [congruence|].
      assert (Hold : forall j, j < k -> nth j v1 zero = nth j v zero).
      { intros j Hj. rewrite Hv1. replace (k <? j) with false by (symmetry; apply Nat.ltb_ge; lia). cbn [andb].
        unfold swp. destruct (Nat.eqb_spec j k); [lia|]. destruct (Nat.eqb_spec j p); [lia|]. reflexivity. }
      assert (Hk1 : nth k v1 zero = nth (swp k p k) v zero).
      { rewrite Hv1. rewrite Nat.ltb_irrefl. reflexivity. }
      intros i. rewrite Hv1. cbn [fhist fperm]. fold p. rewrite Hl1. fold (fwin n m1 k).
      set (h := fhist n m1 al index k (swp k p i)).
      assert (Eh : fterms h v1 = fterms h v).
      { apply fterms_ext. intros q Hq. apply Hold. apply fhist_tags in Hq. exact Hq. }
      destruct ((k <? i) && (i <? fwin n m1 k)).
      + unfold fterms. rewrite map_app, sfold_app. fold (fterms h v1). rewrite Eh.
        cbn [map sfold fold_left fst snd]. unfold h. rewrite <- Hv. rewrite Hk1. reflexivity.
      + rewrite Eh. apply Hv. }
  destruct HI as (_ & Ly & Hrows). cbn [fst Nat.add] in *. split; [exact Ly|exact Hrows].
Qed.

(* the entry that ends at position r was settled by stage r: its history has at most r pairs, all of earlier stages *)
Lemma fhist_settled n m1 al index r k :
  (forall k, k < n -> k + 1 <= nth k index 0) -> r < k -> k <= n ->
  fhist n m1 al index k r = fhist n m1 al index (S r) r.
Proof.
  intros Hix Hr. induction k as [|k IH]; intros Hk; [lia|].
  destruct (Nat.eq_dec k r) as [->|Ne]; [reflexivity|].
  rewrite <- IH by lia. cbn [fhist].
  replace (k <? r) with false by (symmetry; apply Nat.ltb_ge; lia). cbn [andb].
  pose proof (Hix k ltac:(lia)). unfold swp, fpiv.
  destruct (Nat.eqb_spec r k); [lia|]. destruct (Nat.eqb_spec r (nth k index 0 - 1)); [lia|]. reflexivity.
Qed.

Lemma fhist_final_length n m1 al index r :
  (forall k, k < n -> k + 1 <= nth k index 0) -> r < n -> length (fhist n m1 al index n r) <= r.
Proof.
  intros Hix Hr. rewrite (fhist_settled n m1 al index r n) by (auto; lia). cbn [fhist].
  rewrite Nat.ltb_irrefl. cbn [andb]. apply fhist_length_le.
Qed.

(* without exchanges: the identity permutation, and row r holds the multipliers of the stages r - min r m1 .. r-1 *)
Lemma fperm_noswap index n k i :
  (forall k, k < n -> nth k index 0 = k + 1) -> k <= n -> fperm index k i = i.
Proof.
  intros Hix. induction k as [|k IH]; intros Hk; [reflexivity|]. cbn [fperm].
  unfold fpiv. rewrite Hix by lia. replace (k + 1 - 1) with k by lia.
  unfold swp. destruct (Nat.eqb_spec i k) as [->|]; apply IH; lia.
Qed.

Lemma fhist_noswap_gen n m1 al index k r :
  (forall k, k < n -> nth k index 0 = k + 1) -> k <= n -> r < n ->
  fhist n m1 al index k r
  = map (fun j => (mat_at al m1 j (r - j - 1), j)) (seq (r - m1) (Nat.min k r - (r - m1))).
Proof.
  intros Hix. induction k as [|k IH]; intros Hk Hr; [reflexivity|]. cbn [fhist].
  unfold fpiv. rewrite Hix by lia. replace (k + 1 - 1) with k by lia.
  assert (Es : swp k k r = r) by (unfold swp; destruct (Nat.eqb_spec r k); auto). rewrite Es.
  rewrite IH by lia. unfold fwin.
  destruct (Nat.ltb_spec k r) as [L|L]; cbn [andb].
  - destruct (Nat.ltb_spec r (Nat.min (k + 1 + m1) n)) as [L2|L2].
    + replace (Nat.min (S k) r - (r - m1)) with (S (Nat.min k r - (r - m1))) by lia.
      rewrite seq_S, map_app. cbn [map]. now replace (r - m1 + (Nat.min k r - (r - m1))) with k by lia.
    + now replace (Nat.min (S k) r - (r - m1)) with (Nat.min k r - (r - m1)) by lia.
  - now replace (Nat.min (S k) r) with (Nat.min k r) by lia.
Qed.

Lemma fhist_noswap n m1 al index r :
  (forall k, k < n -> nth k index 0 = k + 1) -> r < n ->
  fhist n m1 al index n r
  = map (fun j => (mat_at al m1 j (r - j - 1), j)) (seq (r - Nat.min r m1) (Nat.min r m1)).
Proof.
  intros Hix Hr. rewrite fhist_noswap_gen by (auto; lia).
  replace (r - Nat.min r m1) with (r - m1) by lia.
  now replace (Nat.min n r - (r - m1)) with (Nat.min r m1) by lia.
Qed.

Lemma fhist_final_tags n m1 al index r p :
  (forall k, k < n -> k + 1 <= nth k index 0) -> r < n -> In p (fhist n m1 al index n r) -> snd p < r.
Proof.
  intros Hix Hr. rewrite (fhist_settled n m1 al index r n) by (auto; lia). cbn [fhist].
  rewrite Nat.ltb_irrefl. cbn [andb]. apply fhist_tags.
Qed.

(* the composed exchanges are a permutation: distinct positions hold distinct entries of b *)
Lemma swp_inj k p i i' : swp k p i = swp k p i' -> i = i'.
Proof. intros H. rewrite <- (swp_invol k p i), <- (swp_invol k p i'). now rewrite H. Qed.

Lemma fperm_inj index k i i' : fperm index k i = fperm index k i' -> i = i'.
Proof.
  revert i i'. induction k as [|k IH]; intros i i' H; [exact H|]. cbn [fperm] in H.
  apply IH in H. now apply swp_inj in H.
Qed.

End BandTrace.

(* ================================================================ the factorisation: decompose, over any arithmetic
   in which  eqb x zero = true -> x = zero  (true at Qc and at the rounded reals; no ring law is used) *)
Section DecTrace.
Context {A : Arith}.
Notation T := (T A).
Notation matrix := (matrix A).

(* what the multiplier line stores: zero against a pivot that compares equal to zero, the quotient otherwise *)
Definition mult_rel (akk aik m : T) : Prop := if eqb akk zero then m = zero else div aik akk = Ok m.

Lemma multiplier_tr (au : matrix) mm k i m :
  cols au = mm -> multiplier false au k i = Ok m -> mult_rel (mat_at au mm k 0) (mat_at au mm i 0) m.
Proof.
  intros Hc H. unfold multiplier in H. unfold mult_rel.
  apply bind_ok in H as (akk & Ek & H). apply (mget_Ok_inv _ mm) in Ek as (-> & _); auto.
  destruct (eqb (mat_at au mm k 0) zero) eqn:E; [now injection H as <-|].
  apply bind_ok in H as (aik & Ei & H). apply (mget_Ok_inv _ mm) in Ei as (-> & _); auto.
  apply bind_ok in H as (akk & Ek & H). apply (mget_Ok_inv _ mm) in Ek as (-> & _); auto.
Qed.

(* row i after its elimination against row k with the multiplier m: shifted one slot to the left, zero appended *)
Definition elim_val (au : matrix) (mm k i : nat) (m : T) (s : nat) : T :=
  if s <? mm - 1 then sub (mat_at au mm i (s + 1)) (mul m (mat_at au mm k (s + 1))) else zero.

Lemma elim_row_tr (au al au' al' : matrix) mm m1 k i :
  cols au = mm -> cols al = m1 -> 1 <= mm -> i <> k -> i - k - 1 < m1 ->
  elim_row false mm k i (au, al) = Ok (au', al') ->
  cols au' = mm /\ cols al' = m1 /\
  mult_rel (mat_at au mm k 0) (mat_at au mm i 0) (mat_at al' m1 k (i - k - 1)) /\
  (forall i' s, s < mm -> mat_at au' mm i' s =
      if i' =? i then elim_val au mm k i (mat_at al' m1 k (i - k - 1)) s else mat_at au mm i' s) /\
  (forall i' t, t < m1 -> (i' =? k) && (t =? i - k - 1) = false -> mat_at al' m1 i' t = mat_at al m1 i' t).
Proof.
  intros Hc Hcl Hmm Hik Ht H. unfold elim_row in H.
  apply bind_ok in H as (m & Em & H). apply (multiplier_tr _ mm) in Em; auto.
  apply bind_ok in H as (al1 & Eal & H). apply (mset_Ok_inv _ _ m1) in Eal as (Hcl1 & _ & Hal1); auto.
  apply bind_ok in H as (au1 & Eloop & H).
  apply bind_ok in H as (au2 & Elast & H). injection H as <- <-.
  assert (Hm : mat_at al1 m1 k (i - k - 1) = m).
  { rewrite Hal1 by auto. now rewrite !Nat.eqb_refl. }
  assert (HI : cols au1 = mm /\ forall i' s, s < mm ->
            mat_at au1 mm i' s = if (i' =? i) && (s <? mm - 1)
                                 then sub (mat_at au mm i (s + 1)) (mul m (mat_at au mm k (s + 1)))
                                 else mat_at au mm i' s).
  { refine (for_inv_partial (fun j (a : matrix) => cols a = mm /\ forall i' s, s < mm ->
              mat_at a mm i' s = if (i' =? i) && (s <? j - 1)
                                 then sub (mat_at au mm i (s + 1)) (mul m (mat_at au mm k (s + 1)))
                                 else mat_at au mm i' s) 1 mm _ au au1 Hmm _ _ Eloop).
    - split; auto. intros i' s Hs. cbn. now rewrite andb_false_r.
    - intros j a a1 Hj (Hca & Ha) E.
      apply bind_ok in E as (aij & Eij & E). apply (mget_Ok_inv _ mm) in Eij as (-> & _); auto.
      apply bind_ok in E as (akj & Ekj & E). apply (mget_Ok_inv _ mm) in Ekj as (-> & _); auto.
      apply (mset_Ok_inv _ _ mm) in E as (Hc1 & _ & H1); auto; [|lia].
      split; auto. intros i' s Hs. rewrite H1 by auto. rewrite !Ha by lia.
      rewrite Nat.eqb_refl. cbn [andb].
      replace (k =? i) with false by (symmetry; apply Nat.eqb_neq; auto). cbn [andb].
      replace (j <? j - 1) with false by (symmetry; apply Nat.ltb_ge; lia).
      destruct (Nat.eqb_spec i' i) as [->|]; cbn [andb]; auto.
      destruct (Nat.eqb_spec s (j - 1)) as [->|].
      + replace (j - 1 <? S j - 1) with true by (symmetry; apply Nat.ltb_lt; lia).
        now replace (j - 1 + 1) with j by lia.
      + destruct (Nat.ltb_spec s (j - 1)); destruct (Nat.ltb_spec s (S j - 1)); try lia; auto. }
  destruct HI as (Hc1 & H1).
  apply (mset_Ok_inv _ _ mm) in Elast as (Hc2 & _ & H2); auto; [|lia].
  split; [auto|]. split; [auto|]. split; [now rewrite Hm|]. split.
  - intros i' s Hs. rewrite H2, H1 by auto. rewrite Hm. unfold elim_val.
    destruct (Nat.eqb_spec i' i) as [->|]; cbn [andb]; auto.
    destruct (Nat.eqb_spec s (mm - 1)) as [->|].
    + now rewrite Nat.ltb_irrefl.
    + replace (s <? mm - 1) with true by (symmetry; apply Nat.ltb_lt; lia). reflexivity.
  - intros i' t Ht' Hne. rewrite Hal1 by auto. now rewrite Hne.
Qed.

(* the elimination loop over the window rows k+1 .. l-1: the multipliers are read off al' *)
Lemma elim_loop_tr (au al au' al' : matrix) mm m1 k l :
  cols au = mm -> cols al = m1 -> 1 <= mm -> l <= k + 1 + m1 ->
  for_ (k + 1) l (elim_row false mm k) (au, al) = Ok (au', al') ->
  cols au' = mm /\ cols al' = m1 /\
  (forall i, k < i < l -> mult_rel (mat_at au mm k 0) (mat_at au mm i 0) (mat_at al' m1 k (i - k - 1))) /\
  (forall i s, s < mm -> mat_at au' mm i s =
      if (k <? i) && (i <? l) then elim_val au mm k i (mat_at al' m1 k (i - k - 1)) s else mat_at au mm i s) /\
  (forall i t, t < m1 -> (i =? k) && (k + 1 + t <? l) = false -> mat_at al' m1 i t = mat_at al m1 i t).
Proof.
  intros Hc Hcl Hmm Hl H.
  destruct (Nat.le_gt_cases (k + 1) l) as [Hkl|Hkl].
  2:{ rewrite for_empty in H by lia. injection H as <- <-. repeat split; auto.
      - intros i Hi. lia.
      - intros i s Hs. replace ((k <? i) && (i <? l)) with false; auto.
        symmetry. apply andb_false_iff. destruct (Nat.ltb_spec k i); destruct (Nat.ltb_spec i l); auto; lia. }
  set (P := fun j (st : matrix * matrix) =>
     cols (fst st) = mm /\ cols (snd st) = m1 /\
     (forall i, k < i < j -> mult_rel (mat_at au mm k 0) (mat_at au mm i 0) (mat_at (snd st) m1 k (i - k - 1))) /\
     (forall i s, s < mm -> mat_at (fst st) mm i s =
         if (k <? i) && (i <? j) then elim_val au mm k i (mat_at (snd st) m1 k (i - k - 1)) s else mat_at au mm i s) /\
     (forall i t, t < m1 -> (i =? k) && (k + 1 + t <? j) = false -> mat_at (snd st) m1 i t = mat_at al m1 i t)).
  assert (HP : P l (au', al')).
  { refine (for_inv_partial P (k + 1) l _ (au, al) (au', al') Hkl _ _ H).
    - unfold P; cbn [fst snd]. repeat split; auto.
      + intros i Hi. lia.
      + intros i s Hs. replace ((k <? i) && (i <? k + 1)) with false; auto.
        symmetry. apply andb_false_iff. destruct (Nat.ltb_spec k i); destruct (Nat.ltb_spec i (k + 1)); auto; lia.
    - intros j [a b] [a1 b1] Hj (Hca & Hcb & Hm & Ha & Hb) E. cbn [fst snd] in *.
      assert (Hrow : forall u, u < mm -> mat_at a mm j u = mat_at au mm j u /\ mat_at a mm k u = mat_at au mm k u).
      { intros u Hu. rewrite !Ha by auto.
        replace ((k <? j) && (j <? j)) with false by (rewrite Nat.ltb_irrefl; now rewrite andb_false_r).
        replace ((k <? k) && (k <? j)) with false by (rewrite Nat.ltb_irrefl; reflexivity). auto. }
      apply (elim_row_tr _ _ _ _ mm m1) in E as (Hc1 & Hcb1 & Hm1 & Ha1 & Hb1); auto; try lia.
      assert (Hbold : forall i, k < i < j -> mat_at b1 m1 k (i - k - 1) = mat_at b m1 k (i - k - 1)).
      { intros i Hi. apply Hb1; [lia|]. rewrite Nat.eqb_refl. cbn [andb]. apply Nat.eqb_neq. lia. }
      unfold P; cbn [fst snd]. split; [auto|]. split; [auto|]. split; [|split].
      + intros i Hi. destruct (Nat.eq_dec i j) as [->|Ne].
        * destruct (Hrow 0 ltac:(lia)) as (<- & <-). exact Hm1.
        * rewrite Hbold by lia. apply Hm. lia.
      + intros i s Hs. rewrite Ha1 by auto.
        destruct (Nat.eqb_spec i j) as [->|Hne].
        * replace ((k <? j) && (j <? S j)) with true
            by (symmetry; apply andb_true_iff; split; apply Nat.ltb_lt; lia).
          unfold elim_val. destruct (s <? mm - 1) eqn:Es; auto.
          apply Nat.ltb_lt in Es. destruct (Hrow (s + 1)) as (-> & ->); [lia|]. reflexivity.
        * rewrite Ha by auto.
          destruct (Nat.ltb_spec k i); destruct (Nat.ltb_spec i j); destruct (Nat.ltb_spec i (S j)); cbn [andb]; auto; try lia.
          now rewrite Hbold by lia.
      + intros i t Ht Hne.
        assert (Hne1 : (i =? k) && (t =? j - k - 1) = false).
        { destruct (Nat.eqb_spec i k) as [->|]; cbn [andb] in *; auto.
          apply Nat.eqb_neq. apply Nat.ltb_ge in Hne. lia. }
        assert (Hne2 : (i =? k) && (k + 1 + t <? j) = false).
        { destruct (Nat.eqb_spec i k); cbn [andb] in *; auto.
          apply Nat.ltb_ge. apply Nat.ltb_ge in Hne. lia. }
        rewrite Hb1 by auto. apply Hb; auto. }
  destruct HP as (H1 & H2 & H3 & H4 & H5). auto.
Qed.

Hypothesis Hz : forall x : T, eqb x zero = true -> x = zero.

(* ---- one stage of decompose ---- *)
Lemma dec_step_tr n mm m1 k (au al : matrix) (index : list nat) (d : T) l
      (au' al' : matrix) (index' : list nat) (d' : T) l' :
  cols au = mm -> cols al = m1 -> 1 <= mm -> lnext n l <= k + 1 + m1 ->
  dec_step false n mm k (au, al, index, d, l) = Ok (au', al', index', d', l') ->
  exists p,
    (p = k \/ (k < p /\ p < l')) /\ l' = lnext n l /\ cols au' = mm /\ cols al' = m1 /\
    k < length index /\ index' = upd_list index k (p + 1) /\
    (forall i s, i < k -> s < mm -> mat_at au' mm i s = mat_at au mm i s) /\
    (forall i t, t < m1 -> (i =? k) && (k + 1 + t <? l') = false -> mat_at al' m1 i t = mat_at al m1 i t) /\
    (mat_at au' mm k 0 <> zero ->
     let a2 := fun i s => mat_at au mm (swp k p i) s in
     (forall i, k < i < l' -> div (a2 i 0) (a2 k 0) = Ok (mat_at al' m1 k (i - k - 1))) /\
     (forall i s, s < mm -> mat_at au' mm i s =
        if (k <? i) && (i <? l')
        then (if s <? mm - 1 then sub (a2 i (s + 1)) (mul (mat_at al' m1 k (i - k - 1)) (a2 k (s + 1))) else zero)
        else a2 i s)).
Proof.
  intros Hc Hcl Hmm Hl H. unfold dec_step in H. fold (lnext n l) in H.
  apply bind_ok in H as ([dum p] & Ep & H). apply (find_pivot_Ok_inv _ mm) in Ep as (Hp & Hdum); auto.
  apply bind_ok in H as (index1 & Ei & H). apply upd_Ok_inv in Ei as (Hki & ->).
  apply bind_ok in H as (au1 & E1 & H).
  apply bind_ok in H as ([au2 d2] & E2 & H).
  apply bind_ok in H as ([au3 al3] & E3 & H). injection H as <- <- <- <- <-.
  assert (H1 : cols au1 = mm /\ forall i s, s < mm -> mat_at au1 mm i s =
             if eqb dum zero then (if (i =? k) && (s =? 0) then zero else mat_at au mm i s) else mat_at au mm i s).
  { destruct (eqb dum zero); [|injection E1 as <-; auto].
    apply (mset_Ok_inv _ _ mm) in E1 as (Hc1 & _ & H1); auto; lia. }
  destruct H1 as (Hc1 & H1).
  assert (H2 : cols au2 = mm /\ forall i s, s < mm -> mat_at au2 mm i s = mat_at au1 mm (swp k p i) s).
  { destruct (Nat.eqb_spec p k) as [->|Hpk]; cbn [negb] in E2.
    - injection E2 as <- <-. split; auto. intros i s Hs. unfold swp.
      destruct (Nat.eqb_spec i k) as [->|]; auto.
    - apply bind_ok in E2 as (au2' & Esw & E2). injection E2 as <- <-.
      apply (swap_band_rows_Ok_inv _ _ mm) in Esw as (Hc2 & Hsw); auto.
      split; auto. intros i s Hs. rewrite Hsw by auto. unfold swp.
      destruct (i =? k); auto. destruct (i =? p); auto. }
  destruct H2 as (Hc2 & H2).
  apply (elim_loop_tr _ _ _ _ mm m1) in E3 as (Hc3 & Hcl3 & Hm3 & H3 & Hal3); auto.
  exists p. split; [exact Hp|]. split; [reflexivity|]. split; [auto|]. split; [auto|]. split; [auto|].
  split; [reflexivity|]. split; [|split].
  - intros i s Hi Hs. rewrite H3 by auto.
    replace (k <? i) with false by (symmetry; apply Nat.ltb_ge; lia). cbn [andb].
    rewrite H2 by auto. unfold swp.
    destruct (Nat.eqb_spec i k); [lia|]. destruct (Nat.eqb_spec i p); [lia|].
    rewrite H1 by auto. destruct (eqb dum zero); auto.
    destruct (Nat.eqb_spec i k); [lia|reflexivity].
  - exact Hal3.
  - intros Hpiv. cbn zeta.
    assert (Hk0 : mat_at au3 mm k 0 = mat_at au1 mm p 0).
    { rewrite H3 by lia. rewrite Nat.ltb_irrefl. cbn [andb]. rewrite H2 by lia. unfold swp. now rewrite Nat.eqb_refl. }
    assert (Ez : eqb dum zero = false).
    { destruct (eqb dum zero) eqn:Ez; auto. exfalso. apply Hz in Ez. apply Hpiv. rewrite Hk0, H1 by lia.
      destruct (Nat.eqb_spec p k) as [->|]; cbn [andb]; auto. congruence. }
    rewrite Ez in H1.
    assert (Ha2 : forall i s, s < mm -> mat_at au2 mm i s = mat_at au mm (swp k p i) s).
    { intros i s Hs. rewrite H2, H1 by auto. reflexivity. }
    assert (Ek0 : eqb (mat_at au2 mm k 0) zero = false).
    { destruct (eqb (mat_at au2 mm k 0) zero) eqn:Ek; auto. exfalso. apply Hz in Ek. apply Hpiv.
      rewrite H3 by lia. rewrite Nat.ltb_irrefl. cbn [andb]. exact Ek. }
    split.
    + intros i Hi. specialize (Hm3 i Hi). unfold mult_rel in Hm3. rewrite Ek0 in Hm3.
      rewrite <- !Ha2 by lia. exact Hm3.
    + intros i s Hs. rewrite H3 by auto.
      destruct ((k <? i) && (i <? lnext n l)); [|now apply Ha2].
      unfold elim_val. destruct (Nat.ltb_spec s (mm - 1)); auto.
      now rewrite !Ha2 by lia.
Qed.

(* ---- the histories only look at the stages already done ---- *)
Lemma fhist_ext n m1 (al al' : matrix) (index index' : list nat) k i :
  (forall k' t, k' < k -> t < m1 -> mat_at al' m1 k' t = mat_at al m1 k' t) ->
  (forall k', k' < k -> nth k' index' 0 = nth k' index 0) ->
  fhist n m1 al' index' k i = fhist n m1 al index k i.
Proof.
  revert i. induction k as [|k IH]; intros i Hal Hix; [reflexivity|]. cbn [fhist].
  unfold fpiv. rewrite Hix by lia. rewrite IH by (intros; (apply Hal || apply Hix); lia).
  destruct ((k <? i) && (i <? fwin n m1 k)) eqn:W; [|reflexivity].
  apply andb_true_iff in W as (W1 & W2). apply Nat.ltb_lt in W1, W2. unfold fwin in W2.
  rewrite Hal by lia. reflexivity.
Qed.

Lemma fperm_ext (index index' : list nat) k i :
  (forall k', k' < k -> nth k' index' 0 = nth k' index 0) -> fperm index' k i = fperm index k i.
Proof.
  revert i. induction k as [|k IH]; intros i Hix; [reflexivity|]. cbn [fperm].
  unfold fpiv. rewrite Hix by lia. apply IH. intros; apply Hix; lia.
Qed.

(* an entry not yet settled has only moved downwards *)
Lemma fperm_le (index : list nat) k i :
  (forall k', k' < k -> k' <= fpiv index k') -> k <= i -> fperm index k i <= i.
Proof.
  revert i. induction k as [|k IH]; intros i Hix Hi; [cbn; lia|]. cbn [fperm].
  pose proof (Hix k ltac:(lia)) as Hp.
  assert (IH' : forall j, k <= j -> fperm index k j <= j) by (intros j Hj; apply IH; [intros; apply Hix; lia|exact Hj]).
  unfold swp. destruct (Nat.eqb_spec i k); [lia|].
  destruct (Nat.eqb_spec i (fpiv index k)) as [->|].
  - specialize (IH' k ltac:(lia)). lia.
  - apply IH'. lia.
Qed.

Lemma In_firstn_In {X} (l : list X) t x : In x (firstn t l) -> In x l.
Proof.
  revert t. induction l as [|a l IH]; intros [|t] H; cbn in *; auto; try contradiction.
  destruct H as [H|H]; auto. right. eapply IH; eauto.
Qed.

Section DecLoop.
Variables (n mm m1 : nat) (au0 : matrix).

(* dense reading of the work matrix the main loop starts from (after the left shift of the first m1 rows):
   slot s of row i is column (i - m1) + s; everything else is zero *)
Definition D0 (i c : nat) : T :=
  if (i - m1 <=? c) && (c - (i - m1) <? mm) then mat_at au0 mm i (c - (i - m1)) else zero.

(* the pairs of a history that reach column c (stage j stores the columns j .. j+mm-1 of its pivot row) *)
Definition uterms (au : matrix) (c : nat) (h : list (T * nat)) : list (T * T) :=
  map (fun p => (fst p, mat_at au mm (snd p) (c - snd p))) (filter (fun p => c - snd p <? mm) h).

Lemma uterms_app au c h1 h2 : uterms au c (h1 ++ h2) = uterms au c h1 ++ uterms au c h2.
Proof. unfold uterms. now rewrite filter_app, map_app. Qed.

Lemma uterms_single au c m j :
  uterms au c [(m, j)] = if c - j <? mm then [(m, mat_at au mm j (c - j))] else [].
Proof. unfold uterms. cbn [filter snd]. destruct (c - j <? mm); reflexivity. Qed.

Lemma uterms_ext au au' c h :
  (forall p, In p h -> c - snd p < mm -> mat_at au' mm (snd p) (c - snd p) = mat_at au mm (snd p) (c - snd p)) ->
  uterms au' c h = uterms au c h.
Proof.
  intros H. unfold uterms. apply map_ext_in. intros p Hp. apply filter_In in Hp as (Hp & Hc).
  apply Nat.ltb_lt in Hc. now rewrite H.
Qed.

Lemma uterms_far au c h k : (forall p, In p h -> snd p < k) -> k + mm <= c + 1 -> uterms au c h = [].
Proof.
  intros H Hc. unfold uterms. replace (filter (fun p => c - snd p <? mm) h) with (@nil (T * nat)); [reflexivity|].
  symmetry. induction h as [|a h IH]; [reflexivity|]. cbn [filter].
  pose proof (H a (or_introl eq_refl)). replace (c - snd a <? mm) with false by (symmetry; apply Nat.ltb_ge; lia).
  apply IH. intros p Hp. apply H. now right.
Qed.

Definition rowtr (au al : matrix) (index : list nat) (k i c : nat) : T :=
  sfold (uterms au c (fhist n m1 al index k i)) (D0 (fperm index k i) c).

(* every multiplier of a history is the quotient of the value its row had in the pivot column by the pivot *)
Definition lok (au al : matrix) (index : list nat) (k i : nat) : Prop :=
  let h := fhist n m1 al index k i in
  forall t, t < length h ->
    div (sfold (uterms au (snd (nth t h (zero, 0))) (firstn t h)) (D0 (fperm index k i) (snd (nth t h (zero, 0)))))
        (mat_at au mm (snd (nth t h (zero, 0))) 0)
    = Ok (fst (nth t h (zero, 0))).

Definition dec_inv (k : nat) (st : dec_state) : Prop :=
  let '(au, al, index, _, l) := st in
  cols au = mm /\ cols al = m1 /\ l = Nat.min (k + m1) n /\
  (forall k', k' < k -> k' + 1 <= nth k' index 0 /\ nth k' index 0 <= fwin n m1 k') /\
  ((forall k', k' < k -> mat_at au mm k' 0 <> zero) ->
   (forall i s, i < n -> s < mm -> mat_at au mm i s = rowtr au al index k i (c_of m1 k i + s)) /\
   (forall i, i < n -> lok au al index k i)).

Lemma dec_inv_step k (st st' : dec_state) :
  1 <= mm -> m1 <= n -> k < n -> dec_inv k st -> dec_step false n mm k st = Ok st' -> dec_inv (S k) st'.
Proof.
  intros Hmm Hm1 Hk HI E.
  destruct st as [[[[au al] index] d] l]. destruct st' as [[[[au' al'] index'] d'] l'].
  destruct HI as (Hc & Hcl & Hl & Hix & Hcond).
  assert (Hln : lnext n l <= k + 1 + m1) by (subst l; rewrite lnext_min by auto; lia).
  destruct (dec_step_tr n mm m1 k au al index d l au' al' index' d' l' Hc Hcl Hmm Hln E)
    as (p & Hp & Hl' & Hc' & Hcl' & Hki & Hix' & Hfr & Hfal & Hdet).
  subst l. rewrite lnext_min in Hl' by auto. fold (fwin n m1 k) in Hl'. subst l'.
  assert (Hpk : k <= p /\ p < fwin n m1 k) by (unfold fwin in *; lia).
  assert (Hwn : fwin n m1 k <= n /\ fwin n m1 k <= k + 1 + m1) by (unfold fwin; lia).
  assert (Hixk : nth k index' 0 = p + 1) by (rewrite Hix', nth_upd_list by auto; now rewrite Nat.eqb_refl).
  assert (Hixo : forall k', k' < k -> nth k' index' 0 = nth k' index 0).
  { intros k' Hk'. rewrite Hix', nth_upd_list by auto. destruct (Nat.eqb_spec k' k); [lia|reflexivity]. }
  assert (Halo : forall k' t, k' < k -> t < m1 -> mat_at al' m1 k' t = mat_at al m1 k' t).
  { intros k' t Hk' Ht. apply Hfal; auto. destruct (Nat.eqb_spec k' k); [lia|reflexivity]. }
  unfold dec_inv. split; [auto|]. split; [auto|]. split; [unfold fwin; lia|]. split.
  { intros k' Hk'. destruct (Nat.eq_dec k' k) as [->|Ne]; [rewrite Hixk; lia|].
    rewrite Hixo by lia. apply Hix. lia. }
  intros Hpiv.
  assert (Hpiv0 : forall k', k' < k -> mat_at au mm k' 0 <> zero).
  { intros k' Hk'. rewrite <- Hfr by lia. apply Hpiv. lia. }
  destruct (Hcond Hpiv0) as (Hrow & Hlok). clear Hcond.
  destruct (Hdet (Hpiv k ltac:(lia))) as (Hmul & Hnew). cbn zeta in Hmul, Hnew. clear Hdet.
  (* the histories of stage k+1 *)
  assert (Hfp : fpiv index' k = p) by (unfold fpiv; rewrite Hixk; lia).
  assert (Hh : forall i, fhist n m1 al' index' (S k) i =
             if (k <? i) && (i <? fwin n m1 k)
             then fhist n m1 al index k (swp k p i) ++ [(mat_at al' m1 k (i - k - 1), k)]
             else fhist n m1 al index k (swp k p i)).
  { intros i. cbn [fhist]. rewrite Hfp. now rewrite (fhist_ext n m1 al al' index index' k) by auto. }
  assert (Hpm : forall i, fperm index' (S k) i = fperm index k (swp k p i)).
  { intros i. cbn [fperm]. rewrite Hfp. now apply fperm_ext. }
  assert (Hut : forall c h, (forall q, In q h -> snd q < k) -> uterms au' c h = uterms au c h).
  { intros c h Hh'. apply uterms_ext. intros q Hq Hcq. apply Hfr; [now apply Hh'|exact Hcq]. }
  assert (Hswn : forall i, i < n -> swp k p i < n).
  { intros i Hi. unfold swp. destruct (i =? k); [lia|]. destruct (i =? p); lia. }
  assert (Hrowk : forall s, s < mm -> mat_at au' mm k s = mat_at au mm p s).
  { intros s Hs. rewrite Hnew by auto. rewrite Nat.ltb_irrefl. cbn [andb]. unfold swp. now rewrite Nat.eqb_refl. }
  assert (Hcw : forall j, k <= j -> j < fwin n m1 k -> c_of m1 k j = k).
  { intros j Hj1 Hj2. unfold c_of. destruct (Nat.ltb_spec j k); [lia|]. destruct (Nat.ltb_spec j (k + m1)); lia. }
  assert (Hpix : forall k', k' < k -> k' <= fpiv index k').
  { intros k' Hk'. unfold fpiv. destruct (Hix k' Hk'). lia. }
  split.
  - (* the rows *)
    intros i s Hi Hs. unfold rowtr. rewrite Hh, Hpm. rewrite Hnew by auto.
    destruct ((k <? i) && (i <? fwin n m1 k)) eqn:W.
    + apply andb_true_iff in W as (W1 & W2). apply Nat.ltb_lt in W1, W2.
      assert (Hi' : k <= swp k p i /\ swp k p i < fwin n m1 k).
      { unfold swp. destruct (Nat.eqb_spec i k); [lia|]. destruct (Nat.eqb_spec i p); lia. }
      assert (Hal1 : c_of m1 (S k) i = S k).
      { unfold c_of. destruct (Nat.ltb_spec i (S k)); [lia|]. destruct (Nat.ltb_spec i (S k + m1)); lia. }
      rewrite Hal1. set (h := fhist n m1 al index k (swp k p i)).
      assert (Hth : forall q, In q h -> snd q < k) by (intros q Hq; now apply fhist_tags in Hq).
      destruct (Nat.ltb_spec s (mm - 1)) as [Ls|Ls].
      * rewrite uterms_app, sfold_app. rewrite (Hut _ h Hth).
        rewrite uterms_single. replace (S k + s - k <? mm) with true by (symmetry; apply Nat.ltb_lt; lia).
        cbn [sfold fold_left fst snd].
        rewrite (Hrow (swp k p i) (s + 1)) by (try apply Hswn; lia). unfold rowtr. fold h.
        rewrite (Hcw (swp k p i)) by lia.
        replace (S k + s - k) with (s + 1) by lia. rewrite (Hrowk (s + 1)) by lia.
        replace (k + (s + 1)) with (S k + s) by lia.
        replace (swp k p k) with p by (unfold swp; now rewrite Nat.eqb_refl). reflexivity.
      * rewrite (uterms_far au' (S k + s) _ (S k)).
        2:{ intros q Hq. apply in_app_or in Hq as [Hq|[<-|[]]]; [apply Hth in Hq; lia|cbn; lia]. }
        2:{ lia. }
        cbn [sfold fold_left]. unfold D0.
        pose proof (fperm_le index k (swp k p i) Hpix ltac:(lia)) as Hle.
        replace (S k + s - (fperm index k (swp k p i) - m1) <? mm) with false by (symmetry; apply Nat.ltb_ge; lia).
        now rewrite andb_false_r.
    + assert (Hth : forall q, In q (fhist n m1 al index k (swp k p i)) -> snd q < k)
        by (intros q Hq; now apply fhist_tags in Hq).
      rewrite (Hut _ _ Hth).
      assert (Hal2 : c_of m1 (S k) i = c_of m1 k (swp k p i)).
      { apply andb_false_iff in W. unfold swp.
        destruct (Nat.eqb_spec i k) as [->|Nk].
        - rewrite (Hcw p) by lia. unfold c_of. destruct (Nat.ltb_spec k (S k)); lia.
        - destruct (Nat.eqb_spec i p) as [->|Np].
          + exfalso. destruct W as [W|W]; [apply Nat.ltb_ge in W|apply Nat.ltb_ge in W]; lia.
          + unfold c_of. destruct W as [W|W]; apply Nat.ltb_ge in W; unfold fwin in W.
            * destruct (Nat.ltb_spec i (S k)); [|lia]. destruct (Nat.ltb_spec i k); lia.
            * destruct (Nat.ltb_spec i (S k)); [lia|]. destruct (Nat.ltb_spec i k); [lia|].
              destruct (Nat.ltb_spec i (S k + m1)); [lia|]. destruct (Nat.ltb_spec i (k + m1)); lia. }
      rewrite Hal2. apply (Hrow (swp k p i) s); [now apply Hswn|exact Hs].
  - (* the multipliers *)
    intros i Hi. unfold lok. rewrite Hh, Hpm.
    set (h := fhist n m1 al index k (swp k p i)).
    assert (Hth : forall q, In q h -> snd q < k) by (intros q Hq; now apply fhist_tags in Hq).
    assert (Hold : forall t, t < length h ->
              div (sfold (uterms au' (snd (nth t h (zero, 0))) (firstn t h))
                     (D0 (fperm index k (swp k p i)) (snd (nth t h (zero, 0)))))
                  (mat_at au' mm (snd (nth t h (zero, 0))) 0) = Ok (fst (nth t h (zero, 0)))).
    { intros t Ht. pose proof (Hlok (swp k p i) (Hswn i Hi) t Ht) as HL. fold h in HL.
      rewrite Hut by (intros q Hq; apply Hth; now apply In_firstn_In in Hq).
      rewrite Hfr by (try apply Hth; try apply nth_In; lia). exact HL. }
    destruct ((k <? i) && (i <? fwin n m1 k)) eqn:W; [|exact Hold].
    apply andb_true_iff in W as (W1 & W2). apply Nat.ltb_lt in W1, W2.
    intros t Ht. rewrite app_length in Ht. cbn [length] in Ht.
    destruct (Nat.lt_ge_cases t (length h)) as [Lt|Ge].
    + rewrite app_nth1 by exact Lt. rewrite firstn_app. replace (t - length h) with 0 by lia.
      cbn [firstn]. rewrite app_nil_r. now apply Hold.
    + assert (t = length h) as -> by lia.
      rewrite app_nth2 by lia. rewrite Nat.sub_diag. cbn [nth fst snd].
      rewrite firstn_app, Nat.sub_diag, firstn_all. cbn [firstn]. rewrite app_nil_r.
      rewrite (Hut _ h Hth).
      assert (Hi' : k <= swp k p i /\ swp k p i < fwin n m1 k).
      { unfold swp. destruct (Nat.eqb_spec i k); [lia|]. destruct (Nat.eqb_spec i p); lia. }
      pose proof (Hrow (swp k p i) 0 (Hswn i Hi) ltac:(lia)) as R0. unfold rowtr in R0. fold h in R0.
      rewrite (Hcw (swp k p i)) in R0 by lia. rewrite Nat.add_0_r in R0. rewrite <- R0.
      rewrite (Hrowk 0) by lia. pose proof (Hmul i ltac:(lia)) as HM.
      unfold swp at 2 in HM. rewrite Nat.eqb_refl in HM. exact HM.
Qed.

End DecLoop.

Theorem band_dec_trace_lemma n mm m1 (au0 al0 : matrix) (index0 : list nat) (d0 : T)
        (au al : matrix) (index : list nat) (d : T) (lf : nat) :
  cols au0 = mm -> cols al0 = m1 -> 1 <= mm -> m1 <= n ->
  for_ 0 n (dec_step false n mm) (au0, al0, index0, d0, m1) = Ok (au, al, index, d, lf) ->
  cols au = mm /\ cols al = m1 /\
  (forall k, k < n -> k + 1 <= nth k index 0 /\ nth k index 0 <= fwin n m1 k) /\
  ((forall k, k < n -> mat_at au mm k 0 <> zero) ->
   (forall r s, r < n -> s < mm ->
      mat_at au mm r s
      = sfold (uterms mm au (r + s) (fhist n m1 al index n r)) (D0 mm m1 au0 (fperm index n r) (r + s))) /\
   (forall r, r < n -> lok n mm m1 au0 au al index n r)).
Proof.
  intros Hc Hcl Hmm Hm1 E. unfold for_ in E. rewrite Nat.sub_0_r in E.
  assert (HI : dec_inv n mm m1 au0 (0 + n) (au, al, index, d, lf)).
  { apply (for_from_inv_partial (dec_inv n mm m1 au0) n 0 (dec_step false n mm) (au0, al0, index0, d0, m1)); auto.
    - unfold dec_inv. split; [auto|]. split; [auto|]. split; [lia|]. split; [intros; lia|].
      intros _. split.
      + intros i s Hi Hs. unfold rowtr. cbn [fhist fperm]. unfold uterms. cbn [filter map sfold fold_left].
        assert (Hc0 : c_of m1 0 i = i - m1).
        { unfold c_of. destruct (Nat.ltb_spec i 0); [lia|]. destruct (Nat.ltb_spec i (0 + m1)); lia. }
        rewrite Hc0. unfold D0.
        replace (i - m1 <=? i - m1 + s) with true by (symmetry; apply Nat.leb_le; lia).
        replace (i - m1 + s - (i - m1)) with s by lia.
        replace (s <? mm) with true by (symmetry; apply Nat.ltb_lt; lia). reflexivity.
      + intros i Hi. unfold lok. cbn [fhist length]. intros t Ht. lia.
    - intros k st st' Hk HIk Ek. apply (dec_inv_step n mm m1 au0 k st st'); auto; lia. }
  cbn [Nat.add] in HI. destruct HI as (Hc' & Hcl' & _ & Hix & Hcond).
  split; [auto|]. split; [auto|]. split; [exact Hix|].
  intros Hpiv. destruct (Hcond Hpiv) as (Hrow & Hlok). split; [|exact Hlok].
  intros r s Hr Hs. rewrite (Hrow r s Hr Hs). unfold rowtr, c_of.
  replace (r <? n) with true by (symmetry; apply Nat.ltb_lt; lia). reflexivity.
Qed.

End DecTrace.

(* ---------------------------------------------------------------- order of the stages inside a history *)
Section HistSorted.
Context {A : Arith}.
Local Open Scope nat_scope.
(* the stages of a history are strictly increasing *)
Lemma fhist_sorted n m1 (al : matrix A) (index : list nat) k i t1 t2 :
  t1 < t2 -> t2 < length (fhist n m1 al index k i) ->
  snd (nth t1 (fhist n m1 al index k i) (zero, 0)) < snd (nth t2 (fhist n m1 al index k i) (zero, 0)).
Proof.
  revert i t1 t2. induction k as [|k IH]; intros i t1 t2 H12 H2; cbn [fhist] in *; [cbn in H2; lia|].
  destruct ((k <? i) && (i <? fwin n m1 k)); [|now apply IH].
  set (h := fhist n m1 al index k (swp k (fpiv index k) i)) in *.
  rewrite app_length in H2. cbn [length] in H2.
  destruct (Nat.lt_ge_cases t2 (length h)) as [L|G].
  - rewrite !app_nth1 by lia. now apply IH.
  - assert (t2 = length h) as -> by lia. rewrite (app_nth1 _ _ _ H12).
    rewrite app_nth2, Nat.sub_diag by lia. cbn [nth snd].
    apply (fhist_tags n m1 al index k (swp k (fpiv index k) i)). apply nth_In. exact H12.
Qed.

Lemma nth_firstn_lt {X} (l : list X) t t' d : t' < t -> nth t' (firstn t l) d = nth t' l d.
Proof.
  revert t t'. induction l as [|a l IH]; intros [|t] [|t'] H; cbn; try lia; auto. apply IH. lia.
Qed.
End HistSorted.

(* ================================================================ band_solve is exactly these phases *)
Section Phases.
Context {A : Arith}.
Notation T := (T A).
Notation matrix := (matrix A).
Notation banded := (banded A).

(* the dense reading of the shifted work matrix is the dense twin of the banded matrix *)
Lemma D0_dense (B : banded) (au0 : matrix) :
  (forall r s, s < bm1 B + bm2 B + 1 ->
     mat_at au0 (bm1 B + bm2 B + 1) r s = shifted (compact B) (bm1 B + bm2 B + 1) (bm1 B) r s) ->
  forall i c, D0 (bm1 B + bm2 B + 1) (bm1 B) au0 i c = dense_entry B i c.
Proof.
  intros H i c. unfold D0, dense_entry, in_band, out_of_band, band_slot, cslot.
  set (m1 := bm1 B) in *. set (m2 := bm2 B) in *. set (mm := m1 + m2 + 1) in *.
  destruct (Nat.leb_spec (i - m1) c) as [L1|L1]; cbn [andb].
  - destruct (Nat.ltb_spec (c - (i - m1)) mm) as [L2|L2].
    + rewrite H by exact L2. unfold shifted.
      destruct (Nat.ltb_spec i m1) as [Li|Li].
      * replace (c - (i - m1)) with c in * by lia.
        destruct (Nat.ltb_spec c (mm - (m1 - i))) as [L3|L3].
        -- replace (i + m2 <? c) with false by (symmetry; apply Nat.ltb_ge; unfold mm in *; lia).
           replace (c + m1 <? i) with false by (symmetry; apply Nat.ltb_ge; lia). cbn [orb negb].
           unfold mat_at. f_equal. lia.
        -- replace (i + m2 <? c) with true by (symmetry; apply Nat.ltb_lt; unfold mm in *; lia).
           reflexivity.
      * replace (i + m2 <? c) with false by (symmetry; apply Nat.ltb_ge; unfold mm in *; lia).
        replace (c + m1 <? i) with false by (symmetry; apply Nat.ltb_ge; lia). cbn [orb negb].
        unfold mat_at. f_equal. lia.
    + replace (i + m2 <? c) with true by (symmetry; apply Nat.ltb_lt; unfold mm in *; lia). reflexivity.
  - replace (c + m1 <? i) with true by (symmetry; apply Nat.ltb_lt; lia). rewrite orb_true_r. reflexivity.
Qed.

Theorem band_solve_phases_lemma (B : banded) (b x : list T) :
  (forall z : T, eqb z zero = true -> z = zero) ->
  wfB B -> length b = bn B -> bm1 B <= bn B ->
  band_solve B b = Ok x ->
  exists (au0 au al : matrix) (index : list nat) (d : T) (y : list T) (l1 l2 l3 : nat),
    shift_rows (bm1 B) (bm1 B + bm2 B + 1) (compact B) = Ok au0 /\
    for_ 0 (bn B) (dec_step false (bn B) (bm1 B + bm2 B + 1))
         (au0, mat_new (bn B) (bm1 B) zero, repeat 0 (bn B), one, bm1 B) = Ok (au, al, index, d, l1) /\
    for_ 0 (bn B) (fwd_step (bn B) al index) (b, bm1 B) = Ok (y, l2) /\
    for_rev 0 (bn B) (back_step (bm1 B + bm2 B + 1) au) (y, 1) = Ok (x, l3) /\
    cols au0 = bm1 B + bm2 B + 1 /\ cols au = bm1 B + bm2 B + 1 /\ cols al = bm1 B /\ length y = bn B /\
    (forall k, k < bn B -> k + 1 <= nth k index 0 /\ nth k index 0 <= fwin (bn B) (bm1 B) k) /\
    (forall i c, D0 (bm1 B + bm2 B + 1) (bm1 B) au0 i c = dense_entry B i c).
Proof.
  intros Hz Hwf Hb Hm1 H. pose proof Hwf as (HwfM & Hrows & Hcols).
  unfold band_solve, band_solve_gen in H.
  destruct (negb (bn B =? length b)); [discriminate|].
  apply bind_ok in H as ([[[au al] index] d] & Edec & H).
  apply bind_ok in H as ([y l2] & Efwd & H).
  apply bind_ok in H as ([x' l3] & Eback & H). injection H as <-. cbn [fst] in *.
  unfold decompose_gen in Edec.
  apply bind_ok in Edec as (au0 & Eshift & Edec).
  apply bind_ok in Edec as ([[[[au' al'] index'] d'] l1] & Eloop & Edec). injection Edec as <- <- <- <-.
  pose proof Eshift as Es2.
  apply (shift_rows_Ok_inv _ _ (bm1 B + bm2 B + 1) (bm1 B)) in Es2 as (Hc0 & Hau0); auto; [|lia].
  assert (Hcl0 : cols (mat_new (bn B) (bm1 B) (@zero A)) = bm1 B) by reflexivity.
  destruct (band_dec_trace_lemma Hz (bn B) (bm1 B + bm2 B + 1) (bm1 B) au0 _ _ _ _ _ _ _ _ Hc0 Hcl0 ltac:(lia) Hm1 Eloop)
    as (Hc' & Hcl' & Hix & _).
  exists au0, au', al', index', d', y, l1, l2, l3.
  split; [exact Eshift|]. split; [exact Eloop|]. split; [exact Efwd|]. split; [exact Eback|].
  split; [exact Hc0|]. split; [exact Hc'|]. split; [exact Hcl'|]. split.
  - unfold for_ in Efwd. apply fwd_loop_length in Efwd. cbn [fst] in Efwd. congruence.
  - split; [exact Hix|]. now apply D0_dense.
Qed.

End Phases.

(* ================================================================ the shape of L *)
Section HistShape.
Context {A : Arith}.
Notation T := (T A).
Notation matrix := (matrix A).

(* positions beyond the window have not been touched *)
Lemma fhist_beyond n m1 (al : matrix) (index : list nat) k i :
  (forall k', k' < n -> k' + 1 <= nth k' index 0 /\ nth k' index 0 <= fwin n m1 k') ->
  k <= n -> Nat.min (k + m1) n <= i -> fhist n m1 al index k i = [] /\ fperm index k i = i.
Proof.
  intros Hix. induction k as [|k IH]; intros Hk Hi; [split; reflexivity|]. cbn [fhist fperm].
  destruct (Hix k ltac:(lia)) as (P1 & P2). unfold fwin in *.
  assert (Es : swp k (fpiv index k) i = i).
  { unfold swp, fpiv. destruct (Nat.eqb_spec i k); [lia|]. destruct (Nat.eqb_spec i (nth k index 0 - 1)); [lia|reflexivity]. }
  rewrite Es. replace (i <? Nat.min (k + 1 + m1) n) with false by (symmetry; apply Nat.ltb_ge; lia).
  rewrite andb_false_r. apply IH; lia.
Qed.

(* the history of an entry not yet settled before stage k consists of the consecutive stages k - len .. k - 1 *)
Lemma fhist_consecutive_open n m1 (al : matrix) (index : list nat) k i :
  (forall k', k' < n -> k' + 1 <= nth k' index 0 /\ nth k' index 0 <= fwin n m1 k') ->
  k <= n -> k <= i ->
  forall t, t < length (fhist n m1 al index k i) ->
    snd (nth t (fhist n m1 al index k i) (zero, 0)) = k - length (fhist n m1 al index k i) + t.
Proof.
  intros Hix. revert i. induction k as [|k IH]; intros i Hk Hi t Ht; [cbn in Ht; lia|]. cbn [fhist] in *.
  destruct (Hix k ltac:(lia)) as (P1 & P2).
  assert (Hs : k <= swp k (fpiv index k) i).
  { unfold swp, fpiv. destruct (Nat.eqb_spec i k); [lia|]. destruct (Nat.eqb_spec i (nth k index 0 - 1)); lia. }
  set (h := fhist n m1 al index k (swp k (fpiv index k) i)) in *.
  pose proof (fhist_length_le n m1 al index k (swp k (fpiv index k) i)) as Hlen. fold h in Hlen.
  destruct ((k <? i) && (i <? fwin n m1 k)) eqn:W.
  - rewrite app_length in *. cbn [length] in *.
    destruct (Nat.lt_ge_cases t (length h)) as [L|G].
    + rewrite app_nth1 by exact L. pose proof (IH _ ltac:(lia) Hs t L) as E. fold h in E. rewrite E. lia.
    + assert (t = length h) as -> by lia. rewrite app_nth2, Nat.sub_diag by lia. cbn [nth snd]. lia.
  - (* not in the window: beyond it, nothing happened yet *)
    apply andb_false_iff in W. assert (Hw : fwin n m1 k <= i).
    { destruct W as [W|W]; apply Nat.ltb_ge in W; [lia|exact W]. }
    assert (Es : swp k (fpiv index k) i = i).
    { unfold swp, fpiv. destruct (Nat.eqb_spec i k); [lia|]. destruct (Nat.eqb_spec i (nth k index 0 - 1)); [lia|reflexivity]. }
    unfold h in Ht. rewrite Es in Ht.
    destruct (fhist_beyond n m1 al index k i Hix ltac:(lia) ltac:(unfold fwin in Hw; lia)) as (E0 & _).
    rewrite E0 in Ht. cbn in Ht. lia.
Qed.

(* shape of the rows of L: row r holds c_r <= r multipliers, of the consecutive stages r - c_r .. r - 1 *)
Theorem band_history_shape_lemma n m1 (al : matrix) (index : list nat) r :
  (forall k, k < n -> k + 1 <= nth k index 0 /\ nth k index 0 <= fwin n m1 k) -> r < n ->
  let h := fhist n m1 al index n r in
  length h <= r /\ forall t, t < length h -> snd (nth t h (zero, 0)) = r - length h + t.
Proof.
  intros Hix Hr. cbn zeta.
  assert (Hix' : forall k, k < n -> k + 1 <= nth k index 0) by (intros k Hk; apply Hix; exact Hk).
  split; [now apply fhist_final_length|].
  rewrite (fhist_settled n m1 al index r n) by (auto; lia). cbn [fhist].
  rewrite Nat.ltb_irrefl. cbn [andb].
  apply fhist_consecutive_open; [exact Hix|lia|].
  unfold swp, fpiv. rewrite Nat.eqb_refl. specialize (Hix' r Hr). lia.
Qed.

End HistShape.

(* ================================================================ where the rows of L U come from *)
Section HistOrigin.
Context {A : Arith}.
Notation T := (T A).
Notation matrix := (matrix A).

(* where an entry came from: before its first update it stood untouched at least m1 rows below that stage *)
Lemma fperm_origin_open n m1 (al : matrix) (index : list nat) k i :
  (forall k', k' < n -> k' + 1 <= nth k' index 0 /\ nth k' index 0 <= fwin n m1 k') ->
  k <= n -> k <= i -> i < n ->
  k - length (fhist n m1 al index k i) = 0 \/
  k - length (fhist n m1 al index k i) + m1 <= fperm index k i.
Proof.
  intros Hix. revert i. induction k as [|k IH]; intros i Hk Hi Hin; [left; reflexivity|]. cbn [fhist fperm].
  destruct (Hix k ltac:(lia)) as (P1 & P2).
  assert (Hs : k <= swp k (fpiv index k) i /\ swp k (fpiv index k) i < n).
  { unfold swp, fpiv, fwin in *. destruct (Nat.eqb_spec i k); [lia|].
    destruct (Nat.eqb_spec i (nth k index 0 - 1)); lia. }
  destruct ((k <? i) && (i <? fwin n m1 k)) eqn:W.
  - rewrite app_length. cbn [length].
    pose proof (fhist_length_le n m1 al index k (swp k (fpiv index k) i)) as Hlen.
    destruct (IH (swp k (fpiv index k) i) ltac:(lia) (proj1 Hs) (proj2 Hs)) as [Z|G]; [left; lia|right; lia].
  - apply andb_false_iff in W. assert (Hw : fwin n m1 k <= i).
    { destruct W as [W|W]; apply Nat.ltb_ge in W; [lia|exact W]. }
    assert (Es : swp k (fpiv index k) i = i).
    { unfold swp, fpiv. destruct (Nat.eqb_spec i k); [lia|]. destruct (Nat.eqb_spec i (nth k index 0 - 1)); [lia|reflexivity]. }
    rewrite Es.
    destruct (fhist_beyond n m1 al index k i Hix ltac:(lia) ltac:(unfold fwin in Hw; lia)) as (E0 & E1).
    rewrite E0, E1. cbn [length]. right. unfold fwin in Hw. lia.
Qed.

Lemma fperm_settled (index : list nat) n r k :
  (forall k, k < n -> k + 1 <= nth k index 0) -> r < k -> k <= n ->
  fperm index k r = fperm index (S r) r.
Proof.
  intros Hix Hr. induction k as [|k IH]; intros Hk; [lia|].
  destruct (Nat.eq_dec k r) as [->|Ne]; [reflexivity|].
  rewrite <- IH by lia. cbn [fperm]. pose proof (Hix k ltac:(lia)). unfold swp, fpiv.
  destruct (Nat.eqb_spec r k); [lia|]. destruct (Nat.eqb_spec r (nth k index 0 - 1)); [lia|]. reflexivity.
Qed.

(* the original row fperm r of the entry settled at r: between (r - c_r) + m1 (unless r - c_r = 0) and r + m1 *)
Theorem band_history_origin_lemma n m1 (al : matrix) (index : list nat) r :
  (forall k, k < n -> k + 1 <= nth k index 0 /\ nth k index 0 <= fwin n m1 k) -> r < n ->
  fperm index n r < n /\ fperm index n r <= r + m1 /\
  (r - length (fhist n m1 al index n r) = 0 \/ r - length (fhist n m1 al index n r) + m1 <= fperm index n r).
Proof.
  intros Hix Hr.
  assert (Hix' : forall k, k < n -> k + 1 <= nth k index 0) by (intros k Hk; apply Hix; exact Hk).
  rewrite (fhist_settled n m1 al index r n) by (auto; lia).
  rewrite (fperm_settled index n r n Hix') by lia. cbn [fhist fperm].
  rewrite Nat.ltb_irrefl. cbn [andb].
  destruct (Hix r Hr) as (P1 & P2).
  assert (Es : swp r (fpiv index r) r = fpiv index r) by (unfold swp; now rewrite Nat.eqb_refl). rewrite Es.
  assert (Hp : r <= fpiv index r /\ fpiv index r < n /\ fpiv index r <= r + m1) by (unfold fpiv, fwin in *; lia).
  assert (Hpix : forall k', k' < r -> k' <= fpiv index k').
  { intros k' Hk'. unfold fpiv. specialize (Hix' k' ltac:(lia)). lia. }
  pose proof (fperm_le index r (fpiv index r) Hpix (proj1 Hp)) as Hle.
  split; [lia|]. split; [lia|].
  apply fperm_origin_open; [exact Hix|lia|lia|lia].
Qed.

End HistOrigin.
