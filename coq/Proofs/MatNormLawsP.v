(* Proofs/MatNormLawsP.v -- the p-norm of Model/MatNorms.v over R with a power function that is right at 0
   (package matnorm, item 1).

   [pw x p] is the real power x^p for x >= 0 with 0^p = 0 -- what libm's pow returns for p > 0 -- whereas Coq's
   [Rpower 0 p] is 1 (ln 0 = 0 by convention), so the Rpower clause of [norms_real] describes the code only on
   matrices without zero entries ([norm_p_Rpower_wrong_at_zero_lemma] shows the difference on the 1x1 zero matrix).
   With [pw]:  mnorm_p = pw (Sum_k pw |a_k| p) (1/p)  for every p > 0;  p = 1: the entrywise 1-norm;  p = 2: equal to
   mnorm_frob;  mnorm_max <= mnorm_p <= (rows*cols)^(1/p) * mnorm_max. *)
From Coq Require Import List Arith Lia Reals Lra Bool.
From OV Require Import Base.Panic Base.Arith Model.Vector Model.Matrix Model.MatNorms.
From OV Require Import Proofs.Matrix Proofs.MatrixArith Proofs.MatNorms Proofs.MatNormsR Proofs.MatNormLawsBase.
Import ListNotations.
Local Open Scope R_scope.

Definition pw (x p : R) : R := if Req_EM_T x 0 then 0 else Rpower x p.

Lemma pw_0 p : pw 0 p = 0.
Proof. unfold pw. destruct (Req_EM_T 0 0); [reflexivity|contradiction]. Qed.

Lemma pw_pos x p : 0 < x -> pw x p = Rpower x p.
Proof. intros H. unfold pw. destruct (Req_EM_T x 0); [lra|reflexivity]. Qed.

Lemma pw_nonneg x p : 0 <= pw x p.
Proof. unfold pw. destruct (Req_EM_T x 0); [lra|]. unfold Rpower. left. apply exp_pos. Qed.

Lemma pw_gt0 x p : 0 < x -> 0 < pw x p.
Proof. intros H. rewrite pw_pos by exact H. unfold Rpower. apply exp_pos. Qed.

Lemma pw_1 x : 0 <= x -> pw x 1 = x.
Proof. intros H. unfold pw. destruct (Req_EM_T x 0); [lra|]. apply Rpower_1. lra. Qed.

Lemma pw_one p : pw 1 p = 1.
Proof. unfold pw. destruct (Req_EM_T 1 0); [lra|]. unfold Rpower. rewrite ln_1, Rmult_0_r. apply exp_0. Qed.

Lemma pw_mult x y p : 0 <= x -> 0 <= y -> pw (x * y) p = pw x p * pw y p.
Proof.
  intros Hx Hy. unfold pw.
  destruct (Req_EM_T x 0) as [->|Nx].
  - rewrite Rmult_0_l. destruct (Req_EM_T 0 0); [lra|contradiction].
  - destruct (Req_EM_T y 0) as [->|Ny].
    + rewrite Rmult_0_r. destruct (Req_EM_T 0 0); [lra|contradiction].
    + destruct (Req_EM_T (x * y) 0) as [E|_]; [apply Rmult_integral in E; tauto|].
      symmetry. apply Rpower_mult_distr; lra.
Qed.

Lemma pw_pw x p q : 0 <= x -> pw (pw x p) q = pw x (p * q).
Proof.
  intros Hx. unfold pw at 2 3. destruct (Req_EM_T x 0) as [->|Nx].
  - unfold pw. destruct (Req_EM_T 0 0); [reflexivity|contradiction].
  - unfold pw. destruct (Req_EM_T (Rpower x p) 0) as [E|_].
    + exfalso. unfold Rpower in E. pose proof (exp_pos (p * ln x)). lra.
    + apply Rpower_mult.
Qed.

Lemma pw_2 x : 0 <= x -> pw x 2 = x * x.
Proof.
  intros H. unfold pw. destruct (Req_EM_T x 0) as [->|N]; [lra|].
  replace 2 with (1 + 1) by lra. rewrite Rpower_plus, Rpower_1 by lra. reflexivity.
Qed.

Lemma pw_half x : 0 <= x -> pw x (1 / 2) = R_sqrt.sqrt x.
Proof.
  intros H. unfold pw. destruct (Req_EM_T x 0) as [->|N]; [now rewrite sqrt_0|].
  replace (1 / 2) with (/ 2) by lra. apply Rpower_sqrt. lra.
Qed.

Lemma pw_lt x y p : 0 < p -> 0 <= x -> x < y -> pw x p < pw y p.
Proof.
  intros Hp Hx Hxy. unfold pw. destruct (Req_EM_T y 0); [lra|].
  destruct (Req_EM_T x 0) as [->|Nx].
  - unfold Rpower. apply exp_pos.
  - apply Rlt_Rpower_l; lra.
Qed.

Lemma pw_le x y p : 0 < p -> 0 <= x -> x <= y -> pw x p <= pw y p.
Proof.
  intros Hp Hx [Hxy| ->]; [left; now apply pw_lt|right; reflexivity].
Qed.

(* (x^p)^(1/p) = x *)
Lemma pw_root x p : 0 < p -> 0 <= x -> pw (pw x p) (1 / p) = x.
Proof.
  intros Hp Hx. rewrite pw_pw by exact Hx. replace (p * (1 / p)) with 1 by (field; lra). now apply pw_1.
Qed.

Lemma pw_eq0 x p : 0 <= x -> pw x p = 0 -> x = 0.
Proof.
  intros Hx E. destruct (Req_dec x 0) as [H|H]; auto.
  assert (0 < x) by lra. pose proof (pw_gt0 x p H0). lra.
Qed.

(* ------------------------------------------------------------------ norm_p with pw *)

(* the statement: what the code computes when powf is the real power function with 0^p = 0 *)
Lemma norm_p_real_lemma (m : matrix AR) (p : R) : wf m -> 0 < p ->
  mnorm_p (S:=SAR) (fun x => pw x p) (fun s => pw s (1 / p)) m =
    Ok (pw (Rs (length (buf m)) (fun k => pw (Rabs (nth k (buf m) 0)) p)) (1 / p)).
Proof. intros Hw _. exact (mnorm_p_lemma (SS:=SAR) (fun x => pw x p) (fun s => pw s (1 / p)) m Hw). Qed.

Lemma norm_p_real_1_lemma (m : matrix AR) : wf m ->
  mnorm_p (S:=SAR) (fun x => pw x 1) (fun s => pw s (1 / 1)) m =
    Ok (Rs (length (buf m)) (fun k => Rabs (nth k (buf m) 0))).
Proof.
  intros Hw. rewrite norm_p_real_lemma by (auto; lra). apply f_equal.
  replace (1 / 1) with 1 by lra.
  rewrite (Rs_ext _ _ (fun k => Rabs (nth k (buf m) 0))) by (intros; apply pw_1, Rabs_pos).
  apply pw_1. apply Rs_nonneg. intros; apply Rabs_pos.
Qed.

Lemma norm_p_real_2_lemma (m : matrix AR) : wf m ->
  mnorm_p (S:=SAR) (fun x => pw x 2) (fun s => pw s (1 / 2)) m = mnorm_frob (S:=SAR) m.
Proof.
  intros Hw. rewrite norm_p_real_lemma by (auto; lra).
  rewrite (mnorm_frob_lemma (SS:=SAR) m Hw). apply f_equal.
  change (pw (Rs (length (buf m)) (fun k => pw (Rabs (nth k (buf m) 0)) 2)) (1 / 2) =
          R_sqrt.sqrt (Rs (length (buf m)) (fun k => Rabs (nth k (buf m) 0) * Rabs (nth k (buf m) 0)))).
  rewrite (Rs_ext _ (fun k => pw (Rabs (nth k (buf m) 0)) 2) (fun k => Rabs (nth k (buf m) 0) * Rabs (nth k (buf m) 0)))
    by (intros; apply pw_2, Rabs_pos).
  apply pw_half. apply Rs_nonneg. intros k _. apply Rmult_le_pos; apply Rabs_pos.
Qed.

(* norm_max <= norm_p <= (rows*cols)^(1/p) norm_max, on the entries *)
Lemma np_bounds r c f Nm p : 0 < p -> ismax (Pmax r c f) Nm ->
  Nm <= pw (sum2 r c (fun i j => pw (Rabs (f i j)) p)) (1 / p) /\
  pw (sum2 r c (fun i j => pw (Rabs (f i j)) p)) (1 / p) <= pw (INR (r * c)) (1 / p) * Nm.
Proof.
  intros Hp HN. assert (Hq : 0 < 1 / p) by (apply Rdiv_lt_0_compat; lra).
  set (S := sum2 r c (fun i j => pw (Rabs (f i j)) p)).
  assert (HS : 0 <= S) by (apply sum2_nonneg; intros; apply pw_nonneg).
  pose proof (ismax_nonneg _ _ HN (Pmax_nonneg r c f)) as HNm.
  split.
  - apply (ismax_le _ _ _ HN); [apply pw_nonneg|].
    intros x (i & j & Hi & Hj & ->).
    rewrite <- (pw_root (Rabs (f i j)) p Hp (Rabs_pos _)).
    apply pw_le; [exact Hq|apply pw_nonneg|].
    apply (sum2_term_le r c (fun i j => pw (Rabs (f i j)) p) i j); auto. intros; apply pw_nonneg.
  - assert (HSle : S <= INR (r * c) * pw Nm p).
    { apply Rle_trans with (sum2 r c (fun _ _ => pw Nm p)).
      - apply sum2_le. intros i j Hi Hj. apply pw_le; [exact Hp|apply Rabs_pos|].
        apply (proj1 HN). exists i, j. auto.
      - unfold sum2. rewrite (Rs_ext r _ (fun _ => INR c * pw Nm p)) by (intros; apply Rs_const).
        rewrite Rs_const, mult_INR. lra. }
    apply Rle_trans with (pw (INR (r * c) * pw Nm p) (1 / p)).
    + apply pw_le; auto.
    + rewrite pw_mult by (try apply pos_INR; apply pw_nonneg).
      rewrite pw_root by auto. lra.
Qed.

Lemma norm_p_real_bounds_lemma (m : matrix AR) (p : R) : wf m -> 0 < p ->
  exists Np Nm, mnorm_p (S:=SAR) (fun x => pw x p) (fun s => pw s (1 / p)) m = Ok Np /\
                mnorm_max (S:=SAR) m = Ok Nm /\
                Nm <= Np /\ Np <= pw (INR (rows m * cols m)) (1 / p) * Nm.
Proof.
  intros Hw Hp. pose proof (msp_self m Hw) as Hm.
  destruct (nmax_msp _ _ _ m Hm) as (Nm & Em & HN).
  eexists; exists Nm. split; [apply (np_msp _ _ _ m Hm)|]. split; [exact Em|].
  apply np_bounds; auto.
Qed.

(* the Rpower clause of norms_real on a matrix with a zero entry: the value is 1, the code's (and pw's) is 0 *)
Lemma norm_p_Rpower_wrong_at_zero_lemma (p : R) : 0 < p ->
  wf (mkM (A:=AR) [0] 1 1) /\
  mnorm_p (S:=SAR) (fun x => Rpower x p) (fun s => Rpower s (1 / p)) (mkM (A:=AR) [0] 1 1) = Ok 1 /\
  mnorm_p (S:=SAR) (fun x => pw x p) (fun s => pw s (1 / p)) (mkM (A:=AR) [0] 1 1) = Ok 0 /\
  mnorm_max (S:=SAR) (mkM (A:=AR) [0] 1 1) = Ok 0.
Proof.
  intros Hp. assert (Hw : wf (mkM (A:=AR) [0] 1 1)) by reflexivity.
  assert (R0 : forall q, Rpower 0 q = 1).
  { intros q. unfold Rpower, ln. destruct (Rlt_dec 0 0) as [H|_]; [exfalso; apply (Rlt_irrefl 0 H)|]. rewrite Rmult_0_r. apply exp_0. }
  assert (R1 : forall q, Rpower 1 q = 1).
  { intros q. unfold Rpower. rewrite ln_1, Rmult_0_r. apply exp_0. }
  split; [exact Hw|]. split; [|split].
  - rewrite (mnorm_p_lemma (SS:=SAR) _ _ _ Hw). apply f_equal. cbn [buf length nth].
    change (Rpower (0 + Rpower (Rabs 0) p) (1 / p) = 1). rewrite Rabs_R0, R0, Rplus_0_l. apply R1.
  - rewrite (mnorm_p_lemma (SS:=SAR) _ _ _ Hw). apply f_equal. cbn [buf length nth].
    change (pw (0 + pw (Rabs 0) p) (1 / p) = 0). rewrite Rabs_R0, pw_0, Rplus_0_l. apply pw_0.
  - destruct (nmax_msp _ _ _ _ (msp_self _ Hw)) as (N & E & HN). rewrite E. apply f_equal.
    destruct (proj2 HN) as [->|(i & j & Hi & Hj & ->)]; [reflexivity|].
    cbn [rows cols] in Hi, Hj. assert (i = 0%nat) by lia. assert (j = 0%nat) by lia. subst.
    unfold entry. cbn. apply Rabs_R0.
Qed.
