(* Proofs/JacExactRoundEx.v -- package jacexact: non-vacuity of the hypotheses of Proofs/JacExactRound.v.
   The standard-model hypotheses hold for round-to-nearest-even in precision 53 (Proofs/RoundFlx.v: xadd, xsub, xmul,
   xdiv, u = 2^-53); the function F(a, b) = (fl(fl(a a) b)) computed in that arithmetic has relative error <= 2u + u^2
   against f(a, b) = a^2 b; at (1, 2) with delta = 1/4 and entry (0, 0): g(t) = 2 (1 + t)^2, g' = 4 (1 + t), g'' = 4. *)
From Coq Require Import List Arith Lia Reals Lra Psatz.
From OV Require Import Base.Panic Base.Arith Base.RoundModel Model.Vector Model.Matrix Model.Newton
  Proofs.Matrix Proofs.Newton Proofs.NewtonJac Proofs.Newton2Deriv Proofs.Newton2Jac Proofs.RoundFlx
  Proofs.JacExactGen Proofs.JacExactRound.
Import ListNotations.
Local Open Scope R_scope.

Local Notation OX := (NReal AFlx).

Definition Fq (p : list R) : res (list R) := let* a := rd p 0 in let* b := rd p 1 in Ok [xmul (xmul a a) b].
Definition fq (p : list R) : R := nth 0 p 0 * nth 0 p 0 * nth 1 p 0.
Definition epsq : R := 2 * ux + ux * ux.

Lemma epsq_nonneg : 0 <= epsq.
Proof. unfold epsq. pose proof ux_range. nra. Qed.

Lemma Fq_err (p v : list R) : Fq p = Ok v -> Rabs (nth 0 v 0 - fq p) <= epsq * Rabs (fq p).
Proof.
  unfold Fq. intros H. inv_bind H. injection H as <-.
  apply (rd_Ok_inv _ _ _ 0) in E as [_ ->]. apply (rd_Ok_inv _ _ _ 0) in E0 as [_ ->]. cbn [nth].
  destruct (xmul_ok (nth 0 p 0) (nth 0 p 0)) as (d1 & H1 & E1).
  destruct (xmul_ok (xmul (nth 0 p 0) (nth 0 p 0)) (nth 1 p 0)) as (d2 & H2 & E2).
  rewrite E2, E1. unfold fq.
  replace (nth 0 p 0 * nth 0 p 0 * (1 + d1) * nth 1 p 0 * (1 + d2) - nth 0 p 0 * nth 0 p 0 * nth 1 p 0)
    with (nth 0 p 0 * nth 0 p 0 * nth 1 p 0 * ((1 + d1) * (1 + d2) - 1)) by ring.
  rewrite Rabs_mult, Rmult_comm. apply Rmult_le_compat_r; [apply Rabs_pos|].
  apply Rabs_bnd in H1. apply Rabs_bnd in H2. pose proof ux_range. apply Rabs_le. unfold epsq. nra.
Qed.

Lemma Fq_total (y : list R) : length y = 2%nat -> exists v, Fq y = Ok v /\ length v = 1%nat.
Proof. destruct y as [|a [|b [|? ?]]]; try discriminate. intros _. cbn. eauto. Qed.

Lemma jacobian_round_witness :
  exists (J : matrix AFlx) evs, jacobian OX Fq [1; 2] (1 / 4) = Ok (J, evs) /\ 1 / 4 <> 0 /\
    (0 < rows J)%nat /\ (0 < length [1; 2])%nat /\ 0 <= epsq /\
    (forall v, Fq [1; 2] = Ok v -> Rabs (nth 0 v 0 - fq [1; 2]) <= epsq * Rabs (fq [1; 2])) /\
    (forall v, Fq (call_pt OX [1; 2] (1 / 4) 0) = Ok v ->
       Rabs (nth 0 v 0 - fq (call_pt OX [1; 2] (1 / 4) 0)) <= epsq * Rabs (fq (call_pt OX [1; 2] (1 / 4) 0))) /\
    (forall t, derivable_pt_lim (fun t => fq (xpt [1; 2] 0 t)) t (4 * (1 + t))) /\
    (forall t, derivable_pt_lim (fun t => 4 * (1 + t)) t 4) /\
    Rabs 4 <= 4.
Proof.
  destruct (jacobian_shape_lemma OX Fq [1; 2] (1 / 4) 1) as (J & evs & EJ & _ & Rw & _).
  - intros y Hy. apply Fq_total. exact Hy.
  - intros a. eexists. reflexivity.
  - assert (HR : (0 < rows J)%nat) by (rewrite Rw; lia).
    exists J, evs. split; [exact EJ|]. split; [lra|]. split; [exact HR|]. split; [cbn; lia|].
    split; [exact epsq_nonneg|]. split; [intros v; apply Fq_err|]. split; [intros v; apply Fq_err|].
    split; [|split].
    + intros t. change (fun t0 : R => fq (xpt [1; 2] 0 t0)) with (fun t0 : R => (1 + t0) * (1 + t0) * 2). dpoly.
    + intros t. dpoly.
    + rewrite Rabs_right; lra.
Qed.

(* the step (2K/B)^(1/2) of fd_optimal_step for B = 4 and the floor numerator K = 4 u: positive data *)
Lemma fd_optimal_witness : 0 < 4 /\ 0 < 4 * ux.
Proof. pose proof ux_range. split; [lra|]. unfold ux in *. 
  assert (0 < Flocq.Core.Raux.bpow Flocq.Core.Zaux.radix2 (-53 + 1)) by apply Flocq.Core.Raux.bpow_gt_0. lra. Qed.

Lemma jacobian_tr_round_witness :
  exists st (J : matrix AFlx) evs, jacobian_tr OX Fq [1; 2] (1 / 4) = Ok (st, J, evs).
Proof.
  destruct jacobian_round_witness as (J & evs & EJ & _). unfold jacobian in EJ. inv_bind EJ.
  destruct x as [[st J'] ev]. injection EJ as -> ->. exists st, J, evs. exact E.
Qed.

(* a function with coordinate-wise Lipschitz constants 3 and 2 *)
Definition flin (p : list R) : R := 3 * nth 0 p 0 - 2 * nth 1 p 0.
Definition Llin (k : nat) : R := nth k [3; 2] 0.

Lemma drift_lipschitz_witness :
  (0 < length [1; 2])%nat /\ (forall k, 0 <= Llin k) /\
  forall p, length p = length [1; 2] ->
    Rabs (flin p - flin (upd_list [1; 2] 0 (nth 0 [1; 2] 0 + 1 / 4))) <=
      Rsum (length [1; 2]) (fun k => Llin k * Rabs (nth k p 0 - nth k (upd_list [1; 2] 0 (nth 0 [1; 2] 0 + 1 / 4)) 0)).
Proof.
  split; [cbn; lia|]. split.
  - intros [|[|[|k]]]; cbn; lra.
  - intros [|a [|b [|? ?]]]; try discriminate. intros _. cbn. unfold flin. cbn.
    unfold Rabs. repeat destruct Rcase_abs; lra.
Qed.
