(* Proofs/MatNormsR.v -- the norms over the real numbers (P2): an [Arith]/[SArith] instance at R with
   Rabs, sqrt and the decidable order of the standard library, its [OrdLaws], and the norm theorems
   restated with <= on R.  (Base/ and Inst/ are frozen and have no R instance; this one is local.) *)
From Coq Require Import List Arith Lia Reals Lra.
From OV Require Import Base.Panic Base.Arith Model.Vector Model.Matrix Model.MatNorms Proofs.Matrix Proofs.MatNorms.
Import ListNotations.

Definition R_eqb (x y : R) : bool := if Req_EM_T x y then true else false.
Definition R_ltb (x y : R) : bool := if Rlt_dec x y then true else false.
Definition R_leb (x y : R) : bool := if Rle_dec x y then true else false.

Definition AR : Arith := {|
  T := R; zero := 0%R; one := 1%R;
  add := Rplus; sub := Rminus; mul := Rmult; neg := Ropp; abs := Rabs;
  div := fun x y => if Req_EM_T y 0%R then Panic DivZero else Ok (x / y)%R;
  eqb := R_eqb; ltb := R_ltb; leb := R_leb |}.
Definition SAR : SArith := {| SA := AR; sqrt := R_sqrt.sqrt; of_nat := INR |}.

Lemma R_ltb_false (x y : R) : R_ltb x y = false <-> (y <= x)%R.
Proof. unfold R_ltb. destruct (Rlt_dec x y); split; intros; try discriminate; try lra; auto. Qed.
Lemma R_ltb_true (x y : R) : R_ltb x y = true <-> (x < y)%R.
Proof. unfold R_ltb. destruct (Rlt_dec x y); split; intros; try discriminate; try lra; auto. Qed.

Lemma AR_OrdLaws : OrdLaws AR.
Proof.
  split.
  - intros x. apply R_ltb_false. apply Rle_refl.
  - intros a b c Hab Hac. apply R_ltb_true in Hab. apply R_ltb_false in Hac. apply R_ltb_false. lra.
Qed.

(* norm_1 = max column sum, norm_inf = max row sum, norm_max = max |a_ij|  (each: an upper bound that is
   attained, or 0 for an empty family); norm_p = (Sum |a_ij|^p)^(1/p) for any p (Rpower), norm_frob = sqrt(Sum a_ij^2) *)
Theorem norms_real_lemma (m : matrix AR) : wf m ->
  (exists N, mnorm_1 (S:=SAR) m = Ok N /\
             (forall j, j < cols m -> (colsum (SS:=SAR) m j <= N)%R) /\
             (N = 0%R \/ exists j, j < cols m /\ N = colsum (SS:=SAR) m j)) /\
  (exists N, mnorm_inf (S:=SAR) m = Ok N /\
             (forall i, i < rows m -> (rowsum (SS:=SAR) m i <= N)%R) /\
             (N = 0%R \/ exists i, i < rows m /\ N = rowsum (SS:=SAR) m i)) /\
  (exists N, mnorm_max (S:=SAR) m = Ok N /\
             (forall i j, i < rows m -> j < cols m -> (Rabs (entry m i j) <= N)%R) /\
             (N = 0%R \/ exists i j, i < rows m /\ j < cols m /\ N = Rabs (entry m i j))) /\
  (forall p : R, mnorm_p (S:=SAR) (fun x => Rpower x p) (fun s => Rpower s (1 / p)) m =
     Ok (Rpower (sum_n (A:=AR) (length (buf m)) (fun k => Rpower (Rabs (nth k (buf m) 0%R)) p)) (1 / p))) /\
  mnorm_frob (S:=SAR) m =
    Ok (R_sqrt.sqrt (sum_n (A:=AR) (length (buf m)) (fun k => (nth k (buf m) 0 * nth k (buf m) 0)%R))).
Proof.
  intros Hw.
  destruct (norms_spec_lemma (SS:=SAR) AR_OrdLaws m Hw) as (H1 & Hi & Hm & Hp & Hf).
  repeat split.
  - destruct H1 as (N & E & Hub & Hmem). exists N; repeat split; auto.
    intros j Hj. apply R_ltb_false. exact (Hub j Hj).
  - destruct Hi as (N & E & Hub & Hmem). exists N; repeat split; auto.
    intros i Hi'. apply R_ltb_false. exact (Hub i Hi').
  - destruct Hm as (N & E & Hub & Hmem). exists N; repeat split; auto.
    intros i j Hi' Hj. apply R_ltb_false. exact (Hub i j Hi' Hj).
  - intros p. exact (Hp (fun x => Rpower x p) (fun s => Rpower s (1 / p))).
  - rewrite Hf. f_equal. apply (f_equal R_sqrt.sqrt). apply (sum_n_ext (A:=AR)). intros k Hk. cbn.
    rewrite <- Rabs_mult. apply Rabs_pos_eq. apply Rle_0_sqr.
Qed.
