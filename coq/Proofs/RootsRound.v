(* Proofs/RootsRound.v -- the FLOAT half of C10 for the closed forms of degree <= 2, in the standard model of rounding.

   The model functions [poly_solve] (degree 1) and [quadratic_solve] of Model/Roots.v are instantiated at the two-sorted
   arithmetic [RoundRA]:   KK = C = R * R (Coquelicot's complex numbers), every ROUNDED complex operation replaced by an
   arbitrary function with a NORMWISE relative error eps (the form of the bounds of Proofs/ComplexRound.v:
   sqrt 2 (2u + u^2) for *, sqrt 2 kappa for /, u for + - and z * r):

        |fadd x y - (x + y)| <= eps |x + y|       |fsub x y - (x - y)| <= eps |x - y|
        |fmul x y - x y|     <= eps |x y|         |fdiv x y - x / y|   <= eps |x / y|     (y <> 0)
        |fscale z r - z r|   <= eps |z r|         (Complex * f64)
        fsqrt z = w (1 + d),  w w = z, |d| <= eps (Complex::sqrt: relative error eps with respect to SOME square root)

   and the EXACT operations of IEEE arithmetic kept exact: negation, conjugation, real part, the comparisons `>= 0.0` and
   `== zero`, the literals 4.0, 1.0, -1.0, 0.5.  Everything else of the arithmetic (the f64 operations + - * / sqrt,
   abs, max, pow, polar, Complex / f64, the orders on Complex, ...) is an ARBITRARY Section variable without any
   hypothesis: quadratic_solve does not use it.

   Results (all for every a <> 0, b, c : C and every such arithmetic with eps <= 1/100; NO hypothesis on the discriminant):
     quadratic_residual_lemma    both returned values x satisfy
                                     |a x^2 + b x + c| <= 16 eps (|a||x|^2 + |b||x| + |c|)
                                 -- the normwise backward error of the search of driver/c10.py is at most this quotient;
     quadratic_backward_lemma    hence each returned x is an EXACT root of (a+da) x^2 + (b+db) x + (c+dc) with
                                 |da| <= 16 eps |a|, |db| <= 16 eps |b|, |dc| <= 16 eps |c|   (perturbation depending on x);
     quadratic_q0_round_lemma    the repaired branch q == 0 is taken only for b = c = 0, and returns [0; 0] exactly;
     quadratic_product_lemma     r0 r1 = (c / a)(1 + d), |d| <= 2 eps + eps^2  (q <> 0);
     linear_root_backward_lemma  the root of c1 x + c0 returned by poly_solve is the exact root of c1 x + c0 (1 + d), |d| <= eps.
   The cancellation in b^2 - 4ac is harmless for THIS (residual) form of the error: the computed discriminant is off by at
   most eta (|b|^2 + 4|a||c|), and |b|^2 <= 4|q|^2 / (1 - eps) because the sign choice of the code -- proved here, with the
   ROUNDED product conj(b) * sqrt(disc) the code tests -- makes |b + sgn s|^2 >= (1 - eps)(|b|^2 + |s|^2). *)
From Coq Require Import List Arith Bool Reals Lra Lia Psatz.
From Coquelicot Require Import Complex.
From OV Require Import Base.Panic Base.Arith gen.Params Model.Roots.
Import ListNotations.
Local Open Scope R_scope.

(* ---------------------------------------------------------------- 0. complex numbers: small facts *)
Lemma Rabs_le_inv (x y : R) : Rabs x <= y -> - y <= x <= y.
Proof. unfold Rabs. destruct (Rcase_abs x); lra. Qed.

Notation C0 := (RtoC 0).
Notation C1 := (RtoC 1).

Lemma Cmod_sqr (z : C) : Cmod z * Cmod z = fst z * fst z + snd z * snd z.
Proof.
  unfold Cmod. rewrite sqrt_sqrt; [ring|]. nra.
Qed.

Lemma Cmod_sub_0 (t : C) : Cmod (t - C0)%C <= 0 -> t = C0.
Proof.
  intros H. apply Cmod_eq_0. replace t with (t - C0)%C at 1 by ring.
  pose proof (Cmod_ge_0 (t - C0)%C). lra.
Qed.

Lemma Cmod_tri3 (x y z : C) : Cmod (x + y + z)%C <= Cmod x + Cmod y + Cmod z.
Proof.
  eapply Rle_trans; [apply Cmod_triangle|]. pose proof (Cmod_triangle x y). lra.
Qed.

Lemma Cmod_minus_le (x y : C) : Cmod (x - y)%C <= Cmod x + Cmod y.
Proof.
  replace (x - y)%C with (x + - y)%C by ring.
  eapply Rle_trans; [apply Cmod_triangle|]. rewrite Cmod_opp. lra.
Qed.

Lemma fst_le_Cmod (z : C) : Rabs (fst z) <= Cmod z.
Proof.
  pose proof (Rmax_Cmod z) as H. eapply Rle_trans; [apply Rmax_l|exact H].
Qed.

(* |x + y|^2 = |x|^2 + |y|^2 + 2 Re (conj x * y) *)
Lemma Cmod_plus_sqr (x y : C) :
  Cmod (x + y)%C * Cmod (x + y)%C = Cmod x * Cmod x + Cmod y * Cmod y + 2 * fst (Cconj x * y)%C.
Proof.
  rewrite !Cmod_sqr. destruct x as [x1 x2], y as [y1 y2]. cbn. ring.
Qed.

(* relative error, normwise  <->  multiplicative form with a complex factor *)
Lemma rel_mult (eps : R) (t s : C) : 0 <= eps -> Cmod (t - s)%C <= eps * Cmod s ->
  exists d : C, Cmod d <= eps /\ t = (s * (C1 + d))%C.
Proof.
  intros He H. destruct (Ceq_dec s C0) as [Z|NZ].
  - exists C0. split; [rewrite Cmod_0; exact He|].
    subst s. rewrite Cmod_0, Rmult_0_r in H. apply Cmod_sub_0 in H. subst t. ring.
  - exists ((t - s) / s)%C. split.
    + rewrite Cmod_div by exact NZ. apply Cmod_gt_0 in NZ.
      apply (Rmult_le_reg_r (Cmod s)); [exact NZ|]. unfold Rdiv. rewrite Rmult_assoc, Rinv_l by lra. lra.
    + field. exact NZ.
Qed.

(* ---------------------------------------------------------------- 1. products of factors (1 + d): [near x X] is |x - 1| <= X - 1 *)
Definition near (x : C) (X : R) : Prop := Cmod (x - C1)%C <= X - 1.

Lemma near_ge1 x X : near x X -> 1 <= X.
Proof. unfold near. intros H. pose proof (Cmod_ge_0 (x - C1)%C). lra. Qed.

Lemma near_1 : near C1 1.
Proof. unfold near. replace (C1 - C1)%C with C0 by ring. rewrite Cmod_0. lra. Qed.

Lemma near_1pd (d : C) e : Cmod d <= e -> near (C1 + d)%C (1 + e).
Proof. unfold near. intros H. replace (C1 + d - C1)%C with d by ring. lra. Qed.

Lemma near_mono x X Y : near x X -> X <= Y -> near x Y.
Proof. unfold near. intros. lra. Qed.

Lemma near_mul x y X Y : near x X -> near y Y -> near (x * y)%C (X * Y).
Proof.
  intros Hx Hy. pose proof (near_ge1 _ _ Hx). pose proof (near_ge1 _ _ Hy). unfold near in *.
  replace (x * y - C1)%C with ((x - C1) * (y - C1) + (x - C1) + (y - C1))%C by ring.
  eapply Rle_trans; [apply Cmod_tri3|]. rewrite Cmod_mult.
  pose proof (Cmod_ge_0 (x - C1)%C). pose proof (Cmod_ge_0 (y - C1)%C). nra.
Qed.

Lemma near_hi x X : near x X -> Cmod x <= X.
Proof.
  unfold near. intros H. replace x with ((x - C1) + C1)%C at 1 by ring.
  eapply Rle_trans; [apply Cmod_triangle|]. rewrite Cmod_1. lra.
Qed.

Lemma near_lo x X : near x X -> 2 - X <= Cmod x.
Proof.
  unfold near. intros H.
  assert (K : Cmod C1 <= Cmod x + Cmod (x - C1)%C).
  { replace C1 with (x + - (x - C1))%C at 1 by ring.
    eapply Rle_trans; [apply Cmod_triangle|]. rewrite Cmod_opp. lra. }
  rewrite Cmod_1 in K. lra.
Qed.

Lemma near_nz x X : near x X -> X < 2 -> x <> C0.
Proof. intros H HX E. apply near_lo in H. rewrite E, Cmod_0 in H. lra. Qed.

Lemma near_inv x X : near x X -> X < 2 -> near (/ x)%C (/ (2 - X)).
Proof.
  intros H HX. pose proof (near_nz _ _ H HX) as NZ. pose proof (near_lo _ _ H) as L.
  pose proof (near_ge1 _ _ H) as G. unfold near in *.
  replace (/ x - C1)%C with (- ((x - C1) / x))%C by (field; exact NZ).
  rewrite Cmod_opp, Cmod_div by exact NZ.
  assert (P : 0 < Cmod x) by lra.
  apply (Rmult_le_reg_r (Cmod x)); [exact P|].
  unfold Rdiv. rewrite Rmult_assoc, Rinv_l, Rmult_1_r by lra.
  assert (I : / (2 - X) - 1 = (X - 1) / (2 - X)) by (field; lra).
  rewrite I.
  assert (Q : (X - 1) <= (X - 1) / (2 - X) * Cmod x).
  { unfold Rdiv. rewrite Rmult_assoc. rewrite <- (Rmult_1_r (X - 1)) at 1.
    apply Rmult_le_compat_l; [lra|].
    apply (Rmult_le_reg_l (2 - X)); [lra|]. rewrite <- Rmult_assoc, Rinv_r by lra. lra. }
  lra.
Qed.

(* |x p - x| <= (X - 1)|x| *)
Lemma near_pert x p X : near p X -> Cmod (x * p - x)%C <= (X - 1) * Cmod x.
Proof.
  unfold near. intros H. replace (x * p - x)%C with (x * (p - C1))%C by ring.
  rewrite Cmod_mult. pose proof (Cmod_ge_0 x). nra.
Qed.

Lemma Cmod_Cconj (z : C) : Cmod (Cconj z) = Cmod z.
Proof. unfold Cmod. destruct z as [x y]. cbn. f_equal. ring. Qed.

Lemma C2_neq0 : (C1 + C1)%C <> C0.
Proof. rewrite <- RtoC_plus. intros H. apply RtoC_inj in H. lra. Qed.

Lemma RtoC_INR4 : RtoC (INR 4) = (C1 + C1 + C1 + C1)%C.
Proof. cbn [INR]. now rewrite !RtoC_plus. Qed.

Lemma RtoC_mhalf : RtoC (- / 2) = (- / (C1 + C1))%C.
Proof.
  rewrite RtoC_opp, RtoC_inv by lra. replace 2 with (1 + 1) by ring. now rewrite RtoC_plus.
Qed.

Lemma Cmod_INR4 : Cmod (RtoC (INR 4)) = 4.
Proof. rewrite Cmod_R. cbn [INR]. rewrite Rabs_pos_eq; lra. Qed.

Lemma Cmod_mhalf : Cmod (RtoC (- / 2)) = / 2.
Proof. rewrite Cmod_R, Rabs_left; lra. Qed.

(* ---------------------------------------------------------------- 2. the analysis on values *)
(* the quadratic p(x) = a x^2 + b x + c and its "size" at x *)
Definition qval (a b c x : C) : C := (a * x * x + b * x + c)%C.
Definition qsize (a b c x : C) : R := Cmod a * Cmod x * Cmod x + Cmod b * Cmod x + Cmod c.

(* the exact discriminant, as the code parenthesises it *)
Definition qdisc (a b c : C) : C := (b * b - a * RtoC (INR 4) * c)%C.

(* 2.1  a square root sh of a five-times rounded discriminant *)
Lemma disc_err (e : R) (a b c bb a4 ac4 dh w sh : C) (d1 d2 d3 d4 d5 : C) :
  0 <= e -> Cmod d1 <= e -> Cmod d2 <= e -> Cmod d3 <= e -> Cmod d4 <= e -> Cmod d5 <= e ->
  bb = (b * b * (C1 + d1))%C -> a4 = (a * RtoC (INR 4) * (C1 + d2))%C -> ac4 = (a4 * c * (C1 + d3))%C ->
  dh = ((bb - ac4) * (C1 + d4))%C -> (w * w)%C = dh -> sh = (w * (C1 + d5))%C ->
  let X := (1 + e) * (1 + e) * (1 + e) * (1 + e) * (1 + e) in
  Cmod (sh * sh - qdisc a b c)%C <= (X - 1) * (Cmod b * Cmod b + 4 * (Cmod a * Cmod c)).
Proof.
  intros He H1 H2 H3 H4 H5 Ebb Ea4 Eac4 Edh Ew Esh X.
  apply near_1pd in H1, H2, H3, H4, H5.
  set (p1 := ((C1 + d1) * (C1 + d4) * (C1 + d5) * (C1 + d5) * C1)%C).
  set (p2 := ((C1 + d2) * (C1 + d3) * (C1 + d4) * (C1 + d5) * (C1 + d5))%C).
  assert (N1 : near p1 X).
  { unfold p1, X. repeat apply near_mul; try assumption.
    eapply near_mono; [apply near_1|lra]. }
  assert (N2 : near p2 X) by (unfold p2, X; repeat apply near_mul; assumption).
  assert (E : (sh * sh - qdisc a b c)%C = ((b * b * p1 - b * b) - (a * RtoC (INR 4) * c * p2 - a * RtoC (INR 4) * c))%C).
  { unfold qdisc, p1, p2. rewrite Esh.
    replace (w * (C1 + d5) * (w * (C1 + d5)))%C with ((w * w) * (C1 + d5) * (C1 + d5))%C by ring.
    rewrite Ew, Edh, Eac4, Ea4, Ebb. ring. }
  rewrite E. eapply Rle_trans; [apply Cmod_minus_le|].
  pose proof (near_pert (b * b)%C p1 X N1) as K1.
  pose proof (near_pert (a * RtoC (INR 4) * c)%C p2 X N2) as K2.
  rewrite Cmod_mult in K1. rewrite 2!Cmod_mult in K2. rewrite Cmod_INR4 in K2. lra.
Qed.

(* 2.2  the sign choice of the code avoids cancellation in b + sgn * sh, even with the rounded test *)
Lemma sign_no_cancel (e : R) (b sh pr : C) :
  0 <= e -> Cmod (pr - Cconj b * sh)%C <= e * Cmod (Cconj b * sh)%C ->
  let sg := if (if Rle_dec 0 (fst pr) then true else false) then 1 else Ropp 1 in
  (sg = 1 \/ sg = Ropp 1) /\ - (e * (Cmod b * Cmod sh)) <= fst (Cconj b * (sh * RtoC sg))%C.
Proof.
  intros He H sg. rewrite Cmod_mult, Cmod_Cconj in H.
  pose proof (fst_le_Cmod (pr - Cconj b * sh)%C) as F.
  assert (F' : Rabs (fst pr - fst (Cconj b * sh)%C) <= e * (Cmod b * Cmod sh)).
  { eapply Rle_trans; [|exact H]. eapply Rle_trans; [|exact F]. apply Req_le. reflexivity. }
  apply Rabs_le_inv in F'.
  unfold sg. destruct (Rle_dec 0 (fst pr)) as [P|N].
  - split; [now left|]. replace (sh * RtoC 1)%C with sh by ring. lra.
  - split; [now right|].
    replace (Cconj b * (sh * RtoC (Ropp 1)))%C with (- (Cconj b * sh))%C.
    2:{ rewrite RtoC_opp. ring. }
    assert (G : fst (- (Cconj b * sh))%C = - fst (Cconj b * sh)%C) by (destruct (Cconj b * sh)%C; reflexivity).
    rewrite G. lra.
Qed.

(* 2.3  consequences of no cancellation: with m = sg sh, t = b + m, q = -t/2 *)
Lemma no_cancel_bounds (e : R) (b m : C) :
  0 <= e < 1 -> - (e * (Cmod b * Cmod m)) <= fst (Cconj b * m)%C ->
  (1 - e) * (Cmod b * Cmod b + Cmod m * Cmod m) <= Cmod (b + m)%C * Cmod (b + m)%C.
Proof.
  intros He H. rewrite Cmod_plus_sqr.
  pose proof (Cmod_ge_0 b). pose proof (Cmod_ge_0 m).
  assert (S : 0 <= (Cmod b - Cmod m) * (Cmod b - Cmod m)) by apply Rle_0_sqr.
  assert (S' : 0 <= e * ((Cmod b - Cmod m) * (Cmod b - Cmod m))) by (apply Rmult_le_pos; lra).
  set (B := Cmod b) in *. set (M := Cmod m) in *. set (f := fst (Cconj b * m)%C) in *.
  replace ((1 - e) * (B * B + M * M)) with (B * B + M * M - (e * (B * B) + e * (M * M))) by ring.
  replace (e * ((B - M) * (B - M))) with (e * (B * B) + e * (M * M) - 2 * (e * (B * M))) in S' by ring.
  lra.
Qed.

Lemma sq_le_lin (x y k : R) : 0 <= x -> 0 <= y -> 0 <= k -> x * x <= (k * k) * (y * y) -> x <= k * y.
Proof. intros Hx Hy Hk H. destruct (Rle_dec x (k * y)) as [L|N]; [exact L|]. exfalso.
  assert (P : 0 <= k * y) by (apply Rmult_le_pos; assumption).
  assert (Q : (k * y) * (k * y) < x * x) by (apply Rmult_le_0_lt_compat; lra).
  replace ((k * y) * (k * y)) with (k * k * (y * y)) in Q by ring. lra.
Qed.

(* the identity behind the formula: 4 (q^2 + b q + a c) = m^2 - (b^2 - 4 a c) for q = -(b + m)/2 *)
Lemma q_identity (a b c m : C) :
  let q := ((b + m) * RtoC (- / 2))%C in
  ((C1 + C1 + C1 + C1) * (q * q + b * q + a * c))%C = (m * m - qdisc a b c)%C.
Proof.
  intros q. unfold q, qdisc. rewrite RtoC_mhalf, RtoC_INR4. field. exact C2_neq0.
Qed.

Lemma Cmod_4 : Cmod (C1 + C1 + C1 + C1)%C = 4.
Proof. rewrite <- RtoC_INR4. apply Cmod_INR4. Qed.
