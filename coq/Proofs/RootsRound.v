(* Proofs/RootsRound.v -- the FLOAT half of C10 for the closed forms of degree <= 2, in the standard model of rounding.

   The model functions [poly_solve] (degree 1) and [quadratic_solve] of Model/Roots.v are instantiated at the two-sorted
   arithmetic [RoundRA]:   KK = C = R * R (Coquelicot's complex numbers), every ROUNDED complex operation replaced by an
   arbitrary function with a NORMWISE relative error eps (the form of the bounds of Proofs/ComplexRound.v:
   sqrt 2 (2u + u^2) for *, sqrt 2 kappa for /, u for + - and z * r):

        |fadd x y - (x + y)| <= eps |x + y|       |fsub x y - (x - y)| <= eps |x - y|
        |fmul x y - x y|     <= eps |x y|         |fdiv x y - x / y|   <= eps |x / y|     (y <> 0)
        |fscale z r - z r|   <= eps |z r|         (Complex * f64)
        fsqrt z = w (1 + d),  w w = z, |d| <= eps (Complex::sqrt: relative error eps with respect to SOME square root)

   and the EXACT operations of IEEE arithmetic kept exact: negation, conjugation, real part, the comparisons `>= 0.0` and
   `== zero`, the literals 4.0, 1.0, -1.0, 0.5.  Everything else of the arithmetic (the f64 operations + - * / sqrt,
   abs, max, pow, polar, Complex / f64, the orders on Complex, ...) is an ARBITRARY Section variable without any
   hypothesis: quadratic_solve does not use it.

   Results (all for every a <> 0, b, c : C and every such arithmetic with eps <= 1/100; NO hypothesis on the discriminant):
     quadratic_residual_lemma        both returned values x satisfy
                                         |a x^2 + b x + c| <= 16 eps (|a||x|^2 + |b||x| + |c|)
                                     -- the normwise backward error of the search of driver/c10.py is at most 3 times this quotient
                                     (quadratic_search_measure_lemma: 48 eps);
     quadratic_backward_lemma        hence each returned x is an EXACT root of (a+da) x^2 + (b+db) x + (c+dc) with
                                     |da| <= 16 eps |a|, |db| <= 16 eps |b|, |dc| <= 16 eps |c|   (perturbation depending on x);
     quadratic_simultaneous_lemma    BOTH returned values are the two roots of a x^2 + (b+db) x + (c+dc) with
                                     |dc| <= (2 eps + eps^2)|c|,  |db| <= 16 eps sqrt(|b|^2 + 4|a||c|)  (a bound relative to |b| alone is
                                     not attainable: Proofs/RootsRoundEx.v);
     quadratic_q0_round_lemma        the repaired branch q == 0 is taken exactly when b = c = 0, and returns [0; 0] exactly;
     quadratic_product_lemma         r0 r1 = (c / a)(1 + d), |d| <= 2 eps + eps^2  (q <> 0);
     linear_root_backward_lemma      the root of c1 x + c0 returned by poly_solve is the exact root of c1 x + c0 (1 + d), |d| <= eps;
     quad_core_rel / quad_residual_rel / quadratic_residual_local_lemma
                                     the same analysis RELATIONALLY (any values related to their operands as the twelve roundings are),
                                     hence from [quad_ops_ok]: the standard model assumed only at the arguments that occur.
   Sections 4-5 restate everything with the arithmetic bundled ([RoundOps], [std_model], [RoundRAo]); the pinned theorems of
   Props/C10.v use that form.  Forward error: Proofs/RootsRoundFwd.v; cubic: RootsRoundCubic.v, RootsRoundCardano.v; an instance
   that really rounds (the model's complex operators over rounded reals): RootsRoundFlx.v; examples: RootsRoundEx.v.
   The cancellation in b^2 - 4ac is harmless for the RESIDUAL form of the error: the computed discriminant is off by at
   most eta (|b|^2 + 4|a||c|), and |b|^2 <= 4|q|^2 / (1 - eps) because the sign choice of the code -- proved here, with the
   ROUNDED product conj(b) * sqrt(disc) the code tests -- makes |b + sgn s|^2 >= (1 - eps)(|b|^2 + |s|^2). *)
From Coq Require Import List Arith Bool Reals Lra Lia Psatz.
From Coquelicot Require Import Complex.
From OV Require Import Base.Panic Base.Arith gen.Params Model.Roots.
Import ListNotations.
Local Open Scope R_scope.

(* ---------------------------------------------------------------- 0. complex numbers: small facts *)
Lemma Rabs_le_inv (x y : R) : Rabs x <= y -> - y <= x <= y.
Proof. unfold Rabs. destruct (Rcase_abs x); lra. Qed.

(* notations kept in a module so that a file importing this one (Props/C10.v) does not get them *)
Module RRN.
Notation C0 := (RtoC 0).
Notation C1 := (RtoC 1).
End RRN.
Import RRN.

Lemma Cmod_sqr (z : C) : Cmod z * Cmod z = fst z * fst z + snd z * snd z.
Proof.
  unfold Cmod. rewrite sqrt_sqrt; [ring|]. nra.
Qed.

Lemma Cmod_sub_0 (t : C) : Cmod (t - C0)%C <= 0 -> t = C0.
Proof.
  intros H. apply Cmod_eq_0. replace t with (t - C0)%C at 1 by ring.
  pose proof (Cmod_ge_0 (t - C0)%C). lra.
Qed.

Lemma Cmod_tri3 (x y z : C) : Cmod (x + y + z)%C <= Cmod x + Cmod y + Cmod z.
Proof.
  eapply Rle_trans; [apply Cmod_triangle|]. pose proof (Cmod_triangle x y). lra.
Qed.

Lemma Cmod_minus_le (x y : C) : Cmod (x - y)%C <= Cmod x + Cmod y.
Proof.
  replace (x - y)%C with (x + - y)%C by ring.
  eapply Rle_trans; [apply Cmod_triangle|]. rewrite Cmod_opp. lra.
Qed.

Lemma fst_le_Cmod (z : C) : Rabs (fst z) <= Cmod z.
Proof.
  pose proof (Rmax_Cmod z) as H. eapply Rle_trans; [apply Rmax_l|exact H].
Qed.

(* |x + y|^2 = |x|^2 + |y|^2 + 2 Re (conj x * y) *)
Lemma Cmod_plus_sqr (x y : C) :
  Cmod (x + y)%C * Cmod (x + y)%C = Cmod x * Cmod x + Cmod y * Cmod y + 2 * fst (Cconj x * y)%C.
Proof.
  rewrite !Cmod_sqr. destruct x as [x1 x2], y as [y1 y2]. cbn. ring.
Qed.

(* relative error, normwise  <->  multiplicative form with a complex factor *)
Lemma rel_mult (eps : R) (t s : C) : 0 <= eps -> Cmod (t - s)%C <= eps * Cmod s ->
  exists d : C, Cmod d <= eps /\ t = (s * (C1 + d))%C.
Proof.
  intros He H. destruct (Ceq_dec s C0) as [Z|NZ].
  - exists C0. split; [rewrite Cmod_0; exact He|].
    subst s. rewrite Cmod_0, Rmult_0_r in H. apply Cmod_sub_0 in H. subst t. ring.
  - exists ((t - s) / s)%C. split.
    + rewrite Cmod_div by exact NZ. apply Cmod_gt_0 in NZ.
      apply (Rmult_le_reg_r (Cmod s)); [exact NZ|]. unfold Rdiv. rewrite Rmult_assoc, Rinv_l by lra. lra.
    + field. exact NZ.
Qed.

(* ---------------------------------------------------------------- 1. products of factors (1 + d): [near x X] is |x - 1| <= X - 1 *)
Definition near (x : C) (X : R) : Prop := Cmod (x - C1)%C <= X - 1.

Lemma near_ge1 x X : near x X -> 1 <= X.
Proof. unfold near. intros H. pose proof (Cmod_ge_0 (x - C1)%C). lra. Qed.

Lemma near_1 : near C1 1.
Proof. unfold near. replace (C1 - C1)%C with C0 by ring. rewrite Cmod_0. lra. Qed.

Lemma near_1pd (d : C) e : Cmod d <= e -> near (C1 + d)%C (1 + e).
Proof. unfold near. intros H. replace (C1 + d - C1)%C with d by ring. lra. Qed.

Lemma near_mono x X Y : near x X -> X <= Y -> near x Y.
Proof. unfold near. intros. lra. Qed.

Lemma near_mul x y X Y : near x X -> near y Y -> near (x * y)%C (X * Y).
Proof.
  intros Hx Hy. pose proof (near_ge1 _ _ Hx). pose proof (near_ge1 _ _ Hy). unfold near in *.
  replace (x * y - C1)%C with ((x - C1) * (y - C1) + (x - C1) + (y - C1))%C by ring.
  eapply Rle_trans; [apply Cmod_tri3|]. rewrite Cmod_mult.
  pose proof (Cmod_ge_0 (x - C1)%C). pose proof (Cmod_ge_0 (y - C1)%C). nra.
Qed.

Lemma near_hi x X : near x X -> Cmod x <= X.
Proof.
  unfold near. intros H. replace x with ((x - C1) + C1)%C at 1 by ring.
  eapply Rle_trans; [apply Cmod_triangle|]. rewrite Cmod_1. lra.
Qed.

Lemma near_lo x X : near x X -> 2 - X <= Cmod x.
Proof.
  unfold near. intros H.
  assert (K : Cmod C1 <= Cmod x + Cmod (x - C1)%C).
  { replace C1 with (x + - (x - C1))%C at 1 by ring.
    eapply Rle_trans; [apply Cmod_triangle|]. rewrite Cmod_opp. lra. }
  rewrite Cmod_1 in K. lra.
Qed.

Lemma near_nz x X : near x X -> X < 2 -> x <> C0.
Proof. intros H HX E. apply near_lo in H. rewrite E, Cmod_0 in H. lra. Qed.

Lemma near_inv x X : near x X -> X < 2 -> near (/ x)%C (/ (2 - X)).
Proof.
  intros H HX. pose proof (near_nz _ _ H HX) as NZ. pose proof (near_lo _ _ H) as L.
  pose proof (near_ge1 _ _ H) as G. unfold near in *.
  replace (/ x - C1)%C with (- ((x - C1) / x))%C by (field; exact NZ).
  rewrite Cmod_opp, Cmod_div by exact NZ.
  assert (P : 0 < Cmod x) by lra.
  apply (Rmult_le_reg_r (Cmod x)); [exact P|].
  unfold Rdiv. rewrite Rmult_assoc, Rinv_l, Rmult_1_r by lra.
  assert (I : / (2 - X) - 1 = (X - 1) / (2 - X)) by (field; lra).
  rewrite I.
  assert (Q : (X - 1) <= (X - 1) / (2 - X) * Cmod x).
  { unfold Rdiv. rewrite Rmult_assoc. rewrite <- (Rmult_1_r (X - 1)) at 1.
    apply Rmult_le_compat_l; [lra|].
    apply (Rmult_le_reg_l (2 - X)); [lra|]. rewrite <- Rmult_assoc, Rinv_r by lra. lra. }
  lra.
Qed.

(* |x p - x| <= (X - 1)|x| *)
Lemma near_pert x p X : near p X -> Cmod (x * p - x)%C <= (X - 1) * Cmod x.
Proof.
  unfold near. intros H. replace (x * p - x)%C with (x * (p - C1))%C by ring.
  rewrite Cmod_mult. pose proof (Cmod_ge_0 x). nra.
Qed.

Lemma Cmod_Cconj (z : C) : Cmod (Cconj z) = Cmod z.
Proof. unfold Cmod. destruct z as [x y]. cbn. f_equal. ring. Qed.

Lemma C2_neq0 : (C1 + C1)%C <> C0.
Proof. rewrite <- RtoC_plus. intros H. apply RtoC_inj in H. lra. Qed.

Lemma RtoC_INR4 : RtoC (INR 4) = (C1 + C1 + C1 + C1)%C.
Proof. cbn [INR]. now rewrite !RtoC_plus. Qed.

Lemma RtoC_mhalf : RtoC (- / 2) = (- / (C1 + C1))%C.
Proof.
  rewrite RtoC_opp, RtoC_inv by lra. replace 2 with (1 + 1) by ring. now rewrite RtoC_plus.
Qed.

Lemma Cmod_INR4 : Cmod (RtoC (INR 4)) = 4.
Proof. rewrite Cmod_R. cbn [INR]. rewrite Rabs_pos_eq; lra. Qed.

Lemma Cmod_mhalf : Cmod (RtoC (- / 2)) = / 2.
Proof. rewrite Cmod_R, Rabs_left; lra. Qed.

(* ---------------------------------------------------------------- 2. the analysis on values *)
(* the quadratic p(x) = a x^2 + b x + c and its "size" at x *)
Definition qval (a b c x : C) : C := (a * x * x + b * x + c)%C.
Definition qsize (a b c x : C) : R := Cmod a * Cmod x * Cmod x + Cmod b * Cmod x + Cmod c.

(* the exact discriminant, as the code parenthesises it *)
Definition qdisc (a b c : C) : C := (b * b - a * RtoC (INR 4) * c)%C.

(* 2.1  a square root sh of a five-times rounded discriminant *)
Lemma disc_err (e : R) (a b c bb a4 ac4 dh w sh : C) (d1 d2 d3 d4 d5 : C) :
  0 <= e -> Cmod d1 <= e -> Cmod d2 <= e -> Cmod d3 <= e -> Cmod d4 <= e -> Cmod d5 <= e ->
  bb = (b * b * (C1 + d1))%C -> a4 = (a * RtoC (INR 4) * (C1 + d2))%C -> ac4 = (a4 * c * (C1 + d3))%C ->
  dh = ((bb - ac4) * (C1 + d4))%C -> (w * w)%C = dh -> sh = (w * (C1 + d5))%C ->
  let X := (1 + e) * (1 + e) * (1 + e) * (1 + e) * (1 + e) in
  Cmod (sh * sh - qdisc a b c)%C <= (X - 1) * (Cmod b * Cmod b + 4 * (Cmod a * Cmod c)).
Proof.
  intros He H1 H2 H3 H4 H5 Ebb Ea4 Eac4 Edh Ew Esh X.
  apply near_1pd in H1, H2, H3, H4, H5.
  set (p1 := ((C1 + d1) * (C1 + d4) * (C1 + d5) * (C1 + d5) * C1)%C).
  set (p2 := ((C1 + d2) * (C1 + d3) * (C1 + d4) * (C1 + d5) * (C1 + d5))%C).
  assert (N1 : near p1 X).
  { unfold p1, X. repeat apply near_mul; try assumption.
    eapply near_mono; [apply near_1|lra]. }
  assert (N2 : near p2 X) by (unfold p2, X; repeat apply near_mul; assumption).
  assert (E : (sh * sh - qdisc a b c)%C = ((b * b * p1 - b * b) - (a * RtoC (INR 4) * c * p2 - a * RtoC (INR 4) * c))%C).
  { unfold qdisc, p1, p2. rewrite Esh.
    replace (w * (C1 + d5) * (w * (C1 + d5)))%C with ((w * w) * (C1 + d5) * (C1 + d5))%C by ring.
    rewrite Ew, Edh, Eac4, Ea4, Ebb. ring. }
  rewrite E. eapply Rle_trans; [apply Cmod_minus_le|].
  pose proof (near_pert (b * b)%C p1 X N1) as K1.
  pose proof (near_pert (a * RtoC (INR 4) * c)%C p2 X N2) as K2.
  rewrite Cmod_mult in K1. rewrite 2!Cmod_mult in K2. rewrite Cmod_INR4 in K2. lra.
Qed.

(* 2.2  the sign choice of the code avoids cancellation in b + sgn * sh, even with the rounded test *)
Lemma sign_no_cancel (e : R) (b sh pr : C) :
  0 <= e -> Cmod (pr - Cconj b * sh)%C <= e * Cmod (Cconj b * sh)%C ->
  let sg := if (if Rle_dec 0 (fst pr) then true else false) then 1 else Ropp 1 in
  (sg = 1 \/ sg = Ropp 1) /\ - (e * (Cmod b * Cmod sh)) <= fst (Cconj b * (sh * RtoC sg))%C.
Proof.
  intros He H sg. rewrite Cmod_mult, Cmod_Cconj in H.
  pose proof (fst_le_Cmod (pr - Cconj b * sh)%C) as F.
  assert (F' : Rabs (fst pr - fst (Cconj b * sh)%C) <= e * (Cmod b * Cmod sh)).
  { eapply Rle_trans; [|exact H]. eapply Rle_trans; [|exact F]. apply Req_le. reflexivity. }
  apply Rabs_le_inv in F'.
  unfold sg. destruct (Rle_dec 0 (fst pr)) as [P|N].
  - split; [now left|]. replace (sh * RtoC 1)%C with sh by ring. lra.
  - split; [now right|].
    replace (Cconj b * (sh * RtoC (Ropp 1)))%C with (- (Cconj b * sh))%C.
    2:{ rewrite RtoC_opp. ring. }
    assert (G : fst (- (Cconj b * sh))%C = - fst (Cconj b * sh)%C) by (destruct (Cconj b * sh)%C; reflexivity).
    rewrite G. lra.
Qed.

(* 2.3  consequences of no cancellation: with m = sg sh, t = b + m, q = -t/2 *)
Lemma no_cancel_bounds (e : R) (b m : C) :
  0 <= e < 1 -> - (e * (Cmod b * Cmod m)) <= fst (Cconj b * m)%C ->
  (1 - e) * (Cmod b * Cmod b + Cmod m * Cmod m) <= Cmod (b + m)%C * Cmod (b + m)%C.
Proof.
  intros He H. rewrite Cmod_plus_sqr.
  pose proof (Cmod_ge_0 b). pose proof (Cmod_ge_0 m).
  assert (S : 0 <= (Cmod b - Cmod m) * (Cmod b - Cmod m)) by apply Rle_0_sqr.
  assert (S' : 0 <= e * ((Cmod b - Cmod m) * (Cmod b - Cmod m))) by (apply Rmult_le_pos; lra).
  set (B := Cmod b) in *. set (M := Cmod m) in *. set (f := fst (Cconj b * m)%C) in *.
  replace ((1 - e) * (B * B + M * M)) with (B * B + M * M - (e * (B * B) + e * (M * M))) by ring.
  replace (e * ((B - M) * (B - M))) with (e * (B * B) + e * (M * M) - 2 * (e * (B * M))) in S' by ring.
  lra.
Qed.

Lemma sq_le_lin (x y k : R) : 0 <= x -> 0 <= y -> 0 <= k -> x * x <= (k * k) * (y * y) -> x <= k * y.
Proof. intros Hx Hy Hk H. destruct (Rle_dec x (k * y)) as [L|N]; [exact L|]. exfalso.
  assert (P : 0 <= k * y) by (apply Rmult_le_pos; assumption).
  assert (Q : (k * y) * (k * y) < x * x) by (apply Rmult_le_0_lt_compat; lra).
  replace ((k * y) * (k * y)) with (k * k * (y * y)) in Q by ring. lra.
Qed.

(* the identity behind the formula: 4 (q^2 + b q + a c) = m^2 - (b^2 - 4 a c) for q = -(b + m)/2 *)
Lemma q_identity (a b c m : C) :
  let q := ((b + m) * RtoC (- / 2))%C in
  ((C1 + C1 + C1 + C1) * (q * q + b * q + a * c))%C = (m * m - qdisc a b c)%C.
Proof.
  intros q. unfold q, qdisc. rewrite RtoC_mhalf, RtoC_INR4. field. exact C2_neq0.
Qed.

Lemma Cmod_4 : Cmod (C1 + C1 + C1 + C1)%C = 4.
Proof. rewrite <- RtoC_INR4. apply Cmod_INR4. Qed.

(* 2.4  residual of the two candidates  (q / a) rho  and  (c / q) rho,  rho a product of factors 1 + d *)
Lemma res_root0 (a b c q rho : C) (X : R) : a <> C0 -> near rho X -> X <= 2 ->
  let x := (q / a * rho)%C in
  let Q := Cmod q * Cmod q in let B := Cmod b * Cmod q in let A := Cmod a * Cmod c in
  Cmod a * Cmod (qval a b c x) <= Cmod (q * q + b * q + a * c)%C + Q * (X * X - 1) + B * (X - 1) /\
  Q * ((2 - X) * (2 - X)) + B * (2 - X) + A <= Cmod a * qsize a b c x.
Proof.
  intros Ha Hr HX x Q B A. split.
  - rewrite <- Cmod_mult.
    replace (a * qval a b c x)%C
      with ((q * q + b * q + a * c) + (q * q) * (rho * rho - C1) + (b * q) * (rho - C1))%C
      by (unfold qval, x; field; exact Ha).
    eapply Rle_trans; [apply Cmod_tri3|].
    pose proof (near_mul _ _ _ _ Hr Hr) as Hrr. unfold near in Hr, Hrr.
    rewrite !Cmod_mult. fold Q B.
    assert (0 <= Q) by (unfold Q; apply Rle_0_sqr).
    assert (0 <= B) by (unfold B; apply Rmult_le_pos; apply Cmod_ge_0).
    assert (Q * Cmod (rho * rho - C1)%C <= Q * (X * X - 1)) by (apply Rmult_le_compat_l; assumption).
    assert (B * Cmod (rho - C1)%C <= B * (X - 1)) by (apply Rmult_le_compat_l; assumption).
    lra.
  - pose proof (near_lo _ _ Hr) as L. set (r := Cmod rho) in *.
    assert (Pa : 0 < Cmod a) by (now apply Cmod_gt_0).
    assert (Ex : Cmod x = Cmod q / Cmod a * r).
    { unfold x. rewrite Cmod_mult, Cmod_div by exact Ha. reflexivity. }
    unfold qsize. rewrite Ex.
    replace (Cmod a * (Cmod a * (Cmod q / Cmod a * r) * (Cmod q / Cmod a * r) + Cmod b * (Cmod q / Cmod a * r) + Cmod c))
      with (Q * (r * r) + B * r + A) by (unfold Q, B, A; field; lra).
    assert (0 <= Q) by (unfold Q; apply Rle_0_sqr).
    assert (0 <= B) by (unfold B; apply Rmult_le_pos; apply Cmod_ge_0).
    assert ((2 - X) * (2 - X) <= r * r) by (apply Rmult_le_compat; lra).
    assert (Q * ((2 - X) * (2 - X)) <= Q * (r * r)) by (apply Rmult_le_compat_l; assumption).
    assert (B * (2 - X) <= B * r) by (apply Rmult_le_compat_l; assumption).
    lra.
Qed.

Lemma res_root1 (a b c q rho : C) (X : R) : q <> C0 -> near rho X -> X <= 2 ->
  let x := (c / q * rho)%C in
  let Q := Cmod q * Cmod q in let B := Cmod b * Cmod q in let A := Cmod a * Cmod c in
  Q * Cmod (qval a b c x) <= Cmod c * (Cmod (q * q + b * q + a * c)%C + A * (X * X - 1) + B * (X - 1)) /\
  Cmod c * (A * ((2 - X) * (2 - X)) + B * (2 - X) + Q) <= Q * qsize a b c x.
Proof.
  intros Hq Hr HX x Q B A. split.
  - unfold Q. rewrite <- !Cmod_mult.
    replace (q * q * qval a b c x)%C
      with (c * ((q * q + b * q + a * c) + (a * c) * (rho * rho - C1) + (b * q) * (rho - C1)))%C
      by (unfold qval, x; field; exact Hq).
    rewrite Cmod_mult. apply Rmult_le_compat_l; [apply Cmod_ge_0|].
    eapply Rle_trans; [apply Cmod_tri3|].
    pose proof (near_mul _ _ _ _ Hr Hr) as Hrr. unfold near in Hr, Hrr.
    rewrite !Cmod_mult. fold B A.
    assert (0 <= A) by (unfold A; apply Rmult_le_pos; apply Cmod_ge_0).
    assert (0 <= B) by (unfold B; apply Rmult_le_pos; apply Cmod_ge_0).
    assert (A * Cmod (rho * rho - C1)%C <= A * (X * X - 1)) by (apply Rmult_le_compat_l; assumption).
    assert (B * Cmod (rho - C1)%C <= B * (X - 1)) by (apply Rmult_le_compat_l; assumption).
    lra.
  - pose proof (near_lo _ _ Hr) as L. set (r := Cmod rho) in *.
    assert (Pq : 0 < Cmod q) by (now apply Cmod_gt_0).
    assert (Ex : Cmod x = Cmod c / Cmod q * r).
    { unfold x. rewrite Cmod_mult, Cmod_div by exact Hq. reflexivity. }
    unfold qsize. rewrite Ex.
    replace (Q * (Cmod a * (Cmod c / Cmod q * r) * (Cmod c / Cmod q * r) + Cmod b * (Cmod c / Cmod q * r) + Cmod c))
      with (Cmod c * (A * (r * r) + B * r + Q)) by (unfold Q, B, A; field; lra).
    apply Rmult_le_compat_l; [apply Cmod_ge_0|].
    assert (0 <= A) by (unfold A; apply Rmult_le_pos; apply Cmod_ge_0).
    assert (0 <= B) by (unfold B; apply Rmult_le_pos; apply Cmod_ge_0).
    assert ((2 - X) * (2 - X) <= r * r) by (apply Rmult_le_compat; lra).
    assert (A * ((2 - X) * (2 - X)) <= A * (r * r)) by (apply Rmult_le_compat_l; assumption).
    assert (B * (2 - X) <= B * r) by (apply Rmult_le_compat_l; assumption).
    lra.
Qed.

(* 2.5  E + U (X^2 - 1) + B (X - 1) <= k (U (2 - X)^2 + B (2 - X) + V)  coefficient by coefficient *)
Lemma combine (U B V E h1 h2 X k : R) : 0 <= U -> 0 <= B -> 0 <= V ->
  E <= h1 * U + h2 * V ->
  h1 + (X * X - 1) <= k * ((2 - X) * (2 - X)) -> X - 1 <= k * (2 - X) -> h2 <= k ->
  E + U * (X * X - 1) + B * (X - 1) <= k * (U * ((2 - X) * (2 - X)) + B * (2 - X) + V).
Proof.
  intros HU HB HV HE C1' C2' C3'.
  assert (K1 : U * (h1 + (X * X - 1)) <= U * (k * ((2 - X) * (2 - X)))) by (apply Rmult_le_compat_l; assumption).
  assert (K2 : B * (X - 1) <= B * (k * (2 - X))) by (apply Rmult_le_compat_l; assumption).
  assert (K3 : V * h2 <= V * k) by (apply Rmult_le_compat_l; assumption).
  lra.
Qed.

(* 2.6  the constants, for eps <= 1/100 *)
Lemma numeric_bounds (e : R) : 0 <= e <= / 100 ->
  let X5 := (1 + e) * (1 + e) * (1 + e) * (1 + e) * (1 + e) in
  let Xq := (1 + e * (1 + e)) * (1 + e) * (1 + e) in
  X5 - 1 <= 5.11 * e /\ (X5 - 1) / (1 - e) <= 5.17 * e /\
  Xq * (1 + e) <= 1 + 4.09 * e /\ Xq <= 1 + 3.05 * e /\ (1 + e) * / (2 - Xq) <= 1 + 4.19 * e.
Proof.
  intros He X5 Xq.
  assert (E2 : e * e <= e / 100) by nra.
  assert (H2 : (1 + e) * (1 + e) <= 1 + 2.01 * e) by nra.
  assert (L2 : 1 <= (1 + e) * (1 + e)) by nra.
  assert (H3 : (1 + e) * (1 + e) * (1 + e) <= 1 + 3.0301 * e).
  { revert H2 L2. generalize ((1 + e) * (1 + e)). intros y H2 L2. nra. }
  assert (L3 : 1 <= (1 + e) * (1 + e) * (1 + e)).
  { revert L2. generalize ((1 + e) * (1 + e)). intros y L2. nra. }
  assert (H4 : (1 + e) * (1 + e) * (1 + e) * (1 + e) <= 1 + 4.0605 * e).
  { revert H3 L3. generalize ((1 + e) * (1 + e) * (1 + e)). intros y H3 L3. nra. }
  assert (L4 : 1 <= (1 + e) * (1 + e) * (1 + e) * (1 + e)).
  { revert L3. generalize ((1 + e) * (1 + e) * (1 + e)). intros y L3. nra. }
  assert (H5 : X5 <= 1 + 5.11 * e).
  { unfold X5. revert H4 L4. generalize ((1 + e) * (1 + e) * (1 + e) * (1 + e)). intros y H4 L4. nra. }
  assert (L5 : 1 <= X5).
  { unfold X5. revert L4. generalize ((1 + e) * (1 + e) * (1 + e) * (1 + e)). intros y L4. nra. }
  assert (Ha : 1 + e * (1 + e) <= 1 + 1.01 * e) by nra.
  assert (La : 1 <= 1 + e * (1 + e)) by nra.
  assert (Hq : Xq <= 1 + 3.05 * e).
  { unfold Xq. replace ((1 + e * (1 + e)) * (1 + e) * (1 + e)) with ((1 + e * (1 + e)) * ((1 + e) * (1 + e))) by ring.
    revert H2 L2 Ha La. generalize ((1 + e) * (1 + e)) (1 + e * (1 + e)). intros y z H2 L2 Ha La. nra. }
  assert (Lq : 1 <= Xq).
  { unfold Xq. replace ((1 + e * (1 + e)) * (1 + e) * (1 + e)) with ((1 + e * (1 + e)) * ((1 + e) * (1 + e))) by ring.
    revert L2 La. generalize ((1 + e) * (1 + e)) (1 + e * (1 + e)). intros y z L2 La. nra. }
  split; [lra|]. split.
  { apply (Rmult_le_reg_r (1 - e)); [lra|]. unfold Rdiv. rewrite Rmult_assoc, Rinv_l by lra. nra. }
  split.
  { revert Hq Lq. generalize Xq. intros y Hq Lq. nra. }
  split; [exact Hq|].
  assert (P : 0 < 2 - Xq) by lra.
  apply (Rmult_le_reg_r (2 - Xq)); [exact P|]. rewrite Rmult_assoc, Rinv_l by lra.
  revert Hq Lq P. generalize Xq. intros y Hq Lq P. nra.
Qed.

Lemma numeric_final (e h1 h2 X : R) : 0 <= e <= / 100 ->
  0 <= h1 <= 5.17 * e -> 0 <= h2 <= 5.17 * e -> 1 <= X <= 1 + 4.19 * e ->
  X <= 2 /\ h1 + (X * X - 1) <= 16 * e * ((2 - X) * (2 - X)) /\ X - 1 <= 16 * e * (2 - X) /\ h2 <= 16 * e.
Proof.
  intros He H1 H2 HX.
  assert (A1 : X * X - 1 <= 8.56 * e) by nra.
  assert (A2 : 0.91 <= (2 - X) * (2 - X)) by nra.
  repeat split; try lra; nra.
Qed.

(* ---------------------------------------------------------------- 2.7  residual <-> backward error of ONE root *)
(* |p(x)| <= k (|a||x|^2 + |b||x| + |c|)  iff  x is an exact root of a quadratic whose coefficients are within k, relatively *)
Lemma residual_to_backward (a b c x : C) (k : R) : 0 <= k ->
  Cmod (qval a b c x) <= k * qsize a b c x ->
  exists da db dc : C, Cmod da <= k * Cmod a /\ Cmod db <= k * Cmod b /\ Cmod dc <= k * Cmod c /\
    qval (a + da)%C (b + db)%C (c + dc)%C x = C0.
Proof.
  intros Pk H. set (S := qsize a b c x) in *. set (r := qval a b c x) in *.
  pose proof (Cmod_ge_0 a) as Pa. pose proof (Cmod_ge_0 b) as Pb. pose proof (Cmod_ge_0 c) as Pc.
  pose proof (Cmod_ge_0 x) as Px. pose proof (Cmod_ge_0 r) as Pr.
  assert (PS : 0 <= S).
  { unfold S, qsize. assert (0 <= Cmod a * Cmod x * Cmod x) by (repeat apply Rmult_le_pos; assumption).
    assert (0 <= Cmod b * Cmod x) by (apply Rmult_le_pos; assumption). lra. }
  destruct (Req_EM_T S 0) as [ZS|NS].
  - exists C0, C0, C0. rewrite Cmod_0. repeat split; try nra.
    rewrite ZS, Rmult_0_r in H. assert (Zr : r = C0) by (apply Cmod_eq_0; lra).
    transitivity r; [unfold r, qval; ring | exact Zr].
  - assert (PS' : 0 < S) by lra.
    assert (Q : forall w : R, 0 <= w -> Cmod r * (w / S) <= k * w).
    { intros w Hw. unfold Rdiv. replace (Cmod r * (w * / S)) with (w * (Cmod r * / S)) by ring.
      rewrite (Rmult_comm k). apply Rmult_le_compat_l; [exact Hw|].
      apply (Rmult_le_reg_r S); [exact PS'|]. rewrite Rmult_assoc, Rinv_l by lra. lra. }
    assert (NSC : RtoC S <> C0) by (intros E; apply RtoC_inj in E; lra).
    destruct (Ceq_dec x C0) as [Zx|Nx].
    + exists C0, C0, (- r * RtoC (Cmod c / S))%C. rewrite Cmod_0.
      split; [nra|]. split; [nra|]. split.
      * rewrite Cmod_mult, Cmod_opp, Cmod_R, Rabs_pos_eq.
        -- apply Q. exact Pc.
        -- unfold Rdiv. apply Rmult_le_pos; [exact Pc|]. apply Rlt_le, Rinv_0_lt_compat. exact PS'.
      * assert (ES : S = Cmod c) by (unfold S, qsize; rewrite Zx, Cmod_0; ring).
        assert (Er : r = c) by (unfold r, qval; rewrite Zx; ring).
        unfold qval. rewrite Zx, Er, <- ES. unfold Rdiv. rewrite Rinv_r by lra. ring.
    + assert (Px' : 0 < Cmod x) by (now apply Cmod_gt_0).
      exists (- r * RtoC (Cmod a * Cmod x * Cmod x / S) / (x * x))%C,
             (- r * RtoC (Cmod b * Cmod x / S) / x)%C,
             (- r * RtoC (Cmod c / S))%C.
      assert (Pi : 0 < / S) by (apply Rinv_0_lt_compat; exact PS').
      split; [|split; [|split]].
      * rewrite Cmod_div by (now apply Cmult_neq_0). rewrite !Cmod_mult, Cmod_opp, Cmod_R, Rabs_pos_eq.
        2:{ unfold Rdiv. repeat apply Rmult_le_pos; lra. }
        replace (Cmod r * (Cmod a * Cmod x * Cmod x / S) / (Cmod x * Cmod x)) with (Cmod r * (Cmod a / S)) by (field; lra).
        apply Q. exact Pa.
      * rewrite Cmod_div by exact Nx. rewrite !Cmod_mult, Cmod_opp, Cmod_R, Rabs_pos_eq.
        2:{ unfold Rdiv. repeat apply Rmult_le_pos; lra. }
        replace (Cmod r * (Cmod b * Cmod x / S) / Cmod x) with (Cmod r * (Cmod b / S)) by (field; lra).
        apply Q. exact Pb.
      * rewrite Cmod_mult, Cmod_opp, Cmod_R, Rabs_pos_eq.
        2:{ unfold Rdiv. repeat apply Rmult_le_pos; lra. }
        apply Q. exact Pc.
      * assert (ES : (RtoC (Cmod a * Cmod x * Cmod x / S) + RtoC (Cmod b * Cmod x / S) + RtoC (Cmod c / S))%C = C1).
        { rewrite <- !RtoC_plus. f_equal. unfold S, qsize. field. fold (qsize a b c x). fold S. lra. }
        transitivity (r - r * (RtoC (Cmod a * Cmod x * Cmod x / S) + RtoC (Cmod b * Cmod x / S) + RtoC (Cmod c / S)))%C.
        -- unfold qval, r, qval. field. exact Nx.
        -- rewrite ES. ring.
Qed.

(* 2.8  THE ANALYSIS, relationally: any values bb, a4, ... related to their operands as the roundings of quadratic_solve are.
   [relc eps t s]: t is s to within a normwise relative error eps. *)
Definition relc (eps : R) (t s : C) : Prop := Cmod (t - s)%C <= eps * Cmod s.

Lemma quad_core_rel (eps : R) (a b c bb a4 ac4 dh sh pr m' th q : C) :
  0 <= eps <= / 100 ->
  relc eps bb (b * b)%C -> relc eps a4 (a * RtoC (INR 4))%C -> relc eps ac4 (a4 * c)%C -> relc eps dh (bb - ac4)%C ->
  (exists w : C, (w * w)%C = dh /\ relc eps sh w) -> relc eps pr (Cconj b * sh)%C ->
  let sg := if (if Rle_dec 0 (fst pr) then true else false) then 1 else Ropp 1 in
  relc eps m' (sh * RtoC sg)%C -> relc eps th (b + m')%C -> relc eps q (th * RtoC (- / 2))%C ->
  let X5 := (1 + eps) * (1 + eps) * (1 + eps) * (1 + eps) * (1 + eps) in
  let Xq := (1 + eps * (1 + eps)) * (1 + eps) * (1 + eps) in
  let qx := ((b + sh * RtoC sg) * RtoC (- / 2))%C in
  (sg = 1 \/ sg = Ropp 1) /\
  Cmod (sh * sh - qdisc a b c)%C <= (X5 - 1) * (Cmod b * Cmod b + 4 * (Cmod a * Cmod c)) /\
  (1 - eps) * (Cmod b * Cmod b + Cmod sh * Cmod sh) <= 4 * (Cmod qx * Cmod qx) /\
  exists rho : C, q = (qx * rho)%C /\ near rho Xq /\
    Cmod (qx * qx + b * qx + a * c)%C
      <= (X5 - 1) / (1 - eps) * (Cmod qx * Cmod qx) + (X5 - 1) * (Cmod a * Cmod c).
Proof.
  intros [eps_nonneg He] Hbb Ha4 Hac4 Hdh (w & Ew & Hw) Hpr sg Hm Hth Hq X5 Xq qx. unfold relc in *.
  (* the discriminant and its square root *)
  destruct (rel_mult eps _ _ eps_nonneg Hbb) as (d1 & D1 & E1).
  destruct (rel_mult eps _ _ eps_nonneg Ha4) as (d2 & D2 & E2).
  destruct (rel_mult eps _ _ eps_nonneg Hac4) as (d3 & D3 & E3).
  destruct (rel_mult eps _ _ eps_nonneg Hdh) as (d4 & D4 & E4).
  destruct (rel_mult eps _ _ eps_nonneg Hw) as (d5 & D5 & E5).
  pose proof (disc_err eps a b c bb a4 ac4 dh w sh d1 d2 d3 d4 d5 eps_nonneg D1 D2 D3 D4 D5 E1 E2 E3 E4 Ew E5) as HD.
  cbv zeta in HD. fold X5 in HD.
  (* the sign *)
  destruct (sign_no_cancel eps b sh pr eps_nonneg Hpr) as [Hsg Hre]. fold sg in Hsg, Hre.
  set (m := (sh * RtoC sg)%C) in *.
  assert (Emm : (m * m)%C = (sh * sh)%C).
  { unfold m. destruct Hsg as [-> | ->]; [ring | rewrite RtoC_opp; ring]. }
  assert (Mm : Cmod m = Cmod sh).
  { unfold m. rewrite Cmod_mult, Cmod_R. destruct Hsg as [-> | ->].
    - rewrite Rabs_R1. ring.
    - rewrite Rabs_Ropp, Rabs_R1. ring. }
  rewrite <- Mm in Hre.
  assert (Her : 0 <= eps < 1) by lra.
  pose proof (no_cancel_bounds eps b m Her Hre) as NC.
  set (t := (b + m)%C) in *.
  assert (Mq : Cmod t = 2 * Cmod qx).
  { unfold qx. rewrite Cmod_mult, Cmod_mhalf. field. }
  pose proof (Cmod_ge_0 b) as Pb. pose proof (Cmod_ge_0 m) as Pm. pose proof (Cmod_ge_0 t) as Pt.
  pose proof (Cmod_ge_0 qx) as Pq. pose proof (Cmod_ge_0 a) as Pa. pose proof (Cmod_ge_0 c) as Pc.
  (* E *)
  assert (HE : Cmod (qx * qx + b * qx + a * c)%C
               <= (X5 - 1) / (1 - eps) * (Cmod qx * Cmod qx) + (X5 - 1) * (Cmod a * Cmod c)).
  { pose proof (q_identity a b c m) as QI. cbv zeta in QI. fold t in QI. fold qx in QI.
    assert (K : 4 * Cmod (qx * qx + b * qx + a * c)%C = Cmod (sh * sh - qdisc a b c)%C).
    { rewrite <- Emm, <- QI, Cmod_mult, Cmod_4. reflexivity. }
    assert (X5pos : 0 <= X5 - 1).
    { pose proof (Cmod_ge_0 (sh * sh - qdisc a b c)%C).
      destruct (Rle_dec 0 (X5 - 1)) as [L|N]; [exact L|]. exfalso.
      unfold X5 in N. assert (1 <= (1 + eps) * (1 + eps)) by nra.
      assert (1 <= (1 + eps) * (1 + eps) * (1 + eps)) by nra.
      assert (1 <= (1 + eps) * (1 + eps) * (1 + eps) * (1 + eps)) by nra. nra. }
    assert (Bq : Cmod b * Cmod b <= 4 * (Cmod qx * Cmod qx) / (1 - eps)).
    { apply (Rmult_le_reg_r (1 - eps)); [lra|].
      replace (4 * (Cmod qx * Cmod qx) / (1 - eps) * (1 - eps)) with (4 * (Cmod qx * Cmod qx)) by (field; lra).
      rewrite Mq in NC. assert (0 <= Cmod m * Cmod m) by apply Rle_0_sqr. nra. }
    assert (K2 : (X5 - 1) * (Cmod b * Cmod b) <= (X5 - 1) * (4 * (Cmod qx * Cmod qx) / (1 - eps)))
      by (apply Rmult_le_compat_l; assumption).
    replace ((X5 - 1) / (1 - eps) * (Cmod qx * Cmod qx)) with ((X5 - 1) * (4 * (Cmod qx * Cmod qx) / (1 - eps)) / 4)
      by (field; lra).
    lra. }
  (* the rounded sum and the scaling by -1/2 *)
  destruct (rel_mult eps _ _ eps_nonneg Hm) as (d6 & D6 & E6). fold m in E6.
  destruct (rel_mult eps _ _ eps_nonneg Hth) as (d7 & D7 & E7).
  destruct (rel_mult eps _ _ eps_nonneg Hq) as (d8 & D8 & E8).
  assert (HA : exists ra : C, near ra (1 + eps * (1 + eps)) /\ (b + m * (C1 + d6))%C = (t * ra)%C).
  { destruct (Ceq_dec t C0) as [Z|NZ].
    - exists C1. split; [eapply near_mono; [apply near_1|nra]|].
      rewrite Z, Cmod_0 in NC.
      assert (Zb : Cmod b = 0) by nra. assert (Zm : Cmod m = 0) by nra.
      apply Cmod_eq_0 in Zb, Zm. rewrite Z, Zb, Zm. ring.
    - exists (C1 + m * d6 / t)%C. split; [|unfold t; field; exact NZ].
      apply near_1pd. rewrite Cmod_div, Cmod_mult by exact NZ.
      assert (Pt' : 0 < Cmod t) by (now apply Cmod_gt_0).
      assert (Lm : Cmod m <= (1 + eps) * Cmod t).
      { apply sq_le_lin; try lra.
        assert (0 <= Cmod b * Cmod b) by apply Rle_0_sqr.
        assert (G : 1 <= (1 + eps) * (1 + eps) * (1 - eps)) by nra.
        assert (0 <= Cmod t * Cmod t) by apply Rle_0_sqr.
        assert (G2 : Cmod t * Cmod t <= ((1 + eps) * (1 + eps) * (1 - eps)) * (Cmod t * Cmod t)) by nra.
        nra. }
      apply (Rmult_le_reg_r (Cmod t)); [exact Pt'|]. unfold Rdiv. rewrite Rmult_assoc, Rinv_l by lra.
      pose proof (Cmod_ge_0 d6). nra. }
  destruct HA as (ra & Nra & Era).
  split; [exact Hsg|]. split; [exact HD|].
  split; [rewrite <- Mm; rewrite Mq in NC; lra|].
  exists (ra * (C1 + d7) * (C1 + d8))%C.
  split; [|split; [|exact HE]].
  - rewrite E8, E7, E6, Era. unfold qx. ring.
  - unfold Xq. repeat apply near_mul; try assumption; apply near_1pd; assumption.
Qed.

(* ---------------------------------------------------------------- 3. the arithmetic, and the model in it *)
Section RoundArith.
Variable eps : R.
Hypothesis eps_nonneg : 0 <= eps.

(* NOT used by the closed forms of degree <= 2: arbitrary, no hypothesis *)
Variables (radd rsub rmul rdiv : R -> R -> R) (rsqrt : R -> R) (rfr : list R).
Variables (kabs_ : C -> R) (kabsA : C -> C) (kdivr_ : C -> R -> C) (kltb_ kleb_ : C -> C -> bool).
Variables (fpow : C -> C -> C) (fpolar : R -> R -> C).

(* the rounded complex operations *)
Variables (fadd fsub fmul fdiv : C -> C -> C) (fscale : C -> R -> C) (fsqrt : C -> C).
Hypothesis fadd_ok : forall x y : C, Cmod (fadd x y - (x + y))%C <= eps * Cmod (x + y)%C.
Hypothesis fsub_ok : forall x y : C, Cmod (fsub x y - (x - y))%C <= eps * Cmod (x - y)%C.
Hypothesis fmul_ok : forall x y : C, Cmod (fmul x y - x * y)%C <= eps * Cmod (x * y)%C.
Hypothesis fdiv_ok : forall x y : C, y <> C0 -> Cmod (fdiv x y - x / y)%C <= eps * Cmod (x / y)%C.
Hypothesis fscale_ok : forall (z : C) (r : R), Cmod (fscale z r - z * RtoC r)%C <= eps * Cmod (z * RtoC r)%C.
Hypothesis fsqrt_ok : forall z : C, exists w : C, (w * w)%C = z /\ Cmod (fsqrt z - w)%C <= eps * Cmod w.

(* f64: only the literals, negation and the comparisons are used (exact in IEEE arithmetic) *)
Definition RRm : SArith := {|
  SA := {| T := R; zero := 0; one := 1; add := radd; sub := rsub; mul := rmul; neg := Ropp; abs := Rabs;
           div := fun x y => Ok (rdiv x y);
           eqb := fun x y => if Req_EM_T x y then true else false;
           ltb := fun x y => if Rlt_dec x y then true else false;
           leb := fun x y => if Rle_dec x y then true else false |};
  sqrt := rsqrt; of_nat := INR |}.

(* Complex<f64>: + - * / rounded; negation and == exact *)
Definition KKm : Arith := {|
  T := C; zero := C0; one := C1; add := fadd; sub := fsub; mul := fmul; neg := Copp; abs := kabsA;
  div := fun x y => Ok (fdiv x y);
  eqb := fun x y => if Ceq_dec x y then true else false;
  ltb := kltb_; leb := kleb_ |}.

Definition RoundRA : RootArith := {|
  RR := RRm; KK := KKm;
  mkk := fun x y => (x, y); kre := fst; kim := snd; kabs := kabs_; kconj := Cconj;
  kmulr := fscale; kdivr := fun z r => Ok (kdivr_ z r);
  rfabs := Rabs; rmax := Rmax; rhalf := / 2; reps := eps; rfrac := rfr;
  kfinite := fun _ => true; rfinite := fun _ => true;
  osqrt := fun z => Ok (fsqrt z); opow := fun z w => Ok (fpow z w); opolar := fun r th => Ok (fpolar r th) |}.

(* the values the model computes *)
Definition q_disc (a b c : C) : C := fsub (fmul b b) (fmul (fscale a (INR 4)) c).
Definition q_sgn (a b c : C) : R :=
  if (if Rle_dec 0 (fst (fmul (Cconj b) (fsqrt (q_disc a b c)))) then true else false) then 1 else Ropp 1.
Definition q_q (a b c : C) : C := fscale (fadd b (fscale (fsqrt (q_disc a b c)) (q_sgn a b c))) (Ropp (/ 2)).

Lemma quadratic_solve_round_eq (a b c : C) :
  quadratic_solve RoundRA a b c =
  Ok [fdiv (q_q a b c) a; if Ceq_dec (q_q a b c) C0 then fdiv (q_q a b c) a else fdiv c (q_q a b c)].
Proof.
  unfold quadratic_solve, quadratic_solve_gen.
  cbn [osqrt RoundRA bind kmulr kre kconj rhalf KK RR SA rlit of_nat andb KKm RRm sub mul add neg div eqb leb zero one T].
  fold (q_disc a b c). fold (q_sgn a b c). fold (q_q a b c).
  destruct (Ceq_dec (q_q a b c) C0); reflexivity.
Qed.

(* 3.1  the computed q is  qx * rho  with qx = -(b + sg sh)/2 for a square root sh of a slightly wrong discriminant *)
Lemma quad_core (a b c : C) : eps <= / 100 ->
  let X5 := (1 + eps) * (1 + eps) * (1 + eps) * (1 + eps) * (1 + eps) in
  let Xq := (1 + eps * (1 + eps)) * (1 + eps) * (1 + eps) in
  exists (sh : C) (sg : R) (qx rho : C),
    (sg = 1 \/ sg = Ropp 1) /\ qx = ((b + sh * RtoC sg) * RtoC (- / 2))%C /\
    Cmod (sh * sh - qdisc a b c)%C <= (X5 - 1) * (Cmod b * Cmod b + 4 * (Cmod a * Cmod c)) /\
    (1 - eps) * (Cmod b * Cmod b + Cmod sh * Cmod sh) <= 4 * (Cmod qx * Cmod qx) /\
    q_q a b c = (qx * rho)%C /\ near rho Xq /\
    Cmod (qx * qx + b * qx + a * c)%C
      <= (X5 - 1) / (1 - eps) * (Cmod qx * Cmod qx) + (X5 - 1) * (Cmod a * Cmod c) /\
    sh = fsqrt (q_disc a b c) /\ sg = q_sgn a b c.
Proof.
  intros He X5 Xq.
  destruct (quad_core_rel eps a b c (fmul b b) (fscale a (INR 4)) (fmul (fscale a (INR 4)) c) (q_disc a b c)
              (fsqrt (q_disc a b c)) (fmul (Cconj b) (fsqrt (q_disc a b c)))
              (fscale (fsqrt (q_disc a b c)) (q_sgn a b c)) (fadd b (fscale (fsqrt (q_disc a b c)) (q_sgn a b c))) (q_q a b c)
              (conj eps_nonneg He) (fmul_ok b b) (fscale_ok a (INR 4)) (fmul_ok _ c) (fsub_ok _ _) (fsqrt_ok _)
              (fmul_ok (Cconj b) _) (fscale_ok _ _) (fadd_ok b _) (fscale_ok _ (- / 2)))
    as (Hsg & HD & NC & rho & Eq & Hr & HE).
  exists (fsqrt (q_disc a b c)), (q_sgn a b c), ((b + fsqrt (q_disc a b c) * RtoC (q_sgn a b c)) * RtoC (- / 2))%C, rho.
  repeat split; try assumption; reflexivity.
Qed.


(* 3.2  the residual of the two returned values *)
Lemma root0_bound (a b c qx rho d : C) : a <> C0 -> eps <= / 100 ->
  let X5 := (1 + eps) * (1 + eps) * (1 + eps) * (1 + eps) * (1 + eps) in
  let Xq := (1 + eps * (1 + eps)) * (1 + eps) * (1 + eps) in
  near rho Xq ->
  Cmod (qx * qx + b * qx + a * c)%C <= (X5 - 1) / (1 - eps) * (Cmod qx * Cmod qx) + (X5 - 1) * (Cmod a * Cmod c) ->
  Cmod d <= eps ->
  Cmod (qval a b c (qx * rho / a * (C1 + d))%C) <= 16 * eps * qsize a b c (qx * rho / a * (C1 + d))%C.
Proof.
  intros Ha He X5 Xq Hr HE Hd.
  destruct (numeric_bounds eps (conj eps_nonneg He)) as (N1 & N2 & N3 & N4 & N5). fold X5 Xq in N1, N2, N3, N4, N5.
  assert (Hr0 : near (rho * (C1 + d))%C (1 + 4.19 * eps)).
  { eapply near_mono; [apply near_mul; [exact Hr|apply near_1pd; exact Hd]|]. lra. }
  replace (qx * rho / a * (C1 + d))%C with (qx / a * (rho * (C1 + d)))%C by (field; exact Ha).
  set (X := 1 + 4.19 * eps) in *.
  assert (X5pos : 0 <= X5 - 1).
  { pose proof (near_ge1 _ _ Hr). unfold X5. assert (1 <= (1 + eps) * (1 + eps)) by nra.
    assert (1 <= (1 + eps) * (1 + eps) * (1 + eps)) by nra.
    assert (1 <= (1 + eps) * (1 + eps) * (1 + eps) * (1 + eps)) by nra. nra. }
  assert (H1pos : 0 <= (X5 - 1) / (1 - eps)).
  { unfold Rdiv. apply Rmult_le_pos; [exact X5pos|]. apply Rlt_le, Rinv_0_lt_compat. lra. }
  destruct (numeric_final eps ((X5 - 1) / (1 - eps)) (X5 - 1) X (conj eps_nonneg He)) as (F0 & F1 & F2 & F3);
    [lra | lra | unfold X; lra |].
  destruct (res_root0 a b c qx _ X Ha Hr0 F0) as [R1 R2]. cbv zeta in R1, R2.
  set (x := (qx / a * (rho * (C1 + d)))%C) in *.
  set (Q := Cmod qx * Cmod qx) in *. set (B := Cmod b * Cmod qx) in *. set (A := Cmod a * Cmod c) in *.
  assert (PQ : 0 <= Q) by (unfold Q; apply Rle_0_sqr).
  assert (PB : 0 <= B) by (unfold B; apply Rmult_le_pos; apply Cmod_ge_0).
  assert (PA : 0 <= A) by (unfold A; apply Rmult_le_pos; apply Cmod_ge_0).
  pose proof (combine Q B A _ _ _ X (16 * eps) PQ PB PA HE F1 F2 F3) as K.
  assert (Pa : 0 < Cmod a) by (now apply Cmod_gt_0).
  apply (Rmult_le_reg_l (Cmod a)); [exact Pa|].
  assert (K2 : 16 * eps * (Q * ((2 - X) * (2 - X)) + B * (2 - X) + A) <= 16 * eps * (Cmod a * qsize a b c x)).
  { apply Rmult_le_compat_l; [lra|exact R2]. }
  lra.
Qed.

Lemma root1_bound (a b c qx rho d : C) : qx <> C0 -> eps <= / 100 ->
  let X5 := (1 + eps) * (1 + eps) * (1 + eps) * (1 + eps) * (1 + eps) in
  let Xq := (1 + eps * (1 + eps)) * (1 + eps) * (1 + eps) in
  near rho Xq ->
  Cmod (qx * qx + b * qx + a * c)%C <= (X5 - 1) / (1 - eps) * (Cmod qx * Cmod qx) + (X5 - 1) * (Cmod a * Cmod c) ->
  Cmod d <= eps ->
  Cmod (qval a b c (c / (qx * rho) * (C1 + d))%C) <= 16 * eps * qsize a b c (c / (qx * rho) * (C1 + d))%C.
Proof.
  intros Hq He X5 Xq Hr HE Hd.
  destruct (numeric_bounds eps (conj eps_nonneg He)) as (N1 & N2 & N3 & N4 & N5). fold X5 Xq in N1, N2, N3, N4, N5.
  assert (Xq2 : Xq < 2) by lra.
  pose proof (near_nz _ _ Hr Xq2) as Hrho.
  assert (Hr1 : near ((C1 + d) * / rho)%C (1 + 4.19 * eps)).
  { eapply near_mono; [apply near_mul; [apply near_1pd; exact Hd|apply near_inv; [exact Hr|exact Xq2]]|]. lra. }
  replace (c / (qx * rho) * (C1 + d))%C with (c / qx * ((C1 + d) * / rho))%C by (field; split; assumption).
  set (X := 1 + 4.19 * eps) in *.
  assert (X5pos : 0 <= X5 - 1).
  { pose proof (near_ge1 _ _ Hr). unfold X5. assert (1 <= (1 + eps) * (1 + eps)) by nra.
    assert (1 <= (1 + eps) * (1 + eps) * (1 + eps)) by nra.
    assert (1 <= (1 + eps) * (1 + eps) * (1 + eps) * (1 + eps)) by nra. nra. }
  assert (H1pos : 0 <= (X5 - 1) / (1 - eps)).
  { unfold Rdiv. apply Rmult_le_pos; [exact X5pos|]. apply Rlt_le, Rinv_0_lt_compat. lra. }
  destruct (numeric_final eps (X5 - 1) ((X5 - 1) / (1 - eps)) X (conj eps_nonneg He)) as (F0 & F1 & F2 & F3);
    [lra | lra | unfold X; lra |].
  destruct (res_root1 a b c qx _ X Hq Hr1 F0) as [R1 R2]. cbv zeta in R1, R2.
  set (x := (c / qx * ((C1 + d) * / rho))%C) in *.
  set (Q := Cmod qx * Cmod qx) in *. set (B := Cmod b * Cmod qx) in *. set (A := Cmod a * Cmod c) in *.
  assert (PQ : 0 <= Q) by (unfold Q; apply Rle_0_sqr).
  assert (PB : 0 <= B) by (unfold B; apply Rmult_le_pos; apply Cmod_ge_0).
  assert (PA : 0 <= A) by (unfold A; apply Rmult_le_pos; apply Cmod_ge_0).
  assert (HE' : Cmod (qx * qx + b * qx + a * c)%C <= (X5 - 1) * A + (X5 - 1) / (1 - eps) * Q) by lra.
  pose proof (combine A B Q _ _ _ X (16 * eps) PA PB PQ HE' F1 F2 F3) as K.
  assert (Pq : 0 < Cmod qx) by (now apply Cmod_gt_0).
  assert (PQ' : 0 < Q) by (unfold Q; apply Rmult_lt_0_compat; exact Pq).
  apply (Rmult_le_reg_l Q); [exact PQ'|].
  pose proof (Cmod_ge_0 c) as Pc.
  assert (K1 : Cmod c * (Cmod (qx * qx + b * qx + a * c)%C + A * (X * X - 1) + B * (X - 1))
               <= Cmod c * (16 * eps * (A * ((2 - X) * (2 - X)) + B * (2 - X) + Q))).
  { apply Rmult_le_compat_l; assumption. }
  assert (K2 : 16 * eps * (Cmod c * (A * ((2 - X) * (2 - X)) + B * (2 - X) + Q)) <= 16 * eps * (Q * qsize a b c x)).
  { apply Rmult_le_compat_l; [lra|exact R2]. }
  lra.
Qed.

(* 3.3  the model *)
Theorem quadratic_residual_lemma (a b c : C) : a <> C0 -> eps <= / 100 ->
  exists r0 r1 : C, quadratic_solve RoundRA a b c = Ok [r0; r1] /\
    forall x : C, x = r0 \/ x = r1 -> Cmod (qval a b c x) <= 16 * eps * qsize a b c x.
Proof.
  intros Ha He. rewrite quadratic_solve_round_eq.
  destruct (quad_core a b c He) as (sh & sg & qx & rho & _ & _ & _ & _ & Eq & Hr & HE & _ & _).
  destruct (rel_mult eps _ _ eps_nonneg (fdiv_ok (q_q a b c) a Ha)) as (d9 & D9 & E9).
  assert (B0 : Cmod (qval a b c (fdiv (q_q a b c) a)) <= 16 * eps * qsize a b c (fdiv (q_q a b c) a)).
  { rewrite E9, Eq. apply root0_bound; assumption. }
  do 2 eexists. split; [reflexivity|]. intros x [-> | ->]; [exact B0|].
  destruct (Ceq_dec (q_q a b c) C0) as [Z|NZ]; [exact B0|].
  destruct (rel_mult eps _ _ eps_nonneg (fdiv_ok c (q_q a b c) NZ)) as (d10 & D10 & E10).
  rewrite E10, Eq. apply root1_bound; try assumption.
  intros Zq. apply NZ. rewrite Eq, Zq. ring.
Qed.


(* 3.4  the repaired branch q == 0: taken exactly when b = c = 0, and then both returned values are 0 *)
Lemma rel0 (t : C) : Cmod (t - C0)%C <= eps * Cmod C0 -> t = C0.
Proof. rewrite Cmod_0, Rmult_0_r. apply Cmod_sub_0. Qed.

Lemma fmul_0_l (y : C) : fmul C0 y = C0.
Proof. apply rel0. replace C0 with (C0 * y)%C at 2 3 by ring. apply fmul_ok. Qed.
Lemma fmul_0_r (x : C) : fmul x C0 = C0.
Proof. apply rel0. replace C0 with (x * C0)%C at 2 3 by ring. apply fmul_ok. Qed.
Lemma fscale_0 (r : R) : fscale C0 r = C0.
Proof. apply rel0. replace C0 with (C0 * RtoC r)%C at 2 3 by ring. apply fscale_ok. Qed.
Lemma fdiv_0 (y : C) : y <> C0 -> fdiv C0 y = C0.
Proof. intros H. apply rel0. replace C0 with (C0 / y)%C at 2 3 by (field; exact H). now apply fdiv_ok. Qed.
Lemma fadd_0 : fadd C0 C0 = C0.
Proof. apply rel0. replace C0 with (C0 + C0)%C at 3 4 by ring. apply fadd_ok. Qed.
Lemma fsub_0 : fsub C0 C0 = C0.
Proof. apply rel0. replace C0 with (C0 - C0)%C at 3 4 by ring. apply fsub_ok. Qed.
Lemma fsqrt_0 : fsqrt C0 = C0.
Proof.
  destruct (fsqrt_ok C0) as (w & Ew & Hw).
  assert (Zw : w = C0).
  { apply Cmod_eq_0. assert (K : Cmod w * Cmod w = 0) by (rewrite <- Cmod_mult, Ew; apply Cmod_0).
    pose proof (Cmod_ge_0 w). nra. }
  subst w. now apply rel0.
Qed.

Theorem quadratic_q0_round_lemma (a b c : C) : a <> C0 -> eps <= / 100 ->
  (q_q a b c = C0 <-> b = C0 /\ c = C0) /\
  (q_q a b c = C0 -> quadratic_solve RoundRA a b c = Ok [C0; C0]).
Proof.
  intros Ha He.
  assert (Dir : q_q a b c = C0 -> b = C0 /\ c = C0).
  { intros Zq. destruct (quad_core a b c He) as (sh & sg & qx & rho & _ & _ & _ & NC & Eq & Hr & HE & _ & _).
    destruct (numeric_bounds eps (conj eps_nonneg He)) as (N1 & N2 & N3 & N4 & N5).
    assert (Zx : qx = C0).
    { destruct (Ceq_dec qx C0) as [Z|NZ]; [exact Z|]. exfalso.
      assert (Hrho : rho <> C0) by (apply (near_nz _ _ Hr); lra).
      apply (Cmult_neq_0 _ _ NZ Hrho). now rewrite <- Eq. }
    rewrite Zx in HE, NC. rewrite Cmod_0 in HE, NC.
    replace (C0 * C0 + b * C0 + a * c)%C with (a * c)%C in HE by ring. rewrite Cmod_mult in HE.
    pose proof (Cmod_ge_0 b). pose proof (Cmod_ge_0 c). pose proof (Cmod_ge_0 sh).
    assert (Pa : 0 < Cmod a) by (now apply Cmod_gt_0).
    assert (Pac : 0 <= Cmod a * Cmod c) by (apply Rmult_le_pos; lra).
    split; apply Cmod_eq_0.
    - assert (0 <= Cmod sh * Cmod sh) by apply Rle_0_sqr. nra.
    - assert (Cmod a * Cmod c <= 0) by nra. nra. }
  assert (Rev : b = C0 /\ c = C0 -> q_q a b c = C0).
  { intros [-> ->]. unfold q_q, q_sgn, q_disc.
    rewrite fmul_0_l, fmul_0_r, fsub_0, fsqrt_0, fscale_0, fadd_0. apply fscale_0. }
  split; [split; assumption|].
  intros Zq. rewrite quadratic_solve_round_eq, Zq.
  destruct (Ceq_dec C0 C0) as [_|N]; [|now contradiction N]. now rewrite (fdiv_0 a Ha).
Qed.

(* 3.5  the product of the two returned values: c / a to within two roundings *)
Lemma quadratic_product_lemma (a b c : C) : a <> C0 -> q_q a b c <> C0 ->
  exists r0 r1 d : C, quadratic_solve RoundRA a b c = Ok [r0; r1] /\
    Cmod d <= 2 * eps + eps * eps /\ (r0 * r1)%C = (c / a * (C1 + d))%C.
Proof.
  intros Ha Hq. rewrite quadratic_solve_round_eq.
  destruct (Ceq_dec (q_q a b c) C0) as [Z|_]; [contradiction|].
  destruct (rel_mult eps _ _ eps_nonneg (fdiv_ok (q_q a b c) a Ha)) as (d9 & D9 & E9).
  destruct (rel_mult eps _ _ eps_nonneg (fdiv_ok c (q_q a b c) Hq)) as (d10 & D10 & E10).
  exists (fdiv (q_q a b c) a), (fdiv c (q_q a b c)), (d9 + d10 + d9 * d10)%C.
  split; [reflexivity|]. split.
  - eapply Rle_trans; [apply Cmod_tri3|]. rewrite Cmod_mult.
    pose proof (Cmod_ge_0 d9). pose proof (Cmod_ge_0 d10). nra.
  - rewrite E9, E10. field. split; assumption.
Qed.

(* 3.6  degree 1 and 2 through poly_solve (refine = false: no polishing) *)
Lemma poly_solve_deg2_eq (a b c : C) :
  poly_solve RoundRA [c; b; a] false = (let* rs := quadratic_solve RoundRA a b c in Ok (rs, [])).
Proof.
  unfold poly_solve. cbn [length usub Nat.leb Nat.sub bind Nat.eqb Nat.ltb repeat rd nth_error].
  rewrite quadratic_solve_round_eq. reflexivity.
Qed.

Theorem linear_root_backward_lemma (c0 c1 : C) : c1 <> C0 ->
  exists r d : C, poly_solve RoundRA [c0; c1] false = Ok ([r], []) /\
    Cmod d <= eps /\ (c1 * r + c0 * (C1 + d))%C = C0.
Proof.
  intros H1.
  destruct (rel_mult eps _ _ eps_nonneg (fdiv_ok (- c0)%C c1 H1)) as (d & Hd & E).
  exists (fdiv (- c0)%C c1), d. split; [reflexivity|]. split; [exact Hd|].
  rewrite E. field. exact H1.
Qed.

Theorem roots_deg2_residual_lemma (a b c : C) : a <> C0 -> eps <= / 100 ->
  exists r0 r1 : C, poly_solve RoundRA [c; b; a] false = Ok ([r0; r1], []) /\
    forall x : C, x = r0 \/ x = r1 -> Cmod (qval a b c x) <= 16 * eps * qsize a b c x.
Proof.
  intros Ha He. destruct (quadratic_residual_lemma a b c Ha He) as (r0 & r1 & E & H).
  exists r0, r1. split; [|exact H]. rewrite poly_solve_deg2_eq, E. reflexivity.
Qed.

(* 3.7  each returned value is an exact root of a nearby quadratic *)
Theorem quadratic_backward_lemma (a b c : C) : a <> C0 -> eps <= / 100 ->
  exists r0 r1 : C, poly_solve RoundRA [c; b; a] false = Ok ([r0; r1], []) /\
    forall x : C, x = r0 \/ x = r1 ->
      exists da db dc : C,
        Cmod da <= 16 * eps * Cmod a /\ Cmod db <= 16 * eps * Cmod b /\ Cmod dc <= 16 * eps * Cmod c /\
        ((a + da) * x * x + (b + db) * x + (c + dc))%C = C0.
Proof.
  intros Ha He. destruct (roots_deg2_residual_lemma a b c Ha He) as (r0 & r1 & E & H).
  exists r0, r1. split; [exact E|]. intros x Hx.
  apply residual_to_backward; [lra|]. now apply H.
Qed.

(* 3.8  in the measure of the failing-input search (driver/c10.py): |p(x)| / (max |a_k| max(1,|x|)^2) <= 48 eps *)
Theorem quadratic_search_measure_lemma (a b c : C) (M : R) : a <> C0 -> eps <= / 100 ->
  Cmod a <= M -> Cmod b <= M -> Cmod c <= M ->
  exists r0 r1 : C, poly_solve RoundRA [c; b; a] false = Ok ([r0; r1], []) /\
    forall x : C, x = r0 \/ x = r1 ->
      Cmod (qval a b c x) <= 48 * eps * (M * (Rmax 1 (Cmod x) * Rmax 1 (Cmod x))).
Proof.
  intros Ha He Ma Mb Mc. destruct (roots_deg2_residual_lemma a b c Ha He) as (r0 & r1 & E & H).
  exists r0, r1. split; [exact E|]. intros x Hx. specialize (H x Hx).
  eapply Rle_trans; [exact H|].
  replace (48 * eps * (M * (Rmax 1 (Cmod x) * Rmax 1 (Cmod x))))
    with (16 * eps * (3 * (M * (Rmax 1 (Cmod x) * Rmax 1 (Cmod x))))) by ring.
  apply Rmult_le_compat_l; [lra|]. unfold qsize.
  pose proof (Cmod_ge_0 a). pose proof (Cmod_ge_0 b). pose proof (Cmod_ge_0 c). pose proof (Cmod_ge_0 x).
  pose proof (Rmax_l 1 (Cmod x)). pose proof (Rmax_r 1 (Cmod x)).
  set (m := Rmax 1 (Cmod x)) in *. set (t := Cmod x) in *.
  assert (t * t <= m * m) by (apply Rmult_le_compat; lra).
  assert (t <= m * m) by nra. assert (1 <= m * m) by nra.
  assert (0 <= M) by lra.
  assert (Cmod a * t * t <= M * (m * m)) by (rewrite Rmult_assoc; apply Rmult_le_compat; nra).
  assert (Cmod b * t <= M * (m * m)) by (apply Rmult_le_compat; nra).
  assert (Cmod c <= M * (m * m)) by nra.
  lra.
Qed.

(* 3.9  BOTH returned values at once: they are the two roots of  a x^2 + (b + db) x + (c + dc)  with
        |dc| <= (2 eps + eps^2) |c|   and   |db| <= 16 eps sqrt(|b|^2 + 4 |a||c|)    (a itself unperturbed).
   The bound on db is normwise in the natural scaling of the quadratic, NOT relative to |b|: that is not attainable
   (Proofs/RootsRoundEx.v, x^2 - 1). *)
Theorem quadratic_simultaneous_lemma (a b c : C) : a <> C0 -> eps <= / 100 ->
  exists r0 r1 db dc : C, quadratic_solve RoundRA a b c = Ok [r0; r1] /\
    (forall x : C, (a * x * x + (b + db) * x + (c + dc))%C = (a * (x - r0) * (x - r1))%C) /\
    Cmod dc <= (2 * eps + eps * eps) * Cmod c /\
    Cmod db * Cmod db <= (16 * eps) * (16 * eps) * (Cmod b * Cmod b + 4 * (Cmod a * Cmod c)).
Proof.
  intros Ha He.
  destruct (Ceq_dec (q_q a b c) C0) as [Zq|Nq].
  { destruct (quadratic_q0_round_lemma a b c Ha He) as [[D _] Z]. destruct (D Zq) as [-> ->].
    exists C0, C0, C0, C0. split; [exact (Z Zq)|]. split; [intros x; ring|].
    rewrite !Cmod_0. split; nra. }
  rewrite quadratic_solve_round_eq.
  destruct (Ceq_dec (q_q a b c) C0) as [Z|_]; [contradiction|].
  destruct (quad_core a b c He) as (sh & sg & qx & rho & Hsg & Eqx & HD & NC & Eq & Hr & HE & _ & _).
  destruct (numeric_bounds eps (conj eps_nonneg He)) as (N1 & N2 & N3 & N4 & N5).
  set (X5 := (1 + eps) * (1 + eps) * (1 + eps) * (1 + eps) * (1 + eps)) in *.
  set (Xq := (1 + eps * (1 + eps)) * (1 + eps) * (1 + eps)) in *.
  assert (Xq2 : Xq < 2) by lra.
  pose proof (near_nz _ _ Hr Xq2) as Hrho.
  assert (Nqx : qx <> C0) by (intros Zx; apply Nq; rewrite Eq, Zx; ring).
  destruct (rel_mult eps _ _ eps_nonneg (fdiv_ok (q_q a b c) a Ha)) as (d9 & D9 & E9).
  destruct (rel_mult eps _ _ eps_nonneg (fdiv_ok c (q_q a b c) Nq)) as (d10 & D10 & E10).
  set (r0 := fdiv (q_q a b c) a) in *. set (r1 := fdiv c (q_q a b c)) in *.
  set (rho0 := (rho * (C1 + d9))%C). set (rho1 := ((C1 + d10) * / rho)%C).
  assert (Hr0 : near rho0 (1 + 4.19 * eps)).
  { eapply near_mono; [apply near_mul; [exact Hr|apply near_1pd; exact D9]|]. lra. }
  assert (Hr1 : near rho1 (1 + 4.19 * eps)).
  { eapply near_mono; [apply near_mul; [apply near_1pd; exact D10|apply near_inv; [exact Hr|exact Xq2]]|]. lra. }
  assert (Er0 : r0 = (qx / a * rho0)%C) by (rewrite E9, Eq; unfold rho0; field; exact Ha).
  assert (Er1 : r1 = (c / qx * rho1)%C) by (rewrite E10, Eq; unfold rho1; field; split; assumption).
  exists r0, r1, (- (a * (r0 + r1)) - b)%C, (a * r0 * r1 - c)%C.
  split; [reflexivity|]. split; [intros x; ring|]. split.
  - replace (a * r0 * r1 - c)%C with (c * ((C1 + d9) * (C1 + d10)) - c)%C.
    2:{ rewrite Er0, Er1. unfold rho0, rho1. field. repeat split; assumption. }
    eapply Rle_trans; [apply near_pert; apply near_mul; apply near_1pd; eassumption|]. apply Req_le. ring.
  - set (E := (qx * qx + b * qx + a * c)%C) in *.
    assert (Edb : (- (a * (r0 + r1)) - b)%C = (- (qx * (rho0 - C1)) - a * c / qx * (rho1 - C1) - E / qx)%C).
    { rewrite Er0, Er1. unfold E. field. split; assumption. }
    rewrite Edb.
    set (u := Cmod qx) in *. set (A := Cmod a * Cmod c) in *.
    assert (Pu : 0 < u) by (now apply Cmod_gt_0).
    assert (PA : 0 <= A) by (unfold A; apply Rmult_le_pos; apply Cmod_ge_0).
    set (v := A / u).
    assert (Pv : 0 <= v) by (unfold v, Rdiv; apply Rmult_le_pos; [exact PA | apply Rlt_le, Rinv_0_lt_compat; exact Pu]).
    assert (X5pos : 0 <= X5 - 1).
    { pose proof (near_ge1 _ _ Hr). unfold X5. assert (1 <= (1 + eps) * (1 + eps)) by nra.
      assert (1 <= (1 + eps) * (1 + eps) * (1 + eps)) by nra.
      assert (1 <= (1 + eps) * (1 + eps) * (1 + eps) * (1 + eps)) by nra. nra. }
    (* |db| <= 9.36 eps (u + v) *)
    assert (B1 : Cmod (- (qx * (rho0 - C1)) - a * c / qx * (rho1 - C1) - E / qx)%C <= 9.36 * eps * (u + v)).
    { eapply Rle_trans; [apply Cmod_minus_le|]. eapply Rle_trans; [apply Rplus_le_compat_r; apply Cmod_minus_le|].
      rewrite Cmod_opp, !Cmod_mult, !Cmod_div by exact Nqx. rewrite Cmod_mult. fold u A.
      unfold near in Hr0, Hr1.
      assert (T1 : u * Cmod (rho0 - C1)%C <= u * (4.19 * eps)) by (apply Rmult_le_compat_l; lra).
      assert (T2 : A / u * Cmod (rho1 - C1)%C <= A / u * (4.19 * eps)) by (apply Rmult_le_compat_l; [exact Pv|lra]).
      assert (T3 : Cmod E / u <= 5.17 * eps * u + 5.11 * eps * v).
      { unfold v. apply (Rmult_le_reg_r u); [exact Pu|].
        replace (Cmod E / u * u) with (Cmod E) by (field; lra).
        replace ((5.17 * eps * u + 5.11 * eps * (A / u)) * u) with (5.17 * eps * (u * u) + 5.11 * eps * A) by (field; lra).
        assert (0 <= u * u) by nra.
        assert ((X5 - 1) / (1 - eps) * (u * u) <= 5.17 * eps * (u * u)) by (apply Rmult_le_compat_r; lra).
        assert ((X5 - 1) * A <= 5.11 * eps * A) by (apply Rmult_le_compat_r; lra).
        lra. }
      fold v in T2 |- *. assert (0 <= eps * v) by (apply Rmult_le_pos; assumption). nra. }
    (* u^2 + v^2 <= 1.31 (|b|^2 + 4A) *)
    set (P := Cmod b * Cmod b + 4 * A) in *.
    pose proof (Cmod_ge_0 b) as Pb. pose proof (Cmod_ge_0 sh) as Ps.
    assert (PP : 0 <= P) by (unfold P; nra).
    assert (Hh : X5 - 1 <= 0.0511) by lra.
    assert (Ssq : Cmod sh * Cmod sh <= (1 + (X5 - 1)) * P /\ 4 * A - Cmod b * Cmod b - (X5 - 1) * P <= Cmod sh * Cmod sh).
    { rewrite <- Cmod_mult.
      assert (DD : Cmod (qdisc a b c) <= P /\ 4 * A - Cmod b * Cmod b <= Cmod (qdisc a b c)).
      { unfold qdisc, P. split.
        - eapply Rle_trans; [apply Cmod_minus_le|]. rewrite !Cmod_mult, Cmod_INR4. unfold A. lra.
        - assert (K : Cmod (a * RtoC (INR 4) * c)%C <= Cmod (b * b - a * RtoC (INR 4) * c)%C + Cmod (b * b)%C).
          { replace (a * RtoC (INR 4) * c)%C with (- (b * b - a * RtoC (INR 4) * c) + b * b)%C at 1 by ring.
            eapply Rle_trans; [apply Cmod_triangle|]. rewrite Cmod_opp. lra. }
          rewrite !Cmod_mult, Cmod_INR4 in K. unfold A. lra. }
      assert (T : Cmod (sh * sh)%C <= Cmod (qdisc a b c) + Cmod (sh * sh - qdisc a b c)%C).
      { replace (sh * sh)%C with (qdisc a b c + (sh * sh - qdisc a b c))%C at 1 by ring. apply Cmod_triangle. }
      assert (T' : Cmod (qdisc a b c) <= Cmod (sh * sh)%C + Cmod (sh * sh - qdisc a b c)%C).
      { replace (qdisc a b c) with (sh * sh + - (sh * sh - qdisc a b c))%C at 1 by ring.
        eapply Rle_trans; [apply Cmod_triangle|]. rewrite Cmod_opp. lra. }
      fold A in HD. fold P in HD. lra. }
    destruct Ssq as [Ss1 Ss2].
    assert (Uq : u * u <= 1.03 * P).
    { assert (U1 : u <= (Cmod b + Cmod sh) / 2).
      { unfold u. rewrite Eqx, Cmod_mult, Cmod_mhalf.
        assert (Cmod (b + sh * RtoC sg)%C <= Cmod b + Cmod sh).
        { eapply Rle_trans; [apply Cmod_triangle|]. rewrite Cmod_mult, Cmod_R.
          destruct Hsg as [-> | ->]; [rewrite Rabs_R1 | rewrite Rabs_Ropp, Rabs_R1]; lra. }
        lra. }
      assert (U2 : u * u <= ((Cmod b + Cmod sh) / 2) * ((Cmod b + Cmod sh) / 2)) by (apply Rmult_le_compat; lra).
      assert (0 <= (Cmod b - Cmod sh) * (Cmod b - Cmod sh)) by apply Rle_0_sqr.
      assert (Cmod b * Cmod b <= P) by (unfold P; lra). nra. }
    assert (Lq : 0.89 * A <= u * u).
    { fold u in NC.
      assert (K : (1 + (X5 - 1)) * (Cmod b * Cmod b + Cmod sh * Cmod sh) >= 4 * A * (1 - (X5 - 1))).
      { unfold P in Ss2. nra. }
      assert (K2 : (1 + (X5 - 1)) * (4 * (u * u)) >= (1 - eps) * (4 * A * (1 - (X5 - 1)))) by nra.
      nra. }
    assert (Vq : v * v <= 1.13 * A).
    { unfold v. apply (Rmult_le_reg_r (u * u)); [nra|].
      replace (A / u * (A / u) * (u * u)) with (A * A) by (field; lra). nra. }
    assert (UV : (u + v) * (u + v) <= 2.63 * P).
    { assert (0 <= (u - v) * (u - v)) by apply Rle_0_sqr. unfold P in *. nra. }
    set (m := Cmod (- (qx * (rho0 - C1)) - a * c / qx * (rho1 - C1) - E / qx)%C) in *.
    assert (Pm : 0 <= m) by apply Cmod_ge_0.
    assert (M2 : m * m <= (9.36 * eps * (u + v)) * (9.36 * eps * (u + v))) by (apply Rmult_le_compat; lra).
    assert (M3 : (9.36 * eps * (u + v)) * (9.36 * eps * (u + v)) <= (9.36 * eps) * (9.36 * eps) * (2.63 * P)).
    { replace ((9.36 * eps * (u + v)) * (9.36 * eps * (u + v))) with ((9.36 * eps) * (9.36 * eps) * ((u + v) * (u + v))) by ring.
      apply Rmult_le_compat_l; [nra|exact UV]. }
    assert (M4 : (9.36 * eps) * (9.36 * eps) * (2.63 * P) <= (16 * eps) * (16 * eps) * P).
    { assert (0 <= eps * eps * P) by (apply Rmult_le_pos; [nra|exact PP]). nra. }
    lra.
Qed.

End RoundArith.

(* ---------------------------------------------------------------- 4. the same statements with the arithmetic bundled *)
(* every operation of the two-sorted arithmetic that is not fixed above *)
Record RoundOps := {
  o_radd : R -> R -> R; o_rsub : R -> R -> R; o_rmul : R -> R -> R; o_rdiv : R -> R -> R; o_rsqrt : R -> R;
  o_rfrac : list R; o_kabs : C -> R; o_kabsA : C -> C; o_kdivr : C -> R -> C; o_kltb : C -> C -> bool; o_kleb : C -> C -> bool;
  o_pow : C -> C -> C; o_polar : R -> R -> C;
  o_add : C -> C -> C; o_sub : C -> C -> C; o_mul : C -> C -> C; o_div : C -> C -> C;
  o_scale : C -> R -> C; o_sqrt : C -> C }.

(* the standard model of rounding, normwise, for the six operations quadratic_solve rounds *)
Definition std_model (eps : R) (O : RoundOps) : Prop :=
  (forall x y : C, Cmod (o_add O x y - (x + y))%C <= eps * Cmod (x + y)%C) /\
  (forall x y : C, Cmod (o_sub O x y - (x - y))%C <= eps * Cmod (x - y)%C) /\
  (forall x y : C, Cmod (o_mul O x y - x * y)%C <= eps * Cmod (x * y)%C) /\
  (forall x y : C, y <> C0 -> Cmod (o_div O x y - x / y)%C <= eps * Cmod (x / y)%C) /\
  (forall (z : C) (r : R), Cmod (o_scale O z r - z * RtoC r)%C <= eps * Cmod (z * RtoC r)%C) /\
  (forall z : C, exists w : C, (w * w)%C = z /\ Cmod (o_sqrt O z - w)%C <= eps * Cmod w).

Definition RoundRAo (eps : R) (O : RoundOps) : RootArith :=
  RoundRA eps (o_radd O) (o_rsub O) (o_rmul O) (o_rdiv O) (o_rsqrt O) (o_rfrac O) (o_kabs O) (o_kabsA O) (o_kdivr O)
          (o_kltb O) (o_kleb O) (o_pow O) (o_polar O) (o_add O) (o_sub O) (o_mul O) (o_div O) (o_scale O) (o_sqrt O).

Lemma linear_root_backward_error_lemma (eps : R) (O : RoundOps) (c0 c1 : C) :
  0 <= eps -> std_model eps O -> c1 <> C0 ->
  exists r d : C, poly_solve (RoundRAo eps O) [c0; c1] false = Ok ([r], []) /\
    Cmod d <= eps /\ (c1 * r + c0 * (C1 + d))%C = C0.
Proof.
  intros He (_ & _ & _ & Hd & _ & _) H1. now apply linear_root_backward_lemma.
Qed.

Lemma quadratic_residual_bound_lemma (eps : R) (O : RoundOps) (a b c : C) :
  0 <= eps <= / 100 -> std_model eps O -> a <> C0 ->
  exists r0 r1 : C, poly_solve (RoundRAo eps O) [c; b; a] false = Ok ([r0; r1], []) /\
    forall x : C, x = r0 \/ x = r1 ->
      Cmod (a * x * x + b * x + c)%C <= 16 * eps * (Cmod a * Cmod x * Cmod x + Cmod b * Cmod x + Cmod c).
Proof.
  intros [He0 He] (Ha & Hs & Hm & Hd & Hsc & Hsq) Hnz. now apply roots_deg2_residual_lemma.
Qed.

Lemma quadratic_backward_error_lemma (eps : R) (O : RoundOps) (a b c : C) :
  0 <= eps <= / 100 -> std_model eps O -> a <> C0 ->
  exists r0 r1 : C, poly_solve (RoundRAo eps O) [c; b; a] false = Ok ([r0; r1], []) /\
    forall x : C, x = r0 \/ x = r1 ->
      exists da db dc : C,
        Cmod da <= 16 * eps * Cmod a /\ Cmod db <= 16 * eps * Cmod b /\ Cmod dc <= 16 * eps * Cmod c /\
        ((a + da) * x * x + (b + db) * x + (c + dc))%C = C0.
Proof.
  intros [He0 He] (Ha & Hs & Hm & Hd & Hsc & Hsq) Hnz. now apply quadratic_backward_lemma.
Qed.

Lemma quadratic_search_measure_bound_lemma (eps : R) (O : RoundOps) (a b c : C) (M : R) :
  0 <= eps <= / 100 -> std_model eps O -> a <> C0 -> Cmod a <= M -> Cmod b <= M -> Cmod c <= M ->
  exists r0 r1 : C, poly_solve (RoundRAo eps O) [c; b; a] false = Ok ([r0; r1], []) /\
    forall x : C, x = r0 \/ x = r1 ->
      Cmod (a * x * x + b * x + c)%C <= 48 * eps * (M * (Rmax 1 (Cmod x) * Rmax 1 (Cmod x))).
Proof.
  intros [He0 He] (Ha & Hs & Hm & Hd & Hsc & Hsq) Hnz. now apply quadratic_search_measure_lemma.
Qed.

(* the repaired branch `q == zero`: taken if and only if b = c = 0, and then [0; 0] is returned -- the exact roots of a x^2 *)
Lemma quadratic_q0_backward_lemma (eps : R) (O : RoundOps) (a b c : C) :
  0 <= eps <= / 100 -> std_model eps O -> a <> C0 ->
  let q := q_q (o_add O) (o_sub O) (o_mul O) (o_scale O) (o_sqrt O) a b c in
  (q = C0 <-> b = C0 /\ c = C0) /\
  (q = C0 -> poly_solve (RoundRAo eps O) [c; b; a] false = Ok ([C0; C0], [])) /\
  (q <> C0 -> exists r0 r1 d : C, poly_solve (RoundRAo eps O) [c; b; a] false = Ok ([r0; r1], []) /\
               Cmod d <= 2 * eps + eps * eps /\ (r0 * r1)%C = (c / a * (C1 + d))%C).
Proof.
  intros [He0 He] (Ha & Hs & Hm & Hd & Hsc & Hsq) Hnz q.
  destruct (quadratic_q0_round_lemma eps He0 (o_radd O) (o_rsub O) (o_rmul O) (o_rdiv O) (o_rsqrt O) (o_rfrac O) (o_kabs O)
              (o_kabsA O) (o_kdivr O) (o_kltb O) (o_kleb O) (o_pow O) (o_polar O) (o_add O) (o_sub O) (o_mul O) (o_div O)
              (o_scale O) (o_sqrt O) Ha Hs Hm Hd Hsc Hsq a b c Hnz He) as [I Z].
  split; [exact I|]. split.
  - intros Zq. unfold RoundRAo. rewrite poly_solve_deg2_eq, (Z Zq). reflexivity.
  - intros NZ.
    destruct (quadratic_product_lemma eps He0 (o_radd O) (o_rsub O) (o_rmul O) (o_rdiv O) (o_rsqrt O) (o_rfrac O) (o_kabs O)
              (o_kabsA O) (o_kdivr O) (o_kltb O) (o_kleb O) (o_pow O) (o_polar O) (o_add O) (o_sub O) (o_mul O) (o_div O)
              (o_scale O) (o_sqrt O) Hd a b c Hnz NZ) as (r0 & r1 & d & E & Hdd & P).
    exists r0, r1, d. split; [|split; assumption]. unfold RoundRAo. rewrite poly_solve_deg2_eq, E. reflexivity.
Qed.

(* both returned values together: the two roots of a x^2 + (b + db) x + (c + dc) *)
Lemma quadratic_simultaneous_backward_lemma (eps : R) (O : RoundOps) (a b c : C) :
  0 <= eps <= / 100 -> std_model eps O -> a <> C0 ->
  exists r0 r1 db dc : C, poly_solve (RoundRAo eps O) [c; b; a] false = Ok ([r0; r1], []) /\
    (forall x : C, (a * x * x + (b + db) * x + (c + dc))%C = (a * (x - r0) * (x - r1))%C) /\
    Cmod dc <= (2 * eps + eps * eps) * Cmod c /\
    Cmod db * Cmod db <= (16 * eps) * (16 * eps) * (Cmod b * Cmod b + 4 * (Cmod a * Cmod c)).
Proof.
  intros [He0 He] (Ha & Hs & Hm & Hd & Hsc & Hsq) Hnz.
  destruct (quadratic_simultaneous_lemma eps He0 (o_radd O) (o_rsub O) (o_rmul O) (o_rdiv O) (o_rsqrt O) (o_rfrac O) (o_kabs O)
              (o_kabsA O) (o_kdivr O) (o_kltb O) (o_kleb O) (o_pow O) (o_polar O) (o_add O) (o_sub O) (o_mul O) (o_div O)
              (o_scale O) (o_sqrt O) Ha Hs Hm Hd Hsc Hsq a b c Hnz He) as (r0 & r1 & db & dc & E & H).
  exists r0, r1, db, dc. split; [|exact H]. unfold RoundRAo. rewrite poly_solve_deg2_eq, E. reflexivity.
Qed.

(* the intermediate values of the model, bundled (for Proofs/RootsRoundFwd.v) *)
Definition o_sh (O : RoundOps) (a b c : C) : C := o_sqrt O (q_disc (o_sub O) (o_mul O) (o_scale O) a b c).
Definition o_sg (O : RoundOps) (a b c : C) : R := q_sgn (o_sub O) (o_mul O) (o_scale O) (o_sqrt O) a b c.
Definition o_q (O : RoundOps) (a b c : C) : C := q_q (o_add O) (o_sub O) (o_mul O) (o_scale O) (o_sqrt O) a b c.

Lemma quad_core_o (eps : R) (O : RoundOps) (a b c : C) : 0 <= eps <= / 100 -> std_model eps O ->
  let X5 := (1 + eps) * (1 + eps) * (1 + eps) * (1 + eps) * (1 + eps) in
  let Xq := (1 + eps * (1 + eps)) * (1 + eps) * (1 + eps) in
  let sh := o_sh O a b c in let sg := o_sg O a b c in
  let qx := ((b + sh * RtoC sg) * RtoC (- / 2))%C in
  (sg = 1 \/ sg = Ropp 1) /\
  Cmod (sh * sh - qdisc a b c)%C <= (X5 - 1) * (Cmod b * Cmod b + 4 * (Cmod a * Cmod c)) /\
  (1 - eps) * (Cmod b * Cmod b + Cmod sh * Cmod sh) <= 4 * (Cmod qx * Cmod qx) /\
  exists rho : C, o_q O a b c = (qx * rho)%C /\ near rho Xq.
Proof.
  intros [He0 He] (Ha & Hs & Hm & Hd & Hsc & Hsq) X5 Xq sh sg qx.
  destruct (quad_core eps He0 (o_add O) (o_sub O) (o_mul O) (o_scale O) (o_sqrt O) Ha Hs Hm Hsc Hsq a b c He)
    as (sh' & sg' & qx' & rho & Hsg & Eqx & HD & NC & Eq & Hr & HE & Esh & Esg).
  fold (o_sh O a b c) in Esh. fold (o_sg O a b c) in Esg. fold sh in Esh. fold sg in Esg. subst sh' sg'.
  fold qx in Eqx. subst qx'.
  split; [exact Hsg|]. split; [exact HD|]. split; [exact NC|]. exists rho. split; assumption.
Qed.

Lemma poly_solve_deg2_o_eq (eps : R) (O : RoundOps) (a b c : C) :
  poly_solve (RoundRAo eps O) [c; b; a] false =
  Ok ([o_div O (o_q O a b c) a; if Ceq_dec (o_q O a b c) C0 then o_div O (o_q O a b c) a else o_div O c (o_q O a b c)], []).
Proof.
  unfold RoundRAo. rewrite poly_solve_deg2_eq, quadratic_solve_round_eq. reflexivity.
Qed.

(* ---------------------------------------------------------------- 5. the LOCAL form: only the operations quadratic_solve performs *)
(* the residual bound from the relations between the values alone *)
Lemma quad_residual_rel (eps : R) (a b c bb a4 ac4 dh sh pr m' th q r0 : C) :
  0 <= eps <= / 100 -> a <> C0 ->
  relc eps bb (b * b)%C -> relc eps a4 (a * RtoC (INR 4))%C -> relc eps ac4 (a4 * c)%C -> relc eps dh (bb - ac4)%C ->
  (exists w : C, (w * w)%C = dh /\ relc eps sh w) -> relc eps pr (Cconj b * sh)%C ->
  let sg := if (if Rle_dec 0 (fst pr) then true else false) then 1 else Ropp 1 in
  relc eps m' (sh * RtoC sg)%C -> relc eps th (b + m')%C -> relc eps q (th * RtoC (- / 2))%C ->
  relc eps r0 (q / a)%C ->
  Cmod (qval a b c r0) <= 16 * eps * qsize a b c r0 /\
  (forall r1 : C, q <> C0 -> relc eps r1 (c / q)%C -> Cmod (qval a b c r1) <= 16 * eps * qsize a b c r1) /\
  (q = C0 -> b = C0 /\ c = C0).
Proof.
  intros Heps Ha Hbb Ha4 Hac4 Hdh Hsq Hpr sg Hm Hth Hq Hr0.
  destruct (quad_core_rel eps a b c bb a4 ac4 dh sh pr m' th q Heps Hbb Ha4 Hac4 Hdh Hsq Hpr Hm Hth Hq)
    as (Hsg & HD & NC & rho & Eq & Hr & HE).
  fold sg in Hsg, NC, Eq, HE.
  set (qx := ((b + sh * RtoC sg) * RtoC (- / 2))%C) in *.
  destruct Heps as [He0 He].
  destruct (rel_mult eps _ _ He0 Hr0) as (d9 & D9 & E9).
  split; [|split].
  - rewrite E9, Eq. apply root0_bound; assumption.
  - intros r1 Nq Hr1. destruct (rel_mult eps _ _ He0 Hr1) as (d10 & D10 & E10).
    rewrite E10, Eq. apply root1_bound; try assumption.
    intros Zq. apply Nq. rewrite Eq, Zq. ring.
  - intros Zq. destruct (numeric_bounds eps (conj He0 He)) as (N1 & N2 & N3 & N4 & N5).
    assert (Zx : qx = C0).
    { destruct (Ceq_dec qx C0) as [Z|NZ]; [exact Z|]. exfalso.
      assert (Hrho : rho <> C0) by (apply (near_nz _ _ Hr); lra).
      apply (Cmult_neq_0 _ _ NZ Hrho). now rewrite <- Eq. }
    rewrite Zx in HE, NC. rewrite Cmod_0 in HE, NC.
    replace (C0 * C0 + b * C0 + a * c)%C with (a * c)%C in HE by ring. rewrite Cmod_mult in HE.
    pose proof (Cmod_ge_0 b). pose proof (Cmod_ge_0 c). pose proof (Cmod_ge_0 sh).
    assert (Pa : 0 < Cmod a) by (now apply Cmod_gt_0).
    assert (Pac : 0 <= Cmod a * Cmod c) by (apply Rmult_le_pos; lra).
    split; apply Cmod_eq_0.
    + assert (0 <= Cmod sh * Cmod sh) by apply Rle_0_sqr. nra.
    + assert (Cmod a * Cmod c <= 0) by nra. nra.
Qed.

(* "each of the (at most) twelve rounded operations quadratic_solve performs on (a, b, c) has normwise relative error eps":
   the hypotheses of std_model AT THE ARGUMENTS THAT OCCUR, nothing else (no statement about other arguments, so an arithmetic
   with a bounded exponent range qualifies on the inputs that stay in range) *)
Definition quad_ops_ok (eps : R) (O : RoundOps) (a b c : C) : Prop :=
  let bb := o_mul O b b in let a4 := o_scale O a (INR 4) in let ac4 := o_mul O a4 c in let dh := o_sub O bb ac4 in
  let sh := o_sqrt O dh in let pr := o_mul O (Cconj b) sh in
  let sg := if (if Rle_dec 0 (fst pr) then true else false) then 1 else Ropp 1 in
  let m' := o_scale O sh sg in let th := o_add O b m' in let q := o_scale O th (- / 2) in
  relc eps bb (b * b)%C /\ relc eps a4 (a * RtoC (INR 4))%C /\ relc eps ac4 (a4 * c)%C /\ relc eps dh (bb - ac4)%C /\
  (exists w : C, (w * w)%C = dh /\ relc eps sh w) /\ relc eps pr (Cconj b * sh)%C /\
  relc eps m' (sh * RtoC sg)%C /\ relc eps th (b + m')%C /\ relc eps q (th * RtoC (- / 2))%C /\
  relc eps (o_div O q a) (q / a)%C /\ (q <> C0 -> relc eps (o_div O c q) (c / q)%C).

Lemma std_model_ops_ok (eps : R) (O : RoundOps) (a b c : C) : a <> C0 -> std_model eps O -> quad_ops_ok eps O a b c.
Proof.
  intros Hnz (Ha & Hs & Hm & Hd & Hsc & Hsq). unfold quad_ops_ok, relc. cbv zeta.
  repeat split; try (apply Ha || apply Hs || apply Hm || apply Hsc || apply Hsq).
  - apply Hd. exact Hnz.
  - intros Nq. apply Hd. exact Nq.
Qed.

Theorem quadratic_residual_local_lemma (eps : R) (O : RoundOps) (a b c : C) :
  0 <= eps <= / 100 -> a <> C0 -> quad_ops_ok eps O a b c ->
  exists r0 r1 : C, poly_solve (RoundRAo eps O) [c; b; a] false = Ok ([r0; r1], []) /\
    forall x : C, x = r0 \/ x = r1 ->
      Cmod (a * x * x + b * x + c)%C <= 16 * eps * (Cmod a * Cmod x * Cmod x + Cmod b * Cmod x + Cmod c).
Proof.
  intros Heps Hnz H. unfold quad_ops_ok in H. cbv zeta in H.
  destruct H as (H1 & H2 & H3 & H4 & H5 & H6 & H7 & H8 & H9 & H10 & H11).
  destruct (quad_residual_rel eps a b c _ _ _ _ _ _ _ _ _ _ Heps Hnz H1 H2 H3 H4 H5 H6 H7 H8 H9 H10) as (B0 & B1 & _).
  rewrite poly_solve_deg2_o_eq. do 2 eexists. split; [reflexivity|].
  intros x [-> | ->]; [exact B0|].
  unfold o_q, q_q, q_sgn, q_disc.
  destruct (Ceq_dec _ C0) as [Z|NZ]; [exact B0|].
  apply B1; [exact NZ | exact (H11 NZ)].
Qed.

(* the hypotheses are monotone in eps: an arithmetic with a less accurate libm sqrt (or pow, for the cubic) is covered by taking eps larger *)
Lemma relc_mono (e e' : R) (t s : C) : e <= e' -> relc e t s -> relc e' t s.
Proof.
  unfold relc. intros H K. eapply Rle_trans; [exact K|]. apply Rmult_le_compat_r; [apply Cmod_ge_0|exact H].
Qed.

Lemma std_model_mono (e e' : R) (O : RoundOps) : e <= e' -> std_model e O -> std_model e' O.
Proof.
  intros H (Ha & Hs & Hm & Hd & Hsc & Hsq).
  repeat split; intros.
  - apply (relc_mono e e' _ _ H). apply Ha.
  - apply (relc_mono e e' _ _ H). apply Hs.
  - apply (relc_mono e e' _ _ H). apply Hm.
  - apply (relc_mono e e' _ _ H). now apply Hd.
  - apply (relc_mono e e' _ _ H). apply Hsc.
  - destruct (Hsq z) as (w & Ew & Hw). exists w. split; [exact Ew|]. now apply (relc_mono e e' _ _ H).
Qed.

(* the backward form from the local hypotheses *)
Theorem quadratic_backward_local_lemma (eps : R) (O : RoundOps) (a b c : C) :
  0 <= eps <= / 100 -> a <> C0 -> quad_ops_ok eps O a b c ->
  exists r0 r1 : C, poly_solve (RoundRAo eps O) [c; b; a] false = Ok ([r0; r1], []) /\
    forall x : C, x = r0 \/ x = r1 ->
      exists da db dc : C,
        Cmod da <= 16 * eps * Cmod a /\ Cmod db <= 16 * eps * Cmod b /\ Cmod dc <= 16 * eps * Cmod c /\
        ((a + da) * x * x + (b + db) * x + (c + dc))%C = C0.
Proof.
  intros Heps Ha H. destruct (quadratic_residual_local_lemma eps O a b c Heps Ha H) as (r0 & r1 & E & B).
  exists r0, r1. split; [exact E|]. intros x Hx.
  apply (residual_to_backward a b c x (16 * eps)); [lra|]. exact (B x Hx).
Qed.

(* both returned values at once, relationally *)
Lemma quad_simultaneous_rel (eps : R) (a b c bb a4 ac4 dh sh pr m' th q r0 r1 : C) :
  0 <= eps <= / 100 -> a <> C0 ->
  relc eps bb (b * b)%C -> relc eps a4 (a * RtoC (INR 4))%C -> relc eps ac4 (a4 * c)%C -> relc eps dh (bb - ac4)%C ->
  (exists w : C, (w * w)%C = dh /\ relc eps sh w) -> relc eps pr (Cconj b * sh)%C ->
  let sg := if (if Rle_dec 0 (fst pr) then true else false) then 1 else Ropp 1 in
  relc eps m' (sh * RtoC sg)%C -> relc eps th (b + m')%C -> relc eps q (th * RtoC (- / 2))%C ->
  relc eps r0 (q / a)%C -> q <> C0 -> relc eps r1 (c / q)%C ->
  exists db dc : C,
    (forall x : C, (a * x * x + (b + db) * x + (c + dc))%C = (a * (x - r0) * (x - r1))%C) /\
    Cmod dc <= (2 * eps + eps * eps) * Cmod c /\
    Cmod db * Cmod db <= (16 * eps) * (16 * eps) * (Cmod b * Cmod b + 4 * (Cmod a * Cmod c)).
Proof.
  intros Heps Ha Hbb Ha4 Hac4 Hdh Hsq Hpr sg Hm Hth Hq Hrr0 Nq Hrr1.
  destruct (quad_core_rel eps a b c bb a4 ac4 dh sh pr m' th q Heps Hbb Ha4 Hac4 Hdh Hsq Hpr Hm Hth Hq)
    as (Hsg & HD & NC & rho & Eq & Hr & HE).
  fold sg in Hsg, NC, Eq, HE.
  set (qx := ((b + sh * RtoC sg) * RtoC (- / 2))%C) in *.
  assert (Eqx : qx = ((b + sh * RtoC sg) * RtoC (- / 2))%C) by reflexivity.
  destruct Heps as [eps_nonneg He]. unfold relc in Hrr0, Hrr1.
  destruct (numeric_bounds eps (conj eps_nonneg He)) as (N1 & N2 & N3 & N4 & N5).
  set (X5 := (1 + eps) * (1 + eps) * (1 + eps) * (1 + eps) * (1 + eps)) in *.
  set (Xq := (1 + eps * (1 + eps)) * (1 + eps) * (1 + eps)) in *.
  assert (Xq2 : Xq < 2) by lra.
  pose proof (near_nz _ _ Hr Xq2) as Hrho.
  assert (Nqx : qx <> C0) by (intros Zx; apply Nq; rewrite Eq, Zx; ring).
  destruct (rel_mult eps _ _ eps_nonneg Hrr0) as (d9 & D9 & E9).
  destruct (rel_mult eps _ _ eps_nonneg Hrr1) as (d10 & D10 & E10).
  set (rho0 := (rho * (C1 + d9))%C). set (rho1 := ((C1 + d10) * / rho)%C).
  assert (Hr0 : near rho0 (1 + 4.19 * eps)).
  { eapply near_mono; [apply near_mul; [exact Hr|apply near_1pd; exact D9]|]. lra. }
  assert (Hr1 : near rho1 (1 + 4.19 * eps)).
  { eapply near_mono; [apply near_mul; [apply near_1pd; exact D10|apply near_inv; [exact Hr|exact Xq2]]|]. lra. }
  assert (Er0 : r0 = (qx / a * rho0)%C) by (rewrite E9, Eq; unfold rho0; field; exact Ha).
  assert (Er1 : r1 = (c / qx * rho1)%C) by (rewrite E10, Eq; unfold rho1; field; split; assumption).
  exists (- (a * (r0 + r1)) - b)%C, (a * r0 * r1 - c)%C.
  split; [intros x; ring|]. split.
  - replace (a * r0 * r1 - c)%C with (c * ((C1 + d9) * (C1 + d10)) - c)%C.
    2:{ rewrite Er0, Er1. unfold rho0, rho1. field. repeat split; assumption. }
    eapply Rle_trans; [apply near_pert; apply near_mul; apply near_1pd; eassumption|]. apply Req_le. ring.
  - set (E := (qx * qx + b * qx + a * c)%C) in *.
    assert (Edb : (- (a * (r0 + r1)) - b)%C = (- (qx * (rho0 - C1)) - a * c / qx * (rho1 - C1) - E / qx)%C).
    { rewrite Er0, Er1. unfold E. field. split; assumption. }
    rewrite Edb.
    set (u := Cmod qx) in *. set (A := Cmod a * Cmod c) in *.
    assert (Pu : 0 < u) by (now apply Cmod_gt_0).
    assert (PA : 0 <= A) by (unfold A; apply Rmult_le_pos; apply Cmod_ge_0).
    set (v := A / u).
    assert (Pv : 0 <= v) by (unfold v, Rdiv; apply Rmult_le_pos; [exact PA | apply Rlt_le, Rinv_0_lt_compat; exact Pu]).
    assert (X5pos : 0 <= X5 - 1).
    { pose proof (near_ge1 _ _ Hr). unfold X5. assert (1 <= (1 + eps) * (1 + eps)) by nra.
      assert (1 <= (1 + eps) * (1 + eps) * (1 + eps)) by nra.
      assert (1 <= (1 + eps) * (1 + eps) * (1 + eps) * (1 + eps)) by nra. nra. }
    (* |db| <= 9.36 eps (u + v) *)
    assert (B1 : Cmod (- (qx * (rho0 - C1)) - a * c / qx * (rho1 - C1) - E / qx)%C <= 9.36 * eps * (u + v)).
    { eapply Rle_trans; [apply Cmod_minus_le|]. eapply Rle_trans; [apply Rplus_le_compat_r; apply Cmod_minus_le|].
      rewrite Cmod_opp, !Cmod_mult, !Cmod_div by exact Nqx. rewrite Cmod_mult. fold u A.
      unfold near in Hr0, Hr1.
      assert (T1 : u * Cmod (rho0 - C1)%C <= u * (4.19 * eps)) by (apply Rmult_le_compat_l; lra).
      assert (T2 : A / u * Cmod (rho1 - C1)%C <= A / u * (4.19 * eps)) by (apply Rmult_le_compat_l; [exact Pv|lra]).
      assert (T3 : Cmod E / u <= 5.17 * eps * u + 5.11 * eps * v).
      { unfold v. apply (Rmult_le_reg_r u); [exact Pu|].
        replace (Cmod E / u * u) with (Cmod E) by (field; lra).
        replace ((5.17 * eps * u + 5.11 * eps * (A / u)) * u) with (5.17 * eps * (u * u) + 5.11 * eps * A) by (field; lra).
        assert (0 <= u * u) by nra.
        assert ((X5 - 1) / (1 - eps) * (u * u) <= 5.17 * eps * (u * u)) by (apply Rmult_le_compat_r; lra).
        assert ((X5 - 1) * A <= 5.11 * eps * A) by (apply Rmult_le_compat_r; lra).
        lra. }
      fold v in T2 |- *. assert (0 <= eps * v) by (apply Rmult_le_pos; assumption). nra. }
    (* u^2 + v^2 <= 1.31 (|b|^2 + 4A) *)
    set (P := Cmod b * Cmod b + 4 * A) in *.
    pose proof (Cmod_ge_0 b) as Pb. pose proof (Cmod_ge_0 sh) as Ps.
    assert (PP : 0 <= P) by (unfold P; nra).
    assert (Hh : X5 - 1 <= 0.0511) by lra.
    assert (Ssq : Cmod sh * Cmod sh <= (1 + (X5 - 1)) * P /\ 4 * A - Cmod b * Cmod b - (X5 - 1) * P <= Cmod sh * Cmod sh).
    { rewrite <- Cmod_mult.
      assert (DD : Cmod (qdisc a b c) <= P /\ 4 * A - Cmod b * Cmod b <= Cmod (qdisc a b c)).
      { unfold qdisc, P. split.
        - eapply Rle_trans; [apply Cmod_minus_le|]. rewrite !Cmod_mult, Cmod_INR4. unfold A. lra.
        - assert (K : Cmod (a * RtoC (INR 4) * c)%C <= Cmod (b * b - a * RtoC (INR 4) * c)%C + Cmod (b * b)%C).
          { replace (a * RtoC (INR 4) * c)%C with (- (b * b - a * RtoC (INR 4) * c) + b * b)%C at 1 by ring.
            eapply Rle_trans; [apply Cmod_triangle|]. rewrite Cmod_opp. lra. }
          rewrite !Cmod_mult, Cmod_INR4 in K. unfold A. lra. }
      assert (T : Cmod (sh * sh)%C <= Cmod (qdisc a b c) + Cmod (sh * sh - qdisc a b c)%C).
      { replace (sh * sh)%C with (qdisc a b c + (sh * sh - qdisc a b c))%C at 1 by ring. apply Cmod_triangle. }
      assert (T' : Cmod (qdisc a b c) <= Cmod (sh * sh)%C + Cmod (sh * sh - qdisc a b c)%C).
      { replace (qdisc a b c) with (sh * sh + - (sh * sh - qdisc a b c))%C at 1 by ring.
        eapply Rle_trans; [apply Cmod_triangle|]. rewrite Cmod_opp. lra. }
      fold A in HD. fold P in HD. lra. }
    destruct Ssq as [Ss1 Ss2].
    assert (Uq : u * u <= 1.03 * P).
    { assert (U1 : u <= (Cmod b + Cmod sh) / 2).
      { unfold u. rewrite Eqx, Cmod_mult, Cmod_mhalf.
        assert (Cmod (b + sh * RtoC sg)%C <= Cmod b + Cmod sh).
        { eapply Rle_trans; [apply Cmod_triangle|]. rewrite Cmod_mult, Cmod_R.
          destruct Hsg as [-> | ->]; [rewrite Rabs_R1 | rewrite Rabs_Ropp, Rabs_R1]; lra. }
        lra. }
      assert (U2 : u * u <= ((Cmod b + Cmod sh) / 2) * ((Cmod b + Cmod sh) / 2)) by (apply Rmult_le_compat; lra).
      assert (0 <= (Cmod b - Cmod sh) * (Cmod b - Cmod sh)) by apply Rle_0_sqr.
      assert (Cmod b * Cmod b <= P) by (unfold P; lra). nra. }
    assert (Lq : 0.89 * A <= u * u).
    { fold u in NC.
      assert (K : (1 + (X5 - 1)) * (Cmod b * Cmod b + Cmod sh * Cmod sh) >= 4 * A * (1 - (X5 - 1))).
      { unfold P in Ss2. nra. }
      assert (K2 : (1 + (X5 - 1)) * (4 * (u * u)) >= (1 - eps) * (4 * A * (1 - (X5 - 1)))) by nra.
      nra. }
    assert (Vq : v * v <= 1.13 * A).
    { unfold v. apply (Rmult_le_reg_r (u * u)); [nra|].
      replace (A / u * (A / u) * (u * u)) with (A * A) by (field; lra). nra. }
    assert (UV : (u + v) * (u + v) <= 2.63 * P).
    { assert (0 <= (u - v) * (u - v)) by apply Rle_0_sqr. unfold P in *. nra. }
    set (m := Cmod (- (qx * (rho0 - C1)) - a * c / qx * (rho1 - C1) - E / qx)%C) in *.
    assert (Pm : 0 <= m) by apply Cmod_ge_0.
    assert (M2 : m * m <= (9.36 * eps * (u + v)) * (9.36 * eps * (u + v))) by (apply Rmult_le_compat; lra).
    assert (M3 : (9.36 * eps * (u + v)) * (9.36 * eps * (u + v)) <= (9.36 * eps) * (9.36 * eps) * (2.63 * P)).
    { replace ((9.36 * eps * (u + v)) * (9.36 * eps * (u + v))) with ((9.36 * eps) * (9.36 * eps) * ((u + v) * (u + v))) by ring.
      apply Rmult_le_compat_l; [nra|exact UV]. }
    assert (M4 : (9.36 * eps) * (9.36 * eps) * (2.63 * P) <= (16 * eps) * (16 * eps) * P).
    { assert (0 <= eps * eps * P) by (apply Rmult_le_pos; [nra|exact PP]). nra. }
    lra.
Qed.

Theorem quadratic_simultaneous_local_lemma (eps : R) (O : RoundOps) (a b c : C) :
  0 <= eps <= / 100 -> a <> C0 -> quad_ops_ok eps O a b c ->
  exists r0 r1 db dc : C, poly_solve (RoundRAo eps O) [c; b; a] false = Ok ([r0; r1], []) /\
    (forall x : C, (a * x * x + (b + db) * x + (c + dc))%C = (a * (x - r0) * (x - r1))%C) /\
    Cmod dc <= (2 * eps + eps * eps) * Cmod c /\
    Cmod db * Cmod db <= (16 * eps) * (16 * eps) * (Cmod b * Cmod b + 4 * (Cmod a * Cmod c)).
Proof.
  intros Heps Hnz H. unfold quad_ops_ok in H. cbv zeta in H.
  destruct H as (H1 & H2 & H3 & H4 & H5 & H6 & H7 & H8 & H9 & H10 & H11).
  rewrite poly_solve_deg2_o_eq. unfold o_q, q_q, q_sgn, q_disc.
  match goal with |- context [Ceq_dec ?q C0] => set (qq := q) in * end.
  destruct (Ceq_dec qq C0) as [Z|NZ].
  - destruct (quad_residual_rel eps a b c _ _ _ _ _ _ _ _ _ _ Heps Hnz H1 H2 H3 H4 H5 H6 H7 H8 H9 H10) as (_ & _ & B2).
    destruct (B2 Z) as [Zb Zc].
    assert (Zr : o_div O qq a = C0).
    { unfold relc in H10. rewrite Z in H10. replace (C0 / a)%C with C0 in H10 by (field; exact Hnz).
      rewrite Cmod_0, Rmult_0_r in H10. rewrite Z. now apply Cmod_sub_0. }
    exists (o_div O qq a), (o_div O qq a), C0, C0. split; [reflexivity|].
    rewrite Zr, Zb, Zc. split; [intros x; ring|]. rewrite !Cmod_0. split; nra.
  - destruct (quad_simultaneous_rel eps a b c _ _ _ _ _ _ _ _ _ (o_div O qq a) (o_div O c qq) Heps Hnz H1 H2 H3 H4 H5 H6 H7 H8 H9 H10 NZ (H11 NZ))
      as (db & dc & I & Bc & Bb).
    exists (o_div O qq a), (o_div O c qq), db, dc. split; [reflexivity|]. split; [exact I|]. split; assumption.
Qed.
