(* Proofs/MatNormLawsBase.v -- real-number toolbox for the norm laws of Model/MatNorms.v at the real
   arithmetic [AR]/[SAR] of Proofs/MatNormsR.v (package matnorm):
     - the code's left-fold sums [sum_n (A:=AR)] as finite real sums (monotone, linear, triangle inequality,
       blocks r*c = r blocks of c, exchange of two sums, product of two sums, Cauchy-Schwarz, Minkowski for p = 2);
     - "N is the maximum of 0 and a family" ([ismax]) and what follows from it;
     - the five norms of a matrix whose entries are given by [msp r c f m], as facts about f alone;
     - the vector norms of Model/Vector.v at AR as sums / maxima over indices.
   No statement here is pinned; the pinned theorems are in MatNormLawsP / MatNormLawsAx / MatNormLawsMul. *)
From Coq Require Import List Arith Lia Reals Lra Bool.
From OV Require Import Base.Panic Base.Arith Model.Vector Model.Matrix Model.MatNorms.
From OV Require Import Proofs.Matrix Proofs.MatrixArith Proofs.MatNorms Proofs.MatNormsR.
Import ListNotations.
Local Open Scope R_scope.

(* the code's left-fold sum at AR, typed as a real number *)
Definition Rs (n : nat) (f : nat -> R) : R := sum_n (A:=AR) n f.

(* ------------------------------------------------------------------ finite sums *)
Lemma Rs_0 f : Rs 0 f = 0.
Proof. reflexivity. Qed.
Lemma Rs_S n f : Rs (S n) f = Rs n f + f n.
Proof. reflexivity. Qed.

Lemma Rs_ext n f g : (forall k, (k < n)%nat -> f k = g k) -> Rs n f = Rs n g.
Proof. apply (sum_n_ext (A:=AR)). Qed.

Lemma Rs_nonneg n f : (forall k, (k < n)%nat -> 0 <= f k) -> 0 <= Rs n f.
Proof.
  induction n as [|n IH]; intros H; [rewrite Rs_0; lra|].
  rewrite Rs_S. assert (0 <= Rs n f) by (apply IH; intros; apply H; lia).
  assert (0 <= f n) by (apply H; lia). lra.
Qed.

Lemma Rs_le n f g : (forall k, (k < n)%nat -> f k <= g k) -> Rs n f <= Rs n g.
Proof.
  induction n as [|n IH]; intros H; [rewrite !Rs_0; lra|].
  rewrite !Rs_S. assert (Rs n f <= Rs n g) by (apply IH; intros; apply H; lia).
  assert (f n <= g n) by (apply H; lia). lra.
Qed.

Lemma Rs_scal n c f : Rs n (fun k => c * f k) = c * Rs n f.
Proof. induction n as [|n IH]; [rewrite !Rs_0; ring|]. rewrite !Rs_S, IH. ring. Qed.

Lemma Rs_scal_r n c f : Rs n (fun k => f k * c) = Rs n f * c.
Proof. induction n as [|n IH]; [rewrite !Rs_0; ring|]. rewrite !Rs_S, IH. ring. Qed.

Lemma Rs_plus n f g : Rs n (fun k => f k + g k) = Rs n f + Rs n g.
Proof. induction n as [|n IH]; [rewrite !Rs_0; ring|]. rewrite !Rs_S, IH. ring. Qed.

Lemma Rs_zero n : Rs n (fun _ => 0) = 0.
Proof. induction n as [|n IH]; [reflexivity|]. rewrite Rs_S, IH. ring. Qed.

Lemma Rs_const n c : Rs n (fun _ => c) = INR n * c.
Proof. induction n as [|n IH]; [rewrite Rs_0; cbn; ring|]. rewrite Rs_S, IH, S_INR. ring. Qed.

Lemma Rs_abs n f : Rabs (Rs n f) <= Rs n (fun k => Rabs (f k)).
Proof.
  induction n as [|n IH]; [rewrite !Rs_0, Rabs_R0; lra|].
  rewrite !Rs_S. pose proof (Rabs_triang (Rs n f) (f n)). lra.
Qed.

Lemma Rs_term_le n f k : (forall k, (k < n)%nat -> 0 <= f k) -> (k < n)%nat -> f k <= Rs n f.
Proof.
  induction n as [|n IH]; intros H Hk; [lia|]. rewrite Rs_S.
  assert (0 <= Rs n f) by (apply Rs_nonneg; intros; apply H; lia).
  assert (0 <= f n) by (apply H; lia).
  destruct (Nat.eq_dec k n) as [->|Hne]; [lra|].
  assert (f k <= Rs n f) by (apply IH; [intros; apply H; lia|lia]). lra.
Qed.

Lemma Rs_eq0 n f : (forall k, (k < n)%nat -> 0 <= f k) -> Rs n f = 0 ->
  forall k, (k < n)%nat -> f k = 0.
Proof.
  intros H E k Hk. pose proof (Rs_term_le n f k H Hk). pose proof (H k Hk). lra.
Qed.

Lemma Rs_all0 n f : (forall k, (k < n)%nat -> f k = 0) -> Rs n f = 0.
Proof. intros H. rewrite (Rs_ext n f (fun _ => 0) H). apply Rs_zero. Qed.

Lemma Rs_app a b f : Rs (a + b) f = Rs a f + Rs b (fun k => f (a + k)%nat).
Proof.
  induction b as [|b IH]; [rewrite Nat.add_0_r, Rs_0; ring|].
  replace (a + S b)%nat with (S (a + b)) by lia. rewrite !Rs_S, IH. ring.
Qed.

(* a sum over r*c consecutive indices = r blocks of c *)
Lemma Rs_block r c f : Rs (r * c) f = Rs r (fun i => Rs c (fun j => f (i * c + j)%nat)).
Proof.
  induction r as [|r IH]; [reflexivity|].
  replace (S r * c)%nat with (r * c + c)%nat by lia. rewrite Rs_app, IH, Rs_S. reflexivity.
Qed.

Lemma Rs_swap r c (F : nat -> nat -> R) :
  Rs r (fun i => Rs c (fun j => F i j)) = Rs c (fun j => Rs r (fun i => F i j)).
Proof.
  induction r as [|r IH]; [rewrite Rs_0; symmetry; apply Rs_zero|].
  rewrite Rs_S, IH, <- Rs_plus. apply Rs_ext. intros j _. now rewrite Rs_S.
Qed.

Lemma Rs_mul n m f g : Rs n f * Rs m g = Rs n (fun i => Rs m (fun j => f i * g j)).
Proof.
  rewrite <- Rs_scal_r. apply Rs_ext. intros i _. now rewrite Rs_scal.
Qed.

(* Cauchy-Schwarz for indexed sums (the inductive step is VectorR.cs_step, restated here to keep this file
   independent of the other real instance) *)
Lemma cs_step (A B C x y : R) : 0 <= A -> 0 <= B -> C * C <= A * B ->
  (C + x * y) * (C + x * y) <= (A + x * x) * (B + y * y).
Proof.
  intros HA HB IH.
  assert (Hk : 2 * C * (x * y) <= A * (y * y) + B * (x * x)).
  { destruct (Req_dec A 0) as [HA0|HA0].
    - subst A. assert (HC : C * C <= 0) by lra. pose proof (Rle_0_sqr C) as H0. unfold Rsqr in H0.
      assert (H : C * C = 0) by lra. assert (C = 0) by (apply Rsqr_0_uniq; exact H). subst C.
      pose proof (Rle_0_sqr x) as Hx. unfold Rsqr in Hx. nra.
    - assert (HA1 : 0 < A) by lra.
      assert (Hm : 0 <= A * (A * (y * y) + B * (x * x) - 2 * C * (x * y))).
      { replace (A * (A * (y * y) + B * (x * x) - 2 * C * (x * y)))
          with ((A * y - C * x) * (A * y - C * x) + (A * B - C * C) * (x * x)) by ring.
        pose proof (Rle_0_sqr (A * y - C * x)) as H1. unfold Rsqr in H1.
        pose proof (Rle_0_sqr x) as H2. unfold Rsqr in H2.
        assert (0 <= (A * B - C * C) * (x * x)) by (apply Rmult_le_pos; lra). lra. }
      assert (0 <= A * (y * y) + B * (x * x) - 2 * C * (x * y)).
      { apply (Rmult_le_reg_l A); [exact HA1|]. lra. }
      lra. }
  replace ((C + x * y) * (C + x * y)) with (x * x * (y * y) + 2 * C * (x * y) + C * C) by ring.
  replace ((A + x * x) * (B + y * y)) with (x * x * (y * y) + (A * (y * y) + B * (x * x)) + A * B) by ring.
  lra.
Qed.

Lemma Rs_sq_nonneg n f : 0 <= Rs n (fun k => f k * f k).
Proof. apply Rs_nonneg. intros k _. pose proof (Rle_0_sqr (f k)) as H. unfold Rsqr in H. exact H. Qed.

Lemma Rs_cs n f g :
  Rs n (fun k => f k * g k) * Rs n (fun k => f k * g k) <=
  Rs n (fun k => f k * f k) * Rs n (fun k => g k * g k).
Proof.
  induction n as [|n IH]; [rewrite !Rs_0; lra|].
  rewrite !Rs_S. apply cs_step; [apply Rs_sq_nonneg|apply Rs_sq_nonneg|exact IH].
Qed.

(* C <= R_sqrt.sqrt A * R_sqrt.sqrt B from C^2 <= A B *)
Lemma le_sqrt_mul A B C : 0 <= A -> 0 <= B -> C * C <= A * B -> C <= R_sqrt.sqrt A * R_sqrt.sqrt B.
Proof.
  intros HA HB CS.
  pose proof (sqrt_pos A) as HP. pose proof (sqrt_pos B) as HQ.
  pose proof (sqrt_sqrt A HA) as EP. pose proof (sqrt_sqrt B HB) as EQ.
  set (P := R_sqrt.sqrt A) in *. set (Q := R_sqrt.sqrt B) in *.
  destruct (Rle_dec C (P * Q)) as [|Hn]; auto. exfalso.
  assert (P * Q < C) by lra. assert (0 <= P * Q) by nra.
  assert ((P * Q) * (P * Q) < C * C) by nra.
  replace ((P * Q) * (P * Q)) with ((P * P) * (Q * Q)) in * by ring. rewrite EP, EQ in *. lra.
Qed.

(* Minkowski, p = 2 *)
Lemma Rs_mink2 n f g :
  R_sqrt.sqrt (Rs n (fun k => (f k + g k) * (f k + g k))) <=
  R_sqrt.sqrt (Rs n (fun k => f k * f k)) + R_sqrt.sqrt (Rs n (fun k => g k * g k)).
Proof.
  pose proof (Rs_sq_nonneg n f) as HA. pose proof (Rs_sq_nonneg n g) as HB.
  pose proof (Rs_cs n f g) as CS.
  assert (E : Rs n (fun k => (f k + g k) * (f k + g k)) =
              Rs n (fun k => f k * f k) + 2 * Rs n (fun k => f k * g k) + Rs n (fun k => g k * g k)).
  { rewrite <- Rs_scal, <- !Rs_plus. apply Rs_ext. intros k _. ring. }
  rewrite E.
  set (A := Rs n (fun k => f k * f k)) in *. set (B := Rs n (fun k => g k * g k)) in *.
  set (C := Rs n (fun k => f k * g k)) in *.
  pose proof (le_sqrt_mul A B C HA HB CS) as HC.
  pose proof (sqrt_pos A) as HP. pose proof (sqrt_pos B) as HQ.
  pose proof (sqrt_sqrt A HA) as EP. pose proof (sqrt_sqrt B HB) as EQ.
  set (P := R_sqrt.sqrt A) in *. set (Q := R_sqrt.sqrt B) in *.
  rewrite <- (sqrt_square (P + Q)) by lra.
  apply sqrt_le_1_alt. nra.
Qed.

(* the same for doubly indexed sums, by flattening *)
Lemma Rs2_flat r c (F : nat -> nat -> R) :
  Rs r (fun i => Rs c (fun j => F i j)) = Rs (r * c) (fun k => F (k / c)%nat (k mod c)%nat).
Proof.
  rewrite Rs_block. apply Rs_ext. intros i _. apply Rs_ext. intros j Hj.
  rewrite Nat.div_add_l, Nat.div_small, Nat.add_0_r by lia.
  rewrite Nat.add_comm, Nat.mod_add, Nat.mod_small by lia. reflexivity.
Qed.

Lemma Rs2_mink2 r c (F G : nat -> nat -> R) :
  R_sqrt.sqrt (Rs r (fun i => Rs c (fun j => (F i j + G i j) * (F i j + G i j)))) <=
  R_sqrt.sqrt (Rs r (fun i => Rs c (fun j => F i j * F i j))) + R_sqrt.sqrt (Rs r (fun i => Rs c (fun j => G i j * G i j))).
Proof.
  rewrite (Rs2_flat r c (fun i j => (F i j + G i j) * (F i j + G i j))),
          (Rs2_flat r c (fun i j => F i j * F i j)), (Rs2_flat r c (fun i j => G i j * G i j)).
  apply (Rs_mink2 (r * c) (fun k => F (k / c)%nat (k mod c)%nat) (fun k => G (k / c)%nat (k mod c)%nat)).
Qed.

(* ------------------------------------------------------------------ maxima of 0 and a family *)
Definition ismax (P : R -> Prop) (N : R) : Prop := (forall x, P x -> x <= N) /\ (N = 0 \/ P N).

Lemma ismax_nonneg P N : ismax P N -> (forall x, P x -> 0 <= x) -> 0 <= N.
Proof. intros (_ & [->|H]) Hp; [lra|auto]. Qed.

Lemma ismax_le P N B : ismax P N -> 0 <= B -> (forall x, P x -> x <= B) -> N <= B.
Proof. intros (_ & [->|H]) HB Hp; auto. Qed.

Lemma ismax_zero P N : ismax P N -> (forall x, P x -> 0 <= x) -> (N = 0 <-> forall x, P x -> x = 0).
Proof.
  intros (Hub & Hm) Hp. split.
  - intros -> x Hx. pose proof (Hub x Hx). pose proof (Hp x Hx). lra.
  - intros H0. destruct Hm as [->|Hm]; auto.
Qed.

Lemma ismax_iff (P Q : R -> Prop) N : ismax P N -> (forall x, P x <-> Q x) -> ismax Q N.
Proof.
  intros (Hub & Hmem) H. split.
  - intros x Hx. apply Hub. now apply H.
  - destruct Hmem as [->|Hm]; [now left|right; now apply H].
Qed.

Lemma ismax_scale P Q N N' k : ismax P N -> ismax Q N' -> (forall x, P x -> 0 <= x) -> 0 <= k ->
  (forall x, P x -> Q (k * x)) -> (forall y, Q y -> exists x, P x /\ y = k * x) -> N' = k * N.
Proof.
  intros HP HQ Hp Hk H1 H2. pose proof (ismax_nonneg P N HP Hp) as HN.
  apply Rle_antisym.
  - apply (ismax_le Q N' (k * N) HQ); [nra|].
    intros y Hy. destruct (H2 y Hy) as (x & Hx & ->). apply Rmult_le_compat_l; auto. now apply (proj1 HP).
  - destruct (proj2 HP) as [->|Hm].
    + rewrite Rmult_0_r. apply (ismax_nonneg Q N' HQ).
      intros y Hy. destruct (H2 y Hy) as (x & Hx & ->). apply Rmult_le_pos; auto.
    + apply (proj1 HQ). now apply H1.
Qed.

Lemma ismax_eq P Q N N' : ismax P N -> ismax Q N' -> (forall x, P x -> 0 <= x) ->
  (forall x, P x <-> Q x) -> N = N'.
Proof.
  intros HP HQ Hp H. symmetry. replace N with (1 * N) by ring.
  apply (ismax_scale P Q N N' 1 HP HQ Hp); [lra| |].
  - intros x Hx. rewrite Rmult_1_l. now apply H.
  - intros y Hy. exists y. split; [now apply H|ring].
Qed.

(* ------------------------------------------------------------------ the norms of a matrix with entries f *)
Definition csum (r : nat) (f : nat -> nat -> R) (j : nat) : R := Rs r (fun i => Rabs (f i j)).
Definition rsum (c : nat) (f : nat -> nat -> R) (i : nat) : R := Rs c (fun j => Rabs (f i j)).
Definition P1 (r c : nat) (f : nat -> nat -> R) : R -> Prop := fun x => exists j, (j < c)%nat /\ x = csum r f j.
Definition Pinf (r c : nat) (f : nat -> nat -> R) : R -> Prop := fun x => exists i, (i < r)%nat /\ x = rsum c f i.
Definition Pmax (r c : nat) (f : nat -> nat -> R) : R -> Prop :=
  fun x => exists i j, (i < r)%nat /\ (j < c)%nat /\ x = Rabs (f i j).
Definition sum2 (r c : nat) (F : nat -> nat -> R) : R := Rs r (fun i => Rs c (fun j => F i j)).

Lemma csum_nonneg r f j : 0 <= csum r f j.
Proof. apply Rs_nonneg. intros; apply Rabs_pos. Qed.
Lemma rsum_nonneg c f i : 0 <= rsum c f i.
Proof. apply Rs_nonneg. intros; apply Rabs_pos. Qed.
Lemma P1_nonneg r c f x : P1 r c f x -> 0 <= x.
Proof. intros (j & _ & ->). apply csum_nonneg. Qed.
Lemma Pinf_nonneg r c f x : Pinf r c f x -> 0 <= x.
Proof. intros (i & _ & ->). apply rsum_nonneg. Qed.
Lemma Pmax_nonneg r c f x : Pmax r c f x -> 0 <= x.
Proof. intros (i & j & _ & _ & ->). apply Rabs_pos. Qed.

Lemma sum2_ext r c F G : (forall i j, (i < r)%nat -> (j < c)%nat -> F i j = G i j) -> sum2 r c F = sum2 r c G.
Proof. intros H. apply Rs_ext. intros i Hi. apply Rs_ext. intros j Hj. now apply H. Qed.
Lemma sum2_nonneg r c F : (forall i j, (i < r)%nat -> (j < c)%nat -> 0 <= F i j) -> 0 <= sum2 r c F.
Proof. intros H. apply Rs_nonneg. intros i Hi. apply Rs_nonneg. intros j Hj. now apply H. Qed.
Lemma sum2_le r c F G : (forall i j, (i < r)%nat -> (j < c)%nat -> F i j <= G i j) -> sum2 r c F <= sum2 r c G.
Proof. intros H. apply Rs_le. intros i Hi. apply Rs_le. intros j Hj. now apply H. Qed.
Lemma sum2_term_le r c F i j : (forall i j, (i < r)%nat -> (j < c)%nat -> 0 <= F i j) ->
  (i < r)%nat -> (j < c)%nat -> F i j <= sum2 r c F.
Proof.
  intros H Hi Hj. apply Rle_trans with (Rs c (fun j => F i j)).
  - apply (Rs_term_le c (fun j => F i j) j); auto.
  - apply (Rs_term_le r (fun i => Rs c (fun j => F i j)) i); auto.
    intros i' Hi'. apply Rs_nonneg. auto.
Qed.
Lemma sum2_swap r c F : sum2 r c F = sum2 c r (fun j i => F i j).
Proof. apply Rs_swap. Qed.

Section WithMsp.
Variables (r c : nat) (f : nat -> nat -> R) (m : matrix AR).
Hypothesis Hm : msp (A:=AR) r c f m.

Lemma msp_colsum j : (j < c)%nat -> colsum (SS:=SAR) m j = csum r f j.
Proof.
  intros Hj. destruct Hm as (_ & Hr & Hc & He). unfold csum.
  change (colsum (SS:=SAR) m j) with (Rs (rows m) (fun i => Rabs (entry (A:=AR) m i j))). rewrite Hr.
  apply Rs_ext. intros i Hi. now rewrite He.
Qed.
Lemma msp_rowsum i : (i < r)%nat -> rowsum (SS:=SAR) m i = rsum c f i.
Proof.
  intros Hi. destruct Hm as (_ & Hr & Hc & He). unfold rsum.
  change (rowsum (SS:=SAR) m i) with (Rs (cols m) (fun j => Rabs (entry (A:=AR) m i j))). rewrite Hc.
  apply Rs_ext. intros j Hj. now rewrite He.
Qed.

Lemma n1_msp : exists N, mnorm_1 (S:=SAR) m = Ok N /\ ismax (P1 r c f) N.
Proof.
  pose proof Hm as (Hw & Hr & Hc & He).
  destruct (norms_real_lemma m Hw) as ((N & E & Hub & Hmem) & _).
  exists N; split; [exact E|]. rewrite Hc in *. split.
  - intros x (j & Hj & ->). rewrite <- msp_colsum by exact Hj. now apply Hub.
  - destruct Hmem as [->|(j & Hj & ->)]; [now left|right]. exists j; split; auto. now apply msp_colsum.
Qed.

Lemma ninf_msp : exists N, mnorm_inf (S:=SAR) m = Ok N /\ ismax (Pinf r c f) N.
Proof.
  pose proof Hm as (Hw & Hr & Hc & He).
  destruct (norms_real_lemma m Hw) as (_ & (N & E & Hub & Hmem) & _).
  exists N; split; [exact E|]. rewrite Hr in *. split.
  - intros x (i & Hi & ->). rewrite <- msp_rowsum by exact Hi. now apply Hub.
  - destruct Hmem as [->|(i & Hi & ->)]; [now left|right]. exists i; split; auto. now apply msp_rowsum.
Qed.

Lemma nmax_msp : exists N, mnorm_max (S:=SAR) m = Ok N /\ ismax (Pmax r c f) N.
Proof.
  pose proof Hm as (Hw & Hr & Hc & He).
  destruct (norms_real_lemma m Hw) as (_ & _ & (N & E & Hub & Hmem) & _).
  exists N; split; [exact E|]. rewrite Hr, Hc in *. split.
  - intros x (i & j & Hi & Hj & ->). rewrite <- He by auto. now apply Hub.
  - destruct Hmem as [->|(i & j & Hi & Hj & ->)]; [now left|right]. exists i, j. repeat split; auto.
    now rewrite He.
Qed.

(* the entrywise sum of norm_p / norm_frob as a double sum over the entries *)
Lemma buf_sum_msp (G : R -> R) :
  Rs (length (buf m)) (fun k => G (nth k (buf m) 0)) = sum2 r c (fun i j => G (f i j)).
Proof.
  destruct Hm as (Hw & Hr & Hc & He). rewrite Hw, Hr, Hc, Rs_block. apply sum2_ext.
  intros i j Hi Hj. rewrite <- He by auto. unfold entry. now rewrite Hc.
Qed.

Lemma np_msp (pw root : R -> R) :
  mnorm_p (S:=SAR) pw root m = Ok (root (sum2 r c (fun i j => pw (Rabs (f i j))))).
Proof.
  pose proof Hm as (Hw & _). rewrite (mnorm_p_lemma (SS:=SAR) pw root m Hw).
  do 2 f_equal. apply (buf_sum_msp (fun x => pw (Rabs x))).
Qed.

Lemma nfrob_msp : mnorm_frob (S:=SAR) m = Ok (R_sqrt.sqrt (sum2 r c (fun i j => f i j * f i j))).
Proof.
  pose proof Hm as (Hw & _).
  destruct (norms_real_lemma m Hw) as (_ & _ & _ & _ & E). rewrite E.
  do 2 f_equal. apply (buf_sum_msp (fun x => x * x)).
Qed.

End WithMsp.

(* ------------------------------------------------------------------ vector norms at AR as indexed sums *)
Lemma fold_sum_acc (F : R -> R) (v : list R) a :
  fold_left (fun acc x => acc + F x) v a = sum_acc (A:=AR) a (length v) (fun k => F (nth k v 0)).
Proof.
  revert a; induction v as [|x v IH]; intros a; [reflexivity|].
  cbn [fold_left length]. rewrite (sum_acc_shift (A:=AR)). cbn [nth]. apply IH.
Qed.

Lemma vnorm_1_sum (v : list R) : norm_1 (A:=AR) v = Rs (length v) (fun k => Rabs (nth k v 0)).
Proof. unfold norm_1. rewrite <- (sum_acc_zero (A:=AR)). apply (fold_sum_acc Rabs). Qed.

Lemma vnorm_2_sum (v : list R) :
  norm_2 (F:=SAR) Rabs v = R_sqrt.sqrt (Rs (length v) (fun k => nth k v 0 * nth k v 0)).
Proof.
  unfold norm_2. cbn [Arith.sqrt SAR]. f_equal. rewrite <- (sum_acc_zero (A:=AR)).
  rewrite (fold_sum_acc (fun x => Rabs x * Rabs x)). rewrite !(sum_acc_zero (A:=AR)).
  apply Rs_ext. intros k _. rewrite <- Rabs_mult. apply Rabs_pos_eq.
  pose proof (Rle_0_sqr (nth k v 0)) as H. exact H.
Qed.

Definition vmaxstep (r x : R) : R := if ltb (a:=AR) r (Rabs x) then Rabs x else r.

Lemma vmax_fold (t : list R) : forall r,
  let N := fold_left vmaxstep t r in
  r <= N /\ (forall k, (k < length t)%nat -> Rabs (nth k t 0) <= N) /\
  (N = r \/ exists k, (k < length t)%nat /\ N = Rabs (nth k t 0)).
Proof.
  induction t as [|x t IH]; intros r; cbn zeta.
  - cbn [fold_left length]. repeat split; [lra|intros; lia|now left].
  - cbn [fold_left length]. destruct (IH (vmaxstep r x)) as (H1 & H2 & H3).
    assert (Hs : r <= vmaxstep r x /\ Rabs x <= vmaxstep r x /\ (vmaxstep r x = r \/ vmaxstep r x = Rabs x)).
    { unfold vmaxstep. cbn [ltb AR]. unfold R_ltb. destruct (Rlt_dec r (Rabs x)); repeat split; auto; lra. }
    destruct Hs as (Ha & Hb & Hc). repeat split.
    + lra.
    + intros [|k] Hk; cbn [nth]; [lra|]. apply H2. lia.
    + destruct H3 as [->|(k & Hk & ->)].
      * destruct Hc as [->| ->]; [now left|right]. exists 0%nat. split; [lia|reflexivity].
      * right. exists (S k). split; [lia|reflexivity].
Qed.

Lemma vnorm_inf_char (v : list R) : v <> [] ->
  exists N, norm_inf (F:=SAR) Rabs v = Ok N /\
    (forall k, (k < length v)%nat -> Rabs (nth k v 0) <= N) /\
    (exists k, (k < length v)%nat /\ N = Rabs (nth k v 0)).
Proof.
  destruct v as [|x0 t]; [congruence|]. intros _. unfold norm_inf. cbn [rd nth_error bind skipn].
  eexists; split; [reflexivity|].
  destruct (vmax_fold t (Rabs x0)) as (H1 & H2 & H3). fold vmaxstep. split.
  - intros [|k] Hk; cbn [nth]; [exact H1|]. apply H2. cbn [length] in Hk. lia.
  - destruct H3 as [E|(k & Hk & E)].
    + exists 0%nat. split; [cbn [length]; lia|exact E].
    + exists (S k). split; [cbn [length]; lia|exact E].
Qed.
