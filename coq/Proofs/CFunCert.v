(* Proofs/CFunCert.v -- region lemmas for the piecewise [atan2] and the staged Interval tactic [cert]
   used by the certificate files of the C14 correspondence check (DESIGN 4.2).

   A certificate is a goal  Rabs (re (f (x0, y0)) - v) <= tol  with dyadic literals x0 y0 v.
   [cert] evaluates it innermost heavy primitive first (csqrt / cln / cexp / arg ...): the argument of
   the primitive is reduced to a pair of real expressions, each component is replaced by a fresh variable
   with a kernel-certified enclosure ([interval_intro] at 90 bits), the primitive is rewritten by its pair
   lemma (the branch of [atan2] chosen by a region lemma whose side condition is proved by [interval]
   from the enclosures), and so on outward; the last step is a plain [interval]. *)
From Coq Require Import Reals Lra.
From Interval Require Import Tactic.
From OV Require Import Model.CFun Proofs.CFunArg.
Local Open Scope R_scope.

(* ---------- boxing ---------- *)
Lemma pair_cut (P : C -> Prop) (p : C) :
  (forall va vb : R, va = re p -> vb = im p -> P (va, vb)) -> P p.
Proof. destruct p as [a b]. intros H. apply H; reflexivity. Qed.

Lemma real_cut (P : R -> Prop) (a : R) : (forall va : R, va = a -> P va) -> P a.
Proof. intros H. apply H. reflexivity. Qed.

(* pair lemmas of the primitives on an explicit pair *)
Lemma csqrt_pair a b :
  csqrt (a, b) = (sqrt (sqrt (a * a + b * b)) * cos (1 / 2 * atan2 b a),
                  sqrt (sqrt (a * a + b * b)) * sin (1 / 2 * atan2 b a)).
Proof. reflexivity. Qed.
Lemma cln_pair a b : cln (a, b) = (ln (sqrt (a * a + b * b)), atan2 b a).
Proof. reflexivity. Qed.
Lemma arg_pair a b : arg (a, b) = atan2 b a.
Proof. reflexivity. Qed.
Lemma cabs_pair a b : cabs (a, b) = sqrt (a * a + b * b).
Proof. reflexivity. Qed.
Lemma cexp_pair a b : cexp (a, b) = (exp a * cos b, exp a * sin b).
Proof. reflexivity. Qed.

Ltac cfun_simpl :=
  cbn [re im fst snd czero cone ci cconj cneg cadd csub cmul cdiv cadd_r csub_r cmul_r abs_sqr].
Ltac cfun_simpl_in H :=
  cbn [re im fst snd czero cone ci cconj cneg cadd csub cmul cdiv cadd_r csub_r cmul_r abs_sqr] in H.

Ltac ivl := interval with (i_prec 70).

(* replace the real expression on the right of [E : v = expr] by an enclosure of v
   (a rational literal is substituted instead: it needs no enclosure) *)
Ltac box_eq E :=
  lazymatch type of E with
  | ?v = IZR ?n => subst v
  | ?v = IZR ?n / IZR ?d => subst v
  | ?v = ?a =>
      let H := fresh "B" in
      interval_intro a with (i_prec 70) as H;
      lazymatch type of H with
      | ?lo <= _ <= ?hi =>
          let H2 := fresh "B" in
          pose proof (eq_ind_r (fun t : R => lo <= t <= hi) H E) as H2; cbv beta in H2; clear H E
      end
  end.

(* boxed variables that no longer occur in the goal are dropped (the reifier scans every hypothesis) *)
Ltac drop_dead :=
  repeat match goal with
  | H : _ <= ?v <= _ |- _ => is_var v; clear H v
  end.

(* the complex argument p of a primitive becomes a pair of boxed variables *)
Ltac box_pair p :=
  pattern p; apply pair_cut;
  let va := fresh "a" in let vb := fresh "b" in
  let Ea := fresh "Ea" in let Eb := fresh "Eb" in
  intros va vb Ea Eb; cfun_simpl_in Ea; cfun_simpl_in Eb; box_eq Ea; box_eq Eb; drop_dead.

Ltac side := solve [ lra | ivl ].

(* choose the branch of atan2 from the enclosures of its arguments: the sign facts are established first
   (cheap), the rewrite happens once *)
Ltac resolve_one y x :=
  let H := fresh "S" in
  first [ assert (H : 0 < x) by side; rewrite (atan2_xpos y x H)
        | assert (H : 0 < y) by side; rewrite (atan2_ypos y x H)
        | assert (H : y < 0) by side; rewrite (atan2_yneg y x H)
        | assert (H : x < 0) by side;
          let H2 := fresh "S" in
          first [ assert (H2 : 0 <= y) by side; rewrite (atan2_xneg_ynonneg y x H H2)
                | assert (H2 : y < 0) by side; rewrite (atan2_xneg_yneg y x H H2) ]; clear H2 ];
  clear H.
Ltac resolve_atan2 :=
  repeat match goal with
  | |- context [atan2 ?y ?x] => resolve_one y x
  end.

(* p contains no unevaluated heavy primitive *)
Ltac is_flat p :=
  lazymatch p with
  | context [csqrt _] => fail
  | context [cln _] => fail
  | context [cexp _] => fail
  | context [arg _] => fail
  | context [cabs _] => fail
  | _ => idtac
  end.

(* a variable or a rational literal *)
Ltac is_atom a :=
  first [ is_var a
        | lazymatch a with
          | IZR _ => idtac
          | IZR _ / IZR _ => idtac
          end ].
Ltac is_atom_pair p := lazymatch p with (?a, ?b) => is_atom a; is_atom b end.

Ltac stage :=
  match goal with
  | |- context [csqrt ?p] => is_flat p;
      tryif is_atom_pair p
      then (lazymatch p with (?a, ?b) => rewrite (csqrt_pair a b); resolve_atan2 end)
      else box_pair p
  | |- context [cln ?p] => is_flat p;
      tryif is_atom_pair p
      then (lazymatch p with (?a, ?b) => rewrite (cln_pair a b); resolve_atan2 end)
      else box_pair p
  | |- context [arg ?p] => is_flat p;
      tryif is_atom_pair p
      then (lazymatch p with (?a, ?b) => rewrite (arg_pair a b); resolve_atan2 end)
      else box_pair p
  | |- context [cexp ?p] => is_flat p;
      tryif is_atom_pair p
      then (lazymatch p with (?a, ?b) => rewrite (cexp_pair a b) end)
      else box_pair p
  | |- context [cabs ?p] => is_flat p;
      tryif is_atom_pair p
      then (lazymatch p with (?a, ?b) => rewrite (cabs_pair a b) end)
      else box_pair p
  end.

Ltac unfold_outer :=
  unfold casec, cacsc, cacot, casech, cacsch, cacoth;
  unfold casin, cacos, catan, casinh, cacosh, catanh;
  unfold ccot, ccoth;
  unfold ctan, csec, ccsc, ctanh, csech, ccsch, clog;
  unfold csin, ccos, csinh, ccosh, cpow, cpowf, cpolar.

Ltac finish := cfun_simpl; unfold cosh, sinh, Rpower; ivl.

Ltac cert := unfold_outer; repeat stage; finish.

(* both components of one value: the staging is shared *)
Ltac cert2 := unfold_outer; repeat stage; split; finish.

Ltac chk k P := tryif (assert P by cert) then idtac "OK" k else idtac "FAIL" k.
Ltac chk2 k1 P1 k2 P2 :=
  tryif (assert (P1 /\ P2) by cert2) then (idtac "OK" k1; idtac "OK" k2) else (chk k1 P1; chk k2 P2).
