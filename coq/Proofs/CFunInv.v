(* Proofs/CFunInv.v -- every inverse function of Model/CFun.v is a right inverse of its forward function:
   f (f^-1 z) = z, by the exponential forms, exp (ln u) = u and sqrt(w)^2 = w. *)
From Coq Require Import Reals Lra Field.
From OV Require Import Model.CFun Proofs.CFunArg Proofs.CFun Proofs.CFunAlg.
Local Open Scope R_scope.

Ltac csolve_neq :=
  repeat split;
  first [ exact ci_neq0 | exact ctwo_neq0 | exact cone_neq_czero | assumption
        | (let H := fresh in intros H; inversion H; lra) ].

(* ---------- asin / acos ---------- *)
Lemma asin_core s z : cmul s s = csub cone (cmul z z) ->
  cmul (cadd s (cmul ci z)) (csub s (cmul ci z)) = cone.
Proof. intros Hs. ring [Hs ci_sqr]. Qed.

Lemma sin_asin_lemma z : csin (casin z) = z.
Proof.
  unfold casin.
  set (s := csqrt (csub cone (cmul z z))).
  assert (Hs : cmul s s = csub cone (cmul z z)) by apply sqrt_sqr_lemma.
  pose proof (asin_core s z Hs) as Huv.
  set (u := cadd s (cmul ci z)) in *. set (v := csub s (cmul ci z)) in *.
  assert (Hu : u <> czero) by apply (cmul_eq_1_neq0 _ _ Huv).
  rewrite csin_E.
  assert (Hiw : cmul ci (cmul (cneg ci) (cln u)) = cln u) by ring [ci_sqr].
  rewrite Hiw, exp_ln_lemma by exact Hu.
  rewrite (cinv_unique _ _ Huv).
  unfold u, v, ctwo. field. csolve_neq.
Qed.

Lemma cos_acos_lemma z : ccos (cacos z) = z.
Proof.
  unfold cacos. rewrite cadd_r_def.
  set (s := csqrt (csub cone (cmul z z))).
  assert (Hs : cmul s s = csub cone (cmul z z)) by apply sqrt_sqr_lemma.
  pose proof (asin_core s z Hs) as Huv.
  set (u := cadd s (cmul ci z)) in *. set (v := csub s (cmul ci z)) in *.
  assert (Hu : u <> czero) by apply (cmul_eq_1_neq0 _ _ Huv).
  rewrite ccos_E.
  assert (Hp : cmul ci (RtoC (PI / 2)) = (0, PI / 2)) by (csimpl; f_equal; ring).
  assert (Hiw : cmul ci (cadd (cmul ci (cln u)) (RtoC (PI / 2))) = cadd (cneg (cln u)) (0, PI / 2)).
  { rewrite <- Hp. ring [ci_sqr]. }
  rewrite Hiw, cexp_add, cexp_neg, exp_ln_lemma, cexp_i_PI2 by exact Hu.
  rewrite (cinv_unique _ _ Huv).
  assert (HE : cinv (cmul v ci) = cmul u (cneg ci)).
  { apply cinv_unique. ring [Huv ci_sqr]. }
  rewrite HE.
  transitivity (cdiv (cmul ctwo z) ctwo).
  - f_equal. unfold u, v, ctwo. ring [ci_sqr].
  - unfold ctwo. field. csolve_neq.
Qed.

(* ---------- atan ---------- *)
Lemma tan_atan_lemma z : z <> ci -> z <> cneg ci -> ctan (catan z) = z.
Proof.
  intros Hzi Hzmi. unfold catan. rewrite cmul_r_def.
  set (a := csub cone (cmul ci z)). set (b := cadd cone (cmul ci z)).
  assert (Ha : a <> czero).
  { intros H. apply Hzmi.
    transitivity (cmul (cneg ci) (csub cone a)); [unfold a; ring [ci_sqr] | rewrite H; ring]. }
  assert (Hb : b <> czero).
  { intros H. apply Hzi.
    transitivity (cmul (cneg ci) (csub b cone)); [unfold b; ring [ci_sqr] | rewrite H; ring]. }
  set (w := cmul (cmul (csub (cln a) (cln b)) ci) (RtoC (1 / 2))).
  set (h := cmul ci w).
  assert (Hhh : cadd h h = csub (cln b) (cln a)).
  { unfold h, w.
    transitivity (cmul (cmul (cmul ci ci) (csub (cln a) (cln b))) (cadd (RtoC (1 / 2)) (RtoC (1 / 2)))); [ring|].
    rewrite ci_sqr, RtoC_half_double. ring. }
  set (E := cexp h).
  assert (HE : E <> czero) by apply cexp_neq0.
  assert (HQ : cmul (cmul E E) a = b).
  { unfold E. rewrite <- cexp_add, Hhh, cexp_sub, !exp_ln_lemma by assumption. field. exact Ha. }
  unfold ctan. rewrite csin_E, ccos_E.
  change (cmul ci w) with h. change (cexp h) with E.
  set (Q := cmul E E) in *.
  assert (HQ1 : csub Q cone = cmul (cmul ci z) (cadd Q cone)).
  { transitivity (cadd (csub (cmul Q a) b) (cmul (cmul ci z) (cadd Q cone))); [unfold a, b; ring | rewrite HQ; ring]. }
  assert (HQ2 : cadd Q cone <> czero).
  { intros H. apply ctwo_neq0.
    transitivity (cmul (cadd Q cone) a); [ | rewrite H; ring].
    transitivity (cadd (cmul Q a) a); [rewrite HQ; unfold a, b, ctwo; ring | ring]. }
  assert (Hz : z = cdiv (csub Q cone) (cmul ci (cadd Q cone))).
  { rewrite HQ1. field. split; [exact HQ2 | exact ci_neq0]. }
  rewrite Hz at 1. unfold Q in *. unfold ctwo. field. csolve_neq.
Qed.

(* ---------- asinh / acosh / atanh ---------- *)
Lemma sinh_asinh_lemma z : csinh (casinh z) = z.
Proof.
  unfold casinh. rewrite cadd_r_def, RtoC_1.
  set (s := csqrt (cadd (cmul z z) cone)).
  assert (Hs : cmul s s = cadd (cmul z z) cone) by apply sqrt_sqr_lemma.
  assert (Huv : cmul (cadd s z) (csub s z) = cone) by ring [Hs].
  set (u := cadd s z) in *. set (v := csub s z) in *.
  assert (Hu : u <> czero) by apply (cmul_eq_1_neq0 _ _ Huv).
  rewrite csinh_E, exp_ln_lemma by exact Hu.
  rewrite (cinv_unique _ _ Huv).
  unfold u, v, ctwo. field. csolve_neq.
Qed.

Lemma cosh_acosh_lemma z : ccosh (cacosh z) = z.
Proof.
  unfold cacosh. rewrite cadd_r_def, csub_r_def, RtoC_1.
  set (s1 := csqrt (csub z cone)). set (s2 := csqrt (cadd z cone)).
  assert (Hs1 : cmul s1 s1 = csub z cone) by apply sqrt_sqr_lemma.
  assert (Hs2 : cmul s2 s2 = cadd z cone) by apply sqrt_sqr_lemma.
  assert (Huv : cmul (cadd (cmul s1 s2) z) (csub z (cmul s1 s2)) = cone).
  { transitivity (csub (cmul z z) (cmul (cmul s1 s1) (cmul s2 s2))); [ring|]. rewrite Hs1, Hs2. ring. }
  set (u := cadd (cmul s1 s2) z) in *. set (v := csub z (cmul s1 s2)) in *.
  assert (Hu : u <> czero) by apply (cmul_eq_1_neq0 _ _ Huv).
  rewrite ccosh_E, exp_ln_lemma by exact Hu.
  rewrite (cinv_unique _ _ Huv).
  unfold u, v, ctwo. field. csolve_neq.
Qed.

Lemma tanh_atanh_lemma z : z <> cone -> z <> cneg cone -> ctanh (catanh z) = z.
Proof.
  intros Hz1 Hzm1. unfold catanh. rewrite cmul_r_def, cadd_r_def, RtoC_1.
  set (a := cadd z cone). set (b := csub cone z).
  assert (Ha : a <> czero).
  { intros H. apply Hzm1. transitivity (csub a cone); [unfold a; ring | rewrite H; ring]. }
  assert (Hb : b <> czero).
  { intros H. apply Hz1. transitivity (csub cone b); [unfold b; ring | rewrite H; ring]. }
  set (w := cmul (csub (cln a) (cln b)) (RtoC (1 / 2))).
  assert (Hww : cadd w w = csub (cln a) (cln b)).
  { unfold w. transitivity (cmul (csub (cln a) (cln b)) (cadd (RtoC (1 / 2)) (RtoC (1 / 2)))); [ring|].
    rewrite RtoC_half_double. ring. }
  set (E := cexp w).
  assert (HE : E <> czero) by apply cexp_neq0.
  assert (HQ : cmul (cmul E E) b = a).
  { unfold E. rewrite <- cexp_add, Hww, cexp_sub, !exp_ln_lemma by assumption. field. exact Hb. }
  unfold ctanh. rewrite csinh_E, ccosh_E. change (cexp w) with E.
  set (Q := cmul E E) in *.
  assert (HQ1 : csub Q cone = cmul z (cadd Q cone)).
  { transitivity (cadd (csub (cmul Q b) a) (cmul z (cadd Q cone))); [unfold a, b; ring | rewrite HQ; ring]. }
  assert (HQ2 : cadd Q cone <> czero).
  { intros H. apply ctwo_neq0.
    transitivity (cmul (cadd Q cone) b); [ | rewrite H; ring].
    transitivity (cadd (cmul Q b) b); [rewrite HQ; unfold a, b, ctwo; ring | ring]. }
  assert (Hz : z = cdiv (csub Q cone) (cadd Q cone)).
  { rewrite HQ1. field. exact HQ2. }
  rewrite Hz at 1. unfold Q in *. unfold ctwo. field. csolve_neq.
Qed.

(* ---------- the six reciprocal-argument inverses ---------- *)
Lemma cinv_inv z : z <> czero -> cdiv cone (cdiv cone z) = z.
Proof. intros Hz. field. split; [exact Hz | exact cone_neq_czero]. Qed.

Lemma sec_asec_lemma z : z <> czero -> csec (casec z) = z.
Proof. intros Hz. unfold csec, casec. rewrite cos_acos_lemma. apply cinv_inv, Hz. Qed.

Lemma csc_acsc_lemma z : z <> czero -> ccsc (cacsc z) = z.
Proof. intros Hz. unfold ccsc, cacsc. rewrite sin_asin_lemma. apply cinv_inv, Hz. Qed.

Lemma sech_asech_lemma z : z <> czero -> csech (casech z) = z.
Proof. intros Hz. unfold csech, casech. rewrite cosh_acosh_lemma. apply cinv_inv, Hz. Qed.

Lemma csch_acsch_lemma z : z <> czero -> ccsch (cacsch z) = z.
Proof. intros Hz. unfold ccsch, cacsch. rewrite sinh_asinh_lemma. apply cinv_inv, Hz. Qed.

Lemma cneg_neq0 a : a <> czero -> cneg a <> czero.
Proof. intros Ha H. apply Ha. transitivity (cneg (cneg a)); [ring | rewrite H; ring]. Qed.

Lemma cot_acot_lemma z : z <> czero -> z <> ci -> z <> cneg ci -> ccot (cacot z) = z.
Proof.
  intros Hz Hzi Hzmi. unfold ccot, cacot.
  assert (H1 : cdiv cone z <> ci).
  { intros H. apply Hzmi. rewrite <- (cinv_inv z Hz), H. field [ci_sqr]. exact ci_neq0. }
  assert (H2 : cdiv cone z <> cneg ci).
  { intros H. apply Hzi. rewrite <- (cinv_inv z Hz), H. field [ci_sqr]. exact (cneg_neq0 _ ci_neq0). }
  rewrite tan_atan_lemma by assumption. apply cinv_inv, Hz.
Qed.

Lemma coth_acoth_lemma z : z <> czero -> z <> cone -> z <> cneg cone -> ccoth (cacoth z) = z.
Proof.
  intros Hz Hz1 Hzm1. unfold ccoth, cacoth.
  assert (H1 : cdiv cone z <> cone).
  { intros H. apply Hz1. rewrite <- (cinv_inv z Hz), H. field. exact cone_neq_czero. }
  assert (H2 : cdiv cone z <> cneg cone).
  { intros H. apply Hzm1. rewrite <- (cinv_inv z Hz), H. field. exact (cneg_neq0 _ cone_neq_czero). }
  rewrite tanh_atanh_lemma by assumption. apply cinv_inv, Hz.
Qed.
