(* Proofs/VectorRp.v -- norm_p over R (C15): with libm's pow on non-negative arguments taken as the real power
   function (0^p = 0 for p > 0), norm_p is non-negative, absolutely homogeneous, and coincides with norm_1 at
   p = 1 and with norm_2 at p = 2 -- so the proved laws of norm_1 / norm_2 are laws of norm_p at those exponents.
   Minkowski's inequality for general p is not proved. *)
From Coq Require Import Reals Lra Lia List Psatz Arith.
From OV Require Import Base.Panic Base.Arith Model.Complex Model.Vector Proofs.Vector Proofs.VectorR.
Import ListNotations.
Local Open Scope R_scope.

(* pow(x, p) for x >= 0 (the only arguments norm_p passes: |v_i| and a sum of such powers) *)
Definition rpow (x p : R) : R := if Req_EM_T x 0 then 0 else Rpower x p.

Lemma rpow_nonneg x p : 0 <= rpow x p.
Proof. unfold rpow. destruct (Req_EM_T x 0); [lra|]. unfold Rpower. left. apply exp_pos. Qed.

Lemma rpow_1 x : 0 <= x -> rpow x 1 = x.
Proof. intros H. unfold rpow. destruct (Req_EM_T x 0); [lra|]. apply Rpower_1. lra. Qed.

Lemma rpow_mult x y p : 0 <= x -> 0 <= y -> rpow (x * y) p = rpow x p * rpow y p.
Proof.
  intros Hx Hy. unfold rpow.
  destruct (Req_EM_T x 0) as [->|Nx].
  - rewrite Rmult_0_l. destruct (Req_EM_T 0 0); [lra|contradiction].
  - destruct (Req_EM_T y 0) as [->|Ny].
    + rewrite Rmult_0_r. destruct (Req_EM_T 0 0); [lra|contradiction].
    + destruct (Req_EM_T (x * y) 0) as [E|_]; [apply Rmult_integral in E; tauto|].
      symmetry. apply Rpower_mult_distr; lra.
Qed.

Lemma rpow_rpow x p q : 0 <= x -> rpow (rpow x p) q = rpow x (p * q).
Proof.
  intros Hx. unfold rpow at 2 3. destruct (Req_EM_T x 0) as [->|Nx].
  - unfold rpow. destruct (Req_EM_T 0 0); [reflexivity|contradiction].
  - unfold rpow. destruct (Req_EM_T (Rpower x p) 0) as [E|_].
    + exfalso. unfold Rpower in E. pose proof (exp_pos (p * ln x)). lra.
    + apply Rpower_mult.
Qed.

Definition psum (v : list R) (p : R) : R := Rsum (map (fun x => rpow (Rabs x) p) v).

Lemma norm_p_R (v : list R) (p : R) : p <> 0 ->
  norm_p (F := SAR) Rabs rpow v p = Ok (rpow (psum v p) (1 * / p)).
Proof.
  intros Hp. unfold norm_p. cbn. unfold R_div, R_eqb. destruct (Req_EM_T p 0); [contradiction|]. cbn.
  f_equal. f_equal. unfold psum. rewrite (fold_add_shift (fun x => rpow (Rabs x) p)). lra.
Qed.

Lemma psum_nonneg v p : 0 <= psum v p.
Proof. apply Rsum_nonneg. intros x Hx. apply in_map_iff in Hx as (y & <- & _). apply rpow_nonneg. Qed.

Lemma norm_p_nonneg_lemma (v : list R) (p m : R) : norm_p (F := SAR) Rabs rpow v p = Ok m -> 0 <= m.
Proof.
  unfold norm_p. cbn. unfold R_div, R_eqb. destruct (Req_EM_T p 0); [discriminate|]. cbn.
  intros E; injection E as <-. apply rpow_nonneg.
Qed.

Lemma psum_scale v c p : psum (vscale (A := AR) v c) p = rpow (Rabs c) p * psum v p.
Proof.
  unfold psum, vscale. induction v as [|x t IH]; cbn [map Rsum]; [lra|]. rewrite IH. cbn.
  rewrite Rabs_mult, rpow_mult by apply Rabs_pos. lra.
Qed.

Lemma norm_p_homog_lemma (v : list R) (c p : R) : 0 < p ->
  exists m, norm_p (F := SAR) Rabs rpow v p = Ok m /\
            norm_p (F := SAR) Rabs rpow (vscale (A := AR) v c) p = Ok (Rabs c * m).
Proof.
  intros Hp. rewrite !norm_p_R by lra. eexists; split; [reflexivity|]. f_equal.
  rewrite psum_scale. rewrite rpow_mult by (apply rpow_nonneg || apply psum_nonneg).
  rewrite rpow_rpow by apply Rabs_pos. replace (p * (1 * / p)) with 1 by (field; lra).
  now rewrite rpow_1 by apply Rabs_pos.
Qed.

Lemma norm_p_1_lemma (v : list R) : norm_p (F := SAR) Rabs rpow v 1 = Ok (norm_1 (A := AR) v).
Proof.
  rewrite norm_p_R by lra. apply f_equal. replace (1 * / 1) with 1 by field.
  rewrite rpow_1 by apply psum_nonneg. rewrite norm_1_R. unfold psum, sumabs. apply f_equal.
  apply map_ext. intros x. apply rpow_1. apply Rabs_pos.
Qed.

Lemma rpow_2 x : 0 <= x -> rpow x 2 = x * x.
Proof.
  intros H. unfold rpow. destruct (Req_EM_T x 0) as [->|N]; [lra|].
  replace 2 with (1 + 1) by lra. rewrite Rpower_plus, Rpower_1 by lra. reflexivity.
Qed.

Lemma rpow_half x : 0 <= x -> rpow x (1 * / 2) = R_sqrt.sqrt x.
Proof.
  intros H. unfold rpow. destruct (Req_EM_T x 0) as [->|N]; [now rewrite sqrt_0|].
  replace (1 * / 2) with (/ 2) by lra. apply Rpower_sqrt. lra.
Qed.

Lemma norm_p_2_lemma (v : list R) : norm_p (F := SAR) Rabs rpow v 2 = Ok (norm_2 (F := SAR) Rabs v).
Proof.
  rewrite norm_p_R by lra. apply f_equal. rewrite rpow_half by apply psum_nonneg. rewrite norm_2_R. apply f_equal.
  unfold psum, sumsq. apply f_equal. apply map_ext. intros x. rewrite rpow_2 by apply Rabs_pos. apply abs_sq.
Qed.

(* ------------------------------------------------------------------ powspace over R *)
From OV Require Import Proofs.ParDot.

Lemma rpow_0 p : rpow 0 p = 0.
Proof. unfold rpow. destruct (Req_EM_T 0 0); [reflexivity|contradiction]. Qed.

Lemma rpow_one p : rpow 1 p = 1.
Proof. unfold rpow. destruct (Req_EM_T 1 0); [lra|]. unfold Rpower. rewrite ln_1, Rmult_0_r. apply exp_0. Qed.

Lemma rpow_lt x y p : 0 < p -> 0 <= x -> x < y -> rpow x p < rpow y p.
Proof.
  intros Hp Hx Hxy. unfold rpow. destruct (Req_EM_T y 0); [lra|].
  destruct (Req_EM_T x 0) as [->|Nx].
  - unfold Rpower. apply exp_pos.
  - apply Rlt_Rpower_l; lra.
Qed.

Lemma powspace_ok (a b p : R) n : (2 <= n)%nat ->
  powspace (F := SAR) rpow a b n p
  = Ok (map (fun i => a + (b - a) * rpow (INR i * / INR (n - 1)) p) (seq 0 n)).
Proof.
  intros Hn. unfold powspace. apply mapM_ok. intros i _. cbn. unfold R_div, R_eqb.
  replace (INR n - 1) with (INR (n - 1)) by (rewrite minus_INR by lia; reflexivity).
  destruct (Req_EM_T (INR (n - 1)) 0) as [E|_]; [|reflexivity].
  exfalso. apply (not_0_INR (n - 1)); [lia|exact E].
Qed.

Lemma powspace_spec_lemma (a b p : R) n : (2 <= n)%nat -> 0 < p ->
  exists l, powspace (F := SAR) rpow a b n p = Ok l /\ length l = n /\ hd 0 l = a /\ last l 0 = b /\
            (a < b -> forall i j, (i < j < n)%nat -> nth i l 0 < nth j l 0).
Proof.
  intros Hn Hp. rewrite powspace_ok by exact Hn. eexists; split; [reflexivity|].
  assert (Hk : 0 < INR (n - 1)) by (apply lt_0_INR; lia).
  split; [now rewrite map_length, seq_length|]. split; [|split].
  - destruct n as [|n]; [lia|]. cbn [seq map hd]. cbn [INR]. rewrite Rmult_0_l, rpow_0. lra.
  - destruct n as [|n]; [lia|]. rewrite seq_S, map_app. cbn [map]. rewrite last_last. cbn [plus].
    replace (S n - 1)%nat with n by lia. replace (INR n * / INR n) with 1 by (field; replace (S n - 1)%nat with n in Hk by lia; lra).
    rewrite rpow_one. lra.
  - intros Hab i j Hij. rewrite !nth_map_seq by lia.
    assert (Hi : 0 <= INR i * / INR (n - 1)).
    { apply Rmult_le_pos; [apply pos_INR|]. left. now apply Rinv_0_lt_compat. }
    assert (Hlt : INR i * / INR (n - 1) < INR j * / INR (n - 1)).
    { apply Rmult_lt_compat_r; [now apply Rinv_0_lt_compat|]. apply lt_INR. lia. }
    pose proof (rpow_lt _ _ p Hp Hi Hlt). nra.
Qed.
