(* Proofs/RoundDotFloat.v -- the tie of the standard-model theorems to the PRIMITIVE-FLOAT INSTANCE of the model
   (dot / multiply at [AF], the IEEE binary64 instance that the correspondence check runs bit-exactly against the
   Rust code), through Flocq's specification of the primitive operations.  This re-proves, for the dot product and
   the matrix-vector product, the classical fact "IEEE binary64 obeys the standard model absent underflow and
   overflow":

   1. [A64r] is a TOTAL standard-model arithmetic on the reals: round-to-nearest-even binary64 (FLT format, emin
      -1074, 53 bits) wherever the standard model is valid -- an addition of two representable numbers (never a
      problem: Flocq's FLT_plus_error_N_ex), a product or quotient that does not underflow (relative_error_N_FLT_ex)
      -- and the exact operation elsewhere.  It meets every hypothesis of the Round*.v theorems with u = 2^-53.
   2. Transfer ([sum_n_float_transfer]): if the IEEE result of an accumulation  Sum fl(a_k b_k)  is FINITE and no
      product underflows, every intermediate was finite (non-finite values are absorbing), no operation overflowed,
      and the real value of the IEEE result IS the result of the same Gallina function run in [A64r].
   3. Hence, for the primitive-float [dot] and [multiply] themselves:
        dot_backward_error_float_lemma    : FR (fl(x.y)) = Sum FR x_i FR y_i (1 + th_i),  |th_i| <= gam n,  u = 2^-53
        matvec_backward_error_float_lemma : row-wise (A + dA) x with |dA| <= gam n |A|
      whenever the computed result is finite and no product underflows (each product is 0 or >= 2^-1022 in size).
   No hypothesis about rounding remains: only Flocq's proved specification of Coq's primitive floats. *)
From Coq Require Import ZArith Reals Lra Lia List Floats Bool Arith.
From Flocq Require Import Core BinarySingleNaN PrimFloat Relative Plus_error.
From OV Require Import Base.Panic Base.Arith Base.RoundModel Model.Vector Model.Matrix Inst.FloatInst
  Proofs.Matrix Proofs.ComplexRound Proofs.RoundDot Proofs.RoundMatvec.
Import ListNotations.
Local Open Scope R_scope.

Local Instance P53f : Prec_gt_0 53 := eq_refl.
Notation fmt := (generic_format radix2 (FLT_exp (-1074) 53)).
Notation HP := Flocq.IEEE754.PrimFloat.Hprec.
Notation HM := Flocq.IEEE754.PrimFloat.Hmax.

(* ---------------------------------------------------------------- 1. binary64 rounding on the reals *)
Lemma u64_range : 0 <= u64 < 1.
Proof.
  unfold u64. pose proof (bpow_gt_0 radix2 (-53 + 1)) as P.
  assert (L : bpow radix2 (-53 + 1) < bpow radix2 0) by (apply bpow_lt; lia).
  change (bpow radix2 0) with 1 in L. lra.
Qed.

Lemma u64_small : u64 <= / 1024.
Proof.
  unfold u64. assert (L : bpow radix2 (-53 + 1) <= bpow radix2 (-9)) by (apply bpow_le; lia).
  change (bpow radix2 (-9)) with (/ 512) in L. lra.
Qed.

(* a magnitude of at least 1 is far from the underflow range *)
Lemma no_underflow_ge1 x : 1 <= Rabs x -> no_underflow x.
Proof.
  intros H. right. apply Rle_trans with (bpow radix2 0); [apply bpow_le; lia|exact H].
Qed.

Lemma no_underflow_ge_small x : / 1024 <= Rabs x -> no_underflow x.
Proof.
  intros H. right. apply Rle_trans with (bpow radix2 (-10)); [apply bpow_le; lia|].
  change (bpow radix2 (-10)) with (/ 1024). exact H.
Qed.

Lemma rnd64_fmt x : fmt (rnd64 x).
Proof. unfold rnd64. apply generic_format_round; [apply FLT_exp_valid; exact P53f|apply valid_rnd_N]. Qed.

Lemma rnd64_id x : fmt x -> rnd64 x = x.
Proof. intros H. unfold rnd64. apply round_generic; [apply valid_rnd_N|exact H]. Qed.

Lemma fmt_0 : fmt 0.
Proof. apply generic_format_0. Qed.

Lemma rnd64_rel_ex x : no_underflow x -> exists d, Rabs d <= u64 /\ rnd64 x = x * (1 + d).
Proof.
  intros [->|H].
  - exists 0. rewrite Rabs_R0. split; [apply u64_range|]. unfold rnd64. rewrite round_0 by apply valid_rnd_N. ring.
  - exact (relative_error_N_FLT_ex radix2 (-1074) 53 eq_refl (fun z => negb (Z.even z)) x H).
Qed.

Lemma rnd64_plus_ex x y : fmt x -> fmt y -> exists d, Rabs d <= u64 /\ rnd64 (x + y) = (x + y) * (1 + d).
Proof.
  intros Fx Fy.
  destruct (FLT_plus_error_N_ex radix2 (-1074) 53 (fun z => negb (Z.even z)) x y Fx Fy) as (d & Hd & E).
  exists d. split; [|exact E].
  eapply Rle_trans; [exact Hd|]. apply (u_rod1pu_ro_le_u_ro radix2 53).
Qed.

(* decidable side conditions (classical reals) *)
Definition isfmt (x : R) : bool := if Req_EM_T (rnd64 x) x then true else false.
Definition nounder (x : R) : bool :=
  if Req_EM_T x 0 then true else if Rle_dec (bpow radix2 (-1022)) (Rabs x) then true else false.

Lemma isfmt_true x : isfmt x = true <-> fmt x.
Proof.
  unfold isfmt. destruct (Req_EM_T (rnd64 x) x) as [E|N]; split; intros H; try discriminate; auto.
  - rewrite <- E. apply rnd64_fmt.
  - exfalso. apply N. now apply rnd64_id.
Qed.

Lemma nounder_true x : nounder x = true <-> no_underflow x.
Proof.
  unfold nounder, no_underflow. destruct (Req_EM_T x 0) as [E|N]; [tauto|].
  destruct (Rle_dec (bpow radix2 (-1022)) (Rabs x)); split; intros H; auto; try discriminate.
  destruct H; contradiction.
Qed.

Definition Fadd (x y : R) : R := if isfmt x && isfmt y then rnd64 (x + y) else x + y.
Definition Fsub (x y : R) : R := if isfmt x && isfmt y then rnd64 (x - y) else x - y.
Definition Fmul (x y : R) : R := if nounder (x * y) then rnd64 (x * y) else x * y.
Definition Fdiv (x y : R) : R := if nounder (x / y) then rnd64 (x / y) else x / y.

Lemma exact_ok z : exists d, Rabs d <= u64 /\ z = z * (1 + d).
Proof. exists 0. rewrite Rabs_R0. split; [apply u64_range|ring]. Qed.

Lemma Fadd_ok x y : exists d, Rabs d <= u64 /\ Fadd x y = (x + y) * (1 + d).
Proof.
  unfold Fadd. destruct (isfmt x) eqn:Ex, (isfmt y) eqn:Ey; cbn [andb]; try apply exact_ok.
  apply rnd64_plus_ex; now apply isfmt_true.
Qed.
Lemma Fsub_ok x y : exists d, Rabs d <= u64 /\ Fsub x y = (x - y) * (1 + d).
Proof.
  unfold Fsub. destruct (isfmt x) eqn:Ex, (isfmt y) eqn:Ey; cbn [andb]; try apply exact_ok.
  unfold Rminus. apply rnd64_plus_ex; [now apply isfmt_true|]. apply generic_format_opp. now apply isfmt_true.
Qed.
Lemma Fmul_ok x y : exists d, Rabs d <= u64 /\ Fmul x y = x * y * (1 + d).
Proof.
  unfold Fmul. destruct (nounder (x * y)) eqn:E; [|apply exact_ok]. apply rnd64_rel_ex. now apply nounder_true.
Qed.
Lemma Fdiv_ok x y : y <> 0 -> exists d, Rabs d <= u64 /\ Fdiv x y = x / y * (1 + d).
Proof.
  intros _. unfold Fdiv. destruct (nounder (x / y)) eqn:E; [|apply exact_ok]. apply rnd64_rel_ex. now apply nounder_true.
Qed.

Lemma Fadd_fmt x y : fmt x -> fmt y -> Fadd x y = rnd64 (x + y).
Proof. intros Fx Fy. unfold Fadd. apply isfmt_true in Fx, Fy. now rewrite Fx, Fy. Qed.
Lemma Fmul_nounder x y : no_underflow (x * y) -> Fmul x y = rnd64 (x * y).
Proof. intros H. unfold Fmul. apply nounder_true in H. now rewrite H. Qed.

Lemma Fadd_0_mul a b : Fadd 0 (Fmul a b) = Fmul a b.
Proof.
  unfold Fadd. destruct (isfmt 0 && isfmt (Fmul a b)) eqn:E; [|ring].
  apply andb_prop in E as [_ E]. apply isfmt_true in E. rewrite Rplus_0_l. now apply rnd64_id.
Qed.

(* binary64 on the reals, as a total standard-model arithmetic *)
Definition A64r : Arith := ARm Fadd Fsub Fmul Fdiv.

(* ---------------------------------------------------------------- 2. the primitive operations, backwards from a finite result *)
Lemma FR_fmt (x : pfloat) : fmt (FR x).
Proof. unfold FR. apply generic_format_B2R. Qed.

Lemma fadd_finite_inv (x y : pfloat) : ffinite (x + y)%float ->
  ffinite x /\ ffinite y /\ FR (x + y)%float = rnd64 (FR x + FR y).
Proof.
  unfold ffinite, FR. rewrite add_equiv. intros H.
  assert (Fxy : is_finite (Prim2B x) = true /\ is_finite (Prim2B y) = true).
  { destruct (Prim2B x) as [sx|sx| |sx mx ex Bx], (Prim2B y) as [sy|sy| |sy my ey By]; cbn in H |- *;
      try (split; reflexivity); try discriminate; destruct (Bool.eqb sx sy); discriminate. }
  destruct Fxy as [Fx Fy]. split; [exact Fx|]. split; [exact Fy|].
  pose proof (Bplus_correct prec emax HP HM mode_NE (Prim2B x) (Prim2B y) Fx Fy) as K.
  change (round radix2 (fexp prec emax) (round_mode mode_NE)) with rnd64 in K.
  destruct (Rlt_bool (Rabs (rnd64 (B2R (Prim2B x) + B2R (Prim2B y)))) (bpow radix2 emax)).
  - exact (proj1 K).
  - destruct K as (K & _). rewrite <- is_finite_SF_B2SF, K in H. discriminate.
Qed.

Lemma fmul_finite_inv (x y : pfloat) : ffinite (x * y)%float ->
  ffinite x /\ ffinite y /\ FR (x * y)%float = rnd64 (FR x * FR y).
Proof.
  unfold ffinite, FR. rewrite mul_equiv. intros H.
  pose proof (Bmult_correct prec emax HP HM mode_NE (Prim2B x) (Prim2B y)) as K.
  change (round radix2 (fexp prec emax) (round_mode mode_NE)) with rnd64 in K.
  destruct (Rlt_bool (Rabs (rnd64 (B2R (Prim2B x) * B2R (Prim2B y)))) (bpow radix2 emax)).
  - destruct K as (K1 & K2 & _). rewrite K2 in H. apply andb_prop in H as [Fx Fy]. auto.
  - rewrite <- is_finite_SF_B2SF, K in H. discriminate.
Qed.

(* the accumulation  Sum_k fl(a_k b_k)  in IEEE arithmetic IS the accumulation in A64r on the real values *)
Lemma sum_n_float_transfer (n : nat) (a b : nat -> pfloat) :
  ffinite (sum_n (A := AF) n (fun k => (a k * b k)%float)) ->
  (forall k, (k < n)%nat -> no_underflow (FR (a k) * FR (b k))) ->
  FR (sum_n (A := AF) n (fun k => (a k * b k)%float))
  = sum_n (A := A64r) n (fun k => Fmul (FR (a k)) (FR (b k))).
Proof.
  induction n as [|n IH]; intros Hf Hu.
  - cbn. unfold FR. reflexivity.
  - change (sum_n (A := AF) (S n) (fun k => (a k * b k)%float))
      with (sum_n (A := AF) n (fun k => (a k * b k)%float) + a n * b n)%float in *.
    destruct (fadd_finite_inv _ _ Hf) as (Fs & Fp & E). destruct (fmul_finite_inv _ _ Fp) as (_ & _ & Ep).
    change (sum_n (A := A64r) (S n) (fun k => Fmul (FR (a k)) (FR (b k))))
      with (Fadd (sum_n (A := A64r) n (fun k => Fmul (FR (a k)) (FR (b k)))) (Fmul (FR (a n)) (FR (b n)))).
    rewrite <- (IH Fs) by (intros; apply Hu; lia).
    rewrite (Fmul_nounder _ _ (Hu n ltac:(lia))).
    rewrite Fadd_fmt by (apply FR_fmt || apply rnd64_fmt).
    rewrite E, Ep. reflexivity.
Qed.

(* ---------------------------------------------------------------- 3. the primitive-float dot and multiply *)
Definition g64 (n : nat) : R := gam u64 n.

Theorem dot_backward_error_float_lemma (v w : list pfloat) (r : pfloat) :
  dot (A := AF) v w = Ok r -> ffinite r ->
  (forall k, (k < length v)%nat -> no_underflow (FR (nth k v 0%float) * FR (nth k w 0%float))) ->
  INR (length v) * u64 < 1 ->
  exists th : nat -> R,
    (forall k, (k < length v)%nat -> Rabs (th k) <= g64 (length v)) /\
    FR r = Rsum (length v) (fun k => FR (nth k v 0%float) * FR (nth k w 0%float) * (1 + th k)).
Proof.
  intros E Fr Hu Hn. unfold dot in E.
  match type of E with (if ?c then _ else _) = _ => destruct c eqn:L end; [|discriminate].
  apply Nat.eqb_eq in L. injection E as <-.
  rewrite (Proofs.Matrix.dot_raw_sum (A := AF) v w L) in Fr |- *.
  change (@mul AF) with PrimFloat.mul in *. change (@zero AF) with 0%float in *.
  pose proof (sum_n_float_transfer (length v) (fun k => nth k v 0%float) (fun k => nth k w 0%float) Fr Hu) as ET.
  destruct (sum_prod_round u64 u64_range Fadd Fsub Fmul Fdiv Fadd_ok Fmul_ok Fadd_0_mul (length v)
              (fun k => FR (nth k v 0%float)) (fun k => FR (nth k w 0%float))) as (W & HW & EW).
  exists (fun k => W k - 1). split.
  - intros k Hk. apply (bnd_gam u64 u64_range); [now apply HW|exact Hn].
  - etransitivity; [exact ET|]. etransitivity; [exact EW|]. apply Rsum_ext. intros k Hk. ring.
Qed.

Theorem dot_forward_error_float_lemma (v w : list pfloat) (r : pfloat) :
  dot (A := AF) v w = Ok r -> ffinite r ->
  (forall k, (k < length v)%nat -> no_underflow (FR (nth k v 0%float) * FR (nth k w 0%float))) ->
  INR (length v) * u64 < 1 ->
  Rabs (FR r - Rsum (length v) (fun k => FR (nth k v 0%float) * FR (nth k w 0%float)))
    <= g64 (length v) * Rsum (length v) (fun k => Rabs (FR (nth k v 0%float)) * Rabs (FR (nth k w 0%float))).
Proof.
  intros E Fr Hu Hn. destruct (dot_backward_error_float_lemma v w r E Fr Hu Hn) as (th & Hth & ->).
  rewrite <- Rsum_minus.
  rewrite (Rsum_ext _ _ (fun k => (FR (nth k v 0%float) * FR (nth k w 0%float)) * th k)) by (intros; ring).
  eapply Rle_trans; [apply Rsum_pert_le; exact Hth|].
  apply Rmult_le_compat_l; [now apply (gam_nonneg u64 u64_range)|].
  apply Req_le, Rsum_ext. intros k Hk. apply Rabs_mult.
Qed.

(* matrix * vector at the primitive floats: every finite component of the result has a small row-wise backward error *)
Definition fentry (m : matrix AF) (i j : nat) : R := FR (nth (i * cols m + j) (buf m) 0%float).

Theorem matvec_backward_error_float_lemma (m : matrix AF) (v w : list pfloat) :
  wf m -> multiply (A := AF) m v = Ok w -> INR (cols m) * u64 < 1 ->
  length w = rows m /\
  forall i, (i < rows m)%nat -> ffinite (nth i w 0%float) ->
    (forall j, (j < cols m)%nat -> no_underflow (fentry m i j * FR (nth j v 0%float))) ->
    exists d : nat -> R,
      (forall j, (j < cols m)%nat -> Rabs (d j) <= g64 (cols m) * Rabs (fentry m i j)) /\
      FR (nth i w 0%float) = Rsum (cols m) (fun j => (fentry m i j + d j) * FR (nth j v 0%float)).
Proof.
  intros W E Hn.
  assert (Lv : length v = cols m).
  { destruct (Nat.eq_dec (length v) (cols m)) as [L|L]; [exact L|].
    rewrite (multiply_guard (A := AF) m v L) in E. discriminate. }
  destruct (multiply_msp (A := AF) (rows m) (cols m) (entry m) m v (msp_self m W) Lv) as (w' & E' & Lw & Hw).
  rewrite E in E'. injection E' as <-. split; [exact Lw|].
  intros i Hi Fi Hu.
  assert (Ei : nth i w 0%float = sum_n (A := AF) (cols m) (fun k => (entry m i k * nth k v 0%float)%float))
    by exact (Hw i Hi).
  rewrite Ei in Fi |- *.
  pose proof (sum_n_float_transfer (cols m) (fun k => entry m i k) (fun k => nth k v 0%float) Fi Hu) as ET.
  destruct (sum_prod_round u64 u64_range Fadd Fsub Fmul Fdiv Fadd_ok Fmul_ok Fadd_0_mul (cols m)
              (fun k => FR (entry m i k)) (fun k => FR (nth k v 0%float))) as (Wt & HW & EW).
  exists (fun j => fentry m i j * (Wt j - 1)). split.
  - intros j Hj. rewrite Rabs_mult, Rmult_comm. apply Rmult_le_compat_r; [apply Rabs_pos|].
    apply (bnd_gam u64 u64_range); [now apply HW|exact Hn].
  - etransitivity; [exact ET|]. etransitivity; [exact EW|]. apply Rsum_ext. intros j Hj.
    unfold fentry, entry. change (@zero AF) with 0%float. ring.
Qed.
