(* Proofs/RoundFlx.v -- an INSTANCE of the standard model of Base/RoundModel.v that really rounds: every operation is
   the exact one followed by round-to-nearest-even to 53 significant bits (Flocq's FLX format: binary64 with an
   unbounded exponent range, so neither underflow nor overflow exists).  Flocq's relative_error_N_FLX_ex gives
        rndx x = x (1 + d),  |d| <= ux = 2^-53          for EVERY real x,
   which discharges all hypotheses of the Round*.v theorems (including "0 + a computed product is exact").
   Used for the non-vacuity examples of the pinned theorems: the hypotheses are met by an arithmetic that commits
   rounding errors in every operation, and the model functions answer on concrete inputs in it. *)
From Coq Require Import ZArith Reals Lra Lia List.
From Flocq Require Import Core Relative.
From OV Require Import Base.Panic Base.Arith Base.RoundModel.
Import ListNotations.
Local Open Scope R_scope.

Local Instance P53x : Prec_gt_0 53 := eq_refl.

Definition rndx (x : R) : R := round radix2 (FLX_exp 53) ZnearestE x.
Definition ux : R := / 2 * bpow radix2 (-53 + 1).

Lemma ux_range : 0 <= ux < 1.
Proof.
  unfold ux. pose proof (bpow_gt_0 radix2 (-53 + 1)) as P.
  assert (L : bpow radix2 (-53 + 1) < bpow radix2 0) by (apply bpow_lt; lia).
  change (bpow radix2 0) with 1 in L. lra.
Qed.

(* ux <= 1/4: more than enough room for the sizes of the examples *)
Lemma ux_small : ux <= / 4.
Proof.
  unfold ux. assert (L : bpow radix2 (-53 + 1) <= bpow radix2 (-1)) by (apply bpow_le; lia).
  change (bpow radix2 (-1)) with (/ 2) in L. lra.
Qed.

Lemma rndx_rel x : exists d, Rabs d <= ux /\ rndx x = x * (1 + d).
Proof. exact (relative_error_N_FLX_ex radix2 53 P53x (fun z => negb (Z.even z)) x). Qed.

Lemma rndx_idem x : rndx (rndx x) = rndx x.
Proof.
  unfold rndx. apply round_generic; [apply valid_rnd_N|].
  apply generic_format_round; [apply FLX_exp_valid; exact P53x|apply valid_rnd_N].
Qed.

Definition xadd (x y : R) : R := rndx (x + y).
Definition xsub (x y : R) : R := rndx (x - y).
Definition xmul (x y : R) : R := rndx (x * y).
Definition xdiv (x y : R) : R := rndx (x / y).

Lemma xadd_ok x y : exists d, Rabs d <= ux /\ xadd x y = (x + y) * (1 + d).
Proof. apply rndx_rel. Qed.
Lemma xsub_ok x y : exists d, Rabs d <= ux /\ xsub x y = (x - y) * (1 + d).
Proof. apply rndx_rel. Qed.
Lemma xmul_ok x y : exists d, Rabs d <= ux /\ xmul x y = x * y * (1 + d).
Proof. apply rndx_rel. Qed.
Lemma xdiv_ok x y : y <> 0 -> exists d, Rabs d <= ux /\ xdiv x y = x / y * (1 + d).
Proof. intros _. apply rndx_rel. Qed.
Lemma xadd_0_mul a b : xadd 0 (xmul a b) = xmul a b.
Proof. unfold xadd, xmul. rewrite Rplus_0_l. apply rndx_idem. Qed.

(* the arithmetic: the model functions run in it *)
Definition AFlx : Arith := ARm xadd xsub xmul xdiv.

(* it does commit errors: 1/3 is not representable *)
Lemma pow2_mod3 (n : nat) : ((2 ^ Z.of_nat n) mod 3 = 1 \/ (2 ^ Z.of_nat n) mod 3 = 2)%Z.
Proof.
  induction n as [|n IH]; [left; reflexivity|].
  rewrite Nat2Z.inj_succ, Z.pow_succ_r by lia. rewrite Z.mul_mod by lia.
  destruct IH as [-> | ->]; [right|left]; reflexivity.
Qed.

Lemma xdiv_inexact : xdiv 1 3 <> 1 / 3.
Proof.
  unfold xdiv, rndx. intros E.
  assert (F : generic_format radix2 (FLX_exp 53) (1 / 3)).
  { rewrite <- E. apply generic_format_round; [apply FLX_exp_valid; exact P53x|apply valid_rnd_N]. }
  apply FLX_format_generic in F; [|exact P53x]. destruct F as [[m e] Hf _]. unfold F2R in Hf. cbn [Fnum Fexp] in Hf.
  (* 1/3 = m 2^e is impossible: 3 m 2^e = 1 *)
  destruct e as [|p|p].
  - cbn in Hf. assert (H3 : IZR (3 * m) = 1) by (rewrite mult_IZR; lra). apply eq_IZR in H3. lia.
  - cbn in Hf. assert (H3 : IZR (3 * (m * Z.pow_pos 2 p)) = 1) by (rewrite !mult_IZR; lra). apply eq_IZR in H3. lia.
  - cbn in Hf. assert (P : 0 < IZR (Z.pow_pos 2 p)) by (apply IZR_lt; lia).
    assert (H3 : IZR (3 * m) = IZR (Z.pow_pos 2 p)).
    { rewrite mult_IZR. apply (Rmult_eq_reg_r (/ IZR (Z.pow_pos 2 p))); [|apply Rinv_neq_0_compat; lra].
      rewrite Rinv_r by lra. lra. }
    apply eq_IZR in H3.
    assert (D : (3 | Z.pow_pos 2 p)%Z) by (exists m; lia).
    rewrite Z.pow_pos_fold in D. rewrite <- (positive_nat_Z p) in D.
    apply Z.mod_divide in D; [|lia]. destruct (pow2_mod3 (Pos.to_nat p)); lia.
Qed.
