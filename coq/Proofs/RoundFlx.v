(* Proofs/RoundFlx.v -- an INSTANCE of the standard model of Base/RoundModel.v that really rounds: every operation is
   the exact one followed by round-to-nearest-even to 53 significant bits (Flocq's FLX format: binary64 with an
   unbounded exponent range, so neither underflow nor overflow exists).  Flocq's relative_error_N_FLX_ex gives
        rndx x = x (1 + d),  |d| <= ux = 2^-53          for EVERY real x,
   which discharges all hypotheses of the Round*.v theorems (including "0 + a computed product is exact").
   Used for the non-vacuity examples of the pinned theorems: the hypotheses are met by an arithmetic that commits
   rounding errors in every operation, and the model functions answer on concrete inputs in it. *)
From Coq Require Import ZArith Reals Lra Lia List.
From Flocq Require Import Core Relative.
From OV Require Import Base.Panic Base.Arith Base.RoundModel.
Import ListNotations.
Local Open Scope R_scope.

Local Instance P53x : Prec_gt_0 53 := eq_refl.

Definition rndx (x : R) : R := round radix2 (FLX_exp 53) ZnearestE x.
Definition ux : R := / 2 * bpow radix2 (-53 + 1).

Lemma ux_range : 0 <= ux < 1.
Proof.
  unfold ux. pose proof (bpow_gt_0 radix2 (-53 + 1)) as P.
  assert (L : bpow radix2 (-53 + 1) < bpow radix2 0) by (apply bpow_lt; lia).
  change (bpow radix2 0) with 1 in L. lra.
Qed.

(* ux <= 1/1024: more than enough room for the sizes of the examples *)
Lemma ux_small : ux <= / 1024.
Proof.
  unfold ux. assert (L : bpow radix2 (-53 + 1) <= bpow radix2 (-9)) by (apply bpow_le; lia).
  change (bpow radix2 (-9)) with (/ 512) in L. lra.
Qed.

Lemma rndx_rel x : exists d, Rabs d <= ux /\ rndx x = x * (1 + d).
Proof. exact (relative_error_N_FLX_ex radix2 53 P53x (fun z => negb (Z.even z)) x). Qed.

Lemma rndx_idem x : rndx (rndx x) = rndx x.
Proof.
  unfold rndx. apply round_generic; [apply valid_rnd_N|].
  apply generic_format_round; [apply FLX_exp_valid; exact P53x|apply valid_rnd_N].
Qed.

Definition xadd (x y : R) : R := rndx (x + y).
Definition xsub (x y : R) : R := rndx (x - y).
Definition xmul (x y : R) : R := rndx (x * y).
Definition xdiv (x y : R) : R := rndx (x / y).

Lemma xadd_ok x y : exists d, Rabs d <= ux /\ xadd x y = (x + y) * (1 + d).
Proof. apply rndx_rel. Qed.
Lemma xsub_ok x y : exists d, Rabs d <= ux /\ xsub x y = (x - y) * (1 + d).
Proof. apply rndx_rel. Qed.
Lemma xmul_ok x y : exists d, Rabs d <= ux /\ xmul x y = x * y * (1 + d).
Proof. apply rndx_rel. Qed.
Lemma xdiv_ok x y : y <> 0 -> exists d, Rabs d <= ux /\ xdiv x y = x / y * (1 + d).
Proof. intros _. apply rndx_rel. Qed.
Lemma xadd_0_mul a b : xadd 0 (xmul a b) = xmul a b.
Proof. unfold xadd, xmul. rewrite Rplus_0_l. apply rndx_idem. Qed.

(* the arithmetic: the model functions run in it *)
Definition AFlx : Arith := ARm xadd xsub xmul xdiv.

(* it does commit errors: 1/3 is not representable *)
Lemma pow2_mod3 (n : nat) : ((2 ^ Z.of_nat n) mod 3 = 1 \/ (2 ^ Z.of_nat n) mod 3 = 2)%Z.
Proof.
  induction n as [|n IH]; [left; reflexivity|].
  rewrite Nat2Z.inj_succ, Z.pow_succ_r by lia. rewrite Z.mul_mod by lia.
  destruct IH as [-> | ->]; [right|left]; reflexivity.
Qed.

Lemma xdiv_inexact : xdiv 1 3 <> 1 / 3.
Proof.
  unfold xdiv, rndx. intros E.
  assert (F : generic_format radix2 (FLX_exp 53) (1 / 3)).
  { rewrite <- E. apply generic_format_round; [apply FLX_exp_valid; exact P53x|apply valid_rnd_N]. }
  apply FLX_format_generic in F; [|exact P53x]. destruct F as [[m e] Hf _]. unfold F2R in Hf. cbn [Fnum Fexp] in Hf.
  (* 1/3 = m 2^e is impossible: 3 m 2^e = 1 *)
  destruct e as [|p|p].
  - cbn in Hf. assert (H3 : IZR (3 * m) = 1) by (rewrite mult_IZR; lra). apply eq_IZR in H3. lia.
  - cbn in Hf. assert (H3 : IZR (3 * (m * Z.pow_pos 2 p)) = 1) by (rewrite !mult_IZR; lra). apply eq_IZR in H3. lia.
  - cbn in Hf. assert (P : 0 < IZR (Z.pow_pos 2 p)) by (apply IZR_lt; lia).
    assert (H3 : IZR (3 * m) = IZR (Z.pow_pos 2 p)).
    { rewrite mult_IZR. apply (Rmult_eq_reg_r (/ IZR (Z.pow_pos 2 p))); [|apply Rinv_neq_0_compat; lra].
      rewrite Rinv_r by lra. lra. }
    apply eq_IZR in H3.
    assert (D : (3 | Z.pow_pos 2 p)%Z) by (exists m; lia).
    rewrite Z.pow_pos_fold in D. rewrite <- (positive_nat_Z p) in D.
    apply Z.mod_divide in D; [|lia]. destruct (pow2_mod3 (Pos.to_nat p)); lia.
Qed.

Lemma rndx_0 : rndx 0 = 0.
Proof. unfold rndx. apply round_0. apply valid_rnd_N. Qed.

Lemma rndx_nz x : x <> 0 -> rndx x <> 0.
Proof.
  intros Hx. destruct (rndx_rel x) as (d & Hd & ->). pose proof ux_range.
  assert (- ux <= d <= ux) by (unfold Rabs in Hd; destruct (Rcase_abs d); lra).
  apply Rmult_integral_contrapositive_currified; [exact Hx|lra].
Qed.

(* driving a model function through the comparisons of the real-number instance on concrete data:
   evaluate, normalise |numeral|, decide the comparison that surfaced (both branches are kept when the data do
   not decide it) *)
Ltac flx_step :=
  cbn; rewrite ?Rabs_R0, ?(Rabs_pos_eq 1), ?(Rabs_pos_eq 2), ?(Rabs_pos_eq 3), ?(Rabs_pos_eq 4) by lra;
  match goal with
  | |- context [Rlt_dec ?a ?b] => destruct (Rlt_dec a b); try (exfalso; lra)
  | |- context [Req_EM_T ?a ?b] => destruct (Req_EM_T a b); try (exfalso; lra)
  | |- context [Rle_dec ?a ?b] => destruct (Rle_dec a b); try (exfalso; lra)
  end.
