(* Proofs/Round2CGMore.v -- package round2, C08: the hypothesis "[mulA] is accurate to eA normwise" of Proofs/Round2CG.v
   DISCHARGED for the model's own compressed-column product [sp_mul] (Model/Sparse.v, the product the solvers are run
   with): by Proofs/RoundSparseDense.v the computed product is (A + dA) v with |dA_ij| <= gam_m |a|_ij row by row
   (m = the largest number of entries stored in a row), hence

        N2 (sp_mul s v - A v) <= gam_m || |A| ||_2 N2 v            ([sparse_MV])

   where NabsA is any bound of the operator 2-norm of |A|.  So  eA = gam_m NabsA  in [cg_drift_lemma]. *)
From Coq Require Import List Arith Lia Bool Reals Lra Psatz.
From OV Require Import Base.Panic Base.Arith Base.RoundModel Model.Vector Model.Sparse Model.Iter
  Proofs.Vector Proofs.SparseBase Proofs.SparseMul Proofs.RoundDot Proofs.RoundSparse Proofs.RoundSparseDense
  Proofs.Round2CGNorm Proofs.Round2CG.
Import ListNotations.
Local Open Scope R_scope.

Section SparseMV.
Variable u : R.
Hypothesis u_range : 0 <= u < 1.
Variables fadd fsub fmul fdiv : R -> R -> R.
Hypothesis fadd_ok : forall x y, exists d, Rabs d <= u /\ fadd x y = (x + y) * (1 + d).
Hypothesis fmul_ok : forall x y, exists d, Rabs d <= u /\ fmul x y = x * y * (1 + d).
Hypothesis fadd_0_mul : forall a b, fadd 0 (fmul a b) = fmul a b.

Notation AR := (ARm fadd fsub fmul fdiv).
Notation rent := (sp_rentry fadd fsub fmul fdiv).
Notation rabs := (sp_rabs fadd fsub fmul fdiv).

Lemma rabs_nonneg (s : sparse AR) i j : 0 <= rabs s i j.
Proof.
  unfold sp_rabs. apply Rsum_nonneg. intros t _. destruct (re_col s i t =? j)%nat; [apply Rabs_pos|lra].
Qed.

Theorem sparse_MV (s : sparse AR) (n m : nat) (NabsA : R) :
  wfS s -> sp_rows s = n -> sp_cols s = n ->
  (forall i, (i < n)%nat -> (length (row_entries s i) <= m)%nat) -> INR m * u < 1 -> 0 <= NabsA ->
  (forall f, N2 n (Ax n (rabs s) f) <= NabsA * N2 n f) ->
  forall v : list R, len v = n -> exists w, sp_mul s v = Ok w /\ len w = n /\
    N2 n (fun i => vf w i - Ax n (rent s) (vf v) i) <= (gam u m * NabsA) * N2 n (vf v).
Proof using u_range fadd_ok fmul_ok fadd_0_mul.
  intros Hwf Hr Hc Hm Hmu P HN v Lv.
  assert (Lv' : length v = sp_cols s) by (rewrite Hc; exact Lv).
  pose proof (sp_mul_fold (A := AR) s v Hwf Lv') as E.
  match type of E with _ = Ok ?t => set (w := t) in E end.
  exists w. split; [exact E|].
  destruct (sp_mul_dense_backward_error_lemma u u_range fadd fsub fmul fdiv fadd_ok fmul_ok fadd_0_mul s v w Hwf E)
    as (Lw & dA & HdA).
  split; [change (len w = sp_rows s) in Lw; lia|].
  pose proof (gam_nonneg u u_range m Hmu) as Gm.
  apply Rle_trans with (gam u m * N2 n (Ax n (rabs s) (fun j => Rabs (vf v j)))).
  - apply N2_le; [exact Gm|]. intros i Hi.
    assert (Hmi : (length (row_entries s i) <= m)%nat) by now apply Hm.
    assert (Hni : INR (length (row_entries s i)) * u < 1).
    { apply Rle_lt_trans with (INR m * u); [|exact Hmu]. apply Rmult_le_compat_r; [lra|]. now apply le_INR. }
    rewrite <- Hr in Hi. destruct (HdA i Hi Hni) as (Hd & Ew). rewrite Hc in Hd, Ew.
    assert (Ed : vf w i - Ax n (rent s) (vf v) i = Rsum n (fun j => dA i j * vf v j)).
    { assert (Ew' : vf w i = Rsum n (fun j => (rent s i j + dA i j) * vf v j)) by exact Ew.
      rewrite Ew'. unfold Ax. rewrite <- Rsum_minus. apply Rsum_ext. intros j _. ring. }
    rewrite Ed.
    assert (Pa : 0 <= Ax n (rabs s) (fun j => Rabs (vf v j)) i).
    { unfold Ax. apply Rsum_nonneg. intros j _. apply Rmult_le_pos; [apply rabs_nonneg|apply Rabs_pos]. }
    rewrite (Rabs_pos_eq _ Pa). unfold Ax. rewrite <- Rsum_scal.
    eapply Rle_trans; [apply Rsum_abs|]. apply Rsum_le. intros j Hj. rewrite Rabs_mult.
    specialize (Hd j Hj).
    assert (Gi : gam u (length (row_entries s i)) <= gam u m) by (apply (gam_mono u u_range); assumption).
    pose proof (rabs_nonneg s i j). pose proof (Rabs_pos (vf v j)). pose proof (Rabs_pos (dA i j)).
    assert (Rabs (dA i j) <= gam u m * rabs s i j) by nra. nra.
  - rewrite Rmult_assoc. apply Rmult_le_compat_l; [exact Gm|].
    eapply Rle_trans; [apply HN|].
    apply Rmult_le_compat_l; [exact P|].
    rewrite <- (Rmult_1_l (N2 n (vf v))). apply N2_le; [lra|]. intros j _. rewrite Rabs_Rabsolu. lra.
Qed.

End SparseMV.
