(* Proofs/Round2CGMore.v -- package round2, C08: the hypothesis "[mulA] is accurate to eA normwise" of Proofs/Round2CG.v
   DISCHARGED for the model's own compressed-column product [sp_mul] (Model/Sparse.v, the product the solvers are run
   with): by Proofs/RoundSparseDense.v the computed product is (A + dA) v with |dA_ij| <= gam_m |a|_ij row by row
   (m = the largest number of entries stored in a row), hence

        N2 (sp_mul s v - A v) <= gam_m || |A| ||_2 N2 v            ([sparse_MV])

   where NabsA is any bound of the operator 2-norm of |A|.  So  eA = gam_m NabsA  in [cg_drift_lemma]. *)
From Coq Require Import List Arith Lia Bool Reals Lra Psatz.
From OV Require Import Base.Panic Base.Arith Base.RoundModel Model.Vector Model.Sparse Model.Iter
  Proofs.Vector Proofs.SparseBase Proofs.SparseMul Proofs.RoundDot Proofs.RoundSparse Proofs.RoundSparseDense
  Proofs.Round2CGNorm Proofs.Round2CG.
Import ListNotations.
Local Open Scope R_scope.

Section SparseMV.
Variable u : R.
Hypothesis u_range : 0 <= u < 1.
Variables fadd fsub fmul fdiv : R -> R -> R.
Hypothesis fadd_ok : forall x y, exists d, Rabs d <= u /\ fadd x y = (x + y) * (1 + d).
Hypothesis fmul_ok : forall x y, exists d, Rabs d <= u /\ fmul x y = x * y * (1 + d).
Hypothesis fadd_0_mul : forall a b, fadd 0 (fmul a b) = fmul a b.

Notation AR := (ARm fadd fsub fmul fdiv).
Notation rent := (sp_rentry fadd fsub fmul fdiv).
Notation rabs := (sp_rabs fadd fsub fmul fdiv).

Lemma rabs_nonneg (s : sparse AR) i j : 0 <= rabs s i j.
Proof.
  unfold sp_rabs. apply Rsum_nonneg. intros t _. destruct (re_col s i t =? j)%nat; [apply Rabs_pos|lra].
Qed.

Theorem sparse_MV (s : sparse AR) (n m : nat) (NabsA : R) :
  wfS s -> sp_rows s = n -> sp_cols s = n ->
  (forall i, (i < n)%nat -> (length (row_entries s i) <= m)%nat) -> INR m * u < 1 -> 0 <= NabsA ->
  (forall f, N2 n (Ax n (rabs s) f) <= NabsA * N2 n f) ->
  forall v : list R, len v = n -> exists w, sp_mul s v = Ok w /\ len w = n /\
    N2 n (fun i => vf w i - Ax n (rent s) (vf v) i) <= (gam u m * NabsA) * N2 n (vf v).
Proof using u_range fadd_ok fmul_ok fadd_0_mul.
  intros Hwf Hr Hc Hm Hmu P HN v Lv.
  assert (Lv' : length v = sp_cols s) by (rewrite Hc; exact Lv).
  pose proof (sp_mul_fold (A := AR) s v Hwf Lv') as E.
  match type of E with _ = Ok ?t => set (w := t) in E end.
  exists w. split; [exact E|].
  destruct (sp_mul_dense_backward_error_lemma u u_range fadd fsub fmul fdiv fadd_ok fmul_ok fadd_0_mul s v w Hwf E)
    as (Lw & dA & HdA).
  split; [change (len w = sp_rows s) in Lw; lia|].
  pose proof (gam_nonneg u u_range m Hmu) as Gm.
  apply Rle_trans with (gam u m * N2 n (Ax n (rabs s) (fun j => Rabs (vf v j)))).
  - apply N2_le; [exact Gm|]. intros i Hi.
    assert (Hmi : (length (row_entries s i) <= m)%nat) by now apply Hm.
    assert (Hni : INR (length (row_entries s i)) * u < 1).
    { apply Rle_lt_trans with (INR m * u); [|exact Hmu]. apply Rmult_le_compat_r; [lra|]. now apply le_INR. }
    rewrite <- Hr in Hi. destruct (HdA i Hi Hni) as (Hd & Ew). rewrite Hc in Hd, Ew.
    assert (Ed : vf w i - Ax n (rent s) (vf v) i = Rsum n (fun j => dA i j * vf v j)).
    { assert (Ew' : vf w i = Rsum n (fun j => (rent s i j + dA i j) * vf v j)) by exact Ew.
      rewrite Ew'. unfold Ax. rewrite <- Rsum_minus. apply Rsum_ext. intros j _. ring. }
    rewrite Ed.
    assert (Pa : 0 <= Ax n (rabs s) (fun j => Rabs (vf v j)) i).
    { unfold Ax. apply Rsum_nonneg. intros j _. apply Rmult_le_pos; [apply rabs_nonneg|apply Rabs_pos]. }
    rewrite (Rabs_pos_eq _ Pa). unfold Ax. rewrite <- Rsum_scal.
    eapply Rle_trans; [apply Rsum_abs|]. apply Rsum_le. intros j Hj. rewrite Rabs_mult.
    specialize (Hd j Hj).
    assert (Gi : gam u (length (row_entries s i)) <= gam u m) by (apply (gam_mono u u_range); assumption).
    pose proof (rabs_nonneg s i j). pose proof (Rabs_pos (vf v j)). pose proof (Rabs_pos (dA i j)).
    assert (Rabs (dA i j) <= gam u m * rabs s i j) by nra. nra.
  - rewrite Rmult_assoc. apply Rmult_le_compat_l; [exact Gm|].
    eapply Rle_trans; [apply HN|].
    apply Rmult_le_compat_l; [exact P|].
    rewrite <- (Rmult_1_l (N2 n (vf v))). apply N2_le; [lra|]. intros j _. rewrite Rabs_Rabsolu. lra.
Qed.

End SparseMV.

(* ---------------------------------------------------------------- computable norm bounds: the Frobenius norm *)
Definition frob (n : nat) (a : nat -> nat -> R) : R := R_sqrt.sqrt (Rsum n (fun i => Rsum n (fun j => a i j * a i j))).

Lemma frob_nonneg n a : 0 <= frob n a.
Proof. apply sqrt_pos. Qed.

Lemma Ax_frob n (a : nat -> nat -> R) (f : nat -> R) : N2 n (Ax n a f) <= frob n a * N2 n f.
Proof.
  unfold N2, frob. rewrite <- sqrt_mult_alt.
  2:{ apply Rsum_nonneg. intros i _. apply ssq_nonneg. }
  apply sqrt_le_1_alt.
  apply Rle_trans with (Rsum n (fun i => Rsum n (fun j => f j * f j) * Rsum n (fun j => a i j * a i j))).
  - apply Rsum_le. intros i _. unfold Ax. rewrite (Rmult_comm (Rsum n (fun j => f j * f j))). apply Rsum_cs.
  - rewrite Rsum_scal. apply Req_le. ring.
Qed.

(* ---------------------------------------------------------------- the entry point the check runs: [run_sparse] *)
Section SparseRun.
Variable u : R.
Hypothesis u_range : 0 <= u < 1.
Variables fadd fsub fmul fdiv : R -> R -> R.
Variable fsqrt : R -> R.
Hypothesis fadd_ok : forall x y, exists d, Rabs d <= u /\ fadd x y = (x + y) * (1 + d).
Hypothesis fsub_ok : forall x y, exists d, Rabs d <= u /\ fsub x y = (x - y) * (1 + d).
Hypothesis fmul_ok : forall x y, exists d, Rabs d <= u /\ fmul x y = x * y * (1 + d).
Hypothesis fdiv_ok : forall x y, y <> 0 -> exists d, Rabs d <= u /\ fdiv x y = x / y * (1 + d).
Hypothesis fadd_0_mul : forall a b, fadd 0 (fmul a b) = fmul a b.
Hypothesis fsqrt_ok : forall x, 0 <= x -> exists d, Rabs d <= u /\ fsqrt x = R_sqrt.sqrt x * (1 + d).

Notation SAm := (RoundNorm2.SARm fadd fsub fmul fdiv fsqrt).
Notation AR := (ARm fadd fsub fmul fdiv).
Notation rent := (sp_rentry fadd fsub fmul fdiv).
Notation rabs := (sp_rabs fadd fsub fmul fdiv).

(* Ok means solved up to the drift, for the CSC matrix itself; every constant is computable from the stored matrix:
   NA = ||A||_F, eA = gam_m || |A| ||_F, m = the longest stored row *)
Theorem run_sparse_ok_means_solved_rounded_lemma (s : sparse AR) (n m : nat) sv (b x0 : list R) max tol k x g :
  wfS s -> sp_rows s = n -> sp_cols s = n ->
  (forall i, (i < n)%nat -> (length (row_entries s i) <= m)%nat) -> INR m * u < 1 ->
  2 * INR (n + 1) * u < 1 -> sv <> QMR ->
  run_sparse (A := SAm) sv s b x0 max tol = Ok (IOk k, x, g) ->
  (k <= max)%nat /\
  N2 n (fun i => vf b i - Ax n (rent s) (vf x) i)
    <= tol * (kap u n * (1 + rho u) * (1 + gN u n)) * nzR (N2 n (vf b))
       + (4 * INR (updates sv k) + 1)
         * ((rho u * frob n (rent s) + gam u m * frob n (rabs s)) * (kap u n * t_X (g_X g)) + rho u * N2 n (vf b))
         / (1 - rho u) ^ (updates sv k + 1).
Proof using u_range fadd_ok fsub_ok fmul_ok fdiv_ok fadd_0_mul fsqrt_ok.
  intros Hwf Hr Hc Hm Hmu Hn Hq H. unfold run_sparse in H. subst n. set (n := sp_rows s) in *.
  pose proof (gam_nonneg u u_range m Hmu) as Gm.
  assert (HeA : 0 <= gam u m * frob n (rabs s)) by (apply Rmult_le_pos; [exact Gm|apply frob_nonneg]).
  exact (run_ok_means_solved_rounded_lemma u u_range fadd fsub fmul fdiv fsqrt fadd_ok fsub_ok fmul_ok fdiv_ok fadd_0_mul
           fsqrt_ok _ Hn (rent s) (frob _ (rent s)) (gam u m * frob _ (rabs s)) (frob_nonneg _ (rent s)) HeA
           (Ax_frob _ (rent s)) (sp_mul s)
           (sparse_MV u u_range fadd fsub fmul fdiv fadd_ok fmul_ok fadd_0_mul s _ m (frob _ (rabs s)) Hwf eq_refl Hc Hm Hmu
              (frob_nonneg _ (rabs s)) (Ax_frob _ (rabs s)))
           (sp_tmul s) sv b x0 (sp_cols s) max tol k x g Hq H).
Qed.

End SparseRun.
