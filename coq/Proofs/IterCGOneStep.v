(* Proofs/IterCGOneStep.v -- round two, package iter2: the positive counterpart of the left-eigenvector
   breakdowns.  If the initial residual r0 = b - A x0 is a (right) EIGENVECTOR of A with a nonzero eigenvalue,
   every solver of Model/Iter.v answers Ok after at most ONE iteration (the first step lands on the exact
   solution x0 + r0 / lambda), in exact arithmetic.  Every 1 x 1 system with a nonzero entry is an instance. *)
From Coq Require Import List Arith Lia Bool Ring Field.
From OV Require Import Base.Panic Base.Arith Model.Vector Model.Iter Proofs.Iter Proofs.IterField
  Proofs.IterSparse Proofs.IterSparseBreakdown Proofs.IterSparseBreakdownField Proofs.IterCGVec Proofs.IterCG.
Import ListNotations.

Section OneStep.
Context {A : SArith}.
Notation F := (T (SA A)).
Variable FL : FieldLaws (SA A).
Variable SL : SqrtLaws A.
Add Field FFo : (fl_field (SA A) FL).
Notation finv := (fl_inv (SA A) FL).
Variables (n : nat) (mulA mulAT : list F -> res (list F)).
Hypothesis LO : LinOp n mulA.
Hypothesis TOT : forall v, length v = n -> exists w, mulAT v = Ok w /\ length w = n.

Section Start.
Variables (b x0 ax : list F) (lam tol : F).
Hypothesis Hb : length b = n.
Hypothesis Hx : length x0 = n.
Hypothesis Eax : mulA x0 = Ok ax.
Let r0 := zipw sub b ax.
Hypothesis Eeig : mulA r0 = Ok (vscale r0 lam).
Hypothesis Hlam : lam <> zero.
Hypothesis Hrho : dot_raw r0 r0 <> zero.
Hypothesis Htol : leb zero tol = true.

Let rho := dot_raw r0 r0.
Let alpha := mul rho (finv (mul rho lam)).

Lemma os_ax : length ax = n.
Proof. eapply mulA_len; eauto. Qed.
Lemma os_r0 : length r0 = n.
Proof. unfold r0. rewrite zipw_length; auto. rewrite Hb. symmetry. apply os_ax. Qed.
Lemma os_zpp : mul rho lam <> zero.
Proof. intros E. apply Hlam. exact (mul_zero_inv FL rho lam E Hrho). Qed.
Lemma os_la : mul lam alpha = one.
Proof. unfold alpha. field. split; [exact Hlam | exact Hrho]. Qed.
Lemma os_pq : dot_raw r0 (vscale r0 lam) = mul rho lam.
Proof. now rewrite (dot_raw_scale_r FL). Qed.
Lemma os_res : zipw sub r0 (vscale (vscale r0 lam) alpha) = repeat zero n.
Proof. rewrite (shadow_vanishes FL r0 lam alpha os_la). now rewrite os_r0. Qed.
Lemma os_vsub : vsub b ax = Ok r0.
Proof. unfold vsub. rewrite Hb, os_ax, Nat.eqb_refl. reflexivity. Qed.
Lemma os_zero_resid : div (norm2 (repeat (@zero (SA A)) n)) (nz (norm2 b)) = Ok zero.
Proof. rewrite (norm2_zeros FL SL). apply (div_zero_nz FL). Qed.

(* ---- CG ---- *)
Lemma cg_eigen_one_step max : 1 <= max ->
  exists k x g, solve_cg mulA n n b x0 max tol = Ok (IOk k, x, g) /\ k <= 1.
Proof.
  intros Hmax. pose proof os_r0 as Hr0. pose proof (@zeros_length A n) as Hzl.
  unfold solve_cg. rewrite (guards_pass n b x0 Hb Hx), Eax. cbn [bind]. rewrite os_vsub. cbn [bind]. fold r0.
  destruct (div (norm2 r0) (nz (norm2 b))) as [resid|e] eqn:Ed.
  2:{ exfalso. rewrite (fl_div (SA A) FL), (nz_nonzero FL) in Ed. discriminate Ed. }
  cbn [bind]. cbv zeta. destruct (leb resid tol).
  { do 3 eexists. split; [reflexivity | lia]. }
  destruct max as [|max]; [lia|]. cbn [iloop].
  rewrite (cg_body_eq n mulA LO) by (cbn; auto). unfold cg_dir. cbn [Nat.eqb bind cg_r].
  unfold cg_tail. cbn [cg_r cg_x cg_X]. rewrite Eeig. cbn [bind]. fold rho. rewrite os_pq.
  rewrite (div_ok FL) by exact os_zpp. cbn [bind]. fold alpha.
  rewrite os_res, os_zero_resid. cbn [bind]. rewrite Htol. cbn [bind].
  do 3 eexists. split; [reflexivity | lia].
Qed.

(* ---- BiCG ---- *)
Lemma bicg_eigen_one_step itol max : itol = 1 \/ itol = 2 -> 1 <= max ->
  exists k x g, solve_bicg mulA mulAT n n itol b x0 max tol = Ok (IOk k, x, g) /\ k <= 1.
Proof.
  intros Hit Hmax. pose proof os_r0 as Hr0. pose proof (@zeros_length A n) as Hzl.
  assert (Estart : bicg_start mulA n n itol b x0 = Ok (r0, norm2 b, r0)).
  { unfold bicg_start. rewrite (guards_pass n b x0 Hb Hx), Eax. cbn [bind]. rewrite os_vsub. cbn [bind]. fold r0.
    destruct Hit as [-> | ->]; cbn [Nat.eqb].
    - rewrite ident_pre_ok by auto. reflexivity.
    - rewrite ident_pre_ok by auto. cbn [bind]. rewrite ident_pre_ok by auto. reflexivity. }
  unfold solve_bicg. rewrite Estart. cbn [bind].
  destruct (div (norm2 r0) (nz (norm2 b))) as [err0|e] eqn:Ed.
  2:{ exfalso. rewrite (fl_div (SA A) FL), (nz_nonzero FL) in Ed. discriminate Ed. }
  cbn [bind]. destruct (leb err0 tol).
  { do 3 eexists. split; [reflexivity | lia]. }
  destruct max as [|max]; [lia|]. cbn [iloop].
  unfold bicg_body. cbn [bi_x bi_r bi_rr bi_z bi_zz bi_p bi_pp bi_rho2 bi_err bi_X].
  rewrite ident_pre_ok by auto. cbn [bind]. rewrite dot_ok by auto. cbn [bind Nat.eqb].
  rewrite Eeig. cbn [bind]. rewrite dot_ok by (rewrite vscale_length; lia). cbn [bind].
  rewrite (dot_raw_comm FL (vscale r0 lam) r0), os_pq. fold rho.
  rewrite (div_ok FL) by exact os_zpp. cbn [bind]. fold alpha.
  destruct (TOT r0 Hr0) as (zz & Ezz & Hzz). rewrite Ezz. cbn [bind].
  unfold vadd, vsub. rewrite !vscale_length, Hx, Hr0, Hzz, Nat.eqb_refl. cbn [bind].
  rewrite os_res. rewrite ident_pre_ok by (rewrite ?repeat_length, ?vscale_length; auto). cbn [bind].
  destruct Hit as [-> | ->]; cbn [Nat.eqb bind]; rewrite os_zero_resid; cbn [bind]; rewrite Htol; cbn [bind].
  all: do 3 eexists; split; [reflexivity | lia].
Qed.

(* ---- BiCGSTAB ---- *)
Lemma bicgstab_eigen_one_step max : 1 <= max ->
  exists k x g, solve_bicgstab mulA n n b x0 max tol = Ok (IOk k, x, g) /\ k <= 1.
Proof.
  intros Hmax. pose proof os_r0 as Hr0. pose proof (@zeros_length A n) as Hzl.
  unfold solve_bicgstab. rewrite (guards_pass n b x0 Hb Hx), Eax. cbn [bind]. rewrite os_vsub. cbn [bind]. fold r0.
  destruct (div (norm2 r0) (nz (norm2 b))) as [resid|e] eqn:Ed.
  2:{ exfalso. rewrite (fl_div (SA A) FL), (nz_nonzero FL) in Ed. discriminate Ed. }
  cbn [bind]. cbv zeta. destruct (leb resid tol).
  { do 3 eexists. split; [reflexivity | lia]. }
  destruct max as [|max]; [lia|]. cbn [iloop].
  unfold stab_body. cbn [st_x st_r st_p st_phat st_shat st_v st_rho2 st_alpha st_omega st_resid st_X].
  rewrite dot_ok by auto. cbn [bind]. fold rho.
  replace (eqb rho zero) with false.
  2:{ symmetry. destruct (eqb rho zero) eqn:E; auto. apply (fl_eqb (SA A) FL) in E. contradiction. }
  cbn [Nat.eqb bind]. rewrite ident_pre_ok by auto. cbn [bind].
  rewrite Eeig. cbn [bind]. rewrite dot_ok by (rewrite vscale_length; lia). cbn [bind]. rewrite os_pq.
  rewrite (div_ok FL) by exact os_zpp. cbn [bind]. fold alpha.
  unfold vsub at 1. rewrite !vscale_length, Hr0, Nat.eqb_refl. cbn [bind].
  rewrite os_res, os_zero_resid. cbn [bind]. rewrite Htol.
  unfold vadd. rewrite vscale_length, Hx, Hr0, Nat.eqb_refl. cbn [bind].
  do 3 eexists. split; [reflexivity | lia].
Qed.

End Start.
End OneStep.
