(* Proofs/Round2Lin.v -- package round2, item 4 (C15/C19 exactness at binary64, part 1).
   (1) A DYADIC exactness invariant for Coq's primitive binary64 floats, generalising ExactW of Proofs/ParDotFloat.v:
         Dy x m e  :=  x is finite and its real value is  m * 2^e   (m : Z, the sign of a zero is not tracked).
       Sums, differences and products of dyadics are computed EXACTLY (no rounding) whenever the integer numerator of
       the result is below 2^53 and the exponent is in [-1074, 971] (Flocq: Bplus/Bminus/Bmult_correct + FLT format);
       division by a power of two is exact (Bdiv_correct); `n as f64` is exact for n < 2^53 (of_int63_equiv +
       binary_normalize_correct).
   (2) Vector<f64>::linspace (Model/Vector.v: linspace at SAF):
         - the first element a + h*0 has the value of a whenever h is finite, and IS a unless a is a zero
           (for a = -0, h >= 0 the result is +0);  for size 1, h = (b-a)/0 is infinite or NaN and the element is NaN;
         - for dyadic endpoints on a common exponent and size 2^k + 1 every element is exactly the real grid point
           a + (b-a) i / (size-1); the last element is b itself.
         - more generally, for endpoints ma 2^e, mb 2^e with (n - 1) | (mb - ma) (e.g. integer endpoints whose
           difference is a multiple of the number of intervals: linspace(0,10,11)) the step and every element are exact;
         - the step is finite whenever b - a is finite and 2 <= n < 2^53 (lin_h_finite).
       In general the last element is NOT b: linspace(0,1,50) ends in 0.99999999999999989 (Example below). *)
From Coq Require Import ZArith Reals Floats Lia Lra List Bool Arith.
From Flocq Require Import Core.Core IEEE754.BinarySingleNaN IEEE754.PrimFloat.
From OV Require Import Base.Panic Base.Arith Model.Vector Inst.FloatInst Proofs.ParDotFloat Proofs.ComplexRound.
Import ListNotations.

Local Open Scope Z_scope.

(* ---------------------------------------------------------------- dyadic values in the format *)
Definition erange (e : Z) : Prop := -1074 <= e <= 971.

Lemma dy_format (m e : Z) : Z.abs m < 2 ^ 53 -> -1074 <= e ->
  generic_format radix2 fx (IZR m * bpow radix2 e).
Proof.
  intros Hm He. apply generic_format_FLT. apply (FLT_spec radix2 _ prec _ (Float radix2 m e)).
  - unfold F2R; simpl. reflexivity.
  - simpl. exact Hm.
  - simpl. unfold SpecFloat.emin, emax, prec. lia.
Qed.

Lemma round_dy (m e : Z) : Z.abs m < 2 ^ 53 -> -1074 <= e ->
  round radix2 (SpecFloat.fexp prec emax) (round_mode mode_NE) (IZR m * bpow radix2 e) = (IZR m * bpow radix2 e)%R.
Proof.
  intros Hm He. change (SpecFloat.fexp prec emax) with fx. apply round_generic; [apply valid_rnd_N|].
  now apply dy_format.
Qed.

Lemma dy_lt_emax (m e : Z) : Z.abs m < 2 ^ 53 -> e <= 971 ->
  (Rabs (IZR m * bpow radix2 e) < bpow radix2 emax)%R.
Proof.
  intros Hm He. rewrite Rabs_mult, <- abs_IZR, (Rabs_pos_eq (bpow radix2 e)) by apply bpow_ge_0.
  apply Rlt_le_trans with (bpow radix2 53 * bpow radix2 e)%R.
  - apply Rmult_lt_compat_r; [apply bpow_gt_0|].
    change (bpow radix2 53) with (IZR (2 ^ 53)). now apply IZR_lt.
  - rewrite <- bpow_plus. apply bpow_le. unfold emax. lia.
Qed.

(* x is finite and holds m * 2^e exactly (the sign of a zero is not tracked) *)
Definition Dy (x : PrimFloat.float) (m e : Z) : Prop :=
  is_finite (Prim2B x) = true /\ B2R (Prim2B x) = (IZR m * bpow radix2 e)%R.

Lemma Dy_FR x m e : Dy x m e -> FR x = (IZR m * bpow radix2 e)%R.
Proof. now intros [_ H]. Qed.
Lemma Dy_ffinite x m e : Dy x m e -> ffinite x.
Proof. now intros [H _]. Qed.

Lemma ExactW_Dy x z : ExactW x z <-> Dy x z 0.
Proof. unfold ExactW, Dy. simpl. now rewrite Rmult_1_r. Qed.

(* the same value on a finer grid *)
Lemma Dy_shift x m e j : 0 <= j -> Dy x m e -> Dy x (m * 2 ^ j) (e - j).
Proof.
  intros Hj [F R]. split; [exact F|]. rewrite R, mult_IZR.
  change 2 with (radix_val radix2) at 1. rewrite IZR_Zpower by exact Hj.
  rewrite Rmult_assoc, <- bpow_plus. f_equal. f_equal. lia.
Qed.

Lemma Dy_add x y a b e : Dy x a e -> Dy y b e -> Z.abs (a + b) < 2 ^ 53 -> erange e -> Dy (x + y)%float (a + b) e.
Proof.
  intros [Fx Rx] [Fy Ry] Hb [He1 He2]. unfold Dy. rewrite add_equiv.
  pose proof (Bplus_correct prec emax HP HM mode_NE (Prim2B x) (Prim2B y) Fx Fy) as H.
  rewrite Rx, Ry, <- Rmult_plus_distr_r, <- plus_IZR, round_dy in H by assumption.
  rewrite Rlt_bool_true in H by now apply dy_lt_emax.
  destruct H as (H1 & H2 & _). auto.
Qed.

Lemma Dy_sub x y a b e : Dy x a e -> Dy y b e -> Z.abs (a - b) < 2 ^ 53 -> erange e -> Dy (x - y)%float (a - b) e.
Proof.
  intros [Fx Rx] [Fy Ry] Hb [He1 He2]. unfold Dy. rewrite sub_equiv.
  pose proof (Bminus_correct prec emax HP HM mode_NE (Prim2B x) (Prim2B y) Fx Fy) as H.
  rewrite Rx, Ry, <- Rmult_minus_distr_r, <- minus_IZR, round_dy in H by assumption.
  rewrite Rlt_bool_true in H by now apply dy_lt_emax.
  destruct H as (H1 & H2 & _). auto.
Qed.

Lemma Dy_mul x y a b e f : Dy x a e -> Dy y b f -> Z.abs (a * b) < 2 ^ 53 -> erange (e + f) ->
  Dy (x * y)%float (a * b) (e + f).
Proof.
  intros [Fx Rx] [Fy Ry] Hb [He1 He2]. unfold Dy. rewrite mul_equiv.
  pose proof (Bmult_correct prec emax HP HM mode_NE (Prim2B x) (Prim2B y)) as H.
  replace (B2R (Prim2B x) * B2R (Prim2B y))%R with (IZR (a * b) * bpow radix2 (e + f))%R in H
    by (rewrite Rx, Ry, mult_IZR, bpow_plus; ring).
  rewrite round_dy in H by assumption.
  rewrite Rlt_bool_true in H by now apply dy_lt_emax.
  destruct H as (H1 & H2 & _). rewrite H1, H2, Fx, Fy. auto.
Qed.

(* division by a power of two: exact as long as the quotient does not leave the exponent range *)
Lemma Dy_div_pow2 x y a e j : Dy x a e -> Dy y 1 j -> Z.abs a < 2 ^ 53 -> erange (e - j) ->
  Dy (x / y)%float a (e - j).
Proof.
  intros [Fx Rx] [Fy Ry] Hb [He1 He2]. unfold Dy. rewrite div_equiv.
  assert (Hy : B2R (Prim2B y) <> 0%R).
  { rewrite Ry, Rmult_1_l. apply Rgt_not_eq, bpow_gt_0. }
  pose proof (Bdiv_correct prec emax HP HM mode_NE (Prim2B x) (Prim2B y) Hy) as H.
  replace (B2R (Prim2B x) / B2R (Prim2B y))%R with (IZR a * bpow radix2 (e - j))%R in H.
  2:{ rewrite Rx, Ry, Rmult_1_l. unfold Zminus. rewrite bpow_plus, bpow_opp. unfold Rdiv. ring. }
  rewrite round_dy in H by assumption.
  rewrite Rlt_bool_true in H by now apply dy_lt_emax.
  destruct H as (H1 & H2 & _). rewrite H1, H2, Fx. auto.
Qed.

Lemma Dy_opp x a e : Dy x a e -> Dy (- x)%float (- a) e.
Proof.
  intros [Fx Rx]. unfold Dy. rewrite opp_equiv, is_finite_Bopp, B2R_Bopp, Rx, opp_IZR. split; [auto|ring].
Qed.

Lemma Dy_zero e : Dy 0%float 0 e.
Proof. split; [reflexivity|]. simpl. ring. Qed.
Lemma Dy_one : Dy 1%float 1 0.
Proof. apply ExactW_Dy. exactw. Qed.

(* of_nat: `i as f64` *)
Lemma Dy_of_nat (n : nat) : Z.of_nat n < 2 ^ 53 -> Dy (f_of_nat n) (Z.of_nat n) 0.
Proof.
  intros Hn. unfold Dy, f_of_nat.
  rewrite of_int63_equiv.
  assert (E : Uint63.to_Z (Uint63.of_Z (Z.of_nat n)) = Z.of_nat n).
  { rewrite Uint63.of_Z_spec. apply Z.mod_small. change Uint63.wB with (2 ^ 63). lia. }
  rewrite E.
  pose proof (binary_normalize_correct prec emax HP HM mode_NE (Z.of_nat n) 0 false) as H.
  cbv zeta in H. unfold F2R in H; simpl Fnum in H; simpl Fexp in H.
  rewrite round_dy in H by lia.
  rewrite Rlt_bool_true in H by (apply dy_lt_emax; lia).
  destruct H as (H1 & H2 & _). auto.
Qed.

Lemma Dy_same x m e m' e' : Dy x m e -> (IZR m * bpow radix2 e = IZR m' * bpow radix2 e')%R -> Dy x m' e'.
Proof. intros [F R] H. split; [exact F|]. now rewrite R. Qed.

(* two finite floats with the same non-zero real value are the same float *)
Lemma Bsign_Rlt (f : binary_float prec emax) : is_finite f = true -> B2R f <> 0%R -> Bsign f = Rlt_bool (B2R f) 0.
Proof.
  intros Ff Nz. destruct f as [s|s| |s m e B]; simpl in *; try discriminate; try (now elim Nz).
  destruct s.
  - rewrite Rlt_bool_true; [reflexivity|]. now apply F2R_lt_0.
  - rewrite Rlt_bool_false; [reflexivity|]. apply Rlt_le. now apply F2R_gt_0.
Qed.

Lemma FR_inj_nonzero x y : ffinite x -> ffinite y -> FR x = FR y -> FR x <> 0%R -> x = y.
Proof.
  unfold ffinite, FR. intros Fx Fy E Nz. apply Prim2B_inj. apply B2R_Bsign_inj; auto.
  rewrite !Bsign_Rlt; auto; congruence.
Qed.

(* x + (a zero) : the value of x, and x itself unless x is a zero *)
Lemma fadd_zero_r x z : ffinite x -> ffinite z -> FR z = 0%R ->
  ffinite (x + z)%float /\ FR (x + z)%float = FR x /\ (FR x <> 0%R -> (x + z)%float = x).
Proof.
  unfold ffinite, FR. intros Fx Fz Rz. rewrite add_equiv.
  pose proof (Bplus_correct prec emax HP HM mode_NE (Prim2B x) (Prim2B z) Fx Fz) as H.
  rewrite Rz, Rplus_0_r in H.
  rewrite round_generic in H; [|apply valid_rnd_N|apply generic_format_B2R].
  rewrite Rlt_bool_true in H by now apply abs_B2R_lt_emax.
  destruct H as (H1 & H2 & _). split; [exact H2|]. split; [exact H1|].
  intros Nz. apply FR_inj_nonzero; unfold ffinite, FR; rewrite ?add_equiv; auto.
  now rewrite H1.
Qed.

Lemma fmul_zero_r x : ffinite x -> ffinite (x * 0)%float /\ FR (x * 0)%float = 0%R.
Proof.
  unfold ffinite, FR. intros Fx. rewrite mul_equiv.
  pose proof (Bmult_correct prec emax HP HM mode_NE (Prim2B x) (Prim2B 0%float)) as H.
  change (B2R (Prim2B 0%float)) with 0%R in H. rewrite Rmult_0_r, round_0 in H by apply valid_rnd_N.
  rewrite Rabs_R0, Rlt_bool_true in H by apply bpow_gt_0.
  destruct H as (H1 & H2 & _). rewrite H2, Fx. auto.
Qed.

(* ---------------------------------------------------------------- linspace at binary64 *)
Definition lin_h (a b : PrimFloat.float) (n : nat) : PrimFloat.float := ((b - a) / (f_of_nat n - 1))%float.

Lemma linspace_SAF a b n :
  linspace (F := SAF) a b n = Ok (map (fun i => (a + lin_h a b n * f_of_nat i)%float) (seq 0 n)).
Proof. reflexivity. Qed.

Lemma linspace_nth a b n (v : list PrimFloat.float) i : linspace (F := SAF) a b n = Ok v -> (i < n)%nat ->
  nth i v 0%float = (a + lin_h a b n * f_of_nat i)%float.
Proof.
  rewrite linspace_SAF. intros E Hi. injection E as <-.
  set (f := fun i => (a + lin_h a b n * f_of_nat i)%float).
  rewrite (nth_indep _ 0%float (f 0%nat)) by (now rewrite map_length, seq_length).
  rewrite map_nth, seq_nth by exact Hi. reflexivity.
Qed.

Lemma linspace_length a b n (v : list PrimFloat.float) : linspace (F := SAF) a b n = Ok v -> length v = n.
Proof. rewrite linspace_SAF. intros E. injection E as <-. now rewrite map_length, seq_length. Qed.

(* the first element: a + h*0.  Its value is that of a whenever h is finite, and it is a itself unless a is a
   zero (for a = -0 and h >= 0 the result is +0: -0 + +0 = +0) *)
Lemma linspace_first_exact_float_lemma (a b : PrimFloat.float) (n : nat) (v : list PrimFloat.float) :
  linspace (F := SAF) a b n = Ok v -> (1 <= n)%nat -> ffinite a -> ffinite (lin_h a b n) ->
  length v = n /\ ffinite (nth 0 v 0%float) /\ FR (nth 0 v 0%float) = FR a /\
  (FR a <> 0%R -> nth 0 v 0%float = a).
Proof.
  intros E Hn Fa Fh. split; [now apply (linspace_length a b n)|].
  rewrite (linspace_nth a b n v 0 E) by lia.
  change (f_of_nat 0) with 0%float.
  destruct (fmul_zero_r _ Fh) as [F0 R0].
  exact (fadd_zero_r a _ Fa F0 R0).
Qed.

Lemma IZR_pow2 (k : Z) : 0 <= k -> IZR (2 ^ k) = bpow radix2 k.
Proof. intros Hk. change 2 with (radix_val radix2). now rewrite IZR_Zpower. Qed.

(* the denominator `(size as f64) - 1.0` for size = 2^k + 1 is the float 2^k *)
Lemma lin_den_pow2 (k : nat) : (k <= 52)%nat -> Dy (f_of_nat (2 ^ k + 1) - 1)%float 1 (Z.of_nat k).
Proof.
  intros Hk.
  assert (P : 2 ^ Z.of_nat k <= 2 ^ 52) by (apply Z.pow_le_mono_r; lia).
  assert (Hn : Z.of_nat (2 ^ k + 1) = 2 ^ Z.of_nat k + 1).
  { rewrite Nat2Z.inj_add, Nat2Z.inj_pow. reflexivity. }
  assert (D : Dy (f_of_nat (2 ^ k + 1) - 1)%float (Z.of_nat (2 ^ k + 1) - 1) 0).
  { apply Dy_sub; [apply Dy_of_nat; lia|exact Dy_one|lia|unfold erange; lia]. }
  apply (Dy_same _ _ _ _ _ D). rewrite Hn. replace (2 ^ Z.of_nat k + 1 - 1) with (2 ^ Z.of_nat k) by lia.
  rewrite IZR_pow2 by lia. simpl (bpow radix2 0). ring.
Qed.

Lemma abs_convex (ma mb i K M : Z) : 0 <= i <= K -> Z.abs ma <= M -> Z.abs mb <= M ->
  Z.abs (ma * K + (mb - ma) * i) <= M * K.
Proof.
  intros Hi Ha Hb. replace (ma * K + (mb - ma) * i) with (ma * (K - i) + mb * i) by ring.
  assert (Z.abs (ma * (K - i)) <= M * (K - i)) by (rewrite Z.abs_mul, (Z.abs_eq (K - i)) by lia; nia).
  assert (Z.abs (mb * i) <= M * i) by (rewrite Z.abs_mul, (Z.abs_eq i) by lia; nia).
  pose proof (Z.abs_triangle (ma * (K - i)) (mb * i)). nia.
Qed.

(* the elements of linspace a b (2^k+1) for dyadic endpoints on a common exponent *)
Lemma linspace_elem_dyadic (a b : PrimFloat.float) (ma mb e : Z) (k i : nat) :
  Dy a ma e -> Dy b mb e -> (k <= 52)%nat -> -1074 + Z.of_nat k <= e <= 971 ->
  Z.abs (mb - ma) * 2 ^ Z.of_nat k < 2 ^ 53 ->
  Z.abs ma * 2 ^ Z.of_nat k < 2 ^ 53 -> Z.abs mb * 2 ^ Z.of_nat k < 2 ^ 53 ->
  (i <= 2 ^ k)%nat ->
  Dy (a + lin_h a b (2 ^ k + 1) * f_of_nat i)%float
     (ma * 2 ^ Z.of_nat k + (mb - ma) * Z.of_nat i) (e - Z.of_nat k).
Proof.
  intros Da Db Hk He Hd Ha Hb Hi.
  set (K := 2 ^ Z.of_nat k) in *.
  assert (P : 1 <= K <= 2 ^ 52) by (unfold K; split; [apply (Z.pow_le_mono_r 2 0); lia|apply Z.pow_le_mono_r; lia]).
  assert (Hi' : 0 <= Z.of_nat i <= K) by (unfold K; rewrite <- Nat2Z.inj_pow with (n := 2%nat); lia).
  assert (Dd : Dy (b - a)%float (mb - ma) e) by (apply Dy_sub; auto; unfold erange; nia).
  assert (Dh : Dy (lin_h a b (2 ^ k + 1)) (mb - ma) (e - Z.of_nat k)).
  { unfold lin_h. apply Dy_div_pow2; [exact Dd|now apply lin_den_pow2|nia|unfold erange; lia]. }
  assert (Di : Dy (f_of_nat i) (Z.of_nat i) 0) by (apply Dy_of_nat; lia).
  assert (Dp : Dy (lin_h a b (2 ^ k + 1) * f_of_nat i)%float ((mb - ma) * Z.of_nat i) (e - Z.of_nat k)).
  { rewrite <- (Z.add_0_r (e - Z.of_nat k)). apply Dy_mul; auto.
    - rewrite Z.abs_mul, (Z.abs_eq (Z.of_nat i)) by lia. nia.
    - unfold erange; lia. }
  apply Dy_add; [apply Dy_shift; [lia|exact Da]|exact Dp| |unfold erange; lia].
  pose proof (abs_convex ma mb (Z.of_nat i) K (Z.max (Z.abs ma) (Z.abs mb)) Hi' ltac:(lia) ltac:(lia)). nia.
Qed.

Local Open Scope R_scope.
(* C15: for dyadic endpoints a = ma 2^e, b = mb 2^e and size 2^k + 1, every element of linspace is EXACTLY the
   real grid point a + (b-a) i/(size-1) (no rounding anywhere); the last element is b itself. *)
Lemma linspace_exact_dyadic_float_lemma (a b : PrimFloat.float) (ma mb e : Z) (k : nat) (v : list PrimFloat.float) :
  ffinite a -> FR a = IZR ma * bpow radix2 e -> ffinite b -> FR b = IZR mb * bpow radix2 e ->
  (k <= 52)%nat -> (-1074 + Z.of_nat k <= e <= 971)%Z ->
  (Z.abs (mb - ma) * 2 ^ Z.of_nat k < 2 ^ 53)%Z ->
  (Z.abs ma * 2 ^ Z.of_nat k < 2 ^ 53)%Z -> (Z.abs mb * 2 ^ Z.of_nat k < 2 ^ 53)%Z ->
  linspace (F := SAF) a b (2 ^ k + 1) = Ok v ->
  length v = (2 ^ k + 1)%nat /\
  (forall i, (i <= 2 ^ k)%nat ->
     ffinite (nth i v 0%float) /\
     FR (nth i v 0%float) = FR a + (FR b - FR a) * INR i / INR (2 ^ k)) /\
  FR (nth (2 ^ k) v 0%float) = FR b /\
  (FR b <> 0 -> nth (2 ^ k) v 0%float = b).
Proof.
  intros Fa Ra Fb Rb Hk He Hd Ha Hb E.
  assert (Da : Dy a ma e) by (split; assumption). assert (Db : Dy b mb e) by (split; assumption).
  split; [now apply (linspace_length a b _ v)|].
  assert (G : forall i, (i <= 2 ^ k)%nat ->
     ffinite (nth i v 0%float) /\
     FR (nth i v 0%float) = FR a + (FR b - FR a) * INR i / INR (2 ^ k)).
  { intros i Hi. rewrite (linspace_nth a b _ v i E) by lia.
    destruct (linspace_elem_dyadic a b ma mb e k i Da Db Hk He Hd Ha Hb Hi) as [F R].
    split; [exact F|]. unfold FR at 1. rewrite R, Ra, Rb.
    assert (EK : INR (2 ^ k) = bpow radix2 (Z.of_nat k)).
    { rewrite INR_IZR_INZ, Nat2Z.inj_pow. apply IZR_pow2. lia. }
    rewrite EK, plus_IZR, !mult_IZR, minus_IZR, IZR_pow2 by lia. rewrite <- !INR_IZR_INZ.
    unfold Zminus. rewrite bpow_plus, bpow_opp.
    pose proof (bpow_gt_0 radix2 (Z.of_nat k)). field. lra. }
  split; [exact G|].
  destruct (G (2 ^ k)%nat (le_n _)) as [F R].
  assert (R' : FR (nth (2 ^ k) v 0%float) = FR b).
  { rewrite R. field. apply not_0_INR. apply Nat.pow_nonzero. lia. }
  split; [exact R'|]. intros Nz. apply FR_inj_nonzero; auto. now rewrite R'.
Qed.

Local Open Scope Z_scope.
(* exact division: the numerator is a multiple of the (integer-valued) denominator *)
Lemma Dy_div_exact x y q c e : Dy x (q * c) e -> Dy y c 0 -> c <> 0 -> Z.abs q < 2 ^ 53 -> erange e ->
  Dy (x / y)%float q e.
Proof.
  intros [Fx Rx] [Fy Ry] Hc Hb [He1 He2]. unfold Dy. rewrite div_equiv.
  assert (Hc' : IZR c <> 0%R) by (now apply not_0_IZR).
  assert (Hy : B2R (Prim2B y) <> 0%R).
  { rewrite Ry. simpl. now rewrite Rmult_1_r. }
  pose proof (Bdiv_correct prec emax HP HM mode_NE (Prim2B x) (Prim2B y) Hy) as H.
  replace (B2R (Prim2B x) / B2R (Prim2B y))%R with (IZR q * bpow radix2 e)%R in H.
  2:{ rewrite Rx, Ry, mult_IZR. simpl (bpow radix2 0). field. exact Hc'. }
  rewrite round_dy in H by assumption.
  rewrite Rlt_bool_true in H by now apply dy_lt_emax.
  destruct H as (H1 & H2 & _). rewrite H1, H2, Fx. auto.
Qed.

(* the elements of linspace a b n when n - 1 divides the numerator of b - a *)
Lemma linspace_elem_divisible (a b : PrimFloat.float) (ma mb d e : Z) (n i : nat) :
  Dy a ma e -> Dy b mb e -> (2 <= n)%nat -> Z.of_nat n < 2 ^ 53 -> erange e ->
  mb - ma = d * (Z.of_nat n - 1) ->
  Z.abs (mb - ma) < 2 ^ 53 -> Z.abs ma < 2 ^ 53 -> Z.abs mb < 2 ^ 53 ->
  (i < n)%nat ->
  Dy (a + lin_h a b n * f_of_nat i)%float (ma + d * Z.of_nat i) e.
Proof.
  intros Da Db Hn Hn' He Hdiv Hd Ha Hb Hi.
  set (N := Z.of_nat n - 1) in *. assert (HN : 1 <= N) by (unfold N; lia).
  assert (Dden : Dy (f_of_nat n - 1)%float N 0).
  { apply Dy_sub; [apply Dy_of_nat; lia|exact Dy_one|unfold N; lia|unfold erange; lia]. }
  assert (Dd : Dy (b - a)%float (d * N) e) by (rewrite <- Hdiv; apply Dy_sub; auto).
  assert (Hdd : Z.abs d <= Z.abs (mb - ma)) by (rewrite Hdiv, Z.abs_mul; nia).
  assert (Dh : Dy (lin_h a b n) d e) by (unfold lin_h; apply (Dy_div_exact _ _ d N); auto; lia).
  assert (Di : Dy (f_of_nat i) (Z.of_nat i) 0) by (apply Dy_of_nat; lia).
  assert (Dp : Dy (lin_h a b n * f_of_nat i)%float (d * Z.of_nat i) e).
  { rewrite <- (Z.add_0_r e). apply Dy_mul; auto; [|now rewrite Z.add_0_r].
    rewrite Hdiv, Z.abs_mul in Hd. rewrite Z.abs_mul. rewrite (Z.abs_eq N) in Hd by lia.
    rewrite (Z.abs_eq (Z.of_nat i)) by lia. nia. }
  apply Dy_add; auto.
  pose proof (abs_convex ma mb (Z.of_nat i) N (Z.max (Z.abs ma) (Z.abs mb)) ltac:(lia) ltac:(lia) ltac:(lia)) as C.
  replace (ma * N + (mb - ma) * Z.of_nat i) with ((ma + d * Z.of_nat i) * N) in C by (rewrite Hdiv; ring).
  rewrite Z.abs_mul, (Z.abs_eq N) in C by lia. nia.
Qed.

Local Open Scope R_scope.
(* C15: endpoints a = ma 2^e, b = mb 2^e on a common exponent with (n - 1) | (mb - ma) -- e.g. integer endpoints whose
   difference is a multiple of the number of intervals: the step and every element are exact *)
Lemma linspace_exact_divisible_float_lemma (a b : PrimFloat.float) (ma mb d e : Z) (n : nat) (v : list PrimFloat.float) :
  ffinite a -> FR a = IZR ma * bpow radix2 e -> ffinite b -> FR b = IZR mb * bpow radix2 e ->
  (2 <= n)%nat -> (Z.of_nat n < 2 ^ 53)%Z -> (-1074 <= e <= 971)%Z ->
  (mb - ma = d * (Z.of_nat n - 1))%Z ->
  (Z.abs (mb - ma) < 2 ^ 53)%Z -> (Z.abs ma < 2 ^ 53)%Z -> (Z.abs mb < 2 ^ 53)%Z ->
  linspace (F := SAF) a b n = Ok v ->
  length v = n /\
  (forall i, (i < n)%nat ->
     ffinite (nth i v 0%float) /\
     FR (nth i v 0%float) = FR a + (FR b - FR a) * INR i / INR (n - 1) /\
     FR (nth i v 0%float) = IZR (ma + d * Z.of_nat i) * bpow radix2 e) /\
  FR (nth (n - 1) v 0%float) = FR b /\
  (FR b <> 0 -> nth (n - 1) v 0%float = b).
Proof.
  intros Fa Ra Fb Rb Hn Hn' He Hdiv Hd Ha Hb E.
  assert (Da : Dy a ma e) by (split; assumption). assert (Db : Dy b mb e) by (split; assumption).
  split; [now apply (linspace_length a b _ v)|].
  assert (G : forall i, (i < n)%nat ->
     ffinite (nth i v 0%float) /\
     FR (nth i v 0%float) = FR a + (FR b - FR a) * INR i / INR (n - 1) /\
     FR (nth i v 0%float) = IZR (ma + d * Z.of_nat i) * bpow radix2 e).
  { intros i Hi. rewrite (linspace_nth a b _ v i E) by lia.
    destruct (linspace_elem_divisible a b ma mb d e n i Da Db Hn Hn' He Hdiv Hd Ha Hb Hi) as [F R].
    split; [exact F|]. split; [|exact R]. unfold FR at 1. rewrite R, Ra, Rb.
    assert (EN : INR (n - 1) = IZR (Z.of_nat n - 1)).
    { rewrite INR_IZR_INZ. f_equal. lia. }
    assert (NZ : IZR (Z.of_nat n - 1) <> 0) by (apply not_0_IZR; lia).
    rewrite EN, plus_IZR, mult_IZR, <- INR_IZR_INZ.
    replace (IZR mb) with (IZR ma + IZR d * IZR (Z.of_nat n - 1)).
    2:{ rewrite <- mult_IZR, <- plus_IZR. f_equal. lia. }
    field. exact NZ. }
  split; [exact G|].
  destruct (G (n - 1)%nat ltac:(lia)) as (F & R & _).
  assert (R' : FR (nth (n - 1) v 0%float) = FR b).
  { rewrite R. field. apply not_0_INR. lia. }
  split; [exact R'|]. intros Nz. apply FR_inj_nonzero; auto. now rewrite R'.
Qed.

(* sufficient conditions for a finite step h = (b - a)/((n as f64) - 1): b - a finite, 2 <= n < 2^53 *)
Lemma lin_h_finite (a b : PrimFloat.float) (n : nat) :
  ffinite (b - a)%float -> (2 <= n)%nat -> (Z.of_nat n < 2 ^ 53)%Z -> ffinite (lin_h a b n).
Proof.
  intros Fd Hn Hn'. unfold lin_h.
  assert (Dden : Dy (f_of_nat n - 1)%float (Z.of_nat n - 1) 0).
  { apply Dy_sub; [apply Dy_of_nat; lia|exact Dy_one|lia|unfold erange; lia]. }
  destruct Dden as [Fy Ry]. simpl (bpow radix2 0) in Ry. rewrite Rmult_1_r in Ry.
  assert (H1 : 1 <= IZR (Z.of_nat n - 1)) by (apply IZR_le; lia).
  unfold ffinite in *. rewrite div_equiv.
  assert (Hy : B2R (Prim2B (f_of_nat n - 1)%float) <> 0) by (rewrite Ry; lra).
  pose proof (Bdiv_correct prec emax HP HM mode_NE (Prim2B (b - a)%float) (Prim2B (f_of_nat n - 1)%float) Hy) as H.
  rewrite Rlt_bool_true in H.
  - destruct H as (_ & H2 & _). now rewrite H2.
  - apply Rle_lt_trans with (Rabs (B2R (Prim2B (b - a)%float))); [|now apply abs_B2R_lt_emax].
    apply abs_round_le_generic; [apply fexp_correct; reflexivity|apply valid_rnd_N|apply generic_format_abs, generic_format_B2R|].
    rewrite Ry. unfold Rdiv. rewrite Rabs_mult. rewrite <- (Rmult_1_r (Rabs (B2R (Prim2B (b - a)%float)))) at 2.
    apply Rmult_le_compat_l; [apply Rabs_pos|].
    rewrite Rabs_inv, (Rabs_pos_eq (IZR (Z.of_nat n - 1))) by lra.
    rewrite <- Rinv_1. apply Rinv_le_contravar; lra.
Qed.

(* ---------------------------------------------------------------- non-vacuity and behaviour on concrete floats *)
Lemma Dy_intro x m e : is_finite_SF (Prim2SF x) = true -> SF2R radix2 (Prim2SF x) = IZR m * bpow radix2 e -> Dy x m e.
Proof. intros H1 H2. unfold Dy, Prim2B. now rewrite is_finite_SF2B, B2R_SF2B. Qed.

Ltac dyw := apply Dy_intro; [vm_compute; reflexivity | vm_compute Prim2SF; unfold SF2R, F2R; simpl; lra].

Example ex_lin_a : Dy 0.25%float 1 (-2).
Proof. dyw. Qed.
Example ex_lin_b : Dy 1.75%float 7 (-2).
Proof. dyw. Qed.

Example linspace_exact_dyadic_example :
  linspace (F := SAF) 0.25%float 1.75%float (2 ^ 2 + 1)%nat = Ok [0.25; 0.625; 1; 1.375; 1.75]%float.
Proof. vm_compute. reflexivity. Qed.

(* size 1: h = (b-a)/0, the only element is NaN (for b = a as well: 0/0) *)
Example linspace_size1_nan :
  linspace (F := SAF) 0%float 1%float 1 = Ok [nan] /\ linspace (F := SAF) 2%float 2%float 1 = Ok [nan].
Proof. split; vm_compute; reflexivity. Qed.

(* a = -0: the first element is +0, not a *)
Example linspace_first_negzero :
  exists v, linspace (F := SAF) (-0)%float 1%float 3 = Ok v /\
            PrimFloat.get_sign (nth 0 v 0%float) = false /\ PrimFloat.get_sign (-0)%float = true.
Proof. eexists. split; [vm_compute; reflexivity|]. split; vm_compute; reflexivity. Qed.

(* without the dyadic hypotheses the last element need not be b: 49 * fl(1/49) = 1 - 2^-53 *)
Example linspace_last_not_b :
  exists v, linspace (F := SAF) 0%float 1%float 50 = Ok v /\ PrimFloat.eqb (nth 49 v 0%float) 1%float = false /\
            PrimFloat.ltb (nth 49 v 0%float) 1%float = true.
Proof. eexists. split; [vm_compute; reflexivity|]. split; vm_compute; reflexivity. Qed.

Example linspace_exact_divisible_example :
  linspace (F := SAF) (-3)%float 12%float 6 = Ok [-3; 0; 3; 6; 9; 12]%float.
Proof. vm_compute. reflexivity. Qed.
Example ex_lin_m3 : Dy (-3)%float (-3) 0.
Proof. dyw. Qed.
Example ex_lin_12 : Dy 12%float 12 0.
Proof. dyw. Qed.
