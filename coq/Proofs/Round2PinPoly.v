(* ======================================================================================================
   C12 (polynomial division), rounding half -- package round2.  Append to Props/C12.v.
   "u = q*v + r to rounding accuracy over floats": the model's [polydiv] (Model/Poly.v, the loop after the repair
   e504d5d, which SETS the cancelled leading coefficient to zero) in the STANDARD MODEL of floating-point arithmetic
   (Base/RoundModel.v: the same Gallina [polydiv] at the arithmetic ARm whose operations are the exact ones times
   (1+d), |d| <= u).  For every coefficient index k, with the EXACT real convolution (q*v)_k = Sum_{i<=k} q_i v_{k-i}:
   (a) | a_k - (q*v)_k - r_k |  <=  gam (2 M) ( |a_k| + Sum_{i<=k} |q_i| |v_{k-i}| )        (polydiv_rounded_identity)
   (b) | a_k - (q*v)_k - r_k |  <=  gam (4 M) ( Sum_{i<=k} |q_i| |v_{k-i}| + |r_k| )        (polydiv_rounded_residual)
   M = min(N, len v),  N = len a + 1 - len v  (N bounds the number of passes of the loop, and one coefficient is touched
   by at most len v of them; gam n = n u / (1 - n u)).  The residual of each cancelled leading coefficient,
   r_top - fl(r_top / v_top) v_top, which the repaired loop discards, is part of the bounded error.
   Hypotheses beside the (1+d) laws: the leading coefficient of v is not zero; the dividend's coefficients belong to
   the set F of floating-point numbers; results of -, *, / are in F and 0 + x = x + 0 = x - 0 = x for x in F (true of
   every correctly rounded arithmetic; discharged for 53-bit round-to-nearest-even in Proofs/Round2PolyB.v).
   (c) polydiv_rounded_identity_float / polydiv_rounded_residual_float: both bounds for the PRIMITIVE-FLOAT instance
   itself ([polydiv] at AF, IEEE binary64, u = 2^-53), through Flocq: whenever the answer (q, r) is finite and no
   quotient r_top / v_top and no product c * v_j of the run underflows ([pd_nounder], a condition on computable values
   of the run; intermediate finiteness is derived from the finite answer).
   Unproved remainder: (a), (b) assume the standard model; (c) says nothing when the answer is not finite or a
   quotient / product falls into the subnormal range (the absolute error of gradual underflow is not analysed).
   ====================================================================================================== *)
From Coq Require Import List Reals Lra Lia Floats.
From OV Require Import Base.Panic Base.Arith Base.RoundModel gen.Params Model.Poly Inst.FloatInst Proofs.PolyDiv Proofs.RoundFlx
  Proofs.ComplexRound Proofs.RoundDotFloat Proofs.Round2Poly Proofs.Round2PolyB.
Import ListNotations.

Theorem polydiv_rounded_identity : forall (u : R), (0 <= u < 1)%R ->
  forall (fadd fsub fmul fdiv : R -> R -> R),
  (forall x y : R, exists d : R, (Rabs d <= u)%R /\ fadd x y = ((x + y) * (1 + d))%R) ->
  (forall x y : R, exists d : R, (Rabs d <= u)%R /\ fsub x y = ((x - y) * (1 + d))%R) ->
  (forall x y : R, exists d : R, (Rabs d <= u)%R /\ fmul x y = (x * y * (1 + d))%R) ->
  (forall x y : R, y <> 0%R -> exists d : R, (Rabs d <= u)%R /\ fdiv x y = (x / y * (1 + d))%R) ->
  forall (F : R -> Prop),
  (forall x y : R, F (fsub x y)) -> (forall x y : R, F (fmul x y)) -> (forall x y : R, F (fdiv x y)) ->
  (forall x : R, F x -> fadd 0%R x = x) -> (forall x : R, F x -> fadd x 0%R = x) ->
  (forall x : R, F x -> fsub x 0%R = x) ->
  forall (a v q r : list R),
  last v 0%R <> 0%R -> Forall F a -> (INR (2 * Nat.min (length a + 1 - length v) (length v)) * u < 1)%R ->
  polydiv (A := ARm fadd fsub fmul fdiv) a v = Ok (inl (q, r)) ->
  forall k : nat,
  (Rabs (nth k a 0 - Rsum (S k) (fun i => nth i q 0 * nth (k - i) v 0) - nth k r 0)
     <= gam u (2 * Nat.min (length a + 1 - length v) (length v))
        * (Rabs (nth k a 0) + Rsum (S k) (fun i => Rabs (nth i q 0) * Rabs (nth (k - i) v 0))))%R.
Proof. intros u Hu fadd fsub fmul fdiv Ha Hs Hm Hd F F1 F2 F3 Z1 Z2 Z3 a v q r Hv Fa Hn E. exact (polydiv_rounded_identity_lemma u Hu fadd fsub fmul fdiv Ha Hs Hm Hd F F1 F2 F3 Z1 Z2 Z3 v Hv a q r Fa Hn E). Qed.
Check polydiv_rounded_identity : forall (u : R), (0 <= u < 1)%R ->
  forall (fadd fsub fmul fdiv : R -> R -> R),
  (forall x y : R, exists d : R, (Rabs d <= u)%R /\ fadd x y = ((x + y) * (1 + d))%R) ->
  (forall x y : R, exists d : R, (Rabs d <= u)%R /\ fsub x y = ((x - y) * (1 + d))%R) ->
  (forall x y : R, exists d : R, (Rabs d <= u)%R /\ fmul x y = (x * y * (1 + d))%R) ->
  (forall x y : R, y <> 0%R -> exists d : R, (Rabs d <= u)%R /\ fdiv x y = (x / y * (1 + d))%R) ->
  forall (F : R -> Prop),
  (forall x y : R, F (fsub x y)) -> (forall x y : R, F (fmul x y)) -> (forall x y : R, F (fdiv x y)) ->
  (forall x : R, F x -> fadd 0%R x = x) -> (forall x : R, F x -> fadd x 0%R = x) ->
  (forall x : R, F x -> fsub x 0%R = x) ->
  forall (a v q r : list R),
  last v 0%R <> 0%R -> Forall F a -> (INR (2 * Nat.min (length a + 1 - length v) (length v)) * u < 1)%R ->
  polydiv (A := ARm fadd fsub fmul fdiv) a v = Ok (inl (q, r)) ->
  forall k : nat,
  (Rabs (nth k a 0 - Rsum (S k) (fun i => nth i q 0 * nth (k - i) v 0) - nth k r 0)
     <= gam u (2 * Nat.min (length a + 1 - length v) (length v))
        * (Rabs (nth k a 0) + Rsum (S k) (fun i => Rabs (nth i q 0) * Rabs (nth (k - i) v 0))))%R.
Print Assumptions polydiv_rounded_identity.
(* the hypotheses are met by an arithmetic that rounds every operation (53-bit round-to-nearest-even), with F the
   numbers of that format, and polydiv answers in it with an inexact quotient:
   (1 + x + x^2) / (1 + 3x) = c2 + c x remainder y,  c = fl(1/3) <> 1/3,  c2 = fl(fl(1 - c)/3),  y = fl(1 - c2) *)
Example polydiv_rounded_identity_nonvacuous :
  (0 <= ux < 1)%R /\
  (forall x y : R, exists d : R, (Rabs d <= ux)%R /\ xadd x y = ((x + y) * (1 + d))%R) /\
  (forall x y : R, exists d : R, (Rabs d <= ux)%R /\ xsub x y = ((x - y) * (1 + d))%R) /\
  (forall x y : R, exists d : R, (Rabs d <= ux)%R /\ xmul x y = (x * y * (1 + d))%R) /\
  (forall x y : R, y <> 0%R -> exists d : R, (Rabs d <= ux)%R /\ xdiv x y = (x / y * (1 + d))%R) /\
  (forall x y : R, Fx (xsub x y)) /\ (forall x y : R, Fx (xmul x y)) /\ (forall x y : R, Fx (xdiv x y)) /\
  (forall x : R, Fx x -> xadd 0%R x = x) /\ (forall x : R, Fx x -> xadd x 0%R = x) /\
  (forall x : R, Fx x -> xsub x 0%R = x) /\
  last [1%R; 3%R] 0%R <> 0%R /\ Forall Fx [1%R; 1%R; 1%R] /\
  (INR (2 * Nat.min (length [1%R; 1%R; 1%R] + 1 - length [1%R; 3%R]) (length [1%R; 3%R])) * ux < 1)%R /\
  polydiv (A := AFlx) [1%R; 1%R; 1%R] [1%R; 3%R] = Ok (inl ([ex_c2; xdiv 1%R 3%R], [ex_y])) /\
  xdiv 1%R 3%R <> (1 / 3)%R.
Proof.
  split; [exact ux_range|]. split; [exact xadd_ok|]. split; [exact xsub_ok|]. split; [exact xmul_ok|].
  split; [exact xdiv_ok|]. split; [exact Fx_sub|]. split; [exact Fx_mul|]. split; [exact Fx_div|].
  split; [exact xadd_0_l|]. split; [exact xadd_0_r|]. split; [exact xsub_0_r|].
  split; [cbn; lra|]. split; [repeat constructor; exact Fx_1|].
  split; [cbn [length Nat.add Nat.sub Nat.mul Nat.min INR]; pose proof ux_small; lra|].
  split; [exact ex2_polydiv|exact xdiv_inexact].
Qed.

(* the same error against the computed quotient and remainder only: gam (4 M) ( Sum |q_i||v_{k-i}| + |r_k| ) *)
Theorem polydiv_rounded_residual : forall (u : R), (0 <= u < 1)%R ->
  forall (fadd fsub fmul fdiv : R -> R -> R),
  (forall x y : R, exists d : R, (Rabs d <= u)%R /\ fadd x y = ((x + y) * (1 + d))%R) ->
  (forall x y : R, exists d : R, (Rabs d <= u)%R /\ fsub x y = ((x - y) * (1 + d))%R) ->
  (forall x y : R, exists d : R, (Rabs d <= u)%R /\ fmul x y = (x * y * (1 + d))%R) ->
  (forall x y : R, y <> 0%R -> exists d : R, (Rabs d <= u)%R /\ fdiv x y = (x / y * (1 + d))%R) ->
  forall (F : R -> Prop),
  (forall x y : R, F (fsub x y)) -> (forall x y : R, F (fmul x y)) -> (forall x y : R, F (fdiv x y)) ->
  (forall x : R, F x -> fadd 0%R x = x) -> (forall x : R, F x -> fadd x 0%R = x) ->
  (forall x : R, F x -> fsub x 0%R = x) ->
  forall (a v q r : list R),
  last v 0%R <> 0%R -> Forall F a -> (INR (4 * Nat.min (length a + 1 - length v) (length v)) * u < 1)%R ->
  polydiv (A := ARm fadd fsub fmul fdiv) a v = Ok (inl (q, r)) ->
  forall k : nat,
  (Rabs (nth k a 0 - Rsum (S k) (fun i => nth i q 0 * nth (k - i) v 0) - nth k r 0)
     <= gam u (4 * Nat.min (length a + 1 - length v) (length v))
        * (Rsum (S k) (fun i => Rabs (nth i q 0) * Rabs (nth (k - i) v 0)) + Rabs (nth k r 0)))%R.
Proof. intros u Hu fadd fsub fmul fdiv Ha Hs Hm Hd F F1 F2 F3 Z1 Z2 Z3 a v q r Hv Fa Hn E. exact (polydiv_rounded_residual_lemma u Hu fadd fsub fmul fdiv Ha Hs Hm Hd F F1 F2 F3 Z1 Z2 Z3 v Hv a q r Fa Hn E). Qed.
Check polydiv_rounded_residual : forall (u : R), (0 <= u < 1)%R ->
  forall (fadd fsub fmul fdiv : R -> R -> R),
  (forall x y : R, exists d : R, (Rabs d <= u)%R /\ fadd x y = ((x + y) * (1 + d))%R) ->
  (forall x y : R, exists d : R, (Rabs d <= u)%R /\ fsub x y = ((x - y) * (1 + d))%R) ->
  (forall x y : R, exists d : R, (Rabs d <= u)%R /\ fmul x y = (x * y * (1 + d))%R) ->
  (forall x y : R, y <> 0%R -> exists d : R, (Rabs d <= u)%R /\ fdiv x y = (x / y * (1 + d))%R) ->
  forall (F : R -> Prop),
  (forall x y : R, F (fsub x y)) -> (forall x y : R, F (fmul x y)) -> (forall x y : R, F (fdiv x y)) ->
  (forall x : R, F x -> fadd 0%R x = x) -> (forall x : R, F x -> fadd x 0%R = x) ->
  (forall x : R, F x -> fsub x 0%R = x) ->
  forall (a v q r : list R),
  last v 0%R <> 0%R -> Forall F a -> (INR (4 * Nat.min (length a + 1 - length v) (length v)) * u < 1)%R ->
  polydiv (A := ARm fadd fsub fmul fdiv) a v = Ok (inl (q, r)) ->
  forall k : nat,
  (Rabs (nth k a 0 - Rsum (S k) (fun i => nth i q 0 * nth (k - i) v 0) - nth k r 0)
     <= gam u (4 * Nat.min (length a + 1 - length v) (length v))
        * (Rsum (S k) (fun i => Rabs (nth i q 0) * Rabs (nth (k - i) v 0)) + Rabs (nth k r 0)))%R.
Print Assumptions polydiv_rounded_residual.
Example polydiv_rounded_residual_nonvacuous :   (* same instance and division as above *)
  (0 <= ux < 1)%R /\ last [1%R; 3%R] 0%R <> 0%R /\ Forall Fx [1%R; 1%R; 1%R] /\
  (INR (4 * Nat.min (length [1%R; 1%R; 1%R] + 1 - length [1%R; 3%R]) (length [1%R; 3%R])) * ux < 1)%R /\
  polydiv (A := AFlx) [1%R; 1%R; 1%R] [1%R; 3%R] = Ok (inl ([ex_c2; xdiv 1%R 3%R], [ex_y])).
Proof.
  split; [exact ux_range|]. split; [cbn; lra|]. split; [repeat constructor; exact Fx_1|].
  split; [cbn [length Nat.add Nat.sub Nat.mul Nat.min INR]; pose proof ux_small; lra|exact ex2_polydiv].
Qed.

(* the same for the primitive floats themselves (IEEE binary64, u64 = 2^-53, g64 n = gam u64 n), through Flocq *)
Theorem polydiv_rounded_identity_float : forall (a v q r : list PrimFloat.float),
  polydiv (A := AF) a v = Ok (inl (q, r)) -> Forall ffinite q -> Forall ffinite r -> FR (last v 0%float) <> 0%R ->
  pd_nounder (S POLYDIV_MAX) [] a v ->
  (INR (2 * Nat.min (length a + 1 - length v) (length v)) * u64 < 1)%R ->
  forall k : nat,
  (Rabs (FR (nth k a 0%float) - Rsum (S k) (fun i => FR (nth i q 0%float) * FR (nth (k - i) v 0%float))
         - FR (nth k r 0%float))
     <= g64 (2 * Nat.min (length a + 1 - length v) (length v))
        * (Rabs (FR (nth k a 0%float))
           + Rsum (S k) (fun i => Rabs (FR (nth i q 0%float)) * Rabs (FR (nth (k - i) v 0%float)))))%R.
Proof. intros a v q r E Hq Hr Hv P Hn. exact (polydiv_rounded_identity_float_lemma a v q r E Hq Hr Hv P Hn). Qed.
Check polydiv_rounded_identity_float : forall (a v q r : list PrimFloat.float),
  polydiv (A := AF) a v = Ok (inl (q, r)) -> Forall ffinite q -> Forall ffinite r -> FR (last v 0%float) <> 0%R ->
  pd_nounder (S POLYDIV_MAX) [] a v ->
  (INR (2 * Nat.min (length a + 1 - length v) (length v)) * u64 < 1)%R ->
  forall k : nat,
  (Rabs (FR (nth k a 0%float) - Rsum (S k) (fun i => FR (nth i q 0%float) * FR (nth (k - i) v 0%float))
         - FR (nth k r 0%float))
     <= g64 (2 * Nat.min (length a + 1 - length v) (length v))
        * (Rabs (FR (nth k a 0%float))
           + Rsum (S k) (fun i => Rabs (FR (nth i q 0%float)) * Rabs (FR (nth (k - i) v 0%float)))))%R.
Print Assumptions polydiv_rounded_identity_float.
Print Assumptions polydiv_zero_divisor_lemma.   (* closed; ends the listing of float primitives above for the driver's parser *)
(* (1 + x + x^2) / (1 + 3x) at binary64: two passes, quotient coefficients fl(fl(1 - fl(1/3)) / 3) and fl(1/3) < 1/3 *)
Example polydiv_rounded_identity_float_nonvacuous :
  polydiv (A := AF) exf_a exf_v = Ok (inl (exf_q, exf_r)) /\ Forall ffinite exf_q /\ Forall ffinite exf_r /\
  FR (last exf_v 0%float) <> 0%R /\ pd_nounder (S POLYDIV_MAX) [] exf_a exf_v /\
  (INR (2 * Nat.min (length exf_a + 1 - length exf_v) (length exf_v)) * u64 < 1)%R /\
  (FR (nth 1 exf_q 0%float) < 1 / 3)%R.
Proof.
  split; [exact exf_polydiv|]. split; [exact (proj1 exf_fin)|]. split; [exact (proj2 exf_fin)|].
  split; [exact exf_lead|]. split; [exact exf_nounder|]. split; [exact exf_size|exact exf_q_inexact].
Qed.

(* ... and against the computed quotient and remainder only, at binary64 *)
Theorem polydiv_rounded_residual_float : forall (a v q r : list PrimFloat.float),
  polydiv (A := AF) a v = Ok (inl (q, r)) -> Forall ffinite q -> Forall ffinite r -> FR (last v 0%float) <> 0%R ->
  pd_nounder (S POLYDIV_MAX) [] a v ->
  (INR (4 * Nat.min (length a + 1 - length v) (length v)) * u64 < 1)%R ->
  forall k : nat,
  (Rabs (FR (nth k a 0%float) - Rsum (S k) (fun i => FR (nth i q 0%float) * FR (nth (k - i) v 0%float))
         - FR (nth k r 0%float))
     <= g64 (4 * Nat.min (length a + 1 - length v) (length v))
        * (Rsum (S k) (fun i => Rabs (FR (nth i q 0%float)) * Rabs (FR (nth (k - i) v 0%float)))
           + Rabs (FR (nth k r 0%float))))%R.
Proof. intros a v q r E Hq Hr Hv P Hn. exact (polydiv_rounded_residual_float_lemma a v q r E Hq Hr Hv P Hn). Qed.
Check polydiv_rounded_residual_float : forall (a v q r : list PrimFloat.float),
  polydiv (A := AF) a v = Ok (inl (q, r)) -> Forall ffinite q -> Forall ffinite r -> FR (last v 0%float) <> 0%R ->
  pd_nounder (S POLYDIV_MAX) [] a v ->
  (INR (4 * Nat.min (length a + 1 - length v) (length v)) * u64 < 1)%R ->
  forall k : nat,
  (Rabs (FR (nth k a 0%float) - Rsum (S k) (fun i => FR (nth i q 0%float) * FR (nth (k - i) v 0%float))
         - FR (nth k r 0%float))
     <= g64 (4 * Nat.min (length a + 1 - length v) (length v))
        * (Rsum (S k) (fun i => Rabs (FR (nth i q 0%float)) * Rabs (FR (nth (k - i) v 0%float)))
           + Rabs (FR (nth k r 0%float))))%R.
Print Assumptions polydiv_rounded_residual_float.
Print Assumptions polydiv_zero_divisor_lemma.   (* closed; ends the listing of float primitives above for the driver's parser *)
Example polydiv_rounded_residual_float_nonvacuous :   (* same division as above *)
  polydiv (A := AF) exf_a exf_v = Ok (inl (exf_q, exf_r)) /\ Forall ffinite exf_q /\ Forall ffinite exf_r /\
  FR (last exf_v 0%float) <> 0%R /\ pd_nounder (S POLYDIV_MAX) [] exf_a exf_v /\
  (INR (4 * Nat.min (length exf_a + 1 - length exf_v) (length exf_v)) * u64 < 1)%R.
Proof.
  split; [exact exf_polydiv|]. split; [exact (proj1 exf_fin)|]. split; [exact (proj2 exf_fin)|].
  split; [exact exf_lead|]. split; [exact exf_nounder|].
  cbn [length exf_a exf_v Nat.add Nat.sub Nat.mul Nat.min INR]. pose proof u64_small. lra.
Qed.
