(* Proofs/RoundInverse.v -- the matrix inverse of Model/Solve.v ([inverse]: lu_decomp, then for every column j of the
   row-permuted identity an in-place unit-lower forward sweep and an in-place upper backward sweep on the matrix
   being built).

   1. [inverse_trace], over ANY arithmetic: column j of the result is what the forward substitution followed by the
      back substitution produce from column j of the permutation matrix -- in the closed form of Proofs/RoundTrace.v:
          y_i = lacc lu (P e_j) y i           and        div (racc lu y x i n) lu_ii = Ok x_i ,   x = column j of the result.
   2. [inverse_columns_backward_error_lemma], in the STANDARD MODEL of floating-point arithmetic: every column of the
      computed inverse X satisfies   (L + dL_j) y_j = P e_j ,  (U + dU_j) x_j = y_j ,  |dL_j| <= gam n |L|, |dU_j| <= gam n |U|
      with L, U the COMPUTED factors.  (Each column has its own perturbation: Higham sec. 14.1.)
   NOT covered: the factorisation, hence no statement about  X A - I  or  A X - I. *)
From Coq Require Import List Arith Lia Reals Lra Psatz Bool.
From OV Require Import Base.Panic Base.Arith Base.RoundModel Model.Vector Model.Matrix Model.Solve
  Proofs.Matrix Proofs.LUPrim Proofs.RoundDot Proofs.RoundMatvec Proofs.RoundBacksolve Proofs.RoundLUShape
  Proofs.RoundTrace Proofs.RoundRows.
Import ListNotations.

(* ================================================================ 1. the trace, over any arithmetic *)
Section InvTrace.
Context {A : Arith}.
Notation matrix := (matrix A).

(* column j of an n-row matrix, as a vector *)
Definition colv (M : matrix) (n j : nat) : list A := map (fun r => ent M r j) (seq 0 n).

Lemma colv_length M n j : length (colv M n j) = n.
Proof. unfold colv. now rewrite map_length, seq_length. Qed.

Lemma nth_colv M n j k : k < n -> nth k (colv M n j) zero = ent M k j.
Proof.
  intros H. unfold colv. rewrite (nth_indep _ zero (ent M 0 j)) by (rewrite map_length, seq_length; exact H).
  rewrite (map_nth (fun r => ent M r j) (seq 0 n) 0 k). now rewrite seq_nth.
Qed.

Lemma colv_ext M M' n j : (forall r, r < n -> ent M' r j = ent M r j) -> colv M' n j = colv M n j.
Proof. intros H. unfold colv. apply map_ext_in. intros r Hr. apply in_seq in Hr. apply H. lia. Qed.

(* inv[(i,j)] -= lu[(i,k)] * inv[(k,j)] *)
Definition mbody (lu : matrix) (i j : nat) : nat -> matrix -> res matrix :=
  fun k M => let* kj := mget M k j in let* ij := mget M i j in let* a := mget lu i k in
             mset M i j (ij - a * kj)%A.

Lemma melim_loop (lu M : matrix) (n i j lo hi : nat) :
  shape lu n n -> shape M n n -> i < n -> j < n -> lo <= hi -> hi <= n -> (i < lo \/ hi <= i) ->
  exists M', for_ lo hi (mbody lu i j) M = Ok M' /\ shape M' n n /\
    (forall r c, c < n -> (r <> i \/ c <> j) -> ent M' r c = ent M r c) /\
    ent M' i j = eacc lu (colv M n j) i (seq lo (hi - lo)) (ent M i j).
Proof.
  intros SL SM Hi Hj Hlh Hhn Hout.
  destruct (for_inv (fun k (M' : matrix) => shape M' n n /\
              (forall r c, c < n -> (r <> i \/ c <> j) -> ent M' r c = ent M r c) /\
              ent M' i j = eacc lu (colv M n j) i (seq lo (k - lo)) (ent M i j))
            lo hi (mbody lu i j) M) as (M' & E & HI).
  - exact Hlh.
  - split; [exact SM|]. split; [auto|]. rewrite Nat.sub_diag. reflexivity.
  - intros k M0 Hk (S0 & O0 & EP).
    unfold mbody. rewrite (mget_ok M0 n n k j S0) by lia. cbn [bind].
    rewrite (mget_ok M0 n n i j S0) by lia. cbn [bind].
    rewrite (mget_ok lu n n i k SL) by lia. cbn [bind].
    destruct (mset_ok M0 n n i j (ent M0 i j - ent lu i k * ent M0 k j)%A S0 Hi Hj) as (M1 & E1 & S1 & G1).
    exists M1. split; [exact E1|]. split; [exact S1|]. split.
    + intros r c Hc Hne. rewrite G1 by exact Hc.
      destruct (Nat.eqb_spec r i), (Nat.eqb_spec c j); cbn [andb]; try (apply O0; auto); lia.
    + rewrite G1 by exact Hj. rewrite !Nat.eqb_refl. cbn [andb].
      replace (S k - lo) with (S (k - lo)) by lia. rewrite seq_S. unfold eacc. rewrite fold_left_app. cbn [fold_left].
      fold (eacc lu (colv M n j) i (seq lo (k - lo)) (ent M i j)). rewrite <- EP.
      replace (lo + (k - lo)) with k by lia. rewrite nth_colv by lia.
      rewrite (O0 k j Hj) by (left; lia). reflexivity.
  - exists M'. split; [exact E|]. exact HI.
Qed.

(* the forward sweep on column j *)
Lemma fwd_sweep (lu M0 : matrix) (n j : nat) : shape lu n n -> shape M0 n n -> j < n ->
  exists M1, for_ 0 n (fun i M => for_ 0 i (mbody lu i j) M) M0 = Ok M1 /\ shape M1 n n /\
    (forall r c, c < n -> c <> j -> ent M1 r c = ent M0 r c) /\
    forall i, i < n -> ent M1 i j = lacc lu (colv M0 n j) (colv M1 n j) i.
Proof.
  intros SL S0 Hj.
  destruct (for_inv (fun i (M : matrix) => shape M n n /\
              (forall r c, c < n -> c <> j -> ent M r c = ent M0 r c) /\
              (forall r, i <= r -> ent M r j = ent M0 r j) /\
              (forall r, r < i -> ent M r j = lacc lu (colv M0 n j) (colv M n j) r))
            0 n (fun i M => for_ 0 i (mbody lu i j) M) M0) as (M1 & E & S1 & O1 & _ & D1).
  - lia.
  - split; [exact S0|]. split; [auto|]. split; [auto|intros; lia].
  - intros i M Hi (SM & OM & UM & DM).
    destruct (melim_loop lu M n i j 0 i SL SM ltac:(lia) Hj ltac:(lia) ltac:(lia) ltac:(lia))
      as (M' & E' & S' & G' & EP).
    rewrite Nat.sub_0_r in EP.
    exists M'. split; [exact E'|]. split; [exact S'|]. split.
    + intros r c Hc Hne. rewrite G' by (auto). now apply OM.
    + split.
      * intros r Hr. rewrite G' by (try exact Hj; left; lia). apply UM. lia.
      * intros r Hr.
        assert (EX : forall t, t < i -> nth t (colv M' n j) zero = nth t (colv M n j) zero).
        { intros t Ht. rewrite !nth_colv by lia. apply G'; [exact Hj|left; lia]. }
        destruct (Nat.eq_dec r i) as [->|Ne].
        -- unfold lacc. rewrite (eacc_ext lu (colv M n j)) by (intros t Ht; apply in_seq in Ht; apply EX; lia).
           rewrite nth_colv by lia. rewrite <- (UM i) by lia. exact EP.
        -- unfold lacc. rewrite (eacc_ext lu (colv M n j)) by (intros t Ht; apply in_seq in Ht; apply EX; lia).
           rewrite G' by (try exact Hj; left; lia). apply DM. lia.
  - exists M1. split; [exact E|]. split; [exact S1|]. split; [exact O1|]. intros i Hi. now apply D1.
Qed.

(* one step of the backward sweep: finish row i of column j *)
Definition bbody (lu : matrix) (n j : nat) : nat -> matrix -> res matrix :=
  fun i M => let* M := for_ (i + 1) n (mbody lu i j) M in
             let* ij := mget M i j in let* d := mget lu i i in let* q := div ij d in mset M i j q.

Lemma back_sweep (lu M1 M2 : matrix) (n j : nat) : shape lu n n -> shape M1 n n -> j < n ->
  for_rev 0 n (bbody lu n j) M1 = Ok M2 ->
  shape M2 n n /\
  (forall r c, c < n -> c <> j -> ent M2 r c = ent M1 r c) /\
  forall i, i < n -> div (racc lu (colv M1 n j) (colv M2 n j) i n) (ent lu i i) = Ok (ent M2 i j).
Proof.
  intros SL S1 Hj E. unfold for_rev in E. rewrite Nat.sub_0_r in E.
  pose (I := fun t (M : matrix) => shape M n n /\
              (forall r c, c < n -> c <> j -> ent M r c = ent M1 r c) /\
              (forall r, r < t -> ent M r j = ent M1 r j) /\
              (forall r, t <= r -> r < n ->
                 div (racc lu (colv M1 n j) (colv M n j) r n) (ent lu r r) = Ok (ent M r j))).
  assert (G : I 0 M2).
  { refine (for_rev_from_inv_partial I n 0 (bbody lu n j) M1 M2 _ _ E).
    - split; [exact S1|]. split; [auto|]. split; [auto|intros; lia].
    - clear E. intros k M Mx Hk (SM & OM & UM & DM) Eb. cbn [Nat.add] in Eb. unfold bbody in Eb.
      destruct (melim_loop lu M n k j (k + 1) n SL SM ltac:(lia) Hj ltac:(lia) ltac:(lia) ltac:(lia))
        as (Mt & Et & St & Gt & EP).
      rewrite Et in Eb. cbn [bind] in Eb.
      rewrite (mget_ok Mt n n k j St) in Eb by lia. cbn [bind] in Eb.
      rewrite (mget_ok lu n n k k SL) in Eb by lia. cbn [bind] in Eb.
      apply bind_ok in Eb as (q & Eq & Eb).
      destruct (mset_ok Mt n n k j q St ltac:(lia) Hj) as (Mx' & Ex' & Sx & Gx).
      rewrite Ex' in Eb. injection Eb as <-.
      assert (EXr : forall r, r <> k -> ent Mx' r j = ent M r j).
      { intros r Hr. rewrite Gx by exact Hj. destruct (Nat.eqb_spec r k); [lia|]. cbn [andb].
        apply Gt; [exact Hj|left; exact Hr]. }
      split; [exact Sx|]. split.
      + intros r c Hc Hne. rewrite Gx by exact Hc.
        destruct (Nat.eqb_spec c j); [lia|]. rewrite andb_false_r. rewrite Gt by auto. now apply OM.
      + split.
        * intros r Hr. rewrite EXr by lia. apply UM. lia.
        * intros r Hr1 Hr2.
          assert (EX : forall t, k < t -> t < n -> nth t (colv Mx' n j) zero = nth t (colv M n j) zero).
          { intros t Ht1 Ht2. rewrite !nth_colv by lia. apply EXr. lia. }
          destruct (Nat.eq_dec r k) as [->|Ne].
          -- unfold racc. rewrite (eacc_ext lu (colv M n j)) by (intros t Ht; apply in_seq in Ht; apply EX; lia).
             rewrite nth_colv by lia. rewrite <- (UM k) by lia.
             rewrite <- EP. rewrite Gx by exact Hj. rewrite !Nat.eqb_refl. cbn [andb]. exact Eq.
          -- unfold racc. rewrite (eacc_ext lu (colv M n j)) by (intros t Ht; apply in_seq in Ht; apply EX; lia).
             rewrite EXr by exact Ne. apply DM; lia. }
  destruct G as (S2 & O2 & _ & D2). split; [exact S2|]. split; [exact O2|]. intros i Hi. apply D2; lia.
Qed.

Definition colprop (lu perm M : matrix) (n c : nat) : Prop :=
  exists y, length y = n /\
    (forall i, i < n -> nth i y zero = lacc lu (colv perm n c) y i) /\
    (forall i, i < n -> div (racc lu y (colv M n c) i n) (ent lu i i) = Ok (ent M i c)).

Theorem inverse_trace (m lu perm inv : matrix) (piv : nat) :
  wf m -> lu_decomp m = Ok (lu, piv, perm) -> inverse m = Ok inv ->
  shape lu (rows m) (rows m) /\ shape perm (rows m) (rows m) /\ shape inv (rows m) (rows m) /\
  forall j, j < rows m -> colprop lu perm inv (rows m) j.
Proof.
  intros W ELU E. unfold inverse in E.
  match type of E with (if negb ?c then _ else _) = _ => destruct c eqn:Sq end; cbn [negb] in E; [|discriminate].
  apply Nat.eqb_eq in Sq. rewrite ELU in E. cbn [bind] in E.
  destruct (lu_gen_shape true m lu perm piv W Sq ELU) as [SL SP]. set (n := rows m) in *.
  split; [exact SL|]. split; [exact SP|].
  pose (J := fun c (M : matrix) => shape M n n /\
              (forall r cc, cc < n -> c <= cc -> ent M r cc = ent perm r cc) /\
              (forall cc, cc < c -> colprop lu perm M n cc)).
  assert (G : J n inv).
  { refine (for_inv_partial J 0 n _ perm inv ltac:(lia) _ _ E).
    - split; [exact SP|]. split; [auto|intros; lia].
    - clear E. intros j M M2 Hj (SM & PM & CM) Eb.
      destruct (fwd_sweep lu M n j SL SM ltac:(lia)) as (M1 & E1 & S1 & O1 & D1).
      apply bind_ok in Eb as (M1' & E1' & Eb).
      change (for_ 0 n (fun i M => for_ 0 i (mbody lu i j) M) M = Ok M1') in E1'.
      rewrite E1 in E1'. injection E1' as <-.
      change (for_rev 0 n (bbody lu n j) M1 = Ok M2) in Eb.
      destruct (back_sweep lu M1 M2 n j SL S1 ltac:(lia) Eb) as (S2 & O2 & D2).
      split; [exact S2|]. split.
      + intros r cc Hcc Hle. rewrite O2 by lia. rewrite O1 by lia. apply PM; lia.
      + intros cc Hcc. destruct (Nat.eq_dec cc j) as [->|Ne].
        * exists (colv M1 n j). split; [apply colv_length|]. split.
          -- intros i Hi. rewrite nth_colv by exact Hi. rewrite (D1 i Hi).
             f_equal. apply colv_ext. intros r Hr. apply PM; lia.
          -- exact D2.
        * destruct (CM cc ltac:(lia)) as (y & Ly & Hy & Hz). exists y. split; [exact Ly|]. split; [exact Hy|].
          intros i Hi.
          assert (Ec : colv M2 n cc = colv M n cc).
          { apply colv_ext. intros r Hr. rewrite O2 by lia. apply O1; lia. }
          rewrite Ec. rewrite O2 by lia. rewrite O1 by lia. now apply Hz. }
  destruct G as (SI & _ & CI). split; [exact SI|]. intros j Hj. now apply CI.
Qed.

End InvTrace.

(* ================================================================ 2. the standard model *)
Local Open Scope R_scope.

Section RoundInverse.
Variable u : R.
Hypothesis u_range : 0 <= u < 1.
Variables fadd fsub fmul fdiv : R -> R -> R.
Hypothesis fsub_ok : forall x y, exists d, Rabs d <= u /\ fsub x y = (x - y) * (1 + d).
Hypothesis fmul_ok : forall x y, exists d, Rabs d <= u /\ fmul x y = x * y * (1 + d).
Hypothesis fdiv_ok : forall x y, y <> 0 -> exists d, Rabs d <= u /\ fdiv x y = x / y * (1 + d).

Notation AR := (ARm fadd fsub fmul fdiv).
Notation gam := (gam u).
Notation rentry := (rentry fadd fsub fmul fdiv).
Notation triu := (triu fadd fsub fmul fdiv).
Notation tril1 := (tril1 fadd fsub fmul fdiv).

Theorem inverse_columns_backward_error_lemma (m lu perm inv : matrix AR) (piv : nat) :
  wf m -> INR (rows m) * u < 1 ->
  lu_decomp m = Ok (lu, piv, perm) ->
  (forall k, (k < rows m)%nat -> rentry lu k k <> 0) ->
  inverse m = Ok inv ->
  wf inv /\ rows inv = rows m /\ cols inv = rows m /\
  forall j, (j < rows m)%nat ->
    exists (y : list R) (dL dU : nat -> nat -> R),
      length y = rows m /\
      (forall i k, (i < rows m)%nat -> (k < rows m)%nat -> Rabs (dL i k) <= gam (rows m) * Rabs (tril1 lu i k)) /\
      (forall i k, (i < rows m)%nat -> (k < rows m)%nat -> Rabs (dU i k) <= gam (rows m) * Rabs (triu lu i k)) /\
      (forall i, (i < rows m)%nat ->
         Rsum (rows m) (fun k => (tril1 lu i k + dL i k) * nth k y 0) = rentry perm i j) /\
      (forall i, (i < rows m)%nat ->
         Rsum (rows m) (fun k => (triu lu i k + dU i k) * rentry inv k j) = nth i y 0).
Proof using u_range fsub_ok fmul_ok fdiv_ok.
  intros W Hn ELU Dg E.
  destruct (inverse_trace (A := AR) m lu perm inv piv W ELU E) as (SL & SP & SI & Cols).
  set (n := rows m) in *. destruct SI as (WI & RI & CI). split; [exact WI|]. split; [exact RI|]. split; [exact CI|].
  intros j Hj. destruct (Cols j Hj) as (y & Ly & Hy & Hz).
  set (b := colv (A := AR) perm n j) in *. set (x := colv (A := AR) inv n j) in *.
  assert (RowsL : forall i, (i < n)%nat -> lrow_ok u fadd fsub fmul fdiv lu b y i).
  { intros i Hi. apply (lacc_lrow u u_range fadd fsub fmul fdiv fsub_ok fmul_ok). exact (Hy i Hi). }
  assert (RowsU : forall i, (i < n)%nat -> urow_ok u fadd fsub fmul fdiv lu n y x i).
  { intros i Hi. apply (racc_urow u u_range fadd fsub fmul fdiv fsub_ok fmul_ok fdiv_ok lu n y x i Hi (Dg i Hi)).
    specialize (Hz i Hi). cbn in Hz. injection Hz as Hz. unfold x. rewrite (nth_colv (A := AR)) by exact Hi.
    symmetry. exact Hz. }
  destruct (fin_choice (fun _ : nat => 0)
              (fun i (d : nat -> R) => (forall k, (k < n)%nat -> Rabs (d k) <= gam n * Rabs (tril1 lu i k)) /\
                 Rsum n (fun k => (tril1 lu i k + d k) * nth k y 0) = nth i b 0) n) as (FL & HFL).
  { intros i Hi. apply (lrow_to_full u u_range fadd fsub fmul fdiv lu n b y i Hi Hn). now apply RowsL. }
  destruct (fin_choice (fun _ : nat => 0)
              (fun i (d : nat -> R) => (forall k, (k < n)%nat -> Rabs (d k) <= gam n * Rabs (triu lu i k)) /\
                 Rsum n (fun k => (triu lu i k + d k) * nth k x 0) = nth i y 0) n) as (FU & HFU).
  { intros i Hi. apply (urow_to_full u u_range fadd fsub fmul fdiv lu n y x i Hi Hn). now apply RowsU. }
  exists y, FL, FU. split; [exact Ly|]. split; [intros i k Hi Hk; now apply (proj1 (HFL i Hi))|].
  split; [intros i k Hi Hk; now apply (proj1 (HFU i Hi))|]. split.
  - intros i Hi. destruct (HFL i Hi) as (_ & Es). transitivity (nth i b 0); [exact Es|].
    unfold b. now rewrite (nth_colv (A := AR)) by exact Hi.
  - intros i Hi. destruct (HFU i Hi) as (_ & Es).
    transitivity (Rsum n (fun k => (triu lu i k + FU i k) * nth k x 0)); [|exact Es].
    apply Rsum_ext. intros k Hk. unfold x. now rewrite (nth_colv (A := AR)) by exact Hk.
Qed.

End RoundInverse.
