(* Proofs/PolyExactEx.v -- concrete data for the non-vacuity examples of the C11/C12 exactness theorems
   (Proofs/PolyExactF.v, PolyExactB.v, PolyExactC.v, PolyExactDivF.v) and the witnesses of what fails outside their
   hypotheses (coefficients beyond 2^53; the sign of a zero; an inexact leading-coefficient division). *)
From Coq Require Import ZArith Reals Floats Lia Lra List Bool Arith.
From Flocq Require Import Core.Core IEEE754.BinarySingleNaN IEEE754.PrimFloat.
From OV Require Import Base.Panic Base.Arith gen.Params Model.Poly Model.Complex Proofs.Poly Proofs.ParDotFloat
                       Inst.FloatInst Proofs.PolyExact Proofs.PolyExactF Proofs.PolyExactB Proofs.PolyExactC
                       Proofs.PolyExactDiv Proofs.PolyExactDivZ Proofs.PolyExactDivF Proofs.PolyExactDivC.
Import ListNotations.
Local Open Scope Z_scope.

(* p = 3 - 2x + 5x^3 (degree 3),  q = -7 + 4x + x^2 + 2x^4 (degree 4),  s = -6,  x = 3 *)
Definition exP : list PrimFloat.float := [3; -2; 0; 5]%float.
Definition exPz : list Z := [3; -2; 0; 5].
Definition exQ : list PrimFloat.float := [-7; 4; 1; 0; 2]%float.
Definition exQz : list Z := [-7; 4; 1; 0; 2].
Lemma exP_exact : Forall2 Exact exP exPz.
Proof. repeat constructor; try exactw; intros; discriminate. Qed.
Lemma exQ_exact : Forall2 Exact exQ exQz.
Proof. repeat constructor; try exactw; intros; discriminate. Qed.
Lemma exP_exactW : Forall2 ExactW exP exPz.  Proof. exact (F2_Exact_W _ _ exP_exact). Qed.
Lemma exQ_exactW : Forall2 ExactW exQ exQz.  Proof. exact (F2_Exact_W _ _ exQ_exact). Qed.
Lemma ex_s_exact : ExactW (-6)%float (-6).  Proof. exactw. Qed.
Lemma ex_x_exact : ExactW 3%float 3.  Proof. exactw. Qed.

Ltac fits :=
  match goal with |- Forall ?P ?l => let v := eval vm_compute in l in change l with v end; repeat constructor.

(* ---- outside the bounds: 2^53 + 1 is not a float, and the additive evaluation law fails once a sum exceeds 2^53 *)
Lemma big_exact : ExactW 9007199254740992%float (2 ^ 53) /\ ExactW 1%float 1.
Proof. split; exactw. Qed.
(* the float sum of the constant polynomials 2^53 and 1 is 2^53, not 2^53 + 1 *)
Lemma padd_beyond_refuted :
  padd (A := AF) [9007199254740992%float] [1%float] = [9007199254740992%float] /\
  padd (A := AZ) [2 ^ 53] [1] = [2 ^ 53 + 1] /\ ~ Forall2 ExactW [9007199254740992%float] [2 ^ 53 + 1].
Proof.
  split; [vm_compute; reflexivity|]. split; [reflexivity|]. intros H. inversion H as [|? ? ? ? [_ Hr] _]; subst.
  destruct (proj1 big_exact) as [_ Hr']. rewrite Hr' in Hr. apply eq_IZR in Hr. vm_compute in Hr. discriminate.
Qed.
(* p = 1 + (2^52+1) x, q = 2, at x = 2: all coefficients are floats, but p(2) + q(2) = 2^53 + 5 is not;
   eval (p + q) 2 = 2^53 + 4 while eval p 2 + eval q 2 = 2^53 + 6 *)
Lemma peval_padd_beyond_refuted :
  let p := [1; 4503599627370497]%float in let q := [2; 0]%float in
  Forall2 Exact p [1; 2 ^ 52 + 1] /\ Forall2 Exact q [2; 0] /\
  peval (A := AF) (padd (A := AF) p q) 2%float = Ok 9007199254740996%float /\
  peval (A := AF) p 2%float = Ok 9007199254740996%float /\ peval (A := AF) q 2%float = Ok 2%float /\
  (9007199254740996 + 2)%float = 9007199254740998%float /\
  ~ eval_fits (padd (A := AZ) [1; 2 ^ 52 + 1] [2; 0]) 2.
Proof.
  cbv zeta. split; [repeat constructor; try exactw; intros; discriminate|].
  split; [repeat constructor; try exactw; intros; try discriminate; reflexivity|].
  repeat (split; [vm_compute; reflexivity|]). unfold eval_fits. vm_compute. discriminate.
Qed.

(* ---- inside the bounds, the sign of a zero: negation, scaling and products of VALUES can give -0 where the
   polynomial operation gives +0 (or conversely), so those laws hold as values and for == only *)
Definition is_pos_zero (x : PrimFloat.float) : Prop := Prim2SF x = S754_zero false.
Definition is_neg_zero (x : PrimFloat.float) : Prop := Prim2SF x = S754_zero true.

Lemma peval_pneg_sign_refuted :    (* p = 1 - x at x = 1 *)
  exists r rp, peval (A := AF) (pneg (A := AF) [1; -1]%float) 1%float = Ok r /\ peval (A := AF) [1; -1]%float 1%float = Ok rp /\
    is_pos_zero r /\ is_neg_zero (- rp)%float.
Proof. eexists _, _. split; [reflexivity|]. split; [reflexivity|]. split; vm_compute; reflexivity. Qed.

Lemma peval_pmul_sign_refuted :    (* p = 0, q = -3 *)
  exists r rp rq, peval (A := AF) (pmul (A := AF) [0]%float [-3]%float) 1%float = Ok r /\
    peval (A := AF) [0]%float 1%float = Ok rp /\ peval (A := AF) [-3]%float 1%float = Ok rq /\
    is_pos_zero r /\ is_neg_zero (rp * rq)%float.
Proof. eexists _, _, _. do 3 (split; [reflexivity|]). split; vm_compute; reflexivity. Qed.

Lemma pderiv_pscale_sign_refuted : (* p = 0 + 0 x, s = -1: (s p)' = [+0], s p' = [-0] *)
  exists d dp, pderiv (A := AF) (pscale (A := AF) [0; 0]%float (-1)%float) = Ok d /\ pderiv (A := AF) [0; 0]%float = Ok dp /\
    is_pos_zero (nth 0 d 1%float) /\ is_neg_zero (nth 0 (pscale (A := AF) dp (-1)%float) 1%float).
Proof. eexists _, _. do 2 (split; [reflexivity|]). split; vm_compute; reflexivity. Qed.

Lemma peval_padd_negzero_refuted : (* p = q = -0: the coefficients must not be negative zeros for the additive law *)
  exists r rp rq, peval (A := AF) (padd (A := AF) [-0]%float [-0]%float) 1%float = Ok r /\
    peval (A := AF) [-0]%float 1%float = Ok rp /\ peval (A := AF) [-0]%float 1%float = Ok rq /\
    is_pos_zero r /\ is_neg_zero (rp + rq)%float /\ ExactW (-0)%float 0 /\ ~ Exact (-0)%float 0.
Proof.
  eexists _, _, _. do 3 (split; [reflexivity|]). split; [vm_compute; reflexivity|]. split; [vm_compute; reflexivity|].
  split; [exactw|]. intros [_ H]. specialize (H eq_refl). vm_compute in H. discriminate.
Qed.

(* ---- Complex<f64>, Gaussian integers: p = (1+2i) + (3-i) x, q = (-2+i) + (4i) x + (1+i) x^2, x = 2 - i *)
Definition cF (a b : PrimFloat.float) : cplx AF := @mkC AF a b.
Definition cZ (a b : Z) : cplx AZ := @mkC AZ a b.
Definition exCP : list (cplx AF) := [cF 1 2; cF 3 (-1)]%float.
Definition exCPz : list (cplx AZ) := [cZ 1 2; cZ 3 (-1)].
Definition exCQ : list (cplx AF) := [cF (-2) 1; cF 0 4; cF 1 1]%float.
Definition exCQz : list (cplx AZ) := [cZ (-2) 1; cZ 0 4; cZ 1 1].
Lemma exCP_exact : Forall2 CExact exCP exCPz.
Proof. repeat constructor; try exactw; intros; discriminate. Qed.
Lemma exCQ_exact : Forall2 CExact exCQ exCQz.
Proof. repeat constructor; try exactw; intros; try discriminate; reflexivity. Qed.
Lemma CExact_W z g : CExact z g -> CExactW z g.
Proof. intros [[H1 _] [H2 _]]; split; auto. Qed.
Lemma exCP_exactW : Forall2 CExactW exCP exCPz.  Proof. exact (F2_impl _ _ _ _ CExact_W exCP_exact). Qed.
Lemma exCQ_exactW : Forall2 CExactW exCQ exCQz.  Proof. exact (F2_impl _ _ _ _ CExact_W exCQ_exact). Qed.
Lemma exCx_exact : CExactW (cF 2 (-1))%float (cZ 2 (-1)).
Proof. split; exactw. Qed.

(* ---- division: u = 7 + x - 3x^3 + 2x^4 by the monic v = 3 - 2x + x^2;  and by a divisor with leading coefficient 2
   that divides every leading coefficient met: u2 = 8 + 2x + 6x^2 + 4x^3 by v2 = 4 + 2x *)
Definition exU : list PrimFloat.float := [7; 1; 0; -3; 2]%float.
Definition exUz : list Z := [7; 1; 0; -3; 2].
Definition exV : list PrimFloat.float := [3; -2; 1]%float.
Definition exVz : list Z := [3; -2; 1].
Lemma exU_exact : Forall2 ExactW exU exUz.  Proof. repeat constructor; exactw. Qed.
Lemma exV_exact : Forall2 ExactW exV exVz.  Proof. repeat constructor; exactw. Qed.

Definition exU2 : list PrimFloat.float := [8; 2; 6; 4]%float.
Definition exU2z : list Z := [8; 2; 6; 4].
Definition exV2 : list PrimFloat.float := [4; 2]%float.
Definition exV2z : list Z := [4; 2].
Lemma exU2_exact : Forall2 ExactW exU2 exU2z.  Proof. repeat constructor; exactw. Qed.
Lemma exV2_exact : Forall2 ExactW exV2 exV2z.  Proof. repeat constructor; exactw. Qed.

(* one pass of the size condition, by computation *)
Ltac dfit_tac := first [exact I | (split; vm_compute; reflexivity)].
Ltac body_fits_tac :=
  let c := fresh "c" in let E := fresh "E" in
  let rl := fresh "rl" in let vl := fresh "vl" in let E1 := fresh "E" in let E2 := fresh "E" in
  intros rl vl c E1 E2 E; vm_compute in E1; vm_compute in E2; injection E1 as <-; injection E2 as <-;
  vm_compute in E; injection E as <-; cbv zeta;
  split; [dfit_tac|]; split; [reflexivity|]; split; [fits|]; split; [apply conv_fits_of_pmul; fits|fits].
(* loop_fits for EVERY fuel, by stepping through the integer run *)
Ltac loop_fits_tac :=
  first [ apply loop_fits_stop; vm_compute; reflexivity |
    match goal with |- @loop_fits _ _ _ ?f _ _ _ _ =>
      let f' := fresh "fuel" in destruct f as [|f'];
      [apply loop_fits_0 |
       apply loop_fits_step; [body_fits_tac |
         let qr := fresh "qr" in let E := fresh "E" in
         intros qr E; vm_compute in E; injection E as <-; cbn [fst snd]; loop_fits_tac]] end ].

Lemma exU2_fits : polydiv_fits (ZA := AZ) Z.abs (fun _ _ => True) exU2z exV2z.
Proof. unfold polydiv_fits, exU2z, exV2z. generalize (S POLYDIV_MAX). intros fuel. loop_fits_tac. Qed.

(* Complex<f64>: u = (2-i) + 3i x + (1+i) x^2 + 2 x^3 by the monic v = (1+i) + x *)
Definition exCU : list (cplx AF) := [cF 2 (-1); cF 0 3; cF 1 1; cF 2 0]%float.
Definition exCUz : list (cplx AZ) := [cZ 2 (-1); cZ 0 3; cZ 1 1; cZ 2 0].
Definition exCV : list (cplx AF) := [cF 1 1; cF 1 0]%float.
Definition exCVz : list (cplx AZ) := [cZ 1 1; cZ 1 0].
Lemma exCU_exact : Forall2 CExactW exCU exCUz.  Proof. repeat constructor; exactw. Qed.
Lemma exCV_exact : Forall2 CExactW exCV exCVz.  Proof. repeat constructor; exactw. Qed.
(* the three passes of the Gaussian-integer run, one by one *)
Definition exCq1 : list (cplx AZ) := [cZ 0 0; cZ 0 0; cZ 2 0].
Definition exCr1 : list (cplx AZ) := [cZ 2 (-1); cZ 0 3; cZ (-1) (-1)].
Definition exCq2 : list (cplx AZ) := [cZ 0 0; cZ (-1) (-1); cZ 2 0].
Definition exCr2 : list (cplx AZ) := [cZ 2 (-1); cZ 0 5].
Definition exCq3 : list (cplx AZ) := [cZ 0 5; cZ (-1) (-1); cZ 2 0].
Definition exCr3 : list (cplx AZ) := [cZ 7 (-6)].
Lemma exC_pass1 : polydiv_body (A := AZC) [] exCUz exCVz = Ok (exCq1, exCr1).  Proof. vm_compute; reflexivity. Qed.
Lemma exC_pass2 : polydiv_body (A := AZC) exCq1 exCr1 exCVz = Ok (exCq2, exCr2).  Proof. vm_compute; reflexivity. Qed.
Lemma exC_pass3 : polydiv_body (A := AZC) exCq2 exCr2 exCVz = Ok (exCq3, exCr3).  Proof. vm_compute; reflexivity. Qed.
Lemma exC_fits1 : body_fits (ZA := AZC) cn1 cDfit [] exCUz exCVz.
Proof. unfold exCUz, exCVz. body_fits_tac. Qed.
Lemma exC_fits2 : body_fits (ZA := AZC) cn1 cDfit exCq1 exCr1 exCVz.
Proof. unfold exCq1, exCr1, exCVz. body_fits_tac. Qed.
Lemma exC_fits3 : body_fits (ZA := AZC) cn1 cDfit exCq2 exCr2 exCVz.
Proof. unfold exCq2, exCr2, exCVz. body_fits_tac. Qed.
Lemma exCU_fits : polydiv_fits (ZA := AZC) cn1 cDfit exCUz exCVz.
Proof.
  unfold polydiv_fits. generalize (S POLYDIV_MAX). intros [|[|[|f]]]; try apply loop_fits_0.
  - apply loop_fits_step; [exact exC_fits1|]. intros qr E. apply loop_fits_0.
  - apply loop_fits_step; [exact exC_fits1|]. intros qr E. rewrite exC_pass1 in E. injection E as <-. cbn [fst snd].
    apply loop_fits_step; [exact exC_fits2|]. intros qr E. apply loop_fits_0.
  - apply loop_fits_step; [exact exC_fits1|]. intros qr E. rewrite exC_pass1 in E. injection E as <-. cbn [fst snd].
    apply loop_fits_step; [exact exC_fits2|]. intros qr E. rewrite exC_pass2 in E. injection E as <-. cbn [fst snd].
    apply loop_fits_step; [exact exC_fits3|]. intros qr E. rewrite exC_pass3 in E. injection E as <-. cbn [fst snd].
    apply loop_fits_stop. vm_compute. reflexivity.
Qed.

(* an inexact leading-coefficient division: x^2 by 1 + 3x.  The integer division does not go through (1/3), and the
   float answer is not integer-valued *)
Lemma polydiv_inexact_refuted :
  polydiv (A := AZ) [0; 0; 1] [1; 3] = Panic Guard /\
  exists q r, polydiv (A := AF) [0; 0; 1]%float [1; 3]%float = Ok (inl (q, r)) /\
    nth 1 q 0%float = (1 / 3)%float /\ ~ exists z, ExactW (1 / 3)%float z.
Proof.
  split; [vm_compute; reflexivity|]. eexists _, _. split; [vm_compute; reflexivity|]. split; [vm_compute; reflexivity|].
  intros (z & _ & Hz). revert Hz. unfold Prim2B. rewrite B2R_SF2B. vm_compute Prim2SF. unfold SF2R, F2R. simpl.
  intros Hz.
  assert (H : (IZR 6004799503160661 = IZR z * IZR (2 ^ 54))%R).
  { rewrite <- Hz. change (2 ^ 54) with 18014398509481984. lra. }
  rewrite <- mult_IZR in H. apply eq_IZR in H. lia.
Qed.
