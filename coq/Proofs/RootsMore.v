(* Proofs/RootsMore.v -- further statements that hold for EVERY RootArith:
   what a Converged / Stalled exit of laguer means, the number of laguer calls of poly_solve (the trace),
   the real-axis snapping rule. *)
From Coq Require Import List Arith Bool Lia.
From OV Require Import Base.Panic Base.Arith Model.Complex gen.Params Model.Roots Proofs.Roots.
Import ListNotations.

Section AnyArith.
Context (RA : RootArith).
Notation K := (T (KK RA)).
Notation R := (T (SA (RR RA))).

(* the code's own convergence test at x:  |b| <= err * EPS  with (b, err, _, _) the result of the inner loop *)
Definition conv_test (a : list K) (m : nat) (x : K) : Prop :=
  exists b err d f, horner3 RA a m x = Ok (b, err, d, f) /\ leb (kabs RA b) (mul err (reps RA)) = true.

Lemma laguer_step_converged a m iter x tok :
  laguer_step RA a m iter x = Ok (inl (Converged, tok)) -> conv_test a m x.
Proof.
  unfold laguer_step. intros E.
  apply bind_ok in E as (st & Est & E). destruct st as [[[b err] d] f].
  destruct (leb (kabs RA b) (mul err (reps RA))) eqn:Et.
  - exists b, err, d, f. split; [exact Est | exact Et].
  - exfalso.
    apply bind_ok in E as (g & _ & E). apply bind_ok in E as (fb & _ & E).
    apply bind_ok in E as (m1 & _ & E). apply bind_ok in E as (sq & _ & E).
    apply bind_ok in E as (dx & _ & E).
    destruct (eqb _ _); [discriminate|].
    destruct (negb _); [discriminate|].
    apply bind_ok in E as (fr & _ & E). discriminate.
Qed.

Lemma laguer_loop_converged a m x0 fin0 fuel : forall iter x l,
  laguer_loop RA a m x0 fin0 fuel iter x = Ok l -> lwhy l = Converged -> conv_test a m (lx l).
Proof.
  induction fuel as [|fuel IH]; intros iter x l E Hw; cbn [laguer_loop] in E.
  - injection E as <-. discriminate.
  - apply bind_ok in E as (o & Eo & E). destruct o as [[why tok]|x'].
    + injection E as <-. cbn [lwhy lx] in *. subst why. eapply laguer_step_converged; eauto.
    + eapply IH; eauto.
Qed.

(* exit Converged => the code's own test |p(x)| <= EPS * err held AT THE RETURNED x *)
Lemma laguer_converged_lemma a x l :
  laguer RA a x = Ok l -> lwhy l = Converged -> conv_test a (length a - 1) (lx l).
Proof.
  unfold laguer. intros E Hw. apply bind_ok in E as (m & Em & E).
  unfold usub in Em. destruct (1 <=? length a); [|discriminate]. injection Em as <-.
  eapply laguer_loop_converged; eauto.
Qed.

(* ---------- the trace: one laguer call per root while deflating (degree >= 4), one more per root when polishing ---------- *)
Lemma solve_body_trace j ad roots tr ad' roots' tr' :
  solve_body RA j (ad, roots, tr) = Ok (ad', roots', tr') -> length tr' = S (length tr).
Proof.
  unfold solve_body. intros E.
  apply bind_ok in E as (adv & _ & E). apply bind_ok in E as (l & _ & E).
  apply bind_ok in E as (r' & _ & E). apply bind_ok in E as (db & _ & E).
  injection E as _ _ <-. rewrite app_length. cbn. lia.
Qed.

Lemma polish_body_trace a j roots tr roots' tr' :
  polish_body RA a j (roots, tr) = Ok (roots', tr') -> length tr' = S (length tr).
Proof.
  unfold polish_body. intros E.
  apply bind_ok in E as (x & _ & E). apply bind_ok in E as (l & _ & E).
  apply bind_ok in E as (r' & _ & E). injection E as _ <-. rewrite app_length. cbn. lia.
Qed.

Lemma trace_length_lemma coeffs refine rs tr :
  poly_solve RA coeffs refine = Ok (rs, tr) ->
  let n := length coeffs - 1 in
  length tr = (if 3 <? n then n else 0) + (if refine then n else 0).
Proof.
  unfold poly_solve. intros E. cbv zeta.
  apply bind_ok in E as (degree & Ed & E).
  unfold usub in Ed. destruct (1 <=? length coeffs) eqn:H1; [|discriminate]. injection Ed as <-.
  set (n := length coeffs - 1) in *.
  destruct (n =? 0) eqn:H0; [discriminate|].
  apply bind_ok in E as (r1 & _ & E). apply bind_ok in E as (r2 & _ & E). apply bind_ok in E as (r3 & _ & E).
  apply bind_ok in E as ([r4 t4] & E4 & E).
  assert (L4 : length t4 = if 3 <? n then n else 0).
  { destruct (3 <? n).
    - apply bind_ok in E4 as ([[ad rr] tt] & Ef & E4). injection E4 as _ <-. cbn [fst snd].
      unfold for_rev in Ef. rewrite Nat.sub_0_r in Ef.
      pose (I := fun (k : nat) (s : list K * list K * list (lres K)) => length (snd s) + k = n).
      apply (for_rev_from_inv_partial I) in Ef.
      + unfold I in Ef. cbn [snd] in Ef. lia.
      + unfold I. cbn. reflexivity.
      + intros k [[ad0 rr0] tt0] [[ad1 rr1] tt1] _ HI Eb. unfold I in *; cbn [fst snd] in *.
        apply solve_body_trace in Eb. lia.
    - now injection E4 as _ <-. }
  destruct refine.
  - unfold for_ in E. rewrite Nat.sub_0_r in E.
    pose (I := fun (i : nat) (s : list K * list (lres K)) => length (snd s) = length t4 + i).
    apply (for_from_inv_partial I) in E.
    + unfold I in E. cbn [snd] in E. lia.
    + unfold I. cbn. lia.
    + intros i [rr0 tt0] [rr1 tt1] _ HI Eb. unfold I in *; cbn [fst snd] in *.
      apply polish_body_trace in Eb. lia.
  - injection E as _ <-. lia.
Qed.

(* ---------- real-axis snapping: the value is kept, or its imaginary part is replaced by zero ---------- *)
Lemma snap_cases_lemma (x : K) : snap RA x = x \/ snap RA x = mkk RA (kre RA x) zero.
Proof. unfold snap. destruct (leb _ _); auto. Qed.

Lemma snap_rule_lemma (x : K) :
  snap RA x = if leb (rfabs RA (kim RA x)) (mul (mul (of_nat 2) (reps RA)) (rfabs RA (kre RA x)))
              then mkk RA (kre RA x) zero else x.
Proof. reflexivity. Qed.

(* ---------- polishing: EVERY root is passed through laguer on the undeflated polynomial ---------- *)
Lemma polish_loop_spec a n : forall (rs0 : list K) (tr0 : list (lres K)) rs tr,
  length rs0 = n ->
  for_ 0 n (polish_body RA a) (rs0, tr0) = Ok (rs, tr) ->
  exists ls : list (lres K),
    length ls = n /\ tr = tr0 ++ ls /\ length rs = n /\
    forall j, j < n -> exists l, nth_error ls j = Some l /\
                       laguer RA a (nth j rs0 zero) = Ok l /\ nth j rs zero = lx l.
Proof.
  intros rs0 tr0 rs tr Hn E. unfold for_ in E. rewrite Nat.sub_0_r in E.
  pose (I := fun (i : nat) (s : list K * list (lres K)) =>
     let '(ri, ti) := s in
     length ri = n /\
     (forall j, i <= j -> nth j ri zero = nth j rs0 zero) /\
     exists ls : list (lres K), length ls = i /\ ti = tr0 ++ ls /\
       forall j, j < i -> exists l, nth_error ls j = Some l /\
                         laguer RA a (nth j rs0 zero) = Ok l /\ nth j ri zero = lx l).
  apply (for_from_inv_partial I) in E.
  - unfold I in E. cbn [Nat.add] in E. destruct E as (HL & _ & ls & Hls & Ht & Hj).
    exists ls. auto.
  - unfold I. split; [exact Hn|]. split; [reflexivity|].
    exists []. split; [reflexivity|]. split; [now rewrite app_nil_r|]. intros j Hj. lia.
  - intros i [ri ti] [ri1 ti1] Hi HI Eb. unfold I in *.
    destruct HI as (HL & Hun & ls & Hls & Ht & Hj).
    unfold polish_body in Eb.
    apply bind_ok in Eb as (x & Ex & Eb). apply (rd_Ok_inv _ _ _ zero) in Ex as (Hir & Hx).
    apply bind_ok in Eb as (l & El & Eb).
    apply bind_ok in Eb as (r' & Er & Eb). apply upd_Ok_inv in Er as (_ & ->).
    injection Eb as <- <-.
    split; [now rewrite upd_list_length|]. split.
    + intros j Hij. rewrite nth_upd_list by exact Hir.
      destruct (Nat.eqb_spec j i); [lia|]. apply Hun. lia.
    + exists (ls ++ [l]). split; [rewrite app_length; cbn; lia|].
      split; [rewrite Ht, app_assoc; reflexivity|].
      intros j Hji. rewrite nth_upd_list by exact Hir.
      destruct (Nat.eqb_spec j i) as [->|Hne].
      * exists l. split; [rewrite nth_error_app2 by lia; rewrite Hls, Nat.sub_diag; reflexivity|].
        split; [|reflexivity]. rewrite <- (Hun i) by lia. rewrite <- Hx. exact El.
      * destruct (Hj j) as (l' & Hl1 & Hl2 & Hl3); [lia|].
        exists l'. split; [rewrite nth_error_app1 by lia; exact Hl1|]. auto.
Qed.

Lemma refine_polishes_all_lemma coeffs rs tr :
  poly_solve RA coeffs true = Ok (rs, tr) ->
  let n := length coeffs - 1 in
  exists rs0 tr0 (ls : list (lres K)),
    poly_solve RA coeffs false = Ok (rs0, tr0) /\ length ls = n /\ tr = tr0 ++ ls /\
    forall j, j < n -> exists l, nth_error ls j = Some l /\
                       laguer RA coeffs (nth j rs0 zero) = Ok l /\ nth j rs zero = lx l.
Proof.
  intros E n.
  assert (Hsplit : exists rt, poly_solve RA coeffs false = Ok rt /\
                    for_ 0 n (polish_body RA coeffs) rt = Ok (rs, tr)).
  { unfold poly_solve in *.
    destruct (usub (length coeffs) 1) as [degree|] eqn:Ed; [|discriminate].
    assert (degree = n) by (unfold usub in Ed; destruct (1 <=? length coeffs); [injection Ed as <-; reflexivity | discriminate]).
    subst degree. cbn [bind] in *.
    destruct (n =? 0); [discriminate|].
    repeat match type of E with
    | bind ?e _ = Ok _ => let r := fresh "r" in let Er := fresh "Er" in destruct e as [r|] eqn:Er; [cbn [bind] in E |- * | discriminate]
    end.
    eexists. split; [reflexivity | exact E]. }
  destruct Hsplit as ([rs0 tr0] & E0 & Ep).
  exists rs0, tr0.
  assert (HL : length rs0 = n) by exact (roots_length_lemma RA coeffs false rs0 tr0 E0).
  destruct (polish_loop_spec coeffs n rs0 tr0 rs tr HL Ep) as (ls & H1 & H2 & _ & H4).
  exists ls. auto.
Qed.

(* a polished root whose polishing call exits Converged passes the code's own smallness test
   |p(x)| <= EPS * err ON THE UNDEFLATED POLYNOMIAL (the polishing calls are the last n entries of the trace) *)
Lemma polished_converged_lemma coeffs rs tr j l :
  poly_solve RA coeffs true = Ok (rs, tr) ->
  let n := length coeffs - 1 in
  j < n -> nth_error tr (length tr - n + j) = Some l -> lwhy l = Converged ->
  conv_test coeffs n (nth j rs zero).
Proof.
  intros E n Hj Hl Hw.
  destruct (refine_polishes_all_lemma coeffs rs tr E) as (rs0 & tr0 & ls & E0 & Hls & Ht & Hall).
  fold n in Hls, Hall.
  destruct (Hall j Hj) as (l' & Hl1 & Hl2 & Hl3).
  assert (l' = l).
  { rewrite Ht in Hl. rewrite app_length, Hls in Hl.
    replace (length tr0 + n - n + j) with (length tr0 + j) in Hl by lia.
    rewrite nth_error_app2 in Hl by lia.
    replace (length tr0 + j - length tr0) with j in Hl by lia. congruence. }
  subst l'. rewrite Hl3. unfold n.
  eapply laguer_converged_lemma; eauto.
Qed.

End AnyArith.
