(* Proofs/MatNormLawsFloat.v -- the norms of Model/MatNorms.v at the PRIMITIVE-FLOAT instance itself ([AF]/[SAF], IEEE
   binary64: the instance the correspondence check runs bit for bit against the Rust code), through Flocq's
   specification of Coq's primitive floats (package matnorm, item 4, half (b)):

     mnorm_1_float_lemma   : all computed column sums finite, rows * 2^-53 < 1  ->
                             | FR (norm_1 A) - ||A||_1 |     <= gam rows * ||A||_1
     mnorm_inf_float_lemma : all computed row sums finite, cols * 2^-53 < 1  ->
                             | FR (norm_inf A) - ||A||_inf | <= gam cols * ||A||_inf
     mnorm_max_float_lemma : all entries finite  ->  FR (norm_max A) = max |a_ij|   exactly

   where ||.|| on the right is the SAME model function at the exact reals on the real values of the entries ([fm m]),
   FR is the real value of a float and gam n = n u / (1 - n u), u = 2^-53.  No underflow side condition: float
   additions never lose relative accuracy to underflow, |.| and comparisons are exact.  "Finite" excludes overflow of
   a sum and NaN / infinite entries; what the code does with those (f64::max ignores a NaN operand, so a column
   containing a NaN is silently skipped by norm_1) is covered by the bit-exact tie, not by these bounds. *)
From Coq Require Import ZArith Reals Lra Lia List Floats Bool Arith.
From Flocq Require Import Core BinarySingleNaN PrimFloat.
From OV Require Import Base.Panic Base.Arith Base.RoundModel Model.Vector Model.Matrix Model.MatNorms Inst.FloatInst.
From OV Require Import Proofs.Matrix Proofs.MatNorms Proofs.MatNormsR Proofs.ComplexRound Proofs.RoundDot
  Proofs.RoundDotFloat Proofs.RoundSum Proofs.MatNormLawsBase Proofs.MatNormLawsRound.
Import ListNotations.
Local Open Scope R_scope.

(* ------------------------------------------------------------------ maxima *)
Lemma ismax_step (P : R -> Prop) N s : ismax P N -> ismax (fun x => P x \/ x = s) (Rmax N s).
Proof.
  intros (Hub & Hmem). split.
  - intros x [Hx| ->]; [|apply Rmax_r]. eapply Rle_trans; [now apply Hub|apply Rmax_l].
  - unfold Rmax. destruct (Rle_dec N s); [right; now right|]. destruct Hmem as [->|Hm]; [now left|right; now left].
Qed.

(* members of one family within relative distance g of members of the other, both ways *)
Lemma ismax_pert2 (P P' : R -> Prop) N N' g : 0 <= g ->
  (forall x, P x -> 0 <= x) ->
  (forall x', P' x' -> exists x, P x /\ Rabs (x' - x) <= g * x) ->
  (forall x, P x -> exists x', P' x' /\ Rabs (x' - x) <= g * x) ->
  ismax P N -> ismax P' N' -> Rabs (N' - N) <= g * N.
Proof.
  intros Hg Hp Hup Hlo HN HN'. pose proof (ismax_nonneg _ _ HN Hp) as PN.
  assert (U : N' <= (1 + g) * N).
  { apply (ismax_le _ _ _ HN'); [nra|]. intros x' Hx'. destruct (Hup x' Hx') as (x & Hx & Hd).
    apply Rabs_le_bounds in Hd. pose proof (proj1 HN x Hx). pose proof (Hp x Hx). nra. }
  assert (L : (1 - g) * N <= N').
  { destruct (proj2 HN) as [E|Hm].
    - subst N. rewrite Rmult_0_r. destruct (proj2 HN') as [->|Hm']; [lra|].
      destruct (Hup N' Hm') as (x & Hx & Hd). pose proof (proj1 HN x Hx). pose proof (Hp x Hx).
      assert (x = 0) by lra. subst x. rewrite Rmult_0_r in Hd. apply Rabs_le_bounds in Hd. lra.
    - destruct (Hlo N Hm) as (x' & Hx' & Hd). apply Rabs_le_bounds in Hd. pose proof (proj1 HN' x' Hx'). lra. }
  apply Rabs_le. lra.
Qed.

(* ------------------------------------------------------------------ the float maximum step *)
Lemma fmax_float (a b : pfloat) : ffinite a -> ffinite b ->
  ffinite (fmax (S:=SAF) a b) /\ FR (fmax (S:=SAF) a b) = Rmax (FR a) (FR b).
Proof.
  unfold fmax, ffinite, FR. intros Fa Fb. change (@ltb (SA SAF) a b) with (PrimFloat.ltb a b).
  rewrite ltb_equiv, (Bltb_correct prec emax (Prim2B a) (Prim2B b) Fa Fb).
  unfold Rmax. destruct (Rlt_bool_spec (B2R (Prim2B a)) (B2R (Prim2B b))) as [H|H].
  - split; [exact Fb|]. destruct (Rle_dec (B2R (Prim2B a)) (B2R (Prim2B b))); [reflexivity|lra].
  - split; [exact Fa|]. destruct (Rle_dec (B2R (Prim2B a)) (B2R (Prim2B b))) as [H'|]; [lra|reflexivity].
Qed.

Lemma FR_zero : FR (@zero AF) = 0.
Proof. reflexivity. Qed.
Lemma ffinite_zero : ffinite (@zero AF).
Proof. reflexivity. Qed.

(* a maximum loop over finite values *)
Lemma for_fmax_float n (g : nat -> res pfloat) (s : nat -> pfloat) :
  (forall j, (j < n)%nat -> g j = Ok (s j)) -> (forall j, (j < n)%nat -> ffinite (s j)) ->
  exists Rf, for_ 0 n (fun j Rf => let* x := g j in Ok (fmax (S:=SAF) Rf x)) (@zero AF) = Ok Rf /\
             ffinite Rf /\ ismax (fun x => exists j, (j < n)%nat /\ x = FR (s j)) (FR Rf).
Proof.
  intros Hg Hs.
  apply (for_inv (fun k Rf => ffinite Rf /\ ismax (fun x => exists j, (j < k)%nat /\ x = FR (s j)) (FR Rf))); [lia| |].
  - split; [exact ffinite_zero|]. rewrite FR_zero. split; [intros x (j & Hj & _); lia|now left].
  - intros k Rf Hk (Ff & HM). rewrite Hg by lia. cbn [bind]. eexists; split; [reflexivity|].
    destruct (fmax_float Rf (s k) Ff (Hs k ltac:(lia))) as (Fm & Em). split; [exact Fm|]. rewrite Em.
    eapply ismax_iff; [apply ismax_step; exact HM|]. intros x; split.
    + intros [(j & Hj & ->)| ->]; [exists j; split; auto|exists k; split; auto].
    + intros (j & Hj & ->). destruct (Nat.eq_dec j k) as [->|]; [now right|left; exists j; split; auto; lia].
Qed.

(* ------------------------------------------------------------------ column / row sums are vector 1-norms *)
Lemma sum_n_norm_1 {A : Arith} n (h : nat -> A) :
  sum_n n (fun i => abs (h i)) = norm_1 (map h (seq 0 n)).
Proof.
  unfold norm_1. induction n as [|n IH]; [reflexivity|].
  rewrite seq_S, map_app, fold_left_app, <- IH. reflexivity.
Qed.

Lemma nth_map_seq0 {X} (h : nat -> X) n k d : (k < n)%nat -> nth k (map h (seq 0 n)) d = h k.
Proof.
  intros Hk. rewrite (nth_indep _ d (h 0%nat)) by (rewrite map_length, seq_length; exact Hk).
  rewrite (map_nth h (seq 0 n) 0%nat k), seq_nth by exact Hk. reflexivity.
Qed.

(* a finite float sum of absolute values: relative error gam n *)
Lemma fsum_abs_float n (h : nat -> pfloat) :
  ffinite (sum_n (A:=AF) n (fun i => abs (a:=AF) (h i))) -> INR n * u64 < 1 ->
  Rabs (FR (sum_n (A:=AF) n (fun i => abs (a:=AF) (h i))) - Rs n (fun i => Rabs (FR (h i))))
    <= g64 n * Rs n (fun i => Rabs (FR (h i))).
Proof.
  intros Ff Hn. rewrite sum_n_norm_1 in Ff |- *.
  pose proof (norm_1_relative_error_float_lemma (map h (seq 0 n))) as K.
  rewrite map_length, seq_length in K. specialize (K Ff Hn).
  rewrite Rsum_ext with (g := fun i => Rabs (FR (h i))) in K by (intros k Hk; now rewrite nth_map_seq0).
  rewrite <- Rsum_Rs. exact K.
Qed.

(* ------------------------------------------------------------------ the real matrix of a float matrix *)
Definition fm (m : matrix AF) : matrix AR := mkM (A:=AR) (map FR (buf m)) (rows m) (cols m).
Definition fe (m : matrix AF) (i j : nat) : R := FR (entry (A:=AF) m i j).

Lemma fm_msp (m : matrix AF) : wf m -> msp (A:=AR) (rows m) (cols m) (fe m) (fm m).
Proof.
  intros Hw. unfold msp, wf, fm, fe, entry. cbn [buf rows cols]. rewrite map_length.
  repeat split; auto. intros i j _ _. apply nth_map_FR_s.
Qed.

Lemma fabs_FR (x : pfloat) : ffinite x -> ffinite (abs (a:=AF) x) /\ FR (abs (a:=AF) x) = Rabs (FR x).
Proof. exact (f_abs_FR x). Qed.

(* ------------------------------------------------------------------ norm_1 and norm_inf *)
Lemma mnorm_1_float_lemma (m : matrix AF) : wf m ->
  (forall j, (j < cols m)%nat -> ffinite (colsum (SS:=SAF) m j)) -> INR (rows m) * u64 < 1 ->
  exists Rf N, mnorm_1 (S:=SAF) m = Ok Rf /\ ffinite Rf /\ mnorm_1 (S:=SAR) (fm m) = Ok N /\
    Rabs (FR Rf - N) <= g64 (rows m) * N.
Proof.
  intros Hw Hfin Hn.
  destruct (for_fmax_float (cols m)
              (fun j => for_ 0 (rows m) (fun i sum => let* x := mget m i j in Ok (add (a:=AF) sum (abs x))) (@zero AF))
              (colsum (SS:=SAF) m)) as (Rf & Ef & Ff & HM).
  - intros j Hj. cbv beta.
    etransitivity; [apply (for_sum (SS:=SAF) (rows m) (fun i => mget m i j) (fun i => entry m i j) abs zero)|].
    + intros i Hi. apply (mget_msp _ _ _ m i j (msp_self m Hw) Hi Hj).
    + apply f_equal. unfold colsum. apply (sum_acc_zero (A:=AF)).
  - exact Hfin.
  - destruct (n1_msp _ _ _ (fm m) (fm_msp m Hw)) as (N & EN & HN).
    exists Rf, N. split; [exact Ef|]. split; [exact Ff|]. split; [exact EN|].
    assert (HB : forall j, (j < cols m)%nat ->
              Rabs (FR (colsum (SS:=SAF) m j) - csum (rows m) (fe m) j) <= g64 (rows m) * csum (rows m) (fe m) j).
    { intros j Hj. apply (fsum_abs_float (rows m) (fun i => entry (A:=AF) m i j)); [exact (Hfin j Hj)|exact Hn]. }
    apply (ismax_pert2 (P1 (rows m) (cols m) (fe m)) (fun x => exists j, (j < cols m)%nat /\ x = FR (colsum (SS:=SAF) m j))).
    + apply (gam_nonneg u64 u64_range). exact Hn.
    + apply P1_nonneg.
    + intros x' (j & Hj & ->). exists (csum (rows m) (fe m) j). split; [exists j; auto|now apply HB].
    + intros x (j & Hj & ->). exists (FR (colsum (SS:=SAF) m j)). split; [exists j; auto|now apply HB].
    + exact HN.
    + exact HM.
Qed.

Lemma mnorm_inf_float_lemma (m : matrix AF) : wf m ->
  (forall i, (i < rows m)%nat -> ffinite (rowsum (SS:=SAF) m i)) -> INR (cols m) * u64 < 1 ->
  exists Rf N, mnorm_inf (S:=SAF) m = Ok Rf /\ ffinite Rf /\ mnorm_inf (S:=SAR) (fm m) = Ok N /\
    Rabs (FR Rf - N) <= g64 (cols m) * N.
Proof.
  intros Hw Hfin Hn.
  destruct (for_fmax_float (rows m)
              (fun i => for_ 0 (cols m) (fun j sum => let* x := mget m i j in Ok (add (a:=AF) sum (abs x))) (@zero AF))
              (rowsum (SS:=SAF) m)) as (Rf & Ef & Ff & HM).
  - intros i Hi. cbv beta.
    etransitivity; [apply (for_sum (SS:=SAF) (cols m) (fun j => mget m i j) (fun j => entry m i j) abs zero)|].
    + intros j Hj. apply (mget_msp _ _ _ m i j (msp_self m Hw) Hi Hj).
    + apply f_equal. unfold rowsum. apply (sum_acc_zero (A:=AF)).
  - exact Hfin.
  - destruct (ninf_msp _ _ _ (fm m) (fm_msp m Hw)) as (N & EN & HN).
    exists Rf, N. split; [exact Ef|]. split; [exact Ff|]. split; [exact EN|].
    assert (HB : forall i, (i < rows m)%nat ->
              Rabs (FR (rowsum (SS:=SAF) m i) - rsum (cols m) (fe m) i) <= g64 (cols m) * rsum (cols m) (fe m) i).
    { intros i Hi. apply (fsum_abs_float (cols m) (fun j => entry (A:=AF) m i j)); [exact (Hfin i Hi)|exact Hn]. }
    apply (ismax_pert2 (Pinf (rows m) (cols m) (fe m)) (fun x => exists i, (i < rows m)%nat /\ x = FR (rowsum (SS:=SAF) m i))).
    + apply (gam_nonneg u64 u64_range). exact Hn.
    + apply Pinf_nonneg.
    + intros x' (i & Hi & ->). exists (rsum (cols m) (fe m) i). split; [exists i; auto|now apply HB].
    + intros x (i & Hi & ->). exists (FR (rowsum (SS:=SAF) m i)). split; [exists i; auto|now apply HB].
    + exact HN.
    + exact HM.
Qed.

(* ------------------------------------------------------------------ norm_max: exact *)
Lemma mnorm_max_float_lemma (m : matrix AF) : wf m ->
  (forall i j, (i < rows m)%nat -> (j < cols m)%nat -> ffinite (entry (A:=AF) m i j)) ->
  exists Rf, mnorm_max (S:=SAF) m = Ok Rf /\ ffinite Rf /\ mnorm_max (S:=SAR) (fm m) = Ok (FR Rf).
Proof.
  intros Hw Hfin. unfold mnorm_max at 1.
  set (Q := fun (lim : nat -> nat -> Prop) x => exists i j, lim i j /\ (j < cols m)%nat /\ x = Rabs (fe m i j)).
  destruct (for_inv (fun k Rf => ffinite Rf /\ ismax (Q (fun i _ => (i < k)%nat)) (FR Rf)) 0 (rows m)
              (fun i result => for_ 0 (cols m) (fun j result => let* x := mget m i j in Ok (fmax (S:=SAF) result (abs x))) result)
              (@zero AF)) as (Rf & E & Ff & HM); [lia| | |].
  - split; [exact ffinite_zero|]. rewrite FR_zero. split; [intros x (i & j & Hi & _); lia|now left].
  - intros k Rf Hk (Ff & HM).
    destruct (for_inv (fun q Rf => ffinite Rf /\ ismax (Q (fun i j => (i < k)%nat \/ (i = k /\ (j < q)%nat))) (FR Rf)) 0 (cols m)
                (fun j result => let* x := mget m k j in Ok (fmax (S:=SAF) result (abs x))) Rf)
      as (Rf' & E' & Ff' & HM'); [lia| | |].
    + split; [exact Ff|]. eapply ismax_iff; [exact HM|]. intros x; split.
      * intros (i & j & Hi & Hj & ->). exists i, j. auto.
      * intros (i & j & [Hi|[_ Hx]] & Hj & ->); [|lia]. exists i, j. auto.
    + intros q Rq Hq (Fq & HMq).
      rewrite (mget_msp _ _ _ m k q (msp_self m Hw) (proj2 Hk) (proj2 Hq)). cbn [bind].
      eexists; split; [reflexivity|].
      destruct (fabs_FR (entry m k q) (Hfin k q (proj2 Hk) (proj2 Hq))) as (Fa & Ea).
      destruct (fmax_float Rq (abs (a:=AF) (entry m k q)) Fq Fa) as (Fm & Em). split; [exact Fm|].
      rewrite Em, Ea. eapply ismax_iff; [apply ismax_step; exact HMq|]. intros x; split.
      * intros [(i & j & Hc & Hj & ->)| ->].
        -- exists i, j. repeat split; auto. destruct Hc as [Hi|[-> Hj']]; [now left|right; split; auto; lia].
        -- exists k, q. split; [right; split; [reflexivity|lia]|]. split; [lia|reflexivity].
      * intros (i & j & Hc & Hj & ->).
        destruct Hc as [Hi|[-> Hj']]; [left; exists i, j; auto|].
        destruct (Nat.eq_dec j q) as [->|]; [now right|left; exists k, j; repeat split; auto; right; split; auto; lia].
    + exists Rf'; split; [exact E'|]. split; [exact Ff'|]. eapply ismax_iff; [exact HM'|]. intros x; split.
      * intros (i & j & Hc & Hj & ->). exists i, j. repeat split; auto. destruct Hc as [Hi|[-> _]]; lia.
      * intros (i & j & Hi & Hj & ->). exists i, j. repeat split; auto.
        destruct (Nat.eq_dec i k) as [->|]; [right; auto|left; lia].
  - exists Rf. split; [exact E|]. split; [exact Ff|].
    destruct (nmax_msp _ _ _ (fm m) (fm_msp m Hw)) as (N & EN & HN). rewrite EN. apply f_equal.
    apply (ismax_eq _ _ _ _ HN HM (Pmax_nonneg _ _ _)). intros x; split.
    + intros (i & j & Hi & Hj & ->). exists i, j. auto.
    + intros (i & j & Hi & Hj & ->). exists i, j. auto.
Qed.

(* ------------------------------------------------------------------ norm_frob at the float instance *)
(* the correctly rounded square root as a total standard-model operation on the reals (cf. Fmul of RoundDotFloat.v) *)
Definition Fsqrt (x : R) : R :=
  if nounder (R_sqrt.sqrt x) then rnd64 (R_sqrt.sqrt x) else R_sqrt.sqrt x.

Lemma Fsqrt_ok x : 0 <= x -> exists d, Rabs d <= u64 /\ Fsqrt x = R_sqrt.sqrt x * (1 + d).
Proof.
  intros _. unfold Fsqrt. destruct (nounder (R_sqrt.sqrt x)) eqn:E; [|apply exact_ok].
  apply rnd64_rel_ex. now apply nounder_true.
Qed.

(* the square root of a float never underflows *)
Lemma sqrt_fmt_nounder y : fmt y -> no_underflow (R_sqrt.sqrt y).
Proof.
  intros Fy. destruct (Rle_lt_dec y 0) as [Hy|Hy].
  - left. destruct Hy as [Hy| ->]; [now apply sqrt_neg_0; left|apply sqrt_0].
  - right.
    assert (B : bpow radix2 (-1074) <= y).
    { apply (generic_format_ge_bpow radix2 (FLT_exp (-1074) 53)); auto.
      intros e. unfold FLT_exp. apply Z.le_max_r. }
    rewrite Rabs_pos_eq by apply sqrt_pos.
    apply Rle_trans with (bpow radix2 (-537)); [apply bpow_le; lia|].
    change (-1074)%Z with (2 * -537)%Z in B. rewrite <- (sqrt_bpow radix2 (-537)).
    now apply sqrt_le_1_alt.
Qed.

Lemma fsqrt_float (x : pfloat) : ffinite (PrimFloat.sqrt x) -> ffinite x /\ FR (PrimFloat.sqrt x) = Fsqrt (FR x).
Proof.
  unfold ffinite, FR. rewrite sqrt_equiv. intros Hf.
  destruct (Bsqrt_correct prec emax HP HM mode_NE (Prim2B x)) as (E & Ef & _).
  change (round radix2 (fexp prec emax) (round_mode mode_NE)) with rnd64 in E.
  split.
  - rewrite Ef in Hf. destruct (Prim2B x) as [s|s| |[|] mx ex Bx]; try discriminate; reflexivity.
  - rewrite E. unfold Fsqrt.
    assert (N : nounder (R_sqrt.sqrt (B2R (Prim2B x))) = true).
    { apply nounder_true, sqrt_fmt_nounder. apply (FR_fmt x). }
    now rewrite N.
Qed.

Notation SA64r := (RoundNorm2.SARm Fadd Fsub Fmul Fdiv Fsqrt).

Lemma mnorm_frob_float_lemma (m : matrix AF) (Rf : pfloat) : wf m ->
  mnorm_frob (S:=SAF) m = Ok Rf -> ffinite Rf ->
  (forall k, (k < length (buf m))%nat -> ffinite (nth k (buf m) 0%float)) ->
  (forall k, (k < length (buf m))%nat -> no_underflow (FR (nth k (buf m) 0%float) * FR (nth k (buf m) 0%float))) ->
  INR (rows m * cols m + 1) * u64 < 1 ->
  exists th N, Rabs th <= g64 (rows m * cols m + 1) /\
    mnorm_frob (S:=SAR) (fm m) = Ok N /\ FR Rf = N * (1 + th).
Proof.
  intros Hw E Ff Hfin Hnu Hn.
  rewrite (mnorm_frob_lemma (SS:=SAF) m Hw) in E. injection E as <-.
  set (n := length (buf m)) in *.
  set (a := fun k => abs (a:=AF) (nth k (buf m) (@zero AF))).
  change (ffinite (PrimFloat.sqrt (sum_n (A:=AF) n (fun k => (a k * a k)%float)))) in Ff.
  change (exists th N, Rabs th <= g64 (rows m * cols m + 1) /\ mnorm_frob (S:=SAR) (fm m) = Ok N /\
            FR (PrimFloat.sqrt (sum_n (A:=AF) n (fun k => (a k * a k)%float))) = N * (1 + th)).
  destruct (fsqrt_float _ Ff) as (Fs & Es). rewrite Es.
  assert (Ea : forall k, (k < n)%nat -> FR (a k) = Rabs (FR (nth k (buf m) 0%float))).
  { intros k Hk. exact (proj2 (fabs_FR _ (Hfin k Hk))). }
  rewrite (sum_n_float_transfer n a a Fs).
  2:{ intros k Hk. rewrite (Ea k Hk). rewrite <- Rabs_mult. destruct (Hnu k Hk) as [Z|B].
      - left. rewrite Z. apply Rabs_R0.
      - right. now rewrite Rabs_Rabsolu. }
  (* the same function in the standard-model arithmetic on the real values *)
  set (m' := mkM (A:=A64r) (map FR (buf m)) (rows m) (cols m)).
  assert (Hw' : wf m') by (unfold wf, m'; cbn [buf rows cols]; rewrite map_length; exact Hw).
  destruct (mnorm_frob_rounding_lemma u64 u64_range Fadd Fsub Fmul Fdiv Fsqrt Fadd_ok Fmul_ok Fadd_0_mul Fsqrt_ok m' Hw' Hn)
    as (th & N & Hth & EN & Ef').
  exists th, N. split; [exact Hth|]. split; [exact EN|].
  rewrite (mnorm_frob_lemma (SS:=SA64r) m' Hw') in Ef'. injection Ef' as Ef'. rewrite <- Ef'.
  change (Fsqrt (sum_n (A:=A64r) n (fun k => Fmul (FR (a k)) (FR (a k)))) =
          Fsqrt (sum_n (A:=A64r) (length (map FR (buf m))) (fun k => Fmul (Rabs (nth k (map FR (buf m)) 0)) (Rabs (nth k (map FR (buf m)) 0))))).
  rewrite map_length. fold n. f_equal. apply (sum_n_ext (A:=A64r)). intros k Hk.
  rewrite (Ea k Hk), nth_map_FR_s. reflexivity.
Qed.

(* ------------------------------------------------------------------ what the code does with NaN (by computation)
   f64::max(result, x) ignores a NaN x and the running maximum starts at 0.0, so norm_1 / norm_inf skip every column /
   row whose sum is NaN and norm_max skips NaN entries, while norm_frob propagates it.  Definiteness and the comparison
   nx <= ni of the real-number laws therefore FAIL at the float instance on matrices containing NaN:
     [[NaN]]     : norm_1 = norm_inf = norm_max = 0.0 although the matrix is not zero, norm_frob = NaN
     [[NaN, 1]]  : norm_1 = 1, norm_inf = 0 < norm_max = 1
   (the real code returns the same values: the tie is bit for bit; checked on the executor, kind mat.norms). *)
Lemma matnorm_float_nan_ignored_lemma :
  let m1 := @mkM AF [nan] 1 1 in
  let m2 := @mkM AF [nan; 1%float] 1 2 in
  wf m1 /\ wf m2 /\ PrimFloat.is_nan (entry (A:=AF) m1 0 0) = true /\
  mnorm_1 (S:=SAF) m1 = Ok 0%float /\ mnorm_inf (S:=SAF) m1 = Ok 0%float /\ mnorm_max (S:=SAF) m1 = Ok 0%float /\
  (exists x, mnorm_frob (S:=SAF) m1 = Ok x /\ PrimFloat.is_nan x = true) /\
  mnorm_1 (S:=SAF) m2 = Ok 1%float /\ mnorm_inf (S:=SAF) m2 = Ok 0%float /\ mnorm_max (S:=SAF) m2 = Ok 1%float.
Proof.
  cbn zeta. split; [reflexivity|]. split; [reflexivity|]. split; [vm_compute; reflexivity|].
  split; [vm_compute; reflexivity|]. split; [vm_compute; reflexivity|]. split; [vm_compute; reflexivity|].
  split; [eexists; split; [vm_compute; reflexivity|vm_compute; reflexivity]|].
  split; [vm_compute; reflexivity|]. split; vm_compute; reflexivity.
Qed.
