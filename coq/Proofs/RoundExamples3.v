(* Proofs/RoundExamples3.v -- non-vacuity witnesses for the solve_basic backward-error theorem, in the rounding
   arithmetic AFlx: on [[2,1],[0,3]] x = [1,1] no pivot search meets an all-zero column. *)
From Coq Require Import List Arith Reals Lra Lia.
From OV Require Import Base.Panic Base.Arith Base.RoundModel Model.Vector Model.Matrix Model.Solve
  Proofs.Matrix Proofs.RoundFlx Proofs.RoundExamples Proofs.RoundGaussTrace.
Import ListNotations.
Local Open Scope R_scope.

Lemma ex_no_badrun : ~ BadRun xadd xsub xmul xdiv ex_m2 ex_b2 (rows ex_m2) (rows ex_m2 - 1).
Proof.
  intros (k & mk & bk & Hk & Run & Z). cbn in Hk. assert (k = 0%nat) by lia. subst k.
  cbn in Run. injection Run as <- <-. specialize (Z 0%nat ltac:(lia) ltac:(cbn; lia)). cbn in Z. lra.
Qed.
