(* Proofs/IterCGOneStepR.v -- round two, package iter2: over the real numbers with the exact square root, EVERY
   solver of Model/Iter.v (CG, BiCG with either error measure, BiCGSTAB, QMR) answers Ok after at most one
   iteration when the initial residual is an eigenvector of A with a nonzero eigenvalue -- for every tol >= 0 and
   every budget >= 1.  Corollary (d): every 1 x 1 system a x = b with a <> 0. *)
From Coq Require Import List Arith Lia Bool Reals Lra.
From OV Require Import Base.Panic Base.Arith Model.Vector Model.Matrix Model.Sparse Model.Iter Proofs.SparseBase Proofs.SparseMul
  Proofs.Iter Proofs.IterField Proofs.IterR Proofs.IterSparseR
  Proofs.IterSparse Proofs.IterSparseBreakdown Proofs.IterSparseBreakdownQMR Proofs.IterCGVec Proofs.IterCGR Proofs.IterCGOneStep.
Import ListNotations.
Local Open Scope R_scope.

(* r - eta * ((r*lam)*c) = 0 entrywise when eta*lam*c = 1 *)
Lemma step_residual_vanishes (r : list R) lam c eta : eta * lam * c = 1 ->
  @zipw AR Rminus r (@vscale_l AR eta (@vscale AR (@vscale AR r lam) c)) = repeat 0 (length r).
Proof.
  intros H. induction r as [|x r IH]; [reflexivity|].
  change (@zipw AR Rminus (x :: r) (@vscale_l AR eta (@vscale AR (@vscale AR (x :: r) lam) c)))
    with ((x - eta * (x * lam * c)) :: @zipw AR Rminus r (@vscale_l AR eta (@vscale AR (@vscale AR r lam) c))).
  rewrite IH. cbn [length repeat]. f_equal. replace (x - eta * (x * lam * c)) with (x * (1 - eta * lam * c)) by ring.
  rewrite H. ring.
Qed.

Section OneStepR.
Variables (n : nat) (mulA mulAT : list R -> res (list R)).
Hypothesis LO : @LinOp AR n mulA.
Hypothesis TOT : forall v, length v = n -> exists w, mulAT v = Ok w /\ length w = n.

Notation FLR := AR_FieldLaws.

Lemma qmr_eigen_one_step (b x0 ax : list R) lam max tol :
  length b = n -> length x0 = n -> mulA x0 = Ok ax ->
  let r0 := @zipw AR Rminus b ax in
  mulA r0 = Ok (@vscale AR r0 lam) -> lam <> 0 -> @dot_raw AR r0 r0 <> 0 -> 0 <= tol -> (1 <= max)%nat ->
  exists k x g, @solve_qmr SAR mulA mulAT n n b x0 max tol = Ok (IOk k, x, g) /\ (k <= 1)%nat.
Proof.
  intros Hb Hx Eax r0 Eeig Hlam Hrho Htol Hmax.
  assert (Hax : length ax = n) by (destruct (@lo_ok AR n mulA LO x0 Hx) as (w & Ew & Hw); rewrite Eax in Ew; injection Ew as ->; exact Hw).
  assert (Hr0 : length r0 = n).
  { unfold r0. apply eq_trans with (length b); [|exact Hb]. apply (@zipw_length SAR). exact (eq_trans Hb (eq_sym Hax)). }
  pose proof (nz_R_pos _ (norm2_R_nonneg b)) as Hnb.
  set (nb := @nz SAR (@norm2 SAR b)) in *.
  assert (Hnbnz : nb <> 0) by lra.
  set (rho0 := @dot_raw AR r0 r0) in *.
  assert (Hrho0 : 0 < rho0) by (pose proof (dot_self_nonneg r0) as Hge; fold rho0 in Hge; lra).
  set (nu := @norm2 SAR r0).
  assert (Hnu : nu * nu = rho0) by (unfold nu; rewrite norm2_dot; fold rho0; apply sqrt_sqrt; lra).
  assert (Hnupos : 0 < nu) by (unfold nu; rewrite norm2_dot; fold rho0; now apply sqrt_lt_R0).
  assert (Hnunz : nu <> 0) by lra.
  unfold solve_qmr. rewrite (@guards_pass SAR n b x0 Hb Hx), Eax. cbn [bind].
  assert (Ev : @vsub SAR b ax = Ok r0).
  { unfold vsub. cbn [T AR SA SAR] in *. rewrite Hb, Hax, Nat.eqb_refl. reflexivity. }
  rewrite Ev. cbn [bind]. fold nb. cbn [SA SAR div AR]. rewrite (R_div_ok2 _ nb Hnbnz). cbn [bind]. cbv zeta.
  match goal with |- context [if ?c then _ else _] => destruct c end.
  { do 3 eexists. split; [reflexivity | lia]. }
  fold nu. destruct max as [|max]; [lia|]. cbn [iloop].
  set (u := @vscale AR r0 (/ nu)).
  assert (Hu : length u = n) by (unfold u, vscale; rewrite map_length; exact Hr0).
  assert (Eau : mulA u = Ok (@vscale AR (@vscale AR r0 lam) (/ nu))) by (apply (@lo_scale AR n mulA LO); auto).
  set (au := @vscale AR (@vscale AR r0 lam) (/ nu)) in *.
  assert (Hau : length au = n) by (unfold au, vscale; rewrite !map_length; exact Hr0).
  destruct (TOT u Hu) as (wq & Ewq & Hwq).
  set (delta := @dot_raw AR u u).
  assert (Hdelta : delta = rho0 * (/ nu * / nu)).
  { unfold delta, u. rewrite (@dot_raw_scale_l SAR FLR), (@dot_raw_scale_r SAR FLR).
    unfold rho0. cbn [mul add sub SA SAR AR T]. change (@dot_raw SAR) with (@dot_raw AR). ring. }
  set (ep := @dot_raw AR u au).
  assert (Hep : ep = lam * delta).
  { unfold ep, u, au. rewrite (@dot_raw_scale_l SAR FLR), !(@dot_raw_scale_r SAR FLR). cbn [SA SAR]. fold rho0.
    rewrite Hdelta. cbn [mul add sub SA SAR AR T]. ring. }
  assert (Hdeltanz : delta <> 0).
  { rewrite Hdelta. apply Rmult_integral_contrapositive_currified; [lra|].
    apply Rmult_integral_contrapositive_currified; apply Rinv_neq_0_compat; exact Hnunz. }
  assert (Hepnz : ep <> 0) by (rewrite Hep; apply Rmult_integral_contrapositive_currified; auto).
  assert (Hbeta : ep * / delta = lam) by (rewrite Hep; field; exact Hdeltanz).
  unfold qmr_body at 1. cbn [q_x q_r q_vt q_y q_wt q_z q_p q_q q_d q_s q_rho q_xi q_gamma q_eta q_theta q_ep q_resid q_X].
  cbv zeta. cbn [SA SAR eqb div AR zero one mul add sub neg T Base.Arith.sqrt].
  rewrite (R_eqb_false nu Hnunz).
  rewrite !(vdiv_R r0 nu Hnunz). cbn [bind]. fold u.
  rewrite (dotR_ok u u eq_refl). cbn [bind]. fold delta.
  rewrite (R_eqb_false delta Hdeltanz).
  cbn [Nat.ltb Nat.leb bind]. rewrite Eau. cbn [bind].
  rewrite (dotR_ok u au (eq_trans Hu (eq_sym Hau))). cbn [bind]. fold ep.
  rewrite (R_eqb_false ep Hepnz).
  rewrite (R_div_ok2 ep delta Hdeltanz). cbn [bind]. rewrite Hbeta.
  rewrite (R_eqb_false lam Hlam).
  assert (Hlu : length (@vscale_l AR lam u) = n) by exact (eq_trans (vscale_lR_len lam u) Hu).
  assert (Evt : @vsub AR au (@vscale_l AR lam u) = Ok (repeat 0 n)).
  { rewrite vsubR_ok by exact (eq_trans Hau (eq_sym Hlu)).
    f_equal. unfold au, u. rewrite <- Hr0. apply left_vector_vanishes. }
  rewrite Evt. cbn [bind]. rewrite Ewq. cbn [bind].
  rewrite (vsubR_ok wq (@vscale_l AR lam u) (eq_trans Hwq (eq_sym Hlu))). cbn [bind].
  assert (Hrho1 : @norm2 SAR (repeat 0 n) = 0) by exact (@norm2_zeros SAR FLR SAR_SqrtLaws n).
  rewrite Hrho1.
  assert (H1lam : 1 * lam <> 0) by lra.
  rewrite (R_div_ok2 0 (1 * lam) H1lam). cbn [bind].
  assert (Htheta : 0 * / (1 * lam) = 0) by ring. rewrite Htheta.
  assert (Hsq1 : R_sqrt.sqrt (1 + 0 * 0) = 1) by (replace (1 + 0 * 0) with 1 by ring; apply sqrt_1).
  rewrite Hsq1. assert (H11 : (1 : R) <> 0) by lra.
  rewrite (R_div_ok2 1 1 H11). cbn [bind].
  assert (Hg1 : 1 * / 1 <> 0) by (rewrite Rinv_1; lra).
  rewrite (R_eqb_false _ Hg1).
  assert (Hd3 : lam * 1 * 1 <> 0) by lra.
  rewrite (R_div_ok2 _ (lam * 1 * 1) Hd3). cbn [bind].
  set (eta := _ * / (lam * 1 * 1)).
  assert (Heta : eta * lam * / nu = 1) by (unfold eta; rewrite Rinv_1; field; split; auto).
  assert (Heu : length (@vscale_l AR eta u) = n) by exact (eq_trans (vscale_lR_len eta u) Hu).
  assert (Heau : length (@vscale_l AR eta au) = n) by exact (eq_trans (vscale_lR_len eta au) Hau).
  rewrite (vaddR_ok x0 (@vscale_l AR eta u) (eq_trans Hx (eq_sym Heu))). cbn [bind].
  rewrite (vsubR_ok r0 (@vscale_l AR eta au) (eq_trans Hr0 (eq_sym Heau))). cbn [bind].
  assert (Er1 : @zipw AR Rminus r0 (@vscale_l AR eta au) = repeat 0 n).
  { unfold au. rewrite <- Hr0. now apply step_residual_vanishes. }
  rewrite Er1, Hrho1. rewrite (R_div_ok2 0 nb Hnbnz). cbn [bind].
  assert (Hleb : R_leb (0 * / nb) tol = true).
  { unfold R_leb. destruct (Rle_dec (0 * / nb) tol) as [|Hn]; [reflexivity|]. exfalso. apply Hn. lra. }
  cbv zeta. cbn [SA SAR leb AR]. rewrite Hleb. cbn [bind]. do 3 eexists. split; [reflexivity | lia].
Qed.

(* all four solvers *)
Theorem eigen_start_converges_R sv (b x0 ax : list R) lam max tol :
  (forall itol, sv = BiCG itol -> itol = 1%nat \/ itol = 2%nat) ->
  length b = n -> length x0 = n -> mulA x0 = Ok ax ->
  let r0 := @zipw AR Rminus b ax in
  mulA r0 = Ok (@vscale AR r0 lam) -> lam <> 0 -> 0 <= tol -> (1 <= max)%nat ->
  exists k x g, @run SAR mulA mulAT n n sv b x0 max tol = Ok (IOk k, x, g) /\ (k <= 1)%nat.
Proof.
  intros Hit Hb Hx Eax r0 Eeig Hlam Htol Hmax.
  assert (Htol' : @leb SAR zero tol = true).
  { cbn. unfold R_leb. destruct (Rle_dec 0 tol); [reflexivity | contradiction]. }
  destruct (Req_EM_T (@dot_raw AR r0 r0) 0) as [Hz|Hnz].
  - (* r0 = 0: the guess is exact *)
    assert (Hax : length ax = n) by (destruct (@lo_ok AR n mulA LO x0 Hx) as (w & Ew & Hw); rewrite Eax in Ew; injection Ew as ->; exact Hw).
    assert (Hr0 : length r0 = n).
    { unfold r0. apply eq_trans with (length b); [|exact Hb]. apply (@zipw_length SAR). exact (eq_trans Hb (eq_sym Hax)). }
    assert (Hz' : r0 = repeat 0 n).
    { etransitivity; [exact (dot_self_zero r0 Hz)|]. f_equal. exact Hr0. }
    destruct (@run_exact_guess SAR FLR SAR_SqrtLaws n mulA mulAT LO sv b x0 max tol ax Hit Hb Hx Eax Hz' Htol') as (g & Hg).
    exists 0%nat, x0, g. split; [exact Hg | lia].
  - destruct sv as [|itol| |]; cbn [run].
    + exact (@cg_eigen_one_step SAR FLR SAR_SqrtLaws n mulA LO b x0 ax lam tol Hb Hx Eax Eeig Hlam Hnz Htol' max Hmax).
    + exact (@bicg_eigen_one_step SAR FLR SAR_SqrtLaws n mulA mulAT LO TOT b x0 ax lam tol Hb Hx Eax Eeig Hlam Hnz Htol'
               itol max (Hit itol eq_refl) Hmax).
    + exact (@bicgstab_eigen_one_step SAR FLR SAR_SqrtLaws n mulA LO b x0 ax lam tol Hb Hx Eax Eeig Hlam Hnz Htol' max Hmax).
    + exact (qmr_eigen_one_step b x0 ax lam max tol Hb Hx Eax Eeig Hlam Hnz Htol Hmax).
Qed.

End OneStepR.

(* (d) every 1 x 1 system: a linear map on R^1 is multiplication by a number a; if a <> 0 every solver answers Ok
   within one iteration, for every right-hand side, guess, tol >= 0 and budget >= 1 *)
Theorem one_by_one_converges_R (mulA mulAT : list R -> res (list R)) (a : R) sv (b x0 : list R) max tol :
  @LinOp AR 1 mulA -> (forall v, length v = 1%nat -> exists w, mulAT v = Ok w /\ length w = 1%nat) ->
  mulA [1] = Ok [a] -> a <> 0 ->
  (forall itol, sv = BiCG itol -> itol = 1%nat \/ itol = 2%nat) ->
  length b = 1%nat -> length x0 = 1%nat -> 0 <= tol -> (1 <= max)%nat ->
  exists k x g, @run SAR mulA mulAT 1 1 sv b x0 max tol = Ok (IOk k, x, g) /\ (k <= 1)%nat.
Proof.
  intros LO TOT Ea Ha Hit Hb Hx Htol Hmax.
  destruct (@lo_ok AR 1%nat mulA LO x0 Hx) as (ax & Eax & Hax).
  apply (eigen_start_converges_R 1%nat mulA mulAT LO TOT sv b x0 ax a max tol); auto.
  (* every vector of R^1 is an eigenvector *)
  destruct b as [|b1 [|]]; try discriminate Hb. destruct ax as [|a1 [|]]; try discriminate Hax.
  change (@zipw AR Rminus [b1] [a1]) with [b1 - a1].
  pose proof (@lo_scale AR 1%nat mulA LO (b1 - a1) [1] [a] eq_refl Ea) as E.
  change (@vscale AR [1] (b1 - a1)) with [1 * (b1 - a1)] in E.
  change (@vscale AR [a] (b1 - a1)) with [a * (b1 - a1)] in E.
  change (@vscale AR [b1 - a1] a) with [(b1 - a1) * a].
  replace (1 * (b1 - a1)) with (b1 - a1) in E by ring.
  replace ((b1 - a1) * a) with (a * (b1 - a1)) by ring. exact E.
Qed.

(* for the implementation's matrix type: an eigenvector start converges in one step, for all four solvers *)
Theorem eigen_start_converges_sparse_R sv (s : sparse AR) (b x0 : list R) lam max tol :
  wfS s -> sp_rows s = sp_cols s ->
  (forall itol, sv = BiCG itol -> itol = 1%nat \/ itol = 2%nat) ->
  length b = sp_rows s -> length x0 = sp_rows s ->
  let r0 := @zipw AR Rminus b (@sp_apply AR s x0) in
  @sp_apply AR s r0 = @vscale AR r0 lam -> lam <> 0 -> 0 <= tol -> (1 <= max)%nat ->
  exists k x g, @run_sparse SAR sv s b x0 max tol = Ok (IOk k, x, g) /\ (k <= 1)%nat.
Proof.
  intros Hwf Hsq Hit Hb Hx r0 Eeig Hlam Htol Hmax.
  pose proof (sp_mul_LinOp AR_RingLaws s (sp_rows s) Hwf eq_refl (eq_sym Hsq)) as LO.
  pose proof (sp_tmul_LinOp AR_RingLaws s (sp_rows s) Hwf eq_refl (eq_sym Hsq)) as LOT.
  assert (Eax : @sp_mul AR s x0 = Ok (@sp_apply AR s x0)).
  { apply (sp_mul_spec_lemma AR_RingLaws); auto. exact (eq_trans Hx Hsq). }
  assert (Hr0 : length r0 = sp_rows s).
  { unfold r0. apply eq_trans with (length b); [|exact Hb]. apply (@zipw_length SAR).
    unfold sp_apply. rewrite dmulv_length. exact Hb. }
  assert (Eeig' : @sp_mul AR s r0 = Ok (@vscale AR r0 lam)).
  { rewrite <- Eeig. apply (sp_mul_spec_lemma AR_RingLaws); auto. exact (eq_trans Hr0 Hsq). }
  destruct (eigen_start_converges_R (sp_rows s) (@sp_mul AR s) (@sp_tmul AR s) LO (@lo_ok AR _ _ LOT)
              sv b x0 (@sp_apply AR s x0) lam max tol Hit Hb Hx Eax Eeig' Hlam Htol Hmax) as (k & x & g & H & Hk).
  exists k, x, g. split; [|exact Hk].
  assert (E : forall c, c = sp_rows s ->
            @run SAR (@sp_mul AR s) (@sp_tmul AR s) (sp_rows s) c sv b x0 max tol = Ok (IOk k, x, g)) by (intros c ->; exact H).
  exact (E _ (eq_sym Hsq)).
Qed.
