(* Proofs/SolveC.v -- the complex-number instance: Model/Complex.v's operators (the code's own formulas
   for * and /, Signed::abs = (|z|, 0), the lexicographic PartialOrd) over the real instance AR.
   They form a field, the magnitude rule satisfies PivLaws, hence the solve_basic theorems hold for
   systems over C: the idealisation of the Complex<f64> element type.  Package c01. *)
From Coq Require Import List Arith Lia Reals Lra RealField Bool.
From OV Require Import Base.Panic Base.Arith Model.Vector Model.Matrix Model.Complex Model.Solve
  Proofs.Matrix Proofs.SolveBase Proofs.SolveBack Proofs.SolveGauss Proofs.Solve Proofs.SolveComplete Proofs.SolveR.
Import ListNotations.

Definition SAR : SArith := {| SA := AR; sqrt := R_sqrt.sqrt; of_nat := INR |}.
Definition ACR : Arith := CArith SAR.

Local Open Scope R_scope.

Definition C_inv (w : cplx AR) : cplx AR :=
  let den := re w * re w + im w * im w in mkC (A:=AR) (re w / den) (- im w / den).

Lemma cplx_eq (z w : cplx AR) : re z = re w -> im z = im w -> z = w.
Proof. destruct z, w; cbn; intros -> ->; reflexivity. Qed.

Lemma sq_sum_zero (c d : R) : c * c + d * d = 0 -> c = 0 /\ d = 0.
Proof. intros H. split; nra. Qed.

Lemma cplx_nonzero_den (w : cplx AR) : w <> (zero : ACR) -> re w * re w + im w * im w <> 0.
Proof.
  intros N H. apply sq_sum_zero in H as [H1 H2]. apply N. apply cplx_eq; cbn; auto.
Qed.

Lemma ACR_field : field_theory (@zero ACR) one add mul sub neg (fun x y => mul x (C_inv y)) C_inv eq.
Proof.
  split.
  - split; intros; apply cplx_eq; cbn; ring.
  - intros H. apply (f_equal re) in H. cbn in H. lra.
  - reflexivity.
  - intros p N. pose proof (cplx_nonzero_den p N) as D.
    apply cplx_eq; cbn; field; exact D.
Qed.

Lemma R_eqb_true (x y : R) : R_eqb x y = true <-> x = y.
Proof. unfold R_eqb. destruct (Req_EM_T x y); split; congruence. Qed.

Definition ACR_FieldLaws : FieldLaws ACR.
Proof.
  refine {| fl_inv := C_inv : ACR -> ACR; fl_field := ACR_field |}.
  - intros [a b] [c d]. cbn. unfold ceqb. cbn. rewrite andb_true_iff, !R_eqb_true. split.
    + intros [H1 H2]. now apply cplx_eq.
    + intros H. injection H as -> ->. auto.
  - intros [a b] [c d]. cbn. unfold cdiv, ceqb, C_inv, cmul. cbn. unfold R_div.
    destruct (R_eqb (c * c + d * d) 0) eqn:E.
    + apply R_eqb_true in E. apply sq_sum_zero in E as [H1 H2].
      rewrite (proj2 (R_eqb_true c 0) H1), (proj2 (R_eqb_true d 0) H2). reflexivity.
    + cbn.
      assert (D : c * c + d * d <> 0).
      { intros H. apply R_eqb_true in H. congruence. }
      assert (N : R_eqb c 0 && R_eqb d 0 = false).
      { destruct (R_eqb c 0) eqn:E1; cbn; auto. destruct (R_eqb d 0) eqn:E2; auto.
        apply R_eqb_true in E1, E2. exfalso. apply D. rewrite E1, E2. ring. }
      rewrite N. f_equal. apply cplx_eq; cbn; field; exact D.
Defined.

Lemma ACR_PivLaws : PivLaws ACR.
Proof.
  assert (S0 : forall a b : R, R_sqrt.sqrt (a * a + b * b) = 0 <-> a = 0 /\ b = 0).
  { intros a b. split.
    - intros H. apply sqrt_eq_0 in H; [|nra]. now apply sq_sum_zero.
    - intros [-> ->]. replace (0 * 0 + 0 * 0) with 0 by ring. apply sqrt_0. }
  split.
  - intros [a b]. cbn. unfold abs_sqr, czero. cbn. split.
    + intros H. injection H as H. apply S0 in H as [-> ->]. reflexivity.
    + intros H. injection H as -> ->. f_equal. apply S0. auto.
  - intros [a b] N. cbn. unfold cltb, abs_sqr. cbn.
    assert (P : 0 < R_sqrt.sqrt (a * a + b * b)).
    { destruct (sqrt_pos (a * a + b * b)) as [L|E]; auto.
      exfalso. apply N. symmetry in E. apply S0 in E as [-> ->]. reflexivity. }
    assert (E : R_eqb 0 (R_sqrt.sqrt (a * a + b * b)) = false).
    { destruct (R_eqb 0 _) eqn:E; auto. apply R_eqb_true in E. lra. }
    rewrite E. cbn. unfold R_ltb. destruct (Rlt_dec 0 _); auto.
  - intros [a b]. cbn. unfold cltb, abs_sqr. cbn.
    pose proof (sqrt_pos (a * a + b * b)) as P.
    destruct (R_eqb (R_sqrt.sqrt (a * a + b * b)) 0); cbn;
      unfold R_ltb; destruct (Rlt_dec _ _); auto; lra.
Qed.

Close Scope R_scope.

Lemma solve_basic_correct_C_lemma (M : matrix ACR) (b : list ACR) :
  wf M -> rows M = cols M -> length b = rows M -> 1 <= rows M ->
  (exists N : nat -> nat -> ACR, left_inverse (rows M) N (ent M)) ->
  exists x, solve_basic M b = Ok x /\ length x = rows M /\
    (forall i, i < rows M -> mvprod (rows M) (ent M) (fun k => nth k x zero) i = nth i b zero) /\
    (forall y, length y = rows M ->
       (forall i, i < rows M -> mvprod (rows M) (ent M) (fun k => nth k y zero) i = nth i b zero) -> y = x).
Proof.
  intros W Hsq Lb Hn LI.
  destruct (solve_basic_complete_lemma ACR_FieldLaws ACR_PivLaws M b W Hsq Lb Hn LI) as (x & E).
  destruct (solve_basic_sound_lemma ACR_FieldLaws M b x W Hsq Lb E) as (Lx & S).
  exists x. repeat split; auto.
  intros y Ly Sy. apply (solutions_unique_lemma ACR_FieldLaws M b y x LI Ly Lx Sy S).
Qed.
