(* Proofs/ParSchedRefuted.v -- the REFUTED variant of Model/ParSched.v (second-round seeded mutation C16-4: the
   partial sums are added into a shared Mutex<f64> in COMPLETION order) does depend on the schedule: two maximal
   executions of the same program on the same data, differing only in which of two workers finishes first, return
   different binary64 values.  Proved by running both schedules on Coq's primitive floats (vm_compute).
   Data: v = [2^53; 1; -2^53], w = [1; 1; 1], three workers (one element each):
     completion order 0,1,2:  ((0 + 2^53) + 1) - 2^53 = 0      (2^53 + 1 rounds to 2^53)
     completion order 0,2,1:  ((0 + 2^53) - 2^53) + 1 = 1
   The same two interleavings of the REAL program (handles joined in spawn order) both return 0. *)
From Coq Require Import List Arith Floats ZArith.
From OV Require Import Base.Panic Base.Arith Model.Vector Model.ParDot Model.ParSched Inst.FloatInst.
Import ListNotations.

Definition cx_v : list AF := [9007199254740992; 1; -9007199254740992]%float.
Definition cx_w : list AF := [1; 1; 1]%float.

(* spawn all three; worker 0 runs to completion; then 1 then 2 (resp. 2 then 1); the scope ends *)
Definition cx_sch1 : list tid := [Main; Main; Main; Wk 0; Wk 0; Wk 1; Wk 1; Wk 2; Wk 2; Main].
Definition cx_sch2 : list tid := [Main; Main; Main; Wk 0; Wk 0; Wk 2; Wk 2; Wk 1; Wk 1; Main].

Definition shared_result (o : option (@sstate AF)) : option (res AF) :=
  match o with Some s => match s_main s with MRet r => Some r | _ => None end | None => None end.

Lemma shared_terminal_3 (s : @sstate AF) r x0 x1 x2 :
  s_main s = MRet r -> s_ws s = [WDone x0; WDone x1; WDone x2] -> terminal_shared cx_v cx_w 3 s.
Proof.
  intros Hm Hw th. destruct s as [m l tot]. cbn [s_main s_ws] in *. subst m l.
  destruct th as [|[|[|[|[|k]]]]]; reflexivity.
Qed.

Lemma float_0_neq_1 : (0 <> 1)%float.
Proof. intros E. apply (f_equal (fun x => PrimFloat.eqb x 1)) in E. vm_compute in E. discriminate. Qed.

Lemma completion_order_refuted_lemma :
  exists (v w : list AF) (t : nat) (sch1 sch2 : list tid) (s1 s2 : @sstate AF) (r1 r2 : AF),
    1 <= t /\ length v = length w /\
    exec_shared v w t sch1 (shared_init t) = Some s1 /\ terminal_shared v w t s1 /\ s_main s1 = MRet (Ok r1) /\
    exec_shared v w t sch2 (shared_init t) = Some s2 /\ terminal_shared v w t s2 /\ s_main s2 = MRet (Ok r2) /\
    r1 <> r2.
Proof.
  exists cx_v, cx_w, 3, cx_sch1, cx_sch2.
  destruct (exec_shared cx_v cx_w 3 cx_sch1 (shared_init 3)) as [s1|] eqn:E1; [|vm_compute in E1; discriminate].
  destruct (exec_shared cx_v cx_w 3 cx_sch2 (shared_init 3)) as [s2|] eqn:E2; [|vm_compute in E2; discriminate].
  vm_compute in E1, E2. injection E1 as <-. injection E2 as <-.
  eexists _, _, 0%float, 1%float.
  split; [auto with arith|]. split; [reflexivity|].
  split; [reflexivity|]. split; [eapply shared_terminal_3; reflexivity|]. split; [reflexivity|].
  split; [reflexivity|]. split; [eapply shared_terminal_3; reflexivity|]. split; [reflexivity|].
  exact float_0_neq_1.
Qed.

(* the same data under the REAL program: the same two completion orders (plus the join loop) agree *)
Definition cx_real1 : list tid := cx_sch1 ++ [Main; Main; Main; Main].
Definition cx_real2 : list tid := [Main; Main; Main; Wk 0; Wk 0; Wk 2; Wk 2; Wk 1; Wk 1; Main; Main; Main; Main; Main].
(* a finer interleaving: workers start while main is still spawning; main joins 0 while 1 and 2 still run *)
Definition cx_real3 : list tid := [Main; Wk 0; Main; Wk 0; Wk 1; Main; Wk 2; Main; Wk 2; Main; Wk 1; Main; Main; Main].

Definition real_result (o : option (@state AF)) : option (res AF) :=
  match o with Some s => match main s with MRet r => Some r | _ => None end | None => None end.

Lemma real_agree_on_cx :
  real_result (exec cx_v cx_w 3 cx_real1 (sched_init 3)) = Some (Ok 0%float) /\
  real_result (exec cx_v cx_w 3 cx_real2 (sched_init 3)) = Some (Ok 0%float) /\
  real_result (exec cx_v cx_w 3 cx_real3 (sched_init 3)) = Some (Ok 0%float) /\
  completions cx_v cx_w 3 cx_real1 (sched_init 3) = [0; 1; 2] /\
  completions cx_v cx_w 3 cx_real2 (sched_init 3) = [0; 2; 1] /\
  completions cx_v cx_w 3 cx_real3 (sched_init 3) = [0; 2; 1] /\
  pardot (A := AF) 3 cx_v cx_w = Ok 0%float.
Proof. repeat split; vm_compute; reflexivity. Qed.
