(* Proofs/SparseHist.v -- C06: well-formedness is preserved by insert, scale and transpose, hence by
   every finite history of modifying operations. *)
From Coq Require Import List Arith Lia Bool Permutation.
From OV Require Import Base.Panic Base.Arith Model.Vector Model.Matrix Model.Sparse
                       Proofs.SparseBase Proofs.SparseMul Proofs.SparseWf.
Import ListNotations.

Lemma foldM_inv_partial {S X} (I : S -> Prop) (f : S -> X -> res S) l s s' :
  I s -> (forall s x s1, I s -> In x l -> f s x = Ok s1 -> I s1) -> foldM f l s = Ok s' -> I s'.
Proof.
  revert s; induction l as [|x t IH]; intros s Hs H E; cbn in E.
  - injection E as <-. auto.
  - apply bind_ok in E as (s1 & E1 & E2). apply (IH s1); auto.
    + apply (H s x); auto. left; auto.
    + intros s0 y s2 H0 Hy. apply H; auto. right; auto.
Qed.

Section Hist.
Context {A : Arith}.
Notation T := (T A).
Notation sparse := (sparse A).

(* ---------- insert ---------- *)
Lemma sp_insert_wf (s : sparse) i j (v : T) s' : wfS s -> sp_insert s i j v = Ok s' ->
  wfS s' /\ sp_rows s' = sp_rows s /\ sp_cols s' = sp_cols s.
Proof.
  intros Hwf E. unfold sp_insert in E.
  destruct (Nat.leb_spec (sp_rows s) i); [discriminate|].
  destruct (Nat.leb_spec (sp_cols s) j); [discriminate|].
  destruct (length (sp_col_start s) <=? j); [discriminate|].
  apply bind_ok in E as (ci & Eci & E). apply bind_ok in E as (hit & Ehit & E).
  destruct hit as [k|].
  - apply bind_ok in E as (v' & Ev & E). injection E as <-. apply upd_Ok_inv in Ev as [Hk ->].
    destruct Hwf as (H1 & H2 & H3 & H4 & H5 & H6 & H7).
    unfold wfS; cbn [sp_rows sp_cols sp_nonzero sp_val sp_row_index sp_col_start].
    rewrite upd_list_length. tauto.
  - apply bind_ok in E as (ts & Ets & E). rewrite sp_to_triplets_ok in Ets by auto. injection Ets as <-.
    destruct (from_triplets_wf_lemma (sp_rows s) (sp_cols s) (ents s ++ [(i, j, v)])) as (s'' & E'' & Hwf'' & Hr & Hc & _).
    { intros t Ht. apply in_app_or in Ht as [Ht|[<-|[]]].
      - now apply ents_in_range.
      - unfold trow, tcol; cbn; lia. }
    rewrite E'' in E. injection E as <-. auto.
Qed.

(* ---------- transpose ---------- *)
Lemma wf_ri_lt (s : sparse) x : wfS s -> In x (sp_row_index s) -> x < sp_rows s.
Proof.
  intros (_ & _ & _ & _ & _ & Hri & Hr) Hx.
  apply (In_nth _ _ 0) in Hx as (k & Hk & <-). apply Hr. lia.
Qed.

Lemma transpose_count_loop (s : sparse) : wfS s ->
  exists count,
    for_cols (sp_col_start s) (sp_cols s) (fun _ => Ok tt)
      (fun _ _ j count => let* r := rd (sp_row_index s) j in let* c := rd count r in upd count r (c + 1))
      (repeat 0 (sp_rows s)) = Ok count /\
    length count = sp_rows s /\ forall j, nth j count 0 = cnt (sp_row_index s) j.
Proof.
  intros Hwf.
  rewrite (for_cols_foldM _ _ _ (fun _ => tt)); auto using wf_length_cs.
  rewrite (foldM_ext_in _ (fun count jk => inc count (nth (snd jk) (sp_row_index s) 0))).
  2:{ intros count jk Hin. destruct (wf_visit_lt s jk Hwf Hin) as [_ Hk].
      destruct Hwf as (_ & _ & _ & _ & _ & Hri & _). cbn beta.
      rewrite (rd_ok _ _ 0) by lia. reflexivity. }
  rewrite <- (foldM_map inc (fun jk => nth (snd jk) (sp_row_index s) 0)).
  rewrite <- (map_map snd (fun k => nth k (sp_row_index s) 0)), wf_visits_snd by auto.
  assert (Hri : length (sp_row_index s) = sp_nonzero s) by (destruct Hwf as (_ & _ & _ & _ & _ & Hri & _); auto).
  rewrite <- Hri, map_nth_seq.
  destruct (count_fold (sp_row_index s) (repeat 0 (sp_rows s))) as (count & E & Hl & Hn).
  { intros x Hx. rewrite repeat_length. now apply wf_ri_lt. }
  exists count. rewrite repeat_length in Hl. split; auto. split; auto.
  intros j. rewrite Hn, nth_repeat. reflexivity.
Qed.

Lemma transpose_starts_loop ks rows (count : list nat) :
  length count = rows -> (forall j, nth j count 0 = cnt ks j) ->
  exists acs,
    for_ 0 rows (fun j acs => let* a := rd acs j in let* c := rd count j in upd acs (j + 1) (a + c))
         (repeat 0 (rows + 1)) = Ok acs /\
    length acs = rows + 1 /\ forall j, j <= rows -> nth j acs 0 = below ks j.
Proof.
  intros Hl Hc.
  destruct (for_inv (fun k acs => length acs = rows + 1 /\ forall j, j <= k -> nth j acs 0 = below ks j)
            0 rows (fun j acs => let* a := rd acs j in let* c := rd count j in upd acs (j + 1) (a + c))
            (repeat 0 (rows + 1))) as (acs & E & H1 & H2).
  - lia.
  - split; [apply repeat_length|]. intros j Hj. replace j with 0 by lia. rewrite nth_repeat. now rewrite below_0.
  - intros k acs Hk (H1 & H2).
    rewrite (rd_ok acs k 0) by lia. cbn [bind]. rewrite (rd_ok count k 0) by lia. cbn [bind].
    rewrite upd_ok by lia. eexists; split; [reflexivity|]. rewrite upd_list_length. split; auto.
    intros j Hj. rewrite nth_upd_list by lia.
    destruct (Nat.eqb_spec j (k + 1)) as [->|Hne].
    + rewrite H2, Hc, below_S by lia. reflexivity.
    + apply H2. lia.
  - exists acs. auto.
Qed.

Lemma sp_transpose_wf (s s' : sparse) : wfS s -> sp_transpose s = Ok s' ->
  wfS s' /\ sp_rows s' = sp_cols s /\ sp_cols s' = sp_rows s.
Proof.
  intros Hwf E. unfold sp_transpose in E.
  destruct (transpose_count_loop s Hwf) as (count & Ec & Hcl & Hcn). rewrite Ec in E. cbn [bind] in E.
  destruct (transpose_starts_loop (sp_row_index s) (sp_rows s) count Hcl Hcn) as (acs & Ea & Hal & Han).
  rewrite Ea in E. cbn [bind] in E.
  apply bind_ok in E as (st & Est & E). injection E as <-.
  rewrite (for_cols_foldM _ _ _ (fun _ => tt)) in Est; auto using wf_length_cs.
  assert (Hst : length (t_ri st) = sp_nonzero s /\ length (t_val st) = sp_nonzero s /\
                forall k, k < sp_nonzero s -> nth k (t_ri st) 0 < sp_cols s).
  { refine (foldM_inv_partial (fun st => length (t_ri st) = sp_nonzero s /\ length (t_val st) = sp_nonzero s /\
                forall k, k < sp_nonzero s -> nth k (t_ri st) 0 < sp_cols s) _ _ _ st _ _ Est).
    - cbn [t_ri t_val]. rewrite !repeat_length. repeat split; auto.
      intros k Hk. rewrite nth_repeat.
      destruct Hwf as (_ & H0 & _ & Hn & _). destruct (sp_cols s); [|lia]. rewrite H0 in Hn. lia.
    - intros st0 jk st1 (H1 & H2 & H3) Hin Ebody.
      apply bind_ok in Ebody as (k & _ & Ebody). apply bind_ok in Ebody as (a & _ & Ebody).
      apply bind_ok in Ebody as (c & _ & Ebody). apply bind_ok in Ebody as (ri' & Eri & Ebody).
      apply bind_ok in Ebody as (v & _ & Ebody). apply bind_ok in Ebody as (val' & Eval & Ebody).
      apply bind_ok in Ebody as (count' & _ & Ebody). injection Ebody as <-. cbn [t_ri t_val].
      apply upd_Ok_inv in Eri as [Hi1 ->]. apply upd_Ok_inv in Eval as [Hi2 ->].
      rewrite !upd_list_length. repeat split; auto.
      intros k0 Hk0. rewrite nth_upd_list by auto.
      destruct (k0 =? a + c); auto. now apply (wf_visit_lt s jk Hwf). }
  destruct Hst as (Hs1 & Hs2 & Hs3).
  assert (Hri : length (sp_row_index s) = sp_nonzero s) by (destruct Hwf as (_ & _ & _ & _ & _ & Hri & _); auto).
  split; [|cbn; auto].
  unfold wfS. cbn [sp_rows sp_cols sp_nonzero sp_val sp_row_index sp_col_start].
  repeat split; auto.
  - rewrite Han by lia. apply below_0.
  - intros j Hj. rewrite !Han by lia. rewrite below_S. lia.
  - rewrite Han by lia. rewrite below_all; auto. intros x Hx. now apply wf_ri_lt.
Qed.

(* ---------- histories ---------- *)
Lemma sp_step_wf (s s' : sparse) o : wfS s -> sp_step s o = Ok s' -> wfS s'.
Proof.
  intros Hwf E. destruct o as [i j v|v|]; cbn [sp_step] in E.
  - eapply sp_insert_wf; eauto.
  - eapply sp_scale_wf; eauto.
  - eapply sp_transpose_wf; eauto.
Qed.

Theorem wfS_history_lemma (ops : list (sop A)) (s : sparse) : wfS s -> forall s', sp_run ops s = Ok s' -> wfS s'.
Proof.
  unfold sp_run. revert s. induction ops as [|o ops IH]; intros s Hwf s' E; cbn [foldM] in E.
  - injection E as <-. auto.
  - apply bind_ok in E as (s1 & E1 & E2). apply (IH s1); auto. eapply sp_step_wf; eauto.
Qed.

End Hist.
