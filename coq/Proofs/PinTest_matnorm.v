(* Proofs/PinTest_matnorm.v -- GENERATED: the import lines of Props/C03.v (same order) followed by exactly the blocks
   of Props/pending/C03_matnorm.v.txt, to prove that the pending blocks compile in the context they will be appended to. *)
From Coq Require Import List Arith Lia Bool ZArith Reals.
From OV Require Import Base.Panic Base.Arith Model.Vector Model.Matrix Model.MatOps Inst.QcInst.
From OV Require Import Proofs.Matrix Proofs.MatrixArith Proofs.MatrixSpec Model.MatNorms Proofs.MatrixExt Proofs.MatrixRefine Proofs.MatrixRefineRead Proofs.MatNorms Proofs.MatNormsR Legacy.C03Refuted.
Import ListNotations.
Local Open Scope nat_scope.
From OV Require Proofs.SrcEqMatrix.
From OV Require Proofs.SrcEqMatArith.
From OV Require Proofs.SrcEqMatNorms.
From OV Require Proofs.SrcEqWrapMatrix.
From Coq Require Import Reals Floats Lra Lia.
From OV Require Import Base.RoundModel Proofs.Matrix Proofs.RoundDot Proofs.RoundMatvec Proofs.RoundFlx Proofs.ComplexRound
  Proofs.RoundDotFloat Inst.FloatInst.
From OV Require Import Proofs.RoundMatmul.

(* ======================================================================================================
   C03 (dense matrix algebra), norm laws -- package matnorm.  Append to Props/C03.v.
   Proofs: Proofs/MatNormLawsBase.v (real sums, maxima), MatNormLawsP.v (norm_p with 0^p = 0), MatNormLawsAx.v (norm
   axioms, transpose), MatNormLawsMink.v (Minkowski), MatNormLawsMul.v (products), MatNormLawsMore.v (subtraction, comparison, monotonicity in p, identity),
   MatNormLawsRound.v (standard model),
   MatNormLawsFloat.v / MatNormLawsFloatOrd.v (the binary64 instance through Flocq), MatNormLawsStruct.v (structure, every arithmetic).
   All over the real instance [MatNormsR.AR]/[MatNormsR.SAR] of the model functions (the rounding block: the
   standard-model instance against it; the float block: the binary64 instance against it).  Assumptions: the four
   standard real-number/classical axioms, as for [norms_real]; the float block adds Coq's primitive float/int constants and their
   specification axioms (as matvec_backward_error_float above); the four structural theorems and [float_order_laws] need fewer.
   ====================================================================================================== *)
From Coq Require Import Reals Lra Lia.
From OV Require Import Base.RoundModel Proofs.RoundFlx.
From OV Require Proofs.RoundNorm2 Proofs.MatNormLawsBase Proofs.MatNormLawsP Proofs.MatNormLawsAx Proofs.MatNormLawsMink
  Proofs.MatNormLawsMul Proofs.MatNormLawsMore Proofs.MatNormLawsRound Proofs.MatNormLawsFloat Proofs.MatNormLawsFloatOrd Proofs.MatNormLawsStruct.

(* ---------- norm_p with a power function that is right at zero (package matnorm) ----------
   [MatNormLawsP.pw x p] = if x = 0 then 0 else Rpower x p : the real power with 0^p = 0, which is what libm's pow returns
   for p > 0; Coq's Rpower 0 p is 1.  With it the model's norm_p is (Sum_k |a_k|^p)^(1/p) on EVERY matrix, zero entries
   included; the Rpower clause of [norms_real] above describes the code only on matrices without zero entries. *)
Theorem norm_p_real : (forall (m : matrix MatNormsR.AR) (p : R), Proofs.Matrix.wf m -> 0 < p ->
  mnorm_p (S:=MatNormsR.SAR) (fun x => MatNormLawsP.pw x p) (fun s => MatNormLawsP.pw s (1 / p)) m =
    Ok (MatNormLawsP.pw (MatNormLawsBase.Rs (length (buf m)) (fun k => MatNormLawsP.pw (Rabs (nth k (buf m) 0)) p)) (1 / p)))%R.
Proof. exact MatNormLawsP.norm_p_real_lemma. Qed.
Check norm_p_real : (forall (m : matrix MatNormsR.AR) (p : R), Proofs.Matrix.wf m -> 0 < p ->
  mnorm_p (S:=MatNormsR.SAR) (fun x => MatNormLawsP.pw x p) (fun s => MatNormLawsP.pw s (1 / p)) m =
    Ok (MatNormLawsP.pw (MatNormLawsBase.Rs (length (buf m)) (fun k => MatNormLawsP.pw (Rabs (nth k (buf m) 0)) p)) (1 / p)))%R.
Print Assumptions norm_p_real.
Example norm_p_real_nonvacuous :
  Proofs.Matrix.wf (mkM (A:=MatNormsR.AR) [1%R; (-2)%R; 0%R; 4%R; 0%R; (-5)%R] 2 3) /\ (0 < 3)%R.
Proof. split; [reflexivity|lra]. Qed.

(* p = 1: the entrywise 1-norm *)
Theorem norm_p_real_1 : (forall (m : matrix MatNormsR.AR), Proofs.Matrix.wf m ->
  mnorm_p (S:=MatNormsR.SAR) (fun x => MatNormLawsP.pw x 1) (fun s => MatNormLawsP.pw s (1 / 1)) m =
    Ok (MatNormLawsBase.Rs (length (buf m)) (fun k => Rabs (nth k (buf m) 0))))%R.
Proof. exact MatNormLawsP.norm_p_real_1_lemma. Qed.
Check norm_p_real_1 : (forall (m : matrix MatNormsR.AR), Proofs.Matrix.wf m ->
  mnorm_p (S:=MatNormsR.SAR) (fun x => MatNormLawsP.pw x 1) (fun s => MatNormLawsP.pw s (1 / 1)) m =
    Ok (MatNormLawsBase.Rs (length (buf m)) (fun k => Rabs (nth k (buf m) 0))))%R.
Print Assumptions norm_p_real_1.
Example norm_p_real_1_nonvacuous :
  Proofs.Matrix.wf (mkM (A:=MatNormsR.AR) [1%R; (-2)%R; 0%R; 4%R; 0%R; (-5)%R] 2 3).
Proof. reflexivity. Qed.

(* p = 2: norm_p(2) and norm_frob are the same number (sqrt of the sum of squares, by [norms_real]) *)
Theorem norm_p_real_2 : (forall (m : matrix MatNormsR.AR), Proofs.Matrix.wf m ->
  mnorm_p (S:=MatNormsR.SAR) (fun x => MatNormLawsP.pw x 2) (fun s => MatNormLawsP.pw s (1 / 2)) m = mnorm_frob (S:=MatNormsR.SAR) m)%R.
Proof. exact MatNormLawsP.norm_p_real_2_lemma. Qed.
Check norm_p_real_2 : (forall (m : matrix MatNormsR.AR), Proofs.Matrix.wf m ->
  mnorm_p (S:=MatNormsR.SAR) (fun x => MatNormLawsP.pw x 2) (fun s => MatNormLawsP.pw s (1 / 2)) m = mnorm_frob (S:=MatNormsR.SAR) m)%R.
Print Assumptions norm_p_real_2.
Example norm_p_real_2_nonvacuous :
  Proofs.Matrix.wf (mkM (A:=MatNormsR.AR) [1%R; (-2)%R; 0%R; 4%R; 0%R; (-5)%R] 2 3).
Proof. reflexivity. Qed.

(* norm_max <= norm_p <= (rows*cols)^(1/p) * norm_max, every p > 0 *)
Theorem norm_p_real_bounds : (forall (m : matrix MatNormsR.AR) (p : R), Proofs.Matrix.wf m -> 0 < p ->
  exists Np Nm, mnorm_p (S:=MatNormsR.SAR) (fun x => MatNormLawsP.pw x p) (fun s => MatNormLawsP.pw s (1 / p)) m = Ok Np /\
                mnorm_max (S:=MatNormsR.SAR) m = Ok Nm /\
                Nm <= Np /\ Np <= MatNormLawsP.pw (INR (rows m * cols m)) (1 / p) * Nm)%R.
Proof. exact MatNormLawsP.norm_p_real_bounds_lemma. Qed.
Check norm_p_real_bounds : (forall (m : matrix MatNormsR.AR) (p : R), Proofs.Matrix.wf m -> 0 < p ->
  exists Np Nm, mnorm_p (S:=MatNormsR.SAR) (fun x => MatNormLawsP.pw x p) (fun s => MatNormLawsP.pw s (1 / p)) m = Ok Np /\
                mnorm_max (S:=MatNormsR.SAR) m = Ok Nm /\
                Nm <= Np /\ Np <= MatNormLawsP.pw (INR (rows m * cols m)) (1 / p) * Nm)%R.
Print Assumptions norm_p_real_bounds.
Example norm_p_real_bounds_nonvacuous :
  Proofs.Matrix.wf (mkM (A:=MatNormsR.AR) [1%R; (-2)%R; 0%R; 4%R; 0%R; (-5)%R] 2 3) /\ (0 < / 2)%R.
Proof. split; [reflexivity|lra]. Qed.

(* the 1x1 zero matrix: the Rpower reading of norm_p gives 1 for every p > 0, the pw reading (and libm, and norm_max) 0 *)
Theorem norm_p_Rpower_wrong_at_zero : (forall p : R, 0 < p ->
  Proofs.Matrix.wf (mkM (A:=MatNormsR.AR) [0] 1 1) /\
  mnorm_p (S:=MatNormsR.SAR) (fun x => Rpower x p) (fun s => Rpower s (1 / p)) (mkM (A:=MatNormsR.AR) [0] 1 1) = Ok 1 /\
  mnorm_p (S:=MatNormsR.SAR) (fun x => MatNormLawsP.pw x p) (fun s => MatNormLawsP.pw s (1 / p)) (mkM (A:=MatNormsR.AR) [0] 1 1) = Ok 0 /\
  mnorm_max (S:=MatNormsR.SAR) (mkM (A:=MatNormsR.AR) [0] 1 1) = Ok 0)%R.
Proof. exact MatNormLawsP.norm_p_Rpower_wrong_at_zero_lemma. Qed.
Check norm_p_Rpower_wrong_at_zero : (forall p : R, 0 < p ->
  Proofs.Matrix.wf (mkM (A:=MatNormsR.AR) [0] 1 1) /\
  mnorm_p (S:=MatNormsR.SAR) (fun x => Rpower x p) (fun s => Rpower s (1 / p)) (mkM (A:=MatNormsR.AR) [0] 1 1) = Ok 1 /\
  mnorm_p (S:=MatNormsR.SAR) (fun x => MatNormLawsP.pw x p) (fun s => MatNormLawsP.pw s (1 / p)) (mkM (A:=MatNormsR.AR) [0] 1 1) = Ok 0 /\
  mnorm_max (S:=MatNormsR.SAR) (mkM (A:=MatNormsR.AR) [0] 1 1) = Ok 0)%R.
Print Assumptions norm_p_Rpower_wrong_at_zero.
Example norm_p_Rpower_wrong_at_zero_nonvacuous :
  (0 < 2)%R.
Proof. lra. Qed.

(* ---------- the norm axioms over R for norm_1, norm_inf, norm_max, norm_frob (package matnorm) ----------
   every statement: well-formed operands -> the operations return Ok and the law holds of the returned numbers *)
Theorem matnorm_nonneg : (forall (m : matrix MatNormsR.AR), Proofs.Matrix.wf m ->
  exists n1 ni nx nf, mnorm_1 (S:=MatNormsR.SAR) m = Ok n1 /\ mnorm_inf (S:=MatNormsR.SAR) m = Ok ni /\
    mnorm_max (S:=MatNormsR.SAR) m = Ok nx /\ mnorm_frob (S:=MatNormsR.SAR) m = Ok nf /\
    0 <= n1 /\ 0 <= ni /\ 0 <= nx /\ 0 <= nf)%R.
Proof. exact MatNormLawsAx.matnorm_nonneg_lemma. Qed.
Check matnorm_nonneg : (forall (m : matrix MatNormsR.AR), Proofs.Matrix.wf m ->
  exists n1 ni nx nf, mnorm_1 (S:=MatNormsR.SAR) m = Ok n1 /\ mnorm_inf (S:=MatNormsR.SAR) m = Ok ni /\
    mnorm_max (S:=MatNormsR.SAR) m = Ok nx /\ mnorm_frob (S:=MatNormsR.SAR) m = Ok nf /\
    0 <= n1 /\ 0 <= ni /\ 0 <= nx /\ 0 <= nf)%R.
Print Assumptions matnorm_nonneg.
Example matnorm_nonneg_nonvacuous :
  Proofs.Matrix.wf (mkM (A:=MatNormsR.AR) [1%R; (-2)%R; 0%R; 4%R; 0%R; (-5)%R] 2 3).
Proof. reflexivity. Qed.

(* definiteness: each norm is 0 exactly when every entry is 0 ([MatNormLawsAx.allzero m]: entry m i j = 0 for all i < rows, j < cols);
   true for every shape, the empty ones included (both sides hold) *)
Theorem matnorm_zero_iff : (forall (m : matrix MatNormsR.AR), Proofs.Matrix.wf m ->
  exists n1 ni nx nf, mnorm_1 (S:=MatNormsR.SAR) m = Ok n1 /\ mnorm_inf (S:=MatNormsR.SAR) m = Ok ni /\
    mnorm_max (S:=MatNormsR.SAR) m = Ok nx /\ mnorm_frob (S:=MatNormsR.SAR) m = Ok nf /\
    (n1 = 0 <-> MatNormLawsAx.allzero m) /\ (ni = 0 <-> MatNormLawsAx.allzero m) /\ (nx = 0 <-> MatNormLawsAx.allzero m) /\ (nf = 0 <-> MatNormLawsAx.allzero m))%R.
Proof. exact MatNormLawsAx.matnorm_zero_iff_lemma. Qed.
Check matnorm_zero_iff : (forall (m : matrix MatNormsR.AR), Proofs.Matrix.wf m ->
  exists n1 ni nx nf, mnorm_1 (S:=MatNormsR.SAR) m = Ok n1 /\ mnorm_inf (S:=MatNormsR.SAR) m = Ok ni /\
    mnorm_max (S:=MatNormsR.SAR) m = Ok nx /\ mnorm_frob (S:=MatNormsR.SAR) m = Ok nf /\
    (n1 = 0 <-> MatNormLawsAx.allzero m) /\ (ni = 0 <-> MatNormLawsAx.allzero m) /\ (nx = 0 <-> MatNormLawsAx.allzero m) /\ (nf = 0 <-> MatNormLawsAx.allzero m))%R.
Print Assumptions matnorm_zero_iff.
Example matnorm_zero_iff_nonvacuous :
  Proofs.Matrix.wf (mkM (A:=MatNormsR.AR) [1%R; (-2)%R; 0%R; 4%R; 0%R; (-5)%R] 2 3) /\ MatNormLawsAx.allzero (mat_new (A:=MatNormsR.AR) 2 3 0%R) /\ ~ MatNormLawsAx.allzero (mkM (A:=MatNormsR.AR) [1%R; (-2)%R; 0%R; 4%R; 0%R; (-5)%R] 2 3).
Proof. split; [reflexivity|]. split.
  - intros i j Hi Hj. unfold entry. cbn [mat_new buf cols]. apply nth_repeat_lt. cbn [rows cols mat_new] in *. nia.
  - intros H. specialize (H 0 0). cbn in H. specialize (H ltac:(lia) ltac:(lia)). lra. Qed.

(* absolute homogeneity under the model's scalar multiplications (matrix * s and s * matrix compute the same entries) *)
Theorem matnorm_homogeneous : (forall (m : matrix MatNormsR.AR) (s : R), Proofs.Matrix.wf m ->
  exists m' n1 ni nx nf, mscale (A:=MatNormsR.AR) m s = Ok m' /\ mscale_l (A:=MatNormsR.AR) s m = Ok m' /\
    mnorm_1 (S:=MatNormsR.SAR) m = Ok n1 /\ mnorm_inf (S:=MatNormsR.SAR) m = Ok ni /\
    mnorm_max (S:=MatNormsR.SAR) m = Ok nx /\ mnorm_frob (S:=MatNormsR.SAR) m = Ok nf /\
    mnorm_1 (S:=MatNormsR.SAR) m' = Ok (Rabs s * n1) /\ mnorm_inf (S:=MatNormsR.SAR) m' = Ok (Rabs s * ni) /\
    mnorm_max (S:=MatNormsR.SAR) m' = Ok (Rabs s * nx) /\ mnorm_frob (S:=MatNormsR.SAR) m' = Ok (Rabs s * nf))%R.
Proof. exact MatNormLawsAx.matnorm_homogeneous_lemma. Qed.
Check matnorm_homogeneous : (forall (m : matrix MatNormsR.AR) (s : R), Proofs.Matrix.wf m ->
  exists m' n1 ni nx nf, mscale (A:=MatNormsR.AR) m s = Ok m' /\ mscale_l (A:=MatNormsR.AR) s m = Ok m' /\
    mnorm_1 (S:=MatNormsR.SAR) m = Ok n1 /\ mnorm_inf (S:=MatNormsR.SAR) m = Ok ni /\
    mnorm_max (S:=MatNormsR.SAR) m = Ok nx /\ mnorm_frob (S:=MatNormsR.SAR) m = Ok nf /\
    mnorm_1 (S:=MatNormsR.SAR) m' = Ok (Rabs s * n1) /\ mnorm_inf (S:=MatNormsR.SAR) m' = Ok (Rabs s * ni) /\
    mnorm_max (S:=MatNormsR.SAR) m' = Ok (Rabs s * nx) /\ mnorm_frob (S:=MatNormsR.SAR) m' = Ok (Rabs s * nf))%R.
Print Assumptions matnorm_homogeneous.
Example matnorm_homogeneous_nonvacuous :
  Proofs.Matrix.wf (mkM (A:=MatNormsR.AR) [1%R; (-2)%R; 0%R; 4%R; 0%R; (-5)%R] 2 3).
Proof. reflexivity. Qed.

(* triangle inequality under the model's addition, conformable shapes *)
Theorem matnorm_triangle : (forall (a b : matrix MatNormsR.AR), Proofs.Matrix.wf a -> Proofs.Matrix.wf b -> rows a = rows b -> cols a = cols b ->
  exists s a1 ai ax af b1 bi bx bf s1 si sx sf, madd (A:=MatNormsR.AR) a b = Ok s /\
    mnorm_1 (S:=MatNormsR.SAR) a = Ok a1 /\ mnorm_inf (S:=MatNormsR.SAR) a = Ok ai /\
    mnorm_max (S:=MatNormsR.SAR) a = Ok ax /\ mnorm_frob (S:=MatNormsR.SAR) a = Ok af /\
    mnorm_1 (S:=MatNormsR.SAR) b = Ok b1 /\ mnorm_inf (S:=MatNormsR.SAR) b = Ok bi /\
    mnorm_max (S:=MatNormsR.SAR) b = Ok bx /\ mnorm_frob (S:=MatNormsR.SAR) b = Ok bf /\
    mnorm_1 (S:=MatNormsR.SAR) s = Ok s1 /\ mnorm_inf (S:=MatNormsR.SAR) s = Ok si /\
    mnorm_max (S:=MatNormsR.SAR) s = Ok sx /\ mnorm_frob (S:=MatNormsR.SAR) s = Ok sf /\
    s1 <= a1 + b1 /\ si <= ai + bi /\ sx <= ax + bx /\ sf <= af + bf)%R.
Proof. exact MatNormLawsAx.matnorm_triangle_lemma. Qed.
Check matnorm_triangle : (forall (a b : matrix MatNormsR.AR), Proofs.Matrix.wf a -> Proofs.Matrix.wf b -> rows a = rows b -> cols a = cols b ->
  exists s a1 ai ax af b1 bi bx bf s1 si sx sf, madd (A:=MatNormsR.AR) a b = Ok s /\
    mnorm_1 (S:=MatNormsR.SAR) a = Ok a1 /\ mnorm_inf (S:=MatNormsR.SAR) a = Ok ai /\
    mnorm_max (S:=MatNormsR.SAR) a = Ok ax /\ mnorm_frob (S:=MatNormsR.SAR) a = Ok af /\
    mnorm_1 (S:=MatNormsR.SAR) b = Ok b1 /\ mnorm_inf (S:=MatNormsR.SAR) b = Ok bi /\
    mnorm_max (S:=MatNormsR.SAR) b = Ok bx /\ mnorm_frob (S:=MatNormsR.SAR) b = Ok bf /\
    mnorm_1 (S:=MatNormsR.SAR) s = Ok s1 /\ mnorm_inf (S:=MatNormsR.SAR) s = Ok si /\
    mnorm_max (S:=MatNormsR.SAR) s = Ok sx /\ mnorm_frob (S:=MatNormsR.SAR) s = Ok sf /\
    s1 <= a1 + b1 /\ si <= ai + bi /\ sx <= ax + bx /\ sf <= af + bf)%R.
Print Assumptions matnorm_triangle.
Example matnorm_triangle_nonvacuous :
  Proofs.Matrix.wf (mkM (A:=MatNormsR.AR) [1%R; (-2)%R; 0%R; 4%R; 0%R; (-5)%R] 2 3) /\ Proofs.Matrix.wf (mat_new (A:=MatNormsR.AR) 2 3 7%R) /\ rows (mkM (A:=MatNormsR.AR) [1%R; (-2)%R; 0%R; 4%R; 0%R; (-5)%R] 2 3) = rows (mat_new (A:=MatNormsR.AR) 2 3 7%R) /\ cols (mkM (A:=MatNormsR.AR) [1%R; (-2)%R; 0%R; 4%R; 0%R; (-5)%R] 2 3) = cols (mat_new (A:=MatNormsR.AR) 2 3 7%R).
Proof. repeat split. Qed.

(* norm_1 m = norm_inf (transpose m), norm_inf m = norm_1 (transpose m); norm_max and norm_frob are unchanged.
   [transpose] has two branches (in-place swaps when rows = cols, a rebuilt buffer otherwise); both are covered: the
   example runs one matrix through each. *)
Theorem matnorm_transpose : (forall (m : matrix MatNormsR.AR), Proofs.Matrix.wf m ->
  exists t n1 ni nx nf, transpose (A:=MatNormsR.AR) m = Ok t /\
    mnorm_1 (S:=MatNormsR.SAR) m = Ok n1 /\ mnorm_inf (S:=MatNormsR.SAR) m = Ok ni /\
    mnorm_max (S:=MatNormsR.SAR) m = Ok nx /\ mnorm_frob (S:=MatNormsR.SAR) m = Ok nf /\
    mnorm_inf (S:=MatNormsR.SAR) t = Ok n1 /\ mnorm_1 (S:=MatNormsR.SAR) t = Ok ni /\
    mnorm_max (S:=MatNormsR.SAR) t = Ok nx /\ mnorm_frob (S:=MatNormsR.SAR) t = Ok nf)%R.
Proof. exact MatNormLawsAx.matnorm_transpose_lemma. Qed.
Check matnorm_transpose : (forall (m : matrix MatNormsR.AR), Proofs.Matrix.wf m ->
  exists t n1 ni nx nf, transpose (A:=MatNormsR.AR) m = Ok t /\
    mnorm_1 (S:=MatNormsR.SAR) m = Ok n1 /\ mnorm_inf (S:=MatNormsR.SAR) m = Ok ni /\
    mnorm_max (S:=MatNormsR.SAR) m = Ok nx /\ mnorm_frob (S:=MatNormsR.SAR) m = Ok nf /\
    mnorm_inf (S:=MatNormsR.SAR) t = Ok n1 /\ mnorm_1 (S:=MatNormsR.SAR) t = Ok ni /\
    mnorm_max (S:=MatNormsR.SAR) t = Ok nx /\ mnorm_frob (S:=MatNormsR.SAR) t = Ok nf)%R.
Print Assumptions matnorm_transpose.
Example matnorm_transpose_nonvacuous :
  Proofs.Matrix.wf (mkM (A:=MatNormsR.AR) [1%R; (-2)%R; 0%R; 4%R; 0%R; (-5)%R] 2 3) /\ Proofs.Matrix.wf (mkM (A:=MatNormsR.AR) [1%R; (-2)%R; 3%R; 0%R] 2 2) /\
  transpose (A:=MatNormsR.AR) (mkM (A:=MatNormsR.AR) [1%R; (-2)%R; 0%R; 4%R; 0%R; (-5)%R] 2 3) = Ok (mkM (A:=MatNormsR.AR) [1%R; 4%R; (-2)%R; 0%R; 0%R; (-5)%R] 3 2) /\
  transpose (A:=MatNormsR.AR) (mkM (A:=MatNormsR.AR) [1%R; (-2)%R; 3%R; 0%R] 2 2) = Ok (mkM (A:=MatNormsR.AR) [1%R; 3%R; (-2)%R; 0%R] 2 2).
Proof. repeat split. Qed.

(* norm_p (pw reading), every p > 0: non-negative, definite, absolutely homogeneous *)
Theorem norm_p_axioms : (forall (m : matrix MatNormsR.AR) (s p : R), Proofs.Matrix.wf m -> 0 < p ->
  exists m' n, mscale (A:=MatNormsR.AR) m s = Ok m' /\ mnorm_p (S:=MatNormsR.SAR) (fun x => MatNormLawsP.pw x p) (fun s => MatNormLawsP.pw s (1 / p)) m = Ok n /\
    0 <= n /\ (n = 0 <-> MatNormLawsAx.allzero m) /\
    mnorm_p (S:=MatNormsR.SAR) (fun x => MatNormLawsP.pw x p) (fun s => MatNormLawsP.pw s (1 / p)) m' = Ok (Rabs s * n))%R.
Proof. exact MatNormLawsAx.norm_p_axioms_lemma. Qed.
Check norm_p_axioms : (forall (m : matrix MatNormsR.AR) (s p : R), Proofs.Matrix.wf m -> 0 < p ->
  exists m' n, mscale (A:=MatNormsR.AR) m s = Ok m' /\ mnorm_p (S:=MatNormsR.SAR) (fun x => MatNormLawsP.pw x p) (fun s => MatNormLawsP.pw s (1 / p)) m = Ok n /\
    0 <= n /\ (n = 0 <-> MatNormLawsAx.allzero m) /\
    mnorm_p (S:=MatNormsR.SAR) (fun x => MatNormLawsP.pw x p) (fun s => MatNormLawsP.pw s (1 / p)) m' = Ok (Rabs s * n))%R.
Print Assumptions norm_p_axioms.
Example norm_p_axioms_nonvacuous :
  Proofs.Matrix.wf (mkM (A:=MatNormsR.AR) [1%R; (-2)%R; 0%R; 4%R; 0%R; (-5)%R] 2 3) /\ (0 < / 3)%R.
Proof. split; [reflexivity|lra]. Qed.

(* Minkowski: the triangle inequality of norm_p for p >= 1 (proved from 1 + x <= exp x through the weighted AM-GM
   inequality, Bernoulli's inequality for real exponents and the convexity of t^p; Proofs/MatNormLawsMink.v).
   For 0 < p < 1 the inequality is false (norm_p is then not a norm) and is not claimed. *)
Theorem norm_p_triangle : (forall (a b : matrix MatNormsR.AR) (p : R), Proofs.Matrix.wf a -> Proofs.Matrix.wf b -> rows a = rows b -> cols a = cols b -> 1 <= p ->
  exists s na nb ns, madd (A:=MatNormsR.AR) a b = Ok s /\
    mnorm_p (S:=MatNormsR.SAR) (fun x => MatNormLawsP.pw x p) (fun s => MatNormLawsP.pw s (1 / p)) a = Ok na /\
    mnorm_p (S:=MatNormsR.SAR) (fun x => MatNormLawsP.pw x p) (fun s => MatNormLawsP.pw s (1 / p)) b = Ok nb /\
    mnorm_p (S:=MatNormsR.SAR) (fun x => MatNormLawsP.pw x p) (fun s => MatNormLawsP.pw s (1 / p)) s = Ok ns /\
    ns <= na + nb)%R.
Proof. exact MatNormLawsMink.norm_p_triangle_lemma. Qed.
Check norm_p_triangle : (forall (a b : matrix MatNormsR.AR) (p : R), Proofs.Matrix.wf a -> Proofs.Matrix.wf b -> rows a = rows b -> cols a = cols b -> 1 <= p ->
  exists s na nb ns, madd (A:=MatNormsR.AR) a b = Ok s /\
    mnorm_p (S:=MatNormsR.SAR) (fun x => MatNormLawsP.pw x p) (fun s => MatNormLawsP.pw s (1 / p)) a = Ok na /\
    mnorm_p (S:=MatNormsR.SAR) (fun x => MatNormLawsP.pw x p) (fun s => MatNormLawsP.pw s (1 / p)) b = Ok nb /\
    mnorm_p (S:=MatNormsR.SAR) (fun x => MatNormLawsP.pw x p) (fun s => MatNormLawsP.pw s (1 / p)) s = Ok ns /\
    ns <= na + nb)%R.
Print Assumptions norm_p_triangle.
Example norm_p_triangle_nonvacuous :
  Proofs.Matrix.wf (mkM (A:=MatNormsR.AR) [1%R; (-2)%R; 0%R; 4%R; 0%R; (-5)%R] 2 3) /\ Proofs.Matrix.wf (mat_new (A:=MatNormsR.AR) 2 3 7%R) /\ rows (mkM (A:=MatNormsR.AR) [1%R; (-2)%R; 0%R; 4%R; 0%R; (-5)%R] 2 3) = rows (mat_new (A:=MatNormsR.AR) 2 3 7%R) /\ cols (mkM (A:=MatNormsR.AR) [1%R; (-2)%R; 0%R; 4%R; 0%R; (-5)%R] 2 3) = cols (mat_new (A:=MatNormsR.AR) 2 3 7%R) /\ (1 <= 3)%R.
Proof. repeat split. lra. Qed.

(* ---------- norms and the model's products (package matnorm) ----------
   submultiplicativity under [mat_mul], every conformable shape: norm_1, norm_inf, norm_frob *)
Theorem matnorm_submult : (forall (a b : matrix MatNormsR.AR), Proofs.Matrix.wf a -> Proofs.Matrix.wf b -> cols a = rows b ->
  exists p a1 ai af b1 bi bf p1 pi pf, mat_mul (A:=MatNormsR.AR) a b = Ok p /\
    mnorm_1 (S:=MatNormsR.SAR) a = Ok a1 /\ mnorm_inf (S:=MatNormsR.SAR) a = Ok ai /\ mnorm_frob (S:=MatNormsR.SAR) a = Ok af /\
    mnorm_1 (S:=MatNormsR.SAR) b = Ok b1 /\ mnorm_inf (S:=MatNormsR.SAR) b = Ok bi /\ mnorm_frob (S:=MatNormsR.SAR) b = Ok bf /\
    mnorm_1 (S:=MatNormsR.SAR) p = Ok p1 /\ mnorm_inf (S:=MatNormsR.SAR) p = Ok pi /\ mnorm_frob (S:=MatNormsR.SAR) p = Ok pf /\
    p1 <= a1 * b1 /\ pi <= ai * bi /\ pf <= af * bf)%R.
Proof. exact MatNormLawsMul.matnorm_submult_lemma. Qed.
Check matnorm_submult : (forall (a b : matrix MatNormsR.AR), Proofs.Matrix.wf a -> Proofs.Matrix.wf b -> cols a = rows b ->
  exists p a1 ai af b1 bi bf p1 pi pf, mat_mul (A:=MatNormsR.AR) a b = Ok p /\
    mnorm_1 (S:=MatNormsR.SAR) a = Ok a1 /\ mnorm_inf (S:=MatNormsR.SAR) a = Ok ai /\ mnorm_frob (S:=MatNormsR.SAR) a = Ok af /\
    mnorm_1 (S:=MatNormsR.SAR) b = Ok b1 /\ mnorm_inf (S:=MatNormsR.SAR) b = Ok bi /\ mnorm_frob (S:=MatNormsR.SAR) b = Ok bf /\
    mnorm_1 (S:=MatNormsR.SAR) p = Ok p1 /\ mnorm_inf (S:=MatNormsR.SAR) p = Ok pi /\ mnorm_frob (S:=MatNormsR.SAR) p = Ok pf /\
    p1 <= a1 * b1 /\ pi <= ai * bi /\ pf <= af * bf)%R.
Print Assumptions matnorm_submult.
Example matnorm_submult_nonvacuous :
  Proofs.Matrix.wf (mkM (A:=MatNormsR.AR) [1%R; (-2)%R; 0%R; 4%R; 0%R; (-5)%R] 2 3) /\ Proofs.Matrix.wf (mkM (A:=MatNormsR.AR) [2%R; 0%R; (-1)%R; 1%R; 0%R; 7%R] 3 2) /\ cols (mkM (A:=MatNormsR.AR) [1%R; (-2)%R; 0%R; 4%R; 0%R; (-5)%R] 2 3) = rows (mkM (A:=MatNormsR.AR) [2%R; 0%R; (-1)%R; 1%R; 0%R; 7%R] 3 2).
Proof. repeat split. Qed.

(* norm_max is NOT submultiplicative: a = b = the 2x2 matrix of ones, a b = 2 a *)
Theorem matnorm_max_submult_refuted : (exists (a b p : matrix MatNormsR.AR) (na nb np : R), Proofs.Matrix.wf a /\ Proofs.Matrix.wf b /\ cols a = rows b /\ mat_mul (A:=MatNormsR.AR) a b = Ok p /\
    mnorm_max (S:=MatNormsR.SAR) a = Ok na /\ mnorm_max (S:=MatNormsR.SAR) b = Ok nb /\ mnorm_max (S:=MatNormsR.SAR) p = Ok np /\
    na * nb < np)%R.
Proof. exact MatNormLawsMul.matnorm_max_submult_refuted_lemma. Qed.
Check matnorm_max_submult_refuted : (exists (a b p : matrix MatNormsR.AR) (na nb np : R), Proofs.Matrix.wf a /\ Proofs.Matrix.wf b /\ cols a = rows b /\ mat_mul (A:=MatNormsR.AR) a b = Ok p /\
    mnorm_max (S:=MatNormsR.SAR) a = Ok na /\ mnorm_max (S:=MatNormsR.SAR) b = Ok nb /\ mnorm_max (S:=MatNormsR.SAR) p = Ok np /\
    na * nb < np)%R.
Print Assumptions matnorm_max_submult_refuted.

(* what norm_max does satisfy under the product: the factor is the inner dimension, or one factor is measured in
   norm_inf (left) / norm_1 (right) *)
Theorem matnorm_max_mul : (forall (a b : matrix MatNormsR.AR), Proofs.Matrix.wf a -> Proofs.Matrix.wf b -> cols a = rows b ->
  exists p ax ai bx b1 px, mat_mul (A:=MatNormsR.AR) a b = Ok p /\
    mnorm_max (S:=MatNormsR.SAR) a = Ok ax /\ mnorm_inf (S:=MatNormsR.SAR) a = Ok ai /\
    mnorm_max (S:=MatNormsR.SAR) b = Ok bx /\ mnorm_1 (S:=MatNormsR.SAR) b = Ok b1 /\ mnorm_max (S:=MatNormsR.SAR) p = Ok px /\
    px <= INR (cols a) * ax * bx /\ px <= ai * bx /\ px <= ax * b1)%R.
Proof. exact MatNormLawsMul.matnorm_max_mul_lemma. Qed.
Check matnorm_max_mul : (forall (a b : matrix MatNormsR.AR), Proofs.Matrix.wf a -> Proofs.Matrix.wf b -> cols a = rows b ->
  exists p ax ai bx b1 px, mat_mul (A:=MatNormsR.AR) a b = Ok p /\
    mnorm_max (S:=MatNormsR.SAR) a = Ok ax /\ mnorm_inf (S:=MatNormsR.SAR) a = Ok ai /\
    mnorm_max (S:=MatNormsR.SAR) b = Ok bx /\ mnorm_1 (S:=MatNormsR.SAR) b = Ok b1 /\ mnorm_max (S:=MatNormsR.SAR) p = Ok px /\
    px <= INR (cols a) * ax * bx /\ px <= ai * bx /\ px <= ax * b1)%R.
Print Assumptions matnorm_max_mul.
Example matnorm_max_mul_nonvacuous :
  Proofs.Matrix.wf (mkM (A:=MatNormsR.AR) [1%R; (-2)%R; 0%R; 4%R; 0%R; (-5)%R] 2 3) /\ Proofs.Matrix.wf (mkM (A:=MatNormsR.AR) [2%R; 0%R; (-1)%R; 1%R; 0%R; 7%R] 3 2) /\ cols (mkM (A:=MatNormsR.AR) [1%R; (-2)%R; 0%R; 4%R; 0%R; (-5)%R] 2 3) = rows (mkM (A:=MatNormsR.AR) [2%R; 0%R; (-1)%R; 1%R; 0%R; 7%R] 3 2).
Proof. repeat split. Qed.

(* consistency with the vector norms of Model/Vector.v under the model's matrix-vector product [multiply]
   (the vector norm_inf panics on the empty vector, hence rows, cols >= 1 for that one) *)
Theorem matvec_norm_inf : (forall (m : matrix MatNormsR.AR) (v : list R), Proofs.Matrix.wf m -> length v = cols m -> (1 <= rows m)%nat -> (1 <= cols m)%nat ->
  exists w nw nm nv, multiply (A:=MatNormsR.AR) m v = Ok w /\ Model.Vector.norm_inf (F:=MatNormsR.SAR) Rabs w = Ok nw /\
    mnorm_inf (S:=MatNormsR.SAR) m = Ok nm /\ Model.Vector.norm_inf (F:=MatNormsR.SAR) Rabs v = Ok nv /\ nw <= nm * nv)%R.
Proof. exact MatNormLawsMul.matvec_norm_inf_lemma. Qed.
Check matvec_norm_inf : (forall (m : matrix MatNormsR.AR) (v : list R), Proofs.Matrix.wf m -> length v = cols m -> (1 <= rows m)%nat -> (1 <= cols m)%nat ->
  exists w nw nm nv, multiply (A:=MatNormsR.AR) m v = Ok w /\ Model.Vector.norm_inf (F:=MatNormsR.SAR) Rabs w = Ok nw /\
    mnorm_inf (S:=MatNormsR.SAR) m = Ok nm /\ Model.Vector.norm_inf (F:=MatNormsR.SAR) Rabs v = Ok nv /\ nw <= nm * nv)%R.
Print Assumptions matvec_norm_inf.
Example matvec_norm_inf_nonvacuous :
  Proofs.Matrix.wf (mkM (A:=MatNormsR.AR) [1%R; (-2)%R; 0%R; 4%R; 0%R; (-5)%R] 2 3) /\ length [1%R; (-1)%R; 2%R] = cols (mkM (A:=MatNormsR.AR) [1%R; (-2)%R; 0%R; 4%R; 0%R; (-5)%R] 2 3) /\ 1 <= rows (mkM (A:=MatNormsR.AR) [1%R; (-2)%R; 0%R; 4%R; 0%R; (-5)%R] 2 3) /\ 1 <= cols (mkM (A:=MatNormsR.AR) [1%R; (-2)%R; 0%R; 4%R; 0%R; (-5)%R] 2 3).
Proof. cbn; repeat split; lia. Qed.

Theorem matvec_norm_1 : (forall (m : matrix MatNormsR.AR) (v : list R), Proofs.Matrix.wf m -> length v = cols m ->
  exists w nm, multiply (A:=MatNormsR.AR) m v = Ok w /\ mnorm_1 (S:=MatNormsR.SAR) m = Ok nm /\
    Model.Vector.norm_1 (A:=MatNormsR.AR) w <= nm * Model.Vector.norm_1 (A:=MatNormsR.AR) v)%R.
Proof. exact MatNormLawsMul.matvec_norm_1_lemma. Qed.
Check matvec_norm_1 : (forall (m : matrix MatNormsR.AR) (v : list R), Proofs.Matrix.wf m -> length v = cols m ->
  exists w nm, multiply (A:=MatNormsR.AR) m v = Ok w /\ mnorm_1 (S:=MatNormsR.SAR) m = Ok nm /\
    Model.Vector.norm_1 (A:=MatNormsR.AR) w <= nm * Model.Vector.norm_1 (A:=MatNormsR.AR) v)%R.
Print Assumptions matvec_norm_1.
Example matvec_norm_1_nonvacuous :
  Proofs.Matrix.wf (mkM (A:=MatNormsR.AR) [1%R; (-2)%R; 0%R; 4%R; 0%R; (-5)%R] 2 3) /\ length [1%R; (-1)%R; 2%R] = cols (mkM (A:=MatNormsR.AR) [1%R; (-2)%R; 0%R; 4%R; 0%R; (-5)%R] 2 3).
Proof. repeat split. Qed.

Theorem matvec_norm_2 : (forall (m : matrix MatNormsR.AR) (v : list R), Proofs.Matrix.wf m -> length v = cols m ->
  exists w nf, multiply (A:=MatNormsR.AR) m v = Ok w /\ mnorm_frob (S:=MatNormsR.SAR) m = Ok nf /\
    Model.Vector.norm_2 (F:=MatNormsR.SAR) Rabs w <= nf * Model.Vector.norm_2 (F:=MatNormsR.SAR) Rabs v)%R.
Proof. exact MatNormLawsMul.matvec_norm_2_lemma. Qed.
Check matvec_norm_2 : (forall (m : matrix MatNormsR.AR) (v : list R), Proofs.Matrix.wf m -> length v = cols m ->
  exists w nf, multiply (A:=MatNormsR.AR) m v = Ok w /\ mnorm_frob (S:=MatNormsR.SAR) m = Ok nf /\
    Model.Vector.norm_2 (F:=MatNormsR.SAR) Rabs w <= nf * Model.Vector.norm_2 (F:=MatNormsR.SAR) Rabs v)%R.
Print Assumptions matvec_norm_2.
Example matvec_norm_2_nonvacuous :
  Proofs.Matrix.wf (mkM (A:=MatNormsR.AR) [1%R; (-2)%R; 0%R; 4%R; 0%R; (-5)%R] 2 3) /\ length [1%R; (-1)%R; 2%R] = cols (mkM (A:=MatNormsR.AR) [1%R; (-2)%R; 0%R; 4%R; 0%R; (-5)%R] 2 3).
Proof. repeat split. Qed.

(* ---------- the float norms "to rounding accuracy" (package matnorm) ----------
   the same Gallina norm functions at the STANDARD MODEL of floating-point arithmetic ([ARm], rounded square root
   [RoundNorm2.SARm]; |.| and comparisons exact) against the same functions at the exact reals on the same buffer
   ([MatNormLawsRound.rm m] = m retyped).  Overflow / underflow are outside the standard model. *)
Theorem mnorm_1_rounding : (forall (u : R), 0 <= u < 1 -> forall (fadd fsub fmul fdiv : R -> R -> R) (fsqrt : R -> R),
  (forall x y : R, exists d : R, Rabs d <= u /\ fadd x y = (x + y) * (1 + d)) ->
  forall (m : matrix (ARm fadd fsub fmul fdiv)), Proofs.Matrix.wf m -> INR (rows m) * u < 1 ->
  exists Nf N, mnorm_1 (S:=(RoundNorm2.SARm fadd fsub fmul fdiv fsqrt)) m = Ok Nf /\ mnorm_1 (S:=MatNormsR.SAR) (MatNormLawsRound.rm fadd fsub fmul fdiv m) = Ok N /\
    Rabs (Nf - N) <= gam u (rows m) * N)%R.
Proof. exact MatNormLawsRound.mnorm_1_rounding_lemma. Qed.
Check mnorm_1_rounding : (forall (u : R), 0 <= u < 1 -> forall (fadd fsub fmul fdiv : R -> R -> R) (fsqrt : R -> R),
  (forall x y : R, exists d : R, Rabs d <= u /\ fadd x y = (x + y) * (1 + d)) ->
  forall (m : matrix (ARm fadd fsub fmul fdiv)), Proofs.Matrix.wf m -> INR (rows m) * u < 1 ->
  exists Nf N, mnorm_1 (S:=(RoundNorm2.SARm fadd fsub fmul fdiv fsqrt)) m = Ok Nf /\ mnorm_1 (S:=MatNormsR.SAR) (MatNormLawsRound.rm fadd fsub fmul fdiv m) = Ok N /\
    Rabs (Nf - N) <= gam u (rows m) * N)%R.
Print Assumptions mnorm_1_rounding.
Example mnorm_1_rounding_nonvacuous :
  (0 <= ux < 1)%R /\ (forall x y : R, exists d : R, (Rabs d <= ux)%R /\ xadd x y = ((x + y) * (1 + d))%R) /\ Proofs.Matrix.wf (mkM (A:=ARm xadd xsub xmul xdiv) [1%R; (-2)%R; 0%R; 4%R; 0%R; (-5)%R] 2 3) /\ (INR (rows (mkM (A:=ARm xadd xsub xmul xdiv) [1%R; (-2)%R; 0%R; 4%R; 0%R; (-5)%R] 2 3)) * ux < 1)%R.
Proof. split; [exact ux_range|]. split; [exact xadd_ok|]. split; [reflexivity|]. cbn [rows INR]. pose proof ux_small. lra. Qed.

Theorem mnorm_inf_rounding : (forall (u : R), 0 <= u < 1 -> forall (fadd fsub fmul fdiv : R -> R -> R) (fsqrt : R -> R),
  (forall x y : R, exists d : R, Rabs d <= u /\ fadd x y = (x + y) * (1 + d)) ->
  forall (m : matrix (ARm fadd fsub fmul fdiv)), Proofs.Matrix.wf m -> INR (cols m) * u < 1 ->
  exists Nf N, mnorm_inf (S:=(RoundNorm2.SARm fadd fsub fmul fdiv fsqrt)) m = Ok Nf /\ mnorm_inf (S:=MatNormsR.SAR) (MatNormLawsRound.rm fadd fsub fmul fdiv m) = Ok N /\
    Rabs (Nf - N) <= gam u (cols m) * N)%R.
Proof. exact MatNormLawsRound.mnorm_inf_rounding_lemma. Qed.
Check mnorm_inf_rounding : (forall (u : R), 0 <= u < 1 -> forall (fadd fsub fmul fdiv : R -> R -> R) (fsqrt : R -> R),
  (forall x y : R, exists d : R, Rabs d <= u /\ fadd x y = (x + y) * (1 + d)) ->
  forall (m : matrix (ARm fadd fsub fmul fdiv)), Proofs.Matrix.wf m -> INR (cols m) * u < 1 ->
  exists Nf N, mnorm_inf (S:=(RoundNorm2.SARm fadd fsub fmul fdiv fsqrt)) m = Ok Nf /\ mnorm_inf (S:=MatNormsR.SAR) (MatNormLawsRound.rm fadd fsub fmul fdiv m) = Ok N /\
    Rabs (Nf - N) <= gam u (cols m) * N)%R.
Print Assumptions mnorm_inf_rounding.
Example mnorm_inf_rounding_nonvacuous :
  (0 <= ux < 1)%R /\ (forall x y : R, exists d : R, (Rabs d <= ux)%R /\ xadd x y = ((x + y) * (1 + d))%R) /\ Proofs.Matrix.wf (mkM (A:=ARm xadd xsub xmul xdiv) [1%R; (-2)%R; 0%R; 4%R; 0%R; (-5)%R] 2 3) /\ (INR (cols (mkM (A:=ARm xadd xsub xmul xdiv) [1%R; (-2)%R; 0%R; 4%R; 0%R; (-5)%R] 2 3)) * ux < 1)%R.
Proof. split; [exact ux_range|]. split; [exact xadd_ok|]. split; [reflexivity|]. cbn [cols INR]. pose proof ux_small. lra. Qed.

(* norm_max performs no rounded operation: the float result is the exact one (no hypothesis on the arithmetic at all) *)
Theorem mnorm_max_exact : (forall (fadd fsub fmul fdiv : R -> R -> R) (fsqrt : R -> R) (m : matrix (ARm fadd fsub fmul fdiv)), Proofs.Matrix.wf m ->
  exists N, mnorm_max (S:=(RoundNorm2.SARm fadd fsub fmul fdiv fsqrt)) m = Ok N /\ mnorm_max (S:=MatNormsR.SAR) (MatNormLawsRound.rm fadd fsub fmul fdiv m) = Ok N)%R.
Proof. exact MatNormLawsRound.mnorm_max_exact_lemma. Qed.
Check mnorm_max_exact : (forall (fadd fsub fmul fdiv : R -> R -> R) (fsqrt : R -> R) (m : matrix (ARm fadd fsub fmul fdiv)), Proofs.Matrix.wf m ->
  exists N, mnorm_max (S:=(RoundNorm2.SARm fadd fsub fmul fdiv fsqrt)) m = Ok N /\ mnorm_max (S:=MatNormsR.SAR) (MatNormLawsRound.rm fadd fsub fmul fdiv m) = Ok N)%R.
Print Assumptions mnorm_max_exact.
Example mnorm_max_exact_nonvacuous :
  Proofs.Matrix.wf (mkM (A:=ARm xadd xsub xmul xdiv) [1%R; (-2)%R; 0%R; 4%R; 0%R; (-5)%R] 2 3).
Proof. reflexivity. Qed.

(* norm_frob: relative error gam (rows*cols + 1) (the rows*cols rounded squares and additions, then the rounded root) *)
Theorem mnorm_frob_rounding : (forall (u : R), 0 <= u < 1 -> forall (fadd fsub fmul fdiv : R -> R -> R) (fsqrt : R -> R),
  (forall x y : R, exists d : R, Rabs d <= u /\ fadd x y = (x + y) * (1 + d)) -> (forall x y : R, exists d : R, Rabs d <= u /\ fmul x y = x * y * (1 + d)) -> (forall a b : R, fadd 0 (fmul a b) = fmul a b) -> (forall x : R, 0 <= x -> exists d : R, Rabs d <= u /\ fsqrt x = R_sqrt.sqrt x * (1 + d)) ->
  forall (m : matrix (ARm fadd fsub fmul fdiv)), Proofs.Matrix.wf m -> INR (rows m * cols m + 1) * u < 1 ->
  exists th N, Rabs th <= gam u (rows m * cols m + 1) /\
    mnorm_frob (S:=MatNormsR.SAR) (MatNormLawsRound.rm fadd fsub fmul fdiv m) = Ok N /\ mnorm_frob (S:=(RoundNorm2.SARm fadd fsub fmul fdiv fsqrt)) m = Ok (N * (1 + th)))%R.
Proof. exact MatNormLawsRound.mnorm_frob_rounding_lemma. Qed.
Check mnorm_frob_rounding : (forall (u : R), 0 <= u < 1 -> forall (fadd fsub fmul fdiv : R -> R -> R) (fsqrt : R -> R),
  (forall x y : R, exists d : R, Rabs d <= u /\ fadd x y = (x + y) * (1 + d)) -> (forall x y : R, exists d : R, Rabs d <= u /\ fmul x y = x * y * (1 + d)) -> (forall a b : R, fadd 0 (fmul a b) = fmul a b) -> (forall x : R, 0 <= x -> exists d : R, Rabs d <= u /\ fsqrt x = R_sqrt.sqrt x * (1 + d)) ->
  forall (m : matrix (ARm fadd fsub fmul fdiv)), Proofs.Matrix.wf m -> INR (rows m * cols m + 1) * u < 1 ->
  exists th N, Rabs th <= gam u (rows m * cols m + 1) /\
    mnorm_frob (S:=MatNormsR.SAR) (MatNormLawsRound.rm fadd fsub fmul fdiv m) = Ok N /\ mnorm_frob (S:=(RoundNorm2.SARm fadd fsub fmul fdiv fsqrt)) m = Ok (N * (1 + th)))%R.
Print Assumptions mnorm_frob_rounding.
Example mnorm_frob_rounding_nonvacuous :
  (0 <= ux < 1)%R /\ (forall x y : R, exists d : R, (Rabs d <= ux)%R /\ xadd x y = ((x + y) * (1 + d))%R) /\ (forall x y : R, exists d : R, (Rabs d <= ux)%R /\ xmul x y = (x * y * (1 + d))%R) /\
  (forall a b : R, xadd 0%R (xmul a b) = xmul a b) /\ (forall x : R, (0 <= x)%R -> exists d : R, (Rabs d <= ux)%R /\ rndx (R_sqrt.sqrt x) = (R_sqrt.sqrt x * (1 + d))%R) /\
  Proofs.Matrix.wf (mkM (A:=ARm xadd xsub xmul xdiv) [1%R; (-2)%R; 0%R; 4%R; 0%R; (-5)%R] 2 3) /\ (INR (rows (mkM (A:=ARm xadd xsub xmul xdiv) [1%R; (-2)%R; 0%R; 4%R; 0%R; (-5)%R] 2 3) * cols (mkM (A:=ARm xadd xsub xmul xdiv) [1%R; (-2)%R; 0%R; 4%R; 0%R; (-5)%R] 2 3) + 1) * ux < 1)%R.
Proof. split; [exact ux_range|]. split; [exact xadd_ok|]. split; [exact xmul_ok|]. split; [exact xadd_0_mul|].
  split; [intros x _; apply rndx_rel|]. split; [reflexivity|]. cbn [rows cols Nat.mul Nat.add INR]. pose proof ux_small. lra. Qed.

(* ---------- further laws over R (package matnorm, Proofs/MatNormLawsMore.v) ----------
   negation: all five norms unchanged (norm_p for every exponent) *)
Theorem matnorm_neg : (forall (m : matrix MatNormsR.AR) (p : R), Proofs.Matrix.wf m ->
  exists m' n1 ni nx nf n, mneg (A:=MatNormsR.AR) m = Ok m' /\
    mnorm_1 (S:=MatNormsR.SAR) m = Ok n1 /\ mnorm_inf (S:=MatNormsR.SAR) m = Ok ni /\
    mnorm_max (S:=MatNormsR.SAR) m = Ok nx /\ mnorm_frob (S:=MatNormsR.SAR) m = Ok nf /\ mnorm_p (S:=MatNormsR.SAR) (fun x => MatNormLawsP.pw x p) (fun s => MatNormLawsP.pw s (1 / p)) m = Ok n /\
    mnorm_1 (S:=MatNormsR.SAR) m' = Ok n1 /\ mnorm_inf (S:=MatNormsR.SAR) m' = Ok ni /\
    mnorm_max (S:=MatNormsR.SAR) m' = Ok nx /\ mnorm_frob (S:=MatNormsR.SAR) m' = Ok nf /\ mnorm_p (S:=MatNormsR.SAR) (fun x => MatNormLawsP.pw x p) (fun s => MatNormLawsP.pw s (1 / p)) m' = Ok n)%R.
Proof. exact MatNormLawsMore.matnorm_neg_lemma. Qed.
Check matnorm_neg : (forall (m : matrix MatNormsR.AR) (p : R), Proofs.Matrix.wf m ->
  exists m' n1 ni nx nf n, mneg (A:=MatNormsR.AR) m = Ok m' /\
    mnorm_1 (S:=MatNormsR.SAR) m = Ok n1 /\ mnorm_inf (S:=MatNormsR.SAR) m = Ok ni /\
    mnorm_max (S:=MatNormsR.SAR) m = Ok nx /\ mnorm_frob (S:=MatNormsR.SAR) m = Ok nf /\ mnorm_p (S:=MatNormsR.SAR) (fun x => MatNormLawsP.pw x p) (fun s => MatNormLawsP.pw s (1 / p)) m = Ok n /\
    mnorm_1 (S:=MatNormsR.SAR) m' = Ok n1 /\ mnorm_inf (S:=MatNormsR.SAR) m' = Ok ni /\
    mnorm_max (S:=MatNormsR.SAR) m' = Ok nx /\ mnorm_frob (S:=MatNormsR.SAR) m' = Ok nf /\ mnorm_p (S:=MatNormsR.SAR) (fun x => MatNormLawsP.pw x p) (fun s => MatNormLawsP.pw s (1 / p)) m' = Ok n)%R.
Print Assumptions matnorm_neg.
Example matnorm_neg_nonvacuous :
  Proofs.Matrix.wf (mkM (A:=MatNormsR.AR) [1%R; (-2)%R; 0%R; 4%R; 0%R; (-5)%R] 2 3).
Proof. reflexivity. Qed.

(* subtraction: ||A - B|| <= ||A|| + ||B|| and the reverse triangle inequality | ||A|| - ||B|| | <= ||A - B||
   (each norm is Lipschitz continuous with constant 1 with respect to itself) *)
Theorem matnorm_sub : (forall (a b : matrix MatNormsR.AR), Proofs.Matrix.wf a -> Proofs.Matrix.wf b -> rows a = rows b -> cols a = cols b ->
  exists d a1 ai ax af b1 bi bx bf d1 di dx df, msub (A:=MatNormsR.AR) a b = Ok d /\
    mnorm_1 (S:=MatNormsR.SAR) a = Ok a1 /\ mnorm_inf (S:=MatNormsR.SAR) a = Ok ai /\
    mnorm_max (S:=MatNormsR.SAR) a = Ok ax /\ mnorm_frob (S:=MatNormsR.SAR) a = Ok af /\
    mnorm_1 (S:=MatNormsR.SAR) b = Ok b1 /\ mnorm_inf (S:=MatNormsR.SAR) b = Ok bi /\
    mnorm_max (S:=MatNormsR.SAR) b = Ok bx /\ mnorm_frob (S:=MatNormsR.SAR) b = Ok bf /\
    mnorm_1 (S:=MatNormsR.SAR) d = Ok d1 /\ mnorm_inf (S:=MatNormsR.SAR) d = Ok di /\
    mnorm_max (S:=MatNormsR.SAR) d = Ok dx /\ mnorm_frob (S:=MatNormsR.SAR) d = Ok df /\
    (d1 <= a1 + b1 /\ di <= ai + bi /\ dx <= ax + bx /\ df <= af + bf) /\
    (Rabs (a1 - b1) <= d1 /\ Rabs (ai - bi) <= di /\ Rabs (ax - bx) <= dx /\ Rabs (af - bf) <= df))%R.
Proof. exact MatNormLawsMore.matnorm_sub_lemma. Qed.
Check matnorm_sub : (forall (a b : matrix MatNormsR.AR), Proofs.Matrix.wf a -> Proofs.Matrix.wf b -> rows a = rows b -> cols a = cols b ->
  exists d a1 ai ax af b1 bi bx bf d1 di dx df, msub (A:=MatNormsR.AR) a b = Ok d /\
    mnorm_1 (S:=MatNormsR.SAR) a = Ok a1 /\ mnorm_inf (S:=MatNormsR.SAR) a = Ok ai /\
    mnorm_max (S:=MatNormsR.SAR) a = Ok ax /\ mnorm_frob (S:=MatNormsR.SAR) a = Ok af /\
    mnorm_1 (S:=MatNormsR.SAR) b = Ok b1 /\ mnorm_inf (S:=MatNormsR.SAR) b = Ok bi /\
    mnorm_max (S:=MatNormsR.SAR) b = Ok bx /\ mnorm_frob (S:=MatNormsR.SAR) b = Ok bf /\
    mnorm_1 (S:=MatNormsR.SAR) d = Ok d1 /\ mnorm_inf (S:=MatNormsR.SAR) d = Ok di /\
    mnorm_max (S:=MatNormsR.SAR) d = Ok dx /\ mnorm_frob (S:=MatNormsR.SAR) d = Ok df /\
    (d1 <= a1 + b1 /\ di <= ai + bi /\ dx <= ax + bx /\ df <= af + bf) /\
    (Rabs (a1 - b1) <= d1 /\ Rabs (ai - bi) <= di /\ Rabs (ax - bx) <= dx /\ Rabs (af - bf) <= df))%R.
Print Assumptions matnorm_sub.
Example matnorm_sub_nonvacuous :
  Proofs.Matrix.wf (mkM (A:=MatNormsR.AR) [1%R; (-2)%R; 0%R; 4%R; 0%R; (-5)%R] 2 3) /\ Proofs.Matrix.wf (mat_new (A:=MatNormsR.AR) 2 3 7%R) /\ rows (mkM (A:=MatNormsR.AR) [1%R; (-2)%R; 0%R; 4%R; 0%R; (-5)%R] 2 3) = rows (mat_new (A:=MatNormsR.AR) 2 3 7%R) /\ cols (mkM (A:=MatNormsR.AR) [1%R; (-2)%R; 0%R; 4%R; 0%R; (-5)%R] 2 3) = cols (mat_new (A:=MatNormsR.AR) 2 3 7%R).
Proof. repeat split. Qed.

Theorem norm_p_sub : (forall (a b : matrix MatNormsR.AR) (p : R), Proofs.Matrix.wf a -> Proofs.Matrix.wf b -> rows a = rows b -> cols a = cols b -> 1 <= p ->
  exists d na nb nd, msub (A:=MatNormsR.AR) a b = Ok d /\
    mnorm_p (S:=MatNormsR.SAR) (fun x => MatNormLawsP.pw x p) (fun s => MatNormLawsP.pw s (1 / p)) a = Ok na /\
    mnorm_p (S:=MatNormsR.SAR) (fun x => MatNormLawsP.pw x p) (fun s => MatNormLawsP.pw s (1 / p)) b = Ok nb /\
    mnorm_p (S:=MatNormsR.SAR) (fun x => MatNormLawsP.pw x p) (fun s => MatNormLawsP.pw s (1 / p)) d = Ok nd /\
    nd <= na + nb /\ Rabs (na - nb) <= nd)%R.
Proof. exact MatNormLawsMore.norm_p_sub_lemma. Qed.
Check norm_p_sub : (forall (a b : matrix MatNormsR.AR) (p : R), Proofs.Matrix.wf a -> Proofs.Matrix.wf b -> rows a = rows b -> cols a = cols b -> 1 <= p ->
  exists d na nb nd, msub (A:=MatNormsR.AR) a b = Ok d /\
    mnorm_p (S:=MatNormsR.SAR) (fun x => MatNormLawsP.pw x p) (fun s => MatNormLawsP.pw s (1 / p)) a = Ok na /\
    mnorm_p (S:=MatNormsR.SAR) (fun x => MatNormLawsP.pw x p) (fun s => MatNormLawsP.pw s (1 / p)) b = Ok nb /\
    mnorm_p (S:=MatNormsR.SAR) (fun x => MatNormLawsP.pw x p) (fun s => MatNormLawsP.pw s (1 / p)) d = Ok nd /\
    nd <= na + nb /\ Rabs (na - nb) <= nd)%R.
Print Assumptions norm_p_sub.
Example norm_p_sub_nonvacuous :
  Proofs.Matrix.wf (mkM (A:=MatNormsR.AR) [1%R; (-2)%R; 0%R; 4%R; 0%R; (-5)%R] 2 3) /\ Proofs.Matrix.wf (mat_new (A:=MatNormsR.AR) 2 3 7%R) /\ rows (mkM (A:=MatNormsR.AR) [1%R; (-2)%R; 0%R; 4%R; 0%R; (-5)%R] 2 3) = rows (mat_new (A:=MatNormsR.AR) 2 3 7%R) /\ cols (mkM (A:=MatNormsR.AR) [1%R; (-2)%R; 0%R; 4%R; 0%R; (-5)%R] 2 3) = cols (mat_new (A:=MatNormsR.AR) 2 3 7%R) /\ (1 <= 3)%R.
Proof. repeat split. lra. Qed.

(* comparison of the norms (norm equivalence with explicit constants); s1 is the entrywise 1-norm norm_p(1) *)
Theorem matnorm_comparison : (forall (m : matrix MatNormsR.AR), Proofs.Matrix.wf m ->
  exists n1 ni nx nf s1, mnorm_1 (S:=MatNormsR.SAR) m = Ok n1 /\ mnorm_inf (S:=MatNormsR.SAR) m = Ok ni /\
    mnorm_max (S:=MatNormsR.SAR) m = Ok nx /\ mnorm_frob (S:=MatNormsR.SAR) m = Ok nf /\
    mnorm_p (S:=MatNormsR.SAR) (fun x => MatNormLawsP.pw x 1) (fun s => MatNormLawsP.pw s (1 / 1)) m = Ok s1 /\
    (nx <= n1 /\ nx <= ni /\ nx <= nf) /\
    (n1 <= INR (rows m) * nx /\ ni <= INR (cols m) * nx /\ nf <= R_sqrt.sqrt (INR (rows m * cols m)) * nx) /\
    (n1 <= R_sqrt.sqrt (INR (rows m)) * nf /\ ni <= R_sqrt.sqrt (INR (cols m)) * nf) /\
    (nf <= R_sqrt.sqrt (INR (cols m)) * n1 /\ nf <= R_sqrt.sqrt (INR (rows m)) * ni) /\
    (n1 <= s1 /\ ni <= s1 /\ nf <= s1))%R.
Proof. exact MatNormLawsMore.matnorm_comparison_lemma. Qed.
Check matnorm_comparison : (forall (m : matrix MatNormsR.AR), Proofs.Matrix.wf m ->
  exists n1 ni nx nf s1, mnorm_1 (S:=MatNormsR.SAR) m = Ok n1 /\ mnorm_inf (S:=MatNormsR.SAR) m = Ok ni /\
    mnorm_max (S:=MatNormsR.SAR) m = Ok nx /\ mnorm_frob (S:=MatNormsR.SAR) m = Ok nf /\
    mnorm_p (S:=MatNormsR.SAR) (fun x => MatNormLawsP.pw x 1) (fun s => MatNormLawsP.pw s (1 / 1)) m = Ok s1 /\
    (nx <= n1 /\ nx <= ni /\ nx <= nf) /\
    (n1 <= INR (rows m) * nx /\ ni <= INR (cols m) * nx /\ nf <= R_sqrt.sqrt (INR (rows m * cols m)) * nx) /\
    (n1 <= R_sqrt.sqrt (INR (rows m)) * nf /\ ni <= R_sqrt.sqrt (INR (cols m)) * nf) /\
    (nf <= R_sqrt.sqrt (INR (cols m)) * n1 /\ nf <= R_sqrt.sqrt (INR (rows m)) * ni) /\
    (n1 <= s1 /\ ni <= s1 /\ nf <= s1))%R.
Print Assumptions matnorm_comparison.
Example matnorm_comparison_nonvacuous :
  Proofs.Matrix.wf (mkM (A:=MatNormsR.AR) [1%R; (-2)%R; 0%R; 4%R; 0%R; (-5)%R] 2 3).
Proof. reflexivity. Qed.

(* norm_p is non-increasing in the exponent: 0 < p <= q -> norm_q <= norm_p *)
Theorem norm_p_monotone : (forall (m : matrix MatNormsR.AR) (p q : R), Proofs.Matrix.wf m -> 0 < p -> p <= q ->
  exists n_p n_q, mnorm_p (S:=MatNormsR.SAR) (fun x => MatNormLawsP.pw x p) (fun s => MatNormLawsP.pw s (1 / p)) m = Ok n_p /\
    mnorm_p (S:=MatNormsR.SAR) (fun x => MatNormLawsP.pw x q) (fun s => MatNormLawsP.pw s (1 / q)) m = Ok n_q /\ n_q <= n_p)%R.
Proof. exact MatNormLawsMore.norm_p_monotone_lemma. Qed.
Check norm_p_monotone : (forall (m : matrix MatNormsR.AR) (p q : R), Proofs.Matrix.wf m -> 0 < p -> p <= q ->
  exists n_p n_q, mnorm_p (S:=MatNormsR.SAR) (fun x => MatNormLawsP.pw x p) (fun s => MatNormLawsP.pw s (1 / p)) m = Ok n_p /\
    mnorm_p (S:=MatNormsR.SAR) (fun x => MatNormLawsP.pw x q) (fun s => MatNormLawsP.pw s (1 / q)) m = Ok n_q /\ n_q <= n_p)%R.
Print Assumptions norm_p_monotone.
Example norm_p_monotone_nonvacuous :
  Proofs.Matrix.wf (mkM (A:=MatNormsR.AR) [1%R; (-2)%R; 0%R; 4%R; 0%R; (-5)%R] 2 3) /\ (0 < / 2)%R /\ (/ 2 <= 3)%R.
Proof. split; [reflexivity|split; lra]. Qed.

(* the model's identity matrix: norm_1 = norm_inf = norm_max = 1, norm_frob = sqrt n *)
Theorem matnorm_eye : (forall n : nat, (1 <= n)%nat ->
  exists e, eye (A:=MatNormsR.AR) n = Ok e /\ mnorm_1 (S:=MatNormsR.SAR) e = Ok 1 /\ mnorm_inf (S:=MatNormsR.SAR) e = Ok 1 /\
    mnorm_max (S:=MatNormsR.SAR) e = Ok 1 /\ mnorm_frob (S:=MatNormsR.SAR) e = Ok (R_sqrt.sqrt (INR n)))%R.
Proof. exact MatNormLawsMore.matnorm_eye_lemma. Qed.
Check matnorm_eye : (forall n : nat, (1 <= n)%nat ->
  exists e, eye (A:=MatNormsR.AR) n = Ok e /\ mnorm_1 (S:=MatNormsR.SAR) e = Ok 1 /\ mnorm_inf (S:=MatNormsR.SAR) e = Ok 1 /\
    mnorm_max (S:=MatNormsR.SAR) e = Ok 1 /\ mnorm_frob (S:=MatNormsR.SAR) e = Ok (R_sqrt.sqrt (INR n)))%R.
Print Assumptions matnorm_eye.
Example matnorm_eye_nonvacuous :
  1 <= 3.
Proof. lia. Qed.

(* ---------- the norms at the PRIMITIVE-FLOAT instance itself (package matnorm) ----------
   [AF]/[SAF] = IEEE binary64, the instance the correspondence check runs bit for bit against the Rust code; through Flocq's
   specification of Coq's primitive floats.  [MatNormLawsFloat.fm m] is the real matrix of the values of the entries, the norms
   on the right are the same model functions at the exact reals.  No underflow condition for norm_1 / norm_inf / norm_max:
   float additions never lose relative accuracy to underflow, |.| and the comparisons are exact. *)
Theorem mnorm_1_float : (forall (m : matrix AF), Proofs.Matrix.wf m ->
  (forall j, (j < cols m)%nat -> ffinite (colsum (SS:=SAF) m j)) -> INR (rows m) * u64 < 1 ->
  exists Rf N, mnorm_1 (S:=SAF) m = Ok Rf /\ ffinite Rf /\ mnorm_1 (S:=MatNormsR.SAR) (MatNormLawsFloat.fm m) = Ok N /\
    Rabs (FR Rf - N) <= g64 (rows m) * N)%R.
Proof. exact MatNormLawsFloat.mnorm_1_float_lemma. Qed.
Check mnorm_1_float : (forall (m : matrix AF), Proofs.Matrix.wf m ->
  (forall j, (j < cols m)%nat -> ffinite (colsum (SS:=SAF) m j)) -> INR (rows m) * u64 < 1 ->
  exists Rf N, mnorm_1 (S:=SAF) m = Ok Rf /\ ffinite Rf /\ mnorm_1 (S:=MatNormsR.SAR) (MatNormLawsFloat.fm m) = Ok N /\
    Rabs (FR Rf - N) <= g64 (rows m) * N)%R.
Print Assumptions mnorm_1_float.
Example mnorm_1_float_nonvacuous :
  Proofs.Matrix.wf (@mkM AF [1.5%float; (-2)%float; 3%float; 4%float] 2 2) /\
  (forall j, (j < cols (@mkM AF [1.5%float; (-2)%float; 3%float; 4%float] 2 2))%nat -> ffinite (colsum (SS:=SAF) (@mkM AF [1.5%float; (-2)%float; 3%float; 4%float] 2 2) j)) /\
  (INR (rows (@mkM AF [1.5%float; (-2)%float; 3%float; 4%float] 2 2)) * u64 < 1)%R.
Proof. split; [reflexivity|]. split.
  - intros [|[|j]] Hj; cbn in Hj; try lia; apply ffinite_SF; reflexivity.
  - cbn [rows INR]. pose proof u64_small. lra. Qed.

Theorem mnorm_inf_float : (forall (m : matrix AF), Proofs.Matrix.wf m ->
  (forall i, (i < rows m)%nat -> ffinite (rowsum (SS:=SAF) m i)) -> INR (cols m) * u64 < 1 ->
  exists Rf N, mnorm_inf (S:=SAF) m = Ok Rf /\ ffinite Rf /\ mnorm_inf (S:=MatNormsR.SAR) (MatNormLawsFloat.fm m) = Ok N /\
    Rabs (FR Rf - N) <= g64 (cols m) * N)%R.
Proof. exact MatNormLawsFloat.mnorm_inf_float_lemma. Qed.
Check mnorm_inf_float : (forall (m : matrix AF), Proofs.Matrix.wf m ->
  (forall i, (i < rows m)%nat -> ffinite (rowsum (SS:=SAF) m i)) -> INR (cols m) * u64 < 1 ->
  exists Rf N, mnorm_inf (S:=SAF) m = Ok Rf /\ ffinite Rf /\ mnorm_inf (S:=MatNormsR.SAR) (MatNormLawsFloat.fm m) = Ok N /\
    Rabs (FR Rf - N) <= g64 (cols m) * N)%R.
Print Assumptions mnorm_inf_float.
Example mnorm_inf_float_nonvacuous :
  Proofs.Matrix.wf (@mkM AF [1.5%float; (-2)%float; 3%float; 4%float] 2 2) /\
  (forall i, (i < rows (@mkM AF [1.5%float; (-2)%float; 3%float; 4%float] 2 2))%nat -> ffinite (rowsum (SS:=SAF) (@mkM AF [1.5%float; (-2)%float; 3%float; 4%float] 2 2) i)) /\
  (INR (cols (@mkM AF [1.5%float; (-2)%float; 3%float; 4%float] 2 2)) * u64 < 1)%R.
Proof. split; [reflexivity|]. split.
  - intros [|[|i]] Hi; cbn in Hi; try lia; apply ffinite_SF; reflexivity.
  - cbn [cols INR]. pose proof u64_small. lra. Qed.

(* norm_max of finite entries is exact *)
Theorem mnorm_max_float : (forall (m : matrix AF), Proofs.Matrix.wf m ->
  (forall i j, (i < rows m)%nat -> (j < cols m)%nat -> ffinite (entry (A:=AF) m i j)) ->
  exists Rf, mnorm_max (S:=SAF) m = Ok Rf /\ ffinite Rf /\ mnorm_max (S:=MatNormsR.SAR) (MatNormLawsFloat.fm m) = Ok (FR Rf))%R.
Proof. exact MatNormLawsFloat.mnorm_max_float_lemma. Qed.
Check mnorm_max_float : (forall (m : matrix AF), Proofs.Matrix.wf m ->
  (forall i j, (i < rows m)%nat -> (j < cols m)%nat -> ffinite (entry (A:=AF) m i j)) ->
  exists Rf, mnorm_max (S:=SAF) m = Ok Rf /\ ffinite Rf /\ mnorm_max (S:=MatNormsR.SAR) (MatNormLawsFloat.fm m) = Ok (FR Rf))%R.
Print Assumptions mnorm_max_float.
Example mnorm_max_float_nonvacuous :
  Proofs.Matrix.wf (@mkM AF [1.5%float; (-2)%float; 3%float; 4%float] 2 2) /\
  (forall i j, (i < rows (@mkM AF [1.5%float; (-2)%float; 3%float; 4%float] 2 2))%nat -> (j < cols (@mkM AF [1.5%float; (-2)%float; 3%float; 4%float] 2 2))%nat -> ffinite (entry (A:=AF) (@mkM AF [1.5%float; (-2)%float; 3%float; 4%float] 2 2) i j)).
Proof. split; [reflexivity|].
  intros [|[|i]] [|[|j]] Hi Hj; cbn in Hi, Hj; try lia; apply ffinite_SF; reflexivity. Qed.

(* norm_frob: finite result, finite entries, no square underflows (each is 0 or >= 2^-1022) -> relative error gam (rows*cols+1);
   the square root of a float never underflows and is correctly rounded (Flocq's Bsqrt_correct) *)
Theorem mnorm_frob_float : (forall (m : matrix AF) (Rf : PrimFloat.float), Proofs.Matrix.wf m ->
  mnorm_frob (S:=SAF) m = Ok Rf -> ffinite Rf ->
  (forall k, (k < length (buf m))%nat -> ffinite (nth k (buf m) 0%float)) ->
  (forall k, (k < length (buf m))%nat -> no_underflow (FR (nth k (buf m) 0%float) * FR (nth k (buf m) 0%float))) ->
  INR (rows m * cols m + 1) * u64 < 1 ->
  exists th N, Rabs th <= g64 (rows m * cols m + 1) /\
    mnorm_frob (S:=MatNormsR.SAR) (MatNormLawsFloat.fm m) = Ok N /\ FR Rf = N * (1 + th))%R.
Proof. exact MatNormLawsFloat.mnorm_frob_float_lemma. Qed.
Check mnorm_frob_float : (forall (m : matrix AF) (Rf : PrimFloat.float), Proofs.Matrix.wf m ->
  mnorm_frob (S:=SAF) m = Ok Rf -> ffinite Rf ->
  (forall k, (k < length (buf m))%nat -> ffinite (nth k (buf m) 0%float)) ->
  (forall k, (k < length (buf m))%nat -> no_underflow (FR (nth k (buf m) 0%float) * FR (nth k (buf m) 0%float))) ->
  INR (rows m * cols m + 1) * u64 < 1 ->
  exists th N, Rabs th <= g64 (rows m * cols m + 1) /\
    mnorm_frob (S:=MatNormsR.SAR) (MatNormLawsFloat.fm m) = Ok N /\ FR Rf = N * (1 + th))%R.
Print Assumptions mnorm_frob_float.
Example mnorm_frob_float_nonvacuous :
  let m := (@mkM AF [1.5%float; (-2)%float; 3%float; 4%float] 2 2) in
  Proofs.Matrix.wf m /\ (exists Rf, mnorm_frob (S:=SAF) m = Ok Rf /\ ffinite Rf) /\
  (forall k, (k < length (buf m))%nat -> ffinite (nth k (buf m) 0%float)) /\
  (forall k, (k < length (buf m))%nat -> no_underflow (FR (nth k (buf m) 0%float) * FR (nth k (buf m) 0%float))%R) /\
  (INR (rows m * cols m + 1) * u64 < 1)%R.
Proof. cbn zeta. split; [reflexivity|]. split; [eexists; split; [vm_compute; reflexivity|apply ffinite_SF; reflexivity]|].
  assert (E15 : FR 1.5%float = 1.5%R) by fr_eval. assert (E2 : FR (-2)%float = (-2)%R) by fr_eval.
  assert (E3 : FR 3%float = 3%R) by fr_eval. assert (E4 : FR 4%float = 4%R) by fr_eval.
  split; [|split].
  - intros [|[|[|[|k]]]] Hk; cbn in Hk; try lia; apply ffinite_SF; reflexivity.
  - intros [|[|[|[|k]]]] Hk; cbn in Hk; try lia; cbn [nth buf]; rewrite ?E15, ?E2, ?E3, ?E4;
      apply no_underflow_ge1; rewrite Rabs_pos_eq; lra.
  - cbn [rows cols Nat.mul Nat.add INR]. pose proof u64_small. lra. Qed.

(* what the code does with NaN, by computation at the float instance (and the same on the real code: bit-exact tie):
   f64::max ignores a NaN operand and the running maximum starts at 0.0, so norm_1 / norm_inf skip a column / row whose sum is
   NaN and norm_max skips NaN entries; norm_frob propagates it.  The real-number laws "zero iff all entries zero" and
   norm_max <= norm_inf therefore fail at binary64 on matrices containing NaN (they are theorems about finite data). *)
Theorem matnorm_float_nan_ignored : (let m1 := @mkM AF [Coq.Floats.PrimFloat.nan] 1 1 in
  let m2 := @mkM AF [Coq.Floats.PrimFloat.nan; 1%float] 1 2 in
  Proofs.Matrix.wf m1 /\ Proofs.Matrix.wf m2 /\ Coq.Floats.PrimFloat.is_nan (entry (A:=AF) m1 0 0) = true /\
  mnorm_1 (S:=SAF) m1 = Ok 0%float /\ mnorm_inf (S:=SAF) m1 = Ok 0%float /\ mnorm_max (S:=SAF) m1 = Ok 0%float /\
  (exists x, mnorm_frob (S:=SAF) m1 = Ok x /\ Coq.Floats.PrimFloat.is_nan x = true) /\
  mnorm_1 (S:=SAF) m2 = Ok 1%float /\ mnorm_inf (S:=SAF) m2 = Ok 0%float /\ mnorm_max (S:=SAF) m2 = Ok 1%float)%R.
Proof. exact MatNormLawsFloat.matnorm_float_nan_ignored_lemma. Qed.
Check matnorm_float_nan_ignored : (let m1 := @mkM AF [Coq.Floats.PrimFloat.nan] 1 1 in
  let m2 := @mkM AF [Coq.Floats.PrimFloat.nan; 1%float] 1 2 in
  Proofs.Matrix.wf m1 /\ Proofs.Matrix.wf m2 /\ Coq.Floats.PrimFloat.is_nan (entry (A:=AF) m1 0 0) = true /\
  mnorm_1 (S:=SAF) m1 = Ok 0%float /\ mnorm_inf (S:=SAF) m1 = Ok 0%float /\ mnorm_max (S:=SAF) m1 = Ok 0%float /\
  (exists x, mnorm_frob (S:=SAF) m1 = Ok x /\ Coq.Floats.PrimFloat.is_nan x = true) /\
  mnorm_1 (S:=SAF) m2 = Ok 1%float /\ mnorm_inf (S:=SAF) m2 = Ok 0%float /\ mnorm_max (S:=SAF) m2 = Ok 1%float)%R.
Print Assumptions matnorm_float_nan_ignored.

(* the two order laws behind [norms_spec] hold for the comparison of ALL binary64 values (NaN, infinities included), so
   [norms_spec] applies to the float instance with no hypothesis on the entries: norm_1 is 0.0 or a computed column sum, and
   `R < sum_j` is false for every computed column sum -- satisfied vacuously by a NaN sum, which is precisely how f64::max skips it *)
Theorem float_order_laws : (Proofs.MatNorms.OrdLaws AF)%R.
Proof. exact MatNormLawsFloatOrd.AF_OrdLaws. Qed.
Check float_order_laws : (Proofs.MatNorms.OrdLaws AF)%R.
Print Assumptions float_order_laws.

Theorem norms_spec_float : (forall (m : matrix AF), Proofs.Matrix.wf m ->
  (exists R, mnorm_1 (S:=SAF) m = Ok R /\ (forall j, (j < cols m)%nat -> Coq.Floats.PrimFloat.ltb R (colsum (SS:=SAF) m j) = false) /\
             (R = 0%float \/ exists j, (j < cols m)%nat /\ R = colsum (SS:=SAF) m j)) /\
  (exists R, mnorm_inf (S:=SAF) m = Ok R /\ (forall i, (i < rows m)%nat -> Coq.Floats.PrimFloat.ltb R (rowsum (SS:=SAF) m i) = false) /\
             (R = 0%float \/ exists i, (i < rows m)%nat /\ R = rowsum (SS:=SAF) m i)) /\
  (exists R, mnorm_max (S:=SAF) m = Ok R /\
             (forall i j, (i < rows m)%nat -> (j < cols m)%nat -> Coq.Floats.PrimFloat.ltb R (f_abs (entry (A:=AF) m i j)) = false) /\
             (R = 0%float \/ exists i j, (i < rows m)%nat /\ (j < cols m)%nat /\ R = f_abs (entry (A:=AF) m i j))))%R.
Proof. exact MatNormLawsFloatOrd.norms_spec_float_lemma. Qed.
Check norms_spec_float : (forall (m : matrix AF), Proofs.Matrix.wf m ->
  (exists R, mnorm_1 (S:=SAF) m = Ok R /\ (forall j, (j < cols m)%nat -> Coq.Floats.PrimFloat.ltb R (colsum (SS:=SAF) m j) = false) /\
             (R = 0%float \/ exists j, (j < cols m)%nat /\ R = colsum (SS:=SAF) m j)) /\
  (exists R, mnorm_inf (S:=SAF) m = Ok R /\ (forall i, (i < rows m)%nat -> Coq.Floats.PrimFloat.ltb R (rowsum (SS:=SAF) m i) = false) /\
             (R = 0%float \/ exists i, (i < rows m)%nat /\ R = rowsum (SS:=SAF) m i)) /\
  (exists R, mnorm_max (S:=SAF) m = Ok R /\
             (forall i j, (i < rows m)%nat -> (j < cols m)%nat -> Coq.Floats.PrimFloat.ltb R (f_abs (entry (A:=AF) m i j)) = false) /\
             (R = 0%float \/ exists i j, (i < rows m)%nat /\ (j < cols m)%nat /\ R = f_abs (entry (A:=AF) m i j))))%R.
Print Assumptions norms_spec_float.
Example norms_spec_float_nonvacuous :
  Proofs.Matrix.wf (@mkM AF [Coq.Floats.PrimFloat.nan; 1%float; (-2)%float; Coq.Floats.PrimFloat.infinity] 2 2).
Proof. reflexivity. Qed.

(* ---------- structure: matrix norms through the vector norms, for EVERY arithmetic (package matnorm) ----------
   no ring / order / field law is used, so these hold bit for bit at the float instance: the column sum maximised by
   norm_1 is the vector 1-norm of get_col(j), the row sum of norm_inf that of get_row(i); norm_frob is the vector 2-norm
   of the flat buffer; norm_p is the fold of the buffer. *)
Theorem colsum_is_norm_1_of_get_col : (forall (S : SArith) (m : matrix (SA S)) (j : nat), Proofs.Matrix.wf m -> (j < cols m)%nat ->
  exists v, get_col m j = Ok v /\ length v = rows m /\ colsum m j = Model.Vector.norm_1 v)%R.
Proof. intros S m j. exact (MatNormLawsStruct.colsum_get_col_lemma m j). Qed.
Check colsum_is_norm_1_of_get_col : (forall (S : SArith) (m : matrix (SA S)) (j : nat), Proofs.Matrix.wf m -> (j < cols m)%nat ->
  exists v, get_col m j = Ok v /\ length v = rows m /\ colsum m j = Model.Vector.norm_1 v)%R.
Print Assumptions colsum_is_norm_1_of_get_col.
Example colsum_is_norm_1_of_get_col_nonvacuous :
  Proofs.Matrix.wf (@mkM AF [1.5%float; (-2)%float; 3%float; 4%float; 0%float; (-0.5)%float] 2 3) /\ 2 < cols (@mkM AF [1.5%float; (-2)%float; 3%float; 4%float; 0%float; (-0.5)%float] 2 3).
Proof. split; [reflexivity|cbn; lia]. Qed.

Theorem rowsum_is_norm_1_of_get_row : (forall (S : SArith) (m : matrix (SA S)) (i : nat), Proofs.Matrix.wf m -> (i < rows m)%nat ->
  exists v, get_row m i = Ok v /\ length v = cols m /\ rowsum m i = Model.Vector.norm_1 v)%R.
Proof. intros S m i. exact (MatNormLawsStruct.rowsum_get_row_lemma m i). Qed.
Check rowsum_is_norm_1_of_get_row : (forall (S : SArith) (m : matrix (SA S)) (i : nat), Proofs.Matrix.wf m -> (i < rows m)%nat ->
  exists v, get_row m i = Ok v /\ length v = cols m /\ rowsum m i = Model.Vector.norm_1 v)%R.
Print Assumptions rowsum_is_norm_1_of_get_row.
Example rowsum_is_norm_1_of_get_row_nonvacuous :
  Proofs.Matrix.wf (@mkM AF [1.5%float; (-2)%float; 3%float; 4%float; 0%float; (-0.5)%float] 2 3) /\ 1 < rows (@mkM AF [1.5%float; (-2)%float; 3%float; 4%float; 0%float; (-0.5)%float] 2 3).
Proof. split; [reflexivity|cbn; lia]. Qed.

Theorem mnorm_frob_is_norm_2_of_buf : (forall (S : SArith) (m : matrix (SA S)), Proofs.Matrix.wf m ->
  mnorm_frob m = Ok (Model.Vector.norm_2 (@OV.Base.Arith.abs (SA S)) (buf m)))%R.
Proof. intros S m. exact (MatNormLawsStruct.mnorm_frob_norm_2_lemma m). Qed.
Check mnorm_frob_is_norm_2_of_buf : (forall (S : SArith) (m : matrix (SA S)), Proofs.Matrix.wf m ->
  mnorm_frob m = Ok (Model.Vector.norm_2 (@OV.Base.Arith.abs (SA S)) (buf m)))%R.
Print Assumptions mnorm_frob_is_norm_2_of_buf.
Example mnorm_frob_is_norm_2_of_buf_nonvacuous :
  Proofs.Matrix.wf (@mkM AF [1.5%float; (-2)%float; 3%float; 4%float; 0%float; (-0.5)%float] 2 3).
Proof. reflexivity. Qed.

Theorem mnorm_p_is_fold_of_buf : (forall (S : SArith) (pw root : SA S -> SA S) (m : matrix (SA S)), Proofs.Matrix.wf m ->
  mnorm_p pw root m = Ok (root (fold_left (fun acc x => OV.Base.Arith.add acc (pw (OV.Base.Arith.abs x))) (buf m) (@OV.Base.Arith.zero (SA S)))))%R.
Proof. intros S pw root m. exact (MatNormLawsStruct.mnorm_p_fold_lemma pw root m). Qed.
Check mnorm_p_is_fold_of_buf : (forall (S : SArith) (pw root : SA S -> SA S) (m : matrix (SA S)), Proofs.Matrix.wf m ->
  mnorm_p pw root m = Ok (root (fold_left (fun acc x => OV.Base.Arith.add acc (pw (OV.Base.Arith.abs x))) (buf m) (@OV.Base.Arith.zero (SA S)))))%R.
Print Assumptions mnorm_p_is_fold_of_buf.
Example mnorm_p_is_fold_of_buf_nonvacuous :
  Proofs.Matrix.wf (@mkM AF [1.5%float; (-2)%float; 3%float; 4%float; 0%float; (-0.5)%float] 2 3).
Proof. reflexivity. Qed.
