(* Proofs/RoundLUMult.v -- partial pivoting keeps the computed multipliers small: at the rounded reals (the same Gallina
   lu_decomp at ARm, with the standard-model hypothesis on the division only),

     lu_multipliers_bounded_lemma :  lu_decomp m = Ok (lu, piv, perm), all pivots lu_kk nonzero  ->
                                     |lu_ik| <= 1 + u   for every k < i < n      (the entries of L^ below the diagonal).

   With it the bound |dA| <= c |L^||U^| of Proofs/RoundLUError.v / RoundSolveLU.v reads entrywise in terms of U^ alone:
   (|L^||U^|)_ic <= (1 + u) Sum_{k <= min(i,c)} |u_kc|.  (How large U^ is compared with A is the growth factor; it
   is not estimated.)
   Proof: the pivot search returns a row whose entry has maximal magnitude in the column (at the reals); the exchange
   brings it to the diagonal; each multiplier is a rounded quotient of magnitude at most 1; later steps only permute
   the multipliers already computed. *)
From Coq Require Import List Arith Lia Bool Reals Lra Psatz.
From OV Require Import Base.Panic Base.Arith Base.RoundModel Model.Vector Model.Matrix Model.Solve
  Proofs.Matrix Proofs.LUPrim Proofs.RoundDot Proofs.RoundMatvec Proofs.RoundBacksolve Proofs.RoundLUFun Proofs.RoundLUTrace.
Import ListNotations.
Local Open Scope R_scope.

Section LUMult.
Variable u : R.
Hypothesis u_range : 0 <= u < 1.
Variables fadd fsub fmul fdiv : R -> R -> R.
Hypothesis fdiv_ok : forall x y, y <> 0 -> exists d, Rabs d <= u /\ fdiv x y = x / y * (1 + d).

Notation AR := (ARm fadd fsub fmul fdiv).
Notation stepf := (stepf fsub fmul fdiv).
Notation search_body := (search_body fadd fsub fmul fdiv).
Notation lu_body := (lu_body fadd fsub fmul fdiv).
Notation lu_row := (lu_row fadd fsub fmul fdiv).

(* the pivot search returns a maximal entry *)
Lemma search_spec_max (m : matrix AR) (n s : nat) : shape m n n -> (s < n)%nat ->
  exists mx imax, for_ s n (search_body m s) (0, s) = Ok (mx, imax) /\ (s <= imax)%nat /\ (imax < n)%nat /\
    mx = Rabs (ent (A := AR) m imax s) /\
    (forall r, (s <= r)%nat -> (r < n)%nat -> Rabs (ent (A := AR) m r s) <= mx).
Proof.
  intros SH Hs.
  destruct (for_inv (fun k (st : R * nat) => (s <= snd st)%nat /\ (snd st < n)%nat /\ 0 <= fst st /\
              (k = s -> fst st = 0 /\ snd st = s) /\
              ((s < k)%nat -> fst st = Rabs (ent (A := AR) m (snd st) s)) /\
              (forall r, (s <= r)%nat -> (r < k)%nat -> Rabs (ent (A := AR) m r s) <= fst st))
            s n (search_body m s) (0, s)) as ([mx imax] & E & H1 & H2 & H3 & _ & H5 & H6).
  - lia.
  - cbn [fst snd]. split; [lia|]. split; [lia|]. split; [lra|]. split; [auto|]. split; [intros; lia|intros; lia].
  - intros k [mx im] Hk (H1 & H2 & H3 & H4 & H5 & H6). cbn [fst snd] in *.
    unfold RoundLUTrace.search_body. rewrite (mget_ok (A := AR) m n n k s SH) by lia. cbn [bind].
    change (gtb (A := AR) (abs (a := AR) (ent (A := AR) m k s)) mx)
      with (if Rlt_dec mx (Rabs (ent (A := AR) m k s)) then true else false).
    change (abs (a := AR) (ent (A := AR) m k s)) with (Rabs (ent (A := AR) m k s)).
    destruct (Rlt_dec mx (Rabs (ent (A := AR) m k s))) as [L|L].
    + eexists; split; [reflexivity|]. cbn [fst snd].
      split; [lia|]. split; [lia|]. split; [lra|]. split; [intros; lia|]. split; [reflexivity|].
      intros r Hr1 Hr2. destruct (Nat.eq_dec r k) as [->|Ne]; [lra|]. specialize (H6 r Hr1 ltac:(lia)). lra.
    + eexists; split; [reflexivity|]. cbn [fst snd].
      split; [exact H1|]. split; [exact H2|]. split; [exact H3|]. split; [intros; lia|]. split.
      * intros _. destruct (Nat.eq_dec k s) as [->|Ne].
        -- destruct (H4 eq_refl) as (Z & ->). pose proof (Rabs_pos (ent (A := AR) m s s)). lra.
        -- apply H5. lia.
      * intros r Hr1 Hr2. destruct (Nat.eq_dec r k) as [->|Ne]; [lra|]. apply H6; lia.
  - cbn [fst snd] in *. exists mx, imax. split; [exact E|]. split; [exact H1|]. split; [exact H2|].
    split; [apply H5; lia|]. intros r Hr1 Hr2. now apply H6.
Qed.

(* one step, with the size of the new multipliers *)
Lemma lu_body_spec_max (m perm : matrix AR) (piv n s : nat) : shape m n n -> shape perm n n -> (s < n)%nat ->
  exists m' piv' perm' p, lu_body true s (m, piv, perm) = Ok (m', piv', perm') /\
    (s <= p)%nat /\ (p < n)%nat /\ shape m' n n /\ shape perm' n n /\
    ((forall r c, (r < n)%nat -> (c < n)%nat ->
        ent (A := AR) m' r c = stepf (fun r c => ent (A := AR) m (tr s p r) c) s r c) /\
     (forall r, (s < r)%nat -> (r < n)%nat -> Rabs (ent (A := AR) m' r s) <= 1 + u)
     \/
     ((forall r c, (r < n)%nat -> (c < n)%nat -> ent (A := AR) m' r c = ent (A := AR) m r c) /\
      p = s /\ ent (A := AR) m s s = 0)).
Proof using u_range fdiv_ok.
  intros SM SP Hs. unfold RoundLUTrace.lu_body. destruct (SM) as (WM & RM & CM). rewrite RM.
  destruct (search_spec_max m n s SM Hs) as (mx & imax & Es & H1 & H2 & Hmx & Hmax). rewrite Es. cbn [bind].
  assert (SW : exists m1 piv1 perm1,
            (if negb (imax =? s)%nat then
               let* perm0 := swap_rows perm s imax in let* m0 := swap_rows m s imax in Ok (m0, S piv, perm0)
             else Ok (m, piv, perm)) = Ok (m1, piv1, perm1) /\ shape m1 n n /\ shape perm1 n n /\
            (forall r c, (r < n)%nat -> (c < n)%nat -> ent (A := AR) m1 r c = ent (A := AR) m (tr s imax r) c) /\
            (imax = s -> m1 = m)).
  { destruct (Nat.eqb_spec imax s) as [->|Ne]; cbn [negb].
    - exists m, piv, perm. split; [reflexivity|]. split; [exact SM|]. split; [exact SP|].
      split; [intros r c _ _; now rewrite tr_same|auto].
    - destruct (swap_rows_ok (A := AR) perm n n s imax SP Hs H2) as (perm1 & Ep & Sp1 & Gp).
      destruct (swap_rows_ok (A := AR) m n n s imax SM Hs H2) as (m1 & Em & Sm1 & Gm).
      rewrite Ep. cbn [bind]. rewrite Em. cbn [bind]. exists m1, (S piv), perm1.
      split; [reflexivity|]. split; [exact Sm1|]. split; [exact Sp1|].
      split; [intros r c _ Hc; now apply Gm|intros; contradiction]. }
  destruct SW as (m1 & piv1 & perm1 & E1 & Sm1 & Sp1 & Gm & Same). rewrite E1. cbn [bind andb].
  change (eqb (a := AR) mx 0) with (if Req_EM_T mx 0 then true else false).
  destruct (Req_EM_T mx 0) as [Z|NZ].
  - (* skipped: all of the column, the pivot included, is zero *)
    assert (Z0 : ent (A := AR) m s s = 0).
    { specialize (Hmax s ltac:(lia) Hs). rewrite Z in Hmax. pose proof (Rabs_pos (ent (A := AR) m s s)).
      destruct (Req_dec (ent (A := AR) m s s) 0) as [E0|N0]; [exact E0|]. apply Rabs_pos_lt in N0. lra. }
    assert (Ei : imax = s).
    { (* the search never moved: every entry has magnitude <= 0, so no strict improvement; re-run the spec of
         Proofs/RoundLUTrace.v, which records it *)
      destruct (search_spec fadd fsub fmul fdiv m n s SM Hs) as (mx' & imax' & Es' & _ & _ & H3').
      rewrite Es in Es'. injection Es' as <- <-. exact (proj1 (H3' Z)). }
    exists m1, piv1, perm1, s.
    split; [reflexivity|]. split; [lia|]. split; [exact Hs|]. split; [exact Sm1|]. split; [exact Sp1|].
    right. rewrite (Same Ei). auto.
  - destruct (Sm1) as (W1 & R1 & C1). rewrite R1.
    destruct (lu_elim_spec fadd fsub fmul fdiv m1 n s Sm1 Hs) as (m' & E' & S' & G'). rewrite E'. cbn [bind].
    exists m', piv1, perm1, imax.
    split; [reflexivity|]. split; [exact H1|]. split; [exact H2|]. split; [exact S'|]. split; [exact Sp1|].
    left. split.
    + intros r c Hr Hc. rewrite (G' r c Hr Hc). apply (stepf_ext fsub fmul fdiv _ _ n); assumption.
    + (* the new multipliers: quotients of magnitude at most 1, rounded *)
      intros r Hr1 Hr2. rewrite (G' r s Hr2 Hs). unfold RoundLUFun.stepf.
      destruct (Nat.ltb_spec s r); [|lia]. rewrite Nat.ltb_irrefl, Nat.eqb_refl.
      rewrite (Gm r s Hr2 Hs), (Gm s s Hs Hs). rewrite tr_l.
      set (a := ent (A := AR) m (tr s imax r) s). set (pv := ent (A := AR) m imax s).
      assert (Hpv : Rabs pv = mx) by (symmetry; exact Hmx).
      assert (Ha : Rabs a <= mx).
      { apply Hmax.
        - unfold tr. destruct (r =? s)%nat; [lia|]. destruct (r =? imax)%nat; lia.
        - apply tr_lt; lia. }
      assert (Npv : pv <> 0).
      { intros Zp. rewrite Zp, Rabs_R0 in Hpv. auto. }
      destruct (fdiv_ok a pv Npv) as (d & Hd & Ed). rewrite Ed.
      assert (Pp : 0 < Rabs pv) by now apply Rabs_pos_lt.
      rewrite Rabs_mult. unfold Rdiv. rewrite Rabs_mult, Rabs_inv.
      assert (Q : Rabs a * / Rabs pv <= 1).
      { apply (Rmult_le_reg_r (Rabs pv)); [exact Pp|]. rewrite Rmult_assoc, Rinv_l by lra. lra. }
      assert (D1 : Rabs (1 + d) <= 1 + u).
      { eapply Rle_trans; [apply Rabs_triang|]. rewrite Rabs_R1. lra. }
      assert (0 <= Rabs a * / Rabs pv).
      { apply Rmult_le_pos; [apply Rabs_pos|]. apply Rlt_le, Rinv_0_lt_compat. exact Pp. }
      pose proof (Rabs_pos (1 + d)). nra.
Qed.

(* the multipliers already computed *)
Definition MultOK (n s : nat) (E : nat -> nat -> R) : Prop :=
  forall k r, (k < s)%nat -> (k < r)%nat -> (r < n)%nat -> Rabs (E r k) <= 1 + u.

Theorem lu_multipliers_bounded_lemma (m lu perm : matrix AR) (piv : nat) :
  wf m -> lu_decomp m = Ok (lu, piv, perm) ->
  (forall k, (k < rows m)%nat -> ent (A := AR) lu k k <> 0) ->
  forall i k, (k < i)%nat -> (i < rows m)%nat -> Rabs (ent (A := AR) lu i k) <= 1 + u.
Proof using u_range fdiv_ok.
  intros W E Dg. unfold lu_decomp in E. rewrite (lu_gen_unfold fadd fsub fmul fdiv) in E.
  destruct (Nat.eqb_spec (rows m) (cols m)) as [Sq|]; cbn [negb] in E; [|discriminate].
  set (n := rows m) in *.
  assert (SM : shape m n n) by (split; [exact W|split; [reflexivity|symmetry; exact Sq]]).
  destruct (eye_ok (A := AR) n) as (p0 & Ep & SP0 & GP0). rewrite Ep in E. cbn [bind] in E.
  destruct (for_inv (fun s (st : matrix AR * nat * matrix AR) =>
              shape (fst (fst st)) n n /\ shape (snd st) n n /\
              (MultOK n s (ent (A := AR) (fst (fst st))) \/
               exists c, (c < s)%nat /\ ent (A := AR) (fst (fst st)) c c = 0))
            0%nat n (lu_body true) (m, 0%nat, p0)) as ([[lu' piv'] perm'] & E' & SL & SP & GD).
  - lia.
  - cbn [fst snd]. split; [exact SM|]. split; [exact SP0|]. left. intros k r Hk. lia.
  - intros s [[m1 piv1] perm1] Hs (S1 & SP1 & GD). cbn [fst snd] in *.
    destruct (lu_body_spec_max m1 perm1 piv1 n s S1 SP1 ltac:(lia))
      as (m' & piv2 & perm2 & p & Eb & Hp1 & Hp2 & S' & SP' & GM').
    exists (m', piv2, perm2). split; [exact Eb|]. cbn [fst snd]. split; [exact S'|]. split; [exact SP'|].
    destruct GD as [MO|(c & Hc & Z)].
    + destruct GM' as [(GE & GQ)|(GS & Ep' & Z)].
      * left. intros k r Hk Hkr Hr.
        destruct (Nat.eq_dec k s) as [->|Nk]; [now apply GQ|].
        rewrite (GE r k) by lia. rewrite stepf_left by lia.
        apply MO; [lia| |apply tr_lt; lia].
        unfold tr. destruct (r =? s)%nat; [lia|]. destruct (r =? p)%nat; lia.
      * right. exists s. split; [lia|]. rewrite (GS s s) by lia. exact Z.
    + right. exists c. split; [lia|].
      destruct GM' as [(GE & _)|(GS & _ & _)].
      * rewrite (GE c c) by lia. rewrite stepf_low by lia. rewrite tr_other by lia. exact Z.
      * rewrite (GS c c) by lia. exact Z.
  - rewrite E' in E. injection E as <- <- <-. cbn [fst snd] in *.
    destruct GD as [MO|(c & Hc & Z)]; [|exfalso; exact (Dg c Hc Z)].
    intros i k Hki Hi. apply MO; lia.
Qed.

(* hence |L^||U^| is bounded by the column sums of |U^| *)
Corollary lu_abs_product_bound_lemma (m lu perm : matrix AR) (piv : nat) :
  wf m -> lu_decomp m = Ok (lu, piv, perm) ->
  (forall k, (k < rows m)%nat -> ent (A := AR) lu k k <> 0) ->
  forall i c, (i < rows m)%nat -> (c < rows m)%nat ->
    Rsum (rows m) (fun k => Rabs (tril1 fadd fsub fmul fdiv lu i k) * Rabs (triu fadd fsub fmul fdiv lu k c))
    <= (1 + u) * Rsum (rows m) (fun k => Rabs (triu fadd fsub fmul fdiv lu k c)).
Proof using u_range fdiv_ok.
  intros W E Dg i c Hi Hc. rewrite <- Rsum_scal. apply Rsum_le. intros k Hk.
  apply Rmult_le_compat_r; [apply Rabs_pos|]. unfold RoundBacksolve.tril1.
  destruct (Nat.ltb_spec k i) as [L|L].
  - exact (lu_multipliers_bounded_lemma m lu perm piv W E Dg i k L Hi).
  - destruct (Nat.eqb_spec k i); [rewrite Rabs_R1; lra|rewrite Rabs_R0; lra].
Qed.

End LUMult.
