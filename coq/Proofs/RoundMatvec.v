(* Proofs/RoundMatvec.v -- the dense matrix-vector product of Model/Matrix.v ([multiply]: for every row, push
   get_row(row).dot(vec)) in the STANDARD MODEL of floating-point arithmetic (Base/RoundModel.v), the same Gallina
   [multiply] instantiated at [ARm]:

     matvec_backward_error_lemma :  fl(A x) = (A + dA) x   with  |dA_ij| <= gam n |a_ij|  componentwise,  n = cols A
     matvec_forward_error_lemma  :  |fl(A x) - A x|_i <= gam n  Sum_j |a_ij| |x_j|                      (Higham (3.11))

   for every shape with n u < 1 -- the "to rounding accuracy" half of the product claims of C03.  As in
   Proofs/RoundDot.v the count n uses the exact first addition 0 + a_i0 x_0 of every row ([fadd_0_mul]). *)
From Coq Require Import List Arith Lia Reals Lra Psatz.
From OV Require Import Base.Panic Base.Arith Base.RoundModel Model.Vector Model.Matrix Proofs.Matrix Proofs.RoundDot.
Import ListNotations.
Local Open Scope R_scope.

(* finite choice (provable: induction on the bound) *)
Lemma fin_choice {X} (d : X) (P : nat -> X -> Prop) n :
  (forall i, (i < n)%nat -> exists x, P i x) -> exists F : nat -> X, forall i, (i < n)%nat -> P i (F i).
Proof.
  induction n as [|n IH]; intros H.
  - exists (fun _ => d). intros; lia.
  - destruct IH as (F & HF); [intros; apply H; lia|].
    destruct (H n ltac:(lia)) as (x & Hx).
    exists (fun i => if (i =? n)%nat then x else F i). intros i Hi.
    destruct (Nat.eqb_spec i n) as [->|Ne]; [exact Hx|apply HF; lia].
Qed.

Section RoundMatvec.
Variable u : R.
Hypothesis u_range : 0 <= u < 1.
Variables fadd fsub fmul fdiv : R -> R -> R.
Hypothesis fadd_ok : forall x y, exists d, Rabs d <= u /\ fadd x y = (x + y) * (1 + d).
Hypothesis fmul_ok : forall x y, exists d, Rabs d <= u /\ fmul x y = x * y * (1 + d).
Hypothesis fadd_0_mul : forall a b, fadd 0 (fmul a b) = fmul a b.

Notation AR := (ARm fadd fsub fmul fdiv).
Notation gam := (gam u).

(* entry (i,j) of the stored matrix, as a real *)
Definition rentry (m : matrix AR) (i j : nat) : R := nth (i * cols m + j) (buf m) 0.

Lemma multiply_Ok_rows (m : matrix AR) (v w : list R) : wf m -> multiply m v = Ok w ->
  length v = cols m /\ length w = rows m /\
  forall i, (i < rows m)%nat ->
    nth i w 0 = sum_n (A := AR) (cols m) (fun k => fmul (rentry m i k) (nth k v 0)).
Proof.
  intros W E.
  assert (Lv : length v = cols m).
  { destruct (Nat.eq_dec (length v) (cols m)) as [L|L]; [exact L|].
    rewrite (multiply_guard (A := AR) m v L) in E. discriminate. }
  destruct (multiply_msp (A := AR) (rows m) (cols m) (entry m) m v (msp_self m W) Lv) as (w' & E' & Lw & Hw).
  rewrite E in E'. injection E' as <-. split; [exact Lv|]. split; [exact Lw|].
  intros i Hi. exact (Hw i Hi).
Qed.

Theorem matvec_backward_error_lemma (m : matrix AR) (v w : list R) :
  wf m -> INR (cols m) * u < 1 -> multiply m v = Ok w ->
  length w = rows m /\
  exists dA : nat -> nat -> R,
    (forall i j, (i < rows m)%nat -> (j < cols m)%nat -> Rabs (dA i j) <= gam (cols m) * Rabs (rentry m i j)) /\
    forall i, (i < rows m)%nat ->
      nth i w 0 = Rsum (cols m) (fun j => (rentry m i j + dA i j) * nth j v 0).
Proof using u_range fadd_ok fmul_ok fadd_0_mul.
  intros W Hn E. destruct (multiply_Ok_rows m v w W E) as (Lv & Lw & Hrow). split; [exact Lw|].
  destruct (fin_choice (fun _ : nat => 0)
              (fun i (d : nat -> R) =>
                 (forall j, (j < cols m)%nat -> Rabs (d j) <= gam (cols m) * Rabs (rentry m i j)) /\
                 nth i w 0 = Rsum (cols m) (fun j => (rentry m i j + d j) * nth j v 0)) (rows m))
    as (F & HF).
  - intros i Hi.
    destruct (sum_prod_round u u_range fadd fsub fmul fdiv fadd_ok fmul_ok fadd_0_mul (cols m)
                (fun k => rentry m i k) (fun k => nth k v 0)) as (Wt & HW & EW).
    exists (fun j => rentry m i j * (Wt j - 1)). split.
    + intros j Hj. rewrite Rabs_mult, Rmult_comm. apply Rmult_le_compat_r; [apply Rabs_pos|].
      apply (bnd_gam u u_range); [now apply HW|exact Hn].
    + rewrite (Hrow i Hi), EW. apply Rsum_ext. intros j Hj. ring.
  - exists F. split.
    + intros i j Hi Hj. now apply (proj1 (HF i Hi)).
    + intros i Hi. exact (proj2 (HF i Hi)).
Qed.

Theorem matvec_forward_error_lemma (m : matrix AR) (v w : list R) :
  wf m -> INR (cols m) * u < 1 -> multiply m v = Ok w ->
  forall i, (i < rows m)%nat ->
    Rabs (nth i w 0 - Rsum (cols m) (fun j => rentry m i j * nth j v 0))
      <= gam (cols m) * Rsum (cols m) (fun j => Rabs (rentry m i j) * Rabs (nth j v 0)).
Proof using u_range fadd_ok fmul_ok fadd_0_mul.
  intros W Hn E i Hi. destruct (matvec_backward_error_lemma m v w W Hn E) as (_ & dA & HdA & Hrow).
  rewrite (Hrow i Hi), <- Rsum_minus.
  rewrite (Rsum_ext _ _ (fun j => nth j v 0 * dA i j)) by (intros; ring).
  eapply Rle_trans; [apply Rsum_abs|]. rewrite <- Rsum_scal. apply Rsum_le. intros j Hj.
  rewrite Rabs_mult. specialize (HdA i j Hi Hj). pose proof (Rabs_pos (nth j v 0)). nra.
Qed.

End RoundMatvec.
