(* Proofs/Newton2Cdq.v -- C17 over the reals: accuracy of the derivative the scalar solve uses
   (package newton2).  Newton<f64>::solve divides by the CENTRAL difference quotient
        deriv = (f(y + delta) - f(y - delta)) / (2 delta).
   central_diff_trunc     for g three times differentiable on [y - |d|, y + |d|] with |g'''| <= B there:
                            |(g(y + d) - g(y - d)) / (2 d) - g'(y)| <= (d^2 / 6) B      (either sign of d);
   scalar_deriv_trunc_lemma   the same about the pass of the model: whenever scalar_step answers, the
                            slope it divided by is within (delta^2/6) sup|f'''| of f'(y).
   Method: three applications of a comparison lemma (u(0) = 0, |u'| <= w' on [0, e] => |u| <= w),
   itself the mean value theorem applied to u - w and u + w. *)
From Coq Require Import List Arith Lia Reals Lra Psatz.
From OV Require Import Base.Panic Base.Arith Model.Newton
  Proofs.NewtonLoop Proofs.Newton Proofs.NewtonReal Proofs.Newton2Deriv Proofs.Newton2Real Proofs.Newton2Scalar.
Import ListNotations.
Local Open Scope R_scope.

(* |u'| <= w' on [0, e], u(0) = w(0) = 0  =>  |u| <= w on [0, e] *)
Lemma compare0 (u v w w' : R -> R) (e : R) :
  (forall t, 0 <= t <= e -> derivable_pt_lim u t (v t)) ->
  (forall t, 0 <= t <= e -> derivable_pt_lim w t (w' t)) ->
  u 0 = 0 -> w 0 = 0 ->
  (forall t, 0 <= t <= e -> Rabs (v t) <= w' t) ->
  forall t, 0 <= t <= e -> Rabs (u t) <= w t.
Proof.
  intros Hu Hw U0 W0 Hb t Ht.
  assert (Hm : forall t, 0 <= t <= e -> derivable_pt_lim (fun t => u t - w t) t (v t - w' t)).
  { intros s Hs. apply (derivable_pt_lim_minus u w s); auto. }
  assert (Hp : forall t, 0 <= t <= e -> derivable_pt_lim (fun t => u t + w t) t (v t + w' t)).
  { intros s Hs. apply (derivable_pt_lim_plus u w s); auto. }
  assert (H0 : 0 <= 0 <= e) by lra.
  destruct (mvt_between _ _ 0 e Hm t 0 Ht H0) as (c1 & Hc1 & E1).
  destruct (mvt_between _ _ 0 e Hp t 0 Ht H0) as (c2 & Hc2 & E2).
  rewrite Rmin_right, Rmax_left in Hc1, Hc2 by lra.
  assert (B1 : Rabs (v c1) <= w' c1) by (apply Hb; lra).
  assert (B2 : Rabs (v c2) <= w' c2) by (apply Hb; lra).
  rewrite U0, W0 in E1, E2.
  assert (S1 : v c1 - w' c1 <= 0) by (unfold Rabs in B1; destruct (Rcase_abs (v c1)); lra).
  assert (S2 : 0 <= v c2 + w' c2) by (unfold Rabs in B2; destruct (Rcase_abs (v c2)); lra).
  assert (u t - w t <= 0) by nra.
  assert (0 <= u t + w t) by nra.
  unfold Rabs. destruct (Rcase_abs (u t)); lra.
Qed.

Section Central.
Variables (g g1 g2 g3 : R -> R) (y e B : R).
Hypothesis He : 0 < e.
Hypothesis H1 : forall x, y - e <= x <= y + e -> derivable_pt_lim g x (g1 x).
Hypothesis H2 : forall x, y - e <= x <= y + e -> derivable_pt_lim g1 x (g2 x).
Hypothesis H3 : forall x, y - e <= x <= y + e -> derivable_pt_lim g2 x (g3 x).
Hypothesis HB : forall x, y - e <= x <= y + e -> Rabs (g3 x) <= B.

Let h (t : R) : R := g (y + t) - g (y - t) - 2 * g1 y * t.
Let k (t : R) : R := g1 (y + t) + g1 (y - t) - 2 * g1 y.
Let l (t : R) : R := g2 (y + t) - g2 (y - t).
Let l' (t : R) : R := g3 (y + t) + g3 (y - t).

Lemma h_der t : 0 <= t <= e -> derivable_pt_lim h t (k t).
Proof.
  intros Ht. unfold h, k.
  assert (D1 : derivable_pt_lim (fun t => g (y + t)) t (g1 (y + t))) by (apply shift_plus, H1; lra).
  assert (D2 : derivable_pt_lim (fun t => g (y - t)) t (- g1 (y - t))) by (apply shift_minus, H1; lra).
  assert (D3 : derivable_pt_lim (fun t => 2 * g1 y * t) t (2 * g1 y)).
  { dpoly. }
  eapply dlim_val.
  - exact (derivable_pt_lim_minus _ _ _ _ _ (derivable_pt_lim_minus _ _ _ _ _ D1 D2) D3).
  - ring.
Qed.

Lemma k_der t : 0 <= t <= e -> derivable_pt_lim k t (l t).
Proof.
  intros Ht. unfold k, l.
  assert (D1 : derivable_pt_lim (fun t => g1 (y + t)) t (g2 (y + t))) by (apply shift_plus, H2; lra).
  assert (D2 : derivable_pt_lim (fun t => g1 (y - t)) t (- g2 (y - t))) by (apply shift_minus, H2; lra).
  assert (D3 : derivable_pt_lim (fun _ : R => 2 * g1 y) t 0) by (apply derivable_pt_lim_const).
  eapply dlim_val.
  - exact (derivable_pt_lim_minus _ _ _ _ _ (derivable_pt_lim_plus _ _ _ _ _ D1 D2) D3).
  - ring.
Qed.

Lemma l_der t : 0 <= t <= e -> derivable_pt_lim l t (l' t).
Proof.
  intros Ht. unfold l, l'.
  assert (D1 : derivable_pt_lim (fun t => g2 (y + t)) t (g3 (y + t))) by (apply shift_plus, H3; lra).
  assert (D2 : derivable_pt_lim (fun t => g2 (y - t)) t (- g3 (y - t))) by (apply shift_minus, H3; lra).
  eapply dlim_val.
  - exact (derivable_pt_lim_minus _ _ _ _ _ D1 D2).
  - ring.
Qed.

Lemma l_bound t : 0 <= t <= e -> Rabs (l t) <= 2 * B * t.
Proof.
  apply (compare0 l l' (fun t => 2 * B * t) (fun _ => 2 * B) e).
  - exact l_der.
  - intros s _. dpoly.
  - unfold l. rewrite Rplus_0_r, Rminus_0_r. ring.
  - ring.
  - intros s Hs. unfold l'. eapply Rle_trans; [apply Rabs_triang|].
    assert (Rabs (g3 (y + s)) <= B) by (apply HB; lra).
    assert (Rabs (g3 (y - s)) <= B) by (apply HB; lra). lra.
Qed.

Lemma k_bound t : 0 <= t <= e -> Rabs (k t) <= B * (t * t).
Proof.
  apply (compare0 k l (fun t => B * (t * t)) (fun t => 2 * B * t) e).
  - exact k_der.
  - intros s _. dpoly.
  - unfold k. rewrite Rplus_0_r, Rminus_0_r. ring.
  - ring.
  - exact l_bound.
Qed.

Lemma h_bound t : 0 <= t <= e -> Rabs (h t) <= B / 3 * (t * t * t).
Proof.
  apply (compare0 h k (fun t => B / 3 * (t * t * t)) (fun t => B * (t * t)) e).
  - exact h_der.
  - intros s _. dpoly.
  - unfold h. rewrite Rplus_0_r, Rminus_0_r. ring.
  - ring.
  - exact k_bound.
Qed.

Lemma central_diff_pos : Rabs ((g (y + e) - g (y - e)) / (2 * e) - g1 y) <= e * e / 6 * B.
Proof.
  pose proof (h_bound e (conj (Rlt_le _ _ He) (Rle_refl e))) as Hh. unfold h in Hh.
  replace ((g (y + e) - g (y - e)) / (2 * e) - g1 y)
    with ((g (y + e) - g (y - e) - 2 * g1 y * e) * / (2 * e)) by (field; lra).
  rewrite Rabs_mult, Rabs_inv, (Rabs_right (2 * e)) by lra.
  apply (Rmult_le_reg_r (2 * e)); [lra|].
  replace (Rabs (g (y + e) - g (y - e) - 2 * g1 y * e) * / (2 * e) * (2 * e))
    with (Rabs (g (y + e) - g (y - e) - 2 * g1 y * e)) by (field; lra).
  replace (e * e / 6 * B * (2 * e)) with (B / 3 * (e * e * e)) by field. exact Hh.
Qed.

End Central.

(* either sign of the step *)
Lemma central_diff_trunc (g g1 g2 g3 : R -> R) (y d B : R) : d <> 0 ->
  (forall x, y - Rabs d <= x <= y + Rabs d -> derivable_pt_lim g x (g1 x)) ->
  (forall x, y - Rabs d <= x <= y + Rabs d -> derivable_pt_lim g1 x (g2 x)) ->
  (forall x, y - Rabs d <= x <= y + Rabs d -> derivable_pt_lim g2 x (g3 x)) ->
  (forall x, y - Rabs d <= x <= y + Rabs d -> Rabs (g3 x) <= B) ->
  Rabs ((g (y + d) - g (y - d)) / (2 * d) - g1 y) <= d * d / 6 * B.
Proof.
  intros Hd D1 D2 D3 HB.
  assert (He : 0 < Rabs d) by (apply Rabs_pos_lt; exact Hd).
  pose proof (central_diff_pos g g1 g2 g3 y (Rabs d) B He D1 D2 D3 HB) as H.
  destruct (Rlt_le_dec d 0) as [Hn|Hp].
  - assert (E : Rabs d = - d) by (apply Rabs_left; exact Hn). rewrite E in H.
    replace (d * d) with (- d * - d) by ring.
    replace ((g (y + d) - g (y - d)) / (2 * d)) with ((g (y + - d) - g (y - - d)) / (2 * - d)); [exact H|].
    replace (y + - d) with (y - d) by ring. replace (y - - d) with (y + d) by ring. field. exact Hd.
  - assert (E : Rabs d = d) by (apply Rabs_right; lra). rewrite E in H. exact H.
Qed.

(* the slope the scalar pass divides by *)
Lemma scalar_deriv_trunc_lemma (f f1 f2 f3 : R -> R) (B tl dl y x' : R) bt e :
  scalar_step NRl tl dl (fun t => Ok (f t)) y = Ok (x', bt, e) ->
  (forall x, y - Rabs dl <= x <= y + Rabs dl -> derivable_pt_lim f x (f1 x)) ->
  (forall x, y - Rabs dl <= x <= y + Rabs dl -> derivable_pt_lim f1 x (f2 x)) ->
  (forall x, y - Rabs dl <= x <= y + Rabs dl -> derivable_pt_lim f2 x (f3 x)) ->
  (forall x, y - Rabs dl <= x <= y + Rabs dl -> Rabs (f3 x) <= B) ->
  x' = y - f y / cdq f y dl /\ Rabs (cdq f y dl - f1 y) <= dl * dl / 6 * B.
Proof.
  intros H D1 D2 D3 HB. apply scalar_pass_R_inv in H as (Hd & _ & -> & _).
  split; [reflexivity|]. unfold cdq. exact (central_diff_trunc f f1 f2 f3 y dl B Hd D1 D2 D3 HB).
Qed.
