(* Proofs/SparseDupTranspose.v -- the order of the entries after transposition, completely:
   transpose is the STABLE sort by row of the swapped triplet listing,
       to_triplets (transpose s) = sort_by_col (map tswap (to_triplets s)),
   and, a well-formed storage being determined by its shape and its triplet listing,
       transpose s = from_triplets cols rows (swapped to_triplets s)          (equality of all six fields)
   for every well-formed storage, duplicates allowed.  In particular the duplicates of a position keep their
   relative order (Proofs/SparseDupOps.v transpose_duplicates_lemma is a corollary of this). *)
From Coq Require Import List Arith Lia Bool Permutation Sorted.
From OV Require Import Base.Panic Base.Arith Model.Vector Model.Matrix Model.Sparse
                       Proofs.SparseBase Proofs.SparseMul Proofs.SparseWf Proofs.SparseHist Proofs.SparseViews
                       Proofs.SparseRefine Proofs.SparseTranspose Proofs.SparseFinal Proofs.SparseDup Proofs.SparseDupOps.
Import ListNotations.

(* ---------- list plumbing ---------- *)
Lemma flat_map_nil_all {X Y} (f : X -> list Y) l : (forall x, In x l -> f x = []) -> flat_map f l = [].
Proof.
  induction l as [|a t IH]; intros H; cbn; auto.
  rewrite (H a) by (left; auto). apply IH. intros; apply H; right; auto.
Qed.

Lemma flat_map_ext_in' {X Y} (f g : X -> list Y) l : (forall x, In x l -> f x = g x) -> flat_map f l = flat_map g l.
Proof.
  induction l as [|a t IH]; intros H; cbn; auto.
  rewrite (H a) by (left; auto). f_equal. apply IH. intros; apply H; right; auto.
Qed.

Lemma filter_all_true {X} (f : X -> bool) l : (forall x, In x l -> f x = true) -> filter f l = l.
Proof.
  induction l as [|a t IH]; intros H; cbn; auto.
  rewrite (H a) by (left; auto). f_equal. apply IH. intros; apply H; right; auto.
Qed.

Lemma sorted_app l1 l2 : sorted l1 -> sorted l2 -> (forall a b, In a l1 -> In b l2 -> a <= b) -> sorted (l1 ++ l2).
Proof.
  induction l1 as [|x t IH]; intros S1 S2 H; cbn [app]; auto.
  destruct S1 as [Hx S1]. split.
  - intros b Hb. apply in_app_or in Hb as [Hb|Hb]; [auto|apply H; [left|]; auto].
  - apply IH; auto. intros a b Ha Hb. apply H; [right|]; auto.
Qed.

Lemma sorted_repeat n k : sorted (repeat n k).
Proof.
  induction k as [|k IH]; cbn [repeat sorted]; auto. split; auto.
  intros b Hb. apply repeat_spec in Hb. lia.
Qed.

(* ---------- the column walk lists the columns in non-decreasing order ---------- *)
Lemma visits_fst_sorted cs n : sorted (map fst (visits cs n)).
Proof.
  induction n as [|n IH]; [exact I|].
  rewrite visits_S, map_app, map_fst_pair. apply sorted_app; auto using sorted_repeat.
  intros a b Ha Hb. apply repeat_spec in Hb. subst b.
  apply in_map_iff in Ha as (jk & <- & Hin). apply visits_fst_lt in Hin. lia.
Qed.

Lemma filter_visits_below cs n j : j <= n -> filter (fun jk => fst jk <? j) (visits cs n) = visits cs j.
Proof.
  induction n as [|n IH]; intros Hj.
  - replace j with 0 by lia. reflexivity.
  - destruct (Nat.eq_dec j (S n)) as [->|Hne].
    + apply filter_all_true. intros jk Hin. apply visits_fst_lt in Hin. apply Nat.ltb_lt. lia.
    + rewrite visits_S, filter_app, IH by lia. rewrite filter_nil_all; [apply app_nil_r|].
      intros jk Hin. apply in_map_iff in Hin as (k & <- & _). cbn [fst]. apply Nat.ltb_ge. lia.
Qed.

Section DupTranspose.
Context {A : Arith}.
Notation T := (T A).
Notation sparse := (sparse A).
Notation triplet := (triplet A).

(* ---------- a column-sorted list is the concatenation of its columns ---------- *)
Definition incol (c : nat) (t : triplet) : bool := tcol t =? c.

Lemma col_sorted_concat (L : list triplet) n : sorted (map (@tcol A) L) -> (forall t, In t L -> tcol t < n) ->
  L = flat_map (fun c => filter (incol c) L) (seq 0 n).
Proof.
  induction L as [|a t IH]; intros Hs Hlt.
  - symmetry. apply flat_map_nil_all. reflexivity.
  - cbn [map sorted] in Hs. destruct Hs as [Ha Hs].
    assert (Hc0 : tcol a < n) by (apply Hlt; left; auto).
    assert (Ht : forall x, In x t -> tcol a <= tcol x) by (intros x Hx; apply Ha; now apply in_map).
    specialize (IH Hs (fun x Hx => Hlt x (or_intror Hx))).
    replace n with (tcol a + S (n - S (tcol a))) by lia.
    rewrite seq_app, flat_map_app. cbn [Nat.add seq flat_map].
    rewrite (flat_map_nil_all _ (seq 0 (tcol a))).
    2:{ intros c Hc. apply in_seq in Hc. apply filter_nil_all. intros x [<-|Hx]; unfold incol.
        - destruct (Nat.eqb_spec (tcol a) c); [lia|reflexivity].
        - specialize (Ht x Hx). destruct (Nat.eqb_spec (tcol x) c); [lia|reflexivity]. }
    cbn [app filter]. unfold incol at 1. rewrite Nat.eqb_refl. cbn [app]. f_equal.
    rewrite (flat_map_ext_in' _ (fun c => filter (incol c) t) (seq (S (tcol a)) _)).
    2:{ intros c Hc. apply in_seq in Hc. cbn [filter]. unfold incol at 1.
        destruct (Nat.eqb_spec (tcol a) c); [lia|reflexivity]. }
    rewrite IH at 1. replace n with (tcol a + S (n - S (tcol a))) at 1 by lia.
    rewrite seq_app, flat_map_app. cbn [Nat.add seq flat_map].
    rewrite (flat_map_nil_all _ (seq 0 (tcol a))); [reflexivity|].
    intros c Hc. apply in_seq in Hc. apply filter_nil_all. intros x Hx. unfold incol.
    specialize (Ht x Hx). destruct (Nat.eqb_spec (tcol x) c); [lia|reflexivity].
Qed.

Lemma col_sorted_unique (L1 L2 : list triplet) n :
  sorted (map (@tcol A) L1) -> sorted (map (@tcol A) L2) ->
  (forall t, In t L1 -> tcol t < n) -> (forall t, In t L2 -> tcol t < n) ->
  (forall c, c < n -> filter (incol c) L1 = filter (incol c) L2) -> L1 = L2.
Proof.
  intros S1 S2 H1 H2 H. rewrite (col_sorted_concat L1 n S1 H1), (col_sorted_concat L2 n S2 H2).
  apply flat_map_ext_in'. intros c Hc. apply in_seq in Hc. apply H. lia.
Qed.

Lemma ents_col_sorted (s : sparse) : sorted (map (@tcol A) (ents s)).
Proof. unfold ents. rewrite map_map. apply (visits_fst_sorted (sp_col_start s) (sp_cols s)). Qed.

(* ---------- a well-formed storage is determined by its shape and its triplet listing ---------- *)
Lemma wf_col_start_below (s : sparse) j : wfS s -> j <= sp_cols s -> nth j (sp_col_start s) 0 = below (cidx s) j.
Proof.
  intros Hwf Hj. unfold below, cidx. rewrite filter_map_comm, map_length.
  rewrite (filter_visits_below _ _ j Hj). rewrite <- (map_length snd).
  destruct Hwf as (_ & H0 & Hm & _). rewrite visits_snd by (intros; apply Hm; lia).
  rewrite seq_length, H0. lia.
Qed.

Lemma wf_ents_determine (s1 s2 : sparse) : wfS s1 -> wfS s2 ->
  sp_rows s1 = sp_rows s2 -> sp_cols s1 = sp_cols s2 -> ents s1 = ents s2 -> s1 = s2.
Proof.
  intros W1 W2 Hr Hc He.
  assert (Hnz : sp_nonzero s1 = sp_nonzero s2).
  { apply (f_equal (@length _)) in He. rewrite !ents_indexed, !map_length, !seq_length in He by auto. exact He. }
  assert (Hval : forall s : sparse, wfS s -> sp_val s = map (@tval A) (ents s)).
  { intros s W. rewrite ents_indexed, map_map by auto. unfold entk, tval. cbn [snd].
    destruct W as (_ & _ & _ & _ & Hv & _). rewrite <- Hv. symmetry. apply map_nth_seq. }
  assert (Hri : forall s : sparse, wfS s -> sp_row_index s = map (@trow A) (ents s)).
  { intros s W. rewrite ents_indexed, map_map by auto. unfold entk, trow. cbn [fst].
    destruct W as (_ & _ & _ & _ & _ & Hl & _). rewrite <- Hl. symmetry. apply map_nth_seq. }
  assert (Hci : forall s : sparse, cidx s = map (@tcol A) (ents s)).
  { intros s. unfold ents, cidx. rewrite map_map. reflexivity. }
  assert (Hcs : sp_col_start s1 = sp_col_start s2).
  { apply (nth_ext _ _ 0 0).
    - destruct W1 as (L1 & _), W2 as (L2 & _). lia.
    - intros j Hj. destruct W1 as (L1 & W1'). rewrite L1 in Hj.
      rewrite (wf_col_start_below s1) by (unfold wfS; auto; lia).
      rewrite (wf_col_start_below s2) by (auto; lia).
      now rewrite !Hci, He. }
  destruct s1 as [r1 c1 n1 v1 ri1 cs1], s2 as [r2 c2 n2 v2 ri2 cs2].
  pose proof (Hval _ W1) as V1. pose proof (Hval _ W2) as V2. pose proof (Hri _ W1) as R1. pose proof (Hri _ W2) as R2.
  cbn [sp_rows sp_cols sp_nonzero sp_val sp_row_index sp_col_start] in *.
  rewrite He in V1, R1. congruence.
Qed.

(* ---------- transposition ---------- *)
Lemma transpose_column (s s' : sparse) c : wfS s ->
  sp_nonzero s' = sp_nonzero s ->
  (forall p, p < sp_nonzero s ->
      nth (tpos (sp_row_index s) p) (sp_row_index s') 0 = nth p (cidx s) 0 /\
      nth (tpos (sp_row_index s) p) (sp_val s') zero = nth p (sp_val s) zero /\
      nth (tpos (sp_row_index s) p) (cidx s') 0 = nth p (sp_row_index s) 0) ->
  filter (fun q => nth q (cidx s') 0 =? c) (seq 0 (sp_nonzero s))
  = map (tpos (sp_row_index s)) (filter (fun p => nth p (sp_row_index s) 0 =? c) (seq 0 (sp_nonzero s))).
Proof.
  intros Hwf Hnz Hpos.
  assert (Hri : length (sp_row_index s) = sp_nonzero s) by (destruct Hwf as (_ & _ & _ & _ & _ & Hri & _); auto).
  apply ssorted_ext.
  - apply ssorted_filter, ssorted_seq.
  - apply ssorted_map; [apply ssorted_filter, ssorted_seq|].
    intros a b Ha Hb Hab. apply filter_In in Ha as [Ha Pa]. apply filter_In in Hb as [Hb Pb].
    apply in_seq in Ha, Hb. apply Nat.eqb_eq in Pa, Pb.
    apply tpos_mono_row; auto; try lia.
  - intros q. rewrite filter_In, in_map_iff, in_seq. split.
    + intros [Hq Hh]. destruct (tpos_onto (sp_row_index s) q ltac:(lia)) as (p & Hp & <-). rewrite Hri in Hp.
      exists p. split; auto. apply filter_In. split; [apply in_seq; lia|].
      destruct (Hpos p Hp) as (_ & _ & P3). apply Nat.eqb_eq in Hh. apply Nat.eqb_eq. congruence.
    + intros (p & <- & Hp). apply filter_In in Hp as [Hp Hh]. apply in_seq in Hp.
      pose proof (tpos_lt (sp_row_index s) p ltac:(lia)) as Hq. split; [lia|].
      destruct (Hpos p ltac:(lia)) as (_ & _ & P3). apply Nat.eqb_eq in Hh. apply Nat.eqb_eq. congruence.
Qed.

Theorem transpose_is_stable_sort_lemma (s : sparse) : wfS s ->
  exists s', sp_transpose s = Ok s' /\ wfS s' /\ sp_rows s' = sp_cols s /\ sp_cols s' = sp_rows s /\
    ents s' = sort_by_col (map tswap (ents s)) /\
    sp_from_triplets (sp_cols s) (sp_rows s) (map tswap (ents s)) = Ok s'.
Proof.
  intros Hwf. destruct (transpose_positions s Hwf) as (s' & E & Hwf' & Hr & Hc & Hnz & Hpos).
  exists s'. split; auto. split; auto. split; auto. split; auto.
  set (M := map tswap (ents s)).
  assert (HM : forall t, In t M -> trow t < sp_cols s /\ tcol t < sp_rows s).
  { intros t Ht. unfold M in Ht. apply in_map_iff in Ht as (t0 & <- & Ht0).
    apply (ents_in_range s t0 Hwf) in Ht0. unfold tswap, trow, tcol in *. cbn [fst snd]. tauto. }
  assert (He : ents s' = sort_by_col M).
  { apply (col_sorted_unique _ _ (sp_rows s)).
    - apply ents_col_sorted.
    - apply sort_by_col_sorted.
    - intros t Ht. apply (ents_in_range s' t Hwf') in Ht. lia.
    - intros t Ht. apply HM. eapply Permutation_in; [apply sort_by_col_perm|]. exact Ht.
    - intros c Hc'. rewrite (sort_by_col_filter _ c) by (intros x Hx; now apply Nat.eqb_eq in Hx).
      unfold M. rewrite (ents_indexed s') by auto. rewrite (ents_indexed s) by auto. rewrite Hnz.
      rewrite !filter_map_comm.
      rewrite (filter_ext (fun x => incol c (entk s' x)) (fun q => nth q (cidx s') 0 =? c)) by reflexivity.
      rewrite (filter_ext (fun x => incol c (tswap (entk s x))) (fun p => nth p (sp_row_index s) 0 =? c)) by reflexivity.
      rewrite (transpose_column s s' c Hwf Hnz Hpos). rewrite !map_map.
      apply map_ext_in. intros p Hp. apply filter_In in Hp as [Hp _]. apply in_seq in Hp.
      destruct (Hpos p ltac:(lia)) as (P1 & P2 & P3).
      unfold tswap, entk, trow, tcol, tval. cbn [fst snd]. now rewrite P1, P2, P3. }
  split; auto.
  destruct (from_triplets_wf_lemma (sp_cols s) (sp_rows s) M HM) as (s2 & E2 & _).
  destruct (from_triplets_ents _ _ _ s2 HM E2) as (Hwf2 & Hr2 & Hc2 & He2).
  rewrite E2. f_equal. apply wf_ents_determine; auto; congruence.
Qed.

End DupTranspose.
