(* Proofs/SparseDupMul.v -- C07 with duplicate positions.
   sp_mul / sp_tmul are, for EVERY well-formed storage, the dense products of the matrix [sp_entry s]
   (Props/C07.v sp_mul_spec / sp_tmul_spec), i.e. of the matrix whose (i,j) entry is the SUM of the values
   stored for (i,j); to_dense keeps the LAST stored value.  Made explicit here:
   * to_dense s is a well-formed dense matrix whose entries are those last values (to_dense_msp);
   * the sparse product equals the product with the dense conversion -- the model's own dense
     [Matrix::multiply] applied to [to_dense s] -- for all vectors IFF at every position the stored
     duplicates sum to the last one; the same for the transposed product;
   * the adjoint identity and the product with the explicit transpose need no such condition (they are
     statements about the storage alone: Props/C07.v sp_adjoint, sp_transpose_mul); restated together with
     the entry-wise form  sp_entry (transpose s) j i = sp_entry s i j. *)
From Coq Require Import List Arith Lia Bool Permutation Ring.
From OV Require Import Base.Panic Base.Arith Model.Vector Model.Matrix Model.Sparse.
From OV Require Proofs.Matrix.
From OV Require Import Proofs.SparseBase Proofs.SparseMul Proofs.SparseWf Proofs.SparseHist Proofs.SparseViews
                       Proofs.SparseRefine Proofs.SparseTranspose Proofs.SparseFinal Proofs.SparseDup Proofs.SparseDupOps.
Import ListNotations.
Local Open Scope arith_scope.

Section DupMul.
Context {A : Arith}.
Variable RL : RingLaws A.
Notation T := (T A).
Notation sparse := (sparse A).
Add Ring AringDupMul : (rl_ring A RL).

(* the matrix to_dense produces: entry (i,j) = the last value stored for (i,j), zero when none is stored *)
Definition dlast (s : sparse) (i j : nat) : T := last (dvals s i j) zero.

Lemma to_dense_msp (s : sparse) : wfS s ->
  exists D, sp_to_dense s = Ok D /\ Proofs.Matrix.msp (sp_rows s) (sp_cols s) (dlast s) D.
Proof.
  intros Hwf. destruct (to_dense_last_duplicate_lemma s Hwf) as (D & ED & Hr & Hc & HD).
  exists D. split; auto.
  assert (Hw : Proofs.Matrix.wf D).
  { rewrite sp_to_dense_ok in ED by auto. injection ED as <-. unfold Proofs.Matrix.wf. cbn [buf rows cols].
    now rewrite updw_length, repeat_length. }
  split; auto. split; auto. split; auto.
  intros i j Hi Hj. specialize (HD i j Hi Hj). unfold mget in HD.
  apply (rd_Ok_inv _ _ _ zero) in HD as [_ HD]. unfold Proofs.Matrix.entry, dlast. now rewrite <- HD.
Qed.

(* ---------- unit vectors pick out single entries of a dense product ---------- *)
Definition unitv (n j : nat) : list T := map (fun k => if k =? j then one else zero) (seq 0 n).

Lemma unitv_length n j : length (unitv n j) = n.
Proof. unfold unitv. now rewrite map_length, seq_length. Qed.

Lemma sum_unit n j (f : nat -> T) : j < n ->
  sum_n n (fun k => f k * nth k (unitv n j) zero) = f j.
Proof.
  intros Hj. rewrite (sum_n_ext n _ (fun k => if j =? k then f j else zero)).
  - now apply (sum_n_delta RL).
  - intros k Hk. unfold unitv. rewrite nth_map_seq by auto. rewrite (Nat.eqb_sym j k).
    destruct (Nat.eqb_spec k j) as [->|]; ring.
Qed.

Lemma dmulv_unit (f : nat -> nat -> T) r c i j : i < r -> j < c ->
  nth i (dmulv f r c (unitv c j)) zero = f i j.
Proof. intros Hi Hj. unfold dmulv. rewrite nth_map_seq by auto. now apply sum_unit. Qed.

Lemma dtmulv_unit (f : nat -> nat -> T) r c i j : i < r -> j < c ->
  nth j (dtmulv f r c (unitv r i)) zero = f i j.
Proof.
  intros Hi Hj. unfold dtmulv. rewrite nth_map_seq by auto.
  now apply (sum_unit r i (fun i' => f i' j)).
Qed.

Lemma dmulv_ext (f g : nat -> nat -> T) r c x :
  (forall i j, i < r -> j < c -> f i j = g i j) -> dmulv f r c x = dmulv g r c x.
Proof.
  intros H. unfold dmulv. apply map_ext_in. intros i Hi. apply in_seq in Hi.
  apply sum_n_ext. intros j Hj. rewrite H by lia. reflexivity.
Qed.

Lemma dtmulv_ext (f g : nat -> nat -> T) r c y :
  (forall i j, i < r -> j < c -> f i j = g i j) -> dtmulv f r c y = dtmulv g r c y.
Proof.
  intros H. unfold dtmulv. apply map_ext_in. intros j Hj. apply in_seq in Hj.
  apply sum_n_ext. intros i Hi. rewrite H by lia. reflexivity.
Qed.

(* the model's dense Matrix::multiply of a matrix given by its entries *)
Lemma dense_multiply_dmulv (D : matrix A) r c (f : nat -> nat -> T) (x : list T) :
  Proofs.Matrix.msp r c f D -> length x = c -> multiply D x = Ok (dmulv f r c x).
Proof.
  intros Hm Hx. destruct (Proofs.Matrix.multiply_msp r c f D x Hm Hx) as (w & E & Hl & Hw).
  rewrite E. f_equal. apply (nth_ext _ _ zero zero).
  - unfold dmulv. now rewrite map_length, seq_length.
  - rewrite Hl. intros i Hi. rewrite Hw by auto. unfold dmulv. now rewrite nth_map_seq by auto.
Qed.

(* ---------- multiply: equal to the product with to_dense iff the duplicates sum to the last one ---------- *)
Theorem sp_mul_to_dense_iff_lemma (s : sparse) : wfS s ->
  exists D, sp_to_dense s = Ok D /\ rows D = sp_rows s /\ cols D = sp_cols s /\
    (forall i j, i < sp_rows s -> j < sp_cols s -> mget D i j = Ok (last (dvals s i j) zero)) /\
    ((forall x, length x = sp_cols s -> sp_mul s x = multiply D x) <->
     (forall i j, i < sp_rows s -> j < sp_cols s -> suml (dvals s i j) = last (dvals s i j) zero)).
Proof.
  intros Hwf. destruct (to_dense_msp s Hwf) as (D & ED & Hm).
  destruct (to_dense_last_duplicate_lemma s Hwf) as (D' & ED' & Hr & Hc & HD).
  assert (D' = D) by congruence. subst D'.
  exists D. split; auto. split; auto. split; auto. split; auto. split.
  - intros H i j Hi Hj. specialize (H (unitv (sp_cols s) j) (unitv_length _ _)).
    rewrite (sp_mul_spec_lemma RL) in H by (auto using unitv_length).
    rewrite (dense_multiply_dmulv D _ _ _ _ Hm (unitv_length _ _)) in H. injection H as H.
    apply (f_equal (fun l => nth i l zero)) in H. rewrite !dmulv_unit in H by auto. exact H.
  - intros H x Hx. rewrite (sp_mul_spec_lemma RL) by auto.
    rewrite (dense_multiply_dmulv D _ _ _ _ Hm Hx). f_equal. apply dmulv_ext.
    intros i j Hi Hj. now apply H.
Qed.

(* ---------- transpose_multiply: the same, against the transposed dense product of to_dense ---------- *)
Theorem sp_tmul_to_dense_iff_lemma (s : sparse) : wfS s ->
  exists D, sp_to_dense s = Ok D /\ Proofs.Matrix.msp (sp_rows s) (sp_cols s) (dlast s) D /\
    ((forall y, length y = sp_rows s -> sp_tmul s y = Ok (dtmulv (Proofs.Matrix.entry D) (sp_rows s) (sp_cols s) y)) <->
     (forall i j, i < sp_rows s -> j < sp_cols s -> suml (dvals s i j) = last (dvals s i j) zero)).
Proof.
  intros Hwf. destruct (to_dense_msp s Hwf) as (D & ED & Hm).
  exists D. split; auto. split; auto. destruct Hm as (_ & _ & _ & He). split.
  - intros H i j Hi Hj. specialize (H (unitv (sp_rows s) i) (unitv_length _ _)).
    rewrite (sp_tmul_spec_lemma RL) in H by (auto using unitv_length). injection H as H.
    apply (f_equal (fun l => nth j l zero)) in H. rewrite !dtmulv_unit in H by auto.
    rewrite He in H by auto. exact H.
  - intros H y Hy. rewrite (sp_tmul_spec_lemma RL) by auto. f_equal. apply dtmulv_ext.
    intros i j Hi Hj. rewrite He by auto. now apply H.
Qed.

(* ---------- under NoDupKeys the condition holds: Props/C07.v "sparse product = dense product" in its original form ---------- *)
Theorem sp_mul_to_dense_nodup_lemma (s : sparse) (x : list T) : wfS s -> NoDupKeys s -> length x = sp_cols s ->
  exists D, sp_to_dense s = Ok D /\ sp_mul s x = multiply D x.
Proof.
  intros Hwf Hnd Hx. destruct (sp_mul_to_dense_iff_lemma s Hwf) as (D & ED & _ & _ & _ & Hiff).
  exists D. split; auto. apply Hiff; auto.
  intros i j Hi Hj. destruct (nodup_first_last_sum_lemma RL s i j Hwf Hnd Hj) as (_ & _ & E).
  rewrite E. reflexivity.
Qed.

(* ---------- adjointness and the explicit transpose: no condition on duplicates ---------- *)
Theorem adjoint_with_duplicates_lemma (s : sparse) (x y : list T) : wfS s -> length x = sp_cols s -> length y = sp_rows s ->
  (exists u w d, sp_mul s x = Ok u /\ sp_tmul s y = Ok w /\ dot y u = Ok d /\ dot w x = Ok d) /\
  (exists s' w, sp_transpose s = Ok s' /\ wfS s' /\ sp_mul s' y = Ok w /\ sp_tmul s y = Ok w /\
     forall i j, i < sp_rows s -> j < sp_cols s -> dvals s' j i = dvals s i j /\ sp_entry s' j i = sp_entry s i j).
Proof.
  intros Hwf Hx Hy. split; [now apply (sp_adjoint_lemma RL)|].
  destruct (transpose_duplicates_lemma s Hwf) as (s' & E & Hwf' & Hr & Hc & _ & Hd).
  destruct (sp_transpose_mul_lemma RL s y Hwf Hy) as (s2 & w & E2 & Em & Et).
  assert (s2 = s') by congruence. subst s2.
  exists s', w. split; auto. split; auto. split; auto. split; auto.
  intros i j Hi Hj. split; [now apply Hd|]. rewrite !sp_entry_is_sum_lemma. now rewrite Hd.
Qed.

End DupMul.
