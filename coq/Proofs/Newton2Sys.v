(* Proofs/Newton2Sys.v -- C17, affine systems WITHOUT the `_partial` premise (package newton2).

   Proofs/NewtonSys.v proved: whenever the run does not panic it returns Ok of a root, GIVEN the
   soundness statement of the step solver.  Here the premise is discharged by C01's lemmas
   (Proofs/Solve.v solve_basic_sound_lemma, Proofs/SolveComplete.v solve_basic_complete_lemma,
   solutions_unique_lemma) and the "does not panic" hypothesis is removed:

     for f(x) = M x + c with M square, non-empty and possessing a left inverse, over ANY arithmetic
     with FieldLaws + PivLaws (hence Qc, R, C), Newton<Vec>::solve and ::solve_jacobian do not
     panic and return Ok of THE root (it is unique) within two passes.

   What the stopping test needs from the order are the two facts |0| < |0| = false and |0| <= tol,
   exactly as in NewtonSys.v. *)
From Coq Require Import List Arith Lia Bool Ring_theory Field_theory Ring Field.
From OV Require Import Base.Panic Base.Arith Model.Vector Model.Matrix Model.Solve Model.Newton
  Proofs.Matrix Proofs.SolveBase Proofs.SolveBack Proofs.SolveGauss Proofs.Solve Proofs.SolveComplete
  Proofs.NewtonLoop Proofs.Newton Proofs.NewtonJac Proofs.NewtonSys.
Import ListNotations.

Section Affine2.
Context (O : NOps) (FL : FieldLaws (NA O)) (PL : PivLaws (NA O)).
Notation A := (NA O).
Notation R := (NR O).
Add Field Afield3 : (fl_field A FL).

(* C01's soundness theorem IS the premise of the two `_partial` theorems *)
Lemma solve_basic_sound_holds : solve_basic_sound_stmt O.
Proof.
  intros M b x W Hsq Lb E.
  destruct (solve_basic_sound_lemma FL M b x W Hsq Lb E) as [Lx S]. split; [exact Lx|].
  intros i Hi. specialize (S i Hi). unfold mvprod in S. rewrite Hsq in S. exact S.
Qed.

(* the residual norm never panics on a non-empty vector *)
Lemma norm_inf_total (v : list A) : 0 < length v -> exists r, norm_inf O v = Ok r.
Proof.
  intros Hn. unfold norm_inf. rewrite (rd_ok v 0 zero) by exact Hn. cbn [bind].
  destruct (for_inv (fun _ (_ : R) => True) 1 (length v)
             (fun i r => let* x := rd v i in if ltb r (mag O x) then Ok (mag O x) else Ok r)
             (mag O (nth 0 v zero))) as (r & E & _); [lia|exact I| |eauto].
  intros i r Hi _. rewrite (rd_ok v i zero) by lia. cbn [bind].
  destruct (ltb r (mag O (nth i v zero))); eauto.
Qed.

Context (M : matrix A) (c0 : list A) (tl dl : R).
Hypothesis HW : wf M.
Hypothesis Hsq : rows M = cols M.
Hypothesis Hne : 1 <= rows M.
Hypothesis Hd : emb O dl <> zero.
Hypothesis Hlt : ltb (mag O zero) (mag O zero) = false.
Hypothesis Hle : leb (mag O zero) tl = true.
Hypothesis Hinv : exists N : nat -> nat -> A, left_inverse (rows M) N (ent M).

Let f (p : list A) : res (list A) := Ok (aff O M c0 p).

(* ---- the root is unique ---- *)
Lemma is_root_solf x : is_root O M c0 x ->
  solf (rows M) (ent M) (fun i => neg (nth i c0 zero)) (fun k => nth k x zero).
Proof.
  intros Hr i Hi. specialize (Hr i Hi). rewrite aff_nth in Hr by exact Hi.
  unfold mvprod. rewrite Hsq.
  change (sum_n (cols M) (fun k => mul (ent M i k) (nth k x zero)))
    with (sum_n (cols M) (fun k => mul (ment O M i k) (nth k x zero))).
  set (s := sum_n (cols M) (fun k => mul (ment O M i k) (nth k x zero))) in *.
  transitivity (sub (add s (nth i c0 zero)) (nth i c0 zero)); [ring|]. rewrite Hr. ring.
Qed.

Lemma root_unique x y :
  length x = cols M -> length y = cols M -> is_root O M c0 x -> is_root O M c0 y -> x = y.
Proof.
  intros Lx Ly Rx Ry. destruct Hinv as (N & LI).
  apply (nth_ext x y zero zero); [congruence|].
  intros i Hi. rewrite Lx, <- Hsq in Hi.
  exact (solutions_unique_fun FL (rows M) N (ent M) (fun i => neg (nth i c0 zero))
           (fun k => nth k x zero) (fun k => nth k y zero) LI (is_root_solf x Rx) (is_root_solf y Ry) i Hi).
Qed.

(* ---- one finite-difference pass is total ---- *)
Lemma sys_pass_affine_total x : length x = cols M ->
  exists x' b e, sys_step O tl dl f x = Ok (x', b, e).
Proof.
  intros Lx. unfold sys_step. unfold f at 1. cbn [bind].
  destruct (norm_inf_total (aff O M c0 x)) as (mr & En); [rewrite aff_length; lia|].
  rewrite En. cbn [bind].
  destruct (jacobian_affine_eq O FL M c0 x (emb O dl) Hd HW Lx) as (jev & EJ).
  unfold f. rewrite EJ. cbn [bind fst snd].
  destruct (solve_basic_complete_lemma FL PL M (aff O M c0 x) HW Hsq (aff_length O M c0 x) Hne Hinv) as (dx & Es).
  rewrite Es. cbn [bind].
  destruct (solve_basic_sound_lemma FL M _ dx HW Hsq (aff_length O M c0 x) Es) as [Ldx _].
  unfold vsub_assign. rewrite nw_vsub_ok by lia. cbn [bind]. eauto.
Qed.

Lemma sysjac_pass_affine_total x : length x = cols M ->
  exists x' b e, sysjac_step O tl f (fun _ => Ok M) x = Ok (x', b, e).
Proof.
  intros Lx. unfold sysjac_step. unfold f at 1. cbn [bind].
  destruct (norm_inf_total (aff O M c0 x)) as (mr & En); [rewrite aff_length; lia|].
  rewrite En. cbn [bind].
  destruct (solve_basic_complete_lemma FL PL M (aff O M c0 x) HW Hsq (aff_length O M c0 x) Hne Hinv) as (dx & Es).
  rewrite Es. cbn [bind].
  destruct (solve_basic_sound_lemma FL M _ dx HW Hsq (aff_length O M c0 x) Es) as [Ldx _].
  unfold vsub_assign. rewrite nw_vsub_ok by lia. cbn [bind]. eauto.
Qed.

(* ---- the two theorems ---- *)
Lemma newton_sys_affine_full n x0 :
  length x0 = cols M -> 2 <= n ->
  exists x evs, newton_sys O (mkCfg tl dl n x0) f = Ok (NOk x, evs) /\
    length x = cols M /\ is_root O M c0 x /\
    (forall y, length y = cols M -> is_root O M c0 y -> y = x) /\
    length evs <= 2 * (cols M + 2).
Proof.
  intros L0 Hn. unfold newton_sys. cbn [tol delta max_iter guess].
  destruct n as [|[|n]]; try lia. cbn [nloop].
  destruct (sys_pass_affine_total x0 L0) as (x1 & b1 & e1 & E1).
  fold f. rewrite E1. cbn [bind].
  destruct (sys_pass_affine O FL M c0 tl dl HW Hsq Hd Hlt Hle solve_basic_sound_holds _ _ _ _ L0 E1) as (L1 & R1 & _).
  pose proof (sys_step_calls O _ _ _ _ _ _ _ E1) as [_ C1].
  destruct b1.
  { exists x1, ([] ++ e1). repeat split; auto.
    - intros y Ly Ry. apply root_unique; auto.
    - cbn. lia. }
  destruct (sys_pass_affine_total x1 L1) as (x2 & b2 & e2 & E2).
  rewrite E2. cbn [bind].
  destruct (sys_pass_affine O FL M c0 tl dl HW Hsq Hd Hlt Hle solve_basic_sound_holds _ _ _ _ L1 E2) as (L2 & R2 & Hb).
  pose proof (sys_step_calls O _ _ _ _ _ _ _ E2) as [_ C2].
  rewrite (Hb R1).
  exists x2, (([] ++ e1) ++ e2). repeat split; auto.
  - intros y Ly Ry. apply root_unique; auto.
  - cbn. rewrite app_length. lia.
Qed.

Lemma newton_sysjac_affine_full n x0 :
  length x0 = cols M -> 2 <= n ->
  exists x evs, newton_sysjac O (mkCfg tl dl n x0) f (fun _ => Ok M) = Ok (NOk x, evs) /\
    length x = cols M /\ is_root O M c0 x /\
    (forall y, length y = cols M -> is_root O M c0 y -> y = x) /\
    length evs <= 4.
Proof.
  intros L0 Hn. unfold newton_sysjac. cbn [tol delta max_iter guess].
  destruct n as [|[|n]]; try lia. cbn [nloop].
  destruct (sysjac_pass_affine_total x0 L0) as (x1 & b1 & e1 & E1).
  fold f. rewrite E1. cbn [bind].
  destruct (sysjac_pass_affine O FL M c0 tl HW Hsq Hlt Hle solve_basic_sound_holds _ _ _ _ L0 E1) as (L1 & R1 & _).
  pose proof (sysjac_step_calls O _ _ _ _ _ _ _ E1) as C1.
  destruct b1.
  { exists x1, ([] ++ e1). repeat split; auto.
    - intros y Ly Ry. apply root_unique; auto.
    - subst e1. cbn. lia. }
  destruct (sysjac_pass_affine_total x1 L1) as (x2 & b2 & e2 & E2).
  rewrite E2. cbn [bind].
  destruct (sysjac_pass_affine O FL M c0 tl HW Hsq Hlt Hle solve_basic_sound_holds _ _ _ _ L1 E2) as (L2 & R2 & Hb).
  pose proof (sysjac_step_calls O _ _ _ _ _ _ _ E2) as C2.
  rewrite (Hb R1).
  exists x2, (([] ++ e1) ++ e2). repeat split; auto.
  - intros y Ly Ry. apply root_unique; auto.
  - subst e1 e2. cbn. lia.
Qed.

(* ---- the bound 2 <= max_iter is sharp: with ONE pass the answer is already the exact root, but it is
        reported as Err unless the residual of the GUESS was within tol (the test looks at f(x_k), the
        value returned is x_{k+1}) ---- *)
Lemma newton_sys_affine_one_pass_lemma x0 : length x0 = cols M ->
  exists x evs mr, norm_inf O (aff O M c0 x0) = Ok mr /\ is_root O M c0 x /\
    newton_sys O (mkCfg tl dl 1 x0) f = Ok ((if leb mr tl then NOk x else NErr x), evs).
Proof.
  intros L0. destruct (sys_pass_affine_total x0 L0) as (x1 & b1 & e1 & E1).
  destruct (sys_pass_affine O FL M c0 tl dl HW Hsq Hd Hlt Hle solve_basic_sound_holds _ _ _ _ L0 E1) as (L1 & R1 & _).
  pose proof (sys_step_inv O _ _ _ _ _ _ _ E1) as (fv & mr & J & jev & dx & Ef & En & _ & _ & _ & _ & Eb & _).
  unfold f in Ef. injection Ef as <-.
  exists x1, ([] ++ e1), mr. split; [exact En|]. split; [exact R1|].
  unfold newton_sys. cbn [tol delta max_iter guess nloop]. fold f. rewrite E1. cbn [bind].
  rewrite <- Eb. destruct b1; reflexivity.
Qed.

End Affine2.

(* ---- an empty system panics: the residual norm reads f(x)[0] (Vector::norm_inf: self.vec[0]) ---- *)
Lemma newton_sys_empty_panics_lemma (O : NOps) tl dl n (f : list (NA O) -> res (list (NA O))) :
  f [] = Ok [] -> newton_sys O (mkCfg tl dl (S n) []) f = Panic Index.
Proof.
  intros Hf. unfold newton_sys. cbn [tol delta max_iter guess nloop]. unfold sys_step.
  rewrite Hf. reflexivity.
Qed.

Lemma newton_sysjac_empty_panics_lemma (O : NOps) tl dl n (f : list (NA O) -> res (list (NA O))) jac :
  f [] = Ok [] -> newton_sysjac O (mkCfg tl dl (S n) []) f jac = Panic Index.
Proof.
  intros Hf. unfold newton_sysjac. cbn [tol delta max_iter guess nloop]. unfold sysjac_step.
  rewrite Hf. reflexivity.
Qed.
