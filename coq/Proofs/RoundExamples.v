(* Proofs/RoundExamples.v -- concrete inputs in the rounding arithmetic AFlx (Proofs/RoundFlx.v: round-to-nearest-even,
   53 bits, every operation rounds) on which the model functions answer: the non-vacuity witnesses of the pinned
   theorems of the Round*.v files.  The pivot searches of lu_decomp / gauss_with_pivot compare real numbers; on the
   data below every comparison is decided (or both outcomes give the same state). *)
From Coq Require Import List Arith Reals Lra Lia.
From OV Require Import Base.Panic Base.Arith Base.RoundModel Model.Vector Model.Matrix Model.Solve Model.Sparse
  Proofs.Matrix Proofs.LUSolve Proofs.SparseBase Proofs.RoundDot Proofs.RoundMatvec Proofs.RoundBacksolve
  Proofs.RoundSparse Proofs.RoundFlx.
Import ListNotations.
Local Open Scope R_scope.

Notation rentryx := (rentry xadd xsub xmul xdiv).

(* [[2,1],[0,3]] and its computed factors *)
Definition ex_m2 : matrix AFlx := @mkM AFlx [2; 1; 0; 3] 2 2.
Definition ex_lu2 : matrix AFlx := @mkM AFlx [2; 1; xdiv 0 2; xsub 3 (xmul (xdiv 0 2) 1)] 2 2.
Definition ex_id2 : matrix AFlx := @mkM AFlx [1; 0; 0; 1] 2 2.
Definition ex_b2 : list R := [1; 1].

Lemma ex_lu_decomp : lu_decomp ex_m2 = Ok (ex_lu2, 0%nat, ex_id2).
Proof. unfold lu_decomp, lu_gen, ex_m2, ex_lu2, ex_id2. repeat flx_step; reflexivity. Qed.

Lemma ex_lu2_11 : xsub 3 (xmul (xdiv 0 2) 1) = rndx 3.
Proof.
  unfold xdiv. replace (0 / 2) with 0 by lra. rewrite rndx_0. unfold xmul. rewrite Rmult_0_l, rndx_0.
  unfold xsub. now rewrite Rminus_0_r.
Qed.

Lemma ex_lu2_diag : forall k, (k < rows ex_m2)%nat -> rentryx ex_lu2 k k <> 0.
Proof.
  intros [|[|k]] Hk; cbn in Hk; try lia.
  - cbn. lra.
  - change (xsub 3 (xmul (xdiv 0 2) 1) <> 0). rewrite ex_lu2_11. apply rndx_nz. lra.
Qed.

Lemma ex_solve_lu : exists x, solve_lu ex_m2 ex_b2 = Ok x.
Proof.
  eexists. unfold solve_lu. change (rows ex_m2) with 2%nat. change (cols ex_m2) with 2%nat.
  cbn [ex_b2 length Nat.eqb negb]. rewrite ex_lu_decomp. reflexivity.
Qed.

(* the same system through gauss_with_pivot *)
Definition ex_g2 : matrix AFlx :=
  @mkM AFlx [2; 1; xsub 0 (xmul (xdiv 0 2) 2); xsub 3 (xmul (xdiv 0 2) 1)] 2 2.
Definition ex_gb2 : list R := [1; xsub 1 (xmul (xdiv 0 2) 1)].

Lemma ex_gauss : gauss_with_pivot ex_m2 ex_b2 = Ok (ex_g2, ex_gb2).
Proof.
  unfold gauss_with_pivot, partial_pivot, max_abs_in_column, ex_m2, ex_b2, ex_g2, ex_gb2.
  repeat flx_step; reflexivity.
Qed.

Lemma ex_g2_diag : forall k, (k < rows ex_m2)%nat -> rentryx ex_g2 k k <> 0.
Proof.
  intros [|[|k]] Hk; cbn in Hk; try lia.
  - cbn. lra.
  - change (xsub 3 (xmul (xdiv 0 2) 1) <> 0). rewrite ex_lu2_11. apply rndx_nz. lra.
Qed.

Lemma ex_solve_basic : exists x, solve_basic ex_m2 ex_b2 = Ok x.
Proof.
  eexists. unfold solve_basic. change (rows ex_m2) with 2%nat. change (cols ex_m2) with 2%nat.
  cbn [ex_b2 length Nat.eqb negb]. fold ex_b2. rewrite ex_gauss. reflexivity.
Qed.

Lemma ex_size2 : INR 2 * ux < 1.
Proof. cbn [INR]. pose proof ux_small. lra. Qed.

Lemma ex_size3 : INR 3 * ux < 1.
Proof. cbn [INR]. pose proof ux_small. lra. Qed.

(* a compressed-column matrix [[1,0],[2,3]]: values by column, row indices, column starts *)
Definition ex_sp : sparse AFlx := @mkS AFlx 2 2 3 [1; 2; 3] [0%nat; 1%nat; 1%nat] [0%nat; 2%nat; 3%nat].

Lemma ex_sp_wf : wfS ex_sp.
Proof.
  unfold wfS, ex_sp; cbn. repeat split; try reflexivity.
  - intros [|[|j]] Hj; cbn; lia.
  - intros [|[|[|k]]] Hk; cbn; lia.
Qed.

Lemma ex_sp_rows : forall i, (i < sp_rows ex_sp)%nat ->
  INR (length (row_entries ex_sp i)) * ux < 1.
Proof.
  intros [|[|i]] Hi; cbn in Hi; try lia; cbn; pose proof ux_small; lra.
Qed.

Lemma ex_determinant : exists d, determinant ex_m2 = Ok d.
Proof.
  eexists. unfold determinant, determinant_gen. change (lu_gen true ex_m2) with (lu_decomp ex_m2).
  rewrite ex_lu_decomp. reflexivity.
Qed.
