(* Proofs/BandedDet2Ker.v -- over ANY field arithmetic (FieldLaws + the magnitude rule PivotLaws; no mathcomp: the reals,
   Complex over a field, Qc, ... alike): Banded::det vanishes exactly on the singular twins, and band_solve answers
   exactly on the nonsingular ones.
   New half (the other one is Proofs/BandedComplete.v): nonzero pivots imply a trivial kernel.  The stage identity of
   Proofs/BandedDet2.v -- the table of stage k+1 is obtained from the table of stage k by an exchange of two rows and
   the subtraction of multiples of one row -- carries a solution of D x = 0 forwards through all the stages to the
   final upper triangular table, whose diagonal (the pivots) is nonzero, so x = 0 by back substitution. *)
From Coq Require Import List Arith Lia ZArith Bool Ring_theory Ring Field_theory Field.
From OV Require Import Base.Panic Base.Arith Model.Vector Model.Matrix Model.Banded
                       Proofs.Banded Proofs.BandedLU Proofs.BandedTotal Proofs.BandedComplete Proofs.BandedDet
                       Proofs.BandedDet2.
Import ListNotations.
Local Open Scope nat_scope.

Section Ker.
Context {A : Arith}.
Notation T := (T A).
Notation matrix := (matrix A).
Notation banded := (banded A).
Variable FL : FieldLaws A.
Let RL : RingLaws A := RingLaws_of_Field FL.
Add Field AFld6 : (fl_field A FL).

(* row i of the table f against the vector x *)
Definition tabv (f : nat -> nat -> T) (n : nat) (x : list T) (i : nat) : T :=
  sum_n n (fun j => mul (f i j) (nth j x zero)).

Lemma sum_n_single n (g : nat -> T) i :
  i < n -> (forall j, j < n -> j <> i -> g j = zero) -> sum_n n g = g i.
Proof.
  induction n as [|n IH]; intros Hi H; [lia|]. cbn [sum_n].
  destruct (Nat.eq_dec i n) as [->|Hne].
  - rewrite (sum_n_zero RL) by (intros j Hj; apply H; lia). ring.
  - rewrite IH by (auto; lia). rewrite (H n) by lia. ring.
Qed.

(* an upper triangular system with nonzero diagonal has only the zero solution *)
Lemma upper_kernel n (f : nat -> nat -> T) (x : list T) :
  (forall i j, i < n -> j < i -> f i j = zero) -> (forall i, i < n -> f i i <> zero) ->
  (forall i, i < n -> tabv f n x i = zero) ->
  forall i, i < n -> nth i x zero = zero.
Proof.
  intros Hup Hd Hx.
  assert (H : forall t, t <= n -> forall i, n - t <= i < n -> nth i x zero = zero).
  { induction t as [|t IH]; intros Ht i Hi; [lia|].
    destruct (Nat.eq_dec i (n - S t)) as [->|Hne]; [|apply IH; lia].
    set (i := n - S t) in *.
    pose proof (Hx i ltac:(lia)) as E. unfold tabv in E.
    rewrite (sum_n_single n _ i) in E; [|lia|].
    - apply (mul_integral FL) in E as [E|E]; auto. exfalso. apply (Hd i); auto. lia.
    - intros j Hj Hji. destruct (Nat.lt_ge_cases j i).
      + rewrite Hup by lia. ring.
      + rewrite (IH ltac:(lia) j) by lia. ring. }
  intros i Hi. apply (H n); lia.
Qed.

(* one stage carries a solution of the homogeneous system forwards *)
Lemma stage_forward n mm m1 k p l' (au au' : matrix) (x : list T) :
  1 <= mm -> k < n -> l' = Nat.min (k + 1 + m1) n -> (p = k \/ (k < p /\ p < l')) ->
  let a2 := fun i s => mat_at au mm (swp k p i) s in
  a2 k 0 <> zero ->
  (forall i s, s < mm -> mat_at au' mm i s = if (k <? i) && (i <? l') then elim_f FL a2 mm k i s else a2 i s) ->
  (forall i, i < n -> tabv (full au mm m1 k) n x i = zero) ->
  forall i, i < n -> tabv (full au' mm m1 (k + 1)) n x i = zero.
Proof.
  intros Hmm Hk Hl' Hp a2 Hk0 Hau' Hx i Hi. unfold tabv.
  rewrite (sum_n_ext n _ (fun j => sub (mul (full au mm m1 k (swp k p i) j) (nth j x zero))
                                       (mul (mvec FL a2 k l' i) (mul (full au mm m1 k p j) (nth j x zero))))).
  2:{ intros j Hj. rewrite (stage_full FL n mm m1 k p l' au au') by auto. fold a2. ring. }
  rewrite (sum_n_lin FL).
  assert (Hs : swp k p i < n).
  { unfold swp. destruct (i =? k); [lia|]. destruct (i =? p); lia. }
  pose proof (Hx _ Hs) as E1. pose proof (Hx p ltac:(lia)) as E2. unfold tabv in E1, E2.
  rewrite E1, E2. ring.
Qed.

Lemma dec_forward n mm m1 (x : list T) : 1 <= mm -> m1 <= n ->
  forall rem k (au al : matrix) (index : list nat) (d : T) (auN alN : matrix) (indexN : list nat) (dN : T) lN,
  k + rem = n -> cols au = mm -> cols al = m1 ->
  for_from rem k (dec_step false n mm) (au, al, index, d, Nat.min (k + m1) n) = Ok (auN, alN, indexN, dN, lN) ->
  (forall i, k <= i < n -> mat_at auN mm i 0 <> zero) ->
  (forall i, i < n -> tabv (full au mm m1 k) n x i = zero) ->
  forall i, i < n -> tabv (full auN mm m1 n) n x i = zero.
Proof.
  intros Hmm Hm1. induction rem as [|rem IH];
    intros k au al index d auN alN indexN dN lN Hk Hc Hcl Hdec Hpiv Hx.
  - cbn in Hdec. injection Hdec as <- <- <- <- <-. assert (Ek : k = n) by lia. subst k. exact Hx.
  - cbn [for_from] in Hdec.
    apply bind_ok in Hdec as ([[[[au1 al1] index1] d1] l1] & E1 & Hdec).
    assert (Hln : lnext n (Nat.min (k + m1) n) <= k + 1 + m1) by (rewrite lnext_min by auto; lia).
    pose proof (dec_step_frame FL n mm m1 k _ _ _ _ _ _ _ _ _ _ Hc Hcl Hmm Hln E1) as (Hc1 & Hcl1 & Hl1 & _).
    rewrite lnext_min in Hl1 by auto. subst l1.
    pose proof (dec_loop_frame FL n mm m1 rem (S k) (au1, al1, index1, d1, Nat.min (k + 1 + m1) n)
                  (auN, alN, indexN, dN, lN)) as HF.
    cbn beta iota in HF. cbn [fst snd] in HF.
    specialize (HF Hc1 Hcl1 Hmm).
    replace (S k + m1) with (k + 1 + m1) in HF by lia. specialize (HF eq_refl Hm1 Hdec).
    destruct HF as (HcN & HclN & _ & HauN & _ & _).
    assert (Hpk : mat_at au1 mm k 0 <> zero).
    { rewrite <- HauN by lia. apply Hpiv. lia. }
    destruct (dec_step_Ok_inv FL n mm m1 k _ _ _ _ _ _ _ _ _ _ Hc Hcl Hmm Hln E1 Hpk)
      as (p & Hp & _ & _ & _ & _ & _ & Ha2 & Hau1 & _).
    cbn zeta in Ha2, Hau1.
    apply (IH (S k) au1 al1 index1 d1 auN alN indexN dN lN); auto; try lia.
    + now replace (S k + m1) with (k + 1 + m1) by lia.
    + intros i Hi. apply Hpiv. lia.
    + replace (S k) with (k + 1) by lia.
      apply (stage_forward n mm m1 k p (Nat.min (k + 1 + m1) n) au au1 x); auto; lia.
Qed.

(* nonzero pivots: the dense twin has a trivial kernel *)
Lemma pivots_nonzero_kernel (B : banded) (auN alN : matrix) (indexN : list nat) (dN : T) :
  wfB B -> bm1 B <= bn B ->
  decompose_gen false B (compact B) (mat_new (bn B) (bm1 B) zero) (repeat 0 (bn B)) = Ok (auN, alN, indexN, dN) ->
  (forall i, i < bn B -> mat_at auN (bm1 B + bm2 B + 1) i 0 <> zero) ->
  trivial_kernel B.
Proof.
  intros Hwf Hm1 Edec Hpiv x Hlen Hx. pose proof Hwf as (_ & _ & Hcols).
  set (n := bn B) in *. set (m1 := bm1 B) in *. set (mm := m1 + bm2 B + 1) in *.
  assert (Hmm : 1 <= mm) by (unfold mm; lia).
  unfold decompose_gen in Edec. fold m1 mm n in Edec.
  apply bind_ok in Edec as (au0 & Eshift & Edec).
  apply bind_ok in Edec as ([[[[auN' alN'] indexN'] dN'] lN'] & Eloop & Edec). injection Edec as <- <- <- <-.
  apply (shift_rows_Ok_inv _ _ mm m1) in Eshift as (Hc0 & Hau0); auto; [|unfold mm; lia].
  unfold for_ in Eloop. rewrite Nat.sub_0_r in Eloop.
  assert (Hl0 : m1 = Nat.min (0 + m1) n) by lia.
  assert (Eloop' : for_from n 0 (dec_step false n mm)
                     (au0, mat_new n m1 zero, repeat 0 n, one, Nat.min (0 + m1) n) = Ok (auN', alN', indexN', dN', lN'))
    by (rewrite <- Hl0; exact Eloop).
  assert (H0 : forall i, i < n -> tabv (full au0 mm m1 0) n x i = zero).
  { intros i Hi. unfold tabv.
    rewrite (sum_n_ext n _ (fun j => mul (dense_entry B i j) (nth j x zero))).
    2:{ intros j Hj. f_equal. apply (full_init B au0 i j); auto. }
    assert (E : nth i (dense_mulv B x) zero = zero) by (rewrite Hx; apply nth_repeat).
    unfold dense_mulv in E. fold n in E. now rewrite nth_map_seq in E by auto. }
  pose proof (dec_forward n mm m1 x Hmm Hm1 n 0 au0 (mat_new n m1 zero) (repeat 0 n) one auN' alN' indexN' dN' lN'
                eq_refl Hc0 eq_refl Eloop' (fun i Hi => Hpiv i (proj2 Hi)) H0) as HN.
  assert (Hz : forall i, i < n -> nth i x zero = zero).
  { apply (upper_kernel n (full auN' mm m1 n)); auto.
    - intros i j Hi Hji. now apply (full_final n mm m1 auN' i j).
    - intros i Hi. rewrite (proj2 (full_final n mm m1 auN' i i Hmm Hi)). now apply Hpiv. }
  apply (nth_ext _ _ zero zero); [now rewrite repeat_length|].
  intros i Hi. rewrite nth_repeat. apply Hz. lia.
Qed.

Variable PL : PivotLaws A.

(* det <> 0  <->  nonsingular twin *)
Lemma band_det_nonzero_iff_gen (B : banded) :
  wfB B -> bm1 B <= bn B ->
  exists dd, band_det B = Ok dd /\ (dd <> zero <-> trivial_kernel B).
Proof.
  intros Hwf Hm1.
  destruct (band_det_pivots FL B Hwf Hm1) as (dd & auN & alN & indexN & dN & Edet & Edec & Hdd).
  exists dd. split; auto. split.
  - intros Hnz. apply (pivots_nonzero_kernel B auN alN indexN dN); auto.
    intros i Hi Hz. apply Hnz. apply Hdd. now exists i.
  - intros Hker Hz. apply Hdd in Hz as (i & Hi & Hz).
    exact (decompose_pivots_nonzero FL PL B auN alN indexN dN Hwf Hm1 Hker Edec i Hi Hz).
Qed.

(* the solver answers one right-hand side  <->  it answers all of them  <->  nonsingular twin *)
Lemma band_solve_answers_iff_gen (B : banded) :
  wfB B -> bm1 B <= bn B ->
  ((exists b x, length b = bn B /\ band_solve B b = Ok x) <-> trivial_kernel B) /\
  (trivial_kernel B <-> forall b, length b = bn B -> exists x, band_solve B b = Ok x /\ length x = bn B /\ dense_mulv B x = b).
Proof.
  intros Hwf Hm1.
  destruct (band_det_nonzero_iff_gen B Hwf Hm1) as (dd & Edet & Hiff).
  destruct (band_det_pivots FL B Hwf Hm1) as (dd' & auN & alN & indexN & dN & Edet' & Edec & Hdd).
  rewrite Edet in Edet'. injection Edet' as <-.
  assert (Hone : (exists b x, length b = bn B /\ band_solve B b = Ok x) -> trivial_kernel B).
  { intros (b & x & Hb & E). apply Hiff. intros Hz. apply Hdd in Hz.
    destruct (band_solve_total_lemma FL B b Hwf Hb Hm1) as [_|(E' & _)]; [|congruence].
    (* an answer means that no pivot is zero: the refusal is decided by the factorisation alone *)
    destruct Hz as (i & Hi & Hz).
    unfold band_solve, band_solve_gen in E. rewrite <- Hb, Nat.eqb_refl in E. cbn [negb] in E. rewrite Hb in E.
    rewrite Edec in E. cbn [bind] in E.
    apply bind_ok in E as ([y ly] & Efwd & E). apply bind_ok in E as ([x' lx] & Eback & E).
    pose proof Hwf as (_ & _ & Hcols).
    assert (HcN : cols auN = bm1 B + bm2 B + 1).
    { unfold decompose_gen in Edec.
      apply bind_ok in Edec as (au0 & Eshift & Edec).
      apply bind_ok in Edec as ([[[[auN' alN'] indexN'] dN'] lN'] & Eloop & Edec). injection Edec as <- <- <- <-.
      apply (shift_rows_Ok_inv _ _ (bm1 B + bm2 B + 1) (bm1 B)) in Eshift as (Hc0 & _); auto; [|lia].
      unfold for_ in Eloop. rewrite Nat.sub_0_r in Eloop.
      pose proof (dec_loop_frame FL (bn B) (bm1 B + bm2 B + 1) (bm1 B) (bn B) 0
                    (au0, mat_new (bn B) (bm1 B) zero, repeat 0 (bn B), one, bm1 B)
                    (auN', alN', indexN', dN', lN')) as HF.
      cbn beta iota in HF. cbn [fst snd] in HF.
      now destruct (HF Hc0 eq_refl ltac:(lia) ltac:(lia) Hm1 Eloop) as (HcN & _). }
    cbn [fst] in Eback. unfold for_ in Efwd. rewrite Nat.sub_0_r in Efwd.
    pose proof (fwd_loop_length _ _ _ _ _ _ _ Efwd) as Hylen. cbn [fst] in Hylen.
    destruct (back_subst_sound FL auN (bm1 B + bm2 B + 1) (bn B) y x' lx HcN ltac:(lia) ltac:(congruence) Eback)
      as (_ & Hfin).
    exact (proj2 (Hfin i Hi) Hz). }
  assert (Hall : trivial_kernel B ->
            forall b, length b = bn B -> exists x, band_solve B b = Ok x /\ length x = bn B /\ dense_mulv B x = b).
  { intros Hker b Hb. now apply (band_solve_complete_lemma FL PL). }
  split; split; auto.
  - intros Hker. destruct (Hall Hker (repeat zero (bn B)) (repeat_length _ _)) as (x & E & _).
    exists (repeat zero (bn B)), x. split; auto. apply repeat_length.
  - intros H. apply Hone. destruct (H (repeat zero (bn B)) (repeat_length _ _)) as (x & E & _).
    exists (repeat zero (bn B)), x. split; auto. apply repeat_length.
Qed.

End Ker.
