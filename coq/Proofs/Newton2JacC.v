(* Proofs/Newton2JacC.v -- C18 over C = R[i]: the O(delta) claim for Matrix::<Cmplx>::jacobian_cmplx
   (package newton2).  The step is REAL (Cmplx::new(delta, 0.0)); entry (i, j) of the returned matrix is
   the forward quotient along the real direction of coordinate j.  With gr(t), gi(t) the real and
   imaginary parts of f_i(x + t e_j), t real, both twice differentiable on the segment between 0 and
   delta:   |re J_ij - gr'(0)| <= (|delta|/2) sup|gr''|,   |im J_ij - gi'(0)| <= (|delta|/2) sup|gi''|.
   (For a holomorphic f_i, gr'(0) + i gi'(0) is the complex partial derivative.) *)
From Coq Require Import List Arith Lia Reals Lra Psatz.
From OV Require Import Base.Panic Base.Arith Model.Complex Model.Vector Model.Matrix Model.Newton
  Proofs.Matrix Proofs.NewtonLoop Proofs.Newton Proofs.NewtonJac Proofs.Newton2Deriv Proofs.Newton2Jac
  Proofs.SolveBase Proofs.SolveR Proofs.SolveC Proofs.Newton2Inst.
Import ListNotations.
Local Open Scope R_scope.

Lemma NCR_RingLaws : RingLaws (NA NCR).
Proof. exact (nw_ring_laws NCR ACR_FieldLaws). Qed.

Lemma perturbed_noop (O : NOps) (x : list (NA O)) (d : NA O) j :
  add (nth j x zero) d = nth j x zero -> perturbed O x d j = x.
Proof. intros E. unfold perturbed. rewrite E. apply nw_upd_list_same. Qed.

Lemma perturbed_C0 (x : list ACR) j : perturbed NCR x (mkC (A:=AR) 0 0) j = x.
Proof.
  apply perturbed_noop. generalize (nth j x (@zero (NA NCR))). intros [u v]. apply cplx_eq; cbn; ring.
Qed.

(* complex / (d, 0) *)
Lemma cdiv_real_Ok_inv (z q : ACR) (d : R) :
  div z (mkC (A:=AR) d 0 : ACR) = Ok q -> d <> 0 /\ re q = re z / d /\ im q = im z / d.
Proof.
  destruct z as [u v]. cbn. unfold cdiv. cbn. unfold R_div.
  destruct (R_eqb (d * d + 0 * 0) 0) eqn:E; [discriminate|]. cbn. intros H. injection H as <-.
  assert (Hd : d <> 0).
  { intros ->. assert (R_eqb (0 * 0 + 0 * 0) 0 = true) by (apply R_eqb_true; ring). congruence. }
  split; [exact Hd|]. cbn. split; field; exact Hd.
Qed.

Lemma jacobian_truncation_C_lemma (F : list ACR -> res (list ACR)) (x : list ACR) (dl : R) (J : matrix ACR) evs :
  jacobian NCR F x (emb NCR dl) = Ok (J, evs) ->
  forall (i j : nat) (gr gr1 gr2 gi gi1 gi2 : R -> R) (Br Bi : R),
  (i < rows J)%nat -> (j < length x)%nat ->
  (forall t, Rmin 0 dl <= t <= Rmax 0 dl ->
     exists v, F (perturbed NCR x (mkC (A:=AR) t 0) j) = Ok v /\
               re (nth i v (zero : ACR)) = gr t /\ im (nth i v (zero : ACR)) = gi t) ->
  (forall t, Rmin 0 dl <= t <= Rmax 0 dl -> derivable_pt_lim gr t (gr1 t)) ->
  (forall t, Rmin 0 dl <= t <= Rmax 0 dl -> derivable_pt_lim gr1 t (gr2 t)) ->
  (forall t, Rmin 0 dl <= t <= Rmax 0 dl -> Rabs (gr2 t) <= Br) ->
  (forall t, Rmin 0 dl <= t <= Rmax 0 dl -> derivable_pt_lim gi t (gi1 t)) ->
  (forall t, Rmin 0 dl <= t <= Rmax 0 dl -> derivable_pt_lim gi1 t (gi2 t)) ->
  (forall t, Rmin 0 dl <= t <= Rmax 0 dl -> Rabs (gi2 t) <= Bi) ->
  exists q : ACR, mget J i j = Ok q /\
    Rabs (re q - gr1 0) <= Rabs dl / 2 * Br /\ Rabs (im q - gi1 0) <= Rabs dl / 2 * Bi.
Proof.
  intros H i j gr gr1 gr2 gi gi1 gi2 Br Bi Hi Hj Hg R1 R2 RB I1 I2 IB.
  destruct (jacobian_entry_lemma NCR NCR_RingLaws F x (emb NCR dl) J evs H) as (f0 & E0 & Rw & _ & Hent).
  assert (Hi' : (i < length f0)%nat) by (rewrite <- Rw; exact Hi).
  destruct (Hent i j Hi' Hj) as (fj & q & Ej & Eq & Em).
  exists q. split; [exact Em|].
  apply cdiv_real_Ok_inv in Eq as (Hd & Eqr & Eqi).
  destruct (Hg dl (segd dl)) as (v & Ev & Hvr & Hvi).
  destruct (Hg 0 (seg0 dl)) as (v0 & Ev0 & Hv0r & Hv0i).
  rewrite perturbed_C0 in Ev0.
  change (emb NCR dl) with (mkC (A:=AR) dl 0) in Ej.
  assert (v = fj) by congruence. assert (v0 = f0) by congruence. subst v v0.
  assert (Er : re q = (gr dl - gr 0) / dl) by (rewrite <- Hvr, <- Hv0r; exact Eqr).
  assert (Ei : im q = (gi dl - gi 0) / dl) by (rewrite <- Hvi, <- Hv0i; exact Eqi).
  rewrite Er, Ei. split.
  - exact (fwd_diff_trunc gr gr1 gr2 dl Br R1 R2 RB Hd).
  - exact (fwd_diff_trunc gi gi1 gi2 dl Bi I1 I2 IB Hd).
Qed.

Lemma fl_div_total (A : Arith) (FL : FieldLaws A) (d : A) : d <> zero -> forall a : A, exists q, div a d = Ok q.
Proof.
  intros Hd a. rewrite (fl_div A FL). destruct (eqb d zero) eqn:E; [|eauto].
  apply (fl_eqb A FL) in E. contradiction.
Qed.

(* ---- non-vacuity witness: F(z) = (z^2) at z = 1 + i, delta = 1/4, entry (0, 0):
        re f(1 + t + i) = (1 + t)^2 - 1, im f(1 + t + i) = 2 (1 + t); second derivatives 2 and 0 ---- *)
Definition Fwc (p : list ACR) : res (list ACR) := let* z := rd p 0 in Ok [mul z z].

Lemma jacobian_truncation_C_witness :
  exists J evs, jacobian NCR Fwc [mkC (A:=AR) 1 1] (emb NCR (1 / 4)) = Ok (J, evs) /\ (0 < rows J)%nat /\
    (forall t, Rmin 0 (1 / 4) <= t <= Rmax 0 (1 / 4) ->
       exists v, Fwc (perturbed NCR [mkC (A:=AR) 1 1] (mkC (A:=AR) t 0) 0) = Ok v /\
                 re (nth 0 v (zero : ACR)) = (1 + t) * (1 + t) - 1 /\ im (nth 0 v (zero : ACR)) = 2 * (1 + t)) /\
    (forall t, derivable_pt_lim (fun t => (1 + t) * (1 + t) - 1) t (2 * (1 + t))) /\
    (forall t, derivable_pt_lim (fun t => 2 * (1 + t)) t 2) /\ Rabs 2 <= 2 /\
    (forall t, derivable_pt_lim (fun _ : R => 2) t 0) /\ Rabs 0 <= 0.
Proof.
  destruct (jacobian_shape_lemma NCR Fwc [mkC (A:=AR) 1 1] (emb NCR (1 / 4)) 1) as (J & evs & EJ & _ & Rw & _).
  - intros [|u [|? ?]] Hl; try discriminate. cbn. eauto.
  - apply (fl_div_total ACR ACR_FieldLaws). apply NCR_emb. lra.
  - exists J, evs. split; [exact EJ|]. split; [rewrite Rw; lia|]. split; [|split; [|split; [|split; [|split]]]].
    + intros t _. cbn. eexists. split; [reflexivity|]. cbn. split; ring.
    + intros t. dpoly.
    + intros t. dpoly.
    + rewrite Rabs_right; lra.
    + intros t. apply derivable_pt_lim_const.
    + rewrite Rabs_R0. lra.
Qed.
