(* Proofs/SrcEqTridiag.v -- the hand-written model of src/tridiagonal.rs (Model/Tridiag.v, package C05) IS the code:
   every definition s_<f> of gen/SrcTridiag.v (regenerated from the Rust source by driver/rust2coq.py on this run) equals
   its hand-written counterpart, for every arithmetic, every size (n = 0 and n = 1 included) and every value; no
   well-formedness hypothesis.  Where the model function is total the lemma also says that the source never panics. *)
From Coq Require Import List Arith ZArith Lia Bool.
From OV Require Import Base.Panic Base.Arith Model.Vector Model.Matrix Model.Tridiag gen.SrcPrelude gen.SrcTridiag Proofs.SrcEqBase.
Import ListNotations.

Section SrcEqTridiag.
Context {A : Arith}.
Implicit Types (t a b : tridiag A) (v r sb mn sp : list (T A)) (x y z : T A) (n i j : nat).

(* `sub.len() != n - 1 || sup.len() != n - 1`: short-circuit `||` whose right operand has a checked subtraction *)
Lemma src_with_vectors sb mn sp : s_with_vectors sb mn sp = with_vectors sb mn sp.
Proof. unfold s_with_vectors, with_vectors, with_vecs. src_eq. Qed.
Lemma src_with_vecs sb mn sp : s_with_vecs sb mn sp = with_vecs sb mn sp.
Proof. unfold s_with_vecs, with_vecs. src_eq. Qed.
Lemma src_tnew n : @s_tnew A n = tnew n. Proof. reflexivity. Qed.
Lemma src_with_elements x y z n : s_with_elements x y z n = with_elements x y z n. Proof. reflexivity. Qed.
Lemma src_tresize t n : s_tresize t n = tresize t n. Proof. reflexivity. Qed.
Lemma src_ttranspose_in_place t : s_ttranspose_in_place t = Ok (ttranspose_in_place t). Proof. reflexivity. Qed.
Lemma src_ttranspose t : s_ttranspose t = Ok (ttranspose t). Proof. reflexivity. Qed.

(* det / convert / solve / product: the source's `j - 1`, `n - 2` are checked usize subtractions; the model writes plain
   subtractions where the loop range (or the n = 0 / n = 1 tests) make them safe -- equal on those ranges *)
Lemma src_tdet t : s_tdet t = tdet t.
Proof. unfold s_tdet, tdet. src_eq. Qed.
Lemma src_tconvert t : s_tconvert t = tconvert t.
Proof. unfold s_tconvert, tconvert. src_eq. Qed.
Lemma src_tsolve t r : s_tsolve t r = tsolve t r.
Proof. unfold s_tsolve, tsolve, thomas_fwd_body, thomas_back_body. src_eq. Qed.
Lemma src_tmul t v : s_tmul t v = tmul t v.
Proof. unfold s_tmul, tmul, tmul_gen. cbn [andb]. src_eq. Qed.

Lemma src_tindex t i j : s_tindex t (i, j) = tindex t i j. Proof. reflexivity. Qed.

(* arithmetic: the Vector operators on the three diagonals, in the order sub, main, sup *)
Lemma src_tneg t : s_tneg t = Ok (tneg t). Proof. reflexivity. Qed.
Lemma src_tadd a b : s_tadd a b = tadd a b. Proof. reflexivity. Qed.
Lemma src_tminus a b : s_tminus a b = tminus a b. Proof. reflexivity. Qed.
Lemma src_tscale t x : s_tscale t x = Ok (tscale t x). Proof. reflexivity. Qed.
Lemma src_tscale_l x t : s_tscale_l x t = Ok (tscale_l x t). Proof. reflexivity. Qed.
Lemma src_tdiv t x : s_tdiv t x = tdiv t x. Proof. reflexivity. Qed.
Lemma src_tadd_assign_s t x : s_tadd_assign_s t x = Ok (tadd_assign_s t x). Proof. reflexivity. Qed.
Lemma src_tsub_assign_s t x : s_tsub_assign_s t x = Ok (tsub_assign_s t x). Proof. reflexivity. Qed.
Lemma src_tmul_assign_s t x : s_tmul_assign_s t x = Ok (tmul_assign_s t x). Proof. reflexivity. Qed.
Lemma src_tdiv_assign_s t x : s_tdiv_assign_s t x = tdiv_assign_s t x. Proof. reflexivity. Qed.

(* all of them at once: what a Props file pins as  model_is_source_<property>  *)
Definition model_is_source_Tridiag : Prop :=
  (forall sb mn sp, s_with_vectors sb mn sp = with_vectors sb mn sp) /\
  (forall sb mn sp, s_with_vecs sb mn sp = with_vecs sb mn sp) /\
  (forall n, @s_tnew A n = tnew n) /\
  (forall x y z n, s_with_elements x y z n = with_elements x y z n) /\
  (forall t n, s_tresize t n = tresize t n) /\
  (forall t, s_ttranspose_in_place t = Ok (ttranspose_in_place t)) /\
  (forall t, s_ttranspose t = Ok (ttranspose t)) /\
  (forall t, s_tdet t = tdet t) /\
  (forall t, s_tconvert t = tconvert t) /\
  (forall t r, s_tsolve t r = tsolve t r) /\
  (forall t v, s_tmul t v = tmul t v) /\
  (forall t i j, s_tindex t (i, j) = tindex t i j) /\
  (forall t, s_tneg t = Ok (tneg t)) /\
  (forall a b, s_tadd a b = tadd a b) /\
  (forall a b, s_tminus a b = tminus a b) /\
  (forall t x, s_tscale t x = Ok (tscale t x)) /\
  (forall x t, s_tscale_l x t = Ok (tscale_l x t)) /\
  (forall t x, s_tdiv t x = tdiv t x) /\
  (forall t x, s_tadd_assign_s t x = Ok (tadd_assign_s t x)) /\
  (forall t x, s_tsub_assign_s t x = Ok (tsub_assign_s t x)) /\
  (forall t x, s_tmul_assign_s t x = Ok (tmul_assign_s t x)) /\
  (forall t x, s_tdiv_assign_s t x = tdiv_assign_s t x).
Lemma model_is_source_Tridiag_lemma : model_is_source_Tridiag.
Proof. exact (conj src_with_vectors (conj src_with_vecs (conj src_tnew (conj src_with_elements (conj src_tresize (conj src_ttranspose_in_place (conj src_ttranspose (conj src_tdet (conj src_tconvert (conj src_tsolve (conj src_tmul (conj src_tindex (conj src_tneg (conj src_tadd (conj src_tminus (conj src_tscale (conj src_tscale_l (conj src_tdiv (conj src_tadd_assign_s (conj src_tsub_assign_s (conj src_tmul_assign_s src_tdiv_assign_s))))))))))))))))))))). Qed.

End SrcEqTridiag.
