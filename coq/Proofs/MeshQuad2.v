(* Proofs/MeshQuad2.v -- Mesh2D quadrature, continued: the generic cell function of
   Mesh2D::trapezium / square_trapezium (Model/Mesh.v: trap2_gen) as a double sum of cell
   contributions, square_trapezium with the integrand v*v, and the degenerate sizes of the 2-D
   rule (one x-node: empty outer loop; no y-node with at least two x-nodes: `self.ny - 1`
   underflows in the first outer iteration). *)
From Coq Require Import List Arith Lia Bool Reals Lra.
From OV Require Import Base.Panic.
From OV Require Import Base.Arith.
From OV Require Import Model.Vector.
From OV Require Import Model.Mesh.
From OV Require Import Proofs.MeshBase.
From OV Require Import Proofs.MeshQuad.
Import ListNotations.
Local Open Scope R_scope.

Lemma Rabs'_sq (v : R) : Rabs' v * Rabs' v = v * v.
Proof. unfold Rabs'. destruct (Rltb v 0); ring. Qed.

(* the contribution of cell (i,j) with the nodal values passed through g *)
Definition cell2g (quarter : R) (g : R -> R) (m : mesh2 AR R) (var i j : nat) : R :=
  quarter * (nodex2 m (i + 1) - nodex2 m i) * (nodey2 m (j + 1) - nodey2 m j)
  * (g (val2 m var i j) + g (val2 m var (i + 1) j)
     + g (val2 m var i (j + 1)) + g (val2 m var (i + 1) (j + 1))).

Lemma cell2g_id quarter m var i j : cell2g quarter (fun v => v) m var i j = cell2 quarter m var i j.
Proof. reflexivity. Qed.

Section Trap2g.
Variable m : mesh2 AR R.
Variable var : nat.

Lemma trap2_cell_gen_ok quarter (g : R -> R) i j :
  wf2 m -> (var < m2_nvars m)%nat -> (i + 1 < m2_nx m)%nat -> (j + 1 < m2_ny m)%nat ->
  @trap2_cell AR quarter g m var i j (nodex2 m (i + 1) - nodex2 m i) =
    Ok (cell2g quarter g m var i j).
Proof.
  intros (Hx & Hy & Hlen & HF) Hv Hi Hj. unfold trap2_cell. change (T AR) with R in *.
  rewrite (rd_ok (m2_y m) (j + 1) 0) by lia. cbn [bind].
  rewrite (rd_ok (m2_y m) j 0) by lia. cbn [bind].
  assert (Hb : ((i + 1) * m2_ny m + j + 1 < m2_nx m * m2_ny m)%nat) by nia.
  rewrite <- Hlen in Hb.
  rewrite (var_at_ok _ (m2_nvars m)); [|exact HF|nia|exact Hv]. cbn [bind].
  rewrite (var_at_ok _ (m2_nvars m)); [|exact HF|nia|exact Hv]. cbn [bind].
  rewrite (var_at_ok _ (m2_nvars m)); [|exact HF|nia|exact Hv]. cbn [bind].
  rewrite (var_at_ok _ (m2_nvars m)); [|exact HF|nia|exact Hv]. cbn [bind].
  unfold cell2g, val2, nodey2.
  replace (i * m2_ny m + (j + 1))%nat with (i * m2_ny m + j + 1)%nat by lia.
  replace ((i + 1) * m2_ny m + (j + 1))%nat with ((i + 1) * m2_ny m + j + 1)%nat by lia.
  reflexivity.
Qed.

(* N4: the generic 2-D rule is the double sum of the cell contributions; no access out of range *)
Lemma trap2_gen_cells quarter (g : R -> R) :
  wf2 m -> (var < m2_nvars m)%nat -> (1 <= m2_nx m)%nat -> (1 <= m2_ny m)%nat ->
  @trap2_gen AR quarter g m var =
    Ok (sumR (m2_nx m - 1) (fun i => sumR (m2_ny m - 1) (fun j =>
          quarter * (nodex2 m (i + 1) - nodex2 m i) * (nodey2 m (j + 1) - nodey2 m j)
          * (g (val2 m var i j) + g (val2 m var (i + 1) j)
             + g (val2 m var i (j + 1)) + g (val2 m var (i + 1) (j + 1)))))).
Proof.
  intros Hwf Hv Hnx Hny. pose proof Hwf as (Hx & Hy & Hlen & HF).
  unfold trap2_gen, usub. change (T AR) with R in *.
  destruct (Nat.leb_spec 1 (m2_nx m)) as [_|]; [|lia]. cbn [bind].
  rewrite (for_sum _ (fun i => sumR (m2_ny m - 1) (fun j => cell2g quarter g m var i j))).
  - f_equal. change (@zero AR) with 0. unfold cell2g. lra.
  - intros i s Hi.
    rewrite (rd_ok (m2_x m) (i + 1) 0) by lia. cbn [bind].
    rewrite (rd_ok (m2_x m) i 0) by lia. cbn [bind].
    destruct (Nat.leb_spec 1 (m2_ny m)) as [_|]; [|lia]. cbn [bind].
    apply for_sum. intros j t Hj.
    change (@sub AR) with Rminus.
    pose proof (trap2_cell_gen_ok quarter g i j Hwf Hv ltac:(lia) ltac:(lia)) as E.
    unfold nodex2 in E at 1 2. change (T AR) with R in E. rewrite E. reflexivity.
Qed.

(* Mesh2D::square_trapezium: the same rule on the squares of the nodal values *)
Lemma square_trapezium2_cells quarter :
  wf2 m -> (var < m2_nvars m)%nat -> (1 <= m2_nx m)%nat -> (1 <= m2_ny m)%nat ->
  @square_trapezium2 AR quarter m var =
    Ok (sumR (m2_nx m - 1) (fun i => sumR (m2_ny m - 1) (fun j =>
          quarter * (nodex2 m (i + 1) - nodex2 m i) * (nodey2 m (j + 1) - nodey2 m j)
          * (val2 m var i j * val2 m var i j + val2 m var (i + 1) j * val2 m var (i + 1) j
             + val2 m var i (j + 1) * val2 m var i (j + 1)
             + val2 m var (i + 1) (j + 1) * val2 m var (i + 1) (j + 1))))).
Proof.
  intros Hwf Hv Hnx Hny. unfold square_trapezium2.
  rewrite trap2_gen_cells by assumption. f_equal.
  apply sumR_ext. intros i _. apply sumR_ext. intros j _.
  change (@mul AR) with Rmult. change (@abs AR) with Rabs'.
  rewrite !Rabs'_sq. reflexivity.
Qed.

(* degenerate sizes *)
Lemma trap2_gen_single_x quarter (g : R -> R) :
  m2_nx m = 1%nat -> @trap2_gen AR quarter g m var = Ok 0.
Proof.
  intros H. unfold trap2_gen, usub. change (T AR) with R in *. rewrite H. reflexivity.
Qed.

Lemma trapezium2_single_x quarter :
  m2_nx m = 1%nat -> @trapezium2 AR quarter m var = Ok 0.
Proof. intros H. unfold trapezium2. now apply trap2_gen_single_x. Qed.

Lemma trap2_gen_empty_y quarter (g : R -> R) :
  (2 <= m2_nx m)%nat -> wf2 m -> m2_ny m = 0%nat ->
  @trap2_gen AR quarter g m var = Panic Underflow.
Proof.
  intros Hnx (Hx & Hy & Hlen & HF) Hny. unfold trap2_gen, usub. change (T AR) with R in *.
  destruct (Nat.leb_spec 1 (m2_nx m)) as [_|]; [|lia]. cbn [bind].
  unfold for_. replace (m2_nx m - 1 - 0)%nat with (S (m2_nx m - 2)) by lia.
  cbn [for_from].
  rewrite (rd_ok (m2_x m) (0 + 1) 0) by lia. cbn [bind].
  rewrite (rd_ok (m2_x m) 0 0) by lia. cbn [bind].
  rewrite Hny. reflexivity.
Qed.

Lemma trapezium2_empty_y quarter :
  (2 <= m2_nx m)%nat -> wf2 m -> m2_ny m = 0%nat ->
  @trapezium2 AR quarter m var = Panic Underflow.
Proof. intros. unfold trapezium2. now apply trap2_gen_empty_y. Qed.

End Trap2g.
