(* Proofs/IterCGSparse.v -- round two, package iter2: the conjugate-gradient theorems of Proofs/IterCG.v /
   Proofs/IterCGR.v for the implementation's own matrix type.  A well-formed square CSC storage whose
   denoted matrix is symmetric (sp_entry s i j = sp_entry s j i) gives a symmetric operator in the sense
   of [SymOp]; with positive definiteness stated on the denoted matrix, solve_cg on the storage
   (run_sparse CG, the function the correspondence check runs) answers Ok within n iterations over R. *)
From Coq Require Import List Arith Lia Bool Reals Lra.
From OV Require Import Base.Panic Base.Arith Model.Vector Model.Matrix Model.Sparse Model.Iter
  Proofs.SparseBase Proofs.SparseMul Proofs.Iter Proofs.IterField Proofs.IterR Proofs.IterSparse Proofs.IterSparseR
  Proofs.IterCGVec Proofs.IterCG Proofs.IterCGR Proofs.IterCGBi.
Import ListNotations.

Definition sp_symmetric {A : Arith} (s : sparse A) : Prop :=
  forall i j, i < sp_rows s -> j < sp_cols s -> sp_entry s i j = sp_entry s j i.

Section SymSparse.
Context {A : Arith}.
Variable RL : RingLaws A.

Lemma dtmulv_sym (E : nat -> nat -> A) n (y : list A) :
  (forall i j, i < n -> j < n -> E i j = E j i) -> dtmulv E n n y = dmulv E n n y.
Proof.
  intros H. unfold dtmulv, dmulv. apply map_ext_in. intros j Hj. apply in_seq in Hj.
  apply sum_n_ext. intros i Hi. rewrite H by lia. reflexivity.
Qed.

Theorem sp_mul_SymOp (s : sparse A) n : wfS s -> sp_rows s = n -> sp_cols s = n -> sp_symmetric s ->
  SymOp n (sp_mul s).
Proof.
  intros Hwf Hr Hc Hsym u v au av Hu Hv Eu Ev.
  rewrite (sp_mul_spec_lemma RL) in Eu, Ev by (auto; lia). injection Eu as <-. injection Ev as <-.
  rewrite (dense_adjoint RL) by lia. rewrite Hr, Hc. rewrite dtmulv_sym; auto.
  intros i j Hi Hj. apply Hsym; lia.
Qed.

(* on a symmetric storage transpose_multiply computes the same vector as multiply *)
Theorem sp_tmul_eq_mul_sym (s : sparse A) n : wfS s -> sp_rows s = n -> sp_cols s = n -> sp_symmetric s ->
  forall v, length v = n -> sp_tmul s v = sp_mul s v.
Proof.
  intros Hwf Hr Hc Hsym v Hv.
  rewrite (sp_mul_spec_lemma RL), (sp_tmul_spec_lemma RL) by (auto; lia). f_equal.
  rewrite Hr, Hc. apply dtmulv_sym. intros i j Hi Hj. apply Hsym; lia.
Qed.
End SymSparse.

Local Open Scope R_scope.

(* positive definiteness of the matrix a real storage denotes *)
Definition sp_posdef (s : sparse AR) : Prop :=
  forall v, length v = sp_cols s -> v <> repeat 0 (sp_cols s) -> 0 < @dot_raw AR v (@sp_apply AR s v).

Lemma sp_posdef_PosDef (s : sparse AR) n : wfS s -> sp_rows s = n -> sp_cols s = n -> sp_posdef s ->
  PosDef n (@sp_mul AR s).
Proof.
  intros Hwf Hr Hc Hpd v av Hv Ev Hne.
  assert (Hv' : length v = sp_cols s) by (rewrite Hc; exact Hv).
  apply (sp_mul_Ok_inv AR_RingLaws) in Ev as ->; auto.
  apply Hpd; [exact Hv' | now rewrite Hc].
Qed.

(* SPD storage of order n over R: CG answers Ok k with k <= n for every b, x0, tol >= 0, budget >= n, and the
   answer satisfies the residual bound *)
Theorem cg_terminates_spd_sparse_R (s : sparse AR) (b x0 : list R) max tol :
  wfS s -> sp_rows s = sp_cols s -> sp_symmetric s -> sp_posdef s ->
  length b = sp_rows s -> length x0 = sp_rows s -> 0 <= tol -> (sp_rows s <= max)%nat ->
  exists k x g, @run_sparse SAR CG s b x0 max tol = Ok (IOk k, x, g) /\ (k <= sp_rows s)%nat /\
    @norm2 SAR (@zipw AR Rminus b (@sp_apply AR s x)) <= tol * @nz SAR (@norm2 SAR b).
Proof.
  intros Hwf Hsq Hsym Hpd Hb Hx Htol Hmax.
  pose proof (sp_mul_LinOp AR_RingLaws s (sp_rows s) Hwf eq_refl (eq_sym Hsq)) as LO.
  pose proof (sp_mul_SymOp AR_RingLaws s (sp_rows s) Hwf eq_refl (eq_sym Hsq) Hsym) as SYM.
  pose proof (sp_posdef_PosDef s (sp_rows s) Hwf eq_refl (eq_sym Hsq) Hpd) as PD.
  destruct (cg_terminates_spd_R (sp_rows s) (@sp_mul AR s) LO SYM b x0 max tol PD Hb Hx Htol Hmax) as (k & x & g & H & Hk).
  exists k, x, g.
  assert (H' : @run_sparse SAR CG s b x0 max tol = Ok (IOk k, x, g)).
  { assert (E : forall c, c = sp_rows s ->
              @solve_cg SAR (@sp_mul AR s) (sp_rows s) c b x0 max tol = Ok (IOk k, x, g)) by (intros c ->; exact H).
    exact (E _ (eq_sym Hsq)). }
  split; auto. split; auto.
  exact (run_sparse_ok_solved_R CG s b x0 max tol k x g Hwf H').
Qed.

(* whatever CG returns on a symmetric positive semi-definite storage, the error did not grow in the A-norm *)
Theorem cg_error_monotone_sparse_R (s : sparse AR) (b x0 xs : list R) max tol res x g :
  wfS s -> sp_symmetric s ->
  (forall v, length v = sp_cols s -> 0 <= @dot_raw AR v (@sp_apply AR s v)) ->
  length xs = sp_cols s -> @sp_apply AR s xs = b ->
  @run_sparse SAR CG s b x0 max tol = Ok (res, x, g) ->
  @anorm2 SAR (@sp_mul AR s) (@zipw AR Rminus xs x) <= @anorm2 SAR (@sp_mul AR s) (@zipw AR Rminus xs x0).
Proof.
  intros Hwf Hsym Hpsd Hxs Exs H.
  destruct (@run_sparse_square SAR CG s b x0 max tol _ H) as (Hsq & Hb & Hx0).
  pose proof (sp_mul_LinOp AR_RingLaws s (sp_rows s) Hwf eq_refl (eq_sym Hsq)) as LO.
  pose proof (sp_mul_SymOp AR_RingLaws s (sp_rows s) Hwf eq_refl (eq_sym Hsq) Hsym) as SYM.
  assert (PSD : PosSemi (sp_rows s) (@sp_mul AR s)).
  { intros v av Hv Ev. assert (Hv' : length v = sp_cols s) by exact (eq_trans Hv Hsq).
    apply (sp_mul_Ok_inv AR_RingLaws) in Ev as ->; auto. }
  unfold run_sparse in H. cbn [run] in H.
  apply (cg_error_monotone_R (sp_rows s) (@sp_mul AR s) LO SYM (sp_cols s) b x0 xs max tol res x g PSD); auto.
  - exact (eq_trans Hxs (eq_sym Hsq)).
  - rewrite <- Exs. apply (sp_mul_spec_lemma AR_RingLaws); auto.
Qed.

(* tol = 0: on an SPD storage CG is a direct solver in exact arithmetic -- it returns THE solution within n iterations *)
Theorem cg_direct_solver_sparse_R (s : sparse AR) (b x0 : list R) max :
  wfS s -> sp_rows s = sp_cols s -> sp_symmetric s -> sp_posdef s ->
  length b = sp_rows s -> length x0 = sp_rows s -> (sp_rows s <= max)%nat ->
  exists k x g, @run_sparse SAR CG s b x0 max 0 = Ok (IOk k, x, g) /\ (k <= sp_rows s)%nat /\
    @sp_apply AR s x = b /\
    forall xs, length xs = sp_rows s -> @sp_apply AR s xs = b -> xs = x.
Proof.
  intros Hwf Hsq Hsym Hpd Hb Hx Hmax.
  pose proof (sp_mul_LinOp AR_RingLaws s (sp_rows s) Hwf eq_refl (eq_sym Hsq)) as LO.
  pose proof (sp_mul_SymOp AR_RingLaws s (sp_rows s) Hwf eq_refl (eq_sym Hsq) Hsym) as SYM.
  pose proof (sp_posdef_PosDef s (sp_rows s) Hwf eq_refl (eq_sym Hsq) Hpd) as PD.
  destruct (cg_direct_solver_R (sp_rows s) (@sp_mul AR s) LO SYM b x0 max PD Hb Hx Hmax) as (k & x & g & H & Hk & Eax & Huniq).
  exists k, x, g.
  assert (H' : @run_sparse SAR CG s b x0 max 0 = Ok (IOk k, x, g)).
  { assert (E : forall c, c = sp_rows s ->
              @solve_cg SAR (@sp_mul AR s) (sp_rows s) c b x0 max 0 = Ok (IOk k, x, g)) by (intros c ->; exact H).
    exact (E _ (eq_sym Hsq)). }
  split; auto. split; auto.
  assert (Hxl : length x = sp_cols s).
  { destruct (@run_sparse_tracks SAR AR_FieldLaws CG s b x0 max 0 _ x g Hwf H') as (_ & Hl). exact Hl. }
  split.
  - apply (sp_mul_Ok_inv AR_RingLaws) in Eax; auto.
  - intros xs Hxs Exs. apply Huniq; auto. rewrite <- Exs.
    apply (sp_mul_spec_lemma AR_RingLaws); auto. exact (eq_trans Hxs Hsq).
Qed.

(* ---- BiCG on symmetric storage is CG: the convergence theorems transfer ---- *)
Theorem bicg_terminates_spd_R n (mulA mulAT : list R -> res (list R)) itol (b x0 : list R) max tol :
  @LinOp AR n mulA -> @SymOp AR n mulA -> (forall v, length v = n -> mulAT v = mulA v) -> PosDef n mulA ->
  itol = 1%nat \/ itol = 2%nat -> length b = n -> length x0 = n -> 0 <= tol -> (n <= max)%nat ->
  exists k x g, @solve_bicg SAR mulA mulAT n n itol b x0 max tol = Ok (IOk k, x, g) /\ (k <= n)%nat.
Proof.
  intros LO SYM TS PD Hit Hb Hx Htol Hmax.
  destruct (cg_terminates_spd_R n mulA LO SYM b x0 max tol PD Hb Hx Htol Hmax) as (k & x & g & H & Hk).
  destruct (@bicg_is_cg_on_symmetric SAR AR_FieldLaws n mulA mulAT LO TS itol b x0 max tol _ x g Hit H) as (g' & H').
  exists k, x, g'. auto.
Qed.

Theorem bicg_terminates_spd_sparse_R (s : sparse AR) itol (b x0 : list R) max tol :
  wfS s -> sp_rows s = sp_cols s -> sp_symmetric s -> sp_posdef s -> itol = 1%nat \/ itol = 2%nat ->
  length b = sp_rows s -> length x0 = sp_rows s -> 0 <= tol -> (sp_rows s <= max)%nat ->
  exists k x g, @run_sparse SAR (BiCG itol) s b x0 max tol = Ok (IOk k, x, g) /\ (k <= sp_rows s)%nat /\
    @norm2 SAR (@zipw AR Rminus b (@sp_apply AR s x)) <= tol * @nz SAR (@norm2 SAR b).
Proof.
  intros Hwf Hsq Hsym Hpd Hit Hb Hx Htol Hmax.
  pose proof (sp_mul_LinOp AR_RingLaws s (sp_rows s) Hwf eq_refl (eq_sym Hsq)) as LO.
  pose proof (sp_mul_SymOp AR_RingLaws s (sp_rows s) Hwf eq_refl (eq_sym Hsq) Hsym) as SYM.
  pose proof (sp_posdef_PosDef s (sp_rows s) Hwf eq_refl (eq_sym Hsq) Hpd) as PD.
  pose proof (sp_tmul_eq_mul_sym AR_RingLaws s (sp_rows s) Hwf eq_refl (eq_sym Hsq) Hsym) as TS.
  destruct (bicg_terminates_spd_R (sp_rows s) (@sp_mul AR s) (@sp_tmul AR s) itol b x0 max tol LO SYM TS PD Hit Hb Hx Htol Hmax)
    as (k & x & g & H & Hk).
  exists k, x, g.
  assert (H' : @run_sparse SAR (BiCG itol) s b x0 max tol = Ok (IOk k, x, g)).
  { assert (E : forall c, c = sp_rows s ->
              @solve_bicg SAR (@sp_mul AR s) (@sp_tmul AR s) (sp_rows s) c itol b x0 max tol = Ok (IOk k, x, g)) by (intros c ->; exact H).
    exact (E _ (eq_sym Hsq)). }
  split; auto. split; auto.
  exact (run_sparse_ok_solved_R (BiCG itol) s b x0 max tol k x g Hwf H').
Qed.

(* symmetric storage, not necessarily definite: CG breaks down (a panic of the exact model) or answers Ok within n iterations *)
Theorem cg_no_breakdown_terminates_sparse_R (s : sparse AR) (b x0 : list R) max tol res x g :
  wfS s -> sp_symmetric s -> 0 <= tol -> (sp_rows s <= max)%nat ->
  @run_sparse SAR CG s b x0 max tol = Ok (res, x, g) ->
  exists k, res = IOk k /\ (k <= sp_rows s)%nat.
Proof.
  intros Hwf Hsym Htol Hmax H.
  destruct (@run_sparse_square SAR CG s b x0 max tol _ H) as (Hsq & Hb & Hx0).
  pose proof (sp_mul_LinOp AR_RingLaws s (sp_rows s) Hwf eq_refl (eq_sym Hsq)) as LO.
  pose proof (sp_mul_SymOp AR_RingLaws s (sp_rows s) Hwf eq_refl (eq_sym Hsq) Hsym) as SYM.
  unfold run_sparse in H. cbn [run] in H.
  exact (cg_no_breakdown_terminates_R (sp_rows s) (@sp_mul AR s) LO SYM (sp_cols s) b x0 max tol res x g Htol Hmax H).
Qed.

(* ---- any field: the solver-level CG facts for a symmetric storage ---- *)
Section SymSparseField.
Context {A : SArith}.
Variable FL : FieldLaws (SA A).

(* after at least one iteration the TRUE residual of the returned x is orthogonal to the initial residual *)
Theorem cg_final_residual_orth_initial_sparse (s : sparse (SA A)) (b x0 : list (T (SA A))) max tol res x g :
  wfS s -> sp_symmetric s ->
  run_sparse CG s b x0 max tol = Ok (res, x, g) ->
  g_exit g = 1%nat \/ (g_exit g = 2%nat /\ (1 <= max)%nat) ->
  dot_raw (zipw sub b (sp_apply s x)) (zipw sub b (sp_apply s x0)) = zero.
Proof.
  intros Hwf Hsym H Hex.
  destruct (run_sparse_square CG s b x0 max tol _ H) as (Hsq & Hb & Hx0).
  pose proof (FL_RingLaws FL) as RL.
  pose proof (sp_mul_LinOp RL s (sp_rows s) Hwf eq_refl (eq_sym Hsq)) as LO.
  pose proof (sp_mul_SymOp RL s (sp_rows s) Hwf eq_refl (eq_sym Hsq) Hsym) as SYM.
  destruct (run_sparse_tracks FL CG s b x0 max tol res x g Hwf H) as (Eg & _).
  unfold run_sparse in H. cbn [run] in H.
  destruct (solve_cg_residual_orth_initial FL (sp_rows s) (sp_mul s) LO SYM (sp_cols s) b x0 max tol res x g H Hex)
    as (ax0 & Eax0 & Ho).
  apply (sp_mul_Ok_inv RL) in Eax0 as ->; auto; [|lia]. now rewrite <- Eg.
Qed.

Theorem cg_breakdown_or_terminates_sparse (s : sparse (SA A)) (b x0 : list (T (SA A))) max tol res x g :
  wfS s -> sp_symmetric s -> (sp_rows s + 2 <= max)%nat ->
  run_sparse CG s b x0 max tol = Ok (res, x, g) ->
  exists k, res = IOk k /\ (k <= sp_rows s + 1)%nat.
Proof.
  intros Hwf Hsym Hmax H.
  destruct (run_sparse_square CG s b x0 max tol _ H) as (Hsq & Hb & Hx0).
  pose proof (FL_RingLaws FL) as RL.
  pose proof (sp_mul_LinOp RL s (sp_rows s) Hwf eq_refl (eq_sym Hsq)) as LO.
  pose proof (sp_mul_SymOp RL s (sp_rows s) Hwf eq_refl (eq_sym Hsq) Hsym) as SYM.
  unfold run_sparse in H. cbn [run] in H.
  exact (cg_breakdown_or_terminates FL (sp_rows s) (sp_mul s) LO SYM (sp_cols s) b x0 max tol res x g Hmax H).
Qed.
End SymSparseField.
