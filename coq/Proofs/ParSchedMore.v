(* Proofs/ParSchedMore.v -- further consequences of the invariant of Proofs/ParSched.v:
     - the final STATE (not only the returned value) of every maximal execution is the same: unique normal form;
     - true parallelism: a set of pairwise different threads that can all move in a reachable state may move
       "simultaneously": fired in ANY order they all succeed and reach the same state (so the interleaving
       semantics loses nothing with respect to a semantics in which several CPUs step at the same instant);
     - the index arithmetic of the spawn loop stays within [0, len] (no usize wrap-around in any build profile). *)
From Coq Require Import List Arith Lia Permutation.
From OV Require Import Base.Panic Base.Arith Model.Vector Model.ParDot Model.ParSched
  Proofs.ParDot Proofs.ParSched Proofs.ParSchedConfl.
Import ListNotations.

Lemma all_nth_repeat {X} (l : list X) c : (forall k x, nth_error l k = Some x -> x = c) -> l = repeat c (length l).
Proof.
  induction l as [|h tl IH]; intros H; cbn; auto. f_equal.
  - exact (H 0 h eq_refl).
  - apply IH. intros k x E. exact (H (S k) x E).
Qed.

Section More.
Context {A : Arith}.
Notation T := (T A).
Variables (v w : list T) (t : nat).
Hypothesis Ht : 1 <= t.
Hypothesis Hl : length v = length w.
Notation fire := (fire v w t).
Notation exec := (exec v w t).
Notation terminal := (terminal v w t).
Notation init := (sched_init (A := A) t).
Notation Inv := (Inv v w t).

Lemma sched_final_state_exec sch s' : exec sch init = Some s' -> terminal s' ->
  s' = mkState (MRet (pardot t v w)) (repeat WJoined t).
Proof.
  intros HE HT. destruct (exec_Inv v w t Ht Hl sch init s' (Inv_init v w t Ht Hl) HE) as [HI _].
  pose proof (terminal_final v w t Ht Hl s' HI HT) as HF. destruct HI as [HL HM].
  destruct s' as [m l]. cbn [main ws] in *. subst m. destruct HM as [_ HW].
  rewrite (pardot_psum v w t Ht Hl). f_equal. rewrite <- HL. now apply all_nth_repeat.
Qed.

(* ---- several threads at once ---- *)
Definition enabled (s : @state A) (th : tid) : Prop := exists s', fire th s = Some s'.

Lemma enabled_after s th x s1 : Inv s -> fire x s = Some s1 -> th <> x -> enabled s th -> enabled s1 th.
Proof.
  intros HI Hx Hne [s2 H2].
  destruct (sched_diamond_exec v w t s x th s1 s2 HI (not_eq_sym Hne) Hx H2) as (s' & Ha & _). now exists s'.
Qed.

Lemma parallel_all_fire l : forall s, Inv s -> NoDup l -> (forall th, In th l -> enabled s th) ->
  exists s', exec l s = Some s'.
Proof.
  induction l as [|x r IH]; intros s HI ND HE; cbn [ParSched.exec]; [eauto|].
  destruct (HE x (or_introl eq_refl)) as [s1 H1]. rewrite H1.
  destruct (Inv_step v w t Ht Hl x s s1 HI H1) as [HI1 _]. inversion ND as [|? ? Hnin ND']; subst.
  apply (IH s1 HI1 ND'). intros th Hth.
  apply (enabled_after s th x s1 HI H1); [intros ->; contradiction|apply HE; now right].
Qed.

Lemma parallel_perm l l' : Permutation l l' -> forall s s', Inv s -> NoDup l ->
  (forall th, In th l -> enabled s th) -> exec l s = Some s' -> exec l' s = Some s'.
Proof.
  induction 1 as [|x l l' HP IH|x y l|l l' l'' HP1 IH1 HP2 IH2]; intros s s' HI ND HE HX.
  - exact HX.
  - cbn [ParSched.exec] in *. destruct (fire x s) as [s1|] eqn:E1; [|discriminate].
    destruct (Inv_step v w t Ht Hl x s s1 HI E1) as [HI1 _]. inversion ND as [|? ? Hnin ND']; subst.
    apply (IH s1 s' HI1 ND'); [|exact HX]. intros th Hth.
    apply (enabled_after s th x s1 HI E1); [intros ->; contradiction|apply HE; now right].
  - cbn [ParSched.exec] in *.
    destruct (fire y s) as [sy|] eqn:Ey; [|discriminate].
    destruct (HE x (or_intror (or_introl eq_refl))) as [sx Ex].
    assert (Hne : y <> x).
    { inversion ND as [|? ? Hnin _]; subst. intros ->. apply Hnin. now left. }
    destruct (sched_diamond_exec v w t s y x sy sx HI Hne Ey Ex) as (s2 & Ha & Hb).
    rewrite Ha in HX. rewrite Ex, Hb. exact HX.
  - apply (IH2 s s' HI).
    + now apply (Permutation_NoDup HP1).
    + intros th Hth. apply HE. now apply (Permutation_in _ (Permutation_sym HP1)).
    + now apply (IH1 s s' HI).
Qed.

Lemma sched_parallel_step_exec sch s l l' : exec sch init = Some s ->
  NoDup l -> (forall th, In th l -> enabled s th) -> Permutation l l' ->
  exists s', exec l s = Some s' /\ exec l' s = Some s'.
Proof.
  intros HE ND HEn HP. destruct (exec_Inv v w t Ht Hl sch init s (Inv_init v w t Ht Hl) HE) as [HI _].
  destruct (parallel_all_fire l s HI ND HEn) as [s' H]. exists s'. split; [exact H|].
  now apply (parallel_perm l l' HP s s' HI ND HEn).
Qed.

End More.

Section MoreTop.
Context {A : Arith}.

Lemma sched_final_state_lemma (v w : list A) t s0 n s :
  par_program v w t = Ok s0 -> steps v w t n s0 s -> terminal v w t s ->
  s = mkState (MRet (pardot t v w)) (repeat WJoined t).
Proof.
  intros HP HS HT. apply par_program_ok in HP as (Ht & Hl & ->).
  apply steps_exec in HS as (sch & _ & HE). now apply (sched_final_state_exec v w t Ht Hl sch).
Qed.

Lemma sched_parallel_step_lemma (v w : list A) t s0 n s l l' :
  par_program v w t = Ok s0 -> steps v w t n s0 s ->
  NoDup l -> (forall th, In th l -> exists s1, fire v w t th s = Some s1) -> Permutation l l' ->
  exists s', exec v w t l s = Some s' /\ exec v w t l' s = Some s'.
Proof.
  intros HP HS ND HEn HPm. apply par_program_ok in HP as (Ht & Hl & ->).
  apply steps_exec in HS as (sch & _ & HE).
  exact (sched_parallel_step_exec v w t Ht Hl sch s l l' HE ND HEn HPm).
Qed.

(* every usize computed by the spawn loop is at most len: `i * chunk_size`, `(i + 1) * chunk_size` (computed only
   for i <> t-1) and `num_threads - 1` (no underflow) *)
Lemma pardot_index_arith_in_range_lemma (len t i : nat) : 1 <= t -> i < t ->
  0 <= t - 1 /\ t - 1 + 1 = t /\ i * (len / t) <= len /\ (i <> t - 1 -> (i + 1) * (len / t) <= len) /\
  fst (chunk_bounds len t i) <= snd (chunk_bounds len t i) <= len.
Proof.
  intros Ht Hi. pose proof (chunk_mul_le len t) as Hc.
  assert (H1 : i * (len / t) <= t * (len / t)) by (apply Nat.mul_le_mono_r; lia).
  split; [lia|]. split; [lia|]. split; [lia|]. split.
  - intros Hne. assert ((i + 1) * (len / t) <= t * (len / t)) by (apply Nat.mul_le_mono_r; lia). lia.
  - pose proof (chunk_bounds_ok len t i Ht Hi) as H. destruct (chunk_bounds len t i). exact H.
Qed.

End MoreTop.
