(* Proofs/PolyDiv.v -- lemmas about polydiv (Model/Poly.v) for C12.
   Part 1 (EVERY arithmetic, no algebraic laws): the repaired loop shortens the remainder by
           construction, so it ends by its own condition, never panics, never reaches the cap.
   Part 2 (any field): the loop invariant  u = q*v + r  coefficientwise. *)
From Coq Require Import List Arith Lia Bool Ring Ring_theory Field_theory.
From OV Require Import Base.Panic Base.Arith gen.Params Model.Poly Proofs.Poly.
Import ListNotations.

(* ------------------------------------------------------------------ list helpers *)
Lemma upd_list_S {X} (a : X) l i v : upd_list (a :: l) (S i) v = a :: upd_list l i v.
Proof. reflexivity. Qed.
Lemma nth_S_cons {X} (a : X) l i d : nth (S i) (a :: l) d = nth i l d.
Proof. reflexivity. Qed.

Lemma upd_list_last {X} (l : list X) v : l <> [] -> upd_list l (length l - 1) v = removelast l ++ [v].
Proof.
  induction l as [|a t IH]; [congruence|]. intros _.
  destruct t as [|b t']; [reflexivity|].
  replace (length (a :: b :: t') - 1) with (S (length (b :: t') - 1)) by (cbn [length]; lia).
  rewrite upd_list_S, IH by congruence. reflexivity.
Qed.

Lemma nth_last_idx {X} (l : list X) d : nth (length l - 1) l d = last l d.
Proof.
  induction l as [|a t IH]; [reflexivity|].
  destruct t as [|b t']; [reflexivity|].
  replace (length (a :: b :: t') - 1) with (S (length (b :: t') - 1)) by (cbn [length]; lia).
  rewrite nth_S_cons, IH. reflexivity.
Qed.

Lemma removelast_length {X} (l : list X) : length (removelast l) = length l - 1.
Proof.
  induction l as [|a t IH]; [reflexivity|].
  destruct t as [|b t']; [reflexivity|]. cbn [removelast length] in *. rewrite IH. lia.
Qed.

Lemma rev_repeat {X} (x : X) n : rev (repeat x n) = repeat x n.
Proof. induction n as [|n IH]; [reflexivity|]. cbn. rewrite IH. symmetry. apply repeat_cons. Qed.

Section DivAny.
Context {A : Arith}.
Notation coef p k := (nth k p (@zero A)).

(* ---- trim never lengthens and never empties *)
Lemma trim_rev_cons2 (c b : A) t : trim_rev (c :: b :: t) = if eqb c zero then trim_rev (b :: t) else c :: b :: t.
Proof. reflexivity. Qed.
Lemma trim_rev_length (l : list A) : length (trim_rev l) <= length l.
Proof.
  induction l as [|c t IH]; [auto|]. destruct t as [|b t']; [auto|].
  rewrite trim_rev_cons2. destruct (eqb c zero); [|auto]. cbn [length] in *. lia.
Qed.
Lemma trim_rev_nonempty (l : list A) : l <> [] -> trim_rev l <> [].
Proof.
  induction l as [|c t IH]; [congruence|]. intros _. destruct t as [|b t']; [discriminate|].
  rewrite trim_rev_cons2. destruct (eqb c zero); [|discriminate]. apply IH; discriminate.
Qed.
Lemma ptrim_ok (p : list A) : p <> [] -> exists p', ptrim p = Ok p' /\ p' <> [] /\ length p' <= length p.
Proof.
  intros H. destruct p as [|a t]; [congruence|]. eexists; split; [reflexivity|]. split.
  - intros Z. apply (f_equal (@length _)) in Z. rewrite rev_length in Z. cbn [length] in Z.
    apply length_zero_iff_nil in Z. revert Z. apply trim_rev_nonempty.
    intros Z. apply (f_equal (@length _)) in Z. rewrite rev_length in Z. discriminate.
  - rewrite rev_length. etransitivity; [apply trim_rev_length|]. now rewrite rev_length.
Qed.

(* the only fact about the arithmetic that termination needs: 0 == 0 *)
Hypothesis eqb00 : eqb (@zero A) zero = true.

(* after the cancelled leading coefficient has been set to zero, trim removes it *)
Lemma ptrim_zeroed_lead (r : list A) : r <> [] ->
  exists r', ptrim (upd_list r (length r - 1) zero) = Ok r' /\ (length r' < length r \/ is_zero r' = true).
Proof.
  intros H. rewrite upd_list_last by auto.
  assert (N : removelast r ++ [zero] <> []) by (destruct (removelast r); discriminate).
  unfold ptrim. destruct (removelast r ++ [zero]) as [|x y] eqn:E; [congruence|]. rewrite <- E. clear N.
  eexists; split; [reflexivity|].
  rewrite rev_app_distr. cbn [rev app].
  destruct (rev (removelast r)) as [|b t'] eqn:ER.
  - right. cbn. now rewrite eqb00.
  - left. rewrite trim_rev_cons2, eqb00. rewrite rev_length.
    assert (L := trim_rev_length (b :: t')). rewrite <- ER in L at 2. rewrite rev_length, removelast_length in L.
    destruct r; [congruence|]. cbn [length] in *. lia.
Qed.

(* division by the divisor's leading coefficient returns (f64, Complex<f64>: every division returns;
   exact types: unless that coefficient is 0) *)
Variable v : list A.
Hypothesis v_nonempty : v <> [].
Hypothesis div_lead : forall x : A, exists z, div x (last v zero) = Ok z.

Lemma polydiv_body_ok (q r : list A) : r <> [] -> length v <= length r ->
  exists q' r', polydiv_body q r v = Ok (q', r') /\ (length r' < length r \/ is_zero r' = true).
Proof.
  intros Hr Hlen. unfold polydiv_body. cbv zeta.
  assert (Lr : 0 < length r) by (destruct r; [congruence|cbn; lia]).
  assert (Lv : 0 < length v) by (destruct v; [congruence|cbn; lia]).
  rewrite (rd_ok r (length r - 1) zero) by lia. cbn [bind].
  rewrite (rd_ok v (length v - 1) zero) by lia. cbn [bind].
  rewrite (nth_last_idx v).
  destruct (div_lead (nth (length r - 1) r zero)) as (c & Ec). rewrite Ec. cbn [bind].
  set (t := repeat zero (length r - 1 - (length v - 1)) ++ [c]).
  assert (Lt : length t = length r - length v + 1).
  { unfold t. rewrite app_length, repeat_length. cbn [length]. lia. }
  assert (Nt : t <> []) by (intros Z; rewrite Z in Lt; cbn in Lt; lia).
  assert (Lm : length (pmul t v) = length r) by (rewrite length_pmul by auto; lia).
  set (r1 := psub r (pmul t v)).
  assert (L1 : length r1 = length r) by (unfold r1; rewrite length_psub; lia).
  unfold usub. replace (1 <=? length r1) with true by (symmetry; apply Nat.leb_le; lia). cbn [bind].
  rewrite upd_ok by lia. cbn [bind].
  destruct (ptrim_zeroed_lead r1) as (r' & Er & Hr'); [intros Z; rewrite Z in L1; cbn in L1; lia|].
  rewrite Er. cbn [bind].
  destruct (ptrim_ok (padd q t)) as (q' & Eq & _).
  { intros Z. apply (f_equal (@length _)) in Z. rewrite length_padd in Z. cbn [length] in Z. lia. }
  rewrite Eq. cbn [bind]. exists q', r'. split; [reflexivity|]. rewrite <- L1. exact Hr'.
Qed.

Lemma polydiv_loop_unfold fuel count (q r : list A) :
  polydiv_loop fuel count q r v =
  if is_zero r || (length r <? length v) then Ok (inl (q, r)) else
  match fuel with
  | 0 => Ok (inr EMaxIter)
  | S fuel' => let* qr := polydiv_body q r v in
               if POLYDIV_MAX <? S count then Ok (inr EMaxIter)
               else polydiv_loop fuel' (S count) (fst qr) (snd qr) v
  end.
Proof. destruct fuel; reflexivity. Qed.

(* the loop ends by its own condition: within [length r] passes, before the cap, with Ok *)
Lemma polydiv_loop_total (fuel : nat) : forall count (q r : list A),
  length r <= fuel -> count + length r <= POLYDIV_MAX ->
  exists q' r', polydiv_loop fuel count q r v = Ok (inl (q', r')) /\
                (is_zero r' = true \/ length r' < length v).
Proof.
  induction fuel as [|fuel IH]; intros count q r Hf Hc; rewrite polydiv_loop_unfold;
    destruct (is_zero r || (length r <? length v)) eqn:C.
  - exists q, r. split; auto. apply orb_true_iff in C as [C|C]; auto. right. now apply Nat.ltb_lt.
  - apply orb_false_iff in C as (Cz & _). destruct r; [discriminate Cz|cbn in Hf; lia].
  - exists q, r. split; auto. apply orb_true_iff in C as [C|C]; auto. right. now apply Nat.ltb_lt.
  - apply orb_false_iff in C as (Cz & Cl). apply Nat.ltb_ge in Cl.
    assert (Nr : r <> []) by (intros ->; discriminate Cz).
    destruct (polydiv_body_ok q r Nr Cl) as (q1 & r1 & E & Hr1). rewrite E. cbn [bind fst snd].
    assert (Lr : 0 < length r) by (destruct r; [congruence|cbn; lia]).
    replace (POLYDIV_MAX <? S count) with false by (symmetry; apply Nat.ltb_ge; lia).
    destruct Hr1 as [Hlt|Hz].
    + apply IH; lia.
    + rewrite polydiv_loop_unfold, Hz. cbn [orb]. exists q1, r1. auto.
Qed.

(* the number of passes is at most length u: any fuel >= length r gives the same answer *)
Lemma polydiv_loop_fuel (f1 : nat) : forall f2 count (q r : list A),
  length r <= f1 -> length r <= f2 ->
  polydiv_loop f1 count q r v = polydiv_loop f2 count q r v.
Proof.
  induction f1 as [|f1 IH]; intros f2 count q r H1 H2; rewrite (polydiv_loop_unfold f2), polydiv_loop_unfold;
    destruct (is_zero r || (length r <? length v)) eqn:C; auto.
  - apply orb_false_iff in C as (Cz & _). destruct r; [discriminate Cz|cbn in H1; lia].
  - apply orb_false_iff in C as (Cz & Cl). apply Nat.ltb_ge in Cl.
    assert (Nr : r <> []) by (intros ->; discriminate Cz).
    assert (Lr : 0 < length r) by (destruct r; [congruence|cbn; lia]).
    destruct f2 as [|f2]; [lia|].
    destruct (polydiv_body_ok q r Nr Cl) as (q1 & r1 & E & Hr1). rewrite E. cbn [bind fst snd].
    destruct (POLYDIV_MAX <? S count); auto.
    destruct Hr1 as [Hlt|Hz].
    + apply IH; lia.
    + rewrite (polydiv_loop_unfold f2), polydiv_loop_unfold, Hz. reflexivity.
Qed.

End DivAny.

Section DivAnyTop.
Context {A : Arith}.

(* general form: all that is asked of the arithmetic is 0 == 0 and that dividing by lead(v) returns *)
Lemma polydiv_total_gen (eqb00 : eqb (@zero A) zero = true) (u v : list A) :
  v <> [] -> is_zero v = false -> (forall x : A, exists z, div x (last v zero) = Ok z) -> length u <= POLYDIV_MAX ->
  exists q r, polydiv u v = Ok (inl (q, r)) /\ (is_zero r = true \/ length r < length v).
Proof.
  intros Nv Zv Dv Lu. unfold polydiv.
  replace (length v =? 0) with false by (symmetry; apply Nat.eqb_neq; destruct v; [congruence|discriminate]).
  rewrite Zv. apply (polydiv_loop_total eqb00 v Nv Dv); lia.
Qed.

Theorem polydiv_total (eqb00 : eqb (@zero A) zero = true)
  (div_total : forall x y : A, eqb y zero = false -> exists z, div x y = Ok z) (u v : list A) :
  v <> [] -> is_zero v = false -> eqb (last v zero) zero = false -> length u <= POLYDIV_MAX ->
  exists q r, polydiv u v = Ok (inl (q, r)) /\ (is_zero r = true \/ length r < length v).
Proof. intros Nv Zv Lv Lu. apply polydiv_total_gen; auto. Qed.

(* ... and it gets there within length u passes of the loop body *)
Lemma polydiv_passes (eqb00 : eqb (@zero A) zero = true)
  (div_total : forall x y : A, eqb y zero = false -> exists z, div x y = Ok z) (u v : list A) :
  v <> [] -> is_zero v = false -> eqb (last v zero) zero = false -> length u <= POLYDIV_MAX ->
  forall fuel, length u <= fuel -> polydiv_loop fuel 0 [] u v = polydiv u v.
Proof.
  intros Nv Zv Lv Lu fuel Hf. unfold polydiv.
  replace (length v =? 0) with false by (symmetry; apply Nat.eqb_neq; destruct v; [congruence|discriminate]).
  rewrite Zv. apply (polydiv_loop_fuel eqb00 v Nv (fun x => div_total x _ Lv)); lia.
Qed.

(* arithmetics whose division always returns (IEEE: x/0 is inf or NaN, never a panic): EVERY input is classified --
   the error value exactly for the empty / all-zero divisor, otherwise Ok with r zero or shorter than v; never a
   panic, never the iteration cap, whatever the coefficients are (NaN, infinities, zero leading coefficient) *)
Lemma polydiv_outcomes (eqb00 : eqb (@zero A) zero = true)
  (div_always : forall x y : A, exists z, div x y = Ok z) (u v : list A) : length u <= POLYDIV_MAX ->
  ((v = [] \/ is_zero v = true) /\ polydiv u v = Ok (inr EZeroDiv)) \/
  (v <> [] /\ is_zero v = false /\
   exists q r, polydiv u v = Ok (inl (q, r)) /\ (is_zero r = true \/ length r < length v)).
Proof.
  intros Lu. destruct v as [|a t] eqn:Ev; [left; split; [auto|reflexivity]|]. rewrite <- Ev.
  assert (Nv : v <> []) by (rewrite Ev; discriminate).
  destruct (is_zero v) eqn:Zv.
  - left. split; [auto|]. unfold polydiv. rewrite Zv. now destruct (length v =? 0).
  - right. split; [exact Nv|]. split; [reflexivity|]. apply polydiv_total_gen; auto.
Qed.

Lemma polydiv_zero_divisor_lemma (u v : list A) : v = [] \/ is_zero v = true -> polydiv u v = Ok (inr EZeroDiv).
Proof.
  intros [->|H]; [reflexivity|]. unfold polydiv. destruct (length v =? 0); [reflexivity|]. now rewrite H.
Qed.

(* whenever the answer is Ok(q, r) the loop condition was false: r = 0 or shorter than v (any arithmetic) *)
Lemma polydiv_loop_exit (v : list A) (fuel : nat) : forall count (q0 r0 q r : list A),
  polydiv_loop fuel count q0 r0 v = Ok (inl (q, r)) -> is_zero r = true \/ length r < length v.
Proof.
  induction fuel as [|fuel IH]; intros count q0 r0 q r; cbn [polydiv_loop];
    destruct (is_zero r0 || (length r0 <? length v)) eqn:C.
  - intros E; injection E as <- <-. apply orb_true_iff in C as [C|C]; auto. right. now apply Nat.ltb_lt.
  - discriminate.
  - intros E; injection E as <- <-. apply orb_true_iff in C as [C|C]; auto. right. now apply Nat.ltb_lt.
  - intros E. apply bind_ok in E as (qr & _ & E). destruct (POLYDIV_MAX <? S count); [discriminate|].
    now apply IH in E.
Qed.
Lemma polydiv_exit (u v q r : list A) : polydiv u v = Ok (inl (q, r)) -> is_zero r = true \/ length r < length v.
Proof.
  unfold polydiv. destruct (length v =? 0); [discriminate|]. destruct (is_zero v); [discriminate|].
  apply polydiv_loop_exit.
Qed.

End DivAnyTop.

(* ------------------------------------------------------------------ over a field: u = q*v + r *)
Local Open Scope arith_scope.
Section DivField.
Context {A : Arith} (FL : FieldLaws A).
Notation coef p k := (nth k p (@zero A)).
Definition RL_of_FL : RingLaws A := {| rl_ring := F_R (fl_field A FL) |}.
Let RL := RL_of_FL.
Add Ring Afield_ring : (rl_ring A RL).

Lemma eqb_true (x y : A) : eqb x y = true -> x = y.
Proof. apply (fl_eqb A FL). Qed.

(* trim only removes zero coefficients *)
Lemma trim_rev_spec (l : list A) : exists n, l = repeat zero n ++ trim_rev l.
Proof.
  induction l as [|c t IH]; [exists 0; reflexivity|]. destruct t as [|b t']; [exists 0; reflexivity|].
  rewrite (@trim_rev_cons2 A). destruct (eqb c zero) eqn:E; [|exists 0; reflexivity].
  apply eqb_true in E. subst c. destruct IH as (n & IH). exists (S n). cbn [repeat app]. now rewrite <- IH.
Qed.
Lemma coef_app_zeros (p : list A) n k : coef (p ++ repeat zero n) k = coef p k.
Proof.
  destruct (Nat.lt_ge_cases k (length p)) as [H|H].
  - now apply app_nth1.
  - rewrite app_nth2 by auto. rewrite nth_repeat. now rewrite nth_overflow.
Qed.
Lemma ptrim_coef (p p' : list A) : ptrim p = Ok p' -> forall k, coef p' k = coef p k.
Proof.
  destruct p as [|a t]; [discriminate|]. intros E; injection E as <-. intros k.
  change (rev t ++ [a]) with (rev (a :: t)).
  destruct (trim_rev_spec (rev (a :: t))) as (n & H).
  apply (f_equal (@rev _)) in H. rewrite rev_involutive, rev_app_distr, rev_repeat in H.
  set (p' := rev (trim_rev (rev (a :: t)))) in *. clearbody p'.
  rewrite H. now rewrite coef_app_zeros.
Qed.

Lemma coef_monomial n (c : A) i : coef (repeat zero n ++ [c]) i = if i =? n then c else zero.
Proof.
  destruct (Nat.lt_ge_cases i n) as [H|H].
  - rewrite app_nth1 by (now rewrite repeat_length). rewrite nth_repeat.
    destruct (Nat.eqb_spec i n); [lia|reflexivity].
  - rewrite app_nth2 by (now rewrite repeat_length). rewrite repeat_length.
    destruct (Nat.eqb_spec i n) as [->|Hne].
    + now rewrite Nat.sub_diag.
    + destruct (i - n)%nat as [|m] eqn:E; [lia|]. cbn. now destruct m.
Qed.

Lemma conv_add_l (p t v : list A) k : conv (padd p t) v k = conv p v k + conv t v k.
Proof.
  unfold conv. rewrite <- sum_n_add by exact RL. apply sum_n_ext. intros i _.
  rewrite (nth_padd RL). ring.
Qed.
Lemma conv_ext_l (p p' v : list A) k : (forall i, coef p i = coef p' i) -> conv p v k = conv p' v k.
Proof. intros H. unfold conv. apply sum_n_ext. intros i _. now rewrite H. Qed.

Variable u v : list A.
Definition div_inv (q r : list A) : Prop := forall k, coef u k = coef (pmul q v) k + coef r k.

Lemma polydiv_body_inv (q r q1 r1 : list A) : v <> [] -> r <> [] -> length v <= length r ->
  polydiv_body q r v = Ok (q1, r1) -> div_inv q r -> div_inv q1 r1.
Proof.
  intros Nv Nr Hlen E Inv. unfold polydiv_body in E. cbv zeta in E.
  assert (Lr : 0 < length r) by (destruct r; [congruence|cbn; lia]).
  assert (Lv : 0 < length v) by (destruct v; [congruence|cbn; lia]).
  apply bind_ok in E as (rl & E1 & E). apply (rd_Ok_inv _ _ _ zero) in E1 as (_ & ->).
  apply bind_ok in E as (vl & E2 & E). apply (rd_Ok_inv _ _ _ zero) in E2 as (_ & ->).
  apply bind_ok in E as (c & Ec & E).
  rewrite (fl_div A FL) in Ec. destruct (eqb (nth (length v - 1) v zero) zero) eqn:Evl; [discriminate|].
  injection Ec as <-.
  assert (Hvl : nth (length v - 1) v zero <> zero).
  { intros Z. rewrite Z in Evl. assert (T : eqb (@zero A) zero = true) by now apply (fl_eqb A FL). congruence. }
  set (rl := nth (length r - 1) r zero) in *. set (vl := nth (length v - 1) v zero) in *.
  set (n := (length r - 1 - (length v - 1))%nat) in *.
  set (t := repeat zero n ++ [rl * fl_inv A FL vl]) in *.
  assert (Lt : length t = (length r - length v + 1)%nat).
  { unfold t. rewrite app_length, repeat_length. cbn [length]. unfold n. lia. }
  assert (Nt : t <> []) by (intros Z; rewrite Z in Lt; cbn in Lt; lia).
  assert (Lm : length (pmul t v) = length r) by (rewrite length_pmul by auto; lia).
  set (r0 := psub r (pmul t v)) in *.
  assert (L0 : length r0 = length r) by (unfold r0; rewrite length_psub; lia).
  apply bind_ok in E as (l & El & E). unfold usub in El.
  destruct (1 <=? length r0); [|discriminate]. injection El as <-.
  apply bind_ok in E as (r2 & E2 & E). apply upd_Ok_inv in E2 as (Hl & ->).
  apply bind_ok in E as (r3 & E3 & E).
  apply bind_ok in E as (q3 & E4 & E). injection E as <- <-.
  (* the leading coefficient of r - t*v is already zero in a field *)
  assert (Lead : coef r0 (length r0 - 1) = zero).
  { rewrite L0. unfold r0. rewrite (nth_psub RL), (nth_pmul RL). fold rl.
    unfold conv. rewrite (sum_n_single RL _ n).
    - cbv beta. unfold t at 1. rewrite coef_monomial, Nat.eqb_refl.
      replace (length r - 1 - n)%nat with (length v - 1)%nat by (unfold n; lia). fold vl.
      assert (I := Finv_l (fl_field A FL) vl Hvl).
      transitivity (rl - rl * (fl_inv A FL vl * vl)); [ring|]. rewrite I. ring.
    - unfold n; lia.
    - intros i _ Hi. unfold t. rewrite coef_monomial. destruct (Nat.eqb_spec i n); [congruence|]. ring. }
  intros k.
  rewrite (nth_pmul RL), (conv_ext_l q3 (padd q t) v k (ptrim_coef _ _ E4)), conv_add_l.
  rewrite (ptrim_coef _ _ E3 k), nth_upd_list by auto.
  assert (R0 : coef r0 k = coef r k - conv t v k) by (unfold r0; now rewrite (nth_psub RL), (nth_pmul RL)).
  specialize (Inv k). rewrite (nth_pmul RL) in Inv.
  destruct (Nat.eqb_spec k (length r0 - 1)) as [->|_].
  - rewrite Lead in R0. rewrite Inv.
    transitivity (conv q v (length r0 - 1) + conv t v (length r0 - 1) + (coef r (length r0 - 1) - conv t v (length r0 - 1))); [ring|].
    rewrite <- R0. ring.
  - rewrite R0, Inv. ring.
Qed.

Lemma polydiv_loop_inv (fuel : nat) : forall count (q0 r0 q r : list A), v <> [] ->
  polydiv_loop fuel count q0 r0 v = Ok (inl (q, r)) -> div_inv q0 r0 -> div_inv q r.
Proof.
  induction fuel as [|fuel IH]; intros count q0 r0 q r Nv; cbn [polydiv_loop];
    destruct (is_zero r0 || (length r0 <? length v)) eqn:C.
  - intros E; injection E as <- <-. auto.
  - discriminate.
  - intros E; injection E as <- <-. auto.
  - intros E Inv. apply orb_false_iff in C as (Cz & Cl). apply Nat.ltb_ge in Cl.
    assert (Nr : r0 <> []) by (intros ->; discriminate Cz).
    apply bind_ok in E as ((q1 & r1) & Eb & E). destruct (POLYDIV_MAX <? S count); [discriminate|].
    cbn [fst snd] in E. apply (IH _ _ _ _ _ Nv E). exact (polydiv_body_inv q0 r0 q1 r1 Nv Nr Cl Eb Inv).
Qed.

Lemma polydiv_identity_lemma (q r : list A) : polydiv u v = Ok (inl (q, r)) ->
  forall k, coef u k = coef (padd (pmul q v) r) k.
Proof.
  unfold polydiv. destruct (length v =? 0) eqn:Ev; [discriminate|]. destruct (is_zero v); [discriminate|].
  intros E k. rewrite (nth_padd RL).
  assert (Nv : v <> []) by (intros ->; discriminate Ev).
  apply (polydiv_loop_inv _ _ _ _ _ _ Nv E). intros j. rewrite pmul_nil_l, coef_nil. ring.
Qed.

End DivField.

(* ------------------------------------------------------------------ the headline over a field *)
Section DivFieldTotal.
Context {A : Arith} (FL : FieldLaws A).

Lemma is_zero_last (v : list A) : is_zero v = true -> last v zero = zero.
Proof.
  induction v as [|a t IH]; [reflexivity|]. intros H. cbn [is_zero forallb] in H.
  apply andb_true_iff in H as (Ha & Ht). destruct t as [|b t']; [now apply (fl_eqb A FL)|].
  exact (IH Ht).
Qed.

Lemma eqb_false_of_neq (x y : A) : x <> y -> eqb x y = false.
Proof. intros H. destruct (eqb x y) eqn:E; [|reflexivity]. apply (fl_eqb A FL) in E. contradiction. Qed.

Lemma polydiv_field_total_lemma (u v : list A) :
  v <> [] -> last v zero <> zero -> length u <= POLYDIV_MAX ->
  exists q r, polydiv u v = Ok (inl (q, r)) /\ (is_zero r = true \/ length r < length v) /\
              forall k, nth k u zero = nth k (padd (pmul q v) r) zero.
Proof.
  intros Nv Lv Lu.
  assert (Z : is_zero v = false).
  { destruct (is_zero v) eqn:E; [|reflexivity]. apply is_zero_last in E. contradiction. }
  destruct (@polydiv_total A) with (u := u) (v := v) as (q & r & E & D); auto.
  - now apply (fl_eqb A FL).
  - intros x y Hy. rewrite (fl_div A FL), Hy. eauto.
  - now apply eqb_false_of_neq.
  - exists q, r. split; [exact E|]. split; [exact D|]. now apply (polydiv_identity_lemma FL).
Qed.

End DivFieldTotal.
