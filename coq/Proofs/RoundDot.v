(* Proofs/RoundDot.v -- rounding-error analysis of the dot product of Model/Vector.v ([dot]: result = 0;
   result += u[i]*w[i], in index order) in the STANDARD MODEL of floating-point arithmetic (Base/RoundModel.v):
   the same Gallina [dot], instantiated at the arithmetic [ARm] whose operations are the exact ones perturbed by a
   relative error of at most u.

     dot_backward_error_lemma :  fl(x.y) = Sum_i x_i y_i (1 + th_i),  |th_i| <= gam n = n u / (1 - n u)   (Higham (3.4))
     dot_forward_error_lemma  :  |fl(x.y) - x.y| <= gam n  Sum_i |x_i| |y_i|                                (Higham (3.5))

   for every length n with n u < 1.  The count n (not n+1) uses that the first addition  0 + x_0 y_0  of the loop is
   exact ([fadd_0_mul]: fadd 0 (fmul a b) = fmul a b, true of every correctly rounded arithmetic since a computed
   product is representable; proved for the instances in Proofs/RoundFlx.v and Proofs/RoundDotFloat.v).  Without that hypothesis the same statements hold
   with gam (n+1): the [_pure] variants.

   The loop is analysed once ([sum_acc_round]: n rounded additions onto an accumulator) and reused by the
   matrix-vector products (Proofs/RoundMatvec.v, Proofs/RoundSparse.v). *)
From Coq Require Import List Arith Lia Reals Lra Psatz.
From OV Require Import Base.Panic Base.Arith Base.RoundModel Model.Vector Model.Matrix Proofs.Matrix.
Import ListNotations.
Local Open Scope R_scope.

Section RoundDot.
Variable u : R.
Hypothesis u_range : 0 <= u < 1.
Variables fadd fsub fmul fdiv : R -> R -> R.
Hypothesis fadd_ok : forall x y, exists d, Rabs d <= u /\ fadd x y = (x + y) * (1 + d).
Hypothesis fmul_ok : forall x y, exists d, Rabs d <= u /\ fmul x y = x * y * (1 + d).

Notation AR := (ARm fadd fsub fmul fdiv).
Notation bnd := (bnd u).
Notation gam := (gam u).

(* n rounded additions onto an accumulator a:  fl(...fl(fl(a + g_0) + g_1)... + g_{n-1})
   = a P + Sum_k g_k W_k,  P a product of n rounding factors, W_k of n-k *)
Lemma sum_acc_round n (g : nat -> R) (a : R) :
  exists P W, bnd n P /\ (forall k, (k < n)%nat -> bnd (n - k) (W k)) /\
    (sum_acc (A := AR) a n g : R) = a * P + Rsum n (fun k => g k * W k).
Proof using u_range fadd_ok.
  induction n as [|n IH].
  - exists 1, (fun _ => 1). split; [apply bnd_0|]. split; [intros; lia|].
    change (a = a * 1 + 0). ring.
  - destruct IH as (P & W & HP & HW & E).
    destruct (fadd_bnd u u_range fadd fadd_ok (sum_acc (A := AR) a n g) (g n)) as (e & He & Ee).
    exists (P * e), (fun k => if (k <? n)%nat then W k * e else e).
    split; [replace (S n) with (n + 1)%nat by lia; now apply bnd_mul|]. split.
    + intros k Hk. destruct (Nat.ltb_spec k n) as [L|L].
      * replace (S n - k)%nat with ((n - k) + 1)%nat by lia. apply bnd_mul; [exact u_range|now apply HW|exact He].
      * replace (S n - k)%nat with 1%nat by lia. exact He.
    + change (sum_acc (A := AR) a (S n) g) with (fadd (sum_acc (A := AR) a n g) (g n)).
      rewrite Ee, E. cbn [Rsum]. rewrite Nat.ltb_irrefl.
      rewrite (Rsum_ext n (fun k => g k * (if (k <? n)%nat then W k * e else e)) (fun k => e * (g k * W k))).
      2:{ intros k Hk. destruct (Nat.ltb_spec k n); [ring|lia]. }
      rewrite Rsum_scal. ring.
Qed.

(* the factor of one rounded product *)
Definition mfac (x y : R) : R := ratio (fmul x y) (x * y).
Lemma mfac_spec x y : bnd 1 (mfac x y) /\ fmul x y = x * y * mfac x y.
Proof using u_range fmul_ok.
  apply (ratio_spec u u_range). destruct (fmul_bnd u u_range fmul fmul_ok x y) as (e & He & E). now exists e.
Qed.

(* a rounded sum of rounded products from zero, no assumption on the first addition: n+1 factors at most *)
Lemma sum_prod_round_pure n (x y : nat -> R) :
  exists W, (forall k, (k < n)%nat -> bnd (S n) (W k)) /\
    (sum_n (A := AR) n (fun k => fmul (x k) (y k)) : R) = Rsum n (fun k => x k * y k * W k).
Proof using u_range fadd_ok fmul_ok.
  destruct (sum_acc_round n (fun k => fmul (x k) (y k)) 0) as (P & W & HP & HW & E).
  exists (fun k => mfac (x k) (y k) * W k). split.
  - intros k Hk. apply (bnd_mono u u_range (1 + (n - k))); [lia|].
    apply bnd_mul; [exact u_range|apply mfac_spec|now apply HW].
  - rewrite <- (sum_acc_zero (A := AR)). change (@zero AR) with 0. rewrite E.
    rewrite Rmult_0_l, Rplus_0_l. apply Rsum_ext. intros k Hk.
    rewrite (proj2 (mfac_spec (x k) (y k))) at 1. ring.
Qed.

Hypothesis fadd_0_mul : forall a b, fadd 0 (fmul a b) = fmul a b.

(* the same with the exact first addition: n factors at most (Higham (3.3)) *)
Lemma sum_prod_round n (x y : nat -> R) :
  exists W, (forall k, (k < n)%nat -> bnd n (W k)) /\
    (sum_n (A := AR) n (fun k => fmul (x k) (y k)) : R) = Rsum n (fun k => x k * y k * W k).
Proof using u_range fadd_ok fmul_ok fadd_0_mul.
  destruct n as [|n].
  - exists (fun _ => 1). split; [intros; lia|reflexivity].
  - rewrite <- (sum_acc_zero (A := AR)), (sum_acc_shift (A := AR)).
    change (add (@zero AR) (fmul (x O) (y O))) with (fadd 0 (fmul (x O) (y O))). rewrite fadd_0_mul.
    destruct (sum_acc_round n (fun k => fmul (x (S k)) (y (S k))) (fmul (x O) (y O))) as (P & W & HP & HW & E).
    exists (fun k => match k with O => mfac (x O) (y O) * P | S j => mfac (x (S j)) (y (S j)) * W j end).
    split.
    + intros [|j] Hk.
      * replace (S n) with (1 + n)%nat by lia. apply bnd_mul; [exact u_range|apply mfac_spec|exact HP].
      * apply (bnd_mono u u_range (1 + (n - j))); [lia|].
        apply bnd_mul; [exact u_range|apply mfac_spec|apply HW; lia].
    + rewrite E, Rsum_shift.
      rewrite (proj2 (mfac_spec (x O) (y O))) at 1.
      rewrite (Rsum_ext n _ (fun k => x (S k) * y (S k) * (mfac (x (S k)) (y (S k)) * W k))).
      2:{ intros k Hk. rewrite (proj2 (mfac_spec (x (S k)) (y (S k)))) at 1. ring. }
      ring.
Qed.

(* from factors to (1 + theta) with |theta| <= gam n *)
Lemma factors_to_theta n m (a : nat -> R) (W : nat -> R) :
  INR m * u < 1 -> (forall k, (k < n)%nat -> bnd m (W k)) ->
  exists th : nat -> R, (forall k, (k < n)%nat -> Rabs (th k) <= gam m) /\
    Rsum n (fun k => a k * W k) = Rsum n (fun k => a k * (1 + th k)).
Proof using u_range.
  intros Hm HW. exists (fun k => W k - 1). split.
  - intros k Hk. apply (bnd_gam u u_range); [now apply HW|exact Hm].
  - apply Rsum_ext. intros k Hk. ring.
Qed.

Lemma dot_Ok_inv (x y : list R) r : dot (A := AR) x y = Ok r ->
  length x = length y /\ r = sum_n (A := AR) (length x) (fun k => fmul (nth k x 0) (nth k y 0)).
Proof.
  unfold dot. change (T AR) with R. destruct (Nat.eqb_spec (length x) (length y)) as [L|L]; [|discriminate].
  intros E. injection E as <-. split; [exact L|]. now rewrite (Proofs.Matrix.dot_raw_sum (A := AR)) by exact L.
Qed.

(* Higham (3.4): the computed dot product is the exact dot product of perturbed data *)
Theorem dot_backward_error_lemma (x y : list R) (r : R) :
  INR (length x) * u < 1 -> dot (A := AR) x y = Ok r ->
  exists th : nat -> R,
    (forall k, (k < length x)%nat -> Rabs (th k) <= gam (length x)) /\
    r = Rsum (length x) (fun k => nth k x 0 * nth k y 0 * (1 + th k)).
Proof using u_range fadd_ok fmul_ok fadd_0_mul.
  intros Hn E. apply dot_Ok_inv in E as (L & ->).
  destruct (sum_prod_round (length x) (fun k => nth k x 0) (fun k => nth k y 0)) as (W & HW & E).
  destruct (factors_to_theta (length x) (length x) (fun k => nth k x 0 * nth k y 0) W Hn HW) as (th & Hth & E2).
  exists th. split; [exact Hth|]. now rewrite E.
Qed.

(* Higham (3.5): forward error *)
Theorem dot_forward_error_lemma (x y : list R) (r : R) :
  INR (length x) * u < 1 -> dot (A := AR) x y = Ok r ->
  Rabs (r - Rsum (length x) (fun k => nth k x 0 * nth k y 0))
    <= gam (length x) * Rsum (length x) (fun k => Rabs (nth k x 0) * Rabs (nth k y 0)).
Proof using u_range fadd_ok fmul_ok fadd_0_mul.
  intros Hn E. destruct (dot_backward_error_lemma x y r Hn E) as (th & Hth & ->).
  rewrite <- Rsum_minus.
  rewrite (Rsum_ext _ _ (fun k => (nth k x 0 * nth k y 0) * th k)) by (intros; ring).
  eapply Rle_trans; [apply Rsum_pert_le; exact Hth|].
  apply Rmult_le_compat_l; [now apply (gam_nonneg u u_range)|].
  apply Req_le, Rsum_ext. intros k Hk. apply Rabs_mult.
Qed.

End RoundDot.

(* without the exact first addition: one more factor *)
Section RoundDotPure.
Variable u : R.
Hypothesis u_range : 0 <= u < 1.
Variables fadd fsub fmul fdiv : R -> R -> R.
Hypothesis fadd_ok : forall x y, exists d, Rabs d <= u /\ fadd x y = (x + y) * (1 + d).
Hypothesis fmul_ok : forall x y, exists d, Rabs d <= u /\ fmul x y = x * y * (1 + d).
Notation AR := (ARm fadd fsub fmul fdiv).

Theorem dot_backward_error_pure_lemma (x y : list R) (r : R) :
  INR (S (length x)) * u < 1 -> dot (A := AR) x y = Ok r ->
  exists th : nat -> R,
    (forall k, (k < length x)%nat -> Rabs (th k) <= gam u (S (length x))) /\
    r = Rsum (length x) (fun k => nth k x 0 * nth k y 0 * (1 + th k)).
Proof using u_range fadd_ok fmul_ok.
  intros Hn E. apply (dot_Ok_inv fadd fsub fmul fdiv) in E as (L & ->).
  destruct (sum_prod_round_pure u u_range fadd fsub fmul fdiv fadd_ok fmul_ok (length x)
              (fun k => nth k x 0) (fun k => nth k y 0)) as (W & HW & E).
  destruct (factors_to_theta u u_range (length x) (S (length x)) (fun k => nth k x 0 * nth k y 0) W Hn HW)
    as (th & Hth & E2).
  exists th. split; [exact Hth|]. now rewrite E.
Qed.
End RoundDotPure.
