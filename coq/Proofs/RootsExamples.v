(* Proofs/RootsExamples.v -- concrete instances used by the non-vacuity Examples of Props/C10.v.
   1. GF(7) as an Arith with FieldLaws: a field with 2 <> 0, 3 <> 0, square roots of the radicands
      we use and a primitive cube root of unity (u = 2: 4 + 2 + 1 = 7 = 0), so that EVERY hypothesis of
      the closed-form theorems is met by a concrete polynomial (Q has no primitive cube root of unity).
   2. the float instance with a recorded oracle table on  x^4 - 10x^3 + 35x^2 - 50x + 24. *)
From Coq Require Import List Arith Bool Lia Ring Field ZArith Floats.
From OV Require Import Base.Panic Base.Arith Model.Complex gen.Params Model.Roots Inst.FloatInst
                       Proofs.Roots Proofs.RootsRing Proofs.RootsField.
Import ListNotations.

(* ---------------- GF(7) ---------------- *)
Inductive F7 := f0 | f1 | f2 | f3 | f4 | f5 | f6.

Definition to_n (x : F7) : nat :=
  match x with f0 => 0 | f1 => 1 | f2 => 2 | f3 => 3 | f4 => 4 | f5 => 5 | f6 => 6 end.
Definition of_n (n : nat) : F7 :=
  match n mod 7 with 0 => f0 | 1 => f1 | 2 => f2 | 3 => f3 | 4 => f4 | 5 => f5 | _ => f6 end.
Definition add7 x y := of_n (to_n x + to_n y).
Definition mul7 x y := of_n (to_n x * to_n y).
Definition neg7 x := of_n (7 - to_n x).
Definition sub7 x y := add7 x (neg7 y).
Definition inv7 x := mul7 x (mul7 (mul7 x x) (mul7 x x)).      (* x^5 = x^(7-2) *)
Definition eqb7 x y := to_n x =? to_n y.
Definition div7 x y : res F7 := if eqb7 y f0 then Panic DivZero else Ok (mul7 x (inv7 y)).

Definition A7 : Arith := {|
  T := F7; zero := f0; one := f1; add := add7; sub := sub7; mul := mul7; neg := neg7;
  abs := fun x => x; div := div7; eqb := eqb7;
  ltb := fun x y => to_n x <? to_n y; leb := fun x y => to_n x <=? to_n y |}.

Lemma A7_ring : ring_theory (@zero A7) one add mul sub neg eq.
Proof.
  constructor; cbn.
  - intros []; reflexivity.
  - intros [] []; reflexivity.
  - intros [] [] []; reflexivity.
  - intros []; reflexivity.
  - intros [] []; reflexivity.
  - intros [] [] []; reflexivity.
  - intros [] [] []; reflexivity.
  - intros [] []; reflexivity.
  - intros []; reflexivity.
Qed.

Lemma A7_field : field_theory (@zero A7) one add mul sub neg (fun x y => mul x (inv7 y)) inv7 eq.
Proof.
  constructor.
  - exact A7_ring.
  - discriminate.
  - reflexivity.
  - intros [] H; cbn; try reflexivity. now elim H.
Qed.

Definition A7_FieldLaws : FieldLaws A7.
Proof.
  refine {| fl_inv := inv7 : A7 -> A7; fl_field := A7_field |}.
  - intros [] []; cbn; split; intros H; try reflexivity; try discriminate.
  - intros x y. reflexivity.
Defined.

Lemma A7_RingLaws : RingLaws A7.
Proof. constructor. exact A7_ring. Qed.

(* the model over GF(7): sqrt := constant sq, cube root := identity (1^3 = 1, 6^3 = 6), u := 2 *)
Definition O7 (sq : F7) : FieldOps A7 := {|
  f_sqrt := fun _ : A7 => sq : A7; f_pow := fun (z _ : A7) => z; f_polar := fun (r _ : A7) => r; f_mk := fun (_ _ : A7) => f2 : A7;
  f_conj := fun x : A7 => x; f_re := fun x : A7 => x; f_im := fun _ : A7 => f0 : A7; f_abs := fun x : A7 => x; f_rabs := fun x : A7 => x;
  f_rsqrt := fun x : A7 => x; f_max := fun x y : A7 => if to_n x <? to_n y then y else x; f_eps := f0 : A7; f_frac := [] |}.
Definition RA7 (sq : F7) : RootArith := FieldRA A7 A7_FieldLaws (O7 sq).
(* the same with Cmplx::new r i := r, EPS := 0 (the convergence test is then exact: |p(x)| <= 0) *)
Definition O7r : FieldOps A7 := {|
  f_sqrt := fun _ : A7 => f0 : A7; f_pow := fun (z _ : A7) => z; f_polar := fun (r _ : A7) => r; f_mk := fun (r _ : A7) => r;
  f_conj := fun x : A7 => x; f_re := fun x : A7 => x; f_im := fun _ : A7 => f0 : A7; f_abs := fun x : A7 => x; f_rabs := fun x : A7 => x;
  f_rsqrt := fun x : A7 => x; f_max := fun x y : A7 => if to_n x <? to_n y then y else x; f_eps := f0 : A7; f_frac := [] |}.
Definition RA7r : RootArith := FieldRA A7 A7_FieldLaws O7r.

(* ---------------- float instance, recorded table ---------------- *)
Local Open Scope float_scope.
(* x^4 - 10x^3 + 35x^2 - 50x + 24 = (x-1)(x-2)(x-3)(x-4), refine = true: 8 laguer calls, 8 sqrt calls *)
Definition tbl_1234 : list float :=
  [0x0.0p+0;0x1.040000000000ap+2;0x0.0p+0;0x0.0p+0;0x0.0p+0;0x1.01fe03f61bad5p+1;0x0.0p+0;
   0x0.0p+0;0x1.d54ebafdf2509p+13;0x0.0p+0;0x0.0p+0;0x0.0p+0;0x1.ea3070049f50dp+6;0x0.0p+0;
   0x0.0p+0;0x1.95ea6cbd592adp+41;0x0.0p+0;0x0.0p+0;0x0.0p+0;0x1.c7e1eb3667b0dp+20;0x0.0p+0;
   0x0.0p+0;0x1.8e38e38e38e10p-3;0x0.0p+0;0x0.0p+0;0x0.0p+0;0x1.c38aa37c3f676p-2;0x0.0p+0;
   0x0.0p+0;0x1.d59bdaba30d68p+11;0x0.0p+0;0x0.0p+0;0x0.0p+0;0x1.ea58b57a0585ap+5;0x0.0p+0;
   0x0.0p+0;0x1.060ea0536dc77p+40;0x0.0p+0;0x0.0p+0;0x0.0p+0;0x1.0302c7ce6e038p+20;0x0.0p+0;
   0x0.0p+0;0x1.c71c71c71c8c0p-8;0x0.0p+0;0x0.0p+0;0x0.0p+0;0x1.55555555555f3p-4;0x0.0p+0;
   0x0.0p+0;0x0.0p+0;0x0.0p+0;0x0.0p+0;0x0.0p+0;0x0.0p+0;0x0.0p+0].
Definition p1234 : list float := [24; -50; 35; -10; 1].

Lemma ex_roots_float :
  exists rs tr, roots_f64 tbl_1234 p1234 true = Ok (rs, tr) /\ length rs = 4%nat /\ length tr = 8%nat.
Proof. do 2 eexists. split; [vm_compute; reflexivity | split; reflexivity]. Qed.

Definition c1234 : list (cplx AF) := map (fun c => @mkC AF c 0) p1234.
Definition cz0 : cplx AF := @mkC AF 0 0.
Lemma ex_laguer_float :
  exists l, laguer (FloatRA tbl_1234) c1234 cz0 = Ok l
            /\ lwhy l = Converged /\ liters l = 4%nat.
Proof. eexists. split; [vm_compute; reflexivity | split; reflexivity]. Qed.
(* the first polishing call (entry 8 - 4 + 0 of the trace) exits Converged *)
Lemma ex_polish_float :
  exists rs tr l, roots_f64 tbl_1234 p1234 true = Ok (rs, tr) /\
                  nth_error tr (length tr - (length p1234 - 1) + 0) = Some l /\ lwhy l = Converged.
Proof. do 3 eexists. split; [vm_compute; reflexivity | split; reflexivity]. Qed.
Local Close Scope float_scope.

(* ---------------- GF(7): every hypothesis of the closed-form theorems is met ---------------- *)
Local Open Scope arith_scope.
(* linear: 3x + 5 *)
Lemma ex_linear7 : (f3 : A7) <> zero.
Proof. discriminate. Qed.

(* quadratic: x^2 + 4x + 2 = (x - 1)(x - 2) (mod 7): disc = 16 - 8 = 1 = 1^2 *)
Lemma ex_quadratic7 :
  let RA := RA7 f1 in
  let a : A7 := f1 in let b : A7 := f4 in let c : A7 := f2 in
  (f1 : A7) * f1 = b * b - a * natA A7 4 * c /\ natA A7 2 <> zero /\ a <> zero /\
  quadratic_solve RA a b c = Ok [f1; f2] /\ (f1 : A7) <> zero.
Proof. cbv zeta. repeat split; try discriminate; reflexivity. Qed.

(* cubic: x^3 + 4x + 5 = (x - 6)^2 (x - 2) (mod 7): d0 = 2, d1 = 2, radicand 0, base 1 = 1^3, u = 2 *)
Lemma ex_cubic7 :
  let RA := RA7 f0 in
  let a : A7 := f1 in let b : A7 := f0 in let c : A7 := f4 in let d : A7 := f5 in
  cubic_rad A7 A7_FieldLaws (O7 f0) a b c d = f0 /\
  cubic_base A7 A7_FieldLaws (O7 f0) true a b c d = f1 /\
  (let u : A7 := f2 in u * u + u + one = zero) /\
  natA A7 2 <> zero /\ natA A7 3 <> zero /\ a <> zero /\
  cubic_solve RA a b c d = Ok [f6; f6; f2].
Proof. cbv zeta. repeat split; try discriminate; reflexivity. Qed.

(* triple root: 2 (x - 1)^3 = 2x^3 + x^2 + 6x + 5 (mod 7) *)
Lemma ex_triple7 :
  cubic_solve (RA7 f0) (f2 : A7) f1 f6 f5 = Ok [f1; f1; f1].
Proof. reflexivity. Qed.

(* horner / deflation on 1 + 2x + 3x^2 + x^3 at x = 2 *)
Lemma ex_horner7 : exists b e d f, horner3 (RA7 f0) [f1; f2; f3; f1] 3 f2 = Ok (b, e, d, f).
Proof. do 4 eexists. reflexivity. Qed.
Lemma ex_deflate7 : exists ad' r, deflate (RA7 f0) [f1; f2; f3; f1] 2 f2 = Ok (ad', r).
Proof. do 2 eexists. reflexivity. Qed.

(* x^4 over GF(7), no refinement: the deflation phase runs (four roots 0, every residual 0) *)
Lemma ex_deflation7 :
  exists tr, poly_solve RA7r [f0; f0; f0; f0; f1] false = Ok ([f0; f0; f0; f0], tr) /\ length tr = 4.
Proof. eexists. split; [vm_compute; reflexivity | reflexivity]. Qed.

Lemma ex_polish7 :
  exists rs tr l, poly_solve RA7r [f0; f0; f0; f0; f1] true = Ok (rs, tr) /\
                  nth_error tr (length tr - 4 + 0) = Some l /\ lwhy l = Converged.
Proof. do 3 eexists. split; [vm_compute; reflexivity | split; reflexivity]. Qed.
