(* Proofs/ComplexGen.v -- the hand-written model of the complex operators (Model/Complex.v) IS the code:
   every definition regenerated from src/complex/mod.rs on this run (gen/ComplexOps.v) is convertible with
   its hand-written counterpart, for every arithmetic.  A change of any operator formula in the source breaks
   the corresponding lemma here (and with it the tie of every C13 theorem to the code). *)
From Coq Require Import Bool.
From OV Require Import Base.Panic Base.Arith Model.Complex gen.ComplexOps.

Section CxGenEq.
Context {A : Arith}.
Implicit Types (z w : cplx A) (r : A).

Lemma src_conj z : t_conj z = conj z. Proof. reflexivity. Qed.
Lemma src_cneg z : t_cneg z = cneg z. Proof. reflexivity. Qed.
Lemma src_cadd z w : t_cadd z w = cadd z w. Proof. reflexivity. Qed.
Lemma src_csub z w : t_csub z w = csub z w. Proof. reflexivity. Qed.
Lemma src_cmul z w : t_cmul z w = cmul z w. Proof. reflexivity. Qed.
Lemma src_cdiv z w : t_cdiv z w = cdiv z w. Proof. reflexivity. Qed.
Lemma src_cadd_r z r : t_cadd_r z r = cadd_r z r. Proof. reflexivity. Qed.
Lemma src_csub_r z r : t_csub_r z r = csub_r z r. Proof. reflexivity. Qed.
Lemma src_cmul_r z r : t_cmul_r z r = cmul_r z r. Proof. reflexivity. Qed.
Lemma src_rmul_c r z : t_rmul_c r z = rmul_c r z. Proof. reflexivity. Qed.
Lemma src_cdiv_r z r : t_cdiv_r z r = cdiv_r z r. Proof. reflexivity. Qed.
Lemma src_cadd_assign z w : t_cadd_assign z w = cadd_assign z w. Proof. reflexivity. Qed.
Lemma src_csub_assign z w : t_csub_assign z w = csub_assign z w. Proof. reflexivity. Qed.
Lemma src_cmul_assign z w : t_cmul_assign z w = cmul_assign z w. Proof. reflexivity. Qed.
Lemma src_cdiv_assign z w : t_cdiv_assign z w = cdiv_assign z w. Proof. reflexivity. Qed.
Lemma src_cadd_assign_r z r : t_cadd_assign_r z r = cadd_assign_r z r. Proof. reflexivity. Qed.
Lemma src_csub_assign_r z r : t_csub_assign_r z r = csub_assign_r z r. Proof. reflexivity. Qed.
Lemma src_cmul_assign_r z r : t_cmul_assign_r z r = cmul_assign_r z r. Proof. reflexivity. Qed.
Lemma src_cdiv_assign_r z r : t_cdiv_assign_r z r = cdiv_assign_r z r. Proof. reflexivity. Qed.
Lemma src_abs_sqr z : t_abs_sqr z = abs_sqr z. Proof. reflexivity. Qed.
Lemma src_ceqb z w : t_ceqb z w = ceqb z w. Proof. reflexivity. Qed.
Lemma src_cltb z w : t_ccmp ltb z w = cltb z w. Proof. reflexivity. Qed.
Lemma src_cleb z w : t_ccmp leb z w = cleb z w. Proof. reflexivity. Qed.
Lemma src_czero : @t_czero A = czero. Proof. reflexivity. Qed.
Lemma src_cone : @t_cone A = cone. Proof. reflexivity. Qed.

(* all of them at once: what Props/C13.v pins *)
Definition model_is_source : Prop :=
  (forall z, t_conj z = conj z) /\ (forall z, t_cneg z = cneg z) /\
  (forall z w, t_cadd z w = cadd z w) /\ (forall z w, t_csub z w = csub z w) /\
  (forall z w, t_cmul z w = cmul z w) /\ (forall z w, t_cdiv z w = cdiv z w) /\
  (forall z r, t_cadd_r z r = cadd_r z r) /\ (forall z r, t_csub_r z r = csub_r z r) /\
  (forall z r, t_cmul_r z r = cmul_r z r) /\ (forall r z, t_rmul_c r z = rmul_c r z) /\ (forall z r, t_cdiv_r z r = cdiv_r z r) /\
  (forall z w, t_cadd_assign z w = cadd_assign z w) /\ (forall z w, t_csub_assign z w = csub_assign z w) /\
  (forall z w, t_cmul_assign z w = cmul_assign z w) /\ (forall z w, t_cdiv_assign z w = cdiv_assign z w) /\
  (forall z r, t_cadd_assign_r z r = cadd_assign_r z r) /\ (forall z r, t_csub_assign_r z r = csub_assign_r z r) /\
  (forall z r, t_cmul_assign_r z r = cmul_assign_r z r) /\ (forall z r, t_cdiv_assign_r z r = cdiv_assign_r z r) /\
  (forall z, t_abs_sqr z = abs_sqr z) /\ (forall z w, t_ceqb z w = ceqb z w) /\
  (forall z w, t_ccmp ltb z w = cltb z w) /\ (forall z w, t_ccmp leb z w = cleb z w) /\
  @t_czero A = czero /\ @t_cone A = cone.

Lemma model_is_source_lemma : model_is_source.
Proof. unfold model_is_source; repeat split; reflexivity. Qed.

End CxGenEq.
