(* Proofs/BandedComplete.v -- with the magnitude rule, band_solve answers on every nonsingular band:
   a zero pivot at stage k means that column k vanishes on the whole window, which gives a nonzero
   vector in the kernel of the dense twin. *)
From Coq Require Import List Arith Lia ZArith Bool Ring_theory Ring Field_theory Field.
From OV Require Import Base.Panic Base.Arith Model.Vector Model.Matrix Model.Banded
                       Proofs.Banded Proofs.BandedLU Proofs.BandedTotal.
Import ListNotations.
Local Open Scope nat_scope.

(* what the pivot search by magnitude needs of `abs` and `<` *)
Record PivotLaws (A : Arith) : Prop := {
  pl_abs0 : abs (@zero A) = zero;
  pl_nonneg : forall x : A, ltb (abs x) zero = false;
  pl_pos : forall x : A, x <> zero -> ltb zero (abs x) = true;
}.

Lemma for_from_snoc {S} n lo (body : nat -> S -> res S) (s : S) :
  for_from (Datatypes.S n) lo body s = let* s' := for_from n lo body s in body (lo + n) s'.
Proof.
  revert lo s; induction n as [|n IH]; intros lo s.
  - cbn. rewrite Nat.add_0_r. now destruct (body lo s).
  - change (for_from (Datatypes.S (Datatypes.S n)) lo body s)
      with (let* s1 := body lo s in for_from (Datatypes.S n) (Datatypes.S lo) body s1).
    change (for_from (Datatypes.S n) lo body s)
      with (let* s1 := body lo s in for_from n (Datatypes.S lo) body s1).
    destruct (body lo s) as [s1|]; cbn [bind]; auto.
    rewrite IH. now replace (Datatypes.S lo + n) with (lo + Datatypes.S n) by lia.
Qed.

Section Complete.
Context {A : Arith}.
Notation T := (T A).
Notation matrix := (matrix A).
Notation banded := (banded A).
Variable FL : FieldLaws A.
Variable PL : PivotLaws A.
Let RL : RingLaws A := RingLaws_of_Field FL.
Add Field AFld2 : (fl_field A FL).
Notation inv := (fl_inv A FL).

(* ---- a zero pivot means a zero column on the window ---- *)
Lemma find_pivot_zero (au : matrix) mm k l dum p :
  cols au = mm -> find_pivot false au k l = Ok (dum, p) -> dum = zero ->
  forall j, k <= j < Nat.max l (k + 1) -> mat_at au mm j 0 = zero.
Proof.
  intros Hc H. unfold find_pivot in H.
  apply bind_ok in H as (d0 & E0 & H). apply (mget_Ok_inv _ mm) in E0 as (-> & _); auto.
  destruct (Nat.le_gt_cases (k + 1) l) as [Hkl|Hkl].
  2:{ rewrite for_empty in H by lia. injection H as <- <-. intros Hz j Hj.
      replace j with k by lia. exact Hz. }
  intros Hz.
  assert (HI : fst (dum, p) = zero -> forall r, k <= r < l -> mat_at au mm r 0 = zero).
  { refine (for_inv_partial (fun j (st : T * nat) => fst st = zero -> forall r, k <= r < j -> mat_at au mm r 0 = zero)
              (k + 1) l _ (mat_at au mm k 0, k) (dum, p) Hkl _ _ H).
    - cbn [fst]. intros Hk0 r Hr. now replace r with k by lia.
    - intros j [d i] [d1 i1] Hj HIj E. cbn [fst] in *.
      apply bind_ok in E as (a & Ea & E). apply (mget_Ok_inv _ mm) in Ea as (-> & _); auto.
      unfold pivot_better, gtb in E.
      destruct (ltb (abs d) (abs (mat_at au mm j 0))) eqn:Elt; injection E as <- <-.
      + intros Ha0. exfalso. rewrite Ha0, (pl_abs0 A PL), (pl_nonneg A PL) in Elt. discriminate.
      + intros Hd0 r Hr. destruct (Nat.eq_dec r j) as [->|]; [|apply HIj; auto; lia].
        destruct (eqb (mat_at au mm j 0) zero) eqn:Ez; [now apply (fl_eqb A FL)|].
        exfalso. subst d. rewrite (pl_abs0 A PL), (pl_pos A PL) in Elt; [discriminate|].
        now apply (eqb_false_neq FL). }
  intros j Hj. apply HI; auto. lia.
Qed.

Lemma dec_step_zero_pivot n mm m1 k (au al : matrix) (index : list nat) (d : T) l
      (au' al' : matrix) (index' : list nat) (d' : T) l' :
  cols au = mm -> cols al = m1 -> 1 <= mm -> lnext n l <= k + 1 + m1 ->
  dec_step false n mm k (au, al, index, d, l) = Ok (au', al', index', d', l') ->
  mat_at au' mm k 0 = zero ->
  forall j, k <= j < Nat.max (lnext n l) (k + 1) -> mat_at au mm j 0 = zero.
Proof.
  intros Hc Hcl Hmm Hl H Hz. unfold dec_step in H. fold (lnext n l) in H.
  apply bind_ok in H as ([dum p] & Ep & H).
  pose proof (find_pivot_Ok_inv _ mm _ _ _ _ Hc Ep) as (Hp & Hdum).
  apply bind_ok in H as (index1 & Ei & H).
  apply bind_ok in H as (au1 & E1 & H).
  apply bind_ok in H as ([au2 d2] & E2 & H).
  apply bind_ok in H as ([au3 al3] & E3 & H). injection H as <- <- <- <- <-.
  destruct (eqb dum zero) eqn:Ez.
  - apply (fl_eqb A FL) in Ez. now apply (find_pivot_zero au mm k (lnext n l) dum p).
  - exfalso. injection E1 as <-.
    assert (H2 : cols au2 = mm /\ mat_at au2 mm k 0 = dum).
    { destruct (Nat.eqb_spec p k) as [->|Hpk]; cbn [negb] in E2.
      - injection E2 as <- <-. auto.
      - apply bind_ok in E2 as (au2' & Esw & E2). injection E2 as <- <-.
        apply (swap_band_rows_Ok_inv _ _ mm) in Esw as (Hc2 & Hsw); auto.
        split; auto. rewrite Hsw by lia. now rewrite Nat.eqb_refl. }
    destruct H2 as (Hc2 & H2).
    apply (elim_loop_Ok_inv FL _ _ _ _ mm m1) in E3 as (_ & _ & H3 & _); auto.
    rewrite H3 in Hz by lia. rewrite Nat.ltb_irrefl in Hz. cbn [andb] in Hz.
    apply (eqb_false_neq FL) in Ez. congruence.
Qed.

(* ---- the kernel vector of a stage whose window column vanishes ---- *)

(* x_k = 1, x_j = 0 above k, and the finished rows k-1 .. 0 solved for x_j in turn *)
Fixpoint kvec (a : nat -> nat -> T) (mm : nat) (j : nat) (v : list T) : list T :=
  match j with
  | 0 => v
  | S j' => kvec a mm j'
              (upd_list v j' (neg (mul (sum_n (mm - 1) (fun u => mul (a j' (1 + u)) (nth (j' + (1 + u)) v zero)))
                                       (inv (a j' 0)))))
  end.

Lemma kvec_spec (a : nat -> nat -> T) mm n k :
  1 <= mm -> k < n -> (forall r, r < k -> a r 0 <> zero) ->
  forall j v, j <= k ->
    (length v = n /\ nth k v zero = one /\ (forall i, k < i -> nth i v zero = zero) /\
     (forall r, j <= r < k -> rowf (a r) mm r v = zero)) ->
    let x := kvec a mm j v in
    length x = n /\ nth k x zero = one /\ (forall i, k < i -> nth i x zero = zero) /\
    (forall r, r < k -> rowf (a r) mm r x = zero).
Proof.
  intros Hmm Hk Hpiv. induction j as [|j IH]; intros v Hj (Hlen & Hvk & Hhi & Hrows); cbn [kvec].
  - cbn zeta. repeat split; auto. intros r Hr. apply Hrows. lia.
  - set (S0 := sum_n (mm - 1) (fun u => mul (a j (1 + u)) (nth (j + (1 + u)) v zero))).
    apply IH; [lia|].
    rewrite upd_list_length. split; [auto|]. split.
    { rewrite nth_upd_list by lia. destruct (Nat.eqb_spec k j); [lia|auto]. }
    split.
    { intros i Hi. rewrite nth_upd_list by lia. destruct (Nat.eqb_spec i j); [lia|auto]. }
    intros r Hr. destruct (Nat.eq_dec r j) as [->|Hne].
    + unfold rowf. destruct mm as [|m]; [lia|]. rewrite (sum_n_peel FL).
      rewrite Nat.add_0_r, nth_upd_list, Nat.eqb_refl by lia.
      rewrite (sum_n_ext m _ (fun u => mul (a j (1 + u)) (nth (j + (1 + u)) v zero))).
      2:{ intros u Hu. rewrite nth_upd_list by lia. destruct (Nat.eqb_spec (j + (1 + u)) j); [lia|reflexivity]. }
      unfold S0. replace (S m - 1) with m by lia.
      assert (Hj0 : a j 0 <> zero) by (apply Hpiv; lia).
      field. exact Hj0.
    + rewrite <- (Hrows r) by lia. unfold rowf. apply sum_n_ext. intros s Hs.
      rewrite nth_upd_list by lia. destruct (Nat.eqb_spec (r + s) j); [lia|reflexivity].
Qed.

(* ---- the stages 0 .. k-1, backwards, for the homogeneous system ---- *)
Lemma dec_back_homog n mm m1 (x : list T) :
  1 <= mm -> m1 <= n ->
  forall rem k (au al : matrix) (index : list nat) (d : T) (auN alN : matrix) (indexN : list nat) (dN : T) lN,
  k + rem <= n -> cols au = mm -> cols al = m1 ->
  for_from rem k (dec_step false n mm) (au, al, index, d, Nat.min (k + m1) n) = Ok (auN, alN, indexN, dN, lN) ->
  (forall i, k <= i < k + rem -> mat_at auN mm i 0 <> zero) ->
  (forall i, i < n -> rowval auN mm i (c_of m1 (k + rem) i) x = zero) ->
  forall i, i < n -> rowval au mm i (c_of m1 k i) x = zero.
Proof.
  intros Hmm Hm1. induction rem as [|rem IH];
    intros k au al index d auN alN indexN dN lN Hk Hc Hcl Hdec Hpiv Hfin.
  - cbn in Hdec. injection Hdec as <- <- <- <- <-. now rewrite Nat.add_0_r in Hfin.
  - cbn [for_from] in Hdec.
    apply bind_ok in Hdec as ([[[[au1 al1] index1] d1] l1] & E1 & Hdec).
    assert (Hln : lnext n (Nat.min (k + m1) n) <= k + 1 + m1) by (rewrite lnext_min by auto; lia).
    pose proof (dec_step_frame FL n mm m1 k _ _ _ _ _ _ _ _ _ _ Hc Hcl Hmm Hln E1) as (Hc1 & Hcl1 & Hl1 & _).
    rewrite lnext_min in Hl1 by auto. subst l1.
    pose proof (dec_loop_frame FL n mm m1 rem (S k) (au1, al1, index1, d1, Nat.min (k + 1 + m1) n)
                  (auN, alN, indexN, dN, lN)) as HF.
    cbn beta iota in HF. cbn [fst snd] in HF.
    specialize (HF Hc1 Hcl1 Hmm).
    replace (S k + m1) with (k + 1 + m1) in HF by lia. specialize (HF eq_refl Hm1 Hdec).
    destruct HF as (HcN & HclN & _ & HauN & _ & _).
    assert (Hpk : mat_at au1 mm k 0 <> zero).
    { rewrite <- HauN by lia. apply Hpiv. lia. }
    destruct (dec_step_Ok_inv FL n mm m1 k _ _ _ _ _ _ _ _ _ _ Hc Hcl Hmm Hln E1 Hpk)
      as (p & Hp & _ & _ & _ & _ & _ & Ha2 & Hau1 & _).
    cbn zeta in Ha2, Hau1.
    assert (Hnext : forall i, i < n -> rowval au1 mm i (c_of m1 (k + 1) i) x = zero).
    { replace (k + 1) with (S k) by lia.
      apply (IH (S k) au1 al1 index1 d1 auN alN indexN dN lN); auto; try lia.
      - now replace (S k + m1) with (k + 1 + m1) by lia.
      - intros i Hi. apply Hpiv. lia.
      - now replace (S k + rem) with (k + S rem) by lia. }
    intros i Hi.
    rewrite <- (nth_repeat zero n i).
    apply (stage_back FL n mm m1 k p (Nat.min (k + 1 + m1) n) au au1 (repeat zero n) (repeat zero n) x);
      auto; try lia.
    + intros i0. rewrite !nth_repeat. destruct ((k <? i0) && (i0 <? Nat.min (k + 1 + m1) n)); ring.
    + intros i0 Hi0. rewrite nth_repeat. now apply Hnext.
Qed.

(* ---- nonsingular twin: no stage meets a zero pivot ---- *)

Definition trivial_kernel (B : banded) : Prop :=
  forall x : list T, length x = bn B -> dense_mulv B x = repeat zero (bn B) -> x = repeat zero (bn B).

Lemma one_neq_zero : (one : T) <> zero.
Proof. exact (F_1_neq_0 (fl_field A FL)). Qed.

Lemma pivots_nonzero (B : banded) (au0 : matrix) :
  wfB B -> bm1 B <= bn B -> trivial_kernel B ->
  cols au0 = bm1 B + bm2 B + 1 ->
  (forall r s, s < bm1 B + bm2 B + 1 ->
     mat_at au0 (bm1 B + bm2 B + 1) r s = shifted (compact B) (bm1 B + bm2 B + 1) (bm1 B) r s) ->
  forall k, k <= bn B -> forall (auK alK : matrix) (indexK : list nat) (dK : T) lK,
    for_from k 0 (dec_step false (bn B) (bm1 B + bm2 B + 1))
      (au0, mat_new (bn B) (bm1 B) zero, repeat 0 (bn B), one, Nat.min (0 + bm1 B) (bn B))
      = Ok (auK, alK, indexK, dK, lK) ->
    forall i, i < k -> mat_at auK (bm1 B + bm2 B + 1) i 0 <> zero.
Proof.
  intros Hwf Hm1 Hker Hc0 Hau0.
  set (n := bn B) in *. set (m1 := bm1 B) in *. set (mm := m1 + bm2 B + 1) in *.
  assert (Hmm : 1 <= mm) by (unfold mm; lia).
  induction k as [|k IH]; intros Hk auK alK indexK dK lK E i Hi; [lia|].
  rewrite for_from_snoc in E. apply bind_ok in E as ([[[[auk alk] ixk] dk] lk] & Ek & E). cbn [Nat.add] in E.
  specialize (IH ltac:(lia) _ _ _ _ _ Ek).
  pose proof (dec_loop_frame FL n mm m1 k 0 (au0, mat_new n m1 zero, repeat 0 n, one, Nat.min (0 + m1) n)
                (auk, alk, ixk, dk, lk)) as HF.
  cbn beta iota in HF. cbn [fst snd] in HF.
  specialize (HF Hc0 eq_refl Hmm eq_refl Hm1 Ek). destruct HF as (Hck & Hclk & Hlk & _).
  cbn [Nat.add] in Hlk. subst lk.
  assert (Hln : lnext n (Nat.min (k + m1) n) <= k + 1 + m1) by (rewrite lnext_min by auto; lia).
  pose proof (dec_step_frame FL n mm m1 k _ _ _ _ _ _ _ _ _ _ Hck Hclk Hmm Hln E) as (_ & _ & _ & HauK & _ & _).
  destruct (Nat.eq_dec i k) as [->|Hne].
  2:{ rewrite HauK by lia. apply IH. lia. }
  destruct (eqb (mat_at auK mm k 0) zero) eqn:Ez; [|now apply (eqb_false_neq FL)].
  exfalso. apply (fl_eqb A FL) in Ez.
  (* column k vanishes on the window of stage k *)
  pose proof (dec_step_zero_pivot n mm m1 k _ _ _ _ _ _ _ _ _ _ Hck Hclk Hmm Hln E Ez) as Hwin.
  rewrite lnext_min in Hwin by auto.
  set (l' := Nat.min (k + 1 + m1) n) in *.
  assert (Hmax : Nat.max l' (k + 1) = l') by (unfold l'; lia). rewrite Hmax in Hwin.
  (* the kernel vector *)
  set (a := mat_at auk mm).
  set (v0 := upd_list (repeat (zero : T) n) k one).
  destruct (kvec_spec a mm n k Hmm ltac:(lia) (fun r Hr => IH r Hr) k v0 (Nat.le_refl _)) as (Hxl & Hxk & Hxhi & Hxrows).
  { unfold v0. rewrite upd_list_length, repeat_length. split; [auto|]. split.
    - rewrite nth_upd_list by (rewrite repeat_length; lia). now rewrite Nat.eqb_refl.
    - split; [|intros r Hr; lia]. intros j Hj. rewrite nth_upd_list by (rewrite repeat_length; lia).
      destruct (Nat.eqb_spec j k); [lia|]. apply nth_repeat. }
  set (x := kvec a mm k v0) in *.
  (* x solves the homogeneous system of stage k *)
  assert (Hstage : forall j, j < n -> rowval auk mm j (c_of m1 (0 + k) j) x = zero).
  { intros j Hj. cbn [Nat.add]. unfold c_of.
    destruct (Nat.ltb_spec j k) as [Hjk|Hjk]; [now apply Hxrows|].
    destruct (Nat.ltb_spec j (k + m1)) as [Hjw|Hjw].
    - unfold rowval. apply (sum_n_zero RL). intros s Hs. destruct s as [|s].
      + rewrite Hwin by (unfold l'; lia). ring.
      + rewrite Hxhi by lia. ring.
    - destruct (Nat.eq_dec j (k + m1)) as [->|Hne'].
      + replace (k + m1 - m1) with k by lia.
        unfold rowval. apply (sum_n_zero RL). intros s Hs. destruct s as [|s].
        * rewrite Hwin by (unfold l'; lia). ring.
        * rewrite Hxhi by lia. ring.
      + unfold rowval. apply (sum_n_zero RL). intros s Hs. rewrite Hxhi by lia. ring. }
  (* hence the dense twin has a nonzero kernel vector *)
  pose proof (dec_back_homog n mm m1 x Hmm Hm1 k 0 au0 (mat_new n m1 zero) (repeat 0 n) one
                auk alk ixk dk _ ltac:(lia) Hc0 eq_refl Ek (fun r Hr => IH r (proj2 Hr)) Hstage) as Hall.
  assert (Hx0 : x = repeat zero n).
  { apply Hker; auto. apply (nth_ext _ _ zero zero).
    - unfold dense_mulv. now rewrite map_length, seq_length, repeat_length.
    - unfold dense_mulv. rewrite map_length, seq_length. intros j Hj.
      rewrite nth_map_seq by auto. rewrite nth_repeat.
      transitivity (rowval au0 mm j (c_of m1 0 j) x); [|now apply Hall].
      symmetry. apply (shifted_row_dense FL); auto. }
  apply one_neq_zero. rewrite <- Hxk, Hx0. apply nth_repeat.
Qed.

(* ---- completeness: on a nonsingular band the solver answers, and the answer is the solution ---- *)
Lemma band_solve_complete_lemma (B : banded) (b : list T) :
  wfB B -> length b = bn B -> bm1 B <= bn B -> trivial_kernel B ->
  exists x, band_solve B b = Ok x /\ length x = bn B /\ dense_mulv B x = b.
Proof.
  intros Hwf Hb Hm1 Hker.
  destruct (band_solve_total_lemma FL B b Hwf Hb Hm1) as [(x & E)|(_ & auN & alN & indexN & dN & Edec & i & Hi & Hz)].
  - exists x. split; auto. now apply (band_solve_sound_lemma FL B b x).
  - exfalso. unfold decompose_gen in Edec.
    apply bind_ok in Edec as (au0 & Eshift & Edec).
    apply bind_ok in Edec as ([[[[auN' alN'] indexN'] dN'] lN'] & Eloop & Edec). injection Edec as <- <- <- <-.
    pose proof Hwf as (_ & _ & Hcols).
    apply (shift_rows_Ok_inv _ _ (bm1 B + bm2 B + 1) (bm1 B)) in Eshift as (Hc0 & Hau0); auto; [|lia].
    unfold for_ in Eloop. rewrite Nat.sub_0_r in Eloop.
    assert (Hl0 : bm1 B = Nat.min (0 + bm1 B) (bn B)) by lia.
    assert (Eloop' : for_from (bn B) 0 (dec_step false (bn B) (bm1 B + bm2 B + 1))
              (au0, mat_new (bn B) (bm1 B) zero, repeat 0 (bn B), one, Nat.min (0 + bm1 B) (bn B))
              = Ok (auN', alN', indexN', dN', lN')) by (rewrite <- Hl0; exact Eloop).
    exact (pivots_nonzero B au0 Hwf Hm1 Hker Hc0 Hau0 (bn B) (Nat.le_refl _) _ _ _ _ _ Eloop' i Hi Hz).
Qed.

End Complete.

(* ---- the laws hold at Qc ---- *)
From Coq Require Import QArith Qcanon.
From OV Require Import Inst.QcInst.

Lemma AQ_PivotLaws : PivotLaws AQ.
Proof.
  constructor.
  - reflexivity.
  - intros x. change (Qc_ltb (Qc_abs x) 0%Qc = false). unfold Qc_abs, Qc_ltb.
    destruct (x ?= 0)%Qc eqn:E.
    + now rewrite E.
    + apply Qclt_alt in E. apply Qclt_minus_iff in E. rewrite Qcplus_0_l in E.
      apply Qcgt_alt in E. replace (- x ?= 0)%Qc with Gt by (symmetry; exact E). reflexivity.
    + now rewrite E.
  - intros x Hx. change (Qc_ltb 0%Qc (Qc_abs x) = true). unfold Qc_abs, Qc_ltb.
    destruct (x ?= 0)%Qc eqn:E.
    + apply Qceq_alt in E. contradiction.
    + apply Qclt_alt in E. apply Qclt_minus_iff in E. rewrite Qcplus_0_l in E.
      apply Qclt_alt in E. replace (0 ?= - x)%Qc with Lt by (symmetry; exact E). reflexivity.
    + apply Qcgt_alt in E. apply Qclt_alt in E. replace (0 ?= x)%Qc with Lt by (symmetry; exact E). reflexivity.
Qed.
