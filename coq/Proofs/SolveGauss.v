(* Proofs/SolveGauss.v -- forward elimination (Model/Solve.v: max_abs_in_column, partial_pivot,
   gauss_with_pivot) on a well-formed square matrix: what each loop computes, entry by entry. *)
From Coq Require Import List Arith Lia Bool Ring Field.
From OV Require Import Base.Panic Base.Arith Model.Vector Model.Matrix Model.Solve Proofs.Matrix Proofs.SolveBase Proofs.SolveBack.
Import ListNotations.
Local Open Scope arith_scope.

Ltac bdestr :=
  repeat match goal with
  | |- context [Nat.ltb ?a ?b] => destruct (Nat.ltb_spec a b)
  | |- context [Nat.leb ?a ?b] => destruct (Nat.leb_spec a b)
  | |- context [Nat.eqb ?a ?b] => destruct (Nat.eqb_spec a b)
  end; cbn [andb]; try reflexivity; try lia; try congruence.

Section Gauss.
Context {A : Arith}.
Variable FL : FieldLaws A.
Notation inv := (fl_inv A FL).
Add Field AFieldG : (A_field FL).

(* ---------- pivot search ---------- *)
Definition max_body (m : matrix A) (col : nat) (i : nat) (s : nat * A) : res (nat * A) :=
  let '(mi, mx) := s in
  let* a := mget m i col in
  if ltb mx (abs a) then Ok (i, abs a) else Ok (mi, mx).

Lemma max_abs_unfold (m : matrix A) col start :
  max_abs_in_column m col start =
  (let* r := for_ start (rows m) (max_body m col) (0%nat, zero) in Ok (fst r)).
Proof. reflexivity. Qed.

(* the index returned is the initial 0 or lies in the scanned range *)
Lemma max_abs_range (m : matrix A) col start : wf m -> (col < cols m)%nat -> (start <= rows m)%nat ->
  exists p, max_abs_in_column m col start = Ok p /\ (p = 0%nat \/ (start <= p < rows m)%nat).
Proof.
  intros W Hc Hs. rewrite max_abs_unfold.
  destruct (for_inv (fun i0 (s : nat * A) => fst s = 0%nat \/ (start <= fst s < i0)%nat)
             start (rows m) (max_body m col) (0%nat, zero)) as (s & E & H).
  - exact Hs.
  - left; reflexivity.
  - intros i [mi mx] Hi H. unfold max_body. rewrite mget_ok by (auto; lia). cbn [bind].
    destruct (ltb mx (abs (ent m i col))); eexists; (split; [reflexivity|]); cbn [fst] in *; lia.
  - rewrite E. cbn [bind]. exists (fst s). split; auto.
Qed.

(* under the magnitude laws the search finds a non-zero entry whenever there is one *)
Lemma max_abs_finds (PL : PivLaws A) (m : matrix A) col start :
  wf m -> (col < cols m)%nat -> (start <= rows m)%nat ->
  exists p, max_abs_in_column m col start = Ok p /\
    ((forall i, (start <= i < rows m)%nat -> ent m i col = zero) \/
     ((start <= p < rows m)%nat /\ ent m p col <> zero)).
Proof.
  intros W Hc Hs. rewrite max_abs_unfold.
  destruct (for_inv (fun i0 (s : nat * A) =>
               (snd s = zero /\ forall i, (start <= i < i0)%nat -> ent m i col = zero) \/
               ((start <= fst s < i0)%nat /\ snd s = abs (ent m (fst s) col) /\ ent m (fst s) col <> zero))
             start (rows m) (max_body m col) (0%nat, zero)) as (s & E & H).
  - exact Hs.
  - left. split; auto. intros; lia.
  - intros i [mi mx] Hi H. unfold max_body. rewrite mget_ok by (auto; lia). cbn [bind].
    cbn [fst snd] in H.
    destruct (ltb mx (abs (ent m i col))) eqn:Lt; eexists; (split; [reflexivity|]); cbn [fst snd].
    + right. split; [lia|]. split; auto.
      intros Z. rewrite Z in Lt. rewrite (proj2 (pl_abs0 A PL zero) eq_refl) in Lt.
      destruct H as [(Hz & _)|(_ & Hm & _)].
      * rewrite Hz in Lt. pose proof (pl_nneg A PL zero) as N.
        rewrite (proj2 (pl_abs0 A PL zero) eq_refl) in N. congruence.
      * rewrite Hm in Lt. rewrite (pl_nneg A PL) in Lt. discriminate.
    + destruct H as [(Hz & Hall)|(Hr & Hm & Hnz)].
      * left. split; auto. intros i' Hi'. destruct (Nat.eq_dec i' i) as [->|]; [|apply Hall; lia].
        destruct (fl_eqb A FL (ent m i col) zero) as [_ _].
        destruct (eqb (ent m i col) zero) eqn:Ez; [now apply (fl_eqb A FL)|].
        exfalso. apply (eqb_zero_false FL) in Ez. apply (pl_pos A PL) in Ez. rewrite Hz in Lt. congruence.
      * right. split; [lia|]. auto.
  - rewrite E. cbn [bind]. exists (fst s). split; auto.
    destruct H as [(_ & Hall)|(Hr & _ & Hnz)]; auto.
Qed.

Lemma max_abs_det (m : matrix A) col start p q :
  max_abs_in_column m col start = Ok p -> max_abs_in_column m col start = Ok q -> p = q.
Proof. congruence. Qed.

(* ---------- one row update:  row_i -= elem * row_k  on columns k.. ---------- *)
Definition rowupd_body (k i : nat) (elem : A) (j : nat) (m : matrix A) : res (matrix A) :=
  let* kj := mget m k j in
  let* ij := mget m i j in
  mset m i j (ij - elem * kj).

Lemma rowupd_ok (m : matrix A) n k i elem : wf m -> rows m = n -> cols m = n ->
  (k < n)%nat -> (i < n)%nat -> i <> k ->
  exists m', for_ k n (rowupd_body k i elem) m = Ok m' /\ wf m' /\ rows m' = n /\ cols m' = n /\
    forall i' j', (i' < n)%nat -> (j' < n)%nat ->
      ent m' i' j' = if ((i' =? i) && (k <=? j'))%nat then ent m i j' - elem * ent m k j' else ent m i' j'.
Proof.
  intros W Hr Hc Hk Hi Hik.
  destruct (for_inv (fun j0 (m' : matrix A) => wf m' /\ rows m' = n /\ cols m' = n /\
              forall i' j', (i' < n)%nat -> (j' < n)%nat ->
                ent m' i' j' = if ((i' =? i) && (k <=? j') && (j' <? j0))%nat
                               then ent m i j' - elem * ent m k j' else ent m i' j')
            k n (rowupd_body k i elem) m) as (m' & E & W' & R' & C' & S').
  - lia.
  - repeat split; auto. intros i' j' Hi' Hj'.
    bdestr.
  - intros j m0 Hj (W0 & R0 & C0 & S0). unfold rowupd_body.
    rewrite !mget_ok by (auto; lia). cbn [bind].
    destruct (mset_ok m0 i j (ent m0 i j - elem * ent m0 k j) W0) as (m1 & E1 & W1 & R1 & C1 & S1); try lia.
    exists m1. split; auto. repeat split; try congruence.
    intros i' j' Hi' Hj'. rewrite S1 by lia. rewrite !S0 by lia. bdestr.
  - exists m'. split; auto. repeat split; auto.
    intros i' j' Hi' Hj'. rewrite S' by auto. bdestr.
Qed.

(* ---------- elimination of all rows below the pivot row ---------- *)
Definition elim_body (k : nat) (i : nat) (s : matrix A * list A) : res (matrix A * list A) :=
  let '(m, x) := s in
  let* aik := mget m i k in
  let* akk := mget m k k in
  let* elem := div aik akk in
  let* m := for_ k (rows m) (fun j m =>
              let* kj := mget m k j in
              let* ij := mget m i j in
              mset m i j (ij - elem * kj)) m in
  let* xk := rd x k in
  let* xi := rd x i in
  let* x := upd x i (xi - elem * xk) in
  Ok (m, x).

Definition elim_ent (m : matrix A) (k : nat) (i j : nat) : A :=
  if ((k <? i) && (k <=? j))%nat then ent m i j - (ent m i k * inv (ent m k k)) * ent m k j else ent m i j.
Definition elim_rhs (m : matrix A) (x : list A) (k : nat) (i : nat) : A :=
  if (k <? i)%nat then vnth x i - (ent m i k * inv (ent m k k)) * vnth x k else vnth x i.

Lemma elim_rows_ok (m : matrix A) (x : list A) n k : wf m -> rows m = n -> cols m = n -> length x = n ->
  (k < n)%nat -> ent m k k <> zero ->
  exists m' x', for_ (k + 1) n (elim_body k) (m, x) = Ok (m', x') /\
    wf m' /\ rows m' = n /\ cols m' = n /\ length x' = n /\
    (forall i j, (i < n)%nat -> (j < n)%nat -> ent m' i j = elim_ent m k i j) /\
    (forall i, (i < n)%nat -> vnth x' i = elim_rhs m x k i).
Proof.
  intros W Hr Hc Lx Hk D.
  destruct (for_inv (fun i0 (s : matrix A * list A) =>
              wf (fst s) /\ rows (fst s) = n /\ cols (fst s) = n /\ length (snd s) = n /\
              (forall i j, (i < n)%nat -> (j < n)%nat ->
                 ent (fst s) i j = if (i <? i0)%nat then elim_ent m k i j else ent m i j) /\
              (forall i, (i < n)%nat -> vnth (snd s) i = if (i <? i0)%nat then elim_rhs m x k i else vnth x i))
            (k + 1)%nat n (elim_body k) (m, x)) as ([m' x'] & E & W' & R' & C' & L' & S' & X').
  - lia.
  - cbn [fst snd]. repeat split; auto.
    + intros i j Hi Hj. unfold elim_ent. destruct (Nat.ltb_spec i (k + 1)); auto.
      destruct (Nat.ltb_spec k i); [lia|]. reflexivity.
    + intros i Hi. unfold elim_rhs. destruct (Nat.ltb_spec i (k + 1)); auto.
      destruct (Nat.ltb_spec k i); [lia|]. reflexivity.
  - intros i [m0 x0] Hi (W0 & R0 & C0 & L0 & S0 & X0). cbn [fst snd] in *. unfold elim_body.
    rewrite !mget_ok by (auto; lia). cbn [bind].
    assert (Ekk : ent m0 k k = ent m k k).
    { rewrite S0 by lia. destruct (Nat.ltb_spec k i); [|lia]. unfold elim_ent.
      destruct (Nat.ltb_spec k k); [lia|]. reflexivity. }
    assert (Eik : ent m0 i k = ent m i k).
    { rewrite S0 by lia. destruct (Nat.ltb_spec i i); [lia|]. reflexivity. }
    rewrite Ekk, Eik. rewrite (div_nf FL).
    destruct (eqb (ent m k k) zero) eqn:Ez; [apply (eqb_zero_true FL) in Ez; contradiction|].
    cbn [bind]. rewrite R0.
    destruct (rowupd_ok m0 n k i (ent m i k * inv (ent m k k)) W0 R0 C0) as (m1 & E1 & W1 & R1 & C1 & S1); try lia.
    unfold rowupd_body in E1. rewrite E1. cbn [bind].
    rewrite (rd_ok x0 k zero) by lia. rewrite (rd_ok x0 i zero) by lia. cbn [bind].
    rewrite upd_ok by lia. cbn [bind].
    eexists. split; [reflexivity|]. cbn [fst snd]. rewrite upd_list_length.
    repeat split; auto.
    + intros i' j' Hi' Hj'. rewrite S1 by lia.
      destruct (Nat.eqb_spec i' i) as [->|Hne]; cbn [andb].
      * destruct (Nat.ltb_spec i (S i)); [|lia].
        unfold elim_ent. destruct (Nat.ltb_spec k i); [|lia]. cbn [andb].
        rewrite !S0 by lia. destruct (Nat.ltb_spec i i); [lia|].
        destruct (Nat.ltb_spec k i); [|lia]. unfold elim_ent.
        destruct (Nat.ltb_spec k k); [lia|]. cbn [andb].
        destruct (Nat.leb_spec k j'); reflexivity.
      * rewrite S0 by lia.
        destruct (Nat.ltb_spec i' i); destruct (Nat.ltb_spec i' (S i)); auto; lia.
    + intros i' Hi'. unfold vnth at 1. rewrite nth_upd_list by lia.
      fold (vnth x0 i') (vnth x0 i) (vnth x0 k).
      destruct (Nat.eqb_spec i' i) as [->|Hne].
      * destruct (Nat.ltb_spec i (S i)); [|lia]. unfold elim_rhs.
        destruct (Nat.ltb_spec k i); [|lia].
        rewrite !X0 by lia. destruct (Nat.ltb_spec i i); [lia|].
        destruct (Nat.ltb_spec k i); [|lia]. unfold elim_rhs.
        destruct (Nat.ltb_spec k k); [lia|]. reflexivity.
      * rewrite X0 by lia.
        destruct (Nat.ltb_spec i' i); destruct (Nat.ltb_spec i' (S i)); auto; lia.
  - cbn [fst snd] in *. exists m', x'. split; auto. repeat split; auto.
    + intros i j Hi Hj. rewrite S' by auto. destruct (Nat.ltb_spec i n); [|lia]. reflexivity.
    + intros i Hi. rewrite X' by auto. destruct (Nat.ltb_spec i n); [|lia]. reflexivity.
Qed.

(* a zero pivot makes the (non-empty) elimination loop panic *)
Lemma for_first {S} lo hi (body : nat -> S -> res S) (s : S) : (lo < hi)%nat ->
  for_ lo hi body s = (let* s' := body lo s in for_ (Datatypes.S lo) hi body s').
Proof.
  intros H. unfold for_. replace (hi - lo)%nat with (Datatypes.S (hi - Datatypes.S lo)) by lia.
  reflexivity.
Qed.

Lemma elim_rows_zero_pivot (m : matrix A) (x : list A) n k : wf m -> rows m = n -> cols m = n ->
  (k + 1 < n)%nat -> ent m k k = zero ->
  for_ (k + 1) n (elim_body k) (m, x) = Panic DivZero.
Proof.
  intros W Hr Hc Hk Z. rewrite for_first by lia. unfold elim_body at 1.
  rewrite !mget_ok by (auto; lia). cbn [bind]. rewrite (div_nf FL), Z.
  rewrite (proj2 (eqb_zero_true FL zero) eq_refl). reflexivity.
Qed.

End Gauss.
