(* Proofs/SolvePanic.v -- the only way solve_basic (Model/Solve.v) can panic on a well-formed,
   conformable, non-empty square system is a zero divisor: no index is ever out of range, no usize
   subtraction underflows, no guard fires.  With the magnitude laws a zero divisor means the matrix has
   no left inverse.  Package c01. *)
From Coq Require Import List Arith Lia Bool Ring Field.
From OV Require Import Base.Panic Base.Arith Model.Vector Model.Matrix Model.Solve
  Proofs.Matrix Proofs.SolveBase Proofs.SolveBack Proofs.SolveGauss Proofs.Solve Proofs.SolveComplete.
Import ListNotations.

(* a loop whose iterations either preserve the invariant or panic with kind pk does the same as a whole *)
Lemma for_from_ok_or {S} (I : nat -> S -> Prop) (pk : pkind) n lo (body : nat -> S -> res S) (s : S) :
  I lo s ->
  (forall i s, lo <= i < lo + n -> I i s ->
     (exists s', body i s = Ok s' /\ I (Datatypes.S i) s') \/ body i s = Panic pk) ->
  (exists s', for_from n lo body s = Ok s' /\ I (lo + n) s') \/ for_from n lo body s = Panic pk.
Proof.
  revert lo s. induction n as [|n IH]; intros lo s H0 Hstep; cbn.
  - left. exists s. split; auto. now rewrite Nat.add_0_r.
  - destruct (Hstep lo s) as [(s1 & E1 & H1)|E1]; [lia|auto| |].
    + rewrite E1. cbn.
      destruct (IH (Datatypes.S lo) s1 H1) as [(s2 & E2 & H2)|E2].
      * intros i s' Hi HI. apply Hstep; auto; lia.
      * left. exists s2. split; auto. now replace (lo + Datatypes.S n) with (Datatypes.S lo + n) by lia.
      * now right.
    + rewrite E1. now right.
Qed.

Lemma for_ok_or {S} (I : nat -> S -> Prop) (pk : pkind) lo hi (body : nat -> S -> res S) (s : S) :
  lo <= hi -> I lo s ->
  (forall i s, lo <= i < hi -> I i s ->
     (exists s', body i s = Ok s' /\ I (Datatypes.S i) s') \/ body i s = Panic pk) ->
  (exists s', for_ lo hi body s = Ok s' /\ I hi s') \/ for_ lo hi body s = Panic pk.
Proof.
  intros Hle H0 Hstep. unfold for_.
  destruct (for_from_ok_or I pk (hi - lo) lo body s H0) as [(s' & E & H)|E].
  - intros i s1 Hi. apply Hstep; lia.
  - left. exists s'. split; auto. now replace hi with (lo + (hi - lo)) by lia.
  - now right.
Qed.

Section PanicKinds.
Context {A : Arith}.
Variable FL : FieldLaws A.
Notation inv := (fl_inv A FL).

Definition shp (n : nat) (s : matrix A * list A) : Prop :=
  wf (fst s) /\ rows (fst s) = n /\ cols (fst s) = n /\ length (snd s) = n.

Lemma gauss_body_ok_or n k s : k + 1 < n -> shp n s ->
  (exists s', gauss_body k s = Ok s' /\ shp n s') \/ gauss_body k s = Panic DivZero.
Proof.
  intros Hk. destruct s as [m x]. intros (W & Hr & Hc & Lx). cbn [fst snd] in *.
  destruct (pivot_step m x n k W Hr Hc Lx) as (p & m1 & x1 & _ & _ & W1 & R1 & C1 & L1 & _ & _ & B); [lia|].
  rewrite B. destruct (eqb (ent m1 k k) zero) eqn:Ez.
  - right. apply (eqb_zero_true FL) in Ez. now apply (elim_rows_zero_pivot FL).
  - left. apply (eqb_zero_false FL) in Ez.
    destruct (elim_rows_ok FL m1 x1 n k W1 R1 C1 L1) as (m2 & x2 & E2 & W2 & R2 & C2 & L2 & _); [lia|auto|].
    exists (m2, x2). split; auto. repeat split; auto.
Qed.

Lemma backsolve_ok_or (m : matrix A) n (x : list A) : wf m -> rows m = n -> cols m = n -> 1 <= n -> length x = n ->
  (exists y, backsolve m x = Ok y) \/ backsolve m x = Panic DivZero.
Proof.
  intros W Hr Hc Hn Lx. rewrite (backsolve_nf m n W Hr Hc x Hn Lx). rewrite (div_nf FL).
  destruct (eqb (ent m (n - 1) (n - 1)) zero); [now right|]. cbn [bind].
  destruct (for_ok_or (fun (_ : nat) (X : list A) => length X = n) DivZero 2 (n + 1) (back_body m)
              (upd_list x (n - 1) (mul (vnth x (n - 1)) (inv (ent m (n - 1) (n - 1)))))) as [(y & E & _)|E].
  - lia.
  - now rewrite upd_list_length.
  - intros i X Hi LX.
    destruct (back_step FL m n W Hr Hc i X) as (X1 & L1 & _ & _ & B); [lia|auto|].
    rewrite B, (div_nf FL).
    destruct (eqb (ent m (n - i) (n - i)) zero); [now right|]. left. cbn [bind].
    eexists. split; [reflexivity|]. now rewrite upd_list_length.
  - left. eauto.
  - now right.
Qed.

Lemma solve_basic_panic_kind_lemma (M : matrix A) (b : list A) (k : pkind) :
  wf M -> rows M = cols M -> length b = rows M -> 1 <= rows M ->
  solve_basic M b = Panic k -> k = DivZero.
Proof.
  intros W Hsq Lb Hn E. rewrite (solve_guards M b Hsq Lb) in E. rewrite gauss_unfold in E.
  unfold usub in E. destruct (Nat.leb_spec 1 (rows M)); [|lia]. cbn [bind] in E.
  destruct (for_ok_or (fun (_ : nat) s => shp (rows M) s) DivZero 0 (rows M - 1) gauss_body (M, b))
    as [([m' x'] & Eg & W' & R' & C' & L')|Eg].
  - lia.
  - repeat split; auto.
  - intros i s Hi Hs. apply gauss_body_ok_or; auto. lia.
  - rewrite Eg in E. cbn [bind fst snd] in *.
    destruct (backsolve_ok_or m' (rows M) x' W' R' C' Hn L') as [(y & Eb)|Eb]; congruence.
  - rewrite Eg in E. cbn [bind] in E. congruence.
Qed.

(* with the magnitude laws, a panic certifies that the matrix has no left inverse *)
Lemma solve_basic_panic_singular_lemma (PL : PivLaws A) (M : matrix A) (b : list A) (k : pkind) :
  wf M -> rows M = cols M -> length b = rows M -> 1 <= rows M ->
  solve_basic M b = Panic k ->
  k = DivZero /\ ~ exists N : nat -> nat -> A, left_inverse (rows M) N (ent M).
Proof.
  intros W Hsq Lb Hn E. split.
  - apply (solve_basic_panic_kind_lemma M b k); auto.
  - intros LI. destruct (solve_basic_complete_lemma FL PL M b W Hsq Lb Hn LI) as (x & Ex). congruence.
Qed.

End PanicKinds.
