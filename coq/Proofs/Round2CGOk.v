(* Proofs/Round2CGOk.v -- package round2, C08: a concrete run for the non-vacuity examples of the drift theorems
   (Proofs/Round2CG.v).  Arithmetic: AFlx of Proofs/RoundFlx.v (every operation rounds to 53 bits, round-to-nearest-even)
   with the rounded square root; matrix: the 1x1 compressed-column matrix [[2]] and the model's own product [sp_mul];
   system 2 x = 2 from x0 = 0, tol = 1/2: the start-up test fails (resid = 1), one CG iteration runs
   (alpha = 1/2, x = 1, r = 0) and the answer is Ok(1).  All values met are small dyadic numbers, on which the
   rounding is the identity ([rndx_int], [rndx_half]), so every comparison of the run is decided. *)
From Coq Require Import ZArith List Arith Lia Bool Reals Lra Psatz.
From Flocq Require Import Core.
From OV Require Import Base.Panic Base.Arith Base.RoundModel Model.Vector Model.Sparse Model.Iter
  Proofs.Vector Proofs.Iter Proofs.SparseBase Proofs.RoundDot Proofs.RoundNorm2 Proofs.RoundFlx
  Proofs.RoundSparse Proofs.RoundSparseDense Proofs.Round2CGNorm Proofs.Round2CG Proofs.Round2CGMore.
Import ListNotations.
Local Open Scope R_scope.

(* ---------------------------------------------------------------- the run, for any arithmetic that is exact on the values met *)
Section Run.
Variables fadd fsub fmul fdiv : R -> R -> R.
Variable fsqrt : R -> R.
Hypothesis E1 : fmul 2 0 = 0.
Hypothesis E2 : fadd 0 0 = 0.
Hypothesis E3 : fsub 2 0 = 2.
Hypothesis E4 : fmul 2 2 = 4.
Hypothesis E5 : fadd 0 4 = 4.
Hypothesis E6 : fsqrt 4 = 2.
Hypothesis E7 : fdiv 2 2 = 1.
Hypothesis E8 : fmul 2 4 = 8.
Hypothesis E9 : fadd 0 8 = 8.
Hypothesis E10 : fdiv 4 8 = / 2.
Hypothesis E11 : fmul 2 (/ 2) = 1.
Hypothesis E12 : fadd 0 1 = 1.
Hypothesis E13 : fmul 4 (/ 2) = 2.
Hypothesis E14 : fsub 2 2 = 0.
Hypothesis E15 : fmul 0 0 = 0.
Hypothesis E16 : fsqrt 0 = 0.
Hypothesis E17 : fdiv 0 2 = 0.
Hypothesis E18 : fmul 1 1 = 1.
Hypothesis E19 : fsqrt 1 = 1.
Notation SAm := (SARm fadd fsub fmul fdiv fsqrt).
Notation AR := (ARm fadd fsub fmul fdiv).

Definition s1 : sparse AR := @mkS AR 1 1 1 [2] [0%nat] [0%nat; 1%nat].

Ltac vals := repeat (progress (rewrite ?Rabs_R0, ?(Rabs_pos_eq 2), ?(Rabs_pos_eq 1), ?(Rabs_pos_eq 4), ?(Rabs_pos_eq 8),
  ?E1, ?E2, ?E3, ?E4, ?E5, ?E6, ?E7, ?E8, ?E9, ?E10, ?E11, ?E12, ?E13, ?E14, ?E15, ?E16, ?E17, ?E18, ?E19 by lra)).

Lemma cg_run_1x1 : exists g, solve_cg (A := SAm) (sp_mul s1) 1 1 [2] [0] 2 (/ 2) = Ok (IOk 1, [1], g).
Proof using E1 E2 E3 E4 E5 E6 E7 E8 E9 E10 E11 E12 E13 E14 E15 E16 E17 E18 E19.
  eexists. unfold solve_cg. cbn [guards length Nat.eqb negb bind].
  unfold sp_mul at 1. cbn. vals.
  unfold nz. cbn [eqb zero one SA SARm ARm].
  destruct (Req_EM_T 2 0) as [Z|_]; [exfalso; lra|]. vals.
  destruct (Rle_dec 1 (/ 2)) as [Z|_]; [exfalso; lra|].
  destruct (Rle_dec 0 (/ 2)) as [_|Z]; [|exfalso; lra].
  cbn [bind]. reflexivity.
Qed.

End Run.

(* ---------------------------------------------------------------- the rounding arithmetic is exact on small dyadic numbers *)
Lemma rndx_fmt x : generic_format radix2 (FLX_exp 53) x -> rndx x = x.
Proof. intros H. unfold rndx. apply round_generic; [apply valid_rnd_N|exact H]. Qed.

Lemma rndx_int (z : Z) : (Z.abs z < 2 ^ 53)%Z -> rndx (IZR z) = IZR z.
Proof.
  intros H. apply rndx_fmt. apply generic_format_FLX. apply (FLX_spec radix2 53 (IZR z) (Float radix2 z 0)).
  - unfold F2R. cbn. ring.
  - cbn. exact H.
Qed.

Lemma rndx_half : rndx (/ 2) = / 2.
Proof.
  apply rndx_fmt. apply generic_format_FLX. apply (FLX_spec radix2 53 (/ 2) (Float radix2 1 (-1))).
  - unfold F2R. cbn. lra.
  - cbn. lia.
Qed.

Definition xsqrt (x : R) : R := rndx (R_sqrt.sqrt x).

Lemma xsqrt_ok x : 0 <= x -> exists d, Rabs d <= ux /\ xsqrt x = R_sqrt.sqrt x * (1 + d).
Proof. intros _. apply rndx_rel. Qed.

Ltac xval z := let H := fresh in
  assert (H : rndx (IZR z) = IZR z) by (apply rndx_int; cbn; lia); exact H.

Lemma x_vals :
  xmul 2 0 = 0 /\ xadd 0 0 = 0 /\ xsub 2 0 = 2 /\ xmul 2 2 = 4 /\ xadd 0 4 = 4 /\ xsqrt 4 = 2 /\ xdiv 2 2 = 1 /\
  xmul 2 4 = 8 /\ xadd 0 8 = 8 /\ xdiv 4 8 = / 2 /\ xmul 2 (/ 2) = 1 /\ xadd 0 1 = 1 /\ xmul 4 (/ 2) = 2 /\
  xsub 2 2 = 0 /\ xmul 0 0 = 0 /\ xsqrt 0 = 0 /\ xdiv 0 2 = 0 /\ xmul 1 1 = 1 /\ xsqrt 1 = 1.
Proof.
  unfold xmul, xadd, xsub, xdiv, xsqrt.
  replace (R_sqrt.sqrt 4) with 2 by (replace 4 with (2 * 2) by lra; rewrite sqrt_square; lra).
  rewrite sqrt_0, sqrt_1.
  replace (2 * 0) with 0 by lra. replace (0 + 0) with 0 by lra. replace (2 - 0) with 2 by lra.
  replace (2 * 2) with 4 by lra. replace (0 + 4) with 4 by lra. replace (2 / 2) with 1 by lra.
  replace (2 * 4) with 8 by lra. replace (0 + 8) with 8 by lra. replace (4 / 8) with (/ 2) by lra.
  replace (2 * / 2) with 1 by lra. replace (0 + 1) with 1 by lra. replace (4 * / 2) with 2 by lra.
  replace (2 - 2) with 0 by lra. replace (0 * 0) with 0 by lra. replace (0 / 2) with 0 by lra.
  replace (1 * 1) with 1 by lra.
  rewrite rndx_half.
  assert (R0 : rndx 0 = 0) by (apply (rndx_int 0); cbn; lia).
  assert (R1 : rndx 1 = 1) by (apply (rndx_int 1); cbn; lia).
  assert (R2 : rndx 2 = 2) by (apply (rndx_int 2); cbn; lia).
  assert (R4 : rndx 4 = 4) by (apply (rndx_int 4); cbn; lia).
  assert (R8 : rndx 8 = 8) by (apply (rndx_int 8); cbn; lia).
  rewrite R0, R1, R2, R4, R8. repeat split; reflexivity.
Qed.

Notation SFlx := (SARm xadd xsub xmul xdiv xsqrt).
Definition sx1 : sparse AFlx := s1 xadd xsub xmul xdiv.

Lemma cg_run_flx : exists g, solve_cg (A := SFlx) (sp_mul sx1) 1 1 [2] [0] 2 (/ 2) = Ok (IOk 1, [1], g).
Proof.
  destruct x_vals as (E1 & E2 & E3 & E4 & E5 & E6 & E7 & E8 & E9 & E10 & E11 & E12 & E13 & E14 & E15 & E16 & E17 & E18 & E19).
  exact (cg_run_1x1 xadd xsub xmul xdiv xsqrt E1 E2 E3 E4 E5 E6 E7 E8 E9 E10 E11 E12 E13 E14 E15 E16 E17 E18 E19).
Qed.

(* ---------------------------------------------------------------- the hypotheses of the drift theorems on this system *)
Lemma sx1_wf : wfS sx1.
Proof.
  unfold wfS, sx1, s1; cbn. repeat split; try reflexivity.
  - intros [|j] Hj; cbn; lia.
  - intros [|k] Hk; cbn; lia.
Qed.

Lemma sx1_entry : sp_rentry xadd xsub xmul xdiv sx1 0 0 = 2 /\ sp_rabs xadd xsub xmul xdiv sx1 0 0 = 2.
Proof. unfold sp_rentry, sp_rabs. cbn. rewrite (Rabs_pos_eq 2) by lra. split; lra. Qed.

Lemma sx1_norm (a : nat -> nat -> R) : a 0%nat 0%nat = 2 -> forall f, N2 1 (Ax 1 a f) <= 2 * N2 1 f.
Proof.
  intros Ha f. apply N2_le; [lra|]. intros [|k] Hk; [|lia].
  unfold Ax. cbn [Rsum]. rewrite Ha, Rplus_0_l, Rabs_mult, (Rabs_pos_eq 2) by lra. lra.
Qed.

Lemma ex_n_small : 2 * INR (1 + 1) * ux < 1.
Proof. cbn [Nat.add INR]. pose proof ux_small. lra. Qed.

Lemma ex_m_small : INR 1 * ux < 1.
Proof. cbn [INR]. pose proof ux_small. lra. Qed.

Lemma sx1_rows : forall i, (i < 1)%nat -> (length (row_entries sx1 i) <= 1)%nat.
Proof. intros [|i] Hi; [|lia]. cbn. lia. Qed.

Lemma sx1_MV : forall v : list R, len v = 1%nat -> exists w, sp_mul sx1 v = Ok w /\ len w = 1%nat /\
  N2 1 (fun i => vf w i - Ax 1 (sp_rentry xadd xsub xmul xdiv sx1) (vf v) i) <= (gam ux 1 * 2) * N2 1 (vf v).
Proof.
  apply (sparse_MV ux ux_range xadd xsub xmul xdiv xadd_ok xmul_ok xadd_0_mul sx1 1 1 2 sx1_wf eq_refl eq_refl
           sx1_rows ex_m_small ltac:(lra)).
  apply sx1_norm. apply sx1_entry.
Qed.

(* the side conditions of the allowance corollary on this system: eA = gam_1 * 2 <= c u NA with c = 2, and the
   amplification amp = kap (1+rho)/(1-rho)^2 is below 2 *)
Lemma ex_eA_c : gam ux 1 * 2 <= 2 * (ux * 2).
Proof.
  unfold gam. cbn [INR]. pose proof ux_range as U. pose proof ux_small as Sm.
  assert (H : 1 * ux / (1 - 1 * ux) <= 2 * ux).
  { apply (Rmult_le_reg_r (1 - 1 * ux)); [lra|]. unfold Rdiv. rewrite Rmult_assoc, Rinv_l by lra. nra. }
  lra.
Qed.

Lemma ex_amp : (4 * INR 1 + 1) * (1 + 2) * amp ux 1 1 <= 128 * INR (1 + 1).
Proof.
  pose proof ux_range as U. pose proof ux_small as Sm.
  assert (Hr : 0 <= rho ux <= / 1000).
  { unfold rho. split; [apply Rmult_le_pos; [lra|apply Rlt_le, Rinv_0_lt_compat; lra]|].
    apply (Rmult_le_reg_r (1 - ux)); [lra|]. unfold Rdiv. rewrite Rmult_assoc, Rinv_l by lra. lra. }
  assert (Hg : 0 <= gN ux 1 <= / 100).
  { unfold gN, gam. cbn [Nat.add INR]. split.
    - apply Rmult_le_pos; [lra|apply Rlt_le, Rinv_0_lt_compat; lra].
    - apply (Rmult_le_reg_r (1 - (1 + 1) * ux)); [lra|]. unfold Rdiv. rewrite Rmult_assoc, Rinv_l by lra. lra. }
  assert (Hk : 0 <= kap ux 1 <= 102 / 100).
  { unfold kap. split; [apply Rlt_le, Rinv_0_lt_compat; lra|].
    apply (Rmult_le_reg_r (1 - gN ux 1)); [lra|]. rewrite Rinv_l by lra. lra. }
  assert (HD : 99 / 100 <= (1 - rho ux) ^ (1 + 1)) by (cbn [Nat.add pow]; nra).
  assert (Hi : / (1 - rho ux) ^ (1 + 1) <= 100 / 99).
  { replace (100 / 99) with (/ (99 / 100)) by field. apply Rinv_le_contravar; lra. }
  assert (Pi : 0 < / (1 - rho ux) ^ (1 + 1)) by (apply Rinv_0_lt_compat; lra).
  assert (HN : 0 <= kap ux 1 * (1 + rho ux) <= 103 / 100) by nra.
  assert (HA : amp ux 1 1 <= 2).
  { unfold amp, Rdiv. apply Rle_trans with (103 / 100 * (100 / 99)); [|lra].
    apply Rmult_le_compat; lra. }
  cbn [INR Nat.add]. lra.
Qed.
