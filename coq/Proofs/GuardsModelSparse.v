(* Proofs/GuardsModelSparse.v -- C20 entry contracts of the sparse family: the five structural entries of
   src/sparse.rs (from_triplets, get, insert, multiply, transpose_multiply) on the model functions of Model/Sparse.v,
   and the rejection half of the four iterative solvers on Model/Iter.v (their acceptance half -- the only panic on
   conformable input is a division -- is in GuardsModelIter.v).  No law of the element type is used anywhere.
     from_triplets : the guard is evaluated per triplet, in column-sorted order: rejected iff SOME triplet is out of
                     range (then no matrix is built), accepted iff ALL are in range.
     get / insert  : the third guard `col_start.len() <= col` can only fire on a structure that violates the CSC
                     invariant col_start.len() = cols + 1 (wfS); the rejection half does not depend on it.
     insert, frame : for a structure without duplicate positions every other in-range position reads as before and
                     the addressed one reads the new value; the shape is kept (with or without duplicates). *)
From Coq Require Import ZArith Bool Lia ZifyBool List Arith Permutation.
From OV Require Import Base.Panic Base.Arith Model.Vector Model.Matrix Model.Sparse Model.Iter gen.GuardTable Model.Guards
  Proofs.Guards Proofs.GuardsModelBase Proofs.SparseBase Proofs.SparseMul Proofs.SparseWf Proofs.SparseHist
  Proofs.SparseViews Proofs.SparseFinal Proofs.Iter.
Import ListNotations.

Section SparseContracts.
Context {A : Arith}.
Notation T := (T A).
Notation sparse := (sparse A).
Notation triplet := (triplet A).
Implicit Types s : sparse.

Notation Zn n := (Z.of_nat n).
Notation Zl l := (Z.of_nat (length l)).

Ltac ndestr :=
  repeat match goal with
  | |- context [Nat.eqb ?a ?b] => destruct (Nat.eqb_spec a b)
  | |- context [Nat.ltb ?a ?b] => destruct (Nat.ltb_spec a b)
  | |- context [Nat.leb ?a ?b] => destruct (Nat.leb_spec a b)
  end; cbn [andb orb negb bind]; try reflexivity; try (exfalso; lia).

(* ---------------- from_triplets ---------------- *)
Notation g_triplet r c t := (g_sp_from_triplets (Zn r) (Zn c) (Zn (trow t)) (Zn (tcol t))).

Lemma drain_bad r c (L : list triplet) : forall d0,
  (exists t, In t L /\ ~ (trow t < r /\ tcol t < c)) -> foldM (drain_step r c) L d0 = Panic Guard.
Proof.
  induction L as [|u L IH]; intros d0 (t & Hin & Hbad); [destruct Hin|].
  cbn [foldM]. unfold drain_step at 1.
  destruct (Nat.leb_spec r (trow u)); [reflexivity|].
  destruct (Nat.leb_spec c (tcol u)); [reflexivity|]. cbn [bind].
  apply IH. destruct Hin as [<-|Hin]; [exfalso; apply Hbad; lia|]. eauto.
Qed.

Lemma rejects_sp_from_triplets r c (ts : list triplet) :
  (exists t, In t ts /\ g_triplet r c t = true) -> sp_from_triplets r c ts = Panic Guard.
Proof.
  intros (t & Hin & H). g_true H guard_sp_from_triplets_lemma ok_sp_from_triplets.
  unfold sp_from_triplets. rewrite drain_bad; [reflexivity|].
  exists t. split; [|lia]. apply (Permutation_in _ (Permutation_sym (sort_by_col_perm ts))). exact Hin.
Qed.
Lemma accepts_sp_from_triplets r c (ts : list triplet) :
  (forall t, In t ts -> g_triplet r c t = false) ->
  exists s, sp_from_triplets r c ts = Ok s /\ wfS s /\ sp_rows s = r /\ sp_cols s = c.
Proof.
  intros H. destruct (from_triplets_wf_lemma r c ts) as (s & E & W & R & C & _); [|eauto].
  intros t Hin. specialize (H t Hin).
  g_false H guard_sp_from_triplets_lemma ok_sp_from_triplets. lia.
Qed.

(* ---------------- get ---------------- *)
Lemma rejects_sp_get s row col :
  g_sp_get (Zn (sp_rows s)) (Zn (sp_cols s)) (Zn row) (Zn col) = true -> sp_get s row col = Panic Guard.
Proof. intros H. g_true H guard_sp_get_lemma ok_sp_get. unfold sp_get. ndestr. Qed.
Lemma accepts_sp_get s row col : wfS s ->
  g_sp_get (Zn (sp_rows s)) (Zn (sp_cols s)) (Zn row) (Zn col) = false -> exists o, sp_get s row col = Ok o.
Proof. intros W H. g_false H guard_sp_get_lemma ok_sp_get. apply sp_get_total; auto; lia. Qed.

(* ---------------- insert ---------------- *)
Lemma rejects_sp_insert s row col v :
  g_sp_insert (Zn (sp_rows s)) (Zn (sp_cols s)) (Zn row) (Zn col) = true -> sp_insert s row col v = Panic Guard.
Proof. intros H. g_true H guard_sp_insert_lemma ok_sp_insert. unfold sp_insert. ndestr. Qed.
Lemma accepts_sp_insert s row col v : wfS s ->
  g_sp_insert (Zn (sp_rows s)) (Zn (sp_cols s)) (Zn row) (Zn col) = false ->
  exists s', sp_insert s row col v = Ok s' /\ wfS s' /\ sp_rows s' = sp_rows s /\ sp_cols s' = sp_cols s.
Proof.
  intros W H. g_false H guard_sp_insert_lemma ok_sp_insert.
  destruct (sp_step_total s (SInsert row col v) W) as (s' & E & W' & D).
  { cbn [ops_ok]. repeat split; lia. }
  cbn [sp_step dims_after] in *. injection D as R C. eauto.
Qed.
Lemma frame_sp_insert s row col v s' : wfS s -> NoDupKeys s -> sp_insert s row col v = Ok s' ->
  wfS s' /\ NoDupKeys s' /\ sp_rows s' = sp_rows s /\ sp_cols s' = sp_cols s /\
  sp_get s' row col = Ok (Some v) /\
  forall i j, i < sp_rows s -> j < sp_cols s -> (i, j) <> (row, col) -> sp_get s' i j = sp_get s i j.
Proof.
  intros W ND E.
  assert (Hr : row < sp_rows s /\ col < sp_cols s).
  { unfold sp_insert in E. destruct (Nat.leb_spec (sp_rows s) row); [discriminate|].
    destruct (Nat.leb_spec (sp_cols s) col); [discriminate|]. lia. }
  destruct (sp_step_refines s (SInsert row col v) W ND) as (s1 & E1 & W1 & ND1 & D & Ag).
  { cbn [ops_ok]. tauto. }
  cbn [sp_step dims_after spec_step] in *. rewrite E1 in E. injection E as <-. injection D as R C.
  split; [exact W1|]. split; [exact ND1|]. split; [exact R|]. split; [exact C|]. split.
  - specialize (Ag row col). unfold absS in Ag. rewrite Ag by lia. now rewrite !Nat.eqb_refl.
  - intros i j Hi Hj Hne. specialize (Ag i j). unfold absS in Ag. rewrite Ag by lia.
    destruct (Nat.eqb_spec i row); destruct (Nat.eqb_spec j col); cbn [andb]; try reflexivity. subst; contradiction.
Qed.

(* ---------------- multiply / transpose_multiply ---------------- *)
Lemma rejects_sp_multiply s (x : list T) :
  g_sp_multiply (Zn (sp_rows s)) (Zn (sp_cols s)) (Zl x) = true -> sp_mul s x = Panic Guard.
Proof. intros H. g_true H guard_sp_multiply_lemma ok_sp_multiply. unfold sp_mul. ndestr. Qed.
Lemma accepts_sp_multiply s (x : list T) : wfS s ->
  g_sp_multiply (Zn (sp_rows s)) (Zn (sp_cols s)) (Zl x) = false ->
  exists y, sp_mul s x = Ok y /\ length y = sp_rows s.
Proof.
  intros W H. g_false H guard_sp_multiply_lemma ok_sp_multiply.
  rewrite (sp_mul_fold s x W) by lia. eexists; split; [reflexivity|].
  now rewrite scat_length, repeat_length.
Qed.

Lemma rejects_sp_transpose_multiply s (x : list T) :
  g_sp_transpose_multiply (Zn (sp_rows s)) (Zn (sp_cols s)) (Zl x) = true -> sp_tmul s x = Panic Guard.
Proof. intros H. g_true H guard_sp_transpose_multiply_lemma ok_sp_transpose_multiply. unfold sp_tmul. ndestr. Qed.
Lemma accepts_sp_transpose_multiply s (x : list T) : wfS s ->
  g_sp_transpose_multiply (Zn (sp_rows s)) (Zn (sp_cols s)) (Zl x) = false ->
  exists y, sp_tmul s x = Ok y /\ length y = sp_cols s.
Proof.
  intros W H. g_false H guard_sp_transpose_multiply_lemma ok_sp_transpose_multiply.
  rewrite (sp_tmul_fold s x W) by lia. eexists; split; [reflexivity|].
  now rewrite scat_length, repeat_length.
Qed.

End SparseContracts.

(* ---------------- the four iterative solvers: rejection ---------------- *)
Section SolverRejects.
Context {S : SArith}.
Notation F := (T (SA S)).
Notation sparse := (sparse (SA S)).
Implicit Types s : sparse.
Notation Zn n := (Z.of_nat n).
Notation Zl l := (Z.of_nat (length l)).

Lemma guards_reject rows cols (b x : list F) :
  ~ (rows = length b /\ rows = cols /\ length b = length x) -> guards rows cols b x = Panic Guard.
Proof.
  intros H. unfold guards.
  destruct (Nat.eqb_spec rows (length b)); [|reflexivity].
  destruct (Nat.eqb_spec rows cols); [|reflexivity].
  destruct (Nat.eqb_spec (length b) (length x)); [|reflexivity]. tauto.
Qed.

(* the three size guards are the first statements of every solver: the operator (mulA, mulAT) is never called, so
   these hold for ANY operator -- in particular for the CSC products of the receiver, well-formed or not *)
Lemma rejects_sp_solve_cg mulA rows cols (b x : list F) n tol :
  g_sp_solve_cg (Zn rows) (Zn cols) (Zl b) (Zl x) = true -> solve_cg mulA rows cols b x n tol = Panic Guard.
Proof.
  intros H. g_true H guard_sp_solve_cg_lemma ok_sp_solve_cg.
  unfold solve_cg. rewrite guards_reject by lia. reflexivity.
Qed.
Lemma rejects_sp_solve_bicgstab mulA rows cols (b x : list F) n tol :
  g_sp_solve_bicgstab (Zn rows) (Zn cols) (Zl b) (Zl x) = true -> solve_bicgstab mulA rows cols b x n tol = Panic Guard.
Proof.
  intros H. g_true H guard_sp_solve_bicgstab_lemma ok_sp_solve_bicgstab.
  unfold solve_bicgstab. rewrite guards_reject by lia. reflexivity.
Qed.
Lemma rejects_sp_solve_qmr mulA mulAT rows cols (b x : list F) n tol :
  g_sp_solve_qmr (Zn rows) (Zn cols) (Zl b) (Zl x) = true -> solve_qmr mulA mulAT rows cols b x n tol = Panic Guard.
Proof.
  intros H. g_true H guard_sp_solve_qmr_lemma ok_sp_solve_qmr.
  unfold solve_qmr. rewrite guards_reject by lia. reflexivity.
Qed.

(* solve_bicg: the size guards first (any operator); the `itol` test comes after the first product A*x0 and the
   subtraction b - A*x0, so for a bad `itol` with conformable sizes the rejection is stated for the CSC product of a
   well-formed receiver (for which that product returns) *)
Lemma rejects_sp_solve_bicg s itol (b x : list F) n tol : wfS s ->
  g_sp_solve_bicg (Zn (sp_rows s)) (Zn (sp_cols s)) (Zl b) (Zl x) (Zn itol) = true ->
  solve_bicg (sp_mul s) (sp_tmul s) (sp_rows s) (sp_cols s) itol b x n tol = Panic Guard.
Proof.
  intros W H. g_true H guard_sp_solve_bicg_lemma ok_sp_solve_bicg.
  unfold solve_bicg, bicg_start.
  destruct (guards (sp_rows s) (sp_cols s) b x) as [[]|k] eqn:G.
  - apply guards_Ok in G as (G1 & G2 & G3). cbn [bind].
    destruct (accepts_sp_multiply s x W) as (ax & E & L).
    { apply guard_sp_multiply_lemma; unfold ok_sp_multiply; lia. }
    rewrite E. cbn [bind]. unfold vsub.
    destruct (Nat.eqb_spec (length b) (length ax)); [|lia]. cbn [bind].
    destruct (Nat.eqb_spec itol 1); [lia|]. destruct (Nat.eqb_spec itol 2); [lia|]. reflexivity.
  - unfold guards in G.
    destruct (Nat.eqb_spec (sp_rows s) (length b)); [|cbn in G; now injection G as <-].
    destruct (Nat.eqb_spec (sp_rows s) (sp_cols s)); [|cbn in G; now injection G as <-].
    destruct (Nat.eqb_spec (length b) (length x)); [discriminate|cbn in G; now injection G as <-].
Qed.

End SolverRejects.
