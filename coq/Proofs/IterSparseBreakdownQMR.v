(* Proofs/IterSparseBreakdownQMR.v -- round two, package iter2: the mechanism of the open finding
   solve_qmr/breakdown as a theorem, over the real numbers with the exact square root.
   If the initial residual r0 = b - A x0 is a left eigenvector of A (A^T r0 = lambda r0, lambda <> 0, r0 <> 0)
   and the start-up test does not accept, solve_qmr performs exactly ONE step: either that step's test
   accepts (Ok 1) or the second iteration leaves through `rho == 0` or `xi == 0` -- the left Lanczos vector
   w~ = A^T q - beta w vanishes identically -- and Err is returned.  No tolerance, budget or right-hand
   side changes this.  ([[2,-1],[0,1]] x = (2,-2), x0 = 0 is an instance: corpus/C09/kf_qmr_breakdown.json.) *)
From Coq Require Import List Arith Lia Bool Reals Lra.
From OV Require Import Base.Panic Base.Arith Model.Vector Model.Matrix Model.Sparse Model.Iter Proofs.SparseBase Proofs.SparseMul
  Proofs.Iter Proofs.IterField Proofs.IterR
  Proofs.IterSparse Proofs.IterSparseR Proofs.IterSparseBreakdown Proofs.IterCGVec Proofs.IterCGR.
Import ListNotations.
Local Open Scope R_scope.

Lemma vdiv_R (v : list R) c : c <> 0 -> @vdiv AR v c = Ok (@vscale AR v (/ c)).
Proof.
  intros Hc. unfold vdiv, vscale. induction v as [|x v IH]; [reflexivity|].
  cbn [mapM map]. rewrite IH. cbn [div AR]. unfold R_div, R_eqb.
  destruct (Req_EM_T c 0); [contradiction|]. reflexivity.
Qed.

Lemma R_eqb_false (x : R) : x <> 0 -> R_eqb x 0 = false.
Proof. intros H. unfold R_eqb. destruct (Req_EM_T x 0); [contradiction | reflexivity]. Qed.
Lemma R_eqb_true (x : R) : x = 0 -> R_eqb x 0 = true.
Proof. intros ->. unfold R_eqb. destruct (Req_EM_T 0 0); [reflexivity | contradiction]. Qed.

Lemma R_div_ok' (x y : R) : y <> 0 -> @div AR x y = Ok (x * / y).
Proof. intros H. cbn [div AR]. unfold R_div. now rewrite R_eqb_false. Qed.

Lemma R_div_ok2 (x y : R) : y <> 0 -> R_div x y = Ok (x * / y).
Proof. intros H. unfold R_div. now rewrite R_eqb_false. Qed.
Lemma dotR_ok (u v : list R) : length u = length v -> @dot AR u v = Ok (@dot_raw AR u v).
Proof. exact (@dot_ok SAR u v). Qed.
Lemma vsubR_ok (u v : list R) : length u = length v -> @vsub AR u v = Ok (@zipw AR Rminus u v).
Proof. intros H. unfold vsub. cbn [T AR] in *. rewrite H, Nat.eqb_refl. reflexivity. Qed.
Lemma vaddR_ok (u v : list R) : length u = length v -> @vadd AR u v = Ok (@zipw AR Rplus u v).
Proof. intros H. unfold vadd. cbn [T AR] in *. rewrite H, Nat.eqb_refl. reflexivity. Qed.
Lemma vscale_lR_len c (u : list R) : length (@vscale_l AR c u) = length u.
Proof. apply map_length. Qed.

(* x*lam/nu - lam*(x/nu) = 0 entrywise *)
Lemma left_vector_vanishes (r : list R) lam c :
  @zipw AR Rminus (@vscale AR (@vscale AR r lam) c) (@vscale_l AR lam (@vscale AR r c)) = repeat 0 (length r).
Proof.
  induction r as [|x r IH]; [reflexivity|].
  change (@zipw AR Rminus (@vscale AR (@vscale AR (x :: r) lam) c) (@vscale_l AR lam (@vscale AR (x :: r) c)))
    with ((x * lam * c - lam * (x * c)) :: @zipw AR Rminus (@vscale AR (@vscale AR r lam) c) (@vscale_l AR lam (@vscale AR r c))).
  rewrite IH. cbn [length repeat]. f_equal. ring.
Qed.

Section QMRReal.
Variables (n : nat) (mulA mulAT : list R -> res (list R)).
Hypothesis LO : @LinOp AR n mulA.
Hypothesis LOT : @LinOp AR n mulAT.
Hypothesis ADJ : @AdjOp AR n mulA mulAT.

Notation FLR := AR_FieldLaws.

Theorem qmr_left_eigenvector_breakdown (b x0 ax : list R) lam max tol :
  length b = n -> length x0 = n -> mulA x0 = Ok ax ->
  let r0 := @zipw AR Rminus b ax in
  mulAT r0 = Ok (@vscale AR r0 lam) -> lam <> 0 -> r0 <> repeat 0 n ->
  (2 <= max)%nat ->
  exists res x g, @solve_qmr SAR mulA mulAT n n b x0 max tol = Ok (res, x, g) /\
    (res = IOk 0%nat \/ res = IOk 1%nat \/ (exists e, res = IErr e /\ (g_exit g = 20%nat \/ g_exit g = 21%nat))).
Proof.
  intros Hb Hx Eax r0 Eeig Hlam Hr0ne Hmax.
  assert (Hax : length ax = n) by (destruct (@lo_ok AR n mulA LO x0 Hx) as (w & Ew & Hw); rewrite Eax in Ew; injection Ew as ->; exact Hw).
  assert (Hr0 : length r0 = n).
  { unfold r0. apply eq_trans with (length b); [|exact Hb]. apply (@zipw_length SAR). exact (eq_trans Hb (eq_sym Hax)). }
  assert (Hzl := @zeros_length SAR n).
  pose proof (nz_R_pos _ (norm2_R_nonneg b)) as Hnb.
  set (nb := @nz SAR (@norm2 SAR b)) in *.
  assert (Hnbnz : nb <> 0) by lra.
  (* the size of r0 *)
  set (rho0 := @dot_raw AR r0 r0).
  assert (Hrho0 : 0 < rho0).
  { pose proof (dot_self_nonneg r0) as Hge. fold rho0 in Hge.
    destruct (Req_EM_T rho0 0) as [E|E]; [|lra]. exfalso. apply Hr0ne.
    rewrite <- Hr0. now apply dot_self_zero. }
  set (nu := @norm2 SAR r0).
  assert (Hnu : nu * nu = rho0) by (unfold nu; rewrite norm2_dot; fold rho0; apply sqrt_sqrt; lra).
  assert (Hnupos : 0 < nu).
  { unfold nu. rewrite norm2_dot. fold rho0. now apply sqrt_lt_R0. }
  assert (Hnunz : nu <> 0) by lra.
  (* start-up *)
  unfold solve_qmr. rewrite (@guards_pass SAR n b x0 Hb Hx), Eax. cbn [bind].
  assert (Ev : @vsub SAR b ax = Ok r0).
  { unfold vsub. cbn [T AR SA SAR] in *. rewrite Hb, Hax, Nat.eqb_refl. reflexivity. }
  rewrite Ev. cbn [bind]. fold nb. rewrite (R_div_ok' _ nb Hnbnz). cbn [bind]. cbv zeta.
  match goal with |- context [if ?c then _ else _] => destruct c end.
  { do 3 eexists. split; [reflexivity|]. now left. }
  fold nu.
  destruct max as [|[|max]]; try lia. cbn [iloop].
  (* ---- first iteration ---- *)
  set (u := @vscale AR r0 (/ nu)).
  assert (Hu : length u = n) by (unfold u, vscale; rewrite map_length; exact Hr0).
  destruct (@lo_ok AR n mulA LO r0 Hr0) as (ar0 & Ear0 & Har0).
  assert (Eau : mulA u = Ok (@vscale AR ar0 (/ nu))) by (apply (@lo_scale AR n mulA LO); auto).
  set (au := @vscale AR ar0 (/ nu)) in *.
  assert (Hau : length au = n) by (unfold au, vscale; rewrite map_length; exact Har0).
  assert (Eatu : mulAT u = Ok (@vscale AR (@vscale AR r0 lam) (/ nu))) by (apply (@lo_scale AR n mulAT LOT); auto).
  set (delta := @dot_raw AR u u).
  assert (Hdelta : delta = rho0 * (/ nu * / nu)).
  { unfold delta, u. rewrite (@dot_raw_scale_l SAR FLR), (@dot_raw_scale_r SAR FLR). unfold rho0. cbn [mul add sub SA SAR AR T]. change (@dot_raw SAR) with (@dot_raw AR). ring. }
  assert (Hadj : @dot_raw AR r0 ar0 = rho0 * lam).
  { rewrite (@ao_adj AR n mulA mulAT ADJ r0 r0 ar0 _ Hr0 Hr0 Ear0 Eeig).
    rewrite (@dot_raw_scale_l SAR FLR). reflexivity. }
  set (ep := @dot_raw AR u au).
  assert (Hep : ep = lam * delta).
  { unfold ep, u, au. rewrite (@dot_raw_scale_l SAR FLR), (@dot_raw_scale_r SAR FLR). cbn [SA SAR]. rewrite Hadj, Hdelta. cbn [mul add sub SA SAR AR T]. ring. }
  assert (Hdeltanz : delta <> 0).
  { rewrite Hdelta. apply Rmult_integral_contrapositive_currified; [lra|].
    apply Rmult_integral_contrapositive_currified; apply Rinv_neq_0_compat; exact Hnunz. }
  assert (Hepnz : ep <> 0) by (rewrite Hep; apply Rmult_integral_contrapositive_currified; auto).
  assert (Hbeta : ep * / delta = lam) by (rewrite Hep; field; exact Hdeltanz).
  unfold qmr_body at 1. cbn [q_x q_r q_vt q_y q_wt q_z q_p q_q q_d q_s q_rho q_xi q_gamma q_eta q_theta q_ep q_resid q_X].
  cbv zeta. cbn [SA SAR eqb div AR zero one mul add sub neg T Base.Arith.sqrt].
  rewrite (R_eqb_false nu Hnunz).
  rewrite !(vdiv_R r0 nu Hnunz). cbn [bind]. fold u.
  rewrite (dotR_ok u u eq_refl). cbn [bind]. fold delta.
  rewrite (R_eqb_false delta Hdeltanz).
  cbn [Nat.ltb Nat.leb bind]. rewrite Eau. cbn [bind].
  rewrite (dotR_ok u au (eq_trans Hu (eq_sym Hau))). cbn [bind]. fold ep.
  rewrite (R_eqb_false ep Hepnz).
  rewrite (R_div_ok2 ep delta Hdeltanz). cbn [bind]. rewrite Hbeta.
  rewrite (R_eqb_false lam Hlam).
  assert (Hlu : length (@vscale_l AR lam u) = n) by exact (eq_trans (vscale_lR_len lam u) Hu).
  rewrite (vsubR_ok au (@vscale_l AR lam u) (eq_trans Hau (eq_sym Hlu))). cbn [bind]. rewrite Eatu. cbn [bind].
  assert (Ewt : @vsub AR (@vscale AR (@vscale AR r0 lam) (/ nu)) (@vscale_l AR lam u) = Ok (repeat 0 n)).
  { rewrite vsubR_ok.
    - f_equal. unfold u. rewrite <- Hr0. apply left_vector_vanishes.
    - assert (Hl1 : length (@vscale AR (@vscale AR r0 lam) (/ nu)) = n) by (unfold vscale; rewrite !map_length; exact Hr0).
      exact (eq_trans Hl1 (eq_sym Hlu)). }
  rewrite Ewt. cbn [bind].
  set (vt1 := @zipw AR Rminus au (@vscale_l AR lam u)).
  set (rho1 := @norm2 SAR vt1).
  assert (Hxi1 : @norm2 SAR (repeat 0 n) = 0) by exact (@norm2_zeros SAR FLR SAR_SqrtLaws n).
  rewrite Hxi1.
  assert (H1lam : 1 * lam <> 0) by lra.
  rewrite (R_div_ok2 rho1 (1 * lam) H1lam). cbn [bind].
  set (theta := rho1 * / (1 * lam)).
  assert (Hsq : R_sqrt.sqrt (1 + theta * theta) <> 0).
  { apply Rgt_not_eq. apply sqrt_lt_R0. nra. }
  rewrite (R_div_ok2 1 _ Hsq). cbn [bind].
  set (gamma := 1 * / R_sqrt.sqrt (1 + theta * theta)).
  assert (Hgam : gamma <> 0).
  { unfold gamma. apply Rmult_integral_contrapositive_currified; [lra | now apply Rinv_neq_0_compat]. }
  rewrite (R_eqb_false gamma Hgam).
  assert (Hd3 : lam * 1 * 1 <> 0) by lra.
  rewrite (R_div_ok2 _ (lam * 1 * 1) Hd3). cbn [bind].
  set (eta := _ * / (lam * 1 * 1)).
  assert (Heu : length (@vscale_l AR eta u) = n) by exact (eq_trans (vscale_lR_len eta u) Hu).
  assert (Heau : length (@vscale_l AR eta au) = n) by exact (eq_trans (vscale_lR_len eta au) Hau).
  rewrite (vaddR_ok x0 (@vscale_l AR eta u) (eq_trans Hx (eq_sym Heu))). cbn [bind].
  rewrite (vsubR_ok r0 (@vscale_l AR eta au) (eq_trans Hr0 (eq_sym Heau))). cbn [bind].
  rewrite (R_div_ok2 _ nb Hnbnz). cbn [bind].
  match goal with |- context [if ?c then _ else _] => destruct c end.
  { cbn [bind]. do 3 eexists. split; [reflexivity|]. right. now left. }
  cbn [bind iloop].
  (* ---- second iteration: rho == 0 or xi == 0 ---- *)
  unfold qmr_body. cbn [q_x q_r q_vt q_y q_wt q_z q_p q_q q_d q_s q_rho q_xi q_gamma q_eta q_theta q_ep q_resid q_X].
  cbv zeta. cbn [SA SAR eqb div AR zero one mul add sub neg T Base.Arith.sqrt].
  destruct (R_eqb rho1 0).
  - cbn [bind]. unfold qmr_exit. do 3 eexists. split; [reflexivity|]. right. right. eexists. split; [reflexivity|]. now left.
  - rewrite (R_eqb_true 0 eq_refl).
    cbn [bind]. unfold qmr_exit. do 3 eexists. split; [reflexivity|]. right. right. eexists. split; [reflexivity|]. now right.
Qed.

End QMRReal.

(* the same for the implementation's own matrix type: every well-formed square real CSC storage *)
Theorem qmr_left_eigenvector_breakdown_sparse (s : sparse AR) (b x0 : list R) lam max tol :
  wfS s -> sp_rows s = sp_cols s -> length b = sp_rows s -> length x0 = sp_rows s ->
  let r0 := @zipw AR Rminus b (@sp_apply AR s x0) in
  @sp_tapply AR s r0 = @vscale AR r0 lam -> lam <> 0 -> r0 <> repeat 0 (sp_rows s) ->
  (2 <= max)%nat ->
  exists res x g, @run_sparse SAR QMR s b x0 max tol = Ok (res, x, g) /\
    (res = IOk 0%nat \/ res = IOk 1%nat \/ (exists e, res = IErr e /\ (g_exit g = 20%nat \/ g_exit g = 21%nat))).
Proof.
  intros Hwf Hsq Hb Hx r0 Eeig Hlam Hne Hmax.
  pose proof (sp_mul_LinOp AR_RingLaws s (sp_rows s) Hwf eq_refl (eq_sym Hsq)) as LO.
  pose proof (sp_tmul_LinOp AR_RingLaws s (sp_rows s) Hwf eq_refl (eq_sym Hsq)) as LOT.
  pose proof (sp_mul_AdjOp AR_RingLaws s (sp_rows s) Hwf eq_refl (eq_sym Hsq)) as ADJ.
  assert (Eax : @sp_mul AR s x0 = Ok (@sp_apply AR s x0)).
  { apply (sp_mul_spec_lemma AR_RingLaws); auto. exact (eq_trans Hx Hsq). }
  assert (Hr0 : length r0 = sp_rows s).
  { unfold r0. apply eq_trans with (length b); [|exact Hb]. apply (@zipw_length SAR).
    unfold sp_apply. rewrite dmulv_length. exact Hb. }
  assert (Eeig' : @sp_tmul AR s r0 = Ok (@vscale AR r0 lam)).
  { rewrite <- Eeig. apply (sp_tmul_spec_lemma AR_RingLaws); auto. }
  destruct (qmr_left_eigenvector_breakdown (sp_rows s) (@sp_mul AR s) (@sp_tmul AR s) LO LOT ADJ
              b x0 (@sp_apply AR s x0) lam max tol Hb Hx Eax Eeig' Hlam Hne Hmax) as (res & x & g & H & Hcases).
  exists res, x, g. split; [|exact Hcases].
  assert (E : forall c, c = sp_rows s ->
            @solve_qmr SAR (@sp_mul AR s) (@sp_tmul AR s) (sp_rows s) c b x0 max tol = Ok (res, x, g)) by (intros c ->; exact H).
  exact (E _ (eq_sym Hsq)).
Qed.
