(* Proofs/BandedEdit.v -- the editing operations of the public API on the dense twin:
   Banded::new, fill, fill_band, index_mut. *)
From Coq Require Import List Arith Lia ZArith Bool.
From OV Require Import Base.Panic Base.Arith Model.Vector Model.Matrix Model.Banded
                       Proofs.Banded Proofs.BandedLU Proofs.BandedTotal Proofs.BandedHist.
Import ListNotations.
Local Open Scope nat_scope.

Section Edit.
Context {A : Arith}.
Notation T := (T A).
Notation matrix := (matrix A).
Notation banded := (banded A).

Lemma wfB_okM (B : banded) : wfB B -> okM (bn B) (bm1 B + bm2 B + 1) (compact B).
Proof. intros (Hw & Hr & Hc). split; auto. unfold wfM in Hw. now rewrite Hw, Hr, Hc. Qed.

Lemma cslot_mat_at (B : banded) i s : cslot B i s = mat_at (compact B) (bm1 B + bm2 B + 1) i s.
Proof. reflexivity. Qed.

(* Banded::new(n, m1, m2, x): every in-band entry is x *)
Lemma band_new_dense n m1 m2 (x : T) i j :
  i < n -> j < n -> dense_entry (band_new n m1 m2 x) i j = if in_band m1 m2 i j then x else zero.
Proof.
  intros Hi Hj. unfold dense_entry, band_new; cbn [bm1 bm2]. destruct (in_band m1 m2 i j) eqn:E; auto.
  unfold cslot; cbn [bm1 bm2 compact buf mat_new].
  rewrite (nth_indep _ zero x); [apply nth_repeat|].
  rewrite repeat_length. apply flat_lt; auto. now apply (band_slot_range m1 m2).
Qed.

(* index_mut: B[(i,j)] = x changes the entry (i,j) of the dense twin and nothing else *)
Lemma band_set_dense (B : banded) i j (x : T) :
  wfB B -> i < bn B -> j < bn B -> in_band (bm1 B) (bm2 B) i j = true ->
  exists B', band_set B i j x = Ok B' /\ wfB B' /\ bn B' = bn B /\ bm1 B' = bm1 B /\ bm2 B' = bm2 B /\
    forall i' j', i' < bn B -> j' < bn B ->
      dense_entry B' i' j' = if (i' =? i) && (j' =? j) then x else dense_entry B i' j'.
Proof.
  intros Hwf Hi Hj Hb. unfold band_set, in_band in *. apply negb_true_iff in Hb. rewrite Hb.
  pose proof (band_slot_range (bm1 B) (bm2 B) i j) as Hs. unfold in_band in Hs. rewrite Hb in Hs. specialize (Hs eq_refl).
  destruct (mset_total (bn B) (bm1 B + bm2 B + 1) (compact B) i (band_slot (bm1 B) i j) x) as (c & Ec & Hc);
    auto using wfB_okM.
  rewrite Ec. cbn [bind]. eexists; split; [reflexivity|].
  pose proof (mset_shape _ _ _ _ _ Ec) as Hsh.
  split; [now apply wfB_with_compact|]. cbn [with_compact bn bm1 bm2]. repeat split; auto.
  intros i' j' Hi' Hj'. unfold dense_entry; cbn [with_compact bm1 bm2].
  destruct (in_band (bm1 B) (bm2 B) i' j') eqn:E.
  - rewrite !cslot_mat_at; cbn [with_compact bm1 bm2 compact].
    apply (mset_Ok_inv _ _ (bm1 B + bm2 B + 1)) in Ec as (_ & _ & Hc'); [| apply (wfB_okM B Hwf) | auto].
    rewrite Hc' by now apply (band_slot_range (bm1 B) (bm2 B)).
    destruct (Nat.eqb_spec i' i) as [->|]; cbn [andb]; auto.
    destruct (Nat.eqb_spec j' j) as [->|Hne]; [now rewrite Nat.eqb_refl|].
    destruct (Nat.eqb_spec (band_slot (bm1 B) i j') (band_slot (bm1 B) i j)) as [Es|]; auto.
    exfalso. apply Hne. apply (band_slot_inj (bm1 B) (bm2 B) i); auto. unfold in_band. now rewrite Hb.
  - destruct (Nat.eqb_spec i' i) as [->|]; cbn [andb]; auto.
    destruct (Nat.eqb_spec j' j) as [->|]; auto. unfold in_band in E. rewrite Hb in E. discriminate.
Qed.

(* fill_col on a work matrix: column c of every row *)
Lemma fill_col_spec n mm (m : matrix) c (x : T) :
  okM n mm m -> rows m = n -> c < mm ->
  exists m', fill_col m c x = Ok m' /\ same_shape m m' /\
    forall i s, s < mm -> mat_at m' mm i s = if (i <? n) && (s =? c) then x else mat_at m mm i s.
Proof.
  intros Hm Hr Hc. unfold fill_col. rewrite (proj1 Hm).
  replace (mm <=? c) with false by (symmetry; apply Nat.leb_gt; lia). rewrite Hr.
  destruct (for_inv (fun k (a : matrix) => okM n mm a /\ same_shape m a /\
              forall i s, s < mm -> mat_at a mm i s = if (i <? k) && (s =? c) then x else mat_at m mm i s)
              0 n (fun i a => mset a i c x) m) as (m' & E & _ & Hsh & Hel); [lia| | |eauto].
  - split; auto. split; [apply same_shape_refl|]. intros i s Hs. reflexivity.
  - intros k a Hk (Ha & Hsh & Hel).
    destruct (mset_total n mm a k c x) as (a' & Ea & Ha'); auto; try lia.
    exists a'. split; auto. split; auto. split.
    + eapply same_shape_trans; eauto. eapply mset_shape; eauto.
    + apply (mset_Ok_inv _ _ mm) in Ea as (_ & _ & Hel'); [|apply Ha|auto].
      intros i s Hs. rewrite Hel', Hel by auto.
      destruct (Nat.eqb_spec i k) as [->|Hne]; destruct (Nat.eqb_spec s c) as [->|]; cbn [andb];
        rewrite ?andb_false_r; auto.
      * replace (k <? S k) with true by (symmetry; apply Nat.ltb_lt; lia). reflexivity.
      * destruct (Nat.ltb_spec i k); destruct (Nat.ltb_spec i (S k)); auto; lia.
Qed.

(* fill_band(b, x): the diagonal j - i = b of the dense twin; a band outside -m1 .. m2 is refused *)
Lemma band_fill_band_dense (B : banded) (b : Z) (x : T) :
  wfB B ->
  if ((b <? - Z.of_nat (bm1 B))%Z || (Z.of_nat (bm2 B) <? b)%Z) then band_fill_band B b x = Panic Guard
  else exists B', band_fill_band B b x = Ok B' /\ wfB B' /\ bn B' = bn B /\ bm1 B' = bm1 B /\ bm2 B' = bm2 B /\
    forall i j, i < bn B -> j < bn B ->
      dense_entry B' i j =
        if in_band (bm1 B) (bm2 B) i j && (Z.of_nat j - Z.of_nat i =? b)%Z then x else dense_entry B i j.
Proof.
  intros Hwf. unfold band_fill_band.
  destruct ((b <? - Z.of_nat (bm1 B))%Z || (Z.of_nat (bm2 B) <? b)%Z) eqn:Eg; [reflexivity|].
  apply orb_false_iff in Eg as (E1 & E2). apply Z.ltb_ge in E1, E2.
  set (c := Z.to_nat (Z.of_nat (bm1 B) + b)).
  assert (Hc : c < bm1 B + bm2 B + 1) by (unfold c; lia).
  pose proof Hwf as (_ & Hrows & _).
  destruct (fill_col_spec (bn B) (bm1 B + bm2 B + 1) (compact B) c x (wfB_okM B Hwf) Hrows Hc)
    as (m' & -> & Hsh & Hel).
  cbn [bind]. eexists; split; [reflexivity|]. split; [now apply wfB_with_compact|].
  cbn [with_compact bn bm1 bm2]. repeat split; auto.
  intros i j Hi Hj. unfold dense_entry; cbn [with_compact bm1 bm2].
  destruct (in_band (bm1 B) (bm2 B) i j) eqn:E; cbn [andb]; auto.
  rewrite !cslot_mat_at; cbn [with_compact bm1 bm2 compact].
  rewrite Hel by now apply (band_slot_range (bm1 B) (bm2 B)).
  replace (i <? bn B) with true by (symmetry; apply Nat.ltb_lt; auto). cbn [andb].
  apply in_band_iff in E. unfold band_slot, c.
  destruct (Nat.eqb_spec (bm1 B + j - i) (Z.to_nat (Z.of_nat (bm1 B) + b)));
    destruct (Z.eqb_spec (Z.of_nat j - Z.of_nat i) b); auto; lia.
Qed.

End Edit.
