(* Proofs/ParSchedFloat.v -- corollaries of sched_deterministic for the two arithmetics of the correspondence check:
   over any ring every maximal interleaved execution returns the sequential dot; over IEEE binary64 on
   integer-valued data with sum |v_i w_i| < 2^53 it returns the sequential dot BIT FOR BIT (P3 of C16, lifted from
   the function pardot to every execution of the scoped-thread program). *)
From Coq Require Import List Arith Lia ZArith.
From OV Require Import Base.Panic Base.Arith Model.Vector Model.ParDot Model.ParSched
  Proofs.ParDot Proofs.ParSched Proofs.ParDotFloat Inst.FloatInst.
Import ListNotations.

Lemma sched_exact_lemma (A : Arith) (RL : RingLaws A) (v w : list A) t s0 n s :
  par_program v w t = Ok s0 -> steps v w t n s0 s -> terminal v w t s -> main s = MRet (dot v w).
Proof.
  intros HP HS HT. destruct (sched_deterministic_lemma v w t s0 n s HP HS HT) as [_ ->].
  apply par_program_ok in HP as (Ht & Hl & _). now rewrite (pardot_exact_lemma RL t v w Ht Hl).
Qed.

Lemma sched_exact_float_lemma (v w : list AF) (zs ws : list Z) t s0 n s :
  Forall2 ExactW v zs -> Forall2 ExactW w ws -> length zs = length ws -> (zadot zs ws < 2 ^ 53)%Z ->
  par_program (A := AF) v w t = Ok s0 -> steps v w t n s0 s -> terminal v w t s ->
  main s = MRet (dot (A := AF) v w).
Proof.
  intros Hv Hw Hlz Hb HP HS HT. destruct (sched_deterministic_lemma v w t s0 n s HP HS HT) as [_ ->].
  apply par_program_ok in HP as (Ht & _ & _).
  now rewrite (pardot_exact_float_lemma t v w zs ws Ht Hv Hw Hlz Hb).
Qed.
