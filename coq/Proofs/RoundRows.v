(* Proofs/RoundRows.v -- from the closed form of a triangular solve (Proofs/RoundTrace.v: one left fold per row, over
   any arithmetic) to its rounding analysis in the standard model: whatever computes
        x_k = fdiv (racc m b x k n) m_kk          resp.        y_i = lacc m b y i
   at the arithmetic ARm satisfies the perturbed row equations of Proofs/RoundBacksolve.v ([urow_ok], [lrow_ok]), hence
   (U + dU) x = b, |dU| <= gam n |U|  resp.  (L + dL) y = b, |dL| <= gam n |L|.  Used for the in-place triangular sweeps
   of the matrix inverse (Proofs/RoundInverse.v), whose loops differ from backsolve's but whose closed form is the same. *)
From Coq Require Import List Arith Lia Reals Lra Psatz Bool.
From OV Require Import Base.Panic Base.Arith Base.RoundModel Model.Vector Model.Matrix Model.Solve
  Proofs.Matrix Proofs.LUPrim Proofs.RoundDot Proofs.RoundMatvec Proofs.RoundBacksolve Proofs.RoundTrace Proofs.RoundTriFloat.
Import ListNotations.
Local Open Scope R_scope.

Section Rows.
Variable u : R.
Hypothesis u_range : 0 <= u < 1.
Variables fadd fsub fmul fdiv : R -> R -> R.
Hypothesis fsub_ok : forall x y, exists d, Rabs d <= u /\ fsub x y = (x - y) * (1 + d).
Hypothesis fmul_ok : forall x y, exists d, Rabs d <= u /\ fmul x y = x * y * (1 + d).
Hypothesis fdiv_ok : forall x y, y <> 0 -> exists d, Rabs d <= u /\ fdiv x y = x / y * (1 + d).

Notation AR := (ARm fadd fsub fmul fdiv).
Notation bnd := (bnd u).
Notation rentry := (rentry fadd fsub fmul fdiv).

Lemma seq_nth_lt' a l t : (t < l)%nat -> nth t (seq a l) 0%nat = (a + t)%nat.
Proof. intros H. now rewrite seq_nth. Qed.

Lemma racc_urow (m : matrix AR) (n : nat) (b x : list R) (k : nat) :
  (k < n)%nat -> rentry m k k <> 0 ->
  nth k x 0 = fdiv (racc (A := AR) m b x k n) (rentry m k k) ->
  urow_ok u fadd fsub fmul fdiv m n b x k.
Proof using u_range fsub_ok fmul_ok fdiv_ok.
  intros Hk Dk Ex.
  destruct (eacc_round u u_range fadd fsub fmul fdiv fsub_ok fmul_ok m x k (seq (k + 1) (n - (k + 1))) (nth k b 0))
    as (P & Wt & HP & HWt & Er).
  rewrite seq_length in HP, HWt, Er.
  destruct (fdiv_bnd u u_range fdiv fdiv_ok (racc (A := AR) m b x k n) (rentry m k k) Dk) as (ed & Hed & Ed).
  exists (/ (P * ed)), Wt.
  split; [replace (n - k)%nat with ((n - (k + 1)) + 1)%nat by lia; apply bnd_inv; [exact u_range|now apply bnd_mul]|].
  split; [intros t Ht; apply HWt; lia|].
  assert (Exk : nth k x 0
                = P * (nth k b 0 - Rsum (n - (k + 1))
                                     (fun t => ent (A := AR) m k (nth t (seq (k + 1) (n - (k + 1))) 0%nat)
                                               * nth (nth t (seq (k + 1) (n - (k + 1))) 0%nat) x 0 * Wt t))
                  / rentry m k k * ed).
  { rewrite Ex, Ed. f_equal. f_equal. exact Er. }
  rewrite Exk. replace (n - 1 - k)%nat with (n - (k + 1))%nat by lia.
  rewrite (Rsum_ext (n - (k + 1))
             (fun t => rentry m k (k + 1 + t) * Wt t * nth (k + 1 + t)%nat x 0)
             (fun t => ent (A := AR) m k (nth t (seq (k + 1) (n - (k + 1))) 0%nat)
                       * nth (nth t (seq (k + 1) (n - (k + 1))) 0%nat) x 0 * Wt t)).
  2:{ intros t Ht. rewrite seq_nth_lt' by exact Ht.
      change (rentry m k (k + 1 + t)) with (ent (A := AR) m k (k + 1 + t)). ring. }
  pose proof (bnd_nz u u_range _ _ HP). pose proof (bnd_nz u u_range _ _ Hed).
  field. repeat split; assumption.
Qed.

Lemma lacc_lrow (m : matrix AR) (b y : list R) (i : nat) :
  nth i y 0 = lacc (A := AR) m b y i -> lrow_ok u fadd fsub fmul fdiv m b y i.
Proof using u_range fsub_ok fmul_ok.
  intros Ey.
  destruct (eacc_round u u_range fadd fsub fmul fdiv fsub_ok fmul_ok m y i (seq 0 i) (nth i b 0))
    as (P & Wt & HP & HWt & Er).
  rewrite seq_length in HP, HWt, Er.
  exists (/ P), Wt. split; [now apply bnd_inv|]. split; [exact HWt|].
  assert (Eyi : nth i y 0
                = P * (nth i b 0 - Rsum i (fun t => ent (A := AR) m i (nth t (seq 0 i) 0%nat)
                                                    * nth (nth t (seq 0 i) 0%nat) y 0 * Wt t))).
  { rewrite Ey. exact Er. }
  rewrite Eyi.
  rewrite (Rsum_ext i (fun t => rentry m i t * Wt t * nth t y 0)
             (fun t => ent (A := AR) m i (nth t (seq 0 i) 0%nat) * nth (nth t (seq 0 i) 0%nat) y 0 * Wt t)).
  2:{ intros t Ht. rewrite seq_nth_lt' by exact Ht. cbn [Nat.add].
      change (rentry m i t) with (ent (A := AR) m i t). ring. }
  pose proof (bnd_nz u u_range _ _ HP). field. assumption.
Qed.

End Rows.
