(* Proofs/IterSparseBreakdown.v -- round two, package iter2: the breakdown exits of the Lanczos-type solvers
   of Model/Iter.v characterised (the three `open:` C09 findings of KNOWN_FINDINGS.txt).

   Over ANY arithmetic (floats included), any products, any sizes:
   * which states a loop can reach ([reaches]: through [Continue] steps) and the two-way link between
     the loop's result and a [Return] of the body from a reachable state;
   * BiCGSTAB: the only Err exits are budget exhaustion (2), `rho_1 == 0` (10) and `omega == 0` (11); the
     exit 10 is taken at iteration i EXACTLY when <rtilde, r> evaluates to a value equal to zero, and then
     x and r are returned unchanged; the exit 11 implies omega = <t,s>/<t,t> evaluates to zero;
   * QMR: the exits 20/21/22 are taken exactly when rho / xi / delta = <z,y> is zero (in that order of
     precedence), rho and xi being the 2-norms of the current right / left Lanczos vectors; the exits
     23/24/25 imply ep = <q, A p> / beta = ep/delta / gamma = 1/sqrt(1+theta^2) evaluate to zero;
   * BiCG has NO breakdown exit: its body never returns an Err, the only Err is budget exhaustion, and on the
     committed witness corpus/C09/kf_bicg_breakdown.json the float model divides 0/0 and returns
     Err(NaN) with x = (NaN, NaN)  ([bicg_no_breakdown_test], by evaluation of the model). *)
From Coq Require Import List Arith Lia Bool ZArith Floats.
From OV Require Import Base.Panic Base.Arith Model.Vector Model.Matrix Model.Sparse Model.Iter Inst.FloatInst Proofs.Iter.
Import ListNotations.
Local Open Scope bool_scope.

Section Reach.
Context {A : SArith}.

(* the states a loop started at (i0, s0) reaches through Continue steps *)
Inductive reaches {S} (body : nat -> S -> res (@step_out A S)) (i0 : nat) (s0 : S) : nat -> S -> Prop :=
| reach_refl : reaches body i0 s0 i0 s0
| reach_step i s s' : reaches body i0 s0 i s -> body i s = Ok (Continue s') -> reaches body i0 s0 (Datatypes.S i) s'.

Lemma reaches_ge {S} (body : nat -> S -> res (@step_out A S)) i0 s0 i s : reaches body i0 s0 i s -> i0 <= i.
Proof. induction 1; lia. Qed.

Lemma iloop_reach {S} (body : nat -> S -> res (@step_out A S)) (final : S -> iout A) fuel i0 s0 o :
  iloop body final fuel i0 s0 = Ok o ->
  (exists i s, i0 <= i < i0 + fuel /\ reaches body i0 s0 i s /\ body i s = Ok (Return o)) \/
  (exists s, reaches body i0 s0 (i0 + fuel) s /\ o = final s).
Proof.
  intros E.
  exact (iloop_char body final (reaches body i0 s0)
           (fun i s s' H Eb => reach_step body i0 s0 i s s' H Eb) fuel i0 s0 o (reach_refl body i0 s0) E).
Qed.

Lemma iloop_shift {S} (body : nat -> S -> res (@step_out A S)) (final : S -> iout A) i0 s0 i s :
  reaches body i0 s0 i s -> forall fuel, iloop body final (i - i0 + fuel) i0 s0 = iloop body final fuel i s.
Proof.
  induction 1 as [|i s s' Hr IH Eb]; intros fuel.
  - now rewrite Nat.sub_diag.
  - apply reaches_ge in Hr as Hge.
    replace (Datatypes.S i - i0 + fuel) with (i - i0 + Datatypes.S fuel) by lia.
    rewrite IH. cbn [iloop]. rewrite Eb. reflexivity.
Qed.

(* a Return of the body from a reachable state inside the budget IS the loop's result *)
Lemma iloop_from_reach {S} (body : nat -> S -> res (@step_out A S)) (final : S -> iout A) fuel i0 s0 i s o :
  reaches body i0 s0 i s -> i < i0 + fuel -> body i s = Ok (Return o) ->
  iloop body final fuel i0 s0 = Ok o.
Proof.
  intros Hr Hi Eb. apply reaches_ge in Hr as Hge.
  replace fuel with (i - i0 + Datatypes.S (i0 + fuel - i - 1)) by lia.
  rewrite (iloop_shift body final i0 s0 i s Hr). cbn [iloop]. rewrite Eb. reflexivity.
Qed.

Lemma iloop_from_reach_final {S} (body : nat -> S -> res (@step_out A S)) (final : S -> iout A) fuel i0 s0 s :
  reaches body i0 s0 (i0 + fuel) s -> iloop body final fuel i0 s0 = Ok (final s).
Proof.
  intros Hr. replace fuel with (i0 + fuel - i0 + 0) at 1 by lia.
  now rewrite (iloop_shift body final i0 s0 _ s Hr).
Qed.

(* "the body left the loop through an Err exit whose ghost code is c" *)
Definition err_exit {S} (out : @step_out A S) (c : nat) : Prop :=
  exists e x g, out = @Return A S (IErr e, x, g) /\ g_exit g = c.

End Reach.

Section Breakdown.
Context {A : SArith}.
Notation F := (T (SA A)).
Variables (mulA mulAT : list F -> res (list F)) (rows cols : nat).

(* ------------------------------------------------------------------ BiCGSTAB *)
Lemma stab_body_rho_exit_iff rtilde tol normb i s out :
  stab_body mulA rows rtilde tol normb i s = Ok out ->
  (err_exit out 10 <-> exists rho, dot rtilde (st_r s) = Ok rho /\ eqb rho zero = true).
Proof.
  unfold stab_body. intros H. apply bind_ok in H as (rho & Erho & H). cbv beta in H.
  destruct (eqb rho zero) eqn:Ez.
  - apply bind_ok in H as (e & Ee & H). injection H as <-. split.
    + intros _. exists rho. auto.
    + intros _. exists e, (st_x s), (mkG (st_r s) (st_X s) 10). auto.
  - split.
    + intros (e & x & g & -> & Hg). exfalso. inv_res; try discriminate.
      all: match goal with E : Ok (Return _) = Ok (Return _) |- _ => injection E; intros; subst end.
      all: cbn in Hg; discriminate.
    + intros (rho' & E' & Ez'). rewrite Erho in E'. injection E' as <-. congruence.
Qed.

(* what the rho_1 == 0 exit returns: the state's x and r, untouched, and the error measure ||r||/||b||' *)
Lemma stab_body_rho_exit_out rtilde tol normb i s rho out :
  stab_body mulA rows rtilde tol normb i s = Ok out ->
  dot rtilde (st_r s) = Ok rho -> eqb rho zero = true ->
  exists e, div (norm2 (st_r s)) normb = Ok e /\ out = Return (IErr e, st_x s, mkG (st_r s) (st_X s) 10).
Proof.
  unfold stab_body. intros H Erho Ez. rewrite Erho in H. cbn [bind] in H. rewrite Ez in H.
  apply bind_ok in H as (e & Ee & H). injection H as <-. eauto.
Qed.

Lemma stab_body_rho_exit_taken rtilde tol normb i s rho e :
  dot rtilde (st_r s) = Ok rho -> eqb rho zero = true -> div (norm2 (st_r s)) normb = Ok e ->
  stab_body mulA rows rtilde tol normb i s = Ok (Return (IErr e, st_x s, mkG (st_r s) (st_X s) 10)).
Proof. intros Erho Ez Ee. unfold stab_body. rewrite Erho. cbn [bind]. rewrite Ez, Ee. reflexivity. Qed.

(* the omega == 0 exit: omega = <t, s> / <t, t> with t = A shat evaluated to a value equal to zero *)
Lemma stab_body_omega_exit rtilde tol normb i s out :
  stab_body mulA rows rtilde tol normb i s = Ok out -> err_exit out 11 ->
  exists sv shat t ts tdt omega, ident_pre rows sv (st_shat s) = Ok shat /\ mulA shat = Ok t /\
    dot t sv = Ok ts /\ dot t t = Ok tdt /\ div ts tdt = Ok omega /\ eqb omega zero = true.
Proof.
  unfold stab_body. intros H (e & x & g & -> & Hg). inv_res; try discriminate.
  all: match goal with E : Ok (Return _) = Ok (Return _) |- _ => injection E; intros; subst end.
  all: cbn in Hg; try discriminate.
  all: do 6 eexists; repeat split; eassumption.
Qed.

Lemma stab_body_err_codes rtilde tol normb i s out c :
  stab_body mulA rows rtilde tol normb i s = Ok out -> err_exit out c -> c = 10 \/ c = 11.
Proof.
  unfold stab_body. intros H (e & x & g & -> & Hg). inv_res; try discriminate.
  all: match goal with E : Ok (Return _) = Ok (Return _) |- _ => injection E; intros; subst end.
  all: cbn; auto.
Qed.

Definition stab_init (x r : list F) (resid tol : F) : stab_st :=
  mkST x r (zeros rows) (zeros rows) (zeros rows) (zeros rows) one one one resid (trace0 x resid tol).

(* an Err answer of solve_bicgstab comes out of the loop: the start-up succeeded and its test failed *)
Lemma solve_bicgstab_err_start b x0 max tol e x g :
  solve_bicgstab mulA rows cols b x0 max tol = Ok (IErr e, x, g) ->
  exists ax r0 resid, guards rows cols b x0 = Ok tt /\ mulA x0 = Ok ax /\ vsub b ax = Ok r0 /\
    div (norm2 r0) (nz (norm2 b)) = Ok resid /\ leb resid tol = false /\
    iloop (stab_body mulA rows r0 tol (nz (norm2 b))) stab_final max 1 (stab_init x0 r0 resid tol) = Ok (IErr e, x, g).
Proof.
  unfold solve_bicgstab. intros H. inv_res; [discriminate|].
  match goal with E : guards _ _ _ _ = Ok ?u |- _ => destruct u end.
  do 3 eexists. repeat split; eauto.
Qed.

Lemma solve_bicgstab_loop b x0 max tol ax r0 resid :
  guards rows cols b x0 = Ok tt -> mulA x0 = Ok ax -> vsub b ax = Ok r0 ->
  div (norm2 r0) (nz (norm2 b)) = Ok resid -> leb resid tol = false ->
  solve_bicgstab mulA rows cols b x0 max tol =
  iloop (stab_body mulA rows r0 tol (nz (norm2 b))) stab_final max 1 (stab_init x0 r0 resid tol).
Proof.
  intros Hg Eax Er Ed Ht. unfold solve_bicgstab. rewrite Hg, Eax. cbn [bind]. rewrite Er. cbn [bind].
  rewrite Ed. cbn [bind]. rewrite Ht. reflexivity.
Qed.

(* every Err of solve_bicgstab is one of: budget exhausted, rho_1 == 0, omega == 0 *)
Theorem bicgstab_err_exits_lemma b x0 max tol e x g :
  solve_bicgstab mulA rows cols b x0 max tol = Ok (IErr e, x, g) ->
  g_exit g = 2 \/ g_exit g = 10 \/ g_exit g = 11.
Proof.
  intros H. apply solve_bicgstab_err_start in H as (ax & r0 & resid & _ & _ & _ & _ & _ & H).
  apply iloop_reach in H as [(i & s & _ & _ & Eb)|(s & _ & E)].
  - right. eapply stab_body_err_codes; [exact Eb|]. exists e, x, g. auto.
  - left. unfold stab_final in E. injection E as _ _ ->. reflexivity.
Qed.

(* the rho_1 == 0 exit is taken exactly when some iteration inside the budget starts from a state whose
   residual r has <r0, r> equal to zero, r0 = b - A x0 the shadow residual (and the error measure is defined) *)
Theorem bicgstab_rho_exit_iff_lemma b x0 max tol ax r0 resid :
  guards rows cols b x0 = Ok tt -> mulA x0 = Ok ax -> vsub b ax = Ok r0 ->
  div (norm2 r0) (nz (norm2 b)) = Ok resid -> leb resid tol = false ->
  ((exists e x g, solve_bicgstab mulA rows cols b x0 max tol = Ok (IErr e, x, g) /\ g_exit g = 10) <->
   (exists i s rho e, 1 <= i <= max /\
      reaches (stab_body mulA rows r0 tol (nz (norm2 b))) 1 (stab_init x0 r0 resid tol) i s /\
      dot r0 (st_r s) = Ok rho /\ eqb rho zero = true /\ div (norm2 (st_r s)) (nz (norm2 b)) = Ok e)).
Proof.
  intros Hg Eax Er Ed Ht. rewrite (solve_bicgstab_loop b x0 max tol ax r0 resid Hg Eax Er Ed Ht). split.
  - intros (e & x & g & H & Hc). apply iloop_reach in H as [(i & s & Hi & Hr & Eb)|(s & _ & E)].
    + destruct (proj1 (stab_body_rho_exit_iff _ _ _ _ _ _ Eb)) as (rho & Erho & Ez).
      { exists e, x, g. auto. }
      destruct (stab_body_rho_exit_out _ _ _ _ _ _ _ Eb Erho Ez) as (e' & Ee & _).
      exists i, s, rho, e'. repeat split; auto; lia.
    + unfold stab_final in E. injection E as _ _ ->. discriminate Hc.
  - intros (i & s & rho & e & Hi & Hr & Erho & Ez & Ee).
    exists e, (st_x s), (mkG (st_r s) (st_X s) 10). split; [|reflexivity].
    eapply iloop_from_reach; [exact Hr | lia |].
    now apply (stab_body_rho_exit_taken _ _ _ _ _ rho).
Qed.

(* ------------------------------------------------------------------ QMR *)
Ltac qmr_fin Hg :=
  repeat match goal with E : Ok (Return _) = Ok (Return _) |- _ => injection E; clear E; intros; subst end;
  try (cbn in Hg); try discriminate.

Lemma err_exit_qmr c c' (s : qmr_st) : @err_exit A (@qmr_st A) (Return (qmr_exit c s)) c' <-> c = c'.
Proof.
  unfold err_exit, qmr_exit. split.
  - intros (e & x & g & E & Hg). injection E as <- <- <-. exact Hg.
  - intros <-. do 3 eexists. split; reflexivity.
Qed.

(* the three exits in front of the first matrix product, exactly *)
Lemma qmr_body_exits_iff tol normb i s out :
  qmr_body mulA mulAT tol normb i s = Ok out ->
  (err_exit out 20 <-> eqb (q_rho s) zero = true) /\
  (err_exit out 21 <-> eqb (q_rho s) zero = false /\ eqb (q_xi s) zero = true) /\
  (err_exit out 22 <-> eqb (q_rho s) zero = false /\ eqb (q_xi s) zero = false /\
       exists y z delta, vdiv (q_y s) (q_rho s) = Ok y /\ vdiv (q_z s) (q_xi s) = Ok z /\
                         dot z y = Ok delta /\ eqb delta zero = true).
Proof.
  unfold qmr_body. intros H. cbv zeta in H.
  destruct (eqb (q_rho s) zero) eqn:Erho.
  { injection H as <-. rewrite !err_exit_qmr. split; [|split].
    - split; auto.
    - split; [discriminate | intros (HH & _); discriminate HH].
    - split; [discriminate | intros (HH & _); discriminate HH]. }
  destruct (eqb (q_xi s) zero) eqn:Exi.
  { injection H as <-. rewrite !err_exit_qmr. split; [|split].
    - split; discriminate.
    - split; auto.
    - split; [discriminate | intros (_ & HH & _); discriminate HH]. }
  apply bind_ok in H as (v & Ev & H). apply bind_ok in H as (y & Ey & H).
  apply bind_ok in H as (w & Ew & H). apply bind_ok in H as (z & Ez & H).
  apply bind_ok in H as (delta & Ed & H). cbv beta in H.
  destruct (eqb delta zero) eqn:Edz.
  { injection H as <-. rewrite !err_exit_qmr. split; [|split].
    - split; discriminate.
    - split; [discriminate | intros (_ & HH); discriminate HH].
    - split; [intros _; repeat split; auto; exists y, z, delta; auto | auto]. }
  assert (Hno : forall c, c = 20 \/ c = 21 \/ c = 22 -> ~ err_exit out c).
  { intros c Hc (e & x & g & -> & Hg).
    destruct Hc as [-> | [-> | ->]]; unfold qmr_exit in H; inv_res; try discriminate; qmr_fin Hg. }
  split; [|split].
  - split; [intros Hx; exfalso; apply (Hno 20); auto | discriminate].
  - split; [intros Hx; exfalso; apply (Hno 21); auto | intros (_ & HH); discriminate HH].
  - split; [intros Hx; exfalso; apply (Hno 22); auto | ].
    intros (_ & _ & y' & z' & d' & Ey' & Ez' & Ed' & Edz').
    rewrite Ey in Ey'. injection Ey' as <-. rewrite Ez in Ez'. injection Ez' as <-.
    rewrite Ed in Ed'. injection Ed' as <-. congruence.
Qed.

(* the three exits behind it: the quantity named by the code evaluated to a value equal to zero *)
Lemma qmr_body_late_exits tol normb i s out :
  qmr_body mulA mulAT tol normb i s = Ok out ->
  (err_exit out 23 -> exists p q pt ep, mulA p = Ok pt /\ dot q pt = Ok ep /\ eqb ep zero = true) /\
  (err_exit out 24 -> exists ep delta beta : F, div ep delta = Ok beta /\ eqb beta zero = true) /\
  (err_exit out 25 -> exists theta gamma : F, div one (sqrt (add one (mul theta theta))) = Ok gamma /\ eqb gamma zero = true).
Proof.
  unfold qmr_body, qmr_exit. intros H. repeat split.
  - intros (e & x & g & -> & Hg). inv_res; try discriminate; qmr_fin Hg.
    all: do 4 eexists; repeat split; eassumption.
  - intros (e & x & g & -> & Hg). inv_res; try discriminate; qmr_fin Hg.
    all: do 3 eexists; split; eassumption.
  - intros (e & x & g & -> & Hg). inv_res; try discriminate; qmr_fin Hg.
    all: do 2 eexists; split; eassumption.
Qed.

Lemma qmr_body_err_codes tol normb i s out c :
  qmr_body mulA mulAT tol normb i s = Ok out -> err_exit out c -> 20 <= c <= 25.
Proof.
  unfold qmr_body, qmr_exit. intros H (e & x & g & -> & Hg). inv_res; try discriminate; qmr_fin Hg.
  all: subst; cbn; lia.
Qed.

(* rho and xi are the 2-norms of the current right / left Lanczos vectors, at every reachable state *)
Definition qmr_norms (s : @qmr_st A) : Prop := q_rho s = norm2 (q_y s) /\ q_xi s = norm2 (q_z s).

Lemma qmr_body_norms tol normb i s s' :
  qmr_body mulA mulAT tol normb i s = Ok (Continue s') -> qmr_norms s'.
Proof.
  unfold qmr_body, qmr_exit. intros H. inv_res; try discriminate.
  all: match goal with E : Ok (Continue _) = Ok (Continue _) |- _ => injection E; intros; subst end.
  all: split; reflexivity.
Qed.

Definition qmr_init (x r : list F) (resid tol : F) : qmr_st :=
  mkQ x r r r r r (zeros rows) (zeros rows) (zeros rows) (zeros rows) (norm2 r) (norm2 r) one (neg one) zero one
      resid (trace0 x resid tol).

Lemma qmr_reach_norms tol normb x r resid i s :
  reaches (qmr_body mulA mulAT tol normb) 1 (qmr_init x r resid tol) i s -> qmr_norms s.
Proof.
  induction 1 as [|i s s' _ _ Eb].
  - split; reflexivity.
  - exact (qmr_body_norms _ _ _ _ _ Eb).
Qed.

Lemma solve_qmr_loop b x0 max tol ax r0 resid :
  guards rows cols b x0 = Ok tt -> mulA x0 = Ok ax -> vsub b ax = Ok r0 ->
  div (norm2 r0) (nz (norm2 b)) = Ok resid -> leb resid tol = false ->
  solve_qmr mulA mulAT rows cols b x0 max tol =
  iloop (qmr_body mulA mulAT tol (nz (norm2 b))) (@qmr_final A) max 1 (qmr_init x0 r0 resid tol).
Proof.
  intros Hg Eax Er Ed Ht. unfold solve_qmr. rewrite Hg, Eax. cbn [bind]. rewrite Er. cbn [bind].
  rewrite Ed. cbn [bind]. rewrite Ht. reflexivity.
Qed.

Lemma solve_qmr_err_start b x0 max tol e x g :
  solve_qmr mulA mulAT rows cols b x0 max tol = Ok (IErr e, x, g) ->
  exists ax r0 resid, guards rows cols b x0 = Ok tt /\ mulA x0 = Ok ax /\ vsub b ax = Ok r0 /\
    div (norm2 r0) (nz (norm2 b)) = Ok resid /\ leb resid tol = false.
Proof.
  unfold solve_qmr. intros H. inv_res; [discriminate|].
  match goal with E : guards _ _ _ _ = Ok ?u |- _ => destruct u end.
  do 3 eexists. repeat split; eauto.
Qed.

Theorem qmr_err_exits_lemma b x0 max tol e x g :
  solve_qmr mulA mulAT rows cols b x0 max tol = Ok (IErr e, x, g) ->
  g_exit g = 2 \/ 20 <= g_exit g <= 25.
Proof.
  intros H. destruct (solve_qmr_err_start _ _ _ _ _ _ _ H) as (ax & r0 & resid & Hg & Eax & Er & Ed & Ht).
  rewrite (solve_qmr_loop b x0 max tol ax r0 resid Hg Eax Er Ed Ht) in H.
  apply iloop_reach in H as [(i & s & _ & _ & Eb)|(s & _ & E)].
  - right. eapply qmr_body_err_codes; [exact Eb|]. exists e, x, g. auto.
  - left. unfold qmr_final, qmr_exit in E. injection E as _ _ ->. reflexivity.
Qed.

(* solve_qmr gives up with `rho == 0` (`xi == 0`) exactly when an iteration inside the budget starts from a
   state whose right Lanczos vector y (left Lanczos vector z) has a 2-norm equal to zero; it then returns
   the state's error measure, x and r unchanged *)
Theorem qmr_exits_iff_lemma b x0 max tol ax r0 resid :
  guards rows cols b x0 = Ok tt -> mulA x0 = Ok ax -> vsub b ax = Ok r0 ->
  div (norm2 r0) (nz (norm2 b)) = Ok resid -> leb resid tol = false ->
  let body := qmr_body mulA mulAT tol (nz (norm2 b)) in
  let init := qmr_init x0 r0 resid tol in
  ((exists e x g, solve_qmr mulA mulAT rows cols b x0 max tol = Ok (IErr e, x, g) /\ g_exit g = 20) <->
   (exists i s, 1 <= i <= max /\ reaches body 1 init i s /\ eqb (norm2 (q_y s)) zero = true)) /\
  ((exists e x g, solve_qmr mulA mulAT rows cols b x0 max tol = Ok (IErr e, x, g) /\ g_exit g = 21) <->
   (exists i s, 1 <= i <= max /\ reaches body 1 init i s /\
                eqb (norm2 (q_y s)) zero = false /\ eqb (norm2 (q_z s)) zero = true)) /\
  ((exists e x g, solve_qmr mulA mulAT rows cols b x0 max tol = Ok (IErr e, x, g) /\ g_exit g = 22) ->
   (exists i s y z delta, 1 <= i <= max /\ reaches body 1 init i s /\
                eqb (norm2 (q_y s)) zero = false /\ eqb (norm2 (q_z s)) zero = false /\
                vdiv (q_y s) (norm2 (q_y s)) = Ok y /\ vdiv (q_z s) (norm2 (q_z s)) = Ok z /\
                dot z y = Ok delta /\ eqb delta zero = true)).
Proof.
  intros Hg Eax Er Ed Ht body init.
  rewrite (solve_qmr_loop b x0 max tol ax r0 resid Hg Eax Er Ed Ht). fold body init.
  assert (Hfin : forall s c e x g, (IErr e, x, g) = @qmr_final A s -> g_exit g = c -> c = 2).
  { intros s c e x g E Hc. unfold qmr_final, qmr_exit in E. injection E as _ _ ->. now cbn in Hc. }
  assert (Hfwd : forall c, c <> 2 -> (exists e x g, iloop body (@qmr_final A) max 1 init = Ok (IErr e, x, g) /\ g_exit g = c) ->
            exists i s out, 1 <= i <= max /\ reaches body 1 init i s /\ body i s = Ok out /\ err_exit out c).
  { intros c Hc2 (e & x & g & H & Hc). apply iloop_reach in H as [(i & s & Hi & Hr & Eb)|(s & _ & E)].
    - exists i, s, (Return (IErr e, x, g)). repeat split; auto; try lia. exists e, x, g. auto.
    - exfalso. apply Hc2. eapply Hfin; eauto. }
  assert (Hbwd : forall c i s, 1 <= i <= max -> reaches body 1 init i s -> body i s = Ok (Return (qmr_exit c s)) ->
            exists e x g, iloop body (@qmr_final A) max 1 init = Ok (IErr e, x, g) /\ g_exit g = c).
  { intros c i s Hi Hr Eb. exists (q_resid s), (q_x s), (mkG (q_r s) (q_X s) c). split; [|reflexivity].
    eapply iloop_from_reach; [exact Hr | lia | exact Eb]. }
  repeat split.
  - intros H. apply Hfwd in H as (i & s & out & Hi & Hr & Eb & Hx); [|discriminate].
    destruct (qmr_reach_norms _ _ _ _ _ _ _ Hr) as (Hrho & Hxi).
    apply (qmr_body_exits_iff _ _ _ _ _ Eb) in Hx. exists i, s. rewrite <- Hrho. auto.
  - intros (i & s & Hi & Hr & Hz). destruct (qmr_reach_norms _ _ _ _ _ _ _ Hr) as (Hrho & Hxi).
    apply (Hbwd 20 i s Hi Hr). unfold body, qmr_body. rewrite Hrho, Hz. reflexivity.
  - intros H. apply Hfwd in H as (i & s & out & Hi & Hr & Eb & Hx); [|discriminate].
    destruct (qmr_reach_norms _ _ _ _ _ _ _ Hr) as (Hrho & Hxi).
    apply (qmr_body_exits_iff _ _ _ _ _ Eb) in Hx. exists i, s. rewrite <- Hrho, <- Hxi. tauto.
  - intros (i & s & Hi & Hr & Hnz & Hz). destruct (qmr_reach_norms _ _ _ _ _ _ _ Hr) as (Hrho & Hxi).
    apply (Hbwd 21 i s Hi Hr). unfold body, qmr_body. rewrite Hrho, Hnz, Hxi, Hz. reflexivity.
  - intros H. apply Hfwd in H as (i & s & out & Hi & Hr & Eb & Hx); [|discriminate].
    destruct (qmr_reach_norms _ _ _ _ _ _ _ Hr) as (Hrho & Hxi).
    apply (qmr_body_exits_iff _ _ _ _ _ Eb) in Hx as (H1 & H2 & y & z & delta & Ey & Ez & Edl & Edz).
    exists i, s, y, z, delta. rewrite <- Hrho, <- Hxi. repeat split; auto; lia.
Qed.

End Breakdown.

(* ------------------------------------------------------------------ BiCG: no breakdown exit at all *)
Section BiCGNoExit.
Context {A : SArith}.
Notation F := (T (SA A)).
Variables (mulA mulAT : list F -> res (list F)) (rows cols : nat).

(* the body of solve_bicg never leaves the loop with an Err: whatever the inner products are, it divides *)
Lemma bicg_body_never_err itol tol bnrm i s r x g :
  bicg_body mulA mulAT rows itol tol bnrm i s = Ok (Return (r, x, g)) -> r = IOk i.
Proof.
  unfold bicg_body. intros H. inv_res; try discriminate.
  all: match goal with E : Ok (Return _) = Ok (Return _) |- _ => injection E; intros; subst end.
  all: reflexivity.
Qed.

(* hence the only Err of solve_bicg is budget exhaustion, after exactly max_iter full steps *)
Theorem bicg_err_only_budget_lemma itol b x0 max tol e x g :
  solve_bicg mulA mulAT rows cols itol b x0 max tol = Ok (IErr e, x, g) -> g_exit g = 2.
Proof.
  unfold solve_bicg. intros H. inv_res; [discriminate|].
  apply iloop_reach in H as [(i & s & _ & _ & Eb)|(s & _ & E)].
  - apply bicg_body_never_err in Eb. discriminate Eb.
  - unfold bicg_final in E. injection E as _ _ ->. reflexivity.
Qed.
End BiCGNoExit.

(* ------------------------------------------------------------------ the committed witnesses, float model.
   The terms are those driver/iterlib.py:coq_run builds for corpus/C09/kf_*.json (the correspondence check
   compares the same terms with the executor bit for bit on every run). *)
Definition kf_tol : float := fz false 4722366482869645 (-72).           (* 1e-6 *)
(* [[2,-1],[0,1]] x = (2,-2), x0 = 0: strictly diagonally dominant, solution (0,-2) *)
Definition kf_trip2 : list (triplet AF) := [(0, 0, fz false 1 1); (0, 1, fz true 1 0); (1, 1, fz false 1 0)].
Definition kf_b2 : list float := [fz false 1 1; fz true 1 1].
Definition kf_x2 : list float := [fz false 0 0; fz false 0 0].
Definition kf_bicg_run (itol : nat) : res (iout SAF) := @run_trip SAF (BiCG itol) 2 2 kf_trip2 kf_b2 kf_x2 140 kf_tol.
Definition kf_qmr_run : res (iout SAF) := @run_trip SAF QMR 2 2 kf_trip2 kf_b2 kf_x2 140 kf_tol.
(* [[2,0,1],[0,4,-1],[0,0,3]] x = (0,-6,6), x0 = 0 *)
Definition kf_stab_run : res (iout SAF) :=
  @run_trip SAF BiCGSTAB 3 3
    [(0, 0, fz false 1 1); (1, 1, fz false 1 2); (0, 2, fz false 1 0); (1, 2, fz true 1 0); (2, 2, fz false 3 0)]
    [fz false 0 0; fz true 3 1; fz false 3 1] [fz false 0 0; fz false 0 0; fz false 0 0] 160 kf_tol.

Definition err_nan_x_nan (o : res (iout SAF)) : bool :=
  match o with
  | Ok (IErr e, x, _) => PrimFloat.is_nan e && forallb PrimFloat.is_nan x && negb (length x =? 0)
  | _ => false
  end.
Definition exit_code (o : res (iout SAF)) : option nat :=
  match o with Ok (IErr _, _, g) => Some (g_exit g) | _ => None end.

(* BiCG has no breakdown test: on the witness the float model runs all 140 iterations on NaN and returns
   Err(NaN) with x = (NaN, NaN) -- for both error measures *)
Lemma bicg_no_breakdown_test_lemma :
  err_nan_x_nan (kf_bicg_run 1) = true /\ err_nan_x_nan (kf_bicg_run 2) = true /\
  exit_code (kf_bicg_run 1) = Some 2 /\ exit_code (kf_bicg_run 2) = Some 2.
Proof. repeat split; vm_compute; reflexivity. Qed.

(* QMR on the same system leaves through `xi == 0`; BiCGSTAB on its witness through `rho_1 == 0` *)
Lemma kf_qmr_exit_lemma : exit_code kf_qmr_run = Some 21.
Proof. vm_compute. reflexivity. Qed.
Lemma kf_stab_exit_lemma : exit_code kf_stab_run = Some 10.
Proof. vm_compute. reflexivity. Qed.
