(* Proofs/Guards.v -- each regenerated guard fires exactly outside the specified range (C20). *)
From Coq Require Import ZArith Bool Lia ZifyBool.
From OV Require Import gen.GuardTable Model.Guards.
Local Open Scope Z_scope.

Ltac guard_tac g ok := intros; unfold g, ok; lia.

Lemma guard_vec_add_ref_lemma : forall n1 n2 : Z, 0 <= n1 -> 0 <= n2 -> (g_vec_add_ref n1 n2 = false <-> ok_vec_add_ref n1 n2).
Proof. guard_tac g_vec_add_ref ok_vec_add_ref. Qed.
Lemma guard_vec_sub_ref_lemma : forall n1 n2 : Z, 0 <= n1 -> 0 <= n2 -> (g_vec_sub_ref n1 n2 = false <-> ok_vec_sub_ref n1 n2).
Proof. guard_tac g_vec_sub_ref ok_vec_sub_ref. Qed.
Lemma guard_vec_add_assign_lemma : forall n1 n2 : Z, 0 <= n1 -> 0 <= n2 -> (g_vec_add_assign n1 n2 = false <-> ok_vec_add_assign n1 n2).
Proof. guard_tac g_vec_add_assign ok_vec_add_assign. Qed.
Lemma guard_vec_sub_assign_lemma : forall n1 n2 : Z, 0 <= n1 -> 0 <= n2 -> (g_vec_sub_assign n1 n2 = false <-> ok_vec_sub_assign n1 n2).
Proof. guard_tac g_vec_sub_assign ok_vec_sub_assign. Qed.
Lemma guard_vec_dot_lemma : forall n1 n2 : Z, 0 <= n1 -> 0 <= n2 -> (g_vec_dot n1 n2 = false <-> ok_vec_dot n1 n2).
Proof. guard_tac g_vec_dot ok_vec_dot. Qed.
Lemma guard_vec_dot_f64_lemma : forall n1 n2 : Z, 0 <= n1 -> 0 <= n2 -> (g_vec_dot_f64 n1 n2 = false <-> ok_vec_dot_f64 n1 n2).
Proof. guard_tac g_vec_dot_f64 ok_vec_dot_f64. Qed.
Lemma guard_vec_sum_slice_lemma : forall n s e : Z, 0 <= n -> 0 <= s -> 0 <= e -> (g_vec_sum_slice n s e = false <-> ok_vec_sum_slice n s e).
Proof. guard_tac g_vec_sum_slice ok_vec_sum_slice. Qed.
Lemma guard_vec_product_slice_lemma : forall n s e : Z, 0 <= n -> 0 <= s -> 0 <= e -> (g_vec_product_slice n s e = false <-> ok_vec_product_slice n s e).
Proof. guard_tac g_vec_product_slice ok_vec_product_slice. Qed.
Lemma guard_mat_get_row_lemma : forall r c row : Z, 0 <= r -> 0 <= c -> 0 <= row -> (g_mat_get_row r c row = false <-> ok_mat_get_row r c row).
Proof. guard_tac g_mat_get_row ok_mat_get_row. Qed.
Lemma guard_mat_get_col_lemma : forall r c col : Z, 0 <= r -> 0 <= c -> 0 <= col -> (g_mat_get_col r c col = false <-> ok_mat_get_col r c col).
Proof. guard_tac g_mat_get_col ok_mat_get_col. Qed.
Lemma guard_mat_set_row_lemma : forall r c row vl : Z, 0 <= r -> 0 <= c -> 0 <= row -> 0 <= vl -> (g_mat_set_row r c row vl = false <-> ok_mat_set_row r c row vl).
Proof. guard_tac g_mat_set_row ok_mat_set_row. Qed.
Lemma guard_mat_set_col_lemma : forall r c col vl : Z, 0 <= r -> 0 <= c -> 0 <= col -> 0 <= vl -> (g_mat_set_col r c col vl = false <-> ok_mat_set_col r c col vl).
Proof. guard_tac g_mat_set_col ok_mat_set_col. Qed.
Lemma guard_mat_delete_row_lemma : forall r c row : Z, 0 <= r -> 0 <= c -> 0 <= row -> (g_mat_delete_row r c row = false <-> ok_mat_delete_row r c row).
Proof. guard_tac g_mat_delete_row ok_mat_delete_row. Qed.
Lemma guard_mat_multiply_lemma : forall r c vl : Z, 0 <= r -> 0 <= c -> 0 <= vl -> (g_mat_multiply r c vl = false <-> ok_mat_multiply r c vl).
Proof. guard_tac g_mat_multiply ok_mat_multiply. Qed.
Lemma guard_mat_swap_rows_lemma : forall r c r1 r2 : Z, 0 <= r -> 0 <= c -> 0 <= r1 -> 0 <= r2 -> (g_mat_swap_rows r c r1 r2 = false <-> ok_mat_swap_rows r c r1 r2).
Proof. guard_tac g_mat_swap_rows ok_mat_swap_rows. Qed.
Lemma guard_mat_fill_row_lemma : forall r c row : Z, 0 <= r -> 0 <= c -> 0 <= row -> (g_mat_fill_row r c row = false <-> ok_mat_fill_row r c row).
Proof. guard_tac g_mat_fill_row ok_mat_fill_row. Qed.
Lemma guard_mat_fill_col_lemma : forall r c col : Z, 0 <= r -> 0 <= c -> 0 <= col -> (g_mat_fill_col r c col = false <-> ok_mat_fill_col r c col).
Proof. guard_tac g_mat_fill_col ok_mat_fill_col. Qed.
Lemma guard_mat_solve_basic_lemma : forall r c bl : Z, 0 <= r -> 0 <= c -> 0 <= bl -> (g_mat_solve_basic r c bl = false <-> ok_mat_solve_basic r c bl).
Proof. guard_tac g_mat_solve_basic ok_mat_solve_basic. Qed.
Lemma guard_mat_lu_lemma : forall r c : Z, 0 <= r -> 0 <= c -> (g_mat_lu r c = false <-> ok_mat_lu r c).
Proof. guard_tac g_mat_lu ok_mat_lu. Qed.
Lemma guard_mat_solve_lu_lemma : forall r c bl : Z, 0 <= r -> 0 <= c -> 0 <= bl -> (g_mat_solve_lu r c bl = false <-> ok_mat_solve_lu r c bl).
Proof. guard_tac g_mat_solve_lu ok_mat_solve_lu. Qed.
Lemma guard_mat_inverse_lemma : forall r c : Z, 0 <= r -> 0 <= c -> (g_mat_inverse r c = false <-> ok_mat_inverse r c).
Proof. guard_tac g_mat_inverse ok_mat_inverse. Qed.
Lemma guard_mat_determinant_lemma : forall r c : Z, 0 <= r -> 0 <= c -> (g_mat_determinant r c = false <-> ok_mat_determinant r c).
Proof. guard_tac g_mat_determinant ok_mat_determinant. Qed.
Lemma guard_mat_add_ref_lemma : forall r c r2 c2 : Z, 0 <= r -> 0 <= c -> 0 <= r2 -> 0 <= c2 -> (g_mat_add_ref r c r2 c2 = false <-> ok_mat_add_ref r c r2 c2).
Proof. guard_tac g_mat_add_ref ok_mat_add_ref. Qed.
Lemma guard_mat_sub_ref_lemma : forall r c r2 c2 : Z, 0 <= r -> 0 <= c -> 0 <= r2 -> 0 <= c2 -> (g_mat_sub_ref r c r2 c2 = false <-> ok_mat_sub_ref r c r2 c2).
Proof. guard_tac g_mat_sub_ref ok_mat_sub_ref. Qed.
Lemma guard_mat_add_assign_ref_lemma : forall r c r2 c2 : Z, 0 <= r -> 0 <= c -> 0 <= r2 -> 0 <= c2 -> (g_mat_add_assign_ref r c r2 c2 = false <-> ok_mat_add_assign_ref r c r2 c2).
Proof. guard_tac g_mat_add_assign_ref ok_mat_add_assign_ref. Qed.
Lemma guard_mat_sub_assign_ref_lemma : forall r c r2 c2 : Z, 0 <= r -> 0 <= c -> 0 <= r2 -> 0 <= c2 -> (g_mat_sub_assign_ref r c r2 c2 = false <-> ok_mat_sub_assign_ref r c r2 c2).
Proof. guard_tac g_mat_sub_assign_ref ok_mat_sub_assign_ref. Qed.
Lemma guard_mat_mul_ref_lemma : forall r c r2 c2 : Z, 0 <= r -> 0 <= c -> 0 <= r2 -> 0 <= c2 -> (g_mat_mul_ref r c r2 c2 = false <-> ok_mat_mul_ref r c r2 c2).
Proof. guard_tac g_mat_mul_ref ok_mat_mul_ref. Qed.
Lemma guard_band_fill_band_lemma : forall n m1 m2 band : Z, 0 <= n -> 0 <= m1 -> 0 <= m2 -> (g_band_fill_band n m1 m2 band = false <-> ok_band_fill_band n m1 m2 band).
Proof. guard_tac g_band_fill_band ok_band_fill_band. Qed.
Lemma guard_band_solve_lemma : forall n m1 m2 bl : Z, 0 <= n -> 0 <= m1 -> 0 <= m2 -> 0 <= bl -> (g_band_solve n m1 m2 bl = false <-> ok_band_solve n m1 m2 bl).
Proof. guard_tac g_band_solve ok_band_solve. Qed.
Lemma guard_band_index_lemma : forall n m1 m2 i j : Z, 0 <= n -> 0 <= m1 -> 0 <= m2 -> 0 <= i -> 0 <= j -> (g_band_index n m1 m2 i j = false <-> ok_band_index n m1 m2 i j).
Proof. guard_tac g_band_index ok_band_index. Qed.
Lemma guard_band_index_mut_lemma : forall n m1 m2 i j : Z, 0 <= n -> 0 <= m1 -> 0 <= m2 -> 0 <= i -> 0 <= j -> (g_band_index_mut n m1 m2 i j = false <-> ok_band_index_mut n m1 m2 i j).
Proof. guard_tac g_band_index_mut ok_band_index_mut. Qed.
Lemma guard_band_add_ref_lemma : forall n m1 m2 n2 p1 p2 : Z, 0 <= n -> 0 <= m1 -> 0 <= m2 -> 0 <= n2 -> 0 <= p1 -> 0 <= p2 -> (g_band_add_ref n m1 m2 n2 p1 p2 = false <-> ok_band_add_ref n m1 m2 n2 p1 p2).
Proof. guard_tac g_band_add_ref ok_band_add_ref. Qed.
Lemma guard_band_sub_ref_lemma : forall n m1 m2 n2 p1 p2 : Z, 0 <= n -> 0 <= m1 -> 0 <= m2 -> 0 <= n2 -> 0 <= p1 -> 0 <= p2 -> (g_band_sub_ref n m1 m2 n2 p1 p2 = false <-> ok_band_sub_ref n m1 m2 n2 p1 p2).
Proof. guard_tac g_band_sub_ref ok_band_sub_ref. Qed.
Lemma guard_band_add_assign_ref_lemma : forall n m1 m2 n2 p1 p2 : Z, 0 <= n -> 0 <= m1 -> 0 <= m2 -> 0 <= n2 -> 0 <= p1 -> 0 <= p2 -> (g_band_add_assign_ref n m1 m2 n2 p1 p2 = false <-> ok_band_add_assign_ref n m1 m2 n2 p1 p2).
Proof. guard_tac g_band_add_assign_ref ok_band_add_assign_ref. Qed.
Lemma guard_band_sub_assign_ref_lemma : forall n m1 m2 n2 p1 p2 : Z, 0 <= n -> 0 <= m1 -> 0 <= m2 -> 0 <= n2 -> 0 <= p1 -> 0 <= p2 -> (g_band_sub_assign_ref n m1 m2 n2 p1 p2 = false <-> ok_band_sub_assign_ref n m1 m2 n2 p1 p2).
Proof. guard_tac g_band_sub_assign_ref ok_band_sub_assign_ref. Qed.
Lemma guard_band_mul_vec_lemma : forall n m1 m2 vl : Z, 0 <= n -> 0 <= m1 -> 0 <= m2 -> 0 <= vl -> (g_band_mul_vec n m1 m2 vl = false <-> ok_band_mul_vec n m1 m2 vl).
Proof. guard_tac g_band_mul_vec ok_band_mul_vec. Qed.
Lemma guard_tri_with_vectors_lemma : forall ns nm nu : Z, 0 <= ns -> 0 <= nm -> 0 <= nu -> (g_tri_with_vectors ns nm nu = false <-> ok_tri_with_vectors ns nm nu).
Proof. guard_tac g_tri_with_vectors ok_tri_with_vectors. Qed.
Lemma guard_tri_with_vecs_lemma : forall ns nm nu : Z, 0 <= ns -> 0 <= nm -> 0 <= nu -> (g_tri_with_vecs ns nm nu = false <-> ok_tri_with_vecs ns nm nu).
Proof. guard_tac g_tri_with_vecs ok_tri_with_vecs. Qed.
Lemma guard_tri_convert_lemma : forall n : Z, 0 <= n -> (g_tri_convert n = false <-> ok_tri_convert n).
Proof. guard_tac g_tri_convert ok_tri_convert. Qed.
Lemma guard_tri_solve_lemma : forall n rl : Z, 0 <= n -> 0 <= rl -> (g_tri_solve n rl = false <-> ok_tri_solve n rl).
Proof. guard_tac g_tri_solve ok_tri_solve. Qed.
Lemma guard_tri_index_lemma : forall n i j : Z, 0 <= n -> 0 <= i -> 0 <= j -> (g_tri_index n i j = false <-> ok_tri_index n i j).
Proof. guard_tac g_tri_index ok_tri_index. Qed.
Lemma guard_tri_index_mut_lemma : forall n i j : Z, 0 <= n -> 0 <= i -> 0 <= j -> (g_tri_index_mut n i j = false <-> ok_tri_index_mut n i j).
Proof. guard_tac g_tri_index_mut ok_tri_index_mut. Qed.
Lemma guard_tri_add_lemma : forall n1 n2 : Z, 0 <= n1 -> 0 <= n2 -> (g_tri_add n1 n2 = false <-> ok_tri_add n1 n2).
Proof. guard_tac g_tri_add ok_tri_add. Qed.
Lemma guard_tri_sub_lemma : forall n1 n2 : Z, 0 <= n1 -> 0 <= n2 -> (g_tri_sub n1 n2 = false <-> ok_tri_sub n1 n2).
Proof. guard_tac g_tri_sub ok_tri_sub. Qed.
Lemma guard_tri_mul_vec_lemma : forall n vl : Z, 0 <= n -> 0 <= vl -> (g_tri_mul_vec n vl = false <-> ok_tri_mul_vec n vl).
Proof. guard_tac g_tri_mul_vec ok_tri_mul_vec. Qed.
Lemma guard_sp_from_triplets_lemma : forall r c row col : Z, 0 <= r -> 0 <= c -> 0 <= row -> 0 <= col -> (g_sp_from_triplets r c row col = false <-> ok_sp_from_triplets r c row col).
Proof. guard_tac g_sp_from_triplets ok_sp_from_triplets. Qed.
Lemma guard_sp_get_lemma : forall r c row col : Z, 0 <= r -> 0 <= c -> 0 <= row -> 0 <= col -> (g_sp_get r c row col = false <-> ok_sp_get r c row col).
Proof. guard_tac g_sp_get ok_sp_get. Qed.
Lemma guard_sp_insert_lemma : forall r c row col : Z, 0 <= r -> 0 <= c -> 0 <= row -> 0 <= col -> (g_sp_insert r c row col = false <-> ok_sp_insert r c row col).
Proof. guard_tac g_sp_insert ok_sp_insert. Qed.
Lemma guard_sp_multiply_lemma : forall r c xl : Z, 0 <= r -> 0 <= c -> 0 <= xl -> (g_sp_multiply r c xl = false <-> ok_sp_multiply r c xl).
Proof. guard_tac g_sp_multiply ok_sp_multiply. Qed.
Lemma guard_sp_transpose_multiply_lemma : forall r c xl : Z, 0 <= r -> 0 <= c -> 0 <= xl -> (g_sp_transpose_multiply r c xl = false <-> ok_sp_transpose_multiply r c xl).
Proof. guard_tac g_sp_transpose_multiply ok_sp_transpose_multiply. Qed.
Lemma guard_sp_solve_bicgstab_lemma : forall r c bl xl : Z, 0 <= r -> 0 <= c -> 0 <= bl -> 0 <= xl -> (g_sp_solve_bicgstab r c bl xl = false <-> ok_sp_solve_bicgstab r c bl xl).
Proof. guard_tac g_sp_solve_bicgstab ok_sp_solve_bicgstab. Qed.
Lemma guard_sp_solve_cg_lemma : forall r c bl xl : Z, 0 <= r -> 0 <= c -> 0 <= bl -> 0 <= xl -> (g_sp_solve_cg r c bl xl = false <-> ok_sp_solve_cg r c bl xl).
Proof. guard_tac g_sp_solve_cg ok_sp_solve_cg. Qed.
Lemma guard_sp_solve_qmr_lemma : forall r c bl xl : Z, 0 <= r -> 0 <= c -> 0 <= bl -> 0 <= xl -> (g_sp_solve_qmr r c bl xl = false <-> ok_sp_solve_qmr r c bl xl).
Proof. guard_tac g_sp_solve_qmr ok_sp_solve_qmr. Qed.
Lemma guard_sp_solve_bicg_lemma : forall r c bl xl itol : Z, 0 <= r -> 0 <= c -> 0 <= bl -> 0 <= xl -> 0 <= itol -> (g_sp_solve_bicg r c bl xl itol = false <-> ok_sp_solve_bicg r c bl xl itol).
Proof. guard_tac g_sp_solve_bicg ok_sp_solve_bicg. Qed.
Lemma guard_mesh1_set_nodes_vars_lemma : forall nn nv node vl : Z, 0 <= nn -> 0 <= nv -> 0 <= node -> 0 <= vl -> (g_mesh1_set_nodes_vars nn nv node vl = false <-> ok_mesh1_set_nodes_vars nn nv node vl).
Proof. guard_tac g_mesh1_set_nodes_vars ok_mesh1_set_nodes_vars. Qed.
Lemma guard_mesh1_get_nodes_vars_lemma : forall nn nv node : Z, 0 <= nn -> 0 <= nv -> 0 <= node -> (g_mesh1_get_nodes_vars nn nv node = false <-> ok_mesh1_get_nodes_vars nn nv node).
Proof. guard_tac g_mesh1_get_nodes_vars ok_mesh1_get_nodes_vars. Qed.
Lemma guard_mesh2_set_nodes_vars_lemma : forall nx ny nv i j vl : Z, 0 <= nx -> 0 <= ny -> 0 <= nv -> 0 <= i -> 0 <= j -> 0 <= vl -> (g_mesh2_set_nodes_vars nx ny nv i j vl = false <-> ok_mesh2_set_nodes_vars nx ny nv i j vl).
Proof. guard_tac g_mesh2_set_nodes_vars ok_mesh2_set_nodes_vars. Qed.
Lemma guard_mesh2_get_nodes_vars_lemma : forall nx ny i j : Z, 0 <= nx -> 0 <= ny -> 0 <= i -> 0 <= j -> (g_mesh2_get_nodes_vars nx ny i j = false <-> ok_mesh2_get_nodes_vars nx ny i j).
Proof. guard_tac g_mesh2_get_nodes_vars ok_mesh2_get_nodes_vars. Qed.
Lemma guard_mesh2_var_as_matrix_lemma : forall nx ny nv var : Z, 0 <= nx -> 0 <= ny -> 0 <= nv -> 0 <= var -> (g_mesh2_var_as_matrix nx ny nv var = false <-> ok_mesh2_var_as_matrix nx ny nv var).
Proof. guard_tac g_mesh2_var_as_matrix ok_mesh2_var_as_matrix. Qed.
Lemma guard_poly_index_lemma : forall len i : Z, 0 <= len -> 0 <= i -> (g_poly_index len i = false <-> ok_poly_index len i).
Proof. guard_tac g_poly_index ok_poly_index. Qed.
Lemma guard_poly_index_mut_lemma : forall len i : Z, 0 <= len -> 0 <= i -> (g_poly_index_mut len i = false <-> ok_poly_index_mut len i).
Proof. guard_tac g_poly_index_mut ok_poly_index_mut. Qed.
Lemma guard_poly_roots_degree_lemma : forall len : Z, 0 <= len -> 1 <= len -> (g_poly_roots_degree len = false <-> ok_poly_roots_degree len).
Proof. guard_tac g_poly_roots_degree ok_poly_roots_degree. Qed.
