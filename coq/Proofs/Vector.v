(* Proofs/Vector.v -- lemmas about Model/Vector.v and Model/VecOps.v over an abstract arithmetic (C15):
   range reductions, dot product laws over a ring, linspace end points over a field, and the pointwise
   list specification of every step of an edit history. *)
From Coq Require Import List Arith Lia Permutation Sorted Ring_theory Ring Field_theory Field Bool.
From OV Require Import Base.Panic Base.Arith Base.Flat Model.Complex Model.Vector Model.VecOps Proofs.ParDot.
Import ListNotations.

(* ------------------------------------------------------------------ list facts *)
Lemma nth_skipn_add {X} (l : list X) s k d : nth k (skipn s l) d = nth (s + k) l d.
Proof.
  revert l; induction s as [|s IH]; intros l; cbn [skipn plus]; auto.
  destruct l as [|h t]; [destruct k; reflexivity|]. cbn [nth]. apply IH.
Qed.

Lemma firstn_S_snoc {X} (l : list X) n d : n < length l -> firstn (S n) l = firstn n l ++ [nth n l d].
Proof.
  revert l; induction n as [|n IH]; intros [|h t] H; cbn in H; try lia; cbn [firstn nth app]; auto.
  f_equal. apply IH. lia.
Qed.

Lemma nth_firstn_lt {X} (l : list X) n i d : i < n -> nth i (firstn n l) d = nth i l d.
Proof.
  revert l i; induction n as [|n IH]; intros l i H; [lia|].
  destruct l as [|h t]; [now rewrite firstn_nil|]. destruct i; cbn; auto. apply IH; lia.
Qed.

Lemma nth_repeat_lt {X} (x d : X) n i : i < n -> nth i (repeat x n) d = x.
Proof. revert i; induction n as [|n IH]; intros [|i] H; cbn; auto; try lia. apply IH; lia. Qed.

Lemma nth_rev_last {X} (l : list X) x d : nth (length l) (l ++ [x]) d = x.
Proof. rewrite app_nth2 by lia. now rewrite Nat.sub_diag. Qed.

Section Generic.
Context {A : Arith}.
Notation T := (T A).

(* ------------------------------------------------------------------ sum_slice / product_slice *)
Lemma fold_add_firstn (l : list T) n : n <= length l ->
  fold_left add (firstn n l) zero = sum_n n (fun k => nth k l zero).
Proof.
  induction n as [|n IH]; intros H; [reflexivity|].
  rewrite (firstn_S_snoc l n zero) by lia. rewrite fold_left_app. cbn [fold_left sum_n].
  now rewrite IH by lia.
Qed.

(* value, for every in-range pair, and the exact panic condition (the three guards of the code) *)
Lemma sum_slice_spec_lemma (v : list T) s e :
  (s <= e -> e < length v ->
     sum_slice v s e = Ok (sum_n (e - s + 1) (fun k => nth (s + k) v zero))) /\
  (e < s \/ length v <= e -> sum_slice v s e = Panic Guard).
Proof.
  unfold sum_slice, slice. split.
  - intros Hse He.
    destruct (Nat.ltb_spec e s); [lia|].
    destruct (Nat.leb_spec (length v) s); [lia|].
    destruct (Nat.leb_spec (length v) e); [lia|].
    f_equal. replace (e + 1 - s) with (e - s + 1) by lia.
    rewrite fold_add_firstn by (rewrite skipn_length; lia).
    apply sum_n_ext. intros k _. apply nth_skipn_add.
  - intros [H|H].
    + apply Nat.ltb_lt in H as ->. reflexivity.
    + destruct (e <? s); auto. destruct (Nat.leb_spec (length v) s); auto.
      apply Nat.leb_le in H as ->. reflexivity.
Qed.

Lemma vsum_spec_lemma (v : list T) :
  (v <> [] -> vsum v = Ok (sum_n (length v) (fun k => nth k v zero))) /\ (v = [] -> vsum v = Panic Underflow).
Proof.
  split.
  - intros Hne. unfold vsum, usub.
    assert (1 <= length v) by (destruct v; [congruence|cbn; lia]).
    destruct (Nat.leb_spec 1 (length v)); [|lia]. cbn [bind].
    rewrite (proj1 (sum_slice_spec_lemma v 0 (length v - 1))) by lia.
    f_equal. replace (length v - 1 - 0 + 1) with (length v) by lia. reflexivity.
  - intros ->. reflexivity.
Qed.

(* product of v[s..=e]: starts from v[s], multiplies on the right in index order *)
Fixpoint prod_from (x0 : T) (n : nat) (f : nat -> T) : T :=
  match n with 0 => x0 | S n' => mul (prod_from x0 n' f) (f n') end.

Lemma fold_mul_firstn (l : list T) n x0 : n <= length l ->
  fold_left mul (firstn n l) x0 = prod_from x0 n (fun k => nth k l zero).
Proof.
  induction n as [|n IH]; intros H; [reflexivity|].
  rewrite (firstn_S_snoc l n zero) by lia. rewrite fold_left_app. cbn [fold_left prod_from].
  now rewrite IH by lia.
Qed.

Lemma prod_from_ext x0 n (f g : nat -> T) : (forall k, k < n -> f k = g k) -> prod_from x0 n f = prod_from x0 n g.
Proof.
  induction n as [|n IH]; cbn; intros H; auto.
  rewrite IH by (intros; apply H; lia). now rewrite H by lia.
Qed.

Lemma product_slice_spec_lemma (v : list T) s e :
  (s <= e -> e < length v ->
     product_slice v s e = Ok (prod_from (nth s v zero) (e - s) (fun k => nth (s + 1 + k) v zero))) /\
  (e < s \/ length v <= e -> product_slice v s e = Panic Guard).
Proof.
  unfold product_slice, slice. split.
  - intros Hse He.
    destruct (Nat.ltb_spec e s); [lia|].
    destruct (Nat.leb_spec (length v) s); [lia|].
    destruct (Nat.leb_spec (length v) e); [lia|].
    rewrite (rd_ok v s zero) by lia. cbn [bind]. f_equal.
    replace (e + 1 - (s + 1)) with (e - s) by lia.
    rewrite fold_mul_firstn by (rewrite skipn_length; lia).
    apply prod_from_ext. intros k _. apply nth_skipn_add.
  - intros [H|H].
    + apply Nat.ltb_lt in H as ->. reflexivity.
    + destruct (e <? s); auto. destruct (Nat.leb_spec (length v) s); auto.
      apply Nat.leb_le in H as ->. reflexivity.
Qed.

(* ------------------------------------------------------------------ element-wise operators, pointwise *)
Lemma nth_zipw (f : T -> T -> T) (u w : list T) i : i < length u -> i < length w ->
  nth i (zipw f u w) zero = f (nth i u zero) (nth i w zero).
Proof.
  revert w i; induction u as [|x u IH]; intros [|y w] i Hu Hw; cbn in Hu, Hw; try lia.
  destruct i as [|i]; [reflexivity|]. unfold zipw in *. cbn. apply IH; lia.
Qed.

Lemma nth_map_lt (f : T -> T) (u : list T) i : i < length u -> nth i (map f u) zero = f (nth i u zero).
Proof.
  revert i; induction u as [|x u IH]; intros i H; cbn in H; [lia|].
  destruct i as [|i]; [reflexivity|]. cbn. apply IH; lia.
Qed.

(* &u + &w, &u - &w: defined exactly on equal sizes, then entry i is u[i] op w[i]; unary minus, the scalar
   forms and abs entry by entry (the compound assignments are the same functions) *)
Lemma elementwise_spec_lemma (u w : list T) (c : T) :
  (length u = length w -> exists s d, vadd u w = Ok s /\ vsub u w = Ok d /\ length s = length u /\ length d = length u /\
      forall i, i < length u -> nth i s zero = add (nth i u zero) (nth i w zero) /\
                                nth i d zero = sub (nth i u zero) (nth i w zero)) /\
  (length u <> length w -> vadd u w = Panic Guard /\ vsub u w = Panic Guard) /\
  (length (vneg u) = length u /\ length (vscale u c) = length u /\ length (vscale_l c u) = length u /\
   length (vabs u) = length u /\ length (vadd_scalar u c) = length u /\ length (vsub_scalar u c) = length u) /\
  (forall i, i < length u ->
      nth i (vneg u) zero = neg (nth i u zero) /\ nth i (vscale u c) zero = mul (nth i u zero) c /\
      nth i (vscale_l c u) zero = mul c (nth i u zero) /\ nth i (vabs u) zero = abs (nth i u zero) /\
      nth i (vadd_scalar u c) zero = add (nth i u zero) c /\ nth i (vsub_scalar u c) zero = sub (nth i u zero) c).
Proof.
  split; [|split; [|split]].
  - intros L. unfold vadd, vsub. rewrite L, Nat.eqb_refl. do 2 eexists. split; [reflexivity|]. split; [reflexivity|].
    unfold zipw at 1 2. rewrite !map_length, !combine_length. split; [lia|]. split; [lia|].
    intros i Hi. split; apply nth_zipw; lia.
  - intros L. unfold vadd, vsub. apply Nat.eqb_neq in L as ->. auto.
  - unfold vneg, vscale, vscale_l, vabs, vadd_scalar, vsub_scalar. now rewrite !map_length.
  - intros i Hi. unfold vneg, vscale, vscale_l, vabs, vadd_scalar, vsub_scalar.
    repeat split; now apply nth_map_lt.
Qed.

Lemma vadd_inv (u v s : list T) : vadd u v = Ok s -> length u = length v /\ s = zipw add u v.
Proof.
  unfold vadd. destruct (Nat.eqb_spec (length u) (length v)) as [L|L]; [|discriminate].
  intros E. split; [exact L|]. now injection E.
Qed.

End Generic.

(* ------------------------------------------------------------------ dot product over a ring *)
Section DotRing.
Local Open Scope arith_scope.
Context {A : Arith}.
Hypothesis RL : RingLaws A.
Notation T := (T A).
Add Ring ARingV : (rl_ring A RL).

(* right-fold form of the sum of products *)
Fixpoint dsum (u w : list T) : T :=
  match u, w with
  | x :: u', y :: w' => x * y + dsum u' w'
  | _, _ => zero
  end.

Lemma dot_from_dsum z (u w : list T) : dot_from z u w = z + dsum u w.
Proof.
  unfold dot_from. revert z w; induction u as [|x u IH]; intros z [|y w]; cbn; try ring.
  rewrite IH. ring.
Qed.

Lemma dot_raw_dsum (u w : list T) : dot_raw u w = dsum u w.
Proof. change (dot_from zero u w = dsum u w). rewrite dot_from_dsum. ring. Qed.

Lemma dsum_sym (u w : list T) : dsum u w = dsum w u.
Proof. revert w; induction u as [|x u IH]; intros [|y w]; cbn; auto. rewrite IH. ring. Qed.

Lemma dsum_add_l (u u' w : list T) : length u = length u' ->
  dsum (zipw add u u') w = dsum u w + dsum u' w.
Proof.
  revert u' w; induction u as [|x u IH]; intros [|x' u'] w H; cbn in H; try discriminate.
  - cbn. ring.
  - destruct w as [|y w]; unfold zipw; cbn; [ring|]. fold (zipw add u u'). rewrite IH by lia. ring.
Qed.

Lemma dsum_sub_l (u u' w : list T) : length u = length u' ->
  dsum (zipw sub u u') w = dsum u w - dsum u' w.
Proof.
  revert u' w; induction u as [|x u IH]; intros [|x' u'] w H; cbn in H; try discriminate.
  - cbn. ring.
  - destruct w as [|y w]; unfold zipw; cbn; [ring|]. fold (zipw sub u u'). rewrite IH by lia. ring.
Qed.

Lemma dsum_scale_l (u w : list T) c : dsum (vscale u c) w = c * dsum u w.
Proof.
  revert w; induction u as [|x u IH]; intros [|y w]; unfold vscale; cbn; try ring.
  fold (vscale u c). rewrite IH. ring.
Qed.

Lemma dsum_neg_l (u w : list T) : dsum (vneg u) w = - dsum u w.
Proof.
  revert w; induction u as [|x u IH]; intros [|y w]; unfold vneg; cbn; try ring.
  fold (vneg u). rewrite IH. ring.
Qed.

Lemma zipw_length (f : T -> T -> T) (u w : list T) : length (zipw f u w) = Nat.min (length u) (length w).
Proof. unfold zipw. now rewrite map_length, combine_length. Qed.

(* symmetric, for all inputs (the size guard is symmetric as well) *)
Lemma dot_sym_lemma (u w : list T) : dot u w = dot w u.
Proof.
  unfold dot. rewrite (Nat.eqb_sym (length w)). destruct (length u =? length w); auto.
  f_equal. rewrite !dot_raw_dsum. apply dsum_sym.
Qed.

(* defined exactly on equal sizes *)
Lemma dot_defined_lemma (u w : list T) :
  (length u = length w -> dot u w = Ok (dot_raw u w)) /\ (length u <> length w -> dot u w = Panic Guard).
Proof.
  unfold dot. split; intros H.
  - now rewrite H, Nat.eqb_refl.
  - apply Nat.eqb_neq in H as ->. reflexivity.
Qed.

(* bilinear: additive and homogeneous in the first argument; by symmetry in the second *)
Lemma dot_bilinear_lemma (u u' w : list T) (c : T) :
  length u = length u' -> length u = length w ->
  (exists s, vadd u u' = Ok s /\ dot s w = Ok (dot_raw u w + dot_raw u' w)) /\
  (exists d, vsub u u' = Ok d /\ dot d w = Ok (dot_raw u w - dot_raw u' w)) /\
  dot (vscale u c) w = Ok (c * dot_raw u w) /\
  dot (vneg u) w = Ok (- dot_raw u w) /\
  (exists s, vadd u u' = Ok s /\ dot w s = Ok (dot_raw w u + dot_raw w u')) /\
  dot w (vscale u c) = Ok (c * dot_raw w u).
Proof.
  intros H1 H2.
  assert (Ls : length (zipw add u u') = length w) by (rewrite zipw_length; lia).
  assert (Ld : length (zipw sub u u') = length w) by (rewrite zipw_length; lia).
  assert (Lc : length (vscale u c) = length w) by (unfold vscale; now rewrite map_length).
  assert (Ln : length (vneg u) = length w) by (unfold vneg; now rewrite map_length).
  unfold vadd, vsub. rewrite H1, Nat.eqb_refl.
  split; [|split; [|split; [|split; [|split]]]].
  - eexists; split; [reflexivity|]. rewrite (proj1 (dot_defined_lemma _ _) Ls). f_equal.
    rewrite !dot_raw_dsum. now apply dsum_add_l.
  - eexists; split; [reflexivity|]. rewrite (proj1 (dot_defined_lemma _ _) Ld). f_equal.
    rewrite !dot_raw_dsum. now apply dsum_sub_l.
  - rewrite (proj1 (dot_defined_lemma _ _) Lc). f_equal. rewrite !dot_raw_dsum. apply dsum_scale_l.
  - rewrite (proj1 (dot_defined_lemma _ _) Ln). f_equal. rewrite !dot_raw_dsum. apply dsum_neg_l.
  - eexists; split; [reflexivity|]. rewrite dot_sym_lemma. rewrite (proj1 (dot_defined_lemma _ _) Ls). f_equal.
    rewrite !dot_raw_dsum. rewrite (dsum_sym w u), (dsum_sym w u'). now apply dsum_add_l.
  - rewrite dot_sym_lemma. rewrite (proj1 (dot_defined_lemma _ _) Lc). f_equal.
    rewrite !dot_raw_dsum. rewrite (dsum_sym w u). apply dsum_scale_l.
Qed.

End DotRing.

(* ------------------------------------------------------------------ linspace over a field *)
(* what `n as f64` must satisfy in the abstract: 0 ↦ 0, successor ↦ +1, and no positive count is 0
   (characteristic 0).  Met by INR over R and by inject_Z over Qc; a Section hypothesis, never an assumption
   of the development. *)
Record OfNatLaws (F : SArith) : Prop := {
  on_0 : @of_nat F 0 = zero;
  on_S : forall n, @of_nat F (S n) = add (of_nat n) one;
  on_nz : forall n, @of_nat F (S n) <> zero;
}.

Section Linspace.
Local Open Scope arith_scope.
Context {F : SArith}.
Variable FL : FieldLaws F.
Hypothesis ON : OfNatLaws F.
Notation T := (T F).
Notation inv := (fl_inv F FL).
Add Field AFieldV : (fl_field F FL).

Lemma of_nat_pred n : 1 <= n -> @of_nat F n - one = of_nat (n - 1)%nat.
Proof.
  intros H. destruct n as [|n]; [lia|]. rewrite (on_S F ON). replace (S n - 1)%nat with n by lia. ring.
Qed.

Lemma eqb_false_of_neq (x y : T) : x <> y -> eqb x y = false.
Proof. intros H. destruct (eqb x y) eqn:E; auto. apply (fl_eqb F FL) in E. contradiction. Qed.

Lemma linspace_ok (a b : T) n : 2 <= n ->
  linspace a b n = Ok (map (fun i => a + ((b - a) * inv (of_nat (n - 1)%nat)) * of_nat i) (seq 0 n)).
Proof.
  intros Hn. unfold linspace. rewrite (fl_div F FL). rewrite of_nat_pred by lia.
  destruct (n - 1)%nat as [|k] eqn:Ek; [lia|].
  rewrite eqb_false_of_neq by (apply (on_nz F ON)). reflexivity.
Qed.

Lemma linspace_ends_lemma (a b : T) n : 2 <= n ->
  exists l, linspace a b n = Ok l /\ length l = n /\ hd zero l = a /\ last l zero = b.
Proof.
  intros Hn. rewrite linspace_ok by exact Hn. eexists; split; [reflexivity|].
  split; [now rewrite map_length, seq_length|].
  destruct n as [|[|k]]; try lia. split.
  - cbn [seq map hd]. rewrite (on_0 F ON). ring.
  - rewrite seq_S, map_app. cbn [map]. rewrite last_last. cbn [plus].
    replace (S (S k) - 1)%nat with (S k) by lia.
    field. apply (on_nz F ON).
Qed.

(* vector / scalar over a field: a zero divisor panics (on a non-empty vector: the first element divides first),
   otherwise entry i is v[i] * s^-1; the empty vector divides by anything *)
Lemma vdiv_spec_lemma (v : list T) (s : T) :
  (s <> zero -> vdiv v s = Ok (map (fun x => x * inv s) v)) /\
  (s = zero -> v <> [] -> vdiv v s = Panic DivZero) /\
  (v = [] -> vdiv v s = Ok []).
Proof.
  unfold vdiv. split; [|split].
  - intros Hs. induction v as [|x t IH]; cbn [mapM map]; auto.
    rewrite (fl_div F FL), (eqb_false_of_neq s zero Hs). cbn [bind]. rewrite IH. reflexivity.
  - intros -> Hne. destruct v as [|x t]; [congruence|]. cbn [mapM].
    rewrite (fl_div F FL). assert (E : eqb (@zero F) zero = true) by (now apply (fl_eqb F FL)).
    rewrite E. reflexivity.
  - intros ->. reflexivity.
Qed.

End Linspace.

(* ------------------------------------------------------------------ edit histories refine lists *)
Section Refine.
Context {A : Arith}.
Notation T := (T A).
Variable sorter : list T -> list T.

(* the contract of Vec::sort_unstable_by(partial_cmp): some sorted permutation *)
Definition le_rel (x y : T) : Prop := leb x y = true.
Definition sorter_ok : Prop := forall l, Permutation (sorter l) l /\ Sorted le_rel (sorter l).

Notation "v @ i" := (nth i v zero) (at level 9, i at level 9, format "v @ i").

(* Pointwise ("textbook") specification of one step: what the answer must be, as a function of the list before.
   Every editing operation of the property text has its full specification, including the exact condition
   under which it panics and with which class; the remaining operations are specified as far as the state
   is concerned (value-returning: state unchanged; compound assignments: size guard and length). *)
Definition step_spec (v : list T) (o : vop A) (r : res (list T * vval A)) : Prop :=
  match o with
  | VPush x => exists v', r = Ok (v', (@RNone A)) /\ length v' = S (length v) /\
                 (forall i, i < length v -> v'@i = v@i) /\ v'@(length v) = x
  | VPushFront x => exists v', r = Ok (v', (@RNone A)) /\ length v' = S (length v) /\
                 v'@0 = x /\ (forall i, i < length v -> v'@(S i) = v@i)
  | VInsert pos x =>
      (pos <= length v -> exists v', r = Ok (v', (@RNone A)) /\ length v' = S (length v) /\
          (forall i, i < pos -> v'@i = v@i) /\ v'@pos = x /\
          (forall i, pos <= i < length v -> v'@(S i) = v@i)) /\
      (length v < pos -> r = Panic Index)
  | VPop =>
      (v <> [] -> exists v', r = Ok (v', RS (v@(length v - 1))) /\ length v' = length v - 1 /\
          (forall i, i < length v - 1 -> v'@i = v@i)) /\
      (v = [] -> r = Panic Unwrap)
  | VSwap i j =>
      (i < length v /\ j < length v -> exists v', r = Ok (v', (@RNone A)) /\ length v' = length v /\
          v'@i = v@j /\ v'@j = v@i /\ (forall k, k <> i -> k <> j -> v'@k = v@k)) /\
      (length v <= i \/ length v <= j -> r = Panic Index)
  | VResize n => exists v', r = Ok (v', (@RNone A)) /\ length v' = n /\
                 (forall i, i < n -> v'@i = if i <? length v then v@i else zero)
  | VAssign x => exists v', r = Ok (v', (@RNone A)) /\ length v' = length v /\ (forall i, i < length v -> v'@i = x)
  | VClear => r = Ok ([], (@RNone A))
  | VSort => exists v', r = Ok (v', (@RNone A)) /\ Permutation v' v /\ Sorted le_rel v'
  | VFind x =>
      (forall k, k < length v -> eqb v@k x = true -> (forall i, i < k -> eqb v@i x = false) -> r = Ok (v, RN k)) /\
      ((forall i, i < length v -> eqb v@i x = false) -> v <> [] -> r = Ok (v, RN (length v - 1))) /\
      (v = [] -> r = Panic Underflow)
  | VSet i x =>
      (i < length v -> exists v', r = Ok (v', (@RNone A)) /\ length v' = length v /\ v'@i = x /\
          (forall k, k <> i -> v'@k = v@k)) /\
      (length v <= i -> r = Panic Index)
  | VGet i => (i < length v -> r = Ok (v, RS v@i)) /\ (length v <= i -> r = Panic Index)
  | VSize => r = Ok (v, RN (length v))
  | VAddAssign w | VSubAssign w =>
      (length v = length w -> exists v', r = Ok (v', (@RNone A)) /\ length v' = length v) /\
      (length v <> length w -> r = Panic Guard)
  | VAddAssignS _ | VSubAssignS _ | VMulAssignS _ =>
      exists v', r = Ok (v', (@RNone A)) /\ length v' = length v
  | VDivAssignS _ => forall v' x, r = Ok (v', x) -> length v' = length v
  | VCloneMut x => exists v', r = Ok (v', (@RNone A)) /\ length v' = S (length v)
  | _ => forall v' x, r = Ok (v', x) -> v' = v              (* &self operations: the vector is unchanged *)
  end.

Lemma nth_insert_lt (v : list T) pos x i : pos <= length v -> i < pos ->
  (firstn pos v ++ x :: skipn pos v)@i = v@i.
Proof.
  intros Hp Hi. rewrite app_nth1 by (rewrite firstn_length; lia). now apply nth_firstn_lt.
Qed.

Lemma nth_insert_eq (v : list T) pos x : pos <= length v -> (firstn pos v ++ x :: skipn pos v)@pos = x.
Proof.
  intros Hp. rewrite app_nth2 by (rewrite firstn_length; lia).
  rewrite firstn_length. replace (pos - Nat.min pos (length v)) with 0 by lia. reflexivity.
Qed.

Lemma nth_insert_gt (v : list T) pos x i : pos <= i < length v ->
  (firstn pos v ++ x :: skipn pos v)@(S i) = v@i.
Proof.
  intros Hi. rewrite app_nth2 by (rewrite firstn_length; lia).
  rewrite firstn_length. replace (S i - Nat.min pos (length v)) with (S (i - pos)) by lia.
  cbn [nth]. rewrite nth_skipn_add. f_equal. lia.
Qed.

Lemma vpop_spec (v : list T) :
  (v <> [] -> exists v', vpop v = Ok (v', v@(length v - 1)) /\ length v' = length v - 1 /\
      (forall i, i < length v - 1 -> v'@i = v@i)) /\
  (v = [] -> vpop v = Panic Unwrap).
Proof.
  split; [|intros ->; reflexivity].
  intros Hne. destruct (exists_last Hne) as (l & x & ->).
  unfold vpop. rewrite rev_unit. rewrite rev_involutive. exists l.
  rewrite app_length. cbn [length]. replace (length l + 1 - 1) with (length l) by lia.
  rewrite nth_rev_last. split; [reflexivity|]. split; [reflexivity|].
  intros i Hi. now rewrite app_nth1 by lia.
Qed.

Lemma find_first_spec (v : list T) x base :
  match find_first v x base with
  | Some r => exists k, r = base + k /\ k < length v /\ eqb v@k x = true /\ forall i, i < k -> eqb v@i x = false
  | None => forall i, i < length v -> eqb v@i x = false
  end.
Proof.
  revert base; induction v as [|h t IH]; intros base; cbn [find_first].
  - intros i Hi; cbn in Hi; lia.
  - destruct (eqb h x) eqn:E.
    + exists 0. split; [lia|]. split; [cbn; lia|]. split; [exact E|]. intros i Hi; lia.
    + specialize (IH (S base)). destruct (find_first t x (S base)) as [r|].
      * destruct IH as (k & -> & Hk & Hkx & Hlt). exists (S k). split; [lia|]. split; [cbn; lia|].
        split; [exact Hkx|]. intros [|i] Hi; cbn; auto. apply Hlt; lia.
      * intros [|i] Hi; cbn; auto. apply IH. cbn in Hi; lia.
Qed.

Lemma vfind_spec (v : list T) x :
  (forall k, k < length v -> eqb v@k x = true -> (forall i, i < k -> eqb v@i x = false) -> vfind v x = Ok k) /\
  ((forall i, i < length v -> eqb v@i x = false) -> v <> [] -> vfind v x = Ok (length v - 1)) /\
  (v = [] -> vfind v x = Panic Underflow).
Proof.
  unfold vfind. pose proof (find_first_spec v x 0) as H.
  split; [|split].
  - intros k Hk Hkx Hlt. destruct (find_first v x 0) as [r|].
    + destruct H as (k' & -> & Hk' & Hk'x & Hlt'). cbn. f_equal.
      destruct (Nat.lt_trichotomy k k') as [L|[E|L]]; auto.
      * rewrite (Hlt' k L) in Hkx. discriminate.
      * rewrite (Hlt k' L) in Hk'x. discriminate.
    + rewrite (H k Hk) in Hkx. discriminate.
  - intros Hnone Hne. destruct (find_first v x 0) as [r|].
    + destruct H as (k' & -> & Hk' & Hk'x & _). rewrite (Hnone k' Hk') in Hk'x. discriminate.
    + unfold usub. destruct v; [congruence|]. cbn. reflexivity.
  - intros ->. reflexivity.
Qed.

Lemma vswap_spec (v : list T) i j :
  (i < length v /\ j < length v -> exists v', vswap v i j = Ok v' /\ length v' = length v /\
      v'@i = v@j /\ v'@j = v@i /\ (forall k, k <> i -> k <> j -> v'@k = v@k)) /\
  (length v <= i \/ length v <= j -> vswap v i j = Panic Index).
Proof.
  unfold vswap. split.
  - intros [Hi Hj]. rewrite (rd_ok v i zero), (rd_ok v j zero) by lia. cbn [bind].
    rewrite upd_ok by lia. cbn [bind]. rewrite upd_ok by (rewrite upd_list_length; lia).
    eexists; split; [reflexivity|]. rewrite !upd_list_length. split; [reflexivity|].
    split; [|split].
    + rewrite nth_upd_list by (rewrite upd_list_length; lia).
      destruct (Nat.eqb_spec i j) as [->|Hne]; auto.
      rewrite nth_upd_list by lia. now rewrite Nat.eqb_refl.
    + rewrite nth_upd_list by (rewrite upd_list_length; lia). now rewrite Nat.eqb_refl.
    + intros k Hki Hkj. rewrite nth_upd_list by (rewrite upd_list_length; lia).
      destruct (Nat.eqb_spec k j); [contradiction|]. rewrite nth_upd_list by lia.
      destruct (Nat.eqb_spec k i); [contradiction|]. reflexivity.
  - intros [H|H].
    + now rewrite rd_panic.
    + destruct (rd v i) as [a|k] eqn:E; cbn [bind].
      * now rewrite rd_panic.
      * unfold rd in E. destruct (nth_error v i); [discriminate|]. now injection E as <-.
Qed.

Lemma vresize_spec (v : list T) n :
  length (vresize v n) = n /\ forall i, i < n -> (vresize v n)@i = if i <? length v then v@i else zero.
Proof.
  unfold vresize. split.
  - rewrite app_length, firstn_length, repeat_length. lia.
  - intros i Hi. destruct (Nat.ltb_spec i (length v)).
    + rewrite app_nth1 by (rewrite firstn_length; lia). now apply nth_firstn_lt.
    + rewrite app_nth2 by (rewrite firstn_length; lia). rewrite firstn_length.
      apply nth_repeat_lt. lia.
Qed.

Lemma nth_map_const {X Y} (l : list X) (x d : Y) i : i < length l -> nth i (map (fun _ => x) l) d = x.
Proof. revert i; induction l as [|h t IH]; intros [|i] H; cbn in *; auto; try lia. apply IH; lia. Qed.

Lemma step_refines (Hs : sorter_ok) (v : list T) (o : vop A) : step_spec v o (vstep sorter v o).
Proof.
  destruct o; cbn [step_spec vstep].
  - (* push *) exists (vpush v x). unfold vpush. rewrite app_length. cbn [length].
    split; [reflexivity|]. split; [lia|]. split.
    + intros i Hi. now rewrite app_nth1.
    + apply nth_rev_last.
  - (* push_front *) exists (x :: v). repeat split; auto.
  - (* insert *) unfold vinsert. split.
    + intros Hp. apply Nat.leb_le in Hp as Hb. rewrite Hb. cbn [bind].
      eexists; split; [reflexivity|]. split.
      * rewrite app_length. cbn [length]. rewrite firstn_length, skipn_length. lia.
      * split; [intros i Hi; now apply nth_insert_lt|]. split; [now apply nth_insert_eq|].
        intros i Hi. now apply nth_insert_gt.
    + intros Hp. destruct (Nat.leb_spec pos (length v)); [lia|]. reflexivity.
  - (* pop *) destruct (vpop_spec v) as [H1 H2]. split.
    + intros Hne. destruct (H1 Hne) as (v' & E & L & N). rewrite E. cbn [bind fst snd]. exists v'. auto.
    + intros E. rewrite (H2 E). reflexivity.
  - (* swap *) destruct (vswap_spec v i j) as [H1 H2]. split.
    + intros Hij. destruct (H1 Hij) as (v' & E & R). rewrite E. cbn [bind]. exists v'. auto.
    + intros Hij. rewrite (H2 Hij). reflexivity.
  - (* resize *) destruct (vresize_spec v n) as [L N]. exists (vresize v n). auto.
  - (* assign *) exists (vassign v x). unfold vassign. rewrite map_length. repeat split; auto.
    intros i Hi. now apply nth_map_const.
  - (* clear *) reflexivity.
  - (* sort *) destruct (Hs v) as [P S]. exists (sorter v). auto.
  - (* find *) destruct (vfind_spec v x) as (H1 & H2 & H3). split; [|split].
    + intros k Hk Hkx Hlt. now rewrite (H1 k Hk Hkx Hlt).
    + intros Hn Hne. now rewrite (H2 Hn Hne).
    + intros E. now rewrite (H3 E).
  - (* set *) unfold vset. split.
    + intros Hi. rewrite upd_ok by lia. cbn [bind]. eexists; split; [reflexivity|].
      rewrite upd_list_length. split; [reflexivity|]. split.
      * rewrite nth_upd_list by lia. now rewrite Nat.eqb_refl.
      * intros k Hk. rewrite nth_upd_list by lia. destruct (Nat.eqb_spec k i); [contradiction|reflexivity].
    + intros Hi. unfold upd. destruct (Nat.ltb_spec i (length v)); [lia|]. reflexivity.
  - (* add_assign *) unfold vadd_assign, vadd. split; intros H.
    + rewrite H, Nat.eqb_refl. cbn [bind]. eexists; split; [reflexivity|].
      unfold zipw. rewrite map_length, combine_length. lia.
    + apply Nat.eqb_neq in H as ->. reflexivity.
  - (* sub_assign *) unfold vsub_assign, vsub. split; intros H.
    + rewrite H, Nat.eqb_refl. cbn [bind]. eexists; split; [reflexivity|].
      unfold zipw. rewrite map_length, combine_length. lia.
    + apply Nat.eqb_neq in H as ->. reflexivity.
  - eexists; split; [reflexivity|]. unfold vadd_scalar. now rewrite map_length.
  - eexists; split; [reflexivity|]. unfold vsub_scalar. now rewrite map_length.
  - eexists; split; [reflexivity|]. unfold vmul_scalar, vscale. now rewrite map_length.
  - (* div_assign_s *) intros v' r E. apply bind_ok in E as (y & E1 & E2). injection E2 as <- _.
    unfold vdiv_scalar, vdiv in E1. apply mapM_length in E1. exact E1.
  - (* get *) unfold vget. split; intros H.
    + now rewrite (rd_ok v i zero) by lia.
    + now rewrite rd_panic.
  - reflexivity.
  - intros v' r E. apply bind_ok in E as (y & _ & E2). now injection E2 as <- _.
  - intros v' r E. apply bind_ok in E as (y & _ & E2). now injection E2 as <- _.
  - intros v' r E. apply bind_ok in E as (y & _ & E2). now injection E2 as <- _.
  - intros v' r E. apply bind_ok in E as (y & _ & E2). now injection E2 as <- _.
  - intros v' r E. apply bind_ok in E as (y & _ & E2). now injection E2 as <- _.
  - intros v' r E. apply bind_ok in E as (y & _ & E2). now injection E2 as <- _.
  - intros v' r E. apply bind_ok in E as (y & _ & E2). now injection E2 as <- _.
  - intros v' r E. now injection E as <- _.
  - intros v' r E. now injection E as <- _.
  - intros v' r E. apply bind_ok in E as (y & _ & E2). now injection E2 as <- _.
  - intros v' r E. now injection E as <- _.
  - intros v' r E. now injection E as <- _.
  - (* clone_mut *) exists (vpush v x). unfold vpush. rewrite app_length. cbn [length]. split; [reflexivity|lia].
Qed.

(* the sorter used to RUN the model meets the contract whenever the order is total *)
Lemma insert_by_perm (le : T -> T -> bool) x l : Permutation (insert_by le x l) (x :: l).
Proof.
  induction l as [|h t IH]; cbn [insert_by]; auto.
  destruct (le x h); auto. apply perm_trans with (h :: x :: t); [now apply perm_skip|apply perm_swap].
Qed.

Lemma isort_perm (le : T -> T -> bool) l : Permutation (isort le l) l.
Proof.
  induction l as [|h t IH]; cbn; auto. unfold isort in *. cbn [fold_right].
  apply perm_trans with (h :: fold_right (insert_by le) [] t); [apply insert_by_perm|now apply perm_skip].
Qed.

Lemma insert_by_sorted (le : T -> T -> bool) (Htot : forall x y, le x y = true \/ le y x = true) x l :
  Sorted (fun a b => le a b = true) l -> Sorted (fun a b => le a b = true) (insert_by le x l).
Proof.
  induction l as [|h t IH]; intros Hs; cbn [insert_by].
  - repeat constructor.
  - destruct (le x h) eqn:E.
    + constructor; auto.
    + inversion Hs as [|? ? Hst Hh]; subst. constructor; [now apply IH|].
      assert (Hhx : le h x = true) by (destruct (Htot x h) as [H|H]; [congruence|exact H]).
      destruct t as [|h2 t2]; cbn [insert_by].
      * constructor. exact Hhx.
      * destruct (le x h2); constructor; auto. inversion Hh; auto.
Qed.

Lemma isort_sorter_ok (Htot : forall x y : T, leb x y = true \/ leb y x = true) :
  forall l, Permutation (isort leb l) l /\ Sorted le_rel (isort leb l).
Proof.
  intros l. split; [apply isort_perm|]. unfold le_rel.
  induction l as [|h t IH]; cbn; [constructor|]. unfold isort in *. cbn [fold_right].
  now apply insert_by_sorted.
Qed.

(* every step of every history satisfies its specification; the state is threaded as in [vrun_state]
   (a panicking operation leaves the vector as it was) *)
Fixpoint run_spec (v : list T) (ops : list (vop A)) : Prop :=
  match ops with
  | [] => True
  | o :: t => step_spec v o (vstep sorter v o) /\
              run_spec (match vstep sorter v o with Ok (v', _) => v' | Panic _ => v end) t
  end.

Lemma vec_run_refines_lemma (Hs : sorter_ok) (ops : list (vop A)) (v : list T) : run_spec v ops.
Proof.
  revert v; induction ops as [|o t IH]; intros v; cbn [run_spec]; auto.
  split; [now apply step_refines|apply IH].
Qed.

Lemma vrun_state_cons (v : list T) o t :
  vrun_state sorter v (o :: t) =
  vrun_state sorter (match vstep sorter v o with Ok (v', _) => v' | Panic _ => v end) t.
Proof. unfold vrun_state. cbn [fold_left]. destruct (vstep sorter v o) as [[v' r]|k]; reflexivity. Qed.

End Refine.

