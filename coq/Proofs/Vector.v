(* Proofs/Vector.v -- stub, to be filled in *)
