(* Proofs/BandedDet2Round.v -- rounding-error analysis of the banded matrix-vector product &B * &v in the STANDARD MODEL
   of floating-point arithmetic (the arithmetic [ARnd] of Proofs/TridiagRound.v: the operations are arbitrary functions
   on the reals with  fadd x y = (x + y)(1 + d),  fmul x y = (x y)(1 + d),  |d| <= u;  no underflow/overflow), so
   [band_mul] below is the SAME Gallina function that the correspondence check runs at Qc and at the IEEE floats.
   Result (componentwise backward error, Higham, Accuracy and Stability, sec. 3.5, with the band width in place of n):
   the computed product is the EXACT product (real arithmetic, [AR]) of a banded matrix B' with the same sizes whose
   every stored entry is that of B perturbed relatively by at most
        gamma = (1 + u)^(m1 + m2 + 2) - 1        (about (m1 + m2 + 2) u; independent of n),
   i.e.  fl(B v) = (B + dB) v,  |dB| <= gamma |B|  entry by entry.
   Route: (1) for ANY arithmetic, band_mul returns row by row the left-to-right accumulation [acc_from 0 ...] of the
   code (no ring law); (2) in the standard model an accumulation of products is an exact sum with one factor per
   term, each a product of at most len+1 factors (1 + d) -- the factors are defined explicitly from fadd/fmul, no
   choice principle; (3) the factors are folded into the stored entries and the exact product is band_mul_ok at AR. *)
From Coq Require Import List Arith Lia Bool ZArith Reals Lra Psatz.
From OV Require Import Base.Panic Base.Arith Model.Vector Model.Matrix Model.Banded Proofs.Banded Proofs.BandedLU Proofs.VectorR
                       Proofs.TridiagRound.
Import ListNotations.
Local Open Scope nat_scope.

(* ------------------------------------------------------------------ (1) any arithmetic: the accumulation of the code *)
Section Acc.
Context {A : Arith}.
Notation T := (T A).
Notation banded := (banded A).

Definition row_acc (B : banded) (v : list T) (i : nat) : T :=
  acc_from zero (row_cnt B i) (row_lo B i) (row_term B v i).

Lemma band_mul_acc (B : banded) (v : list T) :
  wfB B -> length v = bn B -> band_mul B v = Ok (map (row_acc B v) (seq 0 (bn B))).
Proof.
  intros Hwf Hv. unfold band_mul. rewrite Hv, Nat.eqb_refl. cbn [negb].
  set (n := bn B) in *.
  match goal with |- for_ 0 n ?body _ = _ => set (body0 := body) end.
  destruct (for_inv (fun i r => r = map (row_acc B v) (seq 0 i) ++ repeat zero (n - i)) 0 n body0 (repeat zero n))
    as (r & E & Hr).
  - lia.
  - cbn. now rewrite Nat.sub_0_r.
  - intros i r Hi ->. unfold body0.
    set (r0 := map (row_acc B v) (seq 0 i) ++ repeat zero (n - i)).
    assert (Hlen1 : length (map (row_acc B v) (seq 0 i)) = i) by now rewrite map_length, seq_length.
    assert (Hlen : length r0 = n).
    { unfold r0. rewrite app_length, Hlen1, repeat_length. lia. }
    assert (Hnth : nth i r0 zero = zero).
    { unfold r0. rewrite app_nth2 by lia. rewrite Hlen1, Nat.sub_diag.
      destruct (n - i) eqn:En; [lia|]. reflexivity. }
    assert (Hlo : Z.to_nat (Z.max 0 (- (Z.of_nat i - Z.of_nat (bm1 B)))) = row_lo B i)
      by (unfold row_lo; lia).
    assert (Hhi : Z.to_nat (Z.min (Z.of_nat (bm1 B) + Z.of_nat (bm2 B) + 1)
                              (Z.of_nat n - (Z.of_nat i - Z.of_nat (bm1 B)))) = row_lo B i + row_cnt B i)
      by (unfold row_lo, row_cnt; fold n; lia).
    rewrite Hlo, Hhi. unfold for_.
    replace (row_lo B i + row_cnt B i - row_lo B i) with (row_cnt B i) by lia.
    rewrite (acc_loop i (row_term B v i)).
    + eexists; split; [reflexivity|].
      rewrite Hnth. fold (row_acc B v i).
      unfold r0. destruct (n - i) as [|d] eqn:En; [lia|]. cbn [repeat].
      rewrite (upd_list_app_mid' _ _ _ _ i Hlen1).
      rewrite seq_S, map_app. cbn [map]. rewrite <- app_assoc. cbn [app].
      replace (n - S i) with d by lia. reflexivity.
    + lia.
    + intros s r' Hs Hr'.
      assert (Hs' : s < bm1 B + bm2 B + 1) by (unfold row_lo, row_cnt in Hs; fold n in Hs; lia).
      rewrite (rd_ok r' i zero) by auto. cbn [bind].
      rewrite mget_ok by (auto; lia). cbn [bind].
      assert (Hcol : Z.to_nat (Z.of_nat s + (Z.of_nat i - Z.of_nat (bm1 B))) = s + i - bm1 B)
        by (unfold row_lo in Hs; lia).
      rewrite Hcol.
      rewrite (rd_ok v (s + i - bm1 B) zero).
      2:{ rewrite Hv. unfold row_lo, row_cnt in Hs. fold n in Hs. lia. }
      cbn [bind]. rewrite upd_ok by auto. reflexivity.
  - rewrite E. f_equal. rewrite Hr, Nat.sub_diag. cbn. now rewrite app_nil_r.
Qed.

(* the accumulation reads the in-matrix slots of row i only: &B * &v does not see padding, over ANY arithmetic
   (band_mul_spec of Props/C04.v has this under ring laws) *)
Lemma acc_from_ext (x : T) len lo (t t' : nat -> T) :
  (forall j, lo <= j < lo + len -> t j = t' j) -> acc_from x len lo t = acc_from x len lo t'.
Proof.
  revert x lo; induction len as [|len IH]; intros x lo H; [reflexivity|].
  cbn [acc_from]. rewrite (H lo) by lia. apply IH. intros j Hj. apply H. lia.
Qed.

Lemma band_mul_padding_any_lemma (B B' : banded) (v : list T) :
  wfB B -> length v = bn B -> same_in_matrix_slots B B' -> band_mul B' v = band_mul B v.
Proof.
  intros Hwf Hv HS. pose proof HS as (Hwf' & Hn & H1 & H2 & H).
  rewrite (band_mul_acc B v Hwf Hv), (band_mul_acc B' v Hwf') by congruence.
  rewrite Hn. f_equal. apply map_ext_in. intros i Hi. apply in_seq in Hi.
  unfold row_acc, row_cnt, row_lo, row_term. rewrite Hn, H1, H2.
  apply acc_from_ext. intros s Hs. f_equal.
  set (j := s + i - bm1 B).
  assert (Hb : in_band (bm1 B) (bm2 B) i j = true) by (apply in_band_iff; unfold j; lia).
  specialize (H i j ltac:(lia) ltac:(unfold j; lia) Hb).
  replace (band_slot (bm1 B) i j) with s in H by (unfold band_slot, j; lia). exact H.
Qed.

End Acc.

(* ------------------------------------------------------------------ (2) real-number lemmas *)
Local Open Scope R_scope.

Section Bounds.
Variable u : R.
Hypothesis u_range : 0 <= u <= 1.

Definition pw (m : nat) : R := (1 + u) ^ m.

Lemma pw_ge1 m : 1 <= pw m.
Proof. unfold pw. apply pow_R1_Rle. lra. Qed.

Lemma pw_S m : pw (S m) = (1 + u) * pw m.
Proof. reflexivity. Qed.

Lemma pw_mono m k : (m <= k)%nat -> pw m <= pw k.
Proof. intros H. unfold pw. apply Rle_pow; [lra|exact H]. Qed.

Lemma rabs_le_inv x a : Rabs x <= a -> - a <= x <= a.
Proof. intros H. unfold Rabs in H. destruct (Rcase_abs x); lra. Qed.

(* one more factor (1 + d) *)
Lemma fac_step d e m : Rabs d <= u -> Rabs (e - 1) <= pw m - 1 -> Rabs ((1 + d) * e - 1) <= pw (S m) - 1.
Proof.
  intros Hd He. rewrite pw_S. pose proof (pw_ge1 m) as HP. set (P := pw m) in *.
  apply rabs_le_inv in Hd. apply rabs_le_inv in He. apply Rabs_le.
  destruct (Rle_dec 0 e) as [H0|H0].
  - split; nra.
  - assert (e < 0) by lra. split; nra.
Qed.

Lemma fac_weaken e m k : (m <= k)%nat -> Rabs (e - 1) <= pw m - 1 -> Rabs (e - 1) <= pw k - 1.
Proof. intros H He. pose proof (pw_mono m k H). lra. Qed.

End Bounds.

(* ------------------------------------------------------------------ (3) the standard model *)
Section Round.
Variable u : R.
Hypothesis u_range : 0 <= u <= 1.
Variables fadd fsub fmul fdiv : R -> R -> R.
Hypothesis fadd_ok : forall x y, exists d, Rabs d <= u /\ fadd x y = (x + y) * (1 + d).
Hypothesis fmul_ok : forall x y, exists d, Rabs d <= u /\ fmul x y = x * y * (1 + d).

Notation ARnd := (ARnd fadd fsub fmul fdiv).

(* the relative errors actually committed, as functions of the operands *)
Definition dA (x y : R) : R := if Req_EM_T (x + y) 0 then 0 else fadd x y / (x + y) - 1.
Definition dM (x y : R) : R := if Req_EM_T (x * y) 0 then 0 else fmul x y / (x * y) - 1.

Lemma dA_ok x y : Rabs (dA x y) <= u /\ fadd x y = (x + y) * (1 + dA x y).
Proof using u_range fadd_ok.
  destruct (fadd_ok x y) as (d & Hd & E). unfold dA. destruct (Req_EM_T (x + y) 0) as [Z|NZ].
  - rewrite Rabs_R0. split; [lra|]. rewrite E, Z. ring.
  - assert (Ed : fadd x y / (x + y) - 1 = d) by (rewrite E; field; exact NZ).
    rewrite Ed. split; auto.
Qed.

Lemma dM_ok x y : Rabs (dM x y) <= u /\ fmul x y = x * y * (1 + dM x y).
Proof using u_range fmul_ok.
  destruct (fmul_ok x y) as (d & Hd & E). unfold dM. destruct (Req_EM_T (x * y) 0) as [Z|NZ].
  - rewrite Rabs_R0. split; [lra|]. rewrite E, Z. ring.
  - assert (Ed : fmul x y / (x * y) - 1 = d)
      by (rewrite E; field; split; intros Z0; apply NZ; rewrite Z0; ring).
    rewrite Ed. split; auto.
Qed.

(* the factor that the start value x acquires in  acc_from x len lo t *)
Fixpoint fac0 (x : R) (len lo : nat) (t : nat -> R) : R :=
  match len with
  | O => 1
  | S l => (1 + dA x (t lo)) * fac0 (fadd x (t lo)) l (S lo) t
  end.

(* the factor of the k-th product a(lo+k) b(lo+k) *)
Fixpoint fack (x : R) (len lo : nat) (a b : nat -> R) (k : nat) : R :=
  match len with
  | O => 1
  | S l =>
      let t := fun j => fmul (a j) (b j) in
      match k with
      | O => (1 + dM (a lo) (b lo)) * ((1 + dA x (t lo)) * fac0 (fadd x (t lo)) l (S lo) t)
      | S k' => fack (fadd x (t lo)) l (S lo) a b k'
      end
  end.

Lemma sum_n_R_peel n (f : nat -> R) : @sum_n AR (S n) f = f O + @sum_n AR n (fun k => f (S k)).
Proof. exact (@sum_n_peel AR AR_FieldLaws n f). Qed.

Lemma acc_expand (a b : nat -> R) : forall len lo (x : R),
  @acc_from ARnd x len lo (fun j => fmul (a j) (b j)) =
  x * fac0 x len lo (fun j => fmul (a j) (b j)) +
  @sum_n AR len (fun k => a (lo + k)%nat * b (lo + k)%nat * fack x len lo a b k).
Proof using u_range fadd_ok fmul_ok.
  induction len as [|l IH]; intros lo x.
  - cbn. ring.
  - cbn [acc_from]. change (@add ARnd) with fadd. rewrite IH. rewrite sum_n_R_peel.
    cbn [fac0 fack]. rewrite Nat.add_0_r.
    destruct (dA_ok x (fmul (a lo) (b lo))) as (_ & EA). destruct (dM_ok (a lo) (b lo)) as (_ & EM).
    set (t := fun j => fmul (a j) (b j)) in *.
    rewrite (@sum_n_ext AR l (fun k => a (S lo + k)%nat * b (S lo + k)%nat * fack (fadd x (fmul (a lo) (b lo))) l (S lo) a b k)
                         (fun k => a (lo + S k)%nat * b (lo + S k)%nat * fack (fadd x (fmul (a lo) (b lo))) l (S lo) a b k)).
    2:{ intros k _. now replace (S lo + k)%nat with (lo + S k)%nat by lia. }
    set (F := fac0 (fadd x (fmul (a lo) (b lo))) l (S lo) t).
    set (Sm := @sum_n AR l _).
    set (D := dA x (fmul (a lo) (b lo))) in *.
    rewrite EA. rewrite EM at 1. change (@add AR) with Rplus. change (T AR) with R in *. change (T ARnd) with R in *. ring.
Qed.

Lemma fac0_bound t : forall len lo x, Rabs (fac0 x len lo t - 1) <= pw u len - 1.
Proof using u_range fadd_ok.
  induction len as [|l IH]; intros lo x.
  - cbn. replace (1 - 1) with 0 by ring. rewrite Rabs_R0. unfold pw. cbn. lra.
  - cbn [fac0]. apply fac_step; auto. apply dA_ok.
Qed.

Lemma fack_bound (a b : nat -> R) : forall len lo x k, (k < len)%nat ->
  Rabs (fack x len lo a b k - 1) <= pw u (len + 1) - 1.
Proof using u_range fadd_ok fmul_ok.
  induction len as [|l IH]; intros lo x k Hk; [lia|].
  destruct k as [|k]; cbn [fack].
  - replace (S l + 1)%nat with (S (S l)) by lia.
    apply fac_step; auto; [apply dM_ok|]. apply fac_step; auto; [apply dA_ok|]. apply fac0_bound.
  - apply (fac_weaken u u_range _ (l + 1)); [lia|]. apply IH. lia.
Qed.

(* ---- the perturbed band: every stored entry that the product reads, times the factor of its term ---- *)
Section Matrix.
Variable B : banded ARnd.
Variable v : list R.
Notation n := (bn B).
Notation m1 := (bm1 B).
Notation m2 := (bm2 B).
Notation mm := (bm1 B + bm2 B + 1)%nat.

Definition arow (i : nat) : nat -> R := fun s => @cslot ARnd B i s.
Definition brow (i : nat) : nat -> R := fun s => nth (s + i - m1) v 0.

Definition pfac (i s : nat) : R :=
  if (@row_lo ARnd B i <=? s)%nat && (s <? @row_lo ARnd B i + @row_cnt ARnd B i)%nat
  then fack 0 (@row_cnt ARnd B i) (@row_lo ARnd B i) (arow i) (brow i) (s - @row_lo ARnd B i)
  else 1.

Definition pslot (i s : nat) : R := arow i s * pfac i s.

Definition Bpert : banded AR :=
  @mkB AR n m1 m2 (@mkM AR (map (fun p => pslot (p / mm) (p mod mm)) (seq 0 (n * mm))) n mm).

Lemma Bpert_wf : @wfB AR Bpert.
Proof. unfold wfB, wfM, Bpert; cbn. now rewrite map_length, seq_length. Qed.

Lemma Bpert_slot i s : (i < n)%nat -> (s < mm)%nat -> @cslot AR Bpert i s = pslot i s.
Proof.
  intros Hi Hs. unfold cslot, Bpert; cbn [bm1 bm2 compact buf].
  assert (Hp : (i * mm + s < n * mm)%nat) by now apply flat_lt.
  set (gk := fun p => pslot (p / mm) (p mod mm)).
  rewrite (nth_indep _ _ (gk 0%nat)) by now rewrite map_length, seq_length.
  rewrite map_nth, seq_nth by auto. cbn [Nat.add]. unfold gk.
  destruct (divmod_flat mm i s Hs) as (-> & ->). reflexivity.
Qed.

Lemma pfac_bound i s : Rabs (pfac i s - 1) <= pw u (m1 + m2 + 2) - 1.
Proof using u_range fadd_ok fmul_ok.
  unfold pfac.
  destruct ((@row_lo ARnd B i <=? s)%nat && (s <? @row_lo ARnd B i + @row_cnt ARnd B i)%nat) eqn:Ec.
  - apply andb_true_iff in Ec as (E1 & E2). apply Nat.leb_le in E1. apply Nat.ltb_lt in E2.
    apply (fac_weaken u u_range _ (@row_cnt ARnd B i + 1)); [unfold row_cnt; lia|].
    apply fack_bound. lia.
  - replace (1 - 1) with 0 by ring. rewrite Rabs_R0. pose proof (pw_ge1 u u_range (m1 + m2 + 2)). lra.
Qed.

Lemma band_mul_backward_lemma :
  @wfB ARnd B -> length v = n ->
  bn Bpert = n /\ bm1 Bpert = m1 /\ bm2 Bpert = m2 /\ @wfB AR Bpert /\
  (forall i s, (i < n)%nat -> (s < mm)%nat ->
     Rabs (@cslot AR Bpert i s - @cslot ARnd B i s) <= (pw u (m1 + m2 + 2) - 1) * Rabs (@cslot ARnd B i s)) /\
  @band_mul ARnd B v = Ok (@dense_mulv AR Bpert v) /\
  @band_mul AR Bpert v = Ok (@dense_mulv AR Bpert v).
Proof using u_range fadd_ok fmul_ok.
  intros Hwf Hv. split; [reflexivity|]. split; [reflexivity|]. split; [reflexivity|]. split; [exact Bpert_wf|].
  split.
  { intros i s Hi Hs. rewrite Bpert_slot by auto. unfold pslot, arow.
    replace (@cslot ARnd B i s * pfac i s - @cslot ARnd B i s) with (@cslot ARnd B i s * (pfac i s - 1)) by ring.
    rewrite Rabs_mult, Rmult_comm. apply Rmult_le_compat_r; [apply Rabs_pos|]. apply pfac_bound. }
  split; [|apply (band_mul_ok AR_RingLaws); [exact Bpert_wf|exact Hv]].
  rewrite (band_mul_acc B v Hwf Hv). f_equal.
  unfold dense_mulv. change (seq 0 (bn Bpert)) with (seq 0 n).
  apply map_ext_in. intros i Hi. apply in_seq in Hi.
  rewrite (row_sum_dense AR_RingLaws Bpert v i) by (cbn; lia).
  change (@row_cnt AR Bpert i) with (@row_cnt ARnd B i). change (@row_lo AR Bpert i) with (@row_lo ARnd B i).
  unfold row_acc.
  change (@row_term ARnd B v i) with (fun s => fmul (arow i s) (brow i s)).
  rewrite acc_expand. rewrite Rmult_0_l, Rplus_0_l.
  apply sum_n_ext. intros k Hk. unfold row_term. change (bm1 Bpert) with m1.
  rewrite Bpert_slot; [|lia|unfold row_lo, row_cnt in *; lia].
  unfold pslot, pfac.
  replace ((@row_lo ARnd B i <=? @row_lo ARnd B i + k)%nat && (@row_lo ARnd B i + k <? @row_lo ARnd B i + @row_cnt ARnd B i)%nat)
    with true by (symmetry; apply andb_true_iff; split; [apply Nat.leb_le|apply Nat.ltb_lt]; lia).
  replace (@row_lo ARnd B i + k - @row_lo ARnd B i)%nat with k by lia.
  unfold brow. change (@zero AR) with 0. change (@mul AR) with Rmult. change (T AR) with R in *.
  change (@zero ARnd) with 0. ring.
Qed.

End Matrix.
End Round.

(* statement pinned in Props/C04.v *)
Lemma band_mul_backward_ex (u : R) (Hu : 0 <= u <= 1) (fadd fsub fmul fdiv : R -> R -> R)
  (Hadd : forall x y, exists d, Rabs d <= u /\ fadd x y = (x + y) * (1 + d))
  (Hmul : forall x y, exists d, Rabs d <= u /\ fmul x y = x * y * (1 + d))
  (B : banded (ARnd fadd fsub fmul fdiv)) (v : list R) :
  @wfB (ARnd fadd fsub fmul fdiv) B -> length v = bn B ->
  exists B' : banded AR,
    bn B' = bn B /\ bm1 B' = bm1 B /\ bm2 B' = bm2 B /\ @wfB AR B' /\
    (forall i s, (i < bn B)%nat -> (s < bm1 B + bm2 B + 1)%nat ->
       Rabs (@cslot AR B' i s - @cslot (ARnd fadd fsub fmul fdiv) B i s)
       <= ((1 + u) ^ (bm1 B + bm2 B + 2) - 1) * Rabs (@cslot (ARnd fadd fsub fmul fdiv) B i s)) /\
    @band_mul (ARnd fadd fsub fmul fdiv) B v = @band_mul AR B' v /\
    @band_mul AR B' v = Ok (@dense_mulv AR B' v).
Proof.
  intros Hwf Hv.
  destruct (band_mul_backward_lemma u Hu fadd fsub fmul fdiv Hadd Hmul B v Hwf Hv) as (E0 & E1 & E2 & Hwf' & Hb & Hm & Hm').
  exists (Bpert fadd fsub fmul fdiv B v). repeat split; auto; try apply Hwf'.
  now rewrite Hm, Hm'.
Qed.
