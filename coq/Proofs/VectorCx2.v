(* Proofs/VectorCx2.v -- C15, package cnorm: the norm laws for COMPLEX vectors (review item A5).
   About the very functions of Model/Vector.v at the complex arithmetic over the reals, ACR = CArith SAR of
   Proofs/ComplexR.v (Model/Complex.v's own operators, Signed::abs = (|z|, 0), |z| = sqrt (re^2 + im^2)):

     cnorm_inf            Vector<Complex<f64>>::norm_inf   (vec_cmplx.rs:34)   -- returns a real
     norm_1 (A := ACR)    generic Vector<T>::norm_1 through Signed::abs       -- returns the complex number (sum |z_i|, 0)
     dot (A := ACR)       generic Vector<T>::dot: the BILINEAR sum  sum u_i v_i  (no conjugation in the code)

   1. cnorm_inf is the regenerated source function (any SArith); its only panic is Index, exactly on the empty vector;
      over R it is the maximum of the moduli (attained upper bound), non-negative, definite, absolutely homogeneous for
      the model's vector * scalar, and satisfies the triangle inequality for the model's vector addition.
   2. norm_1 at ACR = (sum of the moduli, 0); non-negative, definite, homogeneous, triangle inequality;
      norm_inf <= re norm_1 <= n * norm_inf.
   3. Cauchy-Schwarz for the bilinear complex dot product: |sum u_i v_i| <= sqrt (sum |u_i|^2) * sqrt (sum |v_i|^2).
   The pure real-number tools (Rsum, maxl, dotR, sumsq, cauchy_schwarz) are those of Proofs/VectorR.v. *)
From Coq Require Import Reals Lra Lia List Psatz Arith.
From OV Require Import Base.Panic Base.Arith Model.Complex Model.Vector Model.Newton Proofs.Complex Proofs.Vector
                       Proofs.SrcEqBase gen.SrcVecCmplx Proofs.SrcEqVecCmplx Proofs.VectorR Proofs.ComplexField Proofs.ComplexR.
Import ListNotations.
Local Open Scope R_scope.

(* From here on AR / SAR / ACR are those of Proofs/ComplexR.v (imported last).  They are the same records as the
   instances of Proofs/VectorR.v (used by the real-vector theorems of Props/C15.v): *)
Lemma instances_agree_lemma : VectorR.AR = ComplexR.AR /\ VectorR.SAR = ComplexR.SAR.
Proof. split; reflexivity. Qed.

(* the modulus: Model/Complex.v's [cabs] (= Model/Vector.v's, the same body) at SAR *)
Notation cm := (@Complex.cabs SAR).

Lemma cm_eq (z : cplx AR) : cm z = R_sqrt.sqrt (re z * re z + im z * im z).
Proof. reflexivity. Qed.

Lemma cm_vec (z : cplx AR) : @Vector.cabs SAR z = cm z.
Proof. reflexivity. Qed.

Lemma cm_nonneg (z : cplx AR) : 0 <= cm z.
Proof. rewrite cm_eq. apply sqrt_pos. Qed.

Lemma cm_sqr (z : cplx AR) : cm z * cm z = re z * re z + im z * im z.
Proof. exact (cabs_sqr_lemma z). Qed.

Lemma cm_mul (z w : cplx AR) : cm (cmul z w) = cm z * cm w.
Proof. exact (cabs_mul_lemma z w). Qed.

Lemma cm_zero_iff (z : cplx AR) : cm z = 0 <-> z = czero.
Proof. exact (cabs_zero_iff_lemma z). Qed.

Lemma cm_czero : cm (@czero AR) = 0.
Proof. now apply cm_zero_iff. Qed.

(* the triangle inequality of the modulus, for the model's complex addition *)
Lemma sqrt_triangle2 (a b c d : R) :
  R_sqrt.sqrt ((a + c) * (a + c) + (b + d) * (b + d)) <= R_sqrt.sqrt (a * a + b * b) + R_sqrt.sqrt (c * c + d * d).
Proof.
  assert (HA : 0 <= a * a + b * b) by nra. assert (HB : 0 <= c * c + d * d) by nra.
  pose proof (sqrt_pos (a * a + b * b)) as HP. pose proof (sqrt_pos (c * c + d * d)) as HQ.
  pose proof (sqrt_sqrt _ HA) as EP. pose proof (sqrt_sqrt _ HB) as EQ.
  set (P := R_sqrt.sqrt (a * a + b * b)) in *. set (Q := R_sqrt.sqrt (c * c + d * d)) in *.
  assert (HC : a * c + b * d <= P * Q).
  { destruct (Rle_dec (a * c + b * d) (P * Q)) as [|Hn]; auto. exfalso.
    assert (H1 : P * Q < a * c + b * d) by lra. assert (H0 : 0 <= P * Q) by nra.
    assert (H2 : (P * Q) * (P * Q) < (a * c + b * d) * (a * c + b * d)) by nra.
    replace ((P * Q) * (P * Q)) with ((P * P) * (Q * Q)) in H2 by ring. rewrite EP, EQ in H2.
    assert (H3 : (a * c + b * d) * (a * c + b * d) + (a * d - b * c) * (a * d - b * c)
                 = (a * a + b * b) * (c * c + d * d)) by ring.
    assert (H4 : 0 <= (a * d - b * c) * (a * d - b * c)) by apply Rle_0_sqr. lra. }
  rewrite <- (sqrt_square (P + Q)) by lra.
  apply sqrt_le_1_alt. nra.
Qed.

Lemma cm_triangle (z w : cplx AR) : cm (cadd z w) <= cm z + cm w.
Proof. destruct z as [a b], w as [c d]. exact (sqrt_triangle2 a b c d). Qed.

(* ====================================================================== 1. cnorm_inf, any arithmetic *)
Section AnyS.
Context {F : SArith}.

(* the fold formulation of Model/Vector.v (the one run against the implementation, kind vec.cx) is the loop of the
   regenerated source (gen/SrcVecCmplx.v, rewritten from vec_cmplx.rs on every check run) *)
Lemma cnorm_inf_newton (v : list (cplx F)) : cnorm_inf v = Newton.norm_inf (NCplx F) v.
Proof.
  unfold cnorm_inf, Newton.norm_inf, for_. cbn [NCplx NA NR mag T SA CArith]. apply bind_ext_ok; intros z0 H0.
  assert (L : (1 <= length v)%nat) by (apply (rd_Ok_inv v 0 z0 z0) in H0; lia).
  rewrite (for_from_ext _ _ _ (fun i r => let* z := rd v i in
             Ok (if ltb r (Base.Arith.sqrt (abs_sqr z)) then Base.Arith.sqrt (abs_sqr z) else r))).
  2:{ intros i r _. destruct (rd v i) as [z|]; cbn [bind]; [|reflexivity].
      destruct (ltb r (Base.Arith.sqrt (abs_sqr z))); reflexivity. }
  rewrite (for_from_fold (rd v) (fun r z => if ltb r (Base.Arith.sqrt (abs_sqr z)) then Base.Arith.sqrt (abs_sqr z) else r)).
  rewrite mapM_rd_seq by lia. cbn [bind]. rewrite firstn_all2 by (rewrite skipn_length; lia). reflexivity.
Qed.

Lemma cnorm_inf_is_source_lemma (v : list (cplx F)) : s_cnorm_inf (F := F) v = cnorm_inf v.
Proof. rewrite cnorm_inf_newton. apply src_cnorm_inf. Qed.

(* the panic condition, exactly: Index, and only on the empty vector *)
Lemma cnorm_inf_panic_lemma (v : list (cplx F)) :
  (cnorm_inf v = Panic Index <-> v = []) /\
  (forall k, cnorm_inf v = Panic k -> k = Index /\ v = []) /\
  (v <> [] -> exists m, cnorm_inf v = Ok m).
Proof.
  destruct v as [|z0 t].
  - split; [split; reflexivity|]. split; [|congruence]. intros k E. cbn in E. injection E as <-. auto.
  - unfold cnorm_inf. cbn [rd nth_error bind]. split; [split; discriminate|]. split; [discriminate|].
    intros _. eexists; reflexivity.
Qed.

End AnyS.

(* ====================================================================== 1. cnorm_inf over R *)
Lemma ltb_step_max_C (r y : R) : (if @ltb ComplexR.AR r y then y else r) = Rmax r y.
Proof. cbn. unfold ComplexR.R_ltb, Rmax. destruct (Rlt_dec r y), (Rle_dec r y); auto; lra. Qed.

Lemma cnorm_inf_C (z0 : cplx AR) (t : list (cplx AR)) :
  cnorm_inf (F := SAR) (z0 :: t) = Ok (maxl (cm z0) (map cm t)).
Proof.
  unfold cnorm_inf. cbn [rd nth_error bind skipn]. f_equal. rewrite !cm_vec.
  generalize (cm z0). induction t as [|z t IH]; intros r; cbn [fold_left map]; [reflexivity|].
  rewrite cm_vec, ltb_step_max_C. unfold maxl. cbn [fold_left]. apply IH.
Qed.

(* cnorm_inf IS the maximum of the moduli: the value is an attained upper bound of { |z| : z in v }, and conversely *)
Lemma cnorm_inf_max_lemma (v : list (cplx AR)) (m : R) :
  cnorm_inf (F := SAR) v = Ok m <->
  (exists z, In z v /\ cm z = m) /\ (forall z, In z v -> cm z <= m).
Proof.
  destruct v as [|z0 t].
  - split; [discriminate|]. intros [(z & [] & _) _].
  - rewrite cnorm_inf_C.
    assert (Hat : exists z, In z (z0 :: t) /\ cm z = maxl (cm z0) (map cm t)).
    { destruct (maxl_attained (cm z0) (map cm t)) as [E|H].
      - exists z0. split; [now left|now rewrite E].
      - apply in_map_iff in H as (z & E & Hz). exists z. split; [now right|exact E]. }
    assert (Hub : forall z, In z (z0 :: t) -> cm z <= maxl (cm z0) (map cm t)).
    { intros z [<-|Hz]; [apply maxl_ge_init|]. apply maxl_ge_in. now apply in_map. }
    split.
    + intros E. injection E as <-. split; assumption.
    + intros [(z & Hz & Ez) Hm]. f_equal.
      destruct Hat as (z' & Hz' & Ez'). pose proof (Hm z' Hz'). pose proof (Hub z Hz). lra.
Qed.

Lemma cnorm_inf_nonneg_lemma (v : list (cplx AR)) m : cnorm_inf (F := SAR) v = Ok m -> 0 <= m.
Proof.
  intros E. apply cnorm_inf_max_lemma in E as [(z & _ & <-) _]. apply cm_nonneg.
Qed.

(* definiteness: the norm vanishes exactly on vectors all of whose entries are 0 + 0i *)
Lemma cnorm_inf_definite_lemma (v : list (cplx AR)) m : cnorm_inf (F := SAR) v = Ok m ->
  (m = 0 <-> forall z, In z v -> z = czero).
Proof.
  intros E. apply cnorm_inf_max_lemma in E as [(z & Hz & Ez) Hm]. split.
  - intros -> w Hw. apply cm_zero_iff. pose proof (Hm w Hw). pose proof (cm_nonneg w). lra.
  - intros H. rewrite <- Ez. apply cm_zero_iff. now apply H.
Qed.

(* absolute homogeneity for the model's vector * scalar (entry * c, the code's operand order) *)
Lemma cnorm_inf_homog_lemma (v : list (cplx AR)) (c : cplx AR) m : cnorm_inf (F := SAR) v = Ok m ->
  cnorm_inf (F := SAR) (vscale (A := ACR) v c) = Ok (cm c * m).
Proof.
  destruct v as [|z0 t]; [discriminate|]. rewrite cnorm_inf_C. intros E; injection E as <-.
  unfold vscale. cbn [map]. rewrite cnorm_inf_C. f_equal.
  rewrite <- maxl_scale by apply cm_nonneg. f_equal.
  - change (@mul ACR z0 c) with (cmul z0 c). rewrite cm_mul. apply Rmult_comm.
  - rewrite !map_map. apply map_ext. intros z. change (@mul ACR z c) with (cmul z c). rewrite cm_mul. apply Rmult_comm.
Qed.

Lemma zipw_cons_C (f : ACR -> ACR -> ACR) x u y v :
  zipw (A := ACR) f (x :: u) (y :: v) = f x y :: zipw (A := ACR) f u v.
Proof. reflexivity. Qed.

Lemma in_zipw_cadd (u v : list (cplx AR)) z :
  In z (zipw (A := ACR) (@add ACR) u v) -> exists x y, In x u /\ In y v /\ z = cadd x y.
Proof.
  unfold zipw. intros H. apply in_map_iff in H as ([x y] & <- & Hin).
  exists x, y. split; [eapply in_combine_l; eauto|]. split; [eapply in_combine_r; eauto|reflexivity].
Qed.

(* the triangle inequality for the model's vector addition *)
Lemma cnorm_inf_triangle_lemma (u v s : list (cplx AR)) a b : vadd (A := ACR) u v = Ok s ->
  cnorm_inf (F := SAR) u = Ok a -> cnorm_inf (F := SAR) v = Ok b ->
  exists m, cnorm_inf (F := SAR) s = Ok m /\ m <= a + b.
Proof.
  intros E Ea Eb. apply (vadd_inv (A := ACR)) in E as [L ->].
  destruct u as [|x0 tu]; [discriminate|]. destruct v as [|y0 tv]; [discriminate|].
  apply cnorm_inf_max_lemma in Ea as [_ Ha]. apply cnorm_inf_max_lemma in Eb as [_ Hb].
  rewrite zipw_cons_C, cnorm_inf_C. eexists; split; [reflexivity|].
  apply maxl_le_bound.
  - change (@add ACR x0 y0) with (cadd x0 y0). pose proof (cm_triangle x0 y0).
    pose proof (Ha x0 (or_introl eq_refl)). pose proof (Hb y0 (or_introl eq_refl)). lra.
  - intros r Hr. apply in_map_iff in Hr as (w & <- & Hw). apply in_zipw_cadd in Hw as (x & y & Hx & Hy & ->).
    pose proof (cm_triangle x y). pose proof (Ha x (or_intror Hx)). pose proof (Hb y (or_intror Hy)). lra.
Qed.

(* ====================================================================== 2. generic norm_1 at the complex instance *)
(* Signed::abs of Complex<f64> is the complex number (|z|, 0) *)
Lemma abs_ACR (z : cplx AR) : @abs ACR z = mkC (A := AR) (cm z) 0.
Proof. reflexivity. Qed.

Definition summod (v : list (cplx AR)) : R := Rsum (map cm v).

Lemma fold_cnorm1 (v : list (cplx AR)) (acc : cplx AR) :
  fold_left (fun (a : ACR) (x : ACR) => @add ACR a (@abs ACR x)) v acc = mkC (A := AR) (re acc + summod v) (im acc).
Proof.
  unfold summod. revert acc; induction v as [|z t IH]; intros acc; cbn [fold_left map Rsum].
  - destruct acc as [a b]. cbn [re im]. f_equal. lra.
  - rewrite IH. rewrite abs_ACR. cbn [add ACR CArith cadd re im]. f_equal; cbn; lra.
Qed.

(* the value: the complex number (sum of the moduli, 0) *)
Lemma cnorm1_value_lemma (v : list (cplx AR)) : norm_1 (A := ACR) v = mkC (A := AR) (summod v) 0.
Proof.
  unfold norm_1. rewrite fold_cnorm1. cbn [zero ACR CArith czero re im]. f_equal. cbn. lra.
Qed.

Lemma summod_nonneg v : 0 <= summod v.
Proof. apply Rsum_nonneg. intros x Hx. apply in_map_iff in Hx as (z & <- & _). apply cm_nonneg. Qed.

Lemma cnorm1_nonneg_lemma (v : list (cplx AR)) : 0 <= re (norm_1 (A := ACR) v) /\ im (norm_1 (A := ACR) v) = 0.
Proof. rewrite cnorm1_value_lemma. cbn [re im]. split; [apply summod_nonneg|reflexivity]. Qed.

Lemma summod_zero_iff v : summod v = 0 <-> forall z, In z v -> z = czero.
Proof.
  unfold summod. induction v as [|x t IH]; cbn [map Rsum].
  - split; [intros _ z []|reflexivity].
  - pose proof (cm_nonneg x) as Hx. pose proof (summod_nonneg t) as Ht. unfold summod in Ht. split.
    + intros E z [<-|Hz].
      * apply cm_zero_iff. lra.
      * apply IH; [lra|exact Hz].
    + intros H. assert (E1 : cm x = 0) by (apply cm_zero_iff, H; now left).
      assert (E2 : Rsum (map cm t) = 0) by (apply IH; intros z Hz; apply H; now right). lra.
Qed.

(* definiteness *)
Lemma cnorm1_definite_lemma (v : list (cplx AR)) :
  norm_1 (A := ACR) v = czero <-> forall z, In z v -> z = czero.
Proof.
  rewrite cnorm1_value_lemma, <- summod_zero_iff. split.
  - intros E. exact (f_equal re E).
  - intros ->. reflexivity.
Qed.

Lemma summod_scale v (c : cplx AR) : summod (vscale (A := ACR) v c) = cm c * summod v.
Proof.
  unfold summod, vscale. induction v as [|x t IH]; cbn [map Rsum]; [lra|].
  rewrite IH. change (@mul ACR x c) with (cmul x c). rewrite cm_mul. lra.
Qed.

(* homogeneity: as complex numbers  norm_1 (v * c) = |c| * norm_1 v  with |c| = Signed::abs c = (|c|, 0) *)
Lemma cnorm1_homog_lemma (v : list (cplx AR)) (c : cplx AR) :
  norm_1 (A := ACR) (vscale (A := ACR) v c) = @mul ACR (@abs ACR c) (norm_1 (A := ACR) v) /\
  re (norm_1 (A := ACR) (vscale (A := ACR) v c)) = cm c * re (norm_1 (A := ACR) v).
Proof.
  rewrite !cnorm1_value_lemma, summod_scale, abs_ACR. split; [|reflexivity].
  apply cplx_ext; cbn; lra.
Qed.

Lemma summod_add u v : length u = length v -> summod (zipw (A := ACR) (@add ACR) u v) <= summod u + summod v.
Proof.
  revert v; induction u as [|x u IH]; intros [|y v] H; cbn in H; try discriminate.
  - unfold summod; cbn. lra.
  - rewrite zipw_cons_C. unfold summod in *. cbn [map Rsum].
    injection H as H. specialize (IH v H). change (@add ACR x y) with (cadd x y).
    eapply Rle_trans; [apply Rplus_le_compat; [exact (cm_triangle x y)|exact IH]|]. right. ring.
Qed.

(* triangle inequality for the model's vector addition *)
Lemma cnorm1_triangle_lemma (u v s : list (cplx AR)) : vadd (A := ACR) u v = Ok s ->
  re (norm_1 (A := ACR) s) <= re (norm_1 (A := ACR) u) + re (norm_1 (A := ACR) v).
Proof.
  intros E. apply (vadd_inv (A := ACR)) in E as [L ->]. rewrite !cnorm1_value_lemma. cbn [re]. now apply summod_add.
Qed.

Lemma Rsum_le_length (l : list R) B : (forall y, In y l -> y <= B) -> Rsum l <= INR (length l) * B.
Proof.
  induction l as [|x t IH]; intros H.
  - cbn. lra.
  - cbn [Rsum length]. rewrite S_INR.
    assert (x <= B) by (apply H; now left). assert (Rsum t <= INR (length t) * B) by (apply IH; intros; apply H; now right).
    lra.
Qed.

(* norm_inf <= norm_1 <= n * norm_inf *)
Lemma cnorm_inf_le_norm1_lemma (v : list (cplx AR)) m : cnorm_inf (F := SAR) v = Ok m ->
  m <= re (norm_1 (A := ACR) v) /\ re (norm_1 (A := ACR) v) <= INR (length v) * m.
Proof.
  intros E. apply cnorm_inf_max_lemma in E as [(z & Hz & <-) Hm]. rewrite cnorm1_value_lemma. cbn [re]. split.
  - unfold summod. apply Rsum_in_le.
    + intros y Hy. apply in_map_iff in Hy as (w & <- & _). apply cm_nonneg.
    + now apply in_map.
  - unfold summod. pose proof (Rsum_le_length (map cm v) (cm z)) as HB. rewrite map_length in HB. apply HB.
    intros y Hy. apply in_map_iff in Hy as (w & <- & Hw). now apply Hm.
Qed.

(* ====================================================================== 3. Cauchy-Schwarz, bilinear complex dot *)
(* Vector::dot computes sum u_i * v_i WITHOUT conjugating (functions.rs:38-46): for complex vectors it is the bilinear
   form, not the Hermitian inner product (dot u u is not |u|^2: dot [i] [i] = -1).  The true inequality for it: *)
Definition sumabs2 (v : list (cplx AR)) : R := Rsum (map (fun z : cplx AR => re z * re z + im z * im z) v).

Lemma sumabs2_sumsq v : sumabs2 v = sumsq (map cm v).
Proof.
  unfold sumabs2, sumsq. rewrite map_map. f_equal. apply map_ext. intros z. symmetry. apply cm_sqr.
Qed.

Lemma cm_fold_dot (u v : list (cplx AR)) (acc : cplx AR) :
  cm (fold_left (fun (a : ACR) (p : ACR * ACR) => @add ACR a (@mul ACR (fst p) (snd p))) (combine u v) acc)
  <= cm acc + dotR (map cm u) (map cm v).
Proof.
  revert v acc; induction u as [|x u IH]; intros [|y v] acc; cbn [combine fold_left map dotR fst snd]; try lra.
  eapply Rle_trans; [apply IH|].
  change (@add ACR acc (@mul ACR x y)) with (cadd acc (cmul x y)).
  eapply Rle_trans; [apply Rplus_le_compat_r; exact (cm_triangle acc (cmul x y))|]. rewrite cm_mul. right. ring.
Qed.

Lemma cauchy_schwarz_sqrt (a b : list R) : dotR a b <= R_sqrt.sqrt (sumsq a) * R_sqrt.sqrt (sumsq b).
Proof.
  pose proof (cauchy_schwarz a b) as CS. pose proof (sumsq_nonneg a) as HA. pose proof (sumsq_nonneg b) as HB.
  pose proof (sqrt_pos (sumsq a)) as HP. pose proof (sqrt_pos (sumsq b)) as HQ.
  pose proof (sqrt_sqrt _ HA) as EP. pose proof (sqrt_sqrt _ HB) as EQ.
  set (P := R_sqrt.sqrt (sumsq a)) in *. set (Q := R_sqrt.sqrt (sumsq b)) in *. set (C := dotR a b) in *.
  destruct (Rle_dec C (P * Q)) as [|Hn]; auto. exfalso.
  assert (H1 : P * Q < C) by lra. assert (H0 : 0 <= P * Q) by nra.
  assert (H2 : (P * Q) * (P * Q) < C * C) by nra.
  replace ((P * Q) * (P * Q)) with ((P * P) * (Q * Q)) in H2 by ring. rewrite EP, EQ in H2. lra.
Qed.

Lemma cdot_cauchy_schwarz_lemma (u v : list (cplx AR)) (d : cplx AR) : dot (A := ACR) u v = Ok d ->
  cm d <= R_sqrt.sqrt (sumabs2 u) * R_sqrt.sqrt (sumabs2 v).
Proof.
  unfold dot. intros E. match type of E with (if ?b then _ else _) = _ => destruct b eqn:L end; [|discriminate].
  apply Nat.eqb_eq in L. injection E as <-.
  unfold dot_raw. eapply Rle_trans; [apply cm_fold_dot|].
  change (@zero ACR) with (@czero AR). rewrite cm_czero, Rplus_0_l, !sumabs2_sumsq. apply cauchy_schwarz_sqrt.
Qed.

(* the bilinear form is genuinely not an inner product: dot [i] [i] = -1 (so |dot u u| = sum|u_i|^2 only as a modulus) *)
Lemma cdot_not_hermitian : dot (A := ACR) [mkC (A := AR) 0 1] [mkC (A := AR) 0 1] = Ok (mkC (A := AR) (-1) 0).
Proof. unfold dot, dot_raw. cbn. f_equal. apply cplx_ext; cbn; lra. Qed.

(* Cauchy-Schwarz holds for the raw loop as well (combine stops at the shorter vector: lengths need not agree) *)
Lemma cdot_raw_cauchy_schwarz_lemma (u v : list (cplx AR)) :
  cm (dot_raw (A := ACR) u v) <= R_sqrt.sqrt (sumabs2 u) * R_sqrt.sqrt (sumabs2 v).
Proof.
  unfold dot_raw. eapply Rle_trans; [apply cm_fold_dot|].
  change (@zero ACR) with (@czero AR). rewrite cm_czero, Rplus_0_l, !sumabs2_sumsq. apply cauchy_schwarz_sqrt.
Qed.

(* ====================================================================== 4. the complex norms are the real norms of the moduli *)
(* ... so every law of Props/C15.v for real vectors transfers along  v |-> map |.| v  *)
Lemma Rabs_cm (z : cplx AR) : Rabs (cm z) = cm z.
Proof. apply Rabs_pos_eq, cm_nonneg. Qed.

Lemma cnorm_via_moduli_lemma (v : list (cplx AR)) :
  cnorm_inf (F := SAR) v = Vector.norm_inf (F := VectorR.SAR) Rabs (map cm v) /\
  norm_1 (A := ACR) v = mkC (A := AR) (norm_1 (A := VectorR.AR) (map cm v)) 0.
Proof.
  split.
  - destruct v as [|z0 t]; [reflexivity|]. rewrite cnorm_inf_C. cbn [map]. rewrite norm_inf_R. f_equal.
    rewrite Rabs_cm, map_map. f_equal. apply map_ext. intros z. symmetry. apply Rabs_cm.
  - rewrite cnorm1_value_lemma, norm_1_R. unfold summod, sumabs. f_equal. f_equal.
    rewrite map_map. apply map_ext. intros z. symmetry. apply Rabs_cm.
Qed.
