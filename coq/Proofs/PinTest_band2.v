(* Proofs/PinTest_band2.v -- compiled copy of Props/pending/C04_band2.v.txt under the header of Props/C04.v (plus the
   example matrices ex_S, ex_K, ex_K' and one Example of that file, copied verbatim): shows that the pinned blocks
   compile as they stand. *)
From Coq Require Import List Arith ZArith QArith Qcanon Lia Floats.
From OV Require Import Base.Panic Base.Arith Base.Flat Model.Vector Model.Matrix Model.Banded Inst.QcInst Inst.FloatInst Proofs.Banded Proofs.BandedLU Proofs.BandedTotal Proofs.BandedComplete Proofs.BandedDet Proofs.BandedHist Proofs.BandedEdit Proofs.BandedFill Legacy.C04Refuted.
Import ListNotations.
Local Open Scope nat_scope.

Definition ex_S : banded AQ :=
  @mkB AQ 4 2 1 (@mkM AQ [q 77 1; q (-13) 1; q 0 1; q 2 1;    q 5 7; q (-3) 1; q 1 1; q 1 1;
                          q 1 1; q 4 1; q (-1) 1; q 2 1;      q 2 1; q 0 1; q 3 1; q 1000 1] 4 4).
Definition ex_K : banded AQ :=
  @mkB AQ 2 1 1 (@mkM AQ [q 77 1; q 0 1; q 1 1;   q 1 1; q 5 1; q (-13) 1] 2 3).
Definition ex_K' : banded AQ :=
  @mkB AQ 2 1 1 (@mkM AQ [q 0 1; q 0 1; q 1 1;   q 1 1; q 5 1; q 1000 1] 2 3).
Example band_solve_padding_independent_nonvacuous :
  same_in_matrix_slots ex_K ex_K' /\ compact ex_K' <> compact ex_K.
Proof.
  split; [|intros E; discriminate E]. split; [repeat split|]. repeat split.
  intros i j Hi Hj. cbn in Hi, Hj.
  destruct i as [|[|i]]; try lia; destruct j as [|[|j]]; try lia; intros Hb; try discriminate Hb; vm_compute; reflexivity.
Qed.

(* ==== round two, package band2: blocks to append to Props/C04.v (compiled copy: Proofs/PinTest_band2.v) ==== *)

(* ---- the determinant in full (replaces the reading of band_det_spec_partial): over EVERY mathcomp fieldType F, with
   any abs/ltb that meet PivotLaws (abs 0 = 0, |x| never below 0, 0 < |x| for x <> 0), Banded::det of the model IS
   mathcomp's \det of the dense twin -- for every well-formed band with m1 <= n, singular twins included (value 0).
   [ArithOf F abs ltb leb] (Bridge/Det.v) is the Arith whose carrier, 0, 1, +, -, *, / (Panic DivZero at 0) and == are
   those of F; [mx_of n f] = \matrix_(i < n, j < n) f i j.  Proof (Proofs/BandedDet2.v, Bridge/BandDet.v): at the start
   of stage k the work matrix, row i read at its alignment column, is an n x n table; stage k exchanges two rows of
   the table and subtracts multiples of row k from the window rows, i.e. multiplies it on the left by a unit lower
   triangular matrix and a transposition; the table of stage 0 is the dense twin, the table of stage n is upper
   triangular with the pivots on the diagonal; d changes sign exactly at the exchanges.  A zero pivot gives a
   nontrivial kernel (Proofs/BandedComplete.v), hence \det = 0 = the product. ---- *)
From mathcomp Require ssreflect.ssrnat ssreflect.eqtype algebra.ssralg algebra.matrix algebra.rat.
From OV Require Import Model.Solve Proofs.LUPrim Proofs.LUTab Bridge.Det Proofs.BandedDet2 Proofs.BandedDet2Wide Bridge.BandDet.
Theorem band_det_is_det : forall (F : ssralg.GRing.Field.type) (abs : ssralg.GRing.Field.sort F -> ssralg.GRing.Field.sort F)
  (ltb leb : ssralg.GRing.Field.sort F -> ssralg.GRing.Field.sort F -> bool),
  PivotLaws (ArithOf F abs ltb leb) -> forall B : banded (ArithOf F abs ltb leb),
  wfB B -> bm1 B <= bn B ->
  band_det B = Ok (@matrix.determinant (ssralg.GRing.Field.ringType F) (bn B)
                     (@mx_of F (bn B) (@dense_entry (ArithOf F abs ltb leb) B))).
Proof. intros F abs ltb leb PL B. exact (band_det_is_det_lemma PL (B := B)). Qed.
Check band_det_is_det : forall (F : ssralg.GRing.Field.type) (abs : ssralg.GRing.Field.sort F -> ssralg.GRing.Field.sort F)
  (ltb leb : ssralg.GRing.Field.sort F -> ssralg.GRing.Field.sort F -> bool),
  PivotLaws (ArithOf F abs ltb leb) -> forall B : banded (ArithOf F abs ltb leb),
  wfB B -> bm1 B <= bn B ->
  band_det B = Ok (@matrix.determinant (ssralg.GRing.Field.ringType F) (bn B)
                     (@mx_of F (bn B) (@dense_entry (ArithOf F abs ltb leb) B))).
Print Assumptions band_det_is_det.
(* non-vacuity: mathcomp's rationals with |x| and < meet PivotLaws; the all-ones 3 x 3 tridiagonal band is well formed.
   What the function does on bands that need exchanges / are singular, at the exact tier: ex_S (two exchanges) and
   the singular [[1,1],[1,1]]. *)
Example band_det_is_det_nonvacuous :
  PivotLaws ratArith /\
  wfB (@band_new ratArith 3 1 1 (@ssralg.GRing.one (ssralg.GRing.Field.ringType rat.rat_fieldType))) /\ 1 <= 3 /\
  @band_det AQ ex_S = Ok (q (-12) 1) /\ @band_det AQ (@band_new AQ 2 1 1 (q 1 1)) = Ok (q 0 1).
Proof.
  split; [exact rat_PivotLaws|]. split; [apply band_new_wf|]. split; [lia|]. split; vm_compute; reflexivity.
Qed.

(* ---- the two determinants of the crate agree (band_det_spec of DESIGN, in full): Banded::det = Matrix::determinant of the
   dense twin ([tabulate n n f] is the flat row-major n x n buffer with entries f i j, Proofs/LUTab.v), as an equation
   between the two model functions -- both answer, singular input included.  PivLaws is the hypothesis of C02's
   determinant_is_det (it implies PivotLaws). ---- *)
Theorem band_det_spec : forall (F : ssralg.GRing.Field.type) (abs : ssralg.GRing.Field.sort F -> ssralg.GRing.Field.sort F)
  (ltb leb : ssralg.GRing.Field.sort F -> ssralg.GRing.Field.sort F -> bool),
  PivLaws (ArithOf F abs ltb leb) -> forall B : banded (ArithOf F abs ltb leb),
  wfB B -> bm1 B <= bn B ->
  band_det B = @Solve.determinant (ArithOf F abs ltb leb)
                 (@tabulate (ArithOf F abs ltb leb) (bn B) (bn B) (@dense_entry (ArithOf F abs ltb leb) B)).
Proof. intros F abs ltb leb PL B. exact (band_det_spec_lemma PL (B := B)). Qed.
Check band_det_spec : forall (F : ssralg.GRing.Field.type) (abs : ssralg.GRing.Field.sort F -> ssralg.GRing.Field.sort F)
  (ltb leb : ssralg.GRing.Field.sort F -> ssralg.GRing.Field.sort F -> bool),
  PivLaws (ArithOf F abs ltb leb) -> forall B : banded (ArithOf F abs ltb leb),
  wfB B -> bm1 B <= bn B ->
  band_det B = @Solve.determinant (ArithOf F abs ltb leb)
                 (@tabulate (ArithOf F abs ltb leb) (bn B) (bn B) (@dense_entry (ArithOf F abs ltb leb) B)).
Print Assumptions band_det_spec.
Example band_det_spec_nonvacuous : PivLaws ratArith.
Proof. exact rat_PivLaws. Qed.

(* ---- Banded::solve, completely, over every mathcomp field: with D the dense twin as a mathcomp matrix, the answer is the vector
   D^-1 b ([colv n x] = the column vector \col_(j < n) x_j, [invmx] mathcomp's inverse) when \det D != 0, and the refusal
   Panic DivZero (division by a zero pivot) when \det D == 0 -- whatever the signs, the exchanges needed and the padding. ---- *)
Theorem band_solve_spec : forall (F : ssralg.GRing.Field.type) (abs : ssralg.GRing.Field.sort F -> ssralg.GRing.Field.sort F)
  (ltb leb : ssralg.GRing.Field.sort F -> ssralg.GRing.Field.sort F -> bool),
  PivotLaws (ArithOf F abs ltb leb) ->
  forall (B : banded (ArithOf F abs ltb leb)) (b : list (ssralg.GRing.Field.sort F)),
  wfB B -> bm1 B <= bn B -> length b = bn B ->
  if @eqtype.eq_op (ssralg.GRing.Field.eqType F)
       (@matrix.determinant (ssralg.GRing.Field.ringType F) (bn B) (@mx_of F (bn B) (@dense_entry (ArithOf F abs ltb leb) B)))
       (ssralg.GRing.zero (ssralg.GRing.Field.zmodType F))
  then band_solve B b = Panic DivZero
  else exists x : list (ssralg.GRing.Field.sort F), band_solve B b = Ok x /\ length x = bn B /\
       @colv F (bn B) x =
       @matrix.mulmx (ssralg.GRing.Field.ringType F) (bn B) (bn B) 1
         (@matrix.invmx (ssralg.GRing.Field.comUnitRingType F) (bn B) (@mx_of F (bn B) (@dense_entry (ArithOf F abs ltb leb) B)))
         (@colv F (bn B) b).
Proof. intros F abs ltb leb PL B b. exact (band_solve_spec_lemma PL (B := B) (b := b)). Qed.
Check band_solve_spec : forall (F : ssralg.GRing.Field.type) (abs : ssralg.GRing.Field.sort F -> ssralg.GRing.Field.sort F)
  (ltb leb : ssralg.GRing.Field.sort F -> ssralg.GRing.Field.sort F -> bool),
  PivotLaws (ArithOf F abs ltb leb) ->
  forall (B : banded (ArithOf F abs ltb leb)) (b : list (ssralg.GRing.Field.sort F)),
  wfB B -> bm1 B <= bn B -> length b = bn B ->
  if @eqtype.eq_op (ssralg.GRing.Field.eqType F)
       (@matrix.determinant (ssralg.GRing.Field.ringType F) (bn B) (@mx_of F (bn B) (@dense_entry (ArithOf F abs ltb leb) B)))
       (ssralg.GRing.zero (ssralg.GRing.Field.zmodType F))
  then band_solve B b = Panic DivZero
  else exists x : list (ssralg.GRing.Field.sort F), band_solve B b = Ok x /\ length x = bn B /\
       @colv F (bn B) x =
       @matrix.mulmx (ssralg.GRing.Field.ringType F) (bn B) (bn B) 1
         (@matrix.invmx (ssralg.GRing.Field.comUnitRingType F) (bn B) (@mx_of F (bn B) (@dense_entry (ArithOf F abs ltb leb) B)))
         (@colv F (bn B) b).
Print Assumptions band_solve_spec.

(* ---- the same two theorems AT THE EXACT TIER ITSELF: AQ (Coq's canonical rationals Qc) is the instance of the model that the
   correspondence check runs against the implementation's Rat.  Bridge/BandDetQc.v gives Qc its mathcomp fieldType
   structure (== is Qc_eqb; + * - / are Qcplus Qcmult Qcopp Qcinv) and shows ArithOf Qc_fieldType Qc_abs Qc_ltb Qc_leb = AQ by
   reflexivity, so the theorems above apply to AQ verbatim.  band_det_spec_Qc mentions no mathcomp notion: it is an
   equation between the two model functions that the checks C04 and C02 tie to Banded::det and Matrix::determinant. ---- *)
From OV Require Import Proofs.LUQc Bridge.BandDetQc.
Theorem band_det_spec_Qc : forall B : banded AQ, wfB B -> bm1 B <= bn B ->
  @band_det AQ B = @Solve.determinant AQ (@tabulate AQ (bn B) (bn B) (@dense_entry AQ B)).
Proof. intros B. exact (band_det_spec_Qc_lemma (B := B)). Qed.
Check band_det_spec_Qc : forall B : banded AQ, wfB B -> bm1 B <= bn B ->
  @band_det AQ B = @Solve.determinant AQ (@tabulate AQ (bn B) (bn B) (@dense_entry AQ B)).
Print Assumptions band_det_spec_Qc.
Example band_det_spec_Qc_nonvacuous :    (* ex_S: 4 x 4, m1 = 2, m2 = 1, two exchanges, loud padding; both sides are -12 *)
  wfB ex_S /\ bm1 ex_S <= bn ex_S /\ @band_det AQ ex_S = Ok (q (-12) 1) /\
  @Solve.determinant AQ (@tabulate AQ (bn ex_S) (bn ex_S) (@dense_entry AQ ex_S)) = Ok (q (-12) 1).
Proof. split; [repeat split|]. split; [cbn; lia|]. split; vm_compute; reflexivity. Qed.
Theorem band_det_is_det_Qc : forall B : banded AQ, wfB B -> bm1 B <= bn B ->
  @band_det AQ B = Ok (@matrix.determinant (ssralg.GRing.Field.ringType Qc_fieldType) (bn B)
                         (@mx_of Qc_fieldType (bn B) (@dense_entry AQ B))).
Proof. intros B. exact (band_det_is_det_Qc_lemma (B := B)). Qed.
Check band_det_is_det_Qc : forall B : banded AQ, wfB B -> bm1 B <= bn B ->
  @band_det AQ B = Ok (@matrix.determinant (ssralg.GRing.Field.ringType Qc_fieldType) (bn B)
                         (@mx_of Qc_fieldType (bn B) (@dense_entry AQ B))).
Print Assumptions band_det_is_det_Qc.

(* ---- the determinant vanishes exactly on the singular twins, and the solver answers exactly on the nonsingular ones -- over
   ANY field arithmetic (FieldLaws + PivotLaws; no mathcomp: Qc, the reals, Complex over a field alike).  This completes
   band_det_spec_partial (which had "nonsingular => nonzero" only).  New half (Proofs/BandedDet2Ker.v): nonzero pivots give a
   trivial kernel -- a solution of D x = 0 is carried forwards through the row operations of every stage to the final
   upper triangular table with nonzero diagonal.  Consequence: whether band_solve refuses does not depend on the
   right-hand side: one answer means nonsingular, nonsingular means every right-hand side is answered exactly. ---- *)
From OV Require Import Proofs.BandedDet2Ker.
Theorem band_det_nonzero_iff_nonsingular : forall (A : Arith), FieldLaws A -> PivotLaws A -> forall B : banded A,
  wfB B -> bm1 B <= bn B ->
  exists dd, band_det B = Ok dd /\ (dd <> zero <-> trivial_kernel B).
Proof. intros A FL PL B. exact (band_det_nonzero_iff_gen FL PL B). Qed.
Check band_det_nonzero_iff_nonsingular : forall (A : Arith), FieldLaws A -> PivotLaws A -> forall B : banded A,
  wfB B -> bm1 B <= bn B ->
  exists dd, band_det B = Ok dd /\ (dd <> zero <-> trivial_kernel B).
Print Assumptions band_det_nonzero_iff_nonsingular.
Theorem band_solve_answers_iff_nonsingular : forall (A : Arith), FieldLaws A -> PivotLaws A -> forall B : banded A,
  wfB B -> bm1 B <= bn B ->
  ((exists b x, length b = bn B /\ band_solve B b = Ok x) <-> trivial_kernel B) /\
  (trivial_kernel B <->
   forall b, length b = bn B -> exists x, band_solve B b = Ok x /\ length x = bn B /\ dense_mulv B x = b).
Proof. intros A FL PL B. exact (band_solve_answers_iff_gen FL PL B). Qed.
Check band_solve_answers_iff_nonsingular : forall (A : Arith), FieldLaws A -> PivotLaws A -> forall B : banded A,
  wfB B -> bm1 B <= bn B ->
  ((exists b x, length b = bn B /\ band_solve B b = Ok x) <-> trivial_kernel B) /\
  (trivial_kernel B <->
   forall b, length b = bn B -> exists x, band_solve B b = Ok x /\ length x = bn B /\ dense_mulv B x = b).
Print Assumptions band_solve_answers_iff_nonsingular.
Example band_det_nonzero_iff_nonsingular_nonvacuous :   (* ex_K = [[0,1],[1,5]]: nonsingular (band_solve_complete_nonvacuous), det -1 *)
  PivotLaws AQ /\ wfB ex_K /\ bm1 ex_K <= bn ex_K /\ @band_det AQ ex_K = Ok (q (-1) 1).
Proof. split; [exact AQ_PivotLaws|]. split; [repeat split|]. split; [cbn; lia|]. vm_compute. reflexivity. Qed.

(* ---- m1 <= n is necessary, and what happens without it is known exactly: on a well-formed band with m1 > n, over ANY
   arithmetic (f64 included), decompose falls off the compact buffer in its first loop (the left shift reaches row n),
   so det and solve panic with an index error and never return a value (solve's own size guard comes first). ---- *)
Theorem band_wide_panics : forall (A : Arith) (B : banded A),
  wfB B -> bn B < bm1 B ->
  band_det B = Panic Index /\
  forall b : list A, band_solve B b = if bn B =? length b then Panic Index else Panic Guard.
Proof. intros A B. exact (band_wide_panics_lemma B). Qed.
Check band_wide_panics : forall (A : Arith) (B : banded A),
  wfB B -> bn B < bm1 B ->
  band_det B = Panic Index /\
  forall b : list A, band_solve B b = if bn B =? length b then Panic Index else Panic Guard.
Print Assumptions band_wide_panics.
Example band_wide_panics_nonvacuous :
  wfB (@band_new AQ 2 3 0 (q 1 1)) /\ 2 < 3 /\ @band_det AQ (@band_new AQ 2 3 0 (q 1 1)) = Panic Index.
Proof. split; [apply band_new_wf|]. split; [lia|]. vm_compute. reflexivity. Qed.

(* ---- padding never reaches a result of the compact LU, over ANY arithmetic -- binary64 with NaN or infinite padding
   included; no ring or field law, no hypothesis on the kernel, no bound on m1: two well-formed bands that agree on every
   in-matrix slot get the same determinant and the same solution, or the same panic.  (Lockstep proof,
   Proofs/BandedDet2Pad.v: the two runs choose the same pivots, make the same exchanges, store the same multipliers, and
   their work matrices agree on every slot whose column lies inside the matrix; padding values only flow into padding
   slots.)  This supersedes the reading "on a nonsingular band over a field" of band_solve_padding_independent. ---- *)
From OV Require Import Proofs.BandedDet2Pad Proofs.BandedDet2Cor Proofs.BandedDet2Round.
Theorem band_det_padding_independent : forall (A : Arith) (B B' : banded A),
  wfB B -> same_in_matrix_slots B B' -> band_det B' = band_det B.
Proof. intros A B B'. exact (band_det_padding_lemma B B'). Qed.
Check band_det_padding_independent : forall (A : Arith) (B B' : banded A),
  wfB B -> same_in_matrix_slots B B' -> band_det B' = band_det B.
Print Assumptions band_det_padding_independent.
Theorem band_solve_padding_independent_any : forall (A : Arith) (B B' : banded A) (b : list A),
  wfB B -> same_in_matrix_slots B B' -> band_solve B' b = band_solve B b.
Proof. intros A B B' b. exact (band_solve_padding_any_lemma B B' b). Qed.
Check band_solve_padding_independent_any : forall (A : Arith) (B B' : banded A) (b : list A),
  wfB B -> same_in_matrix_slots B B' -> band_solve B' b = band_solve B b.
Print Assumptions band_solve_padding_independent_any.
(* ... and the matrix-vector product likewise (band_mul_spec has this under ring laws; here: any arithmetic) *)
Theorem band_mul_padding_independent_any : forall (A : Arith) (B B' : banded A) (v : list A),
  wfB B -> length v = bn B -> same_in_matrix_slots B B' -> band_mul B' v = band_mul B v.
Proof. intros A B B' v. exact (band_mul_padding_any_lemma B B' v). Qed.
Check band_mul_padding_independent_any : forall (A : Arith) (B B' : banded A) (v : list A),
  wfB B -> length v = bn B -> same_in_matrix_slots B B' -> band_mul B' v = band_mul B v.
Print Assumptions band_mul_padding_independent_any.
(* non-vacuity at binary64: [[2,1],[1,5]] (m1 = m2 = 1) once with NaN and once with 0 / 7 in the two padding slots *)
Definition ex_F : banded AF := @mkB AF 2 1 1 (@mkM AF [nan; 2; 1;   1; 5; nan]%float 2 3).
Definition ex_F' : banded AF := @mkB AF 2 1 1 (@mkM AF [0; 2; 1;   1; 5; 7]%float 2 3).
Example band_padding_independent_nonvacuous :
  wfB ex_F /\ same_in_matrix_slots ex_F ex_F' /\ compact ex_F' <> compact ex_F /\
  wfB ex_K /\ same_in_matrix_slots ex_K ex_K' /\ compact ex_K' <> compact ex_K.
Proof.
  split; [repeat split|]. split.
  { split; [repeat split|]. repeat split.
    intros i j Hi Hj. cbn in Hi, Hj.
    destruct i as [|[|i]]; try lia; destruct j as [|[|j]]; try lia; intros Hb; try discriminate Hb; vm_compute; reflexivity. }
  split.
  { intros E. apply (f_equal (fun m : matrix AF => PrimFloat.eqb (nth 5 (buf m) 0%float) (nth 5 (buf m) 0%float))) in E.
    vm_compute in E. discriminate E. }
  split; [repeat split|]. exact band_solve_padding_independent_nonvacuous.
Qed.

(* ---- the hypothesis m1 <= n dropped from soundness: on EVERY well-formed band whatever band_solve returns solves the
   dense twin's system (for m1 > n it returns nothing, band_wide_panics) ---- *)
Theorem band_solve_sound_all : forall (A : Arith), FieldLaws A -> forall (B : banded A) (b x : list A),
  wfB B -> length b = bn B -> band_solve B b = Ok x -> length x = bn B /\ dense_mulv B x = b.
Proof. intros A FL B b x. exact (band_solve_sound_all_lemma FL B b x). Qed.
Check band_solve_sound_all : forall (A : Arith), FieldLaws A -> forall (B : banded A) (b x : list A),
  wfB B -> length b = bn B -> band_solve B b = Ok x -> length x = bn B /\ dense_mulv B x = b.
Print Assumptions band_solve_sound_all.

(* ---- every (n, m1, m2), every right-hand side of the right length: an exact answer, or the division by a zero pivot
   of the solver's own factorisation (m1 <= n), or the index panic of the left shift (m1 > n); nothing else ---- *)
Theorem band_solve_trichotomy : forall (A : Arith), FieldLaws A -> forall (B : banded A) (b : list A),
  wfB B -> length b = bn B ->
  (exists x, band_solve B b = Ok x /\ length x = bn B /\ dense_mulv B x = b) \/
  (bm1 B <= bn B /\ band_solve B b = Panic DivZero /\
   exists auN alN indexN dN,
     decompose_gen false B (compact B) (mat_new (bn B) (bm1 B) zero) (repeat 0 (bn B)) = Ok (auN, alN, indexN, dN) /\
     exists i, i < bn B /\ mat_at auN (bm1 B + bm2 B + 1) i 0 = zero) \/
  (bn B < bm1 B /\ band_solve B b = Panic Index).
Proof. intros A FL B b. exact (band_solve_trichotomy_lemma FL B b). Qed.
Check band_solve_trichotomy : forall (A : Arith), FieldLaws A -> forall (B : banded A) (b : list A),
  wfB B -> length b = bn B ->
  (exists x, band_solve B b = Ok x /\ length x = bn B /\ dense_mulv B x = b) \/
  (bm1 B <= bn B /\ band_solve B b = Panic DivZero /\
   exists auN alN indexN dN,
     decompose_gen false B (compact B) (mat_new (bn B) (bm1 B) zero) (repeat 0 (bn B)) = Ok (auN, alN, indexN, dN) /\
     exists i, i < bn B /\ mat_at auN (bm1 B + bm2 B + 1) i 0 = zero) \/
  (bn B < bm1 B /\ band_solve B b = Panic Index).
Print Assumptions band_solve_trichotomy.
Example band_solve_trichotomy_nonvacuous :   (* all three outcomes occur *)
  is_ok (@band_solve AQ ex_S [q 2 1; q (-1) 1; q 6 1; q 5 1]) = true /\
  @band_solve AQ (@band_new AQ 2 1 1 (q 0 1)) [q 1 1; q 1 1] = Panic DivZero /\
  @band_solve AQ (@band_new AQ 2 3 0 (q 1 1)) [q 1 1; q 1 1] = Panic Index.
Proof. repeat split; vm_compute; reflexivity. Qed.

(* ---- binary64 half of the product, as far as a theorem reaches: componentwise backward error of &B * &v in the STANDARD MODEL
   of floating-point arithmetic ([ARnd fadd fsub fmul fdiv], Proofs/TridiagRound.v: the operations are arbitrary functions on
   the reals with fadd x y = (x + y)(1 + d), fmul x y = (x y)(1 + d), |d| <= u; no underflow/overflow -- the SAME Gallina
   band_mul that the check runs at Qc and at the IEEE floats).  The computed product is the EXACT product ([AR]: real
   arithmetic) of a band B' of the same sizes whose every stored entry differs from that of B by at most
   gamma |entry|, gamma = (1 + u)^(m1 + m2 + 2) - 1 (about (m1 + m2 + 2) u): fl(B v) = (B + dB) v, |dB| <= gamma |B|, with a
   constant that depends on the band width and NOT on n.  (A backward-error statement for the compact LU solve is not
   proved.) ---- *)
From Coq Require Import Reals.
From OV Require Import Proofs.VectorR Proofs.TridiagRound Proofs.BandedDet2Round.
Theorem band_mul_backward_error : forall (u : R), (0 <= u <= 1)%R -> forall fadd fsub fmul fdiv : R -> R -> R,
  (forall x y : R, exists d : R, (Rabs d <= u)%R /\ fadd x y = ((x + y) * (1 + d))%R) ->
  (forall x y : R, exists d : R, (Rabs d <= u)%R /\ fmul x y = (x * y * (1 + d))%R) ->
  forall (B : banded (ARnd fadd fsub fmul fdiv)) (v : list R),
  @wfB (ARnd fadd fsub fmul fdiv) B -> length v = bn B ->
  exists B' : banded AR,
    bn B' = bn B /\ bm1 B' = bm1 B /\ bm2 B' = bm2 B /\ @wfB AR B' /\
    (forall i s, i < bn B -> s < bm1 B + bm2 B + 1 ->
       (Rabs (@cslot AR B' i s - @cslot (ARnd fadd fsub fmul fdiv) B i s)
        <= ((1 + u) ^ (bm1 B + bm2 B + 2) - 1) * Rabs (@cslot (ARnd fadd fsub fmul fdiv) B i s))%R) /\
    @band_mul (ARnd fadd fsub fmul fdiv) B v = @band_mul AR B' v /\
    @band_mul AR B' v = Ok (@dense_mulv AR B' v).
Proof. intros u Hu fadd fsub fmul fdiv Hadd Hmul B v. exact (band_mul_backward_ex u Hu fadd fsub fmul fdiv Hadd Hmul B v). Qed.
Check band_mul_backward_error : forall (u : R), (0 <= u <= 1)%R -> forall fadd fsub fmul fdiv : R -> R -> R,
  (forall x y : R, exists d : R, (Rabs d <= u)%R /\ fadd x y = ((x + y) * (1 + d))%R) ->
  (forall x y : R, exists d : R, (Rabs d <= u)%R /\ fmul x y = (x * y * (1 + d))%R) ->
  forall (B : banded (ARnd fadd fsub fmul fdiv)) (v : list R),
  @wfB (ARnd fadd fsub fmul fdiv) B -> length v = bn B ->
  exists B' : banded AR,
    bn B' = bn B /\ bm1 B' = bm1 B /\ bm2 B' = bm2 B /\ @wfB AR B' /\
    (forall i s, i < bn B -> s < bm1 B + bm2 B + 1 ->
       (Rabs (@cslot AR B' i s - @cslot (ARnd fadd fsub fmul fdiv) B i s)
        <= ((1 + u) ^ (bm1 B + bm2 B + 2) - 1) * Rabs (@cslot (ARnd fadd fsub fmul fdiv) B i s))%R) /\
    @band_mul (ARnd fadd fsub fmul fdiv) B v = @band_mul AR B' v /\
    @band_mul AR B' v = Ok (@dense_mulv AR B' v).
Print Assumptions band_mul_backward_error.
(* non-vacuity: an inexact arithmetic in the model (every sum and product 25% too large, u = 1/2) and a well-formed band over it *)
Example band_mul_backward_error_nonvacuous :
  (0 <= / 2 <= 1)%R /\
  (forall x y : R, exists d : R, (Rabs d <= / 2)%R /\ ((x + y) * (1 + / 4))%R = ((x + y) * (1 + d))%R) /\
  (forall x y : R, exists d : R, (Rabs d <= / 2)%R /\ (x * y * (1 + / 4))%R = (x * y * (1 + d))%R) /\
  @wfB (ARnd (fun x y => ((x + y) * (1 + / 4))%R) Rminus (fun x y => (x * y * (1 + / 4))%R) Rdiv)
       (@band_new (ARnd (fun x y => ((x + y) * (1 + / 4))%R) Rminus (fun x y => (x * y * (1 + / 4))%R) Rdiv) 3 1 1 1%R).
Proof.
  split; [split; Lra.lra|].
  assert (H : (Rabs (/ 4) <= / 2)%R) by (rewrite Rabs_pos_eq; Lra.lra).
  split; [intros x y; exists (/ 4)%R; split; [exact H|reflexivity]|].
  split; [intros x y; exists (/ 4)%R; split; [exact H|reflexivity]|]. apply band_new_wf.
Qed.

(* ---- the tie by proof carried through to the new theorems: the same statements about the functions REGENERATED FROM
   src/banded.rs on this run (gen/SrcBanded.v; equalities Proofs/SrcEqBanded.v): the translated Banded::det is the determinant
   of the dense twin at the exact tier (singular twins included; the matrix determinant is the model function that C02
   ties -- on purpose C04 does not depend on the source text of src/matrix/solve.rs), and the translated det / solve /
   &B * &v do not see padding, over any arithmetic. ---- *)
From OV Require Import gen.SrcBanded Proofs.BandedDet2Src.
Theorem source_band_det_is_determinant_Qc : forall B : banded AQ, wfB B -> bm1 B <= bn B ->
  @s_band_det AQ B = @Solve.determinant AQ (@tabulate AQ (bn B) (bn B) (@dense_entry AQ B)).
Proof. exact source_band_det_spec_Qc_lemma. Qed.
Check source_band_det_is_determinant_Qc : forall B : banded AQ, wfB B -> bm1 B <= bn B ->
  @s_band_det AQ B = @Solve.determinant AQ (@tabulate AQ (bn B) (bn B) (@dense_entry AQ B)).
Print Assumptions source_band_det_is_determinant_Qc.
Theorem source_band_padding_independent : forall (A : Arith) (B B' : banded A),
  wfB B -> same_in_matrix_slots B B' ->
  s_band_det B' = s_band_det B /\
  (forall b, s_band_solve B' b = s_band_solve B b) /\
  (forall v, length v = bn B -> s_band_mul B' v = s_band_mul B v).
Proof. intros A B B'. exact (source_band_padding_lemma B B'). Qed.
Check source_band_padding_independent : forall (A : Arith) (B B' : banded A),
  wfB B -> same_in_matrix_slots B B' ->
  s_band_det B' = s_band_det B /\
  (forall b, s_band_solve B' b = s_band_solve B b) /\
  (forall v, length v = bn B -> s_band_mul B' v = s_band_mul B v).
Print Assumptions source_band_padding_independent.
